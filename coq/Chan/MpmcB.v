(* Chan/MpmcB.v — K2 op-level model of fibre's bounded MPMC channel
   (/repo/channels/src/mpmc_v2/{mod,core,sync_impl,async_impl}.rs; public API fibre::mpmc::{bounded,
   bounded_async}).  One public API call = one step; for the async forms one poll and one drop of a
   future are steps.  Executable, extracted to OCaml and tied to the real code by D1 on every run.
   NO proofs here (see Proofs/MpmcBProofs.v).

   Faithful to the code that exists, including its defects; every candidate repair is a boolean of
   [fixes] (all false = the code as it is today):

     fx03   Receiver::recv_timeout tests the handle's own closed flag                      (F-03)
     fx03f  SendFuture/RecvFuture::poll test the closed flag of the handle they borrow     (F-03, futures)
     fx06   a RecvFuture that completes while its waiter entry is still queued unlinks it   (F-06)
     fx07   to_sync/to_async carry the closed flag over                                     (F-07)
     fx08   a RecvFuture woken CLOSED re-drains the buffer before reporting Disconnected    (F-08)
     fx12   dropping a future that already consumed a wake (SUCCESS) passes the wake on     (F-12)
     fx33   cloning a closed handle yields a closed clone and does not bump the count       (F-33)

   What is abstracted: the ring buffer is a list of payload ids (UnsynchronizedRingBuffer's index
   arithmetic is exercised by D1 with non-power-of-two capacities and wrap-around); the two *sync*
   waiter queues are absent because in a sequential history no blocking call is ever issued where it
   would park (the driver prints WOULDBLOCK instead, as the model does) and recv_timeout(0) pushes
   and removes its stack waiter inside one call; waker clones are waker ids; a waiter entry is
   (future id, waker id) and the raw `*const AtomicU8` it carries is the future's [f_state] — a
   successful compare_exchange through it on a future that has been dropped (a write into freed memory
   in the real code) is recorded as [bad]; reads of such a cell are not observable by the driver and
   are covered by the no-dangling-registration theorem instead. *)
From Fibre Require Import Common.Base.

(** * association lists keyed by N (handles, futures) *)
Fixpoint aget {A} (k : N) (l : list (N * A)) : option A :=
  match l with
  | [] => None
  | (k', x) :: t => if N.eqb k k' then Some x else aget k t
  end.

Fixpoint aset {A} (k : N) (v : A) (l : list (N * A)) : list (N * A) :=
  match l with
  | [] => [(k, v)]
  | (k', x) :: t => if N.eqb k k' then (k, v) :: t else (k', x) :: aset k v t
  end.

(** * configuration, handles, futures *)
Record fixes := mkFx { fx03 : bool; fx03f : bool; fx06 : bool; fx07 : bool; fx08 : bool; fx12 : bool; fx33 : bool }.

Definition no_fixes := mkFx false false false false false false false.
Definition all_fixes := mkFx true true true true true true true.

(* core.rs STATE_WAITING=0, STATE_CLOSED_BUFFERED=1, STATE_SUCCESS_SPACE=3, STATE_CANCELLED=8 *)
Inductive wst := Waiting | WClosed | Success | Cancelled.

Definition is_waiting (w : wst) : bool := match w with Waiting => true | _ => false end.
Definition is_success (w : wst) : bool := match w with Success => true | _ => false end.
Definition is_wclosed (w : wst) : bool := match w with WClosed => true | _ => false end.

(* mod.rs: Sender/Receiver/AsyncSender/AsyncReceiver { shared, closed } *)
Record handle := mkH { h_tx : bool; h_async : bool; h_closed : bool; h_live : bool }.

(* async_impl.rs: SendFuture { sender, item, state, is_registered } / RecvFuture { receiver, state, is_registered } *)
Record fut := mkF {
  f_recv : bool;            (* RecvFuture (true) or SendFuture (false) *)
  f_h : N;                  (* the handle it borrows *)
  f_item : option N;        (* SendFuture.item *)
  f_state : wst;            (* the inline state byte the queued waiter points to *)
  f_reg : bool;             (* is_registered *)
  f_live : bool;            (* not yet dropped *)
  f_done : bool             (* a poll returned Ready *)
}.

(* ghost: which known-defect event has happened in this history *)
Record taints := mkT { t03 : bool; t03f : bool; t06 : bool; t07 : bool; t08 : bool; t12 : bool; t33 : bool }.
Definition no_taint := mkT false false false false false false false.

Record st := mkSt {
  cap : N;
  fx : fixes;
  (* MpmcChannelInternal *)
  q : list N;               (* queue (front = head) *)
  sc : N;                   (* sender_count — the count the code keeps *)
  rc : N;                   (* receiver_count *)
  asq : list (N * N);       (* waiting_async_senders: (future, waker) *)
  arq : list (N * N);       (* waiting_async_receivers *)
  (* the program's objects *)
  hs : list (N * handle);
  fs : list (N * fut);
  next : N;                 (* next payload id *)
  (* ghost accounting *)
  acc : list N;             (* ids accepted by the channel, in acceptance order *)
  recvd : list N;           (* ids returned by successful receives, in order *)
  back : list N;            (* ids handed back inside an error *)
  dropped : list N;         (* ids destroyed by the API (value-less errors, futures dropped with their item) *)
  freed : bool;             (* MpmcShared dropped (last handle struct gone): q's residue is destroyed *)
  tn : taints;
  (* events of the current step *)
  wk : list N;              (* wakers invoked, in order *)
  dk : list N;              (* payload ids destroyed *)
  bad : bool                (* the channel dereferenced the state cell of a dropped future *)
}.

(** ** field updaters *)
Definition with_q x s := mkSt (cap s) (fx s) x (sc s) (rc s) (asq s) (arq s) (hs s) (fs s) (next s) (acc s) (recvd s) (back s) (dropped s) (freed s) (tn s) (wk s) (dk s) (bad s).
Definition with_sc x s := mkSt (cap s) (fx s) (q s) x (rc s) (asq s) (arq s) (hs s) (fs s) (next s) (acc s) (recvd s) (back s) (dropped s) (freed s) (tn s) (wk s) (dk s) (bad s).
Definition with_rc x s := mkSt (cap s) (fx s) (q s) (sc s) x (asq s) (arq s) (hs s) (fs s) (next s) (acc s) (recvd s) (back s) (dropped s) (freed s) (tn s) (wk s) (dk s) (bad s).
Definition with_asq x s := mkSt (cap s) (fx s) (q s) (sc s) (rc s) x (arq s) (hs s) (fs s) (next s) (acc s) (recvd s) (back s) (dropped s) (freed s) (tn s) (wk s) (dk s) (bad s).
Definition with_arq x s := mkSt (cap s) (fx s) (q s) (sc s) (rc s) (asq s) x (hs s) (fs s) (next s) (acc s) (recvd s) (back s) (dropped s) (freed s) (tn s) (wk s) (dk s) (bad s).
Definition with_hs x s := mkSt (cap s) (fx s) (q s) (sc s) (rc s) (asq s) (arq s) x (fs s) (next s) (acc s) (recvd s) (back s) (dropped s) (freed s) (tn s) (wk s) (dk s) (bad s).
Definition with_fs x s := mkSt (cap s) (fx s) (q s) (sc s) (rc s) (asq s) (arq s) (hs s) x (next s) (acc s) (recvd s) (back s) (dropped s) (freed s) (tn s) (wk s) (dk s) (bad s).
Definition with_next x s := mkSt (cap s) (fx s) (q s) (sc s) (rc s) (asq s) (arq s) (hs s) (fs s) x (acc s) (recvd s) (back s) (dropped s) (freed s) (tn s) (wk s) (dk s) (bad s).
Definition with_acc x s := mkSt (cap s) (fx s) (q s) (sc s) (rc s) (asq s) (arq s) (hs s) (fs s) (next s) x (recvd s) (back s) (dropped s) (freed s) (tn s) (wk s) (dk s) (bad s).
Definition with_recvd x s := mkSt (cap s) (fx s) (q s) (sc s) (rc s) (asq s) (arq s) (hs s) (fs s) (next s) (acc s) x (back s) (dropped s) (freed s) (tn s) (wk s) (dk s) (bad s).
Definition with_back x s := mkSt (cap s) (fx s) (q s) (sc s) (rc s) (asq s) (arq s) (hs s) (fs s) (next s) (acc s) (recvd s) x (dropped s) (freed s) (tn s) (wk s) (dk s) (bad s).
Definition with_dropped x s := mkSt (cap s) (fx s) (q s) (sc s) (rc s) (asq s) (arq s) (hs s) (fs s) (next s) (acc s) (recvd s) (back s) x (freed s) (tn s) (wk s) (dk s) (bad s).
Definition with_freed x s := mkSt (cap s) (fx s) (q s) (sc s) (rc s) (asq s) (arq s) (hs s) (fs s) (next s) (acc s) (recvd s) (back s) (dropped s) x (tn s) (wk s) (dk s) (bad s).
Definition with_tn x s := mkSt (cap s) (fx s) (q s) (sc s) (rc s) (asq s) (arq s) (hs s) (fs s) (next s) (acc s) (recvd s) (back s) (dropped s) (freed s) x (wk s) (dk s) (bad s).
Definition with_wk x s := mkSt (cap s) (fx s) (q s) (sc s) (rc s) (asq s) (arq s) (hs s) (fs s) (next s) (acc s) (recvd s) (back s) (dropped s) (freed s) (tn s) x (dk s) (bad s).
Definition with_dk x s := mkSt (cap s) (fx s) (q s) (sc s) (rc s) (asq s) (arq s) (hs s) (fs s) (next s) (acc s) (recvd s) (back s) (dropped s) (freed s) (tn s) (wk s) x (bad s).
Definition with_bad x s := mkSt (cap s) (fx s) (q s) (sc s) (rc s) (asq s) (arq s) (hs s) (fs s) (next s) (acc s) (recvd s) (back s) (dropped s) (freed s) (tn s) (wk s) (dk s) x.

Definition set_t03 (t : taints) := mkT true (t03f t) (t06 t) (t07 t) (t08 t) (t12 t) (t33 t).
Definition set_t03f (t : taints) := mkT (t03 t) true (t06 t) (t07 t) (t08 t) (t12 t) (t33 t).
Definition set_t06 (t : taints) := mkT (t03 t) (t03f t) true (t07 t) (t08 t) (t12 t) (t33 t).
Definition set_t07 (t : taints) := mkT (t03 t) (t03f t) (t06 t) true (t08 t) (t12 t) (t33 t).
Definition set_t08 (t : taints) := mkT (t03 t) (t03f t) (t06 t) (t07 t) true (t12 t) (t33 t).
Definition set_t12 (t : taints) := mkT (t03 t) (t03f t) (t06 t) (t07 t) (t08 t) true (t33 t).
Definition set_t33 (t : taints) := mkT (t03 t) (t03f t) (t06 t) (t07 t) (t08 t) (t12 t) true.

Definition taint (f : taints -> taints) (b : bool) (s : st) : st :=
  if b then with_tn (f (tn s)) s else s.

(** ** small helpers *)
Definition getH (h : N) (s : st) : option handle := aget h (hs s).
Definition getF (f : N) (s : st) : option fut := aget f (fs s).
Definition setH (h : N) (x : handle) (s : st) : st := with_hs (aset h x (hs s)) s.
Definition setF (f : N) (x : fut) (s : st) : st := with_fs (aset f x (fs s)) s.

Definition set_state (w : wst) (x : fut) : fut := mkF (f_recv x) (f_h x) (f_item x) w (f_reg x) (f_live x) (f_done x).
Definition set_reg (b : bool) (x : fut) : fut := mkF (f_recv x) (f_h x) (f_item x) (f_state x) b (f_live x) (f_done x).
Definition set_item (i : option N) (x : fut) : fut := mkF (f_recv x) (f_h x) i (f_state x) (f_reg x) (f_live x) (f_done x).
Definition set_done (x : fut) : fut := mkF (f_recv x) (f_h x) (f_item x) (f_state x) (f_reg x) (f_live x) true.
Definition set_dead (x : fut) : fut := mkF (f_recv x) (f_h x) (f_item x) (f_state x) (f_reg x) false (f_done x).
Definition set_closed (b : bool) (x : handle) : handle := mkH (h_tx x) (h_async x) b (h_live x).
Definition set_hdead (x : handle) : handle := mkH (h_tx x) (h_async x) (h_closed x) false.

Definition wake (w : N) (s : st) : st := with_wk (wk s ++ [w]) s.
Definition mark_bad (b : bool) (s : st) : st := if b then with_bad true s else s.
Definition lenq (s : st) : N := N.of_nat (length (q s)).
Definition is_full (s : st) : bool := N.eqb (lenq s) (cap s).

(* the payload of the next send-side call *)
Definition fresh (s : st) : N * st := (next s, with_next (next s + 1) s).
Definition push (v : N) (s : st) : st := with_acc (acc s ++ [v]) (with_q (q s ++ [v]) s).
Definition give_back (v : N) (s : st) : st := with_back (back s ++ [v]) s.
Definition destroy (v : N) (s : st) : st := with_dk (dk s ++ [v]) (with_dropped (dropped s ++ [v]) s).

(** ** waiter-queue primitives *)
(* first queued waiter whose state byte is WAITING (the compare_exchange(WAITING, _) loops of core.rs) *)
Fixpoint first_waiting (g : N -> option fut) (l : list (N * N)) : option (N * N) :=
  match l with
  | [] => None
  | (f, w) :: t =>
      match g f with
      | Some x => if is_waiting (f_state x) then Some (f, w) else first_waiting g t
      | None => first_waiting g t
      end
  end.

(* VecDeque::remove(position(|w| w.state == ptr)) — first entry of that future *)
Fixpoint remove_first (f : N) (l : list (N * N)) : list (N * N) :=
  match l with
  | [] => []
  | (f', w) :: t => if N.eqb f f' then t else (f', w) :: remove_first f t
  end.

(* VecDeque::retain(|w| w.state != ptr) *)
Definition unlink (f : N) (l : list (N * N)) : list (N * N) :=
  filter (fun e => negb (N.eqb f (fst e))) l.

Definition queued (f : N) (l : list (N * N)) : bool := existsb (fun e => N.eqb f (fst e)) l.

(* iter_mut().find(|w| w.state == ptr) -> waker = new *)
Fixpoint set_waker (f w : N) (l : list (N * N)) : list (N * N) :=
  match l with
  | [] => []
  | (f', w') :: t => if N.eqb f f' then (f', w) :: t else (f', w') :: set_waker f w t
  end.

(* try_send_core priority 1 / try_recv_core's sender wake: first WAITING waiter -> SUCCESS_SPACE,
   removed from the queue, woken *)
Definition wake_one_recv (s : st) : st :=
  match first_waiting (fun f => getF f s) (arq s) with
  | Some (f, w) =>
      match getF f s with
      | Some x => mark_bad (negb (f_live x)) (wake w (with_arq (remove_first f (arq s)) (setF f (set_state Success x) s)))
      | None => s
      end
  | None => s
  end.

Definition wake_one_send (s : st) : st :=
  match first_waiting (fun f => getF f s) (asq s) with
  | Some (f, w) =>
      match getF f s with
      | Some x => mark_bad (negb (f_live x)) (wake w (with_asq (remove_first f (asq s)) (setF f (set_state Success x) s)))
      | None => s
      end
  | None => s
  end.

(* close_internal's `for waiter in &queue { CAS(WAITING -> new) ; to_wake.push }` — entries stay queued *)
Fixpoint mark_all (new : wst) (l : list (N * N)) (s : st) : st :=
  match l with
  | [] => s
  | (f, w) :: t =>
      match getF f s with
      | Some x =>
          if is_waiting (f_state x)
          then mark_all new t (mark_bad (negb (f_live x)) (wake w (setF f (set_state new x) s)))
          else mark_all new t s
      | None => mark_all new t s
      end
  end.

(** ** core.rs *)
Inductive tsr := TsOk | TsFull | TsClosed.

(* MpmcShared::try_send_core (capacity > 0, sync receiver queue empty) *)
Definition try_send_core (v : N) (s : st) : st * tsr :=
  if N.eqb (rc s) 0 then (s, TsClosed)
  else if is_full s then (s, TsFull)
  else (push v (wake_one_recv s), TsOk).

Inductive trr := TrVal (v : N) | TrEmpty | TrDisc.

(* MpmcShared::try_recv_core *)
Definition try_recv_core (s : st) : st * trr :=
  match q s with
  | v :: t => (wake_one_send (with_recvd (recvd s ++ [v]) (with_q t s)), TrVal v)
  | [] => if N.eqb (sc s) 0 then (s, TrDisc) else (s, TrEmpty)
  end.

(** ** core.rs: the batch cores *)
(* try_send_batch_core looks for a receiver to hand each item to with `pop_front`: waiters that are not
   WAITING any more are popped and forgotten, the first WAITING one is CASed, (already popped,) woken *)
Fixpoint skip_nw (g : N -> option fut) (l : list (N * N)) : list (N * N) :=
  match l with
  | [] => []
  | (f, w) :: t =>
      match g f with
      | Some x => if is_waiting (f_state x) then l else skip_nw g t
      | None => skip_nw g t
      end
  end.

Definition hand_one_recv (s : st) : st :=
  wake_one_recv (with_arq (skip_nw (fun f => getF f s) (arq s)) s).

(* the `while sent < limit` loop: every item is pushed (after possibly waking a receiver) until full *)
Fixpoint send_loop (vs : list N) (s : st) : st * list N :=
  match vs with
  | [] => (s, [])
  | v :: r => if is_full s then (s, vs) else send_loop r (push v (hand_one_recv s))
  end.

(* try_recv_batch_core: drain k = min(max, len) items, then wake up to `max` parked senders *)
Fixpoint wake_senders (n : nat) (s : st) : st :=
  match n with O => s | S k => wake_senders k (wake_one_send s) end.

Definition drain (k : nat) (s : st) : st :=
  with_recvd (recvd s ++ firstn k (q s)) (with_q (skipn k (q s)) s).

Fixpoint seqN (a : N) (n : nat) : list N :=
  match n with O => [] | S k => a :: seqN (a + 1) k end.

(** ** results *)
Inductive res :=
| ROk | RFull (v : N) | RClosedV (v : N) | RClosed | RVal (v : N) | REmpty | RDisc | RTimeout
| RWouldBlock | RCloseErr | RNoHandle | RWrongKind | RBadId | RBorrowed | RNoFut | RDone
| RPending | RReadyOk | RReadyClosed | RReadyVal (v : N) | RReadyDisc
| RObs (len : N) (emp full : bool) (cp : N) (closed : bool)
| RPanic
(* batch forms: try_send_batch Ok(n) / Err{sent, unsent, reason}; try_send_batch_mut Ok(k) / Err(Closed)
   with what is left in the caller's vector; try_recv_batch Ok(items); try_recv_batch_mut Ok(n) + items *)
| RBOk (n : N) | RBErr (sent : N) (closed : bool) (unsent : list N)
| RMOk (k : N) (rest : list N) | RMClosed (rest : list N)
| RVals (l : list N) | RNVals (l : list N).

Record out := mkOut { o_res : res; o_wakes : list N; o_drops : list N; o_bad : bool }.

Inductive op :=
| TrySend (h : N) | TryRecv (h : N) | Send (h : N) | Recv (h : N) | RecvTimeout (h : N)
| Clone (h h2 : N) | Close (h : N) | DropH (h : N) | Convert (h h2 : N) | Observe (h : N)
| MkSend (f h : N) | MkRecv (f h : N) | Poll (f w : N) | DropF (f : N)
| TrySendBatch (inplace : bool) (h n : N) | TryRecvBatch (inplace : bool) (h m : N).

(** ** mod.rs: close_internal of the four handle types *)
(* Sender/AsyncSender::close_internal; None = `sender_count -= 1` underflows (panic with overflow checks) *)
Definition close_tx (s : st) : option st :=
  if N.eqb (sc s) 0 then None
  else let s := with_sc (sc s - 1) s in
       Some (if N.eqb (sc s) 0 then mark_all WClosed (arq s) s else s).

(* Receiver/AsyncReceiver::close_internal: last receiver closes every parked sender, any other one
   nudges the front sender with SUCCESS_SPACE (its entry stays queued) *)
Definition close_rx (s : st) : option st :=
  if N.eqb (rc s) 0 then None
  else let s := with_rc (rc s - 1) s in
       Some (if N.eqb (rc s) 0 then mark_all WClosed (asq s) s
             else match asq s with
                  | (f, w) :: _ =>
                      match getF f s with
                      | Some x =>
                          if is_waiting (f_state x)
                          then mark_bad (negb (f_live x)) (wake w (setF f (set_state Success x) s)) else s
                      | None => s
                      end
                  | [] => s
                  end).

(* close(): CAS on the flag, then close_internal *)
Definition do_close (h : N) (x : handle) (s : st) : st * res :=
  if h_closed x then (s, RCloseErr)
  else let s := setH h (set_closed true x) s in
       match (if h_tx x then close_tx s else close_rx s) with
       | Some s' => (s', ROk)
       | None => (s, RPanic)
       end.

Definition borrowed (h : N) (s : st) : bool :=
  existsb (fun e => f_live (snd e) && N.eqb (f_h (snd e)) h) (fs s).

Definition any_live (s : st) : bool := existsb (fun e => h_live (snd e)) (hs s).

(* the last handle struct going away drops the Arc<MpmcShared>: the ring's residue is destroyed *)
Definition maybe_free (s : st) : st :=
  if any_live s then s else with_dk (dk s ++ q s) (with_freed true s).

(** ** async_impl.rs: Drop of a future (also the registration part of the closed-flag guard of fx03f) *)
(* if is_registered { CAS(WAITING->CANCELLED); lock; retain }  [+ fx12: pass a consumed wake on] *)
Definition cancel_reg (f : N) (x : fut) (s : st) : st :=
  if f_reg x then
    let x' := if is_waiting (f_state x) then set_state Cancelled x else x in
    let s := setF f (set_reg false x') s in
    if f_recv x then
      let s := with_arq (unlink f (arq s)) s in
      if is_success (f_state x) then
        if fx12 (fx s) then (match q s with [] => s | _ :: _ => wake_one_recv s end)
        else taint set_t12 true s
      else s
    else
      let s := with_asq (unlink f (asq s)) s in
      if is_success (f_state x) then
        if fx12 (fx s) then (if is_full s then s else wake_one_send s)
        else taint set_t12 true s
      else s
  else s.

Definition handle_closed (h : N) (s : st) : bool :=
  match getH h s with Some x => h_closed x | None => false end.

(** ** async_impl.rs: SendFuture::poll *)
Definition send_try (f w : N) (x : fut) (s : st) : st * res :=
  match f_item x with
  | None => (setF f (set_done x) s, RReadyOk)
  | Some v =>
      (* `let item_to_send = this.item.take().unwrap()`; on Full / Closed the item is put back *)
      match try_send_core v (setF f (set_item None x) s) with
      | (s, TsOk) => (setF f (set_done (set_reg false (set_item None x))) s, RReadyOk)
      | (s, TsClosed) => (setF f (set_done (set_reg false x)) s, RReadyClosed)
      | (s, TsFull) =>
          (with_asq (asq s ++ [(f, w)]) (setF f (set_reg true (set_state Waiting x)) s), RPending)
      end
  end.

Definition poll_send (f w : N) (x : fut) (s : st) : st * res :=
  if f_reg x then
    match f_state x with
    | WClosed =>
        (with_asq (remove_first f (asq s)) (setF f (set_done (set_reg false x)) s), RReadyClosed)
    | Success =>
        let s := with_asq (remove_first f (asq s)) s in
        send_try f w (set_reg false x) s
    | Waiting | Cancelled =>
        if queued f (asq s) then (with_asq (set_waker f w (asq s)) s, RPending)
        else (wake w s, RPending)
    end
  else send_try f w x s.

(** ** async_impl.rs: RecvFuture::poll + core.rs poll_recv_internal *)
Definition recv_try (f w : N) (was_queued : bool) (x : fut) (s : st) : st * res :=
  let finish (s : st) (x : fut) :=
    let s := setF f (set_done (set_reg false x)) s in
    if was_queued then
      if fx06 (fx s) then with_arq (unlink f (arq s)) s
      else taint set_t06 (queued f (arq s)) s
    else s in
  match try_recv_core s with
  | (s, TrVal v) =>
      (* the future record may have been touched by wake_one_send only if it is a send future: it is not *)
      (finish s x, RReadyVal v)
  | (s, TrDisc) => (finish s x, RReadyDisc)
  | (s, TrEmpty) =>
      if queued f (arq s)
      then (with_arq (set_waker f w (arq s)) (setF f (set_reg true x) s), RPending)
      else (with_arq (arq s ++ [(f, w)]) (setF f (set_reg true (set_state Waiting x)) s), RPending)
  end.

Definition poll_recv (f w : N) (x : fut) (s : st) : st * res :=
  if f_reg x then
    match f_state x with
    | WClosed =>
        let s := with_arq (unlink f (arq s)) s in
        if fx08 (fx s) then recv_try f w false (set_reg false x) s
        else
          let s := taint set_t08 (negb (N.eqb (lenq s) 0)) s in
          (setF f (set_done (set_reg false x)) s, RReadyDisc)
    | Success => recv_try f w false (set_reg false x) s
    | Waiting | Cancelled => recv_try f w true x s
    end
  else recv_try f w false x s.

(** * the step function *)
Definition ret (s : st) (r : res) : st * out := (s, mkOut r (wk s) (dk s) (bad s)).

Definition step (s0 : st) (o : op) : st * out :=
  let s := with_bad false (with_dk [] (with_wk [] s0)) in
  match o with
  | TrySend h =>
      match getH h s with
      | Some x =>
          if negb (h_live x) then ret s RNoHandle
          else if negb (h_tx x) then ret s RWrongKind
          else let '(v, s) := fresh s in
               if h_closed x then ret (give_back v s) (RClosedV v)
               else match try_send_core v s with
                    | (s, TsOk) => ret s ROk
                    | (s, TsFull) => ret (give_back v s) (RFull v)
                    | (s, TsClosed) => ret (give_back v s) (RClosedV v)
                    end
      | None => ret s RNoHandle
      end
  | TryRecv h =>
      match getH h s with
      | Some x =>
          if negb (h_live x) then ret s RNoHandle
          else if h_tx x then ret s RWrongKind
          else if h_closed x then ret s RDisc
          else match try_recv_core s with
               | (s, TrVal v) => ret s (RVal v)
               | (s, TrEmpty) => ret s REmpty
               | (s, TrDisc) => ret s RDisc
               end
      | None => ret s RNoHandle
      end
  | Send h =>
      (* Sender::send -> sync_impl::send_sync; issued only where the public observers say it cannot
         park: the driver prints WOULDBLOCK iff !is_closed() && is_full() *)
      match getH h s with
      | Some x =>
          if negb (h_live x) then ret s RNoHandle
          else if negb (h_tx x) || h_async x then ret s RWrongKind
          else if negb (N.eqb (rc s) 0) && is_full s then ret s RWouldBlock
          else let '(v, s) := fresh s in
               if h_closed x then ret (destroy v s) RClosed
               else match try_send_core v s with
                    | (s, TsOk) => ret s ROk
                    | (s, _) => ret (destroy v s) RClosed
                    end
      | None => ret s RNoHandle
      end
  | Recv h =>
      (* Receiver::recv -> recv_sync; the driver prints WOULDBLOCK iff is_empty() && !is_closed() *)
      match getH h s with
      | Some x =>
          if negb (h_live x) then ret s RNoHandle
          else if h_tx x || h_async x then ret s RWrongKind
          else if N.eqb (lenq s) 0
                  && negb (N.eqb (sc s) 0 && match asq s with [] => true | _ => false end)
               then ret s RWouldBlock
          else if h_closed x then ret s RDisc
          else match try_recv_core s with
               | (s, TrVal v) => ret s (RVal v)
               | (s, TrEmpty) => ret s RWouldBlock
               | (s, TrDisc) => ret s RDisc
               end
      | None => ret s RNoHandle
      end
  | RecvTimeout h =>
      (* Receiver::recv_timeout(Duration::ZERO) -> recv_timeout_sync: no test of self.closed (F-03) *)
      match getH h s with
      | Some x =>
          if negb (h_live x) then ret s RNoHandle
          else if h_tx x || h_async x then ret s RWrongKind
          else if h_closed x && fx03 (fx s) then ret s RDisc
          else let s := taint set_t03 (h_closed x) s in
               match try_recv_core s with
               | (s, TrVal v) => ret s (RVal v)
               | (s, TrEmpty) => ret s RTimeout
               | (s, TrDisc) => ret s RDisc
               end
      | None => ret s RNoHandle
      end
  | Clone h h2 =>
      match getH h s with
      | Some x =>
          if negb (h_live x) then ret s RNoHandle
          else match getH h2 s with
               | Some _ => ret s RBadId
               | None =>
                   if h_closed x && fx33 (fx s)
                   then ret (setH h2 (mkH (h_tx x) (h_async x) true true) s) ROk
                   else
                     let s := taint set_t33 (h_closed x) s in
                     let s := if h_tx x then with_sc (sc s + 1) s else with_rc (rc s + 1) s in
                     ret (setH h2 (mkH (h_tx x) (h_async x) false true) s) ROk
               end
      | None => ret s RNoHandle
      end
  | Close h =>
      match getH h s with
      | Some x =>
          if negb (h_live x) then ret s RNoHandle
          else let '(s, r) := do_close h x s in ret s r
      | None => ret s RNoHandle
      end
  | DropH h =>
      (* Drop for the handle: `let _ = self.close();` then the struct (its Arc) goes *)
      match getH h s with
      | Some x =>
          if negb (h_live x) then ret s RNoHandle
          else if borrowed h s then ret s RBorrowed
          else let '(s, r) := do_close h x s in
               let x' := match getH h s with Some y => y | None => x end in
               let s := maybe_free (setH h (set_hdead x') s) in
               ret s (match r with RPanic => RPanic | _ => ROk end)
      | None => ret s RNoHandle
      end
  | Convert h h2 =>
      (* to_sync / to_async: ptr::read(shared); mem::forget(self); closed: AtomicBool::new(false) (F-07) *)
      match getH h s with
      | Some x =>
          if negb (h_live x) then ret s RNoHandle
          else match getH h2 s with
               | Some _ => ret s RBadId
               | None =>
                   if borrowed h s then ret s RBorrowed
                   else
                     let c := h_closed x && fx07 (fx s) in
                     let s := taint set_t07 (h_closed x && negb (fx07 (fx s))) s in
                     let s := setH h (set_hdead x) s in
                     ret (setH h2 (mkH (h_tx x) (negb (h_async x)) c true) s) ROk
               end
      | None => ret s RNoHandle
      end
  | Observe h =>
      match getH h s with
      | Some x =>
          if negb (h_live x) then ret s RNoHandle
          else
            let cl := if h_tx x then N.eqb (rc s) 0
                      else N.eqb (sc s) 0 && N.eqb (lenq s) 0 && match asq s with [] => true | _ => false end in
            ret s (RObs (lenq s) (N.eqb (lenq s) 0) (is_full s) (cap s) cl)
      | None => ret s RNoHandle
      end
  | MkSend f h =>
      match getH h s with
      | Some x =>
          if negb (h_live x) then ret s RNoHandle
          else if negb (h_tx x && h_async x) then ret s RWrongKind
          else match getF f s with
               | Some _ => ret s RBadId
               | None => let '(v, s) := fresh s in
                         ret (setF f (mkF false h (Some v) Waiting false true false) s) ROk
               end
      | None => ret s RNoHandle
      end
  | MkRecv f h =>
      match getH h s with
      | Some x =>
          if negb (h_live x) then ret s RNoHandle
          else if negb (negb (h_tx x) && h_async x) then ret s RWrongKind
          else match getF f s with
               | Some _ => ret s RBadId
               | None => ret (setF f (mkF true h None Waiting false true false) s) ROk
               end
      | None => ret s RNoHandle
      end
  | Poll f w =>
      match getF f s with
      | Some x =>
          if negb (f_live x) then ret s RNoFut
          else if f_done x then ret s RDone
          else if handle_closed (f_h x) s && fx03f (fx s) then
            (* proposed guard: a poll on a closed handle fails; a registration is cancelled as Drop does *)
            let s := cancel_reg f x s in
            let x' := match getF f s with Some y => y | None => x end in
            ret (setF f (set_done x') s) (if f_recv x then RReadyDisc else RReadyClosed)
          else
            let s := taint set_t03f (handle_closed (f_h x) s) s in
            let '(s, r) := if f_recv x then poll_recv f w x s else poll_send f w x s in
            ret s r
      | None => ret s RNoFut
      end
  | DropF f =>
      match getF f s with
      | Some x =>
          if negb (f_live x) then ret s RNoFut
          else
            let s := cancel_reg f x s in
            let x' := match getF f s with Some y => y | None => x end in
            let s := setF f (set_dead x') s in
            let s := match f_item x with Some v => destroy v s | None => s end in
            ret s ROk
      | None => ret s RNoFut
      end
  | TrySendBatch inplace h n =>
      (* Sender/AsyncSender::try_send_batch (by value) and try_send_batch_mut (in place) *)
      match getH h s with
      | Some x =>
          if negb (h_live x) then ret s RNoHandle
          else if negb (h_tx x) then ret s RWrongKind
          else
            let vs := seqN (next s) (N.to_nat n) in
            let s := with_next (next s + n) s in
            let fail (closed : bool) (sent : N) (un : list N) (s : st) :=
              let s := with_back (back s ++ un) s in
              if inplace then (if closed && N.eqb sent 0 then ret s (RMClosed un) else ret s (RMOk sent un))
              else ret s (RBErr sent closed un) in
            if N.eqb n 0 then ret s (if inplace then RMOk 0 [] else RBOk 0)
            else if h_closed x then fail true 0 vs s
            else if N.eqb (rc s) 0 then fail true 0 vs s
            else
              let '(s, un) := send_loop vs s in
              match un with
              | [] => ret s (if inplace then RMOk n [] else RBOk n)
              | _ :: _ => fail false (n - N.of_nat (length un)) un s
              end
      | None => ret s RNoHandle
      end
  | TryRecvBatch inplace h m =>
      (* Receiver/AsyncReceiver::try_recv_batch and try_recv_batch_mut *)
      match getH h s with
      | Some x =>
          if negb (h_live x) then ret s RNoHandle
          else if h_tx x then ret s RWrongKind
          else if N.eqb m 0 then ret s (if inplace then RNVals [] else RVals [])
          else if h_closed x then ret s RDisc
          else
            let k := Nat.min (N.to_nat m) (length (q s)) in
            match k with
            | O => if N.eqb (sc s) 0 then ret s RDisc else ret s REmpty
            | S _ =>
                let items := firstn k (q s) in
                let s := wake_senders (N.to_nat m) (drain k s) in
                ret s (if inplace then RNVals items else RVals items)
            end
      | None => ret s RNoHandle
      end
  end.

Definition init (c : N) (async : bool) (f : fixes) : st :=
  mkSt c f [] 1 1 [] [] [(0, mkH true async false true); (1, mkH false async false true)] [] 0
       [] [] [] [] false no_taint [] [] false.

Fixpoint run (s : st) (os : list op) : st * list out :=
  match os with
  | [] => (s, [])
  | o :: r => let '(s1, x) := step s o in
              let '(s2, xs) := run s1 r in (s2, x :: xs)
  end.

Definition state_after (c : N) (async : bool) (f : fixes) (os : list op) : st :=
  fst (run (init c async f) os).
