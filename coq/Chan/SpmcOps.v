(* Chan/SpmcOps.v — K2 (op-level) model of the broadcast SPMC channel
   /repo/channels/src/spmc/{mod.rs, ring_buffer.rs}.

   One public API call = one step; one poll / one drop of a future = one step.
   Payloads, handles, futures and wakers are ids (N).  No proofs in this file.

   What is kept from the code:
   * `log`      the accepted values in index order (head = length log).  Slot
                `i mod cap` always holds the last index congruent to `i` below
                head (the producer writes index head into slot head mod cap and
                nothing else writes slots), so the per-slot sequence number test
                `seq = 2*t+1` of try_recv_internal is `t < head <= t + cap`.
   * receivers  per handle: cursor (the tail Arc), `r_reg` = the Arc is in the
                left-right cursor list, the handle's own `closed` flag, flavour.
                `r_start`/`r_taint` are ghost (creation position; handle derived
                from a closed handle through Clone / to_sync / to_async).
   * sender     alive, its `closed` flag, flavour, the shared `producer_dropped`.
   * `regs`     the per-slot waker lists as (slot, waker) pairs.
   * `pw`       the producer AtomicWaker (one slot, last registration wins).
   * futures    RecvFuture / RecvBatchFuture / SendFuture / SendBatchFuture /
                SendBatchMutFuture with what they hold.
   * `wlog`     every waker invocation (most recent first); `dlog` every payload
                drop (originals in slots, clones handed to receivers and dropped by the
                caller, values handed back in errors, values dying inside futures).
   `fixedm = true` selects the behaviour after the proposed patch (conversions
   carry the `closed` flag; Clone of a closed receiver yields a closed handle). *)
From Fibre Require Import Common.Base.

Record rx := mkRx {
  r_cur : N; r_start : N; r_reg : bool; r_closed : bool; r_async : bool;
  r_live : bool; r_taint : bool }.

Inductive fkind :=
| FRecv (r : N)
| FRecvB (r n : N)
| FSend (v : N)
| FSendB (rest : list N) (sent total : N)
| FSendM (rest : list N) (sent : N).

Record fut := mkFut {
  f_kind : fkind; f_live : bool;
  f_wait : option N;     (* waker of the last poll that returned Pending *)
  f_woken : bool;        (* that waker was invoked since *)
  f_disp : bool }.       (* another send future replaced the producer waker since *)

Record st := mkSt {
  fixedm : bool; cap : N; log : list N;
  s_alive : bool; s_closed : bool; s_async : bool; s_taint : bool; pdrop : bool;
  rxs : list (N * rx); regs : list (N * N); pw : option N;
  futs : list (N * fut); wlog : list N; dlog : list N }.

Inductive breason := BOk | BFull | BClosed.

Inductive out :=
| ONA | OBusy | OWouldBlock | OOk | OCloseErr | OClosed | OPending | OTimeout | ONone
| OFull (v : N) | OClosedV (v : N)
| OVal (r v : N) | OVals (r : N) (vs : list N) | OEmpty (r : N) | ODisc (r : N)
| OBatch (why : breason) (sent : N) (unsent : list N)
| OBErr (sent : N) (unsent : list N)
| OMut (ok : bool) (k : N) (rem : list N)
| OObs (len : N) (e f c : bool) (cp : N)
| OReady (o : out)
| OSnap (d : list N).

Inductive op :=
| TrySend (v : N) | Send (v : N)
| TrySendB (vs : list N) | TrySendM (vs : list N) | SendB (vs : list N) | SendM (vs : list N)
| SClose | SDrop | SConv | SObs
| TryRecv (r : N) | Recv (r : N) | RecvT (r : N)
| TryRecvB (r n : N) | RecvB (r n : N)
| RClose (r : N) | RDrop (r : N) | RClone (r c : N) | RConv (r : N) | RObs (r : N)
| MkRecv (f r : N) | MkRecvB (f r n : N) | MkSend (f v : N)
| MkSendB (f : N) (vs : list N) | MkSendM (f : N) (vs : list N)
| Poll (f w : N) | DropF (f : N) | PollNext (r w : N)
| Snap.

(** association lists used as maps (first match wins; `set` replaces in place) *)
Section Assoc.
  Context {A : Type}.
  Fixpoint get (l : list (N * A)) (k : N) : option A :=
    match l with
    | [] => None
    | (k', a) :: t => if N.eqb k k' then Some a else get t k
    end.
  Fixpoint set (l : list (N * A)) (k : N) (a : A) : list (N * A) :=
    match l with
    | [] => [(k, a)]
    | (k', a') :: t => if N.eqb k k' then (k, a) :: t else (k', a') :: set t k a
    end.
End Assoc.

Definition lenN {A} (l : list A) : N := N.of_nat (length l).
Definition head (s : st) : N := lenN (log s).

Definition set_rxs s l := mkSt (fixedm s) (cap s) (log s) (s_alive s) (s_closed s) (s_async s) (s_taint s) (pdrop s)
                               l (regs s) (pw s) (futs s) (wlog s) (dlog s).
Definition set_regs s l := mkSt (fixedm s) (cap s) (log s) (s_alive s) (s_closed s) (s_async s) (s_taint s) (pdrop s)
                               (rxs s) l (pw s) (futs s) (wlog s) (dlog s).
Definition set_pw s p := mkSt (fixedm s) (cap s) (log s) (s_alive s) (s_closed s) (s_async s) (s_taint s) (pdrop s)
                               (rxs s) (regs s) p (futs s) (wlog s) (dlog s).
Definition set_futs s l := mkSt (fixedm s) (cap s) (log s) (s_alive s) (s_closed s) (s_async s) (s_taint s) (pdrop s)
                               (rxs s) (regs s) (pw s) l (wlog s) (dlog s).
Definition set_log s l := mkSt (fixedm s) (cap s) l (s_alive s) (s_closed s) (s_async s) (s_taint s) (pdrop s)
                               (rxs s) (regs s) (pw s) (futs s) (wlog s) (dlog s).
Definition set_wlog s l := mkSt (fixedm s) (cap s) (log s) (s_alive s) (s_closed s) (s_async s) (s_taint s) (pdrop s)
                               (rxs s) (regs s) (pw s) (futs s) l (dlog s).
Definition add_drops s l := mkSt (fixedm s) (cap s) (log s) (s_alive s) (s_closed s) (s_async s) (s_taint s) (pdrop s)
                               (rxs s) (regs s) (pw s) (futs s) (wlog s) (l ++ dlog s).
Definition set_sender s alive closed async taint pd :=
  mkSt (fixedm s) (cap s) (log s) alive closed async taint pd
       (rxs s) (regs s) (pw s) (futs s) (wlog s) (dlog s).

Definition set_rx s r x := set_rxs s (set (rxs s) r x).
Definition set_fut s f x := set_futs s (set (futs s) f x).

(** waker invocation: count it and flag every future whose last Pending poll used it *)
Definition mark (w : N) (p : N * fut) : N * fut :=
  let '(k, f) := p in
  match f_wait f with
  | Some w' => if N.eqb w w' then (k, mkFut (f_kind f) (f_live f) (f_wait f) true (f_disp f)) else p
  | None => p
  end.

Definition wake (w : N) (s : st) : st :=
  set_futs (set_wlog s (w :: wlog s)) (map (mark w) (futs s)).

Definition wake_list (ws : list N) (s : st) : st := fold_left (fun s w => wake w s) ws s.

(* SpmcShared::wake_producer (the sync park flag is always IDLE in a sequential run) *)
Definition wake_producer (s : st) : st :=
  match pw s with
  | Some w => wake w (set_pw s None)
  | None => s
  end.

(* drain one slot's waker list and wake them *)
Definition drain (slot : N) (s : st) : st :=
  let ws := map snd (filter (fun p => N.eqb (fst p) slot) (regs s)) in
  wake_list ws (set_regs s (filter (fun p => negb (N.eqb (fst p) slot)) (regs s))).

(* wake_all_consumers_from_slots *)
Definition wake_all (s : st) : st := wake_list (map snd (regs s)) (set_regs s []).

Definition has_reg (slot w : N) (l : list (N * N)) : bool :=
  existsb (fun p => N.eqb (fst p) slot && N.eqb (snd p) w) l.

(* push unless a will_wake-equal waker is already in that slot's list *)
Definition register (slot w : N) (s : st) : st :=
  if has_reg slot w (regs s) then s else set_regs s (regs s ++ [(slot, w)]).

(** producer side *)
Definition cursors (s : st) : list N :=
  map (fun p => r_cur (snd p)) (filter (fun p => r_reg (snd p)) (rxs s)).

Fixpoint minl (l : list N) : option N :=
  match l with
  | [] => None
  | x :: t => match minl t with None => Some x | Some m => Some (N.min x m) end
  end.

(* producer_space: None = no receiver registered *)
Definition space (s : st) : option N :=
  match minl (cursors s) with
  | None => None
  | Some m => Some (cap s - N.min (head s - m) (cap s))
  end.

(* write one value at index head: drop the original of the previous lap, publish, drain the slot *)
Definition write1 (v : N) (s : st) : st :=
  let h := head s in
  let s1 := if N.leb (cap s) h then add_drops s [nth (N.to_nat (h - cap s)) (log s) 0] else s in
  drain (h mod cap s) (set_log s1 (log s1 ++ [v])).

Definition write_many (vs : list N) (s : st) : st := fold_left (fun s v => write1 v s) vs s.

Inductive sres := SOk | SFull | SClosedR.

(* try_send_internal *)
Definition try_send_core (v : N) (s : st) : st * sres :=
  match minl (cursors s) with
  | None => (s, SClosedR)
  | Some m => if N.leb (cap s) (head s - m) then (s, SFull) else (write1 v s, SOk)
  end.

Definition firstnN {A} (n : N) (l : list A) := firstn (N.to_nat n) l.
Definition skipnN {A} (n : N) (l : list A) := skipn (N.to_nat n) l.

(** consumer side *)
(* the index whose value sits in the slot of idx (idx < head): last index = idx (mod cap) below head *)
Definition slot_index (s : st) (idx : N) : N := idx + cap s * ((head s - 1 - idx) / cap s).
Definition slot_val (s : st) (idx : N) : N := nth (N.to_nat (slot_index s idx)) (log s) 0.

Definition in_window (s : st) (t : N) : bool := N.ltb t (head s) && N.leb (head s) (t + cap s).

Inductive rres := RVal (v : N) | REmpty | RDisc.

Definition adv (x : rx) (k : N) : rx :=
  mkRx (r_cur x + k) (r_start x) (r_reg x) (r_closed x) (r_async x) (r_live x) (r_taint x).

(* try_recv_internal on the handle r = x; the clone handed out is dropped by the caller *)
Definition try_recv_core (r : N) (x : rx) (s : st) : st * rres :=
  let t := r_cur x in
  if in_window s t then
    let v := nth (N.to_nat t) (log s) 0 in
    (wake_producer (add_drops (set_rx s r (adv x 1)) [v]), RVal v)
  else if pdrop s && N.leb (head s) t then (s, RDisc)
  else (s, REmpty).

Inductive bres := BVals (vs : list N) | BEmpty | BDisc.

Fixpoint seqN (a : N) (k : nat) : list N :=
  match k with O => [] | S k' => a :: seqN (a + 1) k' end.

(* try_recv_batch_internal (max > 0): bounded by head, no per-slot sequence test *)
Definition try_recv_batch_core (r : N) (x : rx) (n : N) (s : st) : st * bres :=
  let t := r_cur x in
  if N.leb (head s) t then (s, if pdrop s then BDisc else BEmpty)
  else
    let k := N.min (head s - t) n in
    let vs := map (slot_val s) (seqN t (N.to_nat k)) in
    (wake_producer (add_drops (set_rx s r (adv x k)) vs), BVals vs).

(** futures *)
Definition fut_rx (k : fkind) : option N :=
  match k with FRecv r => Some r | FRecvB r _ => Some r | _ => None end.

Definition rx_busy (s : st) (r : N) : bool :=
  existsb (fun p => f_live (snd p) &&
                    match fut_rx (f_kind (snd p)) with Some r' => N.eqb r r' | None => false end) (futs s).

Definition tx_busy (s : st) : bool :=
  existsb (fun p => f_live (snd p) &&
                    match fut_rx (f_kind (snd p)) with Some _ => false | None => true end) (futs s).

Definition held (k : fkind) : list N :=
  match k with
  | FSend v => [v] | FSendB rest _ _ => rest | FSendM rest _ => rest
  | _ => []
  end.

Definition kill (s : st) (f : N) (x : fut) : st :=
  set_fut s f (mkFut (f_kind x) false None false false).

Definition pend (s : st) (f : N) (k : fkind) (w : N) : st :=
  set_fut s f (mkFut k true (Some w) false false).

(* AtomicWaker::register by a send-side future: replaces the previous registration *)
Definition displace (w : N) (f : N) (p : N * fut) : N * fut :=
  let '(k, x) := p in
  if N.eqb k f then p else
  match fut_rx (f_kind x), f_wait x with
  | None, Some w' => if N.eqb w w' then p else (k, mkFut (f_kind x) (f_live x) (f_wait x) (f_woken x) true)
  | _, _ => p
  end.

Definition reg_producer (f w : N) (s : st) : st :=
  set_pw (set_futs s (map (displace w f) (futs s))) (Some w).

(** the sender's close_internal *)
Definition sender_close_internal (s : st) : st :=
  wake_all (set_sender s (s_alive s) (s_closed s) (s_async s) (s_taint s) true).

(** receiver's close_internal: drop_receiver_internal *)
Definition rx_unreg (x : rx) : rx :=
  mkRx (r_cur x) (r_start x) false true (r_async x) (r_live x) (r_taint x).

Definition obs_tx (s : st) : out :=
  let len := match minl (cursors s) with None => 0 | Some m => head s - m end in
  OObs len (N.eqb len 0) (N.eqb len (cap s))
       (match minl (cursors s) with None => true | Some _ => false end) (cap s).

Definition obs_rx (s : st) (x : rx) : out :=
  let len := head s - r_cur x in
  let e := N.leb (head s) (r_cur x) in
  OObs len e (N.eqb len (cap s)) (pdrop s && e) (cap s).

Definition out_of_rres (r : N) (x : rres) (on_empty : out) : out :=
  match x with RVal v => OVal r v | REmpty => on_empty | RDisc => ODisc r end.

Definition out_of_bres (r : N) (x : bres) (on_empty : out) : out :=
  match x with BVals vs => OVals r vs | BEmpty => on_empty | BDisc => ODisc r end.

(* batch send helpers: write the first k = min(space, |vs|) values *)
Definition send_some (vs : list N) (s : st) : option (st * N * list N) :=
  match space s with
  | None => None
  | Some sp =>
      let k := N.min sp (lenN vs) in
      Some (write_many (firstnN k vs) s, k, skipnN k vs)
  end.

Definition with_rx (s : st) (r : N) (k : rx -> st * out) : st * out :=
  match get (rxs s) r with
  | Some x => if r_live x then k x else (s, ONA)
  | None => (s, ONA)
  end.

Definition poll_fut (s : st) (f : N) (x : fut) (w : N) : st * out :=
  match f_kind x with
  | FRecv r =>
      match get (rxs s) r with
      | None => (s, ONA)
      | Some y =>
          if r_closed y then (kill s f x, OReady (ODisc r)) else
          match try_recv_core r y s with
          | (s', RVal v) => (kill s' f x, OReady (OVal r v))
          | (s', RDisc) => (kill s' f x, OReady (ODisc r))
          | (s', REmpty) => (pend (register (r_cur y mod cap s) w s') f (f_kind x) w, OPending)
          end
      end
  | FRecvB r n =>
      match get (rxs s) r with
      | None => (s, ONA)
      | Some y =>
          if r_closed y then (kill s f x, OReady (ODisc r)) else
          if N.eqb n 0 then (kill s f x, OReady (OVals r [])) else
          match try_recv_batch_core r y n s with
          | (s', BVals vs) => (kill s' f x, OReady (OVals r vs))
          | (s', BDisc) => (kill s' f x, OReady (ODisc r))
          | (s', BEmpty) => (pend (register (r_cur y mod cap s) w s') f (f_kind x) w, OPending)
          end
      end
  | FSend v =>
      if negb (s_alive s) then (s, ONA) else
      if s_closed s then (add_drops (kill s f x) [v], OReady OClosed) else
      match try_send_core v s with
      | (s', SOk) => (kill s' f x, OReady OOk)
      | (s', SClosedR) => (add_drops (kill s' f x) [v], OReady OClosed)
      | (s', SFull) => (pend (reg_producer f w s') f (f_kind x) w, OPending)
      end
  | FSendB rest sent total =>
      if negb (s_alive s) then (s, ONA) else
      if N.eqb sent total then (add_drops (kill s f x) rest, OReady (OBatch BOk total [])) else
      if s_closed s then (add_drops (kill s f x) rest, OReady (OBErr sent rest)) else
      match send_some rest s with
      | None => (add_drops (kill s f x) rest, OReady (OBErr sent rest))
      | Some (s', k, rest') =>
          if N.eqb (sent + k) total then (add_drops (kill s' f x) rest', OReady (OBatch BOk total []))
          else (pend (reg_producer f w s') f (FSendB rest' (sent + k) total) w, OPending)
      end
  | FSendM rest sent =>
      if negb (s_alive s) then (s, ONA) else
      match rest with
      | [] => (kill s f x, OReady (OMut true sent []))
      | _ =>
        if s_closed s then (add_drops (kill s f x) rest, OReady (OMut false sent rest)) else
        match send_some rest s with
        | None => (add_drops (kill s f x) rest, OReady (OMut false sent rest))
        | Some (s', k, rest') =>
            match rest' with
            | [] => (kill s' f x, OReady (OMut true (sent + k) []))
            | _ => (pend (reg_producer f w s') f (FSendM rest' (sent + k)) w, OPending)
            end
        end
      end
  end.

(* when the last handle is gone the shared state is dropped: the originals still in the slots die *)
Definition resident (s : st) : list N :=
  skipnN (head s - N.min (head s) (cap s)) (log s).

Definition all_dead (s : st) : bool :=
  negb (s_alive s) && forallb (fun p => negb (r_live (snd p))) (rxs s).

Definition release (s : st) : st := if all_dead s then add_drops s (resident s) else s.

Definition new_fut (s : st) (f : N) (k : fkind) : st * out :=
  match get (futs s) f with
  | Some _ => (s, ONA)
  | None => (set_fut s f (mkFut k true None false false), OOk)
  end.

Definition step (s : st) (o : op) : st * out :=
  match o with
  (* ---- sender, single values *)
  | TrySend v =>
      if negb (s_alive s) then (s, ONA) else
      if s_closed s then (add_drops s [v], OClosedV v) else
      match try_send_core v s with
      | (s', SOk) => (s', OOk)
      | (s', SFull) => (add_drops s' [v], OFull v)
      | (s', SClosedR) => (add_drops s' [v], OClosedV v)
      end
  | Send v =>
      if negb (s_alive s) || s_async s then (s, ONA) else
      if s_closed s then (add_drops s [v], OClosed) else
      match try_send_core v s with
      | (s', SOk) => (s', OOk)
      | (s', SFull) => (s, OWouldBlock)
      | (s', SClosedR) => (add_drops s' [v], OClosed)
      end
  (* ---- sender, batches *)
  | TrySendB vs =>
      if negb (s_alive s) then (s, ONA) else
      match vs with [] => (s, OBatch BOk 0 []) | _ =>
      if s_closed s then (add_drops s vs, OBatch BClosed 0 vs) else
      match send_some vs s with
      | None => (add_drops s vs, OBatch BClosed 0 vs)
      | Some (s', k, rest) =>
          match rest with
          | [] => (s', OBatch BOk k [])
          | _ => (add_drops s' rest, OBatch BFull k rest)
          end
      end end
  | TrySendM vs =>
      if negb (s_alive s) then (s, ONA) else
      match vs with [] => (s, OMut true 0 []) | _ =>
      if s_closed s then (add_drops s vs, OMut false 0 vs) else
      match send_some vs s with
      | None => (add_drops s vs, OMut false 0 vs)
      | Some (s', k, rest) => (add_drops s' rest, OMut true k rest)
      end end
  | SendB vs =>
      if negb (s_alive s) || s_async s then (s, ONA) else
      match vs with [] => (s, OBatch BOk 0 []) | _ =>
      if s_closed s then (add_drops s vs, OBErr 0 vs) else
      match send_some vs s with
      | None => (add_drops s vs, OBErr 0 vs)
      | Some (s', k, rest) =>
          match rest with
          | [] => (s', OBatch BOk k [])
          | _ => (s, OWouldBlock)
          end
      end end
  | SendM vs =>
      if negb (s_alive s) || s_async s then (s, ONA) else
      match vs with [] => (s, OMut true 0 []) | _ =>
      if s_closed s then (add_drops s vs, OMut false 0 vs) else
      match send_some vs s with
      | None => (add_drops s vs, OMut false 0 vs)
      | Some (s', k, rest) =>
          match rest with
          | [] => (s', OMut true k [])
          | _ => (s, OWouldBlock)
          end
      end end
  (* ---- sender lifecycle *)
  | SClose =>
      if negb (s_alive s) then (s, ONA) else
      if tx_busy s then (s, OBusy) else
      if s_closed s then (s, OCloseErr) else
      (sender_close_internal (set_sender s true true (s_async s) (s_taint s) (pdrop s)), OOk)
  | SDrop =>
      if negb (s_alive s) then (s, ONA) else
      if tx_busy s then (s, OBusy) else
      let s1 := if s_closed s then s else sender_close_internal s in
      (release (set_sender s1 false true (s_async s1) (s_taint s1) (pdrop s1)), OOk)
  | SConv =>
      if negb (s_alive s) then (s, ONA) else
      if tx_busy s then (s, OBusy) else
      if fixedm s then (set_sender s true (s_closed s) (negb (s_async s)) (s_taint s) (pdrop s), OOk)
      else (set_sender s true false (negb (s_async s)) (s_taint s || s_closed s) (pdrop s), OOk)
  | SObs => if negb (s_alive s) then (s, ONA) else (s, obs_tx s)
  (* ---- receivers *)
  | TryRecv r =>
      with_rx s r (fun x =>
        if r_closed x then (s, ODisc r) else
        let '(s', res) := try_recv_core r x s in (s', out_of_rres r res (OEmpty r)))
  | Recv r =>
      with_rx s r (fun x =>
        if r_async x then (s, ONA) else
        if r_closed x then (s, ODisc r) else
        let '(s', res) := try_recv_core r x s in (s', out_of_rres r res OWouldBlock))
  | RecvT r =>
      with_rx s r (fun x =>
        if r_async x then (s, ONA) else
        if r_closed x then (s, ODisc r) else
        let '(s', res) := try_recv_core r x s in (s', out_of_rres r res OTimeout))
  | TryRecvB r n =>
      with_rx s r (fun x =>
        if N.eqb n 0 then (s, OVals r []) else
        if r_closed x then (s, ODisc r) else
        let '(s', res) := try_recv_batch_core r x n s in (s', out_of_bres r res (OEmpty r)))
  | RecvB r n =>
      with_rx s r (fun x =>
        if r_async x then (s, ONA) else
        if N.eqb n 0 then (s, OVals r []) else
        if r_closed x then (s, ODisc r) else
        let '(s', res) := try_recv_batch_core r x n s in (s', out_of_bres r res OWouldBlock))
  | RClose r =>
      with_rx s r (fun x =>
        if r_closed x then (s, OCloseErr) else
        (wake_producer (set_rx s r (rx_unreg x)), OOk))
  | RDrop r =>
      with_rx s r (fun x =>
        if rx_busy s r then (s, OBusy) else
        let s1 := if r_closed x then s else wake_producer (set_rx s r (rx_unreg x)) in
        match get (rxs s1) r with
        | Some y => (release (set_rx s1 r (mkRx (r_cur y) (r_start y) (r_reg y) (r_closed y) (r_async y) false (r_taint y))), OOk)
        | None => (s1, OOk)
        end)
  | RClone r c =>
      with_rx s r (fun x =>
        match get (rxs s) c with
        | Some _ => (s, ONA)
        | None =>
            if fixedm s && r_closed x
            then (set_rx s c (mkRx (r_cur x) (r_cur x) false true (r_async x) true (r_taint x)), OOk)
            else (set_rx s c (mkRx (r_cur x) (r_cur x) true false (r_async x) true
                                   (r_taint x || negb (r_reg x))), OOk)
        end)
  | RConv r =>
      with_rx s r (fun x =>
        if rx_busy s r then (s, OBusy) else
        if fixedm s
        then (set_rx s r (mkRx (r_cur x) (r_start x) (r_reg x) (r_closed x) (negb (r_async x)) true (r_taint x)), OOk)
        else (set_rx s r (mkRx (r_cur x) (r_start x) (r_reg x) false (negb (r_async x)) true
                               (r_taint x || r_closed x)), OOk))
  | RObs r => with_rx s r (fun x => (s, obs_rx s x))
  (* ---- futures *)
  | MkRecv f r =>
      with_rx s r (fun x => if r_async x then new_fut s f (FRecv r) else (s, ONA))
  | MkRecvB f r n =>
      with_rx s r (fun x => if r_async x then new_fut s f (FRecvB r n) else (s, ONA))
  | MkSend f v =>
      if s_alive s && s_async s then new_fut s f (FSend v) else (s, ONA)
  | MkSendB f vs =>
      if s_alive s && s_async s then new_fut s f (FSendB vs 0 (lenN vs)) else (s, ONA)
  | MkSendM f vs =>
      if s_alive s && s_async s then new_fut s f (FSendM vs 0) else (s, ONA)
  | Poll f w =>
      match get (futs s) f with
      | Some x => if f_live x then poll_fut s f x w else (s, ONA)
      | None => (s, ONA)
      end
  | DropF f =>
      match get (futs s) f with
      | Some x => if f_live x then (add_drops (kill s f x) (held (f_kind x)), OOk) else (s, ONA)
      | None => (s, ONA)
      end
  | PollNext r w =>
      with_rx s r (fun x =>
        if negb (r_async x) then (s, ONA) else
        if rx_busy s r then (s, OBusy) else
        if r_closed x then (s, OReady ONone) else
        match try_recv_core r x s with
        | (s', RVal v) => (s', OReady (OVal r v))
        | (s', RDisc) => (s', OReady ONone)
        | (s', REmpty) => (register (r_cur x mod cap s) w s', OPending)
        end)
  | Snap => (s, OSnap (dlog s))
  end.

Definition init (fx : bool) (c : N) (async : bool) : st :=
  mkSt fx c [] true false async false false
       [(0, mkRx 0 0 true false async true false)] [] None [] [] [].

(* run, accumulating the outputs most-recent-first *)
Definition stepacc (p : st * list out) (o : op) : st * list out :=
  let '(s', x) := step (fst p) o in (s', x :: snd p).

Definition runacc (p : st * list out) (ops : list op) : st * list out := fold_left stepacc ops p.

Definition run (fx : bool) (c : N) (async : bool) (ops : list op) : st * list out :=
  let '(s, acc) := runacc (init fx c async, []) ops in (s, rev acc).

(* end-of-case teardown used by both drivers: futures, then receivers, then the sender *)
Definition live_futs (s : st) : list N := map fst (filter (fun p => f_live (snd p)) (futs s)).
Definition live_rxs (s : st) : list N := map fst (filter (fun p => r_live (snd p)) (rxs s)).

Definition teardown (s : st) : st :=
  let s1 := fold_left (fun s f => fst (step s (DropF f))) (live_futs s) s in
  let s2 := fold_left (fun s r => fst (step s (RDrop r))) (live_rxs s1) s1 in
  fst (step s2 SDrop).
