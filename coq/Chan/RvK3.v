(* Chan/RvK3.v — atomic-step (K3') model of the queued rendezvous core
     channels/src/internal/rendezvous.rs   RendezvousShared::{try_send, try_recv, send_blocking,
        recv_blocking, recv_timeout, cancel_receiver, drop_sender, drop_receiver},
        fulfill_receiver, fulfill_sender, park_until_terminal, ReceiverStore::disconnect_all,
        WakeHandle::wake (thread arm)
   as used by the SYNC handles of mpmc::rendezvous / mpsc::rendezvous / spsc::rendezvous
     channels/src/{mpmc_v2,mpsc,spsc}/rendezvous.rs   RendezvousSync{Sender,Receiver}::{send, try_send,
        recv, try_recv, recv_timeout, close (through Drop), Drop}.

   One model step = one traced facade event of the code (hook H1), in source order: facade `Mutex`
   lock attempt / unlock of `core`, load / store / compare_exchange on a waiter's `state` AtomicU8
   (which lives in the waiter's stack frame), load / compare_exchange on the handle's `closed`
   flag, park / park_timeout return, unpark.  Every event carries the variable, operation and
   Ordering of the source; the semantics is sequentially consistent (orderings are data, compared
   by the D2 replay and the D3 skeleton check).  Untraced code (VecDeque edits, the move of the
   payload through the record's raw pointer, the handle counts) is attached to the traced event of
   the same critical section that makes it visible: the queue pop + payload move + terminal state
   are one step (the `state` store), a push is part of the lock step that decided to park.
   Nothing but `state`, the park token and `closed` is ever accessed outside the `core` mutex.

   Threads are natural numbers; thread t runs `nth t cfg`: a sender (program of Send | TrySend) or
   a receiver (program of Recv | TryRecv | RecvT | Drain, Drain = recv() until Disconnected),
   followed by the drop of its handle (the last one of a side disconnects every parked waiter of
   the other side).  Any number of threads, any programs.
   `choice`: CTimeout = the deadline of recv_timeout has passed at this check (else it parks with
   a timeout); CSpur = spurious return of park; CGo = everything else.  A failed `lock` attempt is
   a step that changes nothing (event lock ok=0).
   `cul` (cas_under_lock): true = the code after commit 2e08297 (cancel takes the lock, then
   CASes WAITING->CANCELLED); false = the code before it (CAS first, lock afterwards) — finding
   F-01; kept as a model parameter for the refutation witness.
   Payload ids are (sender thread, number of the send op), as in the scenario runner.
   No proofs in this file. *)
From Coq Require Import List NArith Arith Bool.
From Fibre Require Import Common.Conc.
Import ListNotations.

(* ---------------------------------------------------------------- events *)
Inductive ord := Rlx | Acq | Rel | AcqRel | SeqCst.
Inductive var := VClosed | VState (owner gen : nat).   (* gen: the owner's gen-th registered frame *)

Inductive ev :=
| EvLoad (v : var) (o : ord) (r : N)
| EvStore (v : var) (o : ord) (a : N)
| EvCas (v : var) (o f : ord) (a b r : N) (ok : bool)
| EvLock (ok : bool)              (* facade Mutex `core`: one lock attempt *)
| EvUnlock
| EvPark
| EvParkT                         (* park_timeout returned (token or timeout) *)
| EvUnpark (target : nat).

Inductive choice := CGo | CSpur | CTimeout.

(* ---- Ordering literals of the source, one definition per source site (the step function and
   the D3 table use the same constants) *)
Definition o_closed_ld := Rlx.                                  (* self.closed.load(Relaxed) *)
Definition o_close_cas := AcqRel.   Definition o_close_casf := Rlx.
Definition o_wait_ld := Acq.                                    (* park_until_terminal / rt loop *)
Definition o_final_ld := Acq.                                   (* match state.load(Acquire) *)
Definition o_done_st := Rel.                                    (* fulfill_*: store(DONE, Release) *)
Definition o_disc_st := Rel.                                    (* store(DISCONNECTED, Release) *)
Definition o_cancel_cas := SeqCst.  Definition o_cancel_casf := SeqCst.

(* ---------------------------------------------------------------- programs, results, pcs *)
Definition val := (nat * nat)%type.          (* (sender thread, op number) *)

Inductive sop := Send | TrySend.
Inductive rop := Recv | TryRecv | RecvT | Drain.
Inductive tcfg := CS (p : list sop) | CR (p : list rop).

Inductive res :=
| POk (v : val) | PFull (v : val) | PClosed (v : val)
| PGone (v : val)                      (* send() -> Err(SendError::Closed): the value is dropped by send *)
| RVal (v : val) | REmpty | RDisc
| RTimeout (lost : option val).        (* Some v: Timeout reported although v sat in `dest` (F-01) *)

(* waiter state machine (the `state` AtomicU8) *)
Inductive wst := W | D | C | X.        (* WAITING 0 | DONE 1 | CANCELLED 2 | DISCONNECTED 3 *)
Definition wnum (w : wst) : N := match w with W => 0 | D => 1 | C => 2 | X => 3 end%N.

Inductive sk := KSend | KTry.
Inductive rk := KRecv | KTryR | KRt.
Inductive sun := SUClosed | SUFull | SUWoke (r : nat) | SUParked.
Inductive run_ := RUDisc | RUEmpty | RUWoke (p : nat) (v : val) | RUParked.

Inductive pc :=
| Idle                                   (* between calls: next = closed.load of the next op / Drop *)
(* ---- sender: try_send / send_blocking *)
| SLock (k : sk)                         (* core.lock() *)
| SFul (k : sk)                          (* holding: fulfill_receiver's state.store(DONE) *)
| SUnl (k : sk) (o : sun)                (* holding: unlock, then what *)
| SUnpark (r : nat)                      (* wake.wake() *)
| SWait | SPark | SFinal                 (* park_until_terminal: load, park; final load *)
(* ---- receiver: try_recv / recv_blocking / recv_timeout *)
| RLock (k : rk)
| RFul (k : rk)                          (* holding: fulfill_sender's state.store(DONE) *)
| RUnl (k : rk) (o : run_)
| RUnpark (p : nat) (v : val)
| RWait | RPark | RFinal (k : rk)
| RtLoad | RtDec                         (* recv_timeout loop: load; deadline check *)
| CLock | CCas | CUnl (won : bool)       (* cancel_receiver, cul = true: lock; cas; unlock *)
| XLock | XUnl                           (* cancel_receiver, cul = false: (cas); lock + remove; unlock *)
(* ---- handle drop: close() = closed.cas + drop_sender / drop_receiver *)
| DLock
| DDisc (ws : list nat)                  (* holding: disconnect loop, wakes collected so far *)
| DUnl (ws : list nat)
| DUnpark (ws : list nat)
| Done.

(* ---------------------------------------------------------------- state *)
Record st := mkSt {
  lock : option nat;             (* holder of the `core` mutex *)
  sq : list nat;                 (* sender_waiters (records by owner), FIFO *)
  rq : list nat;                 (* receivers store (VecDeque / Option), FIFO *)
  scount : nat;
  rcount : nat;
  wstate : nat -> wst;           (* the `state` atomic of the thread's current frame *)
  cell : nat -> option val;      (* sender: its inline `slot` once parked; receiver: its `dest` *)
  gen : nat -> nat;              (* number of frames the thread has registered (names state#k) *)
  token : nat -> bool;           (* park token *)
  closed : nat -> bool;          (* the handle's `closed` flag *)
  sprog : nat -> list sop;
  rprog : nat -> list rop;
  pcs : nat -> pc;
  seq : nat -> nat;              (* sender: number of send ops started; current value = (t, seq t) *)
  handed : list (val * nat);     (* GHOST: handoffs (value, receiving thread), in order *)
  results : nat -> list res;     (* GHOST: API results per thread, in order *)
  bad : bool                     (* GHOST: a cell / state of a frame that is not live was touched,
                                    a payload overwritten or an empty slot taken, or a frame ended
                                    while its record was still linked *)
}.

Definition upd {A} (f : nat -> A) (t : nat) (v : A) : nat -> A :=
  fun u => if Nat.eqb u t then v else f u.

Definition set_lock s v := mkSt v (sq s) (rq s) (scount s) (rcount s) (wstate s) (cell s) (gen s) (token s) (closed s) (sprog s) (rprog s) (pcs s) (seq s) (handed s) (results s) (bad s).
Definition set_sq s v := mkSt (lock s) v (rq s) (scount s) (rcount s) (wstate s) (cell s) (gen s) (token s) (closed s) (sprog s) (rprog s) (pcs s) (seq s) (handed s) (results s) (bad s).
Definition set_rq s v := mkSt (lock s) (sq s) v (scount s) (rcount s) (wstate s) (cell s) (gen s) (token s) (closed s) (sprog s) (rprog s) (pcs s) (seq s) (handed s) (results s) (bad s).
Definition set_scount s v := mkSt (lock s) (sq s) (rq s) v (rcount s) (wstate s) (cell s) (gen s) (token s) (closed s) (sprog s) (rprog s) (pcs s) (seq s) (handed s) (results s) (bad s).
Definition set_rcount s v := mkSt (lock s) (sq s) (rq s) (scount s) v (wstate s) (cell s) (gen s) (token s) (closed s) (sprog s) (rprog s) (pcs s) (seq s) (handed s) (results s) (bad s).
Definition set_wstate s t v := mkSt (lock s) (sq s) (rq s) (scount s) (rcount s) (upd (wstate s) t v) (cell s) (gen s) (token s) (closed s) (sprog s) (rprog s) (pcs s) (seq s) (handed s) (results s) (bad s).
Definition set_cell s t v := mkSt (lock s) (sq s) (rq s) (scount s) (rcount s) (wstate s) (upd (cell s) t v) (gen s) (token s) (closed s) (sprog s) (rprog s) (pcs s) (seq s) (handed s) (results s) (bad s).
Definition set_gen s t v := mkSt (lock s) (sq s) (rq s) (scount s) (rcount s) (wstate s) (cell s) (upd (gen s) t v) (token s) (closed s) (sprog s) (rprog s) (pcs s) (seq s) (handed s) (results s) (bad s).
Definition set_token s t v := mkSt (lock s) (sq s) (rq s) (scount s) (rcount s) (wstate s) (cell s) (gen s) (upd (token s) t v) (closed s) (sprog s) (rprog s) (pcs s) (seq s) (handed s) (results s) (bad s).
Definition set_closed s t v := mkSt (lock s) (sq s) (rq s) (scount s) (rcount s) (wstate s) (cell s) (gen s) (token s) (upd (closed s) t v) (sprog s) (rprog s) (pcs s) (seq s) (handed s) (results s) (bad s).
Definition set_sprog s t v := mkSt (lock s) (sq s) (rq s) (scount s) (rcount s) (wstate s) (cell s) (gen s) (token s) (closed s) (upd (sprog s) t v) (rprog s) (pcs s) (seq s) (handed s) (results s) (bad s).
Definition set_rprog s t v := mkSt (lock s) (sq s) (rq s) (scount s) (rcount s) (wstate s) (cell s) (gen s) (token s) (closed s) (sprog s) (upd (rprog s) t v) (pcs s) (seq s) (handed s) (results s) (bad s).
Definition set_pc s t v := mkSt (lock s) (sq s) (rq s) (scount s) (rcount s) (wstate s) (cell s) (gen s) (token s) (closed s) (sprog s) (rprog s) (upd (pcs s) t v) (seq s) (handed s) (results s) (bad s).
Definition set_seq s t v := mkSt (lock s) (sq s) (rq s) (scount s) (rcount s) (wstate s) (cell s) (gen s) (token s) (closed s) (sprog s) (rprog s) (pcs s) (upd (seq s) t v) (handed s) (results s) (bad s).
Definition set_handed s v := mkSt (lock s) (sq s) (rq s) (scount s) (rcount s) (wstate s) (cell s) (gen s) (token s) (closed s) (sprog s) (rprog s) (pcs s) (seq s) v (results s) (bad s).
Definition log s t r := mkSt (lock s) (sq s) (rq s) (scount s) (rcount s) (wstate s) (cell s) (gen s) (token s) (closed s) (sprog s) (rprog s) (pcs s) (seq s) (handed s) (upd (results s) t (results s t ++ [r])) (bad s).
Definition set_bad s v := mkSt (lock s) (sq s) (rq s) (scount s) (rcount s) (wstate s) (cell s) (gen s) (token s) (closed s) (sprog s) (rprog s) (pcs s) (seq s) (handed s) (results s) v.

Definition mem (t : nat) (l : list nat) : bool := existsb (Nat.eqb t) l.
Definition rem (t : nat) (l : list nat) : list nat := filter (fun u => negb (Nat.eqb u t)) l.
Definition b2n (b : bool) : N := if b then 1%N else 0%N.
Definition cnt (f : nat -> bool) (n : nat) : nat := length (filter f (List.seq 0 n)).

(* ---------------------------------------------------------------- configuration *)
Definition role (cfg : list tcfg) (t : nat) : option bool :=       (* Some true = sender *)
  match nth_error cfg t with
  | Some (CS _) => Some true
  | Some (CR _) => Some false
  | None => None
  end.
Definition is_sender (cfg : list tcfg) (t : nat) : bool :=
  match role cfg t with Some true => true | _ => false end.
Definition is_receiver (cfg : list tcfg) (t : nat) : bool :=
  match role cfg t with Some false => true | _ => false end.

Definition init (cfg : list tcfg) : st :=
  mkSt None [] []
       (cnt (is_sender cfg) (length cfg)) (cnt (is_receiver cfg) (length cfg))
       (fun _ => W) (fun _ => None) (fun _ => 0) (fun _ => false) (fun _ => false)
       (fun t => match nth_error cfg t with Some (CS p) => p | _ => [] end)
       (fun t => match nth_error cfg t with Some (CR p) => p | _ => [] end)
       (fun _ => Idle) (fun _ => 0) [] (fun _ => []) false.

(* ---------------------------------------------------------------- steps *)
Definition cur (s : st) (t : nat) : val := (t, seq s t).
Definition svar (s : st) (t : nat) : var := VState t (gen s t).

(* the frame of thread r is registered (its record may be linked; its state/cell are live) *)
Definition live (p : pc) : bool :=
  match p with
  | SUnl _ SUParked | SWait | SPark | SFinal => true
  | RUnl _ RUParked | RWait | RPark | RFinal _ | RtLoad | RtDec
  | CLock | CCas | CUnl _ | XLock | XUnl => true
  | _ => false
  end.

Definition ret (s : st) (t : nat) (p : pc) (e : ev) : option (st * ev) := Some (set_pc s t p, e).

(* completion of an API call *)
Definition s_done (s : st) (t : nat) (r : res) : st :=
  set_pc (log (set_sprog s t (tl (sprog s t))) t r) t Idle.
Definition r_next (p : list rop) (r : res) : list rop :=
  match p, r with
  | Drain :: _, RVal _ => p
  | _, _ => tl p
  end.
Definition r_done (s : st) (t : nat) (r : res) : st :=
  set_pc (log (set_rprog s t (r_next (rprog s t) r)) t r) t Idle.

(* one lock attempt on `core` *)
Definition try_lock (s : st) (t : nat) (fail : pc) (ok : st -> st) : option (st * ev) :=
  match lock s with
  | Some _ => ret s t fail (EvLock false)
  | None => Some (ok (set_lock s (Some t)), EvLock true)
  end.

Definition is_some {A} (o : option A) : bool := match o with Some _ => true | None => false end.
Definition opt_or {A} (o : option A) (d : A) : A := match o with Some a => a | None => d end.
Definition flag_bad (s : st) (b : bool) : st := set_bad s (bad s || b).

(* registering a frame: fresh `state` = WAITING *)
Definition new_frame (s : st) (t : nat) (c : option val) : st :=
  set_gen (set_cell (set_wstate s t W) t c) t (S (gen s t)).

(* the frame of t ends (the stack frame holding state and cell is gone) *)
Definition end_frame (s : st) (t : nat) : st :=
  set_cell (flag_bad s (mem t (sq s) || mem t (rq s))) t None.

(* ---- handle drop, common to both sides *)
Definition drop_start (s : st) (t : nat) : option (st * ev) :=
  let e := EvCas VClosed o_close_cas o_close_casf 0 1 (b2n (closed s t)) (negb (closed s t)) in
  if closed s t then ret s t Done e else ret (set_closed s t true) t DLock e.

Definition dstep (sd : bool) (s : st) (t : nat) : option (st * ev) :=
  match pcs s t with
  | DLock =>
      try_lock s t DLock (fun s1 =>
        if sd then
          let s2 := set_scount s1 (pred (scount s1)) in
          set_pc s2 t (match scount s2, rq s2 with 0, _ :: _ => DDisc [] | _, _ => DUnl [] end)
        else
          let s2 := set_rcount s1 (pred (rcount s1)) in
          set_pc s2 t (match rcount s2, sq s2 with 0, _ :: _ => DDisc [] | _, _ => DUnl [] end))
  | DDisc ws =>
      match (if sd then rq s else sq s) with
      | [] => None
      | r :: rest =>
          let s1 := if sd then set_rq s rest else set_sq s rest in
          let s2 := set_wstate (flag_bad s1 (negb (live (pcs s r)))) r X in
          ret s2 t (match rest with [] => DUnl (ws ++ [r]) | _ => DDisc (ws ++ [r]) end)
              (EvStore (svar s r) o_disc_st (wnum X))
      end
  | DUnl ws =>
      ret (set_lock s None) t (match ws with [] => Done | _ => DUnpark ws end) EvUnlock
  | DUnpark ws =>
      match ws with
      | [] => None
      | r :: rest => ret (set_token s r true) t (match rest with [] => Done | _ => DUnpark rest end) (EvUnpark r)
      end
  | _ => None
  end.

(* ---- sender *)
Definition sstep (s : st) (t : nat) (c : choice) : option (st * ev) :=
  match pcs s t with
  | Idle =>
      match sprog s t with
      | [] => drop_start s t
      | op :: _ =>
          let s1 := set_seq s t (S (seq s t)) in
          let e := EvLoad VClosed o_closed_ld (b2n (closed s t)) in
          if closed s t
          then Some (s_done s1 t (match op with Send => PGone (cur s1 t) | TrySend => PClosed (cur s1 t) end), e)
          else ret s1 t (SLock (match op with Send => KSend | TrySend => KTry end)) e
      end
  | SLock k =>
      try_lock s t (SLock k) (fun s1 =>
        match rcount s1 with
        | 0 => set_pc s1 t (SUnl k SUClosed)
        | _ =>
            match rq s1 with
            | _ :: _ => set_pc s1 t (SFul k)
            | [] =>
                match k with
                | KTry => set_pc s1 t (SUnl k SUFull)
                | KSend =>
                    set_pc (new_frame (set_sq s1 (sq s1 ++ [t])) t (Some (cur s1 t))) t (SUnl k SUParked)
                end
            end
        end)
  | SFul k =>
      match rq s with
      | [] => None
      | r :: rest =>
          let s1 := flag_bad (set_rq s rest)
                             (negb (live (pcs s r)) || is_some (cell s r)) in
          let s2 := set_handed (set_wstate (set_cell s1 r (Some (cur s t))) r D) (handed s ++ [(cur s t, r)]) in
          ret s2 t (SUnl k (SUWoke r)) (EvStore (svar s r) o_done_st (wnum D))
      end
  | SUnl k o =>
      let s1 := set_lock s None in
      match o with
      | SUClosed => Some (s_done s1 t (match k with KSend => PGone (cur s t) | KTry => PClosed (cur s t) end), EvUnlock)
      | SUFull => Some (s_done s1 t (PFull (cur s t)), EvUnlock)
      | SUWoke r => ret s1 t (SUnpark r) EvUnlock
      | SUParked => ret s1 t SWait EvUnlock
      end
  | SUnpark r => Some (s_done (set_token s r true) t (POk (cur s t)), EvUnpark r)
  | SWait =>
      ret s t (match wstate s t with W => SPark | _ => SFinal end)
          (EvLoad (svar s t) o_wait_ld (wnum (wstate s t)))
  | SPark =>
      match c with
      | CSpur => ret s t SWait EvPark
      | _ => if token s t then ret (set_token s t false) t SWait EvPark else None
      end
  | SFinal =>
      let e := EvLoad (svar s t) o_final_ld (wnum (wstate s t)) in
      let s1 := end_frame s t in
      Some (s_done s1 t (match wstate s t with D => POk (cur s t) | _ => PGone (cur s t) end), e)
  | DLock | DDisc _ | DUnl _ | DUnpark _ => dstep true s t
  | _ => None
  end.

(* ---- receiver *)
Definition rk_of (op : rop) : rk :=
  match op with Recv | Drain => KRecv | TryRecv => KTryR | RecvT => KRt end.

(* the cancel CAS on the thread's own state *)
Definition cancel_cas (s : st) (t : nat) : ev :=
  EvCas (svar s t) o_cancel_cas o_cancel_casf (wnum W) (wnum C) (wnum (wstate s t))
        (match wstate s t with W => true | _ => false end).

Definition rstep (cul : bool) (s : st) (t : nat) (c : choice) : option (st * ev) :=
  match pcs s t with
  | Idle =>
      match rprog s t with
      | [] => drop_start s t
      | op :: _ =>
          let e := EvLoad VClosed o_closed_ld (b2n (closed s t)) in
          if closed s t then Some (r_done s t RDisc, e) else ret s t (RLock (rk_of op)) e
      end
  | RLock k =>
      try_lock s t (RLock k) (fun s1 =>
        match sq s1 with
        | _ :: _ => set_pc s1 t (RFul k)
        | [] =>
            match scount s1 with
            | 0 => set_pc s1 t (RUnl k RUDisc)
            | _ =>
                match k with
                | KTryR => set_pc s1 t (RUnl k RUEmpty)
                | _ => set_pc (new_frame (set_rq s1 (rq s1 ++ [t])) t None) t (RUnl k RUParked)
                end
            end
        end)
  | RFul k =>
      match sq s with
      | [] => None
      | p :: rest =>
          let v := opt_or (cell s p) (cur s p) in
          let s1 := flag_bad (set_sq s rest)
                             (negb (live (pcs s p)) || negb (is_some (cell s p))) in
          let s2 := set_handed (set_wstate (set_cell s1 p None) p D) (handed s ++ [(v, t)]) in
          ret s2 t (RUnl k (RUWoke p v)) (EvStore (svar s p) o_done_st (wnum D))
      end
  | RUnl k o =>
      let s1 := set_lock s None in
      match o with
      | RUDisc => Some (r_done s1 t RDisc, EvUnlock)
      | RUEmpty => Some (r_done s1 t REmpty, EvUnlock)
      | RUWoke p v => ret s1 t (RUnpark p v) EvUnlock
      | RUParked => ret s1 t (match k with KRt => RtLoad | _ => RWait end) EvUnlock
      end
  | RUnpark p v => Some (r_done (set_token s p true) t (RVal v), EvUnpark p)
  | RWait =>
      ret s t (match wstate s t with W => RPark | _ => RFinal KRecv end)
          (EvLoad (svar s t) o_wait_ld (wnum (wstate s t)))
  | RPark =>
      match c with
      | CSpur => ret s t RWait EvPark
      | _ => if token s t then ret (set_token s t false) t RWait EvPark else None
      end
  | RtLoad =>
      ret s t (match wstate s t with W => RtDec | _ => RFinal KRt end)
          (EvLoad (svar s t) o_wait_ld (wnum (wstate s t)))
  | RtDec =>
      match c with
      | CTimeout =>
          if cul then try_lock s t CLock (fun s1 => set_pc s1 t CCas)
          else
            match wstate s t with
            | W => ret (set_wstate s t C) t XLock (cancel_cas s t)
            | _ => ret s t (RFinal KRt) (cancel_cas s t)
            end
      | _ => ret (set_token s t false) t RtLoad EvParkT
      end
  | CLock => try_lock s t CLock (fun s1 => set_pc s1 t CCas)
  | CCas =>
      match wstate s t with
      | W => ret (set_rq (set_wstate s t C) (rem t (rq s))) t (CUnl true) (cancel_cas s t)
      | _ => ret s t (CUnl false) (cancel_cas s t)
      end
  | CUnl won =>
      let s1 := set_lock s None in
      if won then Some (r_done (end_frame s1 t) t (RTimeout (cell s t)), EvUnlock)
      else ret s1 t (RFinal KRt) EvUnlock
  | XLock => try_lock s t XLock (fun s1 => set_pc (set_rq s1 (rem t (rq s1))) t XUnl)
  | XUnl => Some (r_done (end_frame (set_lock s None) t) t (RTimeout (cell s t)), EvUnlock)
  | RFinal k =>
      let e := EvLoad (svar s t) o_final_ld (wnum (wstate s t)) in
      let s1 := end_frame s t in
      match wstate s t with
      | D =>
          match cell s t with
          | Some v => Some (r_done s1 t (RVal v), e)
          | None => Some (r_done (flag_bad s1 true) t RDisc, e)   (* expect("DONE implies ...") panics *)
          end
      | C =>
          match k with
          | KRt => Some (r_done s1 t (RTimeout (cell s t)), e)
          | _ => Some (r_done (flag_bad s1 (is_some (cell s t))) t RDisc, e)
          end
      | _ => Some (r_done (flag_bad s1 (is_some (cell s t))) t RDisc, e)
      end
  | DLock | DDisc _ | DUnl _ | DUnpark _ => dstep false s t
  | _ => None
  end.

Definition step (cul : bool) (cfg : list tcfg) (s : st) (t : nat) (c : choice) : option (st * ev) :=
  match role cfg t with
  | Some true => sstep s t c
  | Some false => rstep cul s t c
  | None => None
  end.

Definition sys (cul : bool) (cfg : list tcfg) : system :=
  mkSystem st nat choice ev (init cfg) (step cul cfg).

(* ---------------------------------------------------------------- observables used by the theorems *)
Definition res_ok (r : res) : list val := match r with POk v => [v] | _ => [] end.
Definition res_failed (r : res) : list val :=
  match r with PFull v | PClosed v | PGone v => [v] | _ => [] end.
Definition res_val (r : res) : list val := match r with RVal v => [v] | _ => [] end.
Definition res_lost (r : res) : list val := match r with RTimeout (Some v) => [v] | _ => [] end.
(* values that left a receiver's frame: returned, or lost with the frame *)
Definition res_taken (r : res) : list val := res_val r ++ res_lost r.

Definition sent_ok (s : st) (t : nat) : list val := flat_map res_ok (results s t).
Definition failed (s : st) (t : nat) : list val := flat_map res_failed (results s t).
Definition got (s : st) (t : nat) : list val := flat_map res_val (results s t).
Definition lost (s : st) (t : nat) : list val := flat_map res_lost (results s t).

Definition was_handed (s : st) (v : val) : Prop := In v (map fst (handed s)).
(* values handed to receiver r, in handoff order *)
Definition handed_to (s : st) (r : nat) : list val :=
  map fst (filter (fun x => Nat.eqb (snd x) r) (handed s)).

Definition opt_list {A} (o : option A) : list A := match o with Some a => [a] | None => [] end.
(* a handed-off value the receiver has not yet returned: in its hand (it took it itself and still
   owes the sender's wake) or in its `dest` cell *)
Definition r_hand (p : pc) : list val :=
  match p with RUnl _ (RUWoke _ v) | RUnpark _ v => [v] | _ => [] end.
Definition r_inflight (cfg : list tcfg) (s : st) (t : nat) : list val :=
  if is_receiver cfg t then r_hand (pcs s t) ++ opt_list (cell s t) else [].

(* a sender whose current value has been handed off but whose call has not yet returned Ok *)
Definition committed (s : st) (t : nat) : bool :=
  match pcs s t with
  | SUnl _ (SUWoke _) | SUnpark _ => true
  | SUnl _ SUParked | SWait | SPark | SFinal => match wstate s t with D => true | _ => false end
  | _ => false
  end.

Definition parked (s : st) (t : nat) : Prop :=
  (pcs s t = SPark \/ pcs s t = RPark) /\ token s t = false.
Definition all_done (cfg : list tcfg) (s : st) : Prop :=
  forall t, t < length cfg -> pcs s t = Done.
(* quiescence that ignores the spurious-wake choice: nobody can move unless woken *)
Definition quiescent_ns (cul : bool) (cfg : list tcfg) (s : st) : Prop :=
  forall t, step cul cfg s t CGo = None /\ step cul cfg s t CTimeout = None.

(* ---------------------------------------------------------------- D2: strict replay *)
Definition ord_eqb (a b : ord) : bool :=
  match a, b with
  | Rlx, Rlx | Acq, Acq | Rel, Rel | AcqRel, AcqRel | SeqCst, SeqCst => true
  | _, _ => false
  end.
Definition var_eqb (a b : var) : bool :=
  match a, b with
  | VClosed, VClosed => true
  | VState x g, VState y h => Nat.eqb x y && Nat.eqb g h
  | _, _ => false
  end.
Definition ev_eqb (a b : ev) : bool :=
  match a, b with
  | EvLoad v o r, EvLoad v' o' r' => var_eqb v v' && ord_eqb o o' && N.eqb r r'
  | EvStore v o x, EvStore v' o' x' => var_eqb v v' && ord_eqb o o' && N.eqb x x'
  | EvCas v o f x y r k, EvCas v' o' f' x' y' r' k' =>
      var_eqb v v' && ord_eqb o o' && ord_eqb f f' && N.eqb x x' && N.eqb y y' && N.eqb r r' && Bool.eqb k k'
  | EvLock k, EvLock k' => Bool.eqb k k'
  | EvUnlock, EvUnlock | EvPark, EvPark | EvParkT, EvParkT => true
  | EvUnpark x, EvUnpark y => Nat.eqb x y
  | _, _ => false
  end.

(* the state reached by a schedule (entries that are not enabled are skipped) *)
Definition final (cul : bool) (cfg : list tcfg) (sch : list (nat * choice)) : st :=
  fst (run (sys cul cfg) (init cfg) sch).

Definition replay_rv (cul : bool) (cfg : list tcfg) (tr : list (nat * choice * ev)) : option st + nat :=
  replay (sys cul cfg) ev_eqb (init cfg) tr.
