(* Chan/MpmcK3.v — all-interleavings (K3') model of the bounded MPMC channel's SYNC paths:
     channels/src/mpmc_v2/core.rs       MpmcShared::{try_send_core, try_recv_core} (ring queue + waiter
                                        queues under `internal`, the wake loops that CAS a waiter's
                                        state WAITING -> SUCCESS_SPACE and unpark)
     channels/src/mpmc_v2/sync_impl.rs  send_sync, recv_sync, recv_timeout_sync
     channels/src/mpmc_v2/backoff.rs    adaptive_wait
     channels/src/mpmc_v2/mod.rs        Sender::{send, try_send, close, close_internal, Drop},
                                        Receiver::{recv, try_recv, recv_timeout, close, close_internal, Drop}

   LAYERING.  `internal` is a fibre::sync::HybridMutex, itself built from traced atomics; its
   mutual exclusion / hand-over is what engine k3lock (coq/Sync/HMutex.v) proves.  Here the lock
   is ONE boolean-like field `lk` (the holder): the acquisition (`ELock`: the compare_exchange
   on `mutex.state` that sets LOCKED) is one step, enabled only while the lock is free; the
   release (`EUnlock`: the `fetch_and(!LOCKED)`) is one step; all other events of the mutex (state
   loads, failed CASes, yields, wait-list sections, node parks/unparks) belong to the lock layer
   and are skipped by the trace check (routed by variable name / source file).
   One model step per traced event of the channel layer, in source order, with the same variable,
   operation and Ordering: the handle's `closed` flag, the waiter's `done_flag` (loads, the wake
   CAS under the lock, the cancel CAS outside it), park / park_timeout / unpark / spin / yield.
   The untraced data under the lock (ring, queue_len, waiter lists, counts) is read and edited in
   the step of the traced event that precedes it (only the lock holder can see it).
   The ring (`UnsynchronizedRingBuffer`, sequential code under the lock) is a FIFO list.
   The semantics is sequentially consistent; orderings are data in the events.

   Threads are numbered 0..; each is a producer (owns one Sender) or a consumer (owns one
   Receiver) running an ARBITRARY program, followed by the drop of its handle.  Payload ids are
   (producer thread, per-producer sequence number).
   `cfg` keeps the two repaired behaviours switchable (regression witnesses):
     rearm_after_steal  (F-02, commit b9b6953): recv_timeout re-arms a fresh waiter after it was
                        signalled but lost the item;  false = the old deaf loop + unreachable!()
     redrain_on_close   (F-08, commit ed6cbe3): recv re-drains after a close wake-up;
                        false = return Disconnected straight away.
   No proofs in this file. *)
From Coq Require Import List NArith Arith Bool.
From Fibre Require Import Common.Conc.
Import ListNotations.

(* ---------------------------------------------------------------- events *)
Inductive ord := Rlx | Acq | Rel | AcqRel | SeqCst.

(* the waiter state byte: STATE_WAITING = 0, STATE_CLOSED_BUFFERED = 1, STATE_SUCCESS_SPACE = 3,
   STATE_CANCELLED = 8 (STATE_CLOSED_RENDEZVOUS = 5 only for capacity 0, which bounded() rejects) *)
Inductive fl := FWaiting | FClosed | FSuccess | FCancelled.
Definition fenc (f : fl) : N :=
  match f with FWaiting => 0 | FClosed => 1 | FSuccess => 3 | FCancelled => 8 end%N.
(* (st & 0x01) != 0 : finished ;  (st & 0x02) != 0 : success (not closed) *)
Definition f_fin (f : fl) : bool := match f with FClosed | FSuccess => true | _ => false end.
Definition f_ok (f : fl) : bool := match f with FSuccess => true | _ => false end.
Definition f_waiting (f : fl) : bool := match f with FWaiting => true | _ => false end.

Definition id := (nat * nat)%type.         (* (producer thread, sequence number 1, 2, ...) *)

Inductive ev :=
| ELdClosed (o : ord) (r : bool)                         (* self.closed.load *)
| ECasClosed (o f : ord) (ok : bool)                     (* self.closed.compare_exchange(false, true) *)
| ELock | EUnlock                                        (* HybridMutex acquire / release of `internal` *)
| ELdFlag (u g : nat) (o : ord) (r : N)                  (* done_flag of thread u, generation g *)
| ECasFlag (u g : nat) (o f : ord) (a b r : N) (ok : bool)
| EPark | EParkT | EUnpark (u : nat) | ESpin | EYield.

(* CSpin / CYield: one more spin / yield round of adaptive_wait (any finite budget);
   CSpur: a park returns without a token of this layer (spurious, or a token of the lock layer);
   CTimeout: the deadline of recv_timeout has passed at this test;  CGo: everything else *)
Inductive choice := CGo | CSpin | CYield | CSpur | CTimeout.

(* ---------------------------------------------------------------- programs, results, pcs *)
Inductive pop := Send | TrySend.
Inductive cop := Recv | TryRecv | RecvT | Drain.          (* Drain = recv() until Disconnected *)
Inductive tprog := TProd (l : list pop) | TCons (l : list cop).

Inductive res :=
| POk (v : id) | PFull (v : id) | PClosed (v : id)        (* try_send hands the value back *)
| PGone (v : id)                                          (* send() failed: the value is dropped by send *)
| RVal (v : id) | REmp | RDis | RTimeout.

Record cfg := mkCfg { rearm_after_steal : bool; redrain_on_close : bool }.
Definition cfg_fixed := mkCfg true true.

Inductive sctx := KTry | KSend.                           (* try_send_core from try_send / send_sync *)
Inductive sres := SOk | SFull | SClosed.
(* try_recv_core from: try_recv | recv_sync | recv_timeout_sync first attempt | after a signal |
   after the non-empty re-check (may be the last attempt) | old deaf loop | old deadline attempt *)
Inductive rctx := CTry | CRecv | CRt | CRtS | CRtM | CRtD | CRtDL.
Inductive rres := ROk (v : id) | REmpty | RDisc.
Inductive rego := GoRetry | GoClosed | GoWait.            (* outcome of the register section *)

Inductive pc :=
| Idle
(* try_send_core *)
| SLock (k : sctx) | SScan (k : sctx) (i : nat) | SUnpark (k : sctx) (u : nat) | SUnlock (k : sctx) (r : sres)
(* send_sync: register, adaptive_wait, final load, unlink *)
| SRegLock | SRegUnlock (o : rego) | SWLoad | SWNext | SFinal | SUnlLock (closed : bool) | SUnlUnlock (closed : bool)
(* try_recv_core *)
| RLock (k : rctx) | RScan (k : rctx) (v : id) (i : nat) | RUnpark (k : rctx) (v : id) (u : nat) | RUnlock (k : rctx) (r : rres)
(* recv_sync / recv_timeout_sync (tm): register, wait, final load, unlink, cancel *)
| RRegLock (tm : bool) | RRegUnlock (tm : bool) (o : rego)
| RWLoad | RWNext | RFinal
| TWLoad | TWNext | TFinal | TCancelLock | TCancelUnlock
| RUnlLock (tm : bool) | RUnlUnlock (tm : bool)
| TDeafNext | TDeafLoad                                   (* rearm_after_steal = false only *)
(* close_internal *)
| DLock | DScan (all : bool) (i : nat) (w : list nat) | DUnlock (w : list nat) | DUnpark (w : list nat)
| Done | Panicked.

(* ---------------------------------------------------------------- state *)
Record st := mkSt {
  lk : option nat;              (* holder of `internal` *)
  q : list id;                  (* ring contents, front first *)
  qlen : nat;                   (* queue_len (cached count) *)
  wr : list (nat * nat);        (* waiting_sync_receivers: (thread, generation of its done_flag) *)
  ws : list (nat * nat);        (* waiting_sync_senders *)
  scnt : nat;                   (* sender_count *)
  rcnt : nat;                   (* receiver_count *)
  flag : nat -> fl;             (* the thread's current done_flag *)
  gen : nat -> nat;             (* how many done_flags the thread has registered *)
  tok : nat -> bool;            (* park token *)
  hcl : nat -> bool;            (* the handle's `closed` flag *)
  pcs : nat -> pc;
  prog : nat -> tprog;
  pseq : nat -> nat;
  accepted : list id;           (* GHOST: ids pushed into the ring, in order *)
  popped : list (nat * id);     (* GHOST: (consumer, id) popped from the ring, in order *)
  results : list (nat * res);   (* GHOST: API results in completion order *)
  owedR : list nat;             (* GHOST: receivers that were signalled and have not re-polled yet *)
  owedS : list nat;             (* GHOST: senders signalled SUCCESS_SPACE that have not retried yet *)
  bad : bool;                   (* GHOST: a dangling waiter record was accessed / unreachable!() hit *)
  discbad : bool                (* GHOST: Disconnected returned while the queue was non-empty or a sender alive *)
}.

Definition upd {A} (f : nat -> A) (t : nat) (v : A) : nat -> A :=
  fun u => if Nat.eqb u t then v else f u.

Definition set_lk s v := mkSt v (q s) (qlen s) (wr s) (ws s) (scnt s) (rcnt s) (flag s) (gen s) (tok s) (hcl s) (pcs s) (prog s) (pseq s) (accepted s) (popped s) (results s) (owedR s) (owedS s) (bad s) (discbad s).
Definition set_q s v := mkSt (lk s) v (qlen s) (wr s) (ws s) (scnt s) (rcnt s) (flag s) (gen s) (tok s) (hcl s) (pcs s) (prog s) (pseq s) (accepted s) (popped s) (results s) (owedR s) (owedS s) (bad s) (discbad s).
Definition set_qlen s v := mkSt (lk s) (q s) v (wr s) (ws s) (scnt s) (rcnt s) (flag s) (gen s) (tok s) (hcl s) (pcs s) (prog s) (pseq s) (accepted s) (popped s) (results s) (owedR s) (owedS s) (bad s) (discbad s).
Definition set_wr s v := mkSt (lk s) (q s) (qlen s) v (ws s) (scnt s) (rcnt s) (flag s) (gen s) (tok s) (hcl s) (pcs s) (prog s) (pseq s) (accepted s) (popped s) (results s) (owedR s) (owedS s) (bad s) (discbad s).
Definition set_ws s v := mkSt (lk s) (q s) (qlen s) (wr s) v (scnt s) (rcnt s) (flag s) (gen s) (tok s) (hcl s) (pcs s) (prog s) (pseq s) (accepted s) (popped s) (results s) (owedR s) (owedS s) (bad s) (discbad s).
Definition set_scnt s v := mkSt (lk s) (q s) (qlen s) (wr s) (ws s) v (rcnt s) (flag s) (gen s) (tok s) (hcl s) (pcs s) (prog s) (pseq s) (accepted s) (popped s) (results s) (owedR s) (owedS s) (bad s) (discbad s).
Definition set_rcnt s v := mkSt (lk s) (q s) (qlen s) (wr s) (ws s) (scnt s) v (flag s) (gen s) (tok s) (hcl s) (pcs s) (prog s) (pseq s) (accepted s) (popped s) (results s) (owedR s) (owedS s) (bad s) (discbad s).
Definition set_flag s t v := mkSt (lk s) (q s) (qlen s) (wr s) (ws s) (scnt s) (rcnt s) (upd (flag s) t v) (gen s) (tok s) (hcl s) (pcs s) (prog s) (pseq s) (accepted s) (popped s) (results s) (owedR s) (owedS s) (bad s) (discbad s).
Definition set_gen s t v := mkSt (lk s) (q s) (qlen s) (wr s) (ws s) (scnt s) (rcnt s) (flag s) (upd (gen s) t v) (tok s) (hcl s) (pcs s) (prog s) (pseq s) (accepted s) (popped s) (results s) (owedR s) (owedS s) (bad s) (discbad s).
Definition set_tok s t v := mkSt (lk s) (q s) (qlen s) (wr s) (ws s) (scnt s) (rcnt s) (flag s) (gen s) (upd (tok s) t v) (hcl s) (pcs s) (prog s) (pseq s) (accepted s) (popped s) (results s) (owedR s) (owedS s) (bad s) (discbad s).
Definition set_hcl s t v := mkSt (lk s) (q s) (qlen s) (wr s) (ws s) (scnt s) (rcnt s) (flag s) (gen s) (tok s) (upd (hcl s) t v) (pcs s) (prog s) (pseq s) (accepted s) (popped s) (results s) (owedR s) (owedS s) (bad s) (discbad s).
Definition set_pc s t v := mkSt (lk s) (q s) (qlen s) (wr s) (ws s) (scnt s) (rcnt s) (flag s) (gen s) (tok s) (hcl s) (upd (pcs s) t v) (prog s) (pseq s) (accepted s) (popped s) (results s) (owedR s) (owedS s) (bad s) (discbad s).
Definition set_prog s t v := mkSt (lk s) (q s) (qlen s) (wr s) (ws s) (scnt s) (rcnt s) (flag s) (gen s) (tok s) (hcl s) (pcs s) (upd (prog s) t v) (pseq s) (accepted s) (popped s) (results s) (owedR s) (owedS s) (bad s) (discbad s).
Definition set_pseq s t v := mkSt (lk s) (q s) (qlen s) (wr s) (ws s) (scnt s) (rcnt s) (flag s) (gen s) (tok s) (hcl s) (pcs s) (prog s) (upd (pseq s) t v) (accepted s) (popped s) (results s) (owedR s) (owedS s) (bad s) (discbad s).
Definition set_accepted s v := mkSt (lk s) (q s) (qlen s) (wr s) (ws s) (scnt s) (rcnt s) (flag s) (gen s) (tok s) (hcl s) (pcs s) (prog s) (pseq s) v (popped s) (results s) (owedR s) (owedS s) (bad s) (discbad s).
Definition set_popped s v := mkSt (lk s) (q s) (qlen s) (wr s) (ws s) (scnt s) (rcnt s) (flag s) (gen s) (tok s) (hcl s) (pcs s) (prog s) (pseq s) (accepted s) v (results s) (owedR s) (owedS s) (bad s) (discbad s).
Definition set_results s v := mkSt (lk s) (q s) (qlen s) (wr s) (ws s) (scnt s) (rcnt s) (flag s) (gen s) (tok s) (hcl s) (pcs s) (prog s) (pseq s) (accepted s) (popped s) v (owedR s) (owedS s) (bad s) (discbad s).
Definition set_owedR s v := mkSt (lk s) (q s) (qlen s) (wr s) (ws s) (scnt s) (rcnt s) (flag s) (gen s) (tok s) (hcl s) (pcs s) (prog s) (pseq s) (accepted s) (popped s) (results s) v (owedS s) (bad s) (discbad s).
Definition set_owedS s v := mkSt (lk s) (q s) (qlen s) (wr s) (ws s) (scnt s) (rcnt s) (flag s) (gen s) (tok s) (hcl s) (pcs s) (prog s) (pseq s) (accepted s) (popped s) (results s) (owedR s) v (bad s) (discbad s).
Definition set_bad s v := mkSt (lk s) (q s) (qlen s) (wr s) (ws s) (scnt s) (rcnt s) (flag s) (gen s) (tok s) (hcl s) (pcs s) (prog s) (pseq s) (accepted s) (popped s) (results s) (owedR s) (owedS s) v (discbad s).
Definition set_discbad s v := mkSt (lk s) (q s) (qlen s) (wr s) (ws s) (scnt s) (rcnt s) (flag s) (gen s) (tok s) (hcl s) (pcs s) (prog s) (pseq s) (accepted s) (popped s) (results s) (owedR s) (owedS s) (bad s) v.

(* ---------------------------------------------------------------- Ordering literals of the source
   (the step function and the D3 table below are built from the same constants) *)
Definition o_closed_ld := Rlx.                           (* mod.rs: self.closed.load(Relaxed) *)
Definition o_close_cas := AcqRel.  Definition o_close_casf := Rlx.   (* mod.rs close(): compare_exchange *)
Definition o_flag_ld := Acq.                             (* sync_impl.rs: done_flag.load(Acquire) *)
Definition o_wake := SeqCst.                             (* core.rs / mod.rs: waiter state CAS, both orderings *)
Definition o_cancel := SeqCst.                           (* sync_impl.rs: cancel CAS, both orderings *)

(* ---------------------------------------------------------------- helpers *)
Definition isnil {A} (l : list A) : bool := match l with [] => true | _ => false end.
Definition ent_eqb (a b : nat * nat) : bool := Nat.eqb (fst a) (fst b) && Nat.eqb (snd a) (snd b).
(* retain(|w| w.state != done_ptr) / position + remove *)
Definition unlink (t g : nat) (l : list (nat * nat)) : list (nat * nat) :=
  filter (fun e => negb (ent_eqb e (t, g))) l.
Fixpoint remove_nth {A} (i : nat) (l : list A) : list A :=
  match l, i with
  | [], _ => []
  | _ :: r, O => r
  | a :: r, S j => a :: remove_nth j r
  end.
Fixpoint remove1 (t : nat) (l : list nat) : list nat :=
  match l with
  | [] => []
  | a :: r => if Nat.eqb a t then r else a :: remove1 t r
  end.

(* the stack frame holding the thread's current done_flag is alive *)
Definition in_frame (p : pc) : bool :=
  match p with
  | SRegUnlock GoWait | SWLoad | SWNext | SFinal | SUnlLock _ | SUnlUnlock _
  | RRegUnlock _ GoWait | RWLoad | RWNext | RFinal | TWLoad | TWNext | TFinal | TCancelLock | TCancelUnlock
  | RUnlLock _ | RUnlUnlock _ => true
  | _ => false
  end.

Definition is_prod (p : tprog) : bool := match p with TProd _ => true | TCons _ => false end.

Definition ret (s : st) (t : nat) (p : pc) (e : ev) : option (st * ev) := Some (set_pc s t p, e).

(* an API call of thread t returns r: log it, advance the program (Drain stays while it yields values) *)
Definition next_prog (p : tprog) (r : res) : tprog :=
  match p with
  | TProd l => TProd (tl l)
  | TCons (Drain :: l) => match r with RVal _ => TCons (Drain :: l) | _ => TCons l end
  | TCons l => TCons (tl l)
  end.
Definition fin (s : st) (t : nat) (r : res) : st :=
  set_pc (set_results (set_prog s t (next_prog (prog s t) r)) (results s ++ [(t, r)])) t Idle.
(* Disconnected is returned: was it justified by the state it is returned in? *)
Definition fin_disc (s : st) (t : nat) : st :=
  fin (set_discbad s (discbad s || negb (isnil (q s) && Nat.eqb (scnt s) 0))) t RDis.

Definition cur_id (s : st) (t : nat) : id := (t, pseq s t).
Definition push (s : st) (v : id) : st :=
  set_accepted (set_qlen (set_q s (q s ++ [v])) (S (qlen s))) (accepted s ++ [v]).

Section Steps.
  Variable cap : nat.
  Variable cf : cfg.

  Definition is_full (s : st) : bool := Nat.eqb (qlen s) cap.

  (* ---- try_send_core, from the acquisition up to its first traced event *)
  (* GHOST: the retry a signalled sender owed has come to its decision (push / Full / Closed) *)
  Definition owe_s_done (s : st) (t : nat) : st := set_owedS s (remove1 t (owedS s)).

  Definition ts_enter (s : st) (t : nat) (k : sctx) : st :=
    if Nat.eqb (rcnt s) 0 then set_pc (owe_s_done s t) t (SUnlock k SClosed)
    else if negb (isnil (wr s)) && negb (is_full s) then set_pc s t (SScan k 0)
    else if Nat.ltb (qlen s) cap then set_pc (push (owe_s_done s t) (cur_id s t)) t (SUnlock k SOk)
    else set_pc (owe_s_done s t) t (SUnlock k SFull).

  (* ---- try_recv_core, from the acquisition up to its first traced event *)
  Definition tr_enter (s : st) (t : nat) (k : rctx) : st :=
    match q s with
    | v :: r =>
        let s1 := set_popped (set_qlen (set_q s r) (qlen s - 1)) (popped s ++ [(t, v)]) in
        if isnil (ws s1) then set_pc s1 t (RUnlock k (ROk v)) else set_pc s1 t (RScan k v 0)
    | [] => set_pc s t (RUnlock k (if Nat.eqb (scnt s) 0 then RDisc else REmpty))
    end.

  (* the wake CAS of the lock holder on the waiter record (u, g): WAITING -> nf *)
  Definition cas_entry (s : st) (u g : nat) (nf : fl) : st * ev * bool :=
    let valid := Nat.eqb g (gen s u) && in_frame (pcs s u) in
    let ok := valid && f_waiting (flag s u) in
    let e := ECasFlag u g o_wake o_wake (fenc FWaiting) (fenc nf) (fenc (flag s u)) ok in
    (if ok then set_flag s u nf else if valid then s else set_bad s true, e, ok).

  Definition step (s : st) (t : nat) (c : choice) : option (st * ev) :=
    match pcs s t with
    | Idle =>
        match prog s t with
        | TProd [] | TCons [] =>
            (* Drop -> close(): closed.compare_exchange(false, true) *)
            if hcl s t then ret s t Done (ECasClosed o_close_cas o_close_casf false)
            else ret (set_hcl s t true) t DLock (ECasClosed o_close_cas o_close_casf true)
        | TProd (o :: _) =>
            let s1 := set_pseq s t (S (pseq s t)) in
            let e := ELdClosed o_closed_ld (hcl s t) in
            if hcl s t then
              Some (fin s1 t (match o with Send => PGone (cur_id s1 t) | TrySend => PClosed (cur_id s1 t) end), e)
            else ret s1 t (SLock (match o with Send => KSend | TrySend => KTry end)) e
        | TCons (o :: _) =>
            let e := ELdClosed o_closed_ld (hcl s t) in
            if hcl s t then Some (fin s t RDis, e)
            else ret s t (RLock (match o with TryRecv => CTry | RecvT => CRt | _ => CRecv end)) e
        end
    (* ------------------------------------------------ try_send_core *)
    | SLock k =>
        match lk s with
        | Some _ => None
        | None => Some (ts_enter (set_lk s (Some t)) t k, ELock)
        end
    | SScan k i =>
        match nth_error (wr s) i with
        | None => None
        | Some (u, g) =>
            let '(s1, e, ok) := cas_entry s u g FSuccess in
            if ok then
              Some (set_pc (push (owe_s_done (set_owedR (set_wr s1 (remove_nth i (wr s))) (u :: owedR s)) t) (cur_id s t)) t (SUnpark k u), e)
            else if Nat.ltb (S i) (length (wr s)) then ret s1 t (SScan k (S i)) e
            else if Nat.ltb (qlen s) cap then Some (set_pc (push (owe_s_done s1 t) (cur_id s t)) t (SUnlock k SOk), e)
            else ret (owe_s_done s1 t) t (SUnlock k SFull) e
        end
    | SUnpark k u => ret (set_tok s u true) t (SUnlock k SOk) (EUnpark u)
    | SUnlock k r =>
        let s1 := set_lk s None in
        Some (match k, r with
              | KTry, SOk => fin s1 t (POk (cur_id s t))
              | KTry, SFull => fin s1 t (PFull (cur_id s t))
              | KTry, SClosed => fin s1 t (PClosed (cur_id s t))
              | KSend, SOk => fin s1 t (POk (cur_id s t))
              | KSend, SClosed => fin s1 t (PGone (cur_id s t))
              | KSend, SFull => set_pc s1 t SRegLock
              end, EUnlock)
    (* ------------------------------------------------ send_sync *)
    | SRegLock =>
        match lk s with
        | Some _ => None
        | None =>
            let s1 := set_lk s (Some t) in
            Some (if negb (is_full s) && (negb (isnil (wr s)) || (Nat.ltb 0 cap && Nat.ltb (qlen s) cap))
                  then set_pc s1 t (SRegUnlock GoRetry)
                  else if Nat.eqb (rcnt s) 0 then set_pc s1 t (SRegUnlock GoClosed)
                  else
                    let g := S (gen s t) in
                    set_pc (set_ws (set_flag (set_gen s1 t g) t FWaiting) (ws s ++ [(t, g)])) t (SRegUnlock GoWait),
                  ELock)
        end
    | SRegUnlock o =>
        let s1 := set_lk s None in
        Some (match o with
              | GoRetry => set_pc s1 t (SLock KSend)
              | GoClosed => fin s1 t (PGone (cur_id s t))
              | GoWait => set_pc s1 t SWLoad
              end, EUnlock)
    | SWLoad =>
        ret s t (if f_fin (flag s t) then SFinal else SWNext) (ELdFlag t (gen s t) o_flag_ld (fenc (flag s t)))
    | SWNext =>
        match c with
        | CSpin => ret s t SWLoad ESpin
        | CYield => ret s t SWLoad EYield
        | CSpur => ret s t SWLoad EPark
        | _ => if tok s t then ret (set_tok s t false) t SWLoad EPark else None
        end
    | SFinal =>
        ret s t (SUnlLock (negb (f_ok (flag s t)))) (ELdFlag t (gen s t) o_flag_ld (fenc (flag s t)))
    | SUnlLock cl =>
        match lk s with
        | Some _ => None
        | None => ret (set_ws (set_lk s (Some t)) (unlink t (gen s t) (ws s))) t (SUnlUnlock cl) ELock
        end
    | SUnlUnlock cl =>
        let s1 := set_lk s None in
        Some (if cl then fin s1 t (PGone (cur_id s t)) else set_pc s1 t (SLock KSend), EUnlock)
    (* ------------------------------------------------ try_recv_core *)
    | RLock k =>
        match lk s with
        | Some _ => None
        | None => Some (tr_enter (set_owedR (set_lk s (Some t)) (remove1 t (owedR s))) t k, ELock)
        end
    | RScan k v i =>
        match nth_error (ws s) i with
        | None => None
        | Some (u, g) =>
            let '(s1, e, ok) := cas_entry s u g FSuccess in
            if ok then
              Some (set_pc (set_owedS (set_ws s1 (remove_nth i (ws s))) (u :: owedS s)) t (RUnpark k v u), e)
            else if Nat.ltb (S i) (length (ws s)) then ret s1 t (RScan k v (S i)) e
            else ret s1 t (RUnlock k (ROk v)) e
        end
    | RUnpark k v u => ret (set_tok s u true) t (RUnlock k (ROk v)) (EUnpark u)
    | RUnlock k r =>
        let s1 := set_lk s None in
        match r with
        | ROk v => Some (fin s1 t (RVal v), EUnlock)
        | RDisc => Some (fin_disc s1 t, EUnlock)
        | REmpty =>
            Some (match k with
                  | CTry => fin s1 t REmp
                  | CRecv => set_pc s1 t (RRegLock false)
                  | CRt => set_pc s1 t (RRegLock true)
                  | CRtS => if rearm_after_steal cf then set_pc s1 t (RRegLock true) else set_pc s1 t TDeafNext
                  | CRtM => match c with CTimeout => fin s1 t RTimeout | _ => set_pc s1 t (RRegLock true) end
                  | CRtD => set_pc s1 t TDeafNext
                  | CRtDL => set_pc (set_bad s1 true) t Panicked     (* unreachable!() *)
                  end, EUnlock)
        end
    (* ------------------------------------------------ recv_sync / recv_timeout_sync *)
    | RRegLock tm =>
        match lk s with
        | Some _ => None
        | None =>
            let s1 := set_lk s (Some t) in
            Some (if negb (isnil (q s)) then set_pc s1 t (RRegUnlock tm GoRetry)
                  else if Nat.eqb (scnt s) 0 then set_pc s1 t (RRegUnlock tm GoClosed)
                  else
                    let g := S (gen s t) in
                    set_pc (set_wr (set_flag (set_gen s1 t g) t FWaiting) (wr s ++ [(t, g)])) t (RRegUnlock tm GoWait),
                  ELock)
        end
    | RRegUnlock tm o =>
        let s1 := set_lk s None in
        Some (match o with
              | GoRetry => set_pc s1 t (RLock (if tm then CRtM else CRecv))
              | GoClosed => fin_disc s1 t
              | GoWait => set_pc s1 t (if tm then TWLoad else RWLoad)
              end, EUnlock)
    | RWLoad =>
        ret s t (if f_fin (flag s t) then RFinal else RWNext) (ELdFlag t (gen s t) o_flag_ld (fenc (flag s t)))
    | RWNext =>
        match c with
        | CSpin => ret s t RWLoad ESpin
        | CYield => ret s t RWLoad EYield
        | CSpur => ret s t RWLoad EPark
        | _ => if tok s t then ret (set_tok s t false) t RWLoad EPark else None
        end
    | RFinal =>
        ret s t (if f_ok (flag s t) then RLock CRecv else RUnlLock false)
            (ELdFlag t (gen s t) o_flag_ld (fenc (flag s t)))
    | TWLoad =>
        ret s t (if f_fin (flag s t) then TFinal else TWNext) (ELdFlag t (gen s t) o_flag_ld (fenc (flag s t)))
    | TWNext =>
        match c with
        | CTimeout =>
            let ok := f_waiting (flag s t) in
            let e := ECasFlag t (gen s t) o_cancel o_cancel (fenc FWaiting) (fenc FCancelled) (fenc (flag s t)) ok in
            if ok then ret (set_flag s t FCancelled) t TCancelLock e else ret s t TFinal e
        | CSpur => ret s t TWLoad EParkT
        | _ => if tok s t then ret (set_tok s t false) t TWLoad EParkT else None
        end
    | TFinal =>
        ret s t (if f_ok (flag s t) then RLock CRtS else RUnlLock true)
            (ELdFlag t (gen s t) o_flag_ld (fenc (flag s t)))
    | TCancelLock =>
        match lk s with
        | Some _ => None
        | None => ret (set_wr (set_lk s (Some t)) (unlink t (gen s t) (wr s))) t TCancelUnlock ELock
        end
    | TCancelUnlock => Some (fin (set_lk s None) t RTimeout, EUnlock)
    | RUnlLock tm =>
        match lk s with
        | Some _ => None
        | None => ret (set_wr (set_lk s (Some t)) (unlink t (gen s t) (wr s))) t (RUnlUnlock tm) ELock
        end
    | RUnlUnlock tm =>
        let s1 := set_lk s None in
        Some (if tm then set_pc s1 t (RLock CRtS)
              else if redrain_on_close cf then set_pc s1 t (RLock CRecv) else fin_disc s1 t, EUnlock)
    (* the pre-b9b6953 loop: signalled, lost the item, keeps parking without a linked record *)
    | TDeafNext =>
        match c with
        | CTimeout =>
            let ok := f_waiting (flag s t) in
            let e := ECasFlag t (gen s t) o_cancel o_cancel (fenc FWaiting) (fenc FCancelled) (fenc (flag s t)) ok in
            if ok then ret (set_flag s t FCancelled) t TCancelLock e else ret s t (RLock CRtDL) e
        | CSpur => ret s t TDeafLoad EParkT
        | _ => if tok s t then ret (set_tok s t false) t TDeafLoad EParkT else None
        end
    | TDeafLoad =>
        ret s t (if f_fin (flag s t) then RLock CRtD else TDeafNext) (ELdFlag t (gen s t) o_flag_ld (fenc (flag s t)))
    (* ------------------------------------------------ close_internal *)
    | DLock =>
        match lk s with
        | Some _ => None
        | None =>
            let s1 := set_lk s (Some t) in
            Some (if is_prod (prog s t) then
                    let s2 := set_scnt s1 (scnt s - 1) in
                    if Nat.eqb (scnt s2) 0 && negb (isnil (wr s)) then set_pc s2 t (DScan true 0 [])
                    else set_pc s2 t (DUnlock [])
                  else
                    let s2 := set_rcnt s1 (rcnt s - 1) in
                    if isnil (ws s) then set_pc s2 t (DUnlock [])
                    else set_pc s2 t (DScan (Nat.eqb (rcnt s2) 0) 0 []),
                  ELock)
        end
    | DScan all i w =>
        let prod := is_prod (prog s t) in
        match nth_error (if prod then wr s else ws s) i with
        | None => None
        | Some (u, g) =>
            let '(s1, e, ok) := cas_entry s u g (if all then FClosed else FSuccess) in
            let s2 := if ok then (if prod then set_owedR s1 (u :: owedR s)
                                  else if all then s1 else set_owedS s1 (u :: owedS s)) else s1 in
            let w' := if ok then w ++ [u] else w in
            if all && Nat.ltb (S i) (length (if prod then wr s else ws s))
            then ret s2 t (DScan all (S i) w') e
            else ret s2 t (DUnlock w') e
        end
    | DUnlock w =>
        ret (set_lk s None) t (match w with [] => Done | _ => DUnpark w end) EUnlock
    | DUnpark w =>
        match w with
        | [] => None
        | u :: r => ret (set_tok s u true) t (match r with [] => Done | _ => DUnpark r end) (EUnpark u)
        end
    | Done => None
    | Panicked => None
    end.
End Steps.

(* ---------------------------------------------------------------- initial state, system *)
Definition count_prod (l : list tprog) : nat := length (filter is_prod l).
Definition count_cons (l : list tprog) : nat := length (filter (fun p => negb (is_prod p)) l).

Definition init (threads : list tprog) : st :=
  mkSt None [] 0 [] [] (count_prod threads) (count_cons threads)
       (fun _ => FWaiting) (fun _ => 0) (fun _ => false) (fun _ => false)
       (fun t => if Nat.ltb t (length threads) then Idle else Done)
       (fun t => nth t threads (TCons [])) (fun _ => 0)
       [] [] [] [] [] false false.

Definition sys (cap : nat) (cf : cfg) (threads : list tprog) : system :=
  mkSystem st nat choice ev (init threads) (step cap cf).

(* ---------------------------------------------------------------- event equality (D2 replay) *)
Definition ord_eqb (a b : ord) : bool :=
  match a, b with
  | Rlx, Rlx | Acq, Acq | Rel, Rel | AcqRel, AcqRel | SeqCst, SeqCst => true
  | _, _ => false
  end.
Definition ev_eqb (a b : ev) : bool :=
  match a, b with
  | ELdClosed o r, ELdClosed o' r' => ord_eqb o o' && Bool.eqb r r'
  | ECasClosed o f k, ECasClosed o' f' k' => ord_eqb o o' && ord_eqb f f' && Bool.eqb k k'
  | ELock, ELock | EUnlock, EUnlock | EPark, EPark | EParkT, EParkT | ESpin, ESpin | EYield, EYield => true
  | ELdFlag u g o r, ELdFlag u' g' o' r' => Nat.eqb u u' && Nat.eqb g g' && ord_eqb o o' && N.eqb r r'
  | ECasFlag u g o f x y r k, ECasFlag u' g' o' f' x' y' r' k' =>
      Nat.eqb u u' && Nat.eqb g g' && ord_eqb o o' && ord_eqb f f' && N.eqb x x' && N.eqb y y' && N.eqb r r'
      && Bool.eqb k k'
  | EUnpark u, EUnpark u' => Nat.eqb u u'
  | _, _ => false
  end.

Definition replay_from (cap : nat) (cf : cfg) (threads : list tprog) (s : st)
           (tr : list (nat * choice * ev)) : option st + nat :=
  replay (sys cap cf threads) ev_eqb s tr.

Definition peek (cap : nat) (cf : cfg) (s : st) (t : nat) (c : choice) : option ev :=
  match step cap cf s t c with Some (_, e) => Some e | None => None end.

(* ---------------------------------------------------------------- observables used by the theorems *)
(* values a consumer holds between the pop and the return of its call *)
Definition in_hand (p : pc) : list id :=
  match p with
  | RScan _ v _ | RUnpark _ v _ | RUnlock _ (ROk v) => [v]
  | _ => []
  end.
(* the producer's value is in the ring although its call has not returned yet *)
Definition in_flight (p : pc) : bool :=
  match p with SUnpark _ _ | SUnlock _ SOk => true | _ => false end.

Definition res_val (r : res) : list id := match r with RVal v => [v] | _ => [] end.
Definition res_ok (r : res) : list id := match r with POk v => [v] | _ => [] end.
Definition res_failed (r : res) : list id :=
  match r with PFull v | PClosed v | PGone v => [v] | _ => [] end.
Definition of_thread {A} (t : nat) (l : list (nat * A)) : list A :=
  map snd (filter (fun x => Nat.eqb (fst x) t) l).
Definition got (s : st) (c : nat) : list id := flat_map res_val (of_thread c (results s)).
Definition sent_ok (s : st) (p : nat) : list id := flat_map res_ok (of_thread p (results s)).
Definition from_prod (p : nat) (l : list id) : list id := filter (fun v => Nat.eqb (fst v) p) l.

(* wait conditions: the thread sits in park / park_timeout without a token *)
Definition parked (s : st) (t : nat) : Prop :=
  (pcs s t = SWNext \/ pcs s t = RWNext \/ pcs s t = TWNext \/ pcs s t = TDeafNext) /\ tok s t = false.
Definition is_sender_wait (p : pc) : bool := match p with SWNext => true | _ => false end.
(* quiescence: nobody can move by a normal step (no further spin / yield round, no spurious park
   return, no deadline) *)
Definition quiescent_go (cap : nat) (cf : cfg) (s : st) : Prop := forall t, step cap cf s t CGo = None.

(* ---------------------------------------------------------------- D3: the source skeleton the model
   stands for: per Rust function the ordered facade operations (variable, operation, orderings)
   and calls, built from the Ordering constants used by `step`.  Rows marked SvAsync are the
   async-waiter arms of the same loops (never entered by sync-only programs: the async queues
   stay empty); they use the same wake CAS. *)
Inductive fn :=
| FnTrySendCore | FnTryRecvCore | FnSendSync | FnRecvSync | FnRecvTimeoutSync | FnAdaptiveWait | FnSpinHint
| FnSenderSend | FnSenderTrySend | FnSenderClose | FnSenderCloseInternal | FnSenderDrop
| FnReceiverRecv | FnReceiverTryRecv | FnReceiverRecvTimeout | FnReceiverClose | FnReceiverCloseInternal
| FnReceiverDrop | FnWakeRefWake.
Inductive sop := KLoad | KCas | KLockOp | KPark | KParkT | KUnpark | KWakerWake | KSpin | KYield | KCall (f : fn).
Inductive svar := SvClosed | SvFlag | SvWaiterState | SvInternal | SvNone.
Definition row := (svar * sop * option ord * option ord)%type.
Definition call (f : fn) : row := (SvNone, KCall f, None, None).
Definition wake_cas : row := (SvWaiterState, KCas, Some o_wake, Some o_wake).
Definition lock_row : row := (SvInternal, KLockOp, None, None).
Definition flag_ld : row := (SvFlag, KLoad, Some o_flag_ld, None).
Definition closed_ld : row := (SvClosed, KLoad, Some o_closed_ld, None).

Definition skeleton : list (fn * list row) :=
  [ (FnTrySendCore, [ lock_row; wake_cas; (SvNone, KWakerWake, None, None); wake_cas; (SvNone, KUnpark, None, None) ]);
    (FnTryRecvCore, [ lock_row; wake_cas; (SvNone, KWakerWake, None, None); wake_cas; (SvNone, KUnpark, None, None) ]);
    (FnSendSync, [ call FnTrySendCore; lock_row; call FnAdaptiveWait; flag_ld; flag_ld; lock_row; lock_row ]);
    (FnRecvSync, [ call FnTryRecvCore; lock_row; call FnAdaptiveWait; flag_ld; flag_ld; lock_row ]);
    (FnRecvTimeoutSync, [ call FnTryRecvCore; lock_row; call FnTryRecvCore; flag_ld;
                          (SvFlag, KCas, Some o_cancel, Some o_cancel); lock_row; (SvNone, KParkT, None, None);
                          flag_ld; lock_row ]);
    (FnAdaptiveWait, [ call FnSpinHint; (SvNone, KYield, None, None); (SvNone, KPark, None, None) ]);
    (FnSpinHint, [ (SvNone, KSpin, None, None) ]);
    (FnSenderSend, [ closed_ld; call FnSendSync ]);
    (FnSenderTrySend, [ closed_ld; call FnTrySendCore ]);
    (FnSenderClose, [ (SvClosed, KCas, Some o_close_cas, Some o_close_casf); call FnSenderCloseInternal ]);
    (FnSenderCloseInternal, [ lock_row; wake_cas; wake_cas; (SvNone, KWakerWake, None, None) ]);
    (FnSenderDrop, [ call FnSenderClose ]);
    (FnReceiverRecv, [ closed_ld; call FnRecvSync ]);
    (FnReceiverTryRecv, [ closed_ld; call FnTryRecvCore ]);
    (FnReceiverRecvTimeout, [ closed_ld; call FnRecvTimeoutSync ]);
    (FnReceiverClose, [ (SvClosed, KCas, Some o_close_cas, Some o_close_casf); call FnReceiverCloseInternal ]);
    (FnReceiverCloseInternal, [ lock_row; wake_cas; wake_cas; wake_cas; wake_cas; (SvNone, KWakerWake, None, None) ]);
    (FnReceiverDrop, [ call FnReceiverClose ]);
    (FnWakeRefWake, [ (SvNone, KUnpark, None, None); (SvNone, KWakerWake, None, None) ]) ].
