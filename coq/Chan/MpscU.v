(* Chan/MpscU.v — K2 (op-level) model of fibre::mpsc::unbounded / unbounded_async
   (channels/src/mpsc/unbounded_v3/{shared,producer,consumer}.rs over internal/slab_chain.rs).

   One public API call = one atomic step; one poll / one drop of a future is a step.
   The Vyukov chain + per-handle bump slabs (128-node slabs, pool of 8) are abstracted to the FIFO
   [q] of published values: in a sequential history every publish (swap + link) is complete, so the
   consumer sees exactly the swap order.  D1 exercises slab exhaustion/sealing/recycling on the real
   code (several slabs per handle, pool overflow) and compares every observable incl. drop counters.

   Sending takes &mut self and AsyncReceiver's receive methods take &mut self: while a future
   borrows a handle no other call on that handle type-checks - such ops are [RBad] here and are
   refused by the driver.  No proofs in this file; ghost fields as in MpscB.v.
   (The helper definitions are repeated from MpscB.v on purpose: the two models are independent.) *)
From Fibre Require Import Common.Base.

Definition len {A} (l : list A) : N := N.of_nat (length l).

(** association lists keyed by N; [aset] keeps keys unique *)
Fixpoint aget {A} (k : N) (l : list (N * A)) : option A :=
  match l with
  | [] => None
  | (k', v) :: t => if N.eqb k k' then Some v else aget k t
  end.

Fixpoint adel {A} (k : N) (l : list (N * A)) : list (N * A) :=
  match l with
  | [] => []
  | (k', v) :: t => if N.eqb k k' then adel k t else (k', v) :: adel k t
  end.

Definition aset {A} (k : N) (v : A) (l : list (N * A)) : list (N * A) := (k, v) :: adel k l.

Definition is_nil {A} (l : list A) : bool := match l with [] => true | _ => false end.

Fixpoint nodupb (l : list N) : bool :=
  match l with [] => true | x :: t => negb (mem x t) && nodupb t end.

(** who registered the waker sitting in the single async recv-waiter slot (ghost) *)
Inductive owner := OF (f : N) | OH (h : N).

(** a handle: Sender/AsyncSender/Receiver/AsyncReceiver with its own [closed] flag;
    [hreg]/[hpend] are AsyncReceiver::is_registered (Stream) and the ghost "last
    poll_next returned Pending with (waker, wake count then)" *)
Record hrec := mkH {
  htx : bool; hasync : bool; hclosed : bool; hreg : bool; hpend : option (N * N) }.

Inductive fkind :=
| FSend (item : option N)                  (* SendFuture { item, my_id } *)
| FRecv (reg : bool)                       (* RecvFuture { is_registered } *)
| FSendB (rest : list N) (sent total : N)  (* BoundedSendBatchFuture *)
| FRecvB (max : N) (reg : bool).           (* BoundedRecvBatchFuture *)

(** [fpend] (ghost): last poll returned Pending with (waker, that waker's wake count then) *)
Record frec := mkF { fh : N; fk : fkind; fpend : option (N * N) }.

Record st := mkSt {
  q : list N;
  scount : N;
  rdrop : bool;
  rw : option (owner * N);
  hs : list (N * hrec);
  fs : list (N * frec);
  wk : N -> N;
  used : list N;
  acc : list N;
  rcv : list N;
  back : list N;
  drp : list N;
  qdrp : list N;
  multi : bool;
  evw : list N;
  evd : list N;
  fixcl : bool
}.

Definition set_q (s : st) (x : list N) : st :=
  mkSt x (scount s) (rdrop s) (rw s) (hs s) (fs s) (wk s) (used s) (acc s) (rcv s) (back s) (drp s) (qdrp s) (multi s) (evw s) (evd s) (fixcl s).
Definition set_scount (s : st) (x : N) : st :=
  mkSt (q s) x (rdrop s) (rw s) (hs s) (fs s) (wk s) (used s) (acc s) (rcv s) (back s) (drp s) (qdrp s) (multi s) (evw s) (evd s) (fixcl s).
Definition set_rdrop (s : st) (x : bool) : st :=
  mkSt (q s) (scount s) x (rw s) (hs s) (fs s) (wk s) (used s) (acc s) (rcv s) (back s) (drp s) (qdrp s) (multi s) (evw s) (evd s) (fixcl s).
Definition set_rw (s : st) (x : option (owner * N)) : st :=
  mkSt (q s) (scount s) (rdrop s) x (hs s) (fs s) (wk s) (used s) (acc s) (rcv s) (back s) (drp s) (qdrp s) (multi s) (evw s) (evd s) (fixcl s).
Definition set_hs (s : st) (x : list (N * hrec)) : st :=
  mkSt (q s) (scount s) (rdrop s) (rw s) x (fs s) (wk s) (used s) (acc s) (rcv s) (back s) (drp s) (qdrp s) (multi s) (evw s) (evd s) (fixcl s).
Definition set_fs (s : st) (x : list (N * frec)) : st :=
  mkSt (q s) (scount s) (rdrop s) (rw s) (hs s) x (wk s) (used s) (acc s) (rcv s) (back s) (drp s) (qdrp s) (multi s) (evw s) (evd s) (fixcl s).
Definition set_wk (s : st) (x : N -> N) : st :=
  mkSt (q s) (scount s) (rdrop s) (rw s) (hs s) (fs s) x (used s) (acc s) (rcv s) (back s) (drp s) (qdrp s) (multi s) (evw s) (evd s) (fixcl s).
Definition set_used (s : st) (x : list N) : st :=
  mkSt (q s) (scount s) (rdrop s) (rw s) (hs s) (fs s) (wk s) x (acc s) (rcv s) (back s) (drp s) (qdrp s) (multi s) (evw s) (evd s) (fixcl s).
Definition set_acc (s : st) (x : list N) : st :=
  mkSt (q s) (scount s) (rdrop s) (rw s) (hs s) (fs s) (wk s) (used s) x (rcv s) (back s) (drp s) (qdrp s) (multi s) (evw s) (evd s) (fixcl s).
Definition set_rcv (s : st) (x : list N) : st :=
  mkSt (q s) (scount s) (rdrop s) (rw s) (hs s) (fs s) (wk s) (used s) (acc s) x (back s) (drp s) (qdrp s) (multi s) (evw s) (evd s) (fixcl s).
Definition set_back (s : st) (x : list N) : st :=
  mkSt (q s) (scount s) (rdrop s) (rw s) (hs s) (fs s) (wk s) (used s) (acc s) (rcv s) x (drp s) (qdrp s) (multi s) (evw s) (evd s) (fixcl s).
Definition set_drp (s : st) (x : list N) : st :=
  mkSt (q s) (scount s) (rdrop s) (rw s) (hs s) (fs s) (wk s) (used s) (acc s) (rcv s) (back s) x (qdrp s) (multi s) (evw s) (evd s) (fixcl s).
Definition set_qdrp (s : st) (x : list N) : st :=
  mkSt (q s) (scount s) (rdrop s) (rw s) (hs s) (fs s) (wk s) (used s) (acc s) (rcv s) (back s) (drp s) x (multi s) (evw s) (evd s) (fixcl s).
Definition set_multi (s : st) (x : bool) : st :=
  mkSt (q s) (scount s) (rdrop s) (rw s) (hs s) (fs s) (wk s) (used s) (acc s) (rcv s) (back s) (drp s) (qdrp s) x (evw s) (evd s) (fixcl s).
Definition set_evw (s : st) (x : list N) : st :=
  mkSt (q s) (scount s) (rdrop s) (rw s) (hs s) (fs s) (wk s) (used s) (acc s) (rcv s) (back s) (drp s) (qdrp s) (multi s) x (evd s) (fixcl s).
Definition set_evd (s : st) (x : list N) : st :=
  mkSt (q s) (scount s) (rdrop s) (rw s) (hs s) (fs s) (wk s) (used s) (acc s) (rcv s) (back s) (drp s) (qdrp s) (multi s) (evw s) x (fixcl s).
Definition set_fixcl (s : st) (x : bool) : st :=
  mkSt (q s) (scount s) (rdrop s) (rw s) (hs s) (fs s) (wk s) (used s) (acc s) (rcv s) (back s) (drp s) (qdrp s) (multi s) (evw s) (evd s) x.

Definition init (async : bool) (fcl : bool) : st :=
  mkSt [] 1 false None
       [(0, mkH true async false false None); (1, mkH false async false false None)]
       [] (fun _ => 0) [] [] [] [] [] [] false [] [] fcl.

Inductive op :=
| TrySend (h v : N) | Send (h v : N) | TryRecv (h : N) | Recv (h : N) | RecvT0 (h : N)
| Close (h : N) | DropH (h : N) | Clone (h h2 : N) | ToSync (h : N) | ToAsync (h : N)
| Len (h : N) | IsEmpty (h : N) | IsClosed (h : N) | SenderCount (h : N)
| MkSend (f h v : N) | MkRecv (f h : N) | Poll (f w : N) | DropF (f : N) | PollNext (h w : N)
| SendB (h : N) (vs : list N) (inplace synconly : bool) (* try_send_batch(_mut); send_batch(_mut) = same code, sync Sender only *)
| TryRecvB (h max : N) | RecvB (h max : N)
| MkSendB (f h : N) (vs : list N) | MkRecvB (f h max : N).

Inductive res :=
| ROk | RClosedV (v : N) | RClosed | RVal (v : N) | REmpty | RDisc | RTimeout
| RCloseErr | RBad | RBlock | RPanic | RNum (n : N) | RBool (b : bool)
| RBatchOk (n : N) | RBatchErr (sent : N) (unsent : list N)
| RMutOk (n : N) (left : list N) | RMutClosed (left : list N)
| RVals (vs : list N)
| RPending | RReady (r : res).

Definition fresh (vs : list N) (s : st) : bool :=
  forallb (fun v => negb (mem v (used s))) vs && nodupb vs.
Definition use (vs : list N) (s : st) : st := set_used s (vs ++ used s).
Definition giveback (vs : list N) (s : st) : st := set_back s (back s ++ vs).
Definition dropv (vs : list N) (s : st) : st := set_evd (set_drp s (drp s ++ vs)) (evd s ++ vs).
Definition wake (w : N) (s : st) : st :=
  set_evw (set_wk s (fun x => if N.eqb x w then wk s x + 1 else wk s x)) (evw s ++ [w]).

(** MpscShared::notify_receiver = wake_all_receivers (async slot) *)
Definition notify_receiver (s : st) : st :=
  match rw s with None => s | Some (_, w) => wake w (set_rw s None) end.

(** send_internal / send_batch_internal: bump + publish (one swap per run) + one notify *)
Definition pushl (vs : list N) (s : st) : st :=
  if is_nil vs then s
  else notify_receiver (set_acc (set_q s (q s ++ vs)) (acc s ++ vs)).

(** pop_node *)
Definition deq1 (s : st) : st * option N :=
  match q s with
  | [] => (s, None)
  | v :: r => (set_rcv (set_q s r) (rcv s ++ [v]), Some v)
  end.
Fixpoint deqn (n : nat) (s : st) : st * list N :=
  match n with
  | O => (s, [])
  | S n' => match deq1 s with
            | (s1, None) => (s1, [])
            | (s1, Some v) => let '(s2, vs) := deqn n' s1 in (s2, v :: vs)
            end
  end.

Definition tx_dead (s : st) (r : hrec) : bool := hclosed r || rdrop s.
Definition has_futs (h : N) (s : st) : bool := existsb (fun p => N.eqb (fh (snd p)) h) (fs s).
Definition with_closed (r : hrec) : hrec := mkH (htx r) (hasync r) true (hreg r) (hpend r).
Definition with_async (r : hrec) (a : bool) : hrec := mkH (htx r) a (hclosed r) false None.
Definition with_reg (r : hrec) (g : bool) (p : option (N * N)) : hrec :=
  mkH (htx r) (hasync r) (hclosed r) g p.
Definition put_h (h : N) (r : hrec) (s : st) : st := set_hs s (aset h r (hs s)).
Definition put_f (f : N) (r : frec) (s : st) : st := set_fs s (aset f r (fs s)).
Definition is_recv_kind (k : fkind) : bool :=
  match k with FRecv _ | FRecvB _ _ => true | _ => false end.
Definition kitems (k : fkind) : list N :=
  match k with FSend (Some v) => [v] | FSendB rest _ _ => rest | _ => [] end.
Definition fitems (l : list (N * frec)) : list N := flat_map (fun p => kitems (fk (snd p))) l.
Definition note_multi (h : N) (r : hrec) (s : st) : st :=
  if existsb (fun p => is_recv_kind (fk (snd p))) (fs s) || hreg r then set_multi s true else s.

(** a handle is usable by a direct call only while no future borrows it (&mut) *)
Definition lookup_free (s : st) (h : N) : option hrec :=
  if has_futs h s then None else aget h (hs s).

(* ---- sender side ---- *)
Definition do_try_send (s : st) (h v : N) : st * res :=
  match lookup_free s h with
  | Some r =>
      if htx r && fresh [v] s then
        let s := use [v] s in
        if tx_dead s r then (giveback [v] s, RClosedV v) else (pushl [v] s, ROk)
      else (s, RBad)
  | None => (s, RBad)
  end.

Definition do_send (s : st) (h v : N) : st * res :=
  match lookup_free s h with
  | Some r =>
      if htx r && negb (hasync r) && fresh [v] s then
        let s := use [v] s in
        if tx_dead s r then (dropv [v] s, RClosed) else (pushl [v] s, ROk)
      else (s, RBad)
  | None => (s, RBad)
  end.

Definition do_send_b (s : st) (h : N) (vs : list N) (inplace synconly : bool) : st * res :=
  match lookup_free s h with
  | Some r =>
      if htx r && negb (synconly && hasync r) && fresh vs s then
        if is_nil vs then (s, if inplace then RMutOk 0 [] else RBatchOk 0)
        else
          let s := use vs s in
          if tx_dead s r then
            (giveback vs s, if inplace then RMutClosed vs else RBatchErr 0 vs)
          else (pushl vs s, if inplace then RMutOk (len vs) [] else RBatchOk (len vs))
      else (s, RBad)
  | None => (s, RBad)
  end.

(* ---- receiver side ---- *)
(** try_recv_internal *)
Definition try_recv_core (s : st) (onempty : res) : st * res :=
  match deq1 s with
  | (s1, Some v) => (s1, RVal v)
  | (s1, None) => if scount s1 =? 0 then (s1, RDisc) else (s1, onempty)
  end.

Definition do_try_recv (s : st) (h : N) : st * res :=
  match lookup_free s h with
  | Some r =>
      if htx r then (s, RBad)
      else if hclosed r then (s, RDisc)
      else try_recv_core s REmpty
  | None => (s, RBad)
  end.

Definition do_recv (s : st) (h : N) (onempty : res) : st * res :=
  match lookup_free s h with
  | Some r =>
      if htx r || hasync r then (s, RBad)
      else if hclosed r then (s, RDisc)
      else try_recv_core s onempty
  | None => (s, RBad)
  end.

(** try_recv_batch_internal *)
Definition recv_b_core (s : st) (max : N) (onempty : res) : st * res :=
  let '(s1, vs) := deqn (N.to_nat max) s in
  if is_nil vs then (if scount s1 =? 0 then (s1, RDisc) else (s1, onempty))
  else (s1, RVals vs).

Definition do_try_recv_b (s : st) (h max : N) : st * res :=
  match lookup_free s h with
  | Some r =>
      if htx r then (s, RBad)
      else if max =? 0 then (s, RVals [])
      else if hclosed r then (s, RDisc)
      else recv_b_core s max REmpty
  | None => (s, RBad)
  end.

Definition do_recv_b (s : st) (h max : N) : st * res :=
  match lookup_free s h with
  | Some r =>
      if htx r || hasync r then (s, RBad)
      else if max =? 0 then (s, RVals [])
      else if hclosed r then (s, RDisc)
      else recv_b_core s max RBlock
  | None => (s, RBad)
  end.

(* ---- lifecycle ---- *)
(** sender: seal slab + drop_sender; receiver: drop_receiver + drain what was published *)
Definition close_h (s : st) (h : N) (r : hrec) : st :=
  let s1 := put_h h (with_closed r) s in
  if htx r then
    let s2 := set_scount s1 (scount s1 - 1) in
    if scount s1 =? 1 then notify_receiver s2 else s2
  else dropv (q s1) (set_qdrp (set_q (set_rdrop s1 true) []) (q s1 ++ qdrp s1)).

Definition do_close (s : st) (h : N) : st * res :=
  match lookup_free s h with
  | Some r => if hclosed r then (s, RCloseErr) else (close_h s h r, ROk)
  | None => (s, RBad)
  end.

(** MpscShared::drop drains whatever is still published *)
Definition destroy (s : st) : st :=
  dropv (q s) (set_qdrp (set_q s []) (q s ++ qdrp s)).

Definition do_drop_h (s : st) (h : N) : st * res :=
  match lookup_free s h with
  | Some r =>
      let s0 := if negb (htx r) && hasync r && hreg r then set_rw s None else s in
      let s1 := if hclosed r then s0 else close_h s0 h r in
      let s2 := set_hs s1 (adel h (hs s1)) in
      (if is_nil (hs s2) then destroy s2 else s2, ROk)
  | None => (s, RBad)
  end.

Definition do_clone (s : st) (h h2 : N) : st * res :=
  match lookup_free s h, aget h2 (hs s) with
  | Some r, None =>
      if htx r then
        if fixcl s && hclosed r
        then (put_h h2 (mkH true (hasync r) true false None) s, ROk)
        else (put_h h2 (mkH true (hasync r) false false None) (set_scount s (scount s + 1)), ROk)
      else (s, RBad)
  | _, _ => (s, RBad)
  end.

Definition do_to_async (s : st) (h : N) : st * res :=
  match lookup_free s h with
  | Some r => if hasync r then (s, RBad) else (put_h h (with_async r true) s, ROk)
  | None => (s, RBad)
  end.

Definition do_to_sync (s : st) (h : N) : st * res :=
  match lookup_free s h with
  | Some r =>
      if negb (hasync r) then (s, RBad)
      else
        let s0 := if negb (htx r) && hreg r then set_rw s None else s in
        (put_h h (with_async r false) s0, ROk)
  | None => (s, RBad)
  end.

Definition obs (s : st) (h : N) (f : hrec -> res) : st * res :=
  match lookup_free s h with Some r => (s, f r) | None => (s, RBad) end.
(** Receiver::is_closed ignores the handle's own flag (as the code does) *)
Definition is_closed_h (s : st) (r : hrec) : bool :=
  if htx r then hclosed r || rdrop s
  else (scount s =? 0) && is_nil (q s).

(* ---- futures ---- *)
Definition do_mk_send (s : st) (f h : N) (vs : list N) (k : fkind) : st * res :=
  match lookup_free s h, aget f (fs s) with
  | Some r, None =>
      if htx r && hasync r && fresh vs s
      then (put_f f (mkF h k None) (use vs s), ROk)
      else (s, RBad)
  | _, _ => (s, RBad)
  end.

Definition do_mk_recv (s : st) (f h : N) (k : fkind) : st * res :=
  match lookup_free s h, aget f (fs s) with
  | Some r, None =>
      if negb (htx r) && hasync r
      then (put_f f (mkF h k None) (note_multi h r s), ROk)
      else (s, RBad)
  | _, _ => (s, RBad)
  end.

(** MpscShared::poll_recv_internal *)
Definition poll_recv_core (s : st) (o : owner) (w : N) (reg : bool) : st * bool * res :=
  match deq1 s with
  | (s1, Some v) => (if reg then set_rw s1 None else s1, false, RReady (RVal v))
  | (s1, None) =>
      if scount s1 =? 0 then (if reg then set_rw s1 None else s1, false, RReady RDisc)
      else (set_rw s1 (Some (o, w)), true, RPending)
  end.

(** MpscShared::poll_recv_batch_internal (max = 0 resolves at once) *)
Definition poll_recv_b_core (s : st) (o : owner) (w max : N) (reg : bool) : st * bool * res :=
  if max =? 0 then (s, reg, RReady (RVals []))
  else
    let '(s1, vs) := deqn (N.to_nat max) s in
    if is_nil vs then
      if scount s1 =? 0 then (if reg then set_rw s1 None else s1, false, RReady RDisc)
      else (set_rw s1 (Some (o, w)), true, RPending)
    else (if reg then set_rw s1 None else s1, false, RReady (RVals vs)).

Definition pend_of (s : st) (w : N) (r : res) : option (N * N) :=
  match r with RPending => Some (w, wk s w) | _ => None end.

Definition do_poll (s : st) (f w : N) : st * res :=
  match aget f (fs s) with
  | None => (s, RBad)
  | Some fr =>
    match aget (fh fr) (hs s) with
    | None => (s, RBad)
    | Some r =>
      match fk fr with
      | FSend item =>
          if hclosed r then (s, RReady RClosed)
          else match item with
          | None => (s, RPanic)                       (* "SendFuture polled after completion" *)
          | Some v =>
              if rdrop s then
                (put_f f (mkF (fh fr) (FSend None) None) (dropv [v] s), RReady RClosed)
              else (put_f f (mkF (fh fr) (FSend None) None) (pushl [v] s), RReady ROk)
          end
      | FSendB rest sent total =>
          (* items.take(): [sent] = 1 marks "taken"; then try_send_batch *)
          if sent =? 1 then (s, RPanic)
          else if is_nil rest then (put_f f (mkF (fh fr) (FSendB [] 1 total) None) s, RReady (RBatchOk 0))
          else if tx_dead s r then
            (put_f f (mkF (fh fr) (FSendB [] 1 total) None) (giveback rest s), RReady (RBatchErr 0 rest))
          else (put_f f (mkF (fh fr) (FSendB [] 1 total) None) (pushl rest s), RReady (RBatchOk (len rest)))
      | FRecv reg =>
          if hclosed r then (s, RReady RDisc)
          else
            let '(s1, reg', res) := poll_recv_core s (OF f) w reg in
            (put_f f (mkF (fh fr) (FRecv reg') (pend_of s1 w res)) s1, res)
      | FRecvB max reg =>
          if hclosed r then (s, RReady RDisc)
          else
            let '(s1, reg', res) := poll_recv_b_core s (OF f) w max reg in
            (put_f f (mkF (fh fr) (FRecvB max reg') (pend_of s1 w res)) s1, res)
      end
    end
  end.

Definition do_drop_f (s : st) (f : N) : st * res :=
  match aget f (fs s) with
  | None => (s, RBad)
  | Some fr =>
      let s1 :=
        match fk fr with
        | FSend _ | FSendB _ _ _ => dropv (kitems (fk fr)) s
        | FRecv reg | FRecvB _ reg => if reg then set_rw s None else s
        end in
      (set_fs s1 (adel f (fs s1)), ROk)
  end.

Definition do_poll_next (s : st) (h w : N) : st * res :=
  match lookup_free s h with
  | Some r =>
      if htx r || negb (hasync r) then (s, RBad)
      else if hclosed r then (put_h h (with_reg r (hreg r) None) s, RReady RDisc)
      else
        let '(s1, reg', res) := poll_recv_core s (OH h) w (hreg r) in
        (put_h h (with_reg r reg' (pend_of s1 w res)) s1, res)
  | None => (s, RBad)
  end.

Definition exec (s : st) (o : op) : st * res :=
  match o with
  | TrySend h v => do_try_send s h v
  | Send h v => do_send s h v
  | TryRecv h => do_try_recv s h
  | Recv h => do_recv s h RBlock
  | RecvT0 h => do_recv s h RTimeout
  | Close h => do_close s h
  | DropH h => do_drop_h s h
  | Clone h h2 => do_clone s h h2
  | ToSync h => do_to_sync s h
  | ToAsync h => do_to_async s h
  | Len h => obs s h (fun _ => RNum (len (q s)))
  | IsEmpty h => obs s h (fun _ => RBool (is_nil (q s)))
  | IsClosed h => obs s h (fun r => RBool (is_closed_h s r))
  | SenderCount h => obs s h (fun _ => RNum (scount s))
  | MkSend f h v => do_mk_send s f h [v] (FSend (Some v))
  | MkRecv f h => do_mk_recv s f h (FRecv false)
  | Poll f w => do_poll s f w
  | DropF f => do_drop_f s f
  | PollNext h w => do_poll_next s h w
  | SendB h vs ip so => do_send_b s h vs ip so
  | TryRecvB h max => do_try_recv_b s h max
  | RecvB h max => do_recv_b s h max
  | MkSendB f h vs => do_mk_send s f h vs (FSendB vs 0 (len vs))
  | MkRecvB f h max => do_mk_recv s f h (FRecvB max false)
  end.

Definition out := (res * list N * list N)%type.
Definition clear_ev (s : st) : st := set_evd (set_evw s []) [].
Definition step (s : st) (o : op) : st * out :=
  let '(s1, r) := exec (clear_ev s) o in
  (s1, (r, evw s1, evd s1)).

Fixpoint run (s : st) (ops : list op) : st * list out :=
  match ops with
  | [] => (s, [])
  | o :: t => let '(s1, x) := step s o in let '(s2, xs) := run s1 t in (s2, x :: xs)
  end.

Definition final (s : st) (ops : list op) : st := fst (run s ops).

(* ------------------------------------------------------------------ *)
(** * vocabulary of the theorems (definitions only) *)

Definition keysN {A} (l : list (N * A)) : list N := map fst l.
Definition isopen (r : hrec) : bool := htx r && negb (hclosed r).
Definition open_tx (l : list (N * hrec)) : N := len (filter (fun p => isopen (snd p)) l).

Definition fut_ok (s : st) : Prop :=
  forall f fr, aget f (fs s) = Some fr ->
    exists r, aget (fh fr) (hs s) = Some r /\ hasync r = true /\ htx r = negb (is_recv_kind (fk fr)).
Definition rx_one (s : st) : Prop := forall h r, aget h (hs s) = Some r -> htx r = false -> h = 1.
Definition rx_live (s : st) : Prop :=
  rdrop s = false <-> exists r, aget 1 (hs s) = Some r /\ htx r = false /\ hclosed r = false.

Definition GS (s : st) : Prop :=
  NoDup (keysN (hs s)) /\ NoDup (keysN (fs s)) /\ fut_ok s /\ rx_one s
  /\ scount s = open_tx (hs s) /\ rx_live s.

(** FIFO invariant; after the receiver went away nothing is buffered (its close drains) *)
Definition G2 (s : st) : Prop :=
  acc s = rcv s ++ q s ++ qdrp s
  /\ (qdrp s <> [] -> rdrop s = true \/ hs s = [])
  /\ (rdrop s = true -> q s = []).

Definition cnt (v : N) (l : list N) : nat := count_occ N.eq_dec l v.
Definition held (s : st) : list N := rcv s ++ q s ++ fitems (fs s) ++ back s ++ drp s.
Definition G3 (s : st) : Prop :=
  (forall v, cnt v (used s) = cnt v (held s)) /\ (forall v, (cnt v (used s) <= 1)%nat).

Definition Inv (s : st) : Prop := GS s /\ G2 s /\ G3 s.
