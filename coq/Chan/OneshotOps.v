(* Chan/OneshotOps.v — K2 (op-level) model of fibre::oneshot (channels/src/oneshot/{core,mod}.rs).
   NO proofs in this file.  One API call / one poll / one drop = one atomic step, so the transient
   STATE_WRITING is never observed.  Payload ids are allocated by the model (`next`).
   Sender handles live in a slab keyed by handle id (clone appends); `send` consumes its handle.
   Receive futures borrow the receiver immutably: any number may coexist with try_recv/close.

   cfg: fix_taken_wake = the last sender leaving also wakes the receiver when the value was already
   taken (F-34-oneshot).  The code in /repo today is `false`. *)
From Coq Require Import List Arith ZArith Bool.
Import ListNotations.
Open Scope nat_scope.

Record ocfg := { fix_taken_wake : bool }.
Definition ocfg_repo : ocfg := {| fix_taken_wake := false |}.
Definition ocfg_fixed : ocfg := {| fix_taken_wake := true |}.

Inductive ostt := OEmpty | OSent (v : nat) | OTaken | OClosed.
Inductive orcv := RcvGone | RcvLive (closed : bool).
Inductive oevent := OWake (w : nat) | ODrop (v : nat).

Inductive ores :=
| OOk | OVal (v : nat)
| OClosedV (v : nat) | OSentV (v : nat)
| OEmptyR | ODisc | OPending
| OCloseErr
| OObsS (closed sent : bool) | OObsR (closed : bool)
| OGone | OBusy | ONoFut.

Inductive oop :=
| OSend (h : nat) | OCloseS (h : nat) | OClone (h : nat) | ODropS (h : nat) | OObsSnd (h : nat)
| OTryRecv | OCloseR | ODropR | OObsRcv
| OMkRecv (f : nat) | OPoll (f w : nat) | ODropFut (f : nat).

Record ost := {
  (* OneShotShared *)
  ostate : ostt; rdrop : bool; ocount : Z; wk : option nat;
  (* handles, futures *)
  snd_h : list (nat * bool);      (* live sender handles: id, own closed flag *)
  nexth : nat;
  rcv : orcv;
  futs : list nat;
  (* ghost *)
  onext : nat;
  oacc : list nat; orecv : list nat; oret : list nat; odrop : list nat;
  o_pend : option (nat * nat);    (* most recent Pending poll: future, waker *)
  o_woken : bool;
  o_disc : bool;
  oev : list oevent
}.

Definition oinit : ost :=
  {| ostate := OEmpty; rdrop := false; ocount := 1%Z; wk := None;
     snd_h := [(0, false)]; nexth := 1; rcv := RcvLive false; futs := [];
     onext := 0; oacc := []; orecv := []; oret := []; odrop := [];
     o_pend := None; o_woken := false; o_disc := false; oev := [] |}.

(* SETTERS-BEGIN *)
Definition set_ostate (v : ostt) (s : ost) : ost := {| ostate := v; rdrop := rdrop s; ocount := ocount s; wk := wk s; snd_h := snd_h s; nexth := nexth s; rcv := rcv s; futs := futs s; onext := onext s; oacc := oacc s; orecv := orecv s; oret := oret s; odrop := odrop s; o_pend := o_pend s; o_woken := o_woken s; o_disc := o_disc s; oev := oev s |}.
Definition set_rdrop (v : bool) (s : ost) : ost := {| ostate := ostate s; rdrop := v; ocount := ocount s; wk := wk s; snd_h := snd_h s; nexth := nexth s; rcv := rcv s; futs := futs s; onext := onext s; oacc := oacc s; orecv := orecv s; oret := oret s; odrop := odrop s; o_pend := o_pend s; o_woken := o_woken s; o_disc := o_disc s; oev := oev s |}.
Definition set_ocount (v : Z) (s : ost) : ost := {| ostate := ostate s; rdrop := rdrop s; ocount := v; wk := wk s; snd_h := snd_h s; nexth := nexth s; rcv := rcv s; futs := futs s; onext := onext s; oacc := oacc s; orecv := orecv s; oret := oret s; odrop := odrop s; o_pend := o_pend s; o_woken := o_woken s; o_disc := o_disc s; oev := oev s |}.
Definition set_wk (v : option nat) (s : ost) : ost := {| ostate := ostate s; rdrop := rdrop s; ocount := ocount s; wk := v; snd_h := snd_h s; nexth := nexth s; rcv := rcv s; futs := futs s; onext := onext s; oacc := oacc s; orecv := orecv s; oret := oret s; odrop := odrop s; o_pend := o_pend s; o_woken := o_woken s; o_disc := o_disc s; oev := oev s |}.
Definition set_snd_h (v : list (nat * bool)) (s : ost) : ost := {| ostate := ostate s; rdrop := rdrop s; ocount := ocount s; wk := wk s; snd_h := v; nexth := nexth s; rcv := rcv s; futs := futs s; onext := onext s; oacc := oacc s; orecv := orecv s; oret := oret s; odrop := odrop s; o_pend := o_pend s; o_woken := o_woken s; o_disc := o_disc s; oev := oev s |}.
Definition set_nexth (v : nat) (s : ost) : ost := {| ostate := ostate s; rdrop := rdrop s; ocount := ocount s; wk := wk s; snd_h := snd_h s; nexth := v; rcv := rcv s; futs := futs s; onext := onext s; oacc := oacc s; orecv := orecv s; oret := oret s; odrop := odrop s; o_pend := o_pend s; o_woken := o_woken s; o_disc := o_disc s; oev := oev s |}.
Definition set_rcv (v : orcv) (s : ost) : ost := {| ostate := ostate s; rdrop := rdrop s; ocount := ocount s; wk := wk s; snd_h := snd_h s; nexth := nexth s; rcv := v; futs := futs s; onext := onext s; oacc := oacc s; orecv := orecv s; oret := oret s; odrop := odrop s; o_pend := o_pend s; o_woken := o_woken s; o_disc := o_disc s; oev := oev s |}.
Definition set_futs (v : list nat) (s : ost) : ost := {| ostate := ostate s; rdrop := rdrop s; ocount := ocount s; wk := wk s; snd_h := snd_h s; nexth := nexth s; rcv := rcv s; futs := v; onext := onext s; oacc := oacc s; orecv := orecv s; oret := oret s; odrop := odrop s; o_pend := o_pend s; o_woken := o_woken s; o_disc := o_disc s; oev := oev s |}.
Definition set_onext (v : nat) (s : ost) : ost := {| ostate := ostate s; rdrop := rdrop s; ocount := ocount s; wk := wk s; snd_h := snd_h s; nexth := nexth s; rcv := rcv s; futs := futs s; onext := v; oacc := oacc s; orecv := orecv s; oret := oret s; odrop := odrop s; o_pend := o_pend s; o_woken := o_woken s; o_disc := o_disc s; oev := oev s |}.
Definition set_oacc (v : list nat) (s : ost) : ost := {| ostate := ostate s; rdrop := rdrop s; ocount := ocount s; wk := wk s; snd_h := snd_h s; nexth := nexth s; rcv := rcv s; futs := futs s; onext := onext s; oacc := v; orecv := orecv s; oret := oret s; odrop := odrop s; o_pend := o_pend s; o_woken := o_woken s; o_disc := o_disc s; oev := oev s |}.
Definition set_orecv (v : list nat) (s : ost) : ost := {| ostate := ostate s; rdrop := rdrop s; ocount := ocount s; wk := wk s; snd_h := snd_h s; nexth := nexth s; rcv := rcv s; futs := futs s; onext := onext s; oacc := oacc s; orecv := v; oret := oret s; odrop := odrop s; o_pend := o_pend s; o_woken := o_woken s; o_disc := o_disc s; oev := oev s |}.
Definition set_oret (v : list nat) (s : ost) : ost := {| ostate := ostate s; rdrop := rdrop s; ocount := ocount s; wk := wk s; snd_h := snd_h s; nexth := nexth s; rcv := rcv s; futs := futs s; onext := onext s; oacc := oacc s; orecv := orecv s; oret := v; odrop := odrop s; o_pend := o_pend s; o_woken := o_woken s; o_disc := o_disc s; oev := oev s |}.
Definition set_odrop (v : list nat) (s : ost) : ost := {| ostate := ostate s; rdrop := rdrop s; ocount := ocount s; wk := wk s; snd_h := snd_h s; nexth := nexth s; rcv := rcv s; futs := futs s; onext := onext s; oacc := oacc s; orecv := orecv s; oret := oret s; odrop := v; o_pend := o_pend s; o_woken := o_woken s; o_disc := o_disc s; oev := oev s |}.
Definition set_o_pend (v : option (nat * nat)) (s : ost) : ost := {| ostate := ostate s; rdrop := rdrop s; ocount := ocount s; wk := wk s; snd_h := snd_h s; nexth := nexth s; rcv := rcv s; futs := futs s; onext := onext s; oacc := oacc s; orecv := orecv s; oret := oret s; odrop := odrop s; o_pend := v; o_woken := o_woken s; o_disc := o_disc s; oev := oev s |}.
Definition set_o_woken (v : bool) (s : ost) : ost := {| ostate := ostate s; rdrop := rdrop s; ocount := ocount s; wk := wk s; snd_h := snd_h s; nexth := nexth s; rcv := rcv s; futs := futs s; onext := onext s; oacc := oacc s; orecv := orecv s; oret := oret s; odrop := odrop s; o_pend := o_pend s; o_woken := v; o_disc := o_disc s; oev := oev s |}.
Definition set_o_disc (v : bool) (s : ost) : ost := {| ostate := ostate s; rdrop := rdrop s; ocount := ocount s; wk := wk s; snd_h := snd_h s; nexth := nexth s; rcv := rcv s; futs := futs s; onext := onext s; oacc := oacc s; orecv := orecv s; oret := oret s; odrop := odrop s; o_pend := o_pend s; o_woken := o_woken s; o_disc := v; oev := oev s |}.
Definition set_oev (v : list oevent) (s : ost) : ost := {| ostate := ostate s; rdrop := rdrop s; ocount := ocount s; wk := wk s; snd_h := snd_h s; nexth := nexth s; rcv := rcv s; futs := futs s; onext := onext s; oacc := oacc s; orecv := orecv s; oret := oret s; odrop := odrop s; o_pend := o_pend s; o_woken := o_woken s; o_disc := o_disc s; oev := v |}.
(* SETTERS-END *)

Notation "s |> f" := (f s) (at level 50, left associativity, only parsing).

Fixpoint find_h (h : nat) (l : list (nat * bool)) : option bool :=
  match l with [] => None | (h', c) :: t => if h' =? h then Some c else find_h h t end.
Fixpoint remove_h (h : nat) (l : list (nat * bool)) : list (nat * bool) :=
  match l with [] => [] | (h', c) :: t => if h' =? h then remove_h h t else (h', c) :: remove_h h t end.
Fixpoint set_closed_h (h : nat) (l : list (nat * bool)) : list (nat * bool) :=
  match l with [] => [] | (h', c) :: t => if h' =? h then (h', true) :: set_closed_h h t else (h', c) :: set_closed_h h t end.
Fixpoint mem_f (f : nat) (l : list nat) : bool :=
  match l with [] => false | x :: t => (x =? f) || mem_f f t end.
Fixpoint remove_f (f : nat) (l : list nat) : list nat :=
  match l with [] => [] | x :: t => if x =? f then remove_f f t else x :: remove_f f t end.

Definition sent_val (st : ostt) : list nat := match st with OSent v => [v] | _ => [] end.

(* AtomicWaker::wake *)
Definition owake (s : ost) : ost :=
  s |> set_o_woken (o_woken s || match wk s with Some _ => true | None => false end)
    |> set_oev (oev s ++ match wk s with Some w => [OWake w] | None => [] end)
    |> set_wk None.
Definition oback (v : nat) (s : ost) : ost := set_oret (oret s ++ [v]) s.
Definition odestroy (vs : list nat) (s : ost) : ost :=
  s |> set_odrop (odrop s ++ vs) |> set_oev (oev s ++ map ODrop vs).

(* OneShotShared::decrement_senders *)
Definition dec_senders (cf : ocfg) (s : ost) : ost :=
  let old := ocount s in
  let s1 := set_ocount (old - 1)%Z s in
  if (old =? 1)%Z then
    match ostate s with
    | OEmpty => owake (set_ostate OClosed s1)
    | OSent v => if rdrop s then odestroy [v] (set_ostate OTaken s1) else s1
    | OTaken => if fix_taken_wake cf then owake s1 else s1
    | OClosed => owake s1
    end
  else s1.

(* Arc<OneShotShared> released by the last handle: Drop drops a value still in STATE_SENT *)
Definition oshared_drop_if (s : ost) : ost :=
  match snd_h s, rcv s with
  | [], RcvGone => odestroy (sent_val (ostate s)) (set_ostate (match ostate s with OSent _ => OTaken | x => x end) s)
  | _, _ => s
  end.

(* Receiver::close_internal *)
Definition close_int_rcv (s : ost) : ost :=
  let s1 := set_rdrop true s in
  match ostate s with
  | OEmpty => set_ostate OClosed s1
  | OSent v => odestroy [v] (set_ostate OTaken s1)
  | _ => s1
  end.

Definition do_osend (cf : ocfg) (h : nat) (s : ost) : ost * ores :=
  match find_h h (snd_h s) with
  | None => (s, OGone)
  | Some c =>
    let v := onext s in
    let s1 := s |> set_onext (S v) |> set_snd_h (remove_h h (snd_h s)) in
    if c then (oshared_drop_if (oback v s1), OClosedV v)
    else if rdrop s then (oshared_drop_if (dec_senders cf (oback v s1)), OClosedV v)
    else match ostate s with
         | OEmpty =>
           (oshared_drop_if (dec_senders cf (owake (s1 |> set_ostate (OSent v) |> set_oacc (oacc s ++ [v])))), OOk)
         | _ => (oshared_drop_if (dec_senders cf (oback v s1)), OSentV v)
         end
  end.

Definition do_oclose_s (cf : ocfg) (h : nat) (s : ost) : ost * ores :=
  match find_h h (snd_h s) with
  | None => (s, OGone)
  | Some true => (s, OCloseErr)
  | Some false => (dec_senders cf (set_snd_h (set_closed_h h (snd_h s)) s), OOk)
  end.

Definition do_oclone (h : nat) (s : ost) : ost * ores :=
  match find_h h (snd_h s) with
  | None => (s, OGone)
  | Some _ => (s |> set_ocount (ocount s + 1)%Z |> set_snd_h (snd_h s ++ [(nexth s, false)]) |> set_nexth (S (nexth s)), OOk)
  end.

Definition do_odrop_s (cf : ocfg) (h : nat) (s : ost) : ost * ores :=
  match find_h h (snd_h s) with
  | None => (s, OGone)
  | Some c =>
    let s1 := set_snd_h (remove_h h (snd_h s)) s in
    (oshared_drop_if (if c then s1 else dec_senders cf s1), OOk)
  end.

Definition do_oobs_s (h : nat) (s : ost) : ost * ores :=
  match find_h h (snd_h s) with
  | None => (s, OGone)
  | Some _ => (s, OObsS (rdrop s) (match ostate s with OSent _ | OTaken => true | _ => false end))
  end.

(* OneShotShared::try_recv *)
Definition core_try_recv (s : ost) : ost * ores :=
  match ostate s with
  | OSent v => (s |> set_ostate OTaken |> set_orecv (orecv s ++ [v]), OVal v)
  | OTaken => (s, OEmptyR)
  | OClosed => (set_o_disc true s, ODisc)
  | OEmpty => if (ocount s =? 0)%Z then (s |> set_ostate OClosed |> set_o_disc true, ODisc) else (s, OEmptyR)
  end.

Definition do_otry_recv (s : ost) : ost * ores :=
  match rcv s with
  | RcvGone => (s, OGone)
  | RcvLive true => (set_o_disc true s, ODisc)
  | RcvLive false => core_try_recv s
  end.

Definition do_oclose_r (s : ost) : ost * ores :=
  match rcv s with
  | RcvGone => (s, OGone)
  | RcvLive true => (s, OCloseErr)
  | RcvLive false => (close_int_rcv (set_rcv (RcvLive true) s), OOk)
  end.

Definition do_odrop_r (s : ost) : ost * ores :=
  match rcv s with
  | RcvGone => (s, OGone)
  | RcvLive c =>
    match futs s with
    | _ :: _ => (s, OBusy)
    | [] => let s1 := if c then s else close_int_rcv s in
            (oshared_drop_if (set_rcv RcvGone s1), OOk)
    end
  end.

Definition do_oobs_r (s : ost) : ost * ores :=
  match rcv s with
  | RcvGone => (s, OGone)
  | RcvLive _ =>
    (s, OObsR (match ostate s with
               | OTaken | OClosed => true
               | OSent _ => false
               | OEmpty => (ocount s =? 0)%Z
               end))
  end.

Definition do_omk (f : nat) (s : ost) : ost * ores :=
  match rcv s with
  | RcvGone => (s, OGone)
  | RcvLive _ => if mem_f f (futs s) then (s, OBusy) else (set_futs (futs s ++ [f]) s, OOk)
  end.

Definition fut_done (f : nat) (s : ost) : ost :=
  s |> set_futs (remove_f f (futs s))
    |> set_o_pend (match o_pend s with Some (f', w) => if f' =? f then None else Some (f', w) | None => None end).

(* ReceiveFuture::poll -> OneShotShared::poll_recv *)
Definition do_opoll (f w : nat) (s : ost) : ost * ores :=
  if negb (mem_f f (futs s)) then (s, ONoFut)
  else match rcv s with
       | RcvGone => (s, ONoFut)
       | RcvLive true => (fut_done f (set_o_disc true s), ODisc)
       | RcvLive false =>
         let pending := (s |> set_wk (Some w) |> set_o_pend (Some (f, w)) |> set_o_woken false, OPending) in
         match ostate s with
         | OSent v => (fut_done f (s |> set_ostate OTaken |> set_orecv (orecv s ++ [v])), OVal v)
         | OClosed => (fut_done f (set_o_disc true s), ODisc)
         | OEmpty => if (ocount s =? 0)%Z then (fut_done f (s |> set_ostate OClosed |> set_o_disc true), ODisc) else pending
         | OTaken => if (ocount s =? 0)%Z then (fut_done f (set_o_disc true s), ODisc) else pending
         end
       end.

Definition do_odropfut (f : nat) (s : ost) : ost * ores :=
  if mem_f f (futs s) then (fut_done f s, OOk) else (s, ONoFut).

Definition oexec (cf : ocfg) (s : ost) (o : oop) : ost * ores :=
  match o with
  | OSend h => do_osend cf h s
  | OCloseS h => do_oclose_s cf h s
  | OClone h => do_oclone h s
  | ODropS h => do_odrop_s cf h s
  | OObsSnd h => do_oobs_s h s
  | OTryRecv => do_otry_recv s
  | OCloseR => do_oclose_r s
  | ODropR => do_odrop_r s
  | OObsRcv => do_oobs_r s
  | OMkRecv f => do_omk f s
  | OPoll f w => do_opoll f w s
  | ODropFut f => do_odropfut f s
  end.

Definition oout := (ores * list oevent)%type.

Definition ostep (cf : ocfg) (s : ost) (o : oop) : ost * oout :=
  let '(s1, r) := oexec cf (set_oev [] s) o in (s1, (r, oev s1)).

Fixpoint orun (cf : ocfg) (s : ost) (ops : list oop) : ost * list oout :=
  match ops with
  | [] => (s, [])
  | o :: r => let '(s1, x) := ostep cf s o in let '(s2, xs) := orun cf s1 r in (s2, x :: xs)
  end.

(* implicit teardown appended by both drivers: all futures, then all sender handles in id order, then the receiver *)
Definition oteardown (s : ost) : list oop :=
  map ODropFut (futs s) ++ map (fun hc => ODropS (fst hc)) (snd_h s) ++ [ODropR].

Definition orun_case (cf : ocfg) (ops : list oop) : list oout :=
  let '(s1, outs) := orun cf oinit ops in
  outs ++ snd (orun cf s1 (oteardown s1)).
