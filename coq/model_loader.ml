
(** val negb : bool -> bool **)

let negb = function
| true -> false
| false -> true

type nat =
| O
| S of nat

(** val fst : ('a1 * 'a2) -> 'a1 **)

let fst = function
| (x, _) -> x

(** val snd : ('a1 * 'a2) -> 'a2 **)

let snd = function
| (_, y) -> y

type comparison =
| Eq
| Lt
| Gt

module Nat =
 struct
  (** val eqb : nat -> nat -> bool **)

  let rec eqb n0 m =
    match n0 with
    | O -> (match m with
            | O -> true
            | S _ -> false)
    | S n' -> (match m with
               | O -> false
               | S m' -> eqb n' m')

  (** val max : nat -> nat -> nat **)

  let rec max n0 m =
    match n0 with
    | O -> m
    | S n' -> (match m with
               | O -> n0
               | S m' -> S (max n' m'))
 end

(** val existsb : ('a1 -> bool) -> 'a1 list -> bool **)

let rec existsb f = function
| [] -> false
| a :: l0 -> (||) (f a) (existsb f l0)

(** val filter : ('a1 -> bool) -> 'a1 list -> 'a1 list **)

let rec filter f = function
| [] -> []
| x :: l0 -> if f x then x :: (filter f l0) else filter f l0

type positive =
| XI of positive
| XO of positive
| XH

type n =
| N0
| Npos of positive

module Pos =
 struct
  type mask =
  | IsNul
  | IsPos of positive
  | IsNeg
 end

module Coq_Pos =
 struct
  (** val succ : positive -> positive **)

  let rec succ = function
  | XI p -> XO (succ p)
  | XO p -> XI p
  | XH -> XO XH

  (** val add : positive -> positive -> positive **)

  let rec add x y =
    match x with
    | XI p ->
      (match y with
       | XI q -> XO (add_carry p q)
       | XO q -> XI (add p q)
       | XH -> XO (succ p))
    | XO p ->
      (match y with
       | XI q -> XI (add p q)
       | XO q -> XO (add p q)
       | XH -> XI p)
    | XH -> (match y with
             | XI q -> XO (succ q)
             | XO q -> XI q
             | XH -> XO XH)

  (** val add_carry : positive -> positive -> positive **)

  and add_carry x y =
    match x with
    | XI p ->
      (match y with
       | XI q -> XI (add_carry p q)
       | XO q -> XO (add_carry p q)
       | XH -> XI (succ p))
    | XO p ->
      (match y with
       | XI q -> XO (add_carry p q)
       | XO q -> XI (add p q)
       | XH -> XO (succ p))
    | XH ->
      (match y with
       | XI q -> XI (succ q)
       | XO q -> XO (succ q)
       | XH -> XI XH)

  (** val pred_double : positive -> positive **)

  let rec pred_double = function
  | XI p -> XI (XO p)
  | XO p -> XI (pred_double p)
  | XH -> XH

  type mask = Pos.mask =
  | IsNul
  | IsPos of positive
  | IsNeg

  (** val succ_double_mask : mask -> mask **)

  let succ_double_mask = function
  | IsNul -> IsPos XH
  | IsPos p -> IsPos (XI p)
  | IsNeg -> IsNeg

  (** val double_mask : mask -> mask **)

  let double_mask = function
  | IsPos p -> IsPos (XO p)
  | x0 -> x0

  (** val double_pred_mask : positive -> mask **)

  let double_pred_mask = function
  | XI p -> IsPos (XO (XO p))
  | XO p -> IsPos (XO (pred_double p))
  | XH -> IsNul

  (** val sub_mask : positive -> positive -> mask **)

  let rec sub_mask x y =
    match x with
    | XI p ->
      (match y with
       | XI q -> double_mask (sub_mask p q)
       | XO q -> succ_double_mask (sub_mask p q)
       | XH -> IsPos (XO p))
    | XO p ->
      (match y with
       | XI q -> succ_double_mask (sub_mask_carry p q)
       | XO q -> double_mask (sub_mask p q)
       | XH -> IsPos (pred_double p))
    | XH -> (match y with
             | XH -> IsNul
             | _ -> IsNeg)

  (** val sub_mask_carry : positive -> positive -> mask **)

  and sub_mask_carry x y =
    match x with
    | XI p ->
      (match y with
       | XI q -> succ_double_mask (sub_mask_carry p q)
       | XO q -> double_mask (sub_mask p q)
       | XH -> IsPos (pred_double p))
    | XO p ->
      (match y with
       | XI q -> double_mask (sub_mask_carry p q)
       | XO q -> succ_double_mask (sub_mask_carry p q)
       | XH -> double_pred_mask p)
    | XH -> IsNeg

  (** val compare_cont : comparison -> positive -> positive -> comparison **)

  let rec compare_cont r x y =
    match x with
    | XI p ->
      (match y with
       | XI q -> compare_cont r p q
       | XO q -> compare_cont Gt p q
       | XH -> Gt)
    | XO p ->
      (match y with
       | XI q -> compare_cont Lt p q
       | XO q -> compare_cont r p q
       | XH -> Gt)
    | XH -> (match y with
             | XH -> r
             | _ -> Lt)

  (** val compare : positive -> positive -> comparison **)

  let compare =
    compare_cont Eq

  (** val eqb : positive -> positive -> bool **)

  let rec eqb p q =
    match p with
    | XI p0 -> (match q with
                | XI q0 -> eqb p0 q0
                | _ -> false)
    | XO p0 -> (match q with
                | XO q0 -> eqb p0 q0
                | _ -> false)
    | XH -> (match q with
             | XH -> true
             | _ -> false)
 end

module N =
 struct
  (** val succ_double : n -> n **)

  let succ_double = function
  | N0 -> Npos XH
  | Npos p -> Npos (XI p)

  (** val double : n -> n **)

  let double = function
  | N0 -> N0
  | Npos p -> Npos (XO p)

  (** val add : n -> n -> n **)

  let add n0 m =
    match n0 with
    | N0 -> m
    | Npos p -> (match m with
                 | N0 -> n0
                 | Npos q -> Npos (Coq_Pos.add p q))

  (** val sub : n -> n -> n **)

  let sub n0 m =
    match n0 with
    | N0 -> N0
    | Npos n' ->
      (match m with
       | N0 -> n0
       | Npos m' ->
         (match Coq_Pos.sub_mask n' m' with
          | Coq_Pos.IsPos p -> Npos p
          | _ -> N0))

  (** val compare : n -> n -> comparison **)

  let compare n0 m =
    match n0 with
    | N0 -> (match m with
             | N0 -> Eq
             | Npos _ -> Lt)
    | Npos n' -> (match m with
                  | N0 -> Gt
                  | Npos m' -> Coq_Pos.compare n' m')

  (** val eqb : n -> n -> bool **)

  let eqb n0 m =
    match n0 with
    | N0 -> (match m with
             | N0 -> true
             | Npos _ -> false)
    | Npos p -> (match m with
                 | N0 -> false
                 | Npos q -> Coq_Pos.eqb p q)

  (** val leb : n -> n -> bool **)

  let leb x y =
    match compare x y with
    | Gt -> false
    | _ -> true

  (** val ltb : n -> n -> bool **)

  let ltb x y =
    match compare x y with
    | Lt -> true
    | _ -> false

  (** val pos_div_eucl : positive -> n -> n * n **)

  let rec pos_div_eucl a b =
    match a with
    | XI a' ->
      let (q, r) = pos_div_eucl a' b in
      let r' = succ_double r in
      if leb b r' then ((succ_double q), (sub r' b)) else ((double q), r')
    | XO a' ->
      let (q, r) = pos_div_eucl a' b in
      let r' = double r in
      if leb b r' then ((succ_double q), (sub r' b)) else ((double q), r')
    | XH ->
      (match b with
       | N0 -> (N0, (Npos XH))
       | Npos p -> (match p with
                    | XH -> ((Npos XH), N0)
                    | _ -> (N0, (Npos XH))))

  (** val div_eucl : n -> n -> n * n **)

  let div_eucl a b =
    match a with
    | N0 -> (N0, N0)
    | Npos na -> (match b with
                  | N0 -> (N0, a)
                  | Npos _ -> pos_div_eucl na b)

  (** val div : n -> n -> n **)

  let div a b =
    fst (div_eucl a b)

  (** val modulo : n -> n -> n **)

  let modulo a b =
    snd (div_eucl a b)
 end

(** val mem : n -> n list -> bool **)

let mem k l =
  existsb (N.eqb k) l

type config = { c_ttl : n option; c_grace : n option; c_wheel : n }

type op =
| OFetch of n
| OInsert of n * n * n
| ORemove of n
| OInvalidate of n
| OAdvance of n
| OMaint

type entry = { e_val : n; e_cost : n; e_exp : n; e_timer : n option }

type timer = { t_id : n; t_key : n; t_slot : n; t_laps : n }

type fstate =
| Computing
| Complete of n

type tpc =
| TLoad
| TWrite of n * n
| TUnmark of n
| TComplete of n
| TDone

type future = { f_key : n; f_state : fstate; f_waiters : nat list;
                f_tpc : tpc; f_read_at : nat; f_reset_seen : nat;
                f_created : nat; f_loaded : (n * n) option;
                f_written : nat option; f_unmarked : nat option;
                f_ncomplete : nat }

type cpc =
| CIdle
| CStripe of n * nat * nat
| CWait of n * nat
| CPark of n * nat

type caller = { c_prog : op list; c_pc : cpc; c_token : bool }

type out =
| ORet of n
| OOk
| ORem of n option
| OInv of bool

type ret = { r_caller : nat; r_key : n; r_via : nat option; r_val : n }

type wr = { w_fut : nat; w_key : n; w_val : n; w_cost : n }

type state = { clock : n; map : (n -> entry option);
               pending : (n -> nat option); futs : (nat -> future option);
               nfut : nat; callers : (nat -> caller); timers : timer list;
               tick : n; next_timer : n; nruns : n; runs : (n -> nat);
               gt : nat; reset_k : (n -> nat); reset_all : nat;
               runs_since : (n -> nat); outs : out list; rets : ret list;
               writes : wr list }

type tid =
| Caller of nat
| Task of nat

(** val updN : (n -> 'a1) -> n -> 'a1 -> n -> 'a1 **)

let updN m k v x =
  if N.eqb x k then v else m x

(** val updn : (nat -> 'a1) -> nat -> 'a1 -> nat -> 'a1 **)

let updn m k v x =
  if Nat.eqb x k then v else m x

(** val vbase : n **)

let vbase =
  Npos (XO (XO (XO (XI (XO (XI (XI (XI (XI XH)))))))))

(** val loader_cost : n -> n -> n **)

let loader_cost k v =
  N.add (Npos XH) (N.modulo (N.add k v) (Npos (XI (XO XH))))

(** val last_reset : state -> n -> nat **)

let last_reset s k =
  Nat.max (s.reset_k k) s.reset_all

(** val mkst :
    n -> (n -> entry option) -> (n -> nat option) -> (nat -> future option)
    -> nat -> (nat -> caller) -> timer list -> n -> n -> n -> (n -> nat) ->
    nat -> (n -> nat) -> nat -> (n -> nat) -> out list -> ret list -> wr list
    -> state **)

let mkst x x0 x1 x2 x3 x4 x5 x6 x7 x8 x9 x10 x11 x12 x13 x14 x15 x16 =
  { clock = x; map = x0; pending = x1; futs = x2; nfut = x3; callers = x4;
    timers = x5; tick = x6; next_timer = x7; nruns = x8; runs = x9; gt = x10;
    reset_k = x11; reset_all = x12; runs_since = x13; outs = x14; rets = x15;
    writes = x16 }

(** val w_clock : state -> n -> state **)

let w_clock s x =
  mkst x s.map s.pending s.futs s.nfut s.callers s.timers s.tick s.next_timer
    s.nruns s.runs s.gt s.reset_k s.reset_all s.runs_since s.outs s.rets
    s.writes

(** val w_map : state -> (n -> entry option) -> state **)

let w_map s x =
  mkst s.clock x s.pending s.futs s.nfut s.callers s.timers s.tick
    s.next_timer s.nruns s.runs s.gt s.reset_k s.reset_all s.runs_since
    s.outs s.rets s.writes

(** val w_pending : state -> (n -> nat option) -> state **)

let w_pending s x =
  mkst s.clock s.map x s.futs s.nfut s.callers s.timers s.tick s.next_timer
    s.nruns s.runs s.gt s.reset_k s.reset_all s.runs_since s.outs s.rets
    s.writes

(** val w_futs : state -> (nat -> future option) -> state **)

let w_futs s x =
  mkst s.clock s.map s.pending x s.nfut s.callers s.timers s.tick
    s.next_timer s.nruns s.runs s.gt s.reset_k s.reset_all s.runs_since
    s.outs s.rets s.writes

(** val w_nfut : state -> nat -> state **)

let w_nfut s x =
  mkst s.clock s.map s.pending s.futs x s.callers s.timers s.tick
    s.next_timer s.nruns s.runs s.gt s.reset_k s.reset_all s.runs_since
    s.outs s.rets s.writes

(** val w_callers : state -> (nat -> caller) -> state **)

let w_callers s x =
  mkst s.clock s.map s.pending s.futs s.nfut x s.timers s.tick s.next_timer
    s.nruns s.runs s.gt s.reset_k s.reset_all s.runs_since s.outs s.rets
    s.writes

(** val w_wheel : state -> timer list -> n -> n -> state **)

let w_wheel s ts tk nt =
  mkst s.clock s.map s.pending s.futs s.nfut s.callers ts tk nt s.nruns
    s.runs s.gt s.reset_k s.reset_all s.runs_since s.outs s.rets s.writes

(** val w_runs : state -> n -> (n -> nat) -> (n -> nat) -> state **)

let w_runs s n0 r rs =
  mkst s.clock s.map s.pending s.futs s.nfut s.callers s.timers s.tick
    s.next_timer n0 r s.gt s.reset_k s.reset_all rs s.outs s.rets s.writes

(** val w_gt : state -> nat -> state **)

let w_gt s x =
  mkst s.clock s.map s.pending s.futs s.nfut s.callers s.timers s.tick
    s.next_timer s.nruns s.runs x s.reset_k s.reset_all s.runs_since s.outs
    s.rets s.writes

(** val w_reset : state -> (n -> nat) -> nat -> (n -> nat) -> state **)

let w_reset s rk ra rs =
  mkst s.clock s.map s.pending s.futs s.nfut s.callers s.timers s.tick
    s.next_timer s.nruns s.runs s.gt rk ra rs s.outs s.rets s.writes

(** val w_outs : state -> out list -> state **)

let w_outs s x =
  mkst s.clock s.map s.pending s.futs s.nfut s.callers s.timers s.tick
    s.next_timer s.nruns s.runs s.gt s.reset_k s.reset_all s.runs_since x
    s.rets s.writes

(** val w_rets : state -> ret list -> state **)

let w_rets s x =
  mkst s.clock s.map s.pending s.futs s.nfut s.callers s.timers s.tick
    s.next_timer s.nruns s.runs s.gt s.reset_k s.reset_all s.runs_since
    s.outs x s.writes

(** val w_writes : state -> wr list -> state **)

let w_writes s x =
  mkst s.clock s.map s.pending s.futs s.nfut s.callers s.timers s.tick
    s.next_timer s.nruns s.runs s.gt s.reset_k s.reset_all s.runs_since
    s.outs s.rets x

(** val mkf :
    n -> fstate -> nat list -> tpc -> nat -> nat -> nat -> (n * n) option ->
    nat option -> nat option -> nat -> future **)

let mkf x x0 x1 x2 x3 x4 x5 x6 x7 x8 x9 =
  { f_key = x; f_state = x0; f_waiters = x1; f_tpc = x2; f_read_at = x3;
    f_reset_seen = x4; f_created = x5; f_loaded = x6; f_written = x7;
    f_unmarked = x8; f_ncomplete = x9 }

(** val fw_state : future -> fstate -> nat list -> future **)

let fw_state f st ws =
  mkf f.f_key st ws f.f_tpc f.f_read_at f.f_reset_seen f.f_created f.f_loaded
    f.f_written f.f_unmarked f.f_ncomplete

(** val fw_tpc : future -> tpc -> future **)

let fw_tpc f p =
  mkf f.f_key f.f_state f.f_waiters p f.f_read_at f.f_reset_seen f.f_created
    f.f_loaded f.f_written f.f_unmarked f.f_ncomplete

(** val fw_loaded : future -> (n * n) option -> future **)

let fw_loaded f x =
  mkf f.f_key f.f_state f.f_waiters f.f_tpc f.f_read_at f.f_reset_seen
    f.f_created x f.f_written f.f_unmarked f.f_ncomplete

(** val fw_written : future -> nat option -> future **)

let fw_written f x =
  mkf f.f_key f.f_state f.f_waiters f.f_tpc f.f_read_at f.f_reset_seen
    f.f_created f.f_loaded x f.f_unmarked f.f_ncomplete

(** val fw_unmarked : future -> nat option -> future **)

let fw_unmarked f x =
  mkf f.f_key f.f_state f.f_waiters f.f_tpc f.f_read_at f.f_reset_seen
    f.f_created f.f_loaded f.f_written x f.f_ncomplete

(** val fw_ncomplete : future -> nat -> future **)

let fw_ncomplete f x =
  mkf f.f_key f.f_state f.f_waiters f.f_tpc f.f_read_at f.f_reset_seen
    f.f_created f.f_loaded f.f_written f.f_unmarked x

(** val new_future : n -> nat -> nat -> nat -> future **)

let new_future k r rs g =
  mkf k Computing [] TLoad r rs g None None None O

(** val set_caller : state -> nat -> op list -> cpc -> bool -> state **)

let set_caller s c p pc tk =
  w_callers s (updn s.callers c { c_prog = p; c_pc = pc; c_token = tk })

(** val new_timer : config -> state -> n -> n -> timer **)

let new_timer cf s k ttl =
  { t_id = s.next_timer; t_key = k; t_slot =
    (N.modulo (N.add s.tick ttl) cf.c_wheel); t_laps =
    (N.div ttl cf.c_wheel) }

(** val wheel_schedule : config -> state -> n -> state **)

let wheel_schedule cf s k =
  w_wheel s
    (match cf.c_ttl with
     | Some t -> (new_timer cf s k t) :: s.timers
     | None -> s.timers) s.tick
    (match cf.c_ttl with
     | Some _ -> N.add s.next_timer (Npos XH)
     | None -> s.next_timer)

(** val schedule_handle : config -> state -> n option **)

let schedule_handle cf s =
  match cf.c_ttl with
  | Some _ -> Some s.next_timer
  | None -> None

(** val wheel_cancel : state -> n option -> state **)

let wheel_cancel s h =
  w_wheel s
    (match h with
     | Some id -> filter (fun t -> negb (N.eqb t.t_id id)) s.timers
     | None -> s.timers) s.tick s.next_timer

(** val wheel_sweep : n -> timer list -> timer list * n list **)

let rec wheel_sweep slot = function
| [] -> ([], [])
| t :: r ->
  let keep = fst (wheel_sweep slot r) in
  let ex = snd (wheel_sweep slot r) in
  if N.eqb t.t_slot slot
  then if N.ltb N0 t.t_laps
       then (({ t_id = t.t_id; t_key = t.t_key; t_slot = t.t_slot; t_laps =
              (N.sub t.t_laps (Npos XH)) } :: keep), ex)
       else (keep, (t.t_key :: ex))
  else ((t :: keep), ex)

(** val sweep_now : config -> state -> timer list * n list **)

let sweep_now cf s =
  match cf.c_ttl with
  | Some _ -> wheel_sweep (N.modulo s.tick cf.c_wheel) s.timers
  | None -> (s.timers, [])

(** val wheel_advance : config -> state -> state **)

let wheel_advance cf s =
  w_wheel s (fst (sweep_now cf s))
    (match cf.c_ttl with
     | Some _ -> N.add s.tick (Npos XH)
     | None -> s.tick) s.next_timer

(** val new_entry : config -> n -> n -> n -> n option -> entry **)

let new_entry cf now v c h =
  { e_val = v; e_cost = c; e_exp =
    (match cf.c_ttl with
     | Some t -> N.add now t
     | None -> N0); e_timer = h }

type rd =
| RHit of n
| RStale of n
| RMiss

(** val classify : config -> n -> entry option -> rd **)

let classify cf now = function
| Some e ->
  if N.eqb e.e_exp N0
  then RHit e.e_val
  else if N.ltb now e.e_exp
       then RHit e.e_val
       else (match cf.c_grace with
             | Some g ->
               if N.ltb now (N.add e.e_exp g) then RStale e.e_val else RMiss
             | None -> RMiss)
| None -> RMiss

(** val is_fresh : n -> entry option -> bool **)

let is_fresh now = function
| Some e -> (||) (N.eqb e.e_exp N0) (N.ltb now e.e_exp)
| None -> false

(** val create_future : state -> n -> nat -> nat -> state **)

let create_future s k r rs =
  w_pending
    (w_nfut (w_futs s (updn s.futs s.nfut (Some (new_future k r rs s.gt))))
      (S s.nfut)) (updN s.pending k (Some s.nfut))

(** val push_out : state -> out -> state **)

let push_out s o =
  w_outs s (o :: s.outs)

(** val push_ret : state -> nat -> n -> nat option -> n -> state **)

let push_ret s c k via v =
  w_rets s ({ r_caller = c; r_key = k; r_via = via; r_val = v } :: s.rets)

(** val reset_key : state -> n -> state **)

let reset_key s k =
  w_reset s (updN s.reset_k k s.gt) s.reset_all (updN s.runs_since k O)

(** val reset_everything : state -> state **)

let reset_everything s =
  w_reset s s.reset_k s.gt (fun _ -> O)

(** val reset_keys : state -> n list -> state **)

let reset_keys s ks =
  w_reset s (fun k -> if mem k ks then s.gt else s.reset_k k) s.reset_all
    (fun k -> if mem k ks then O else s.runs_since k)

(** val entry_timer : entry option -> n option **)

let entry_timer = function
| Some e -> e.e_timer
| None -> None

(** val remove_key : state -> n -> state **)

let remove_key s k =
  wheel_cancel (w_map s (updN s.map k None)) (entry_timer (s.map k))

(** val finish : state -> nat -> op list -> bool -> out -> state **)

let finish s c rest tk o =
  push_out (set_caller s c rest CIdle tk) o

(** val start_op :
    config -> state -> nat -> bool -> op -> op list -> bool -> state **)

let start_op cf s c tk o rest b =
  match o with
  | OFetch k ->
    (match classify cf s.clock (s.map k) with
     | RHit v -> finish (push_ret s c k None v) c rest tk (ORet v)
     | RStale v ->
       if b
       then finish (push_ret s c k None v) c rest tk (ORet v)
       else (match s.pending k with
             | Some _ -> finish (push_ret s c k None v) c rest tk (ORet v)
             | None ->
               finish
                 (push_ret (create_future s k s.gt (last_reset s k)) c k None
                   v) c rest tk (ORet v))
     | RMiss -> set_caller s c rest (CStripe (k, s.gt, (last_reset s k))) tk)
  | OInsert (k, v, cst) ->
    let s1 = wheel_schedule cf s k in
    let s2 =
      w_map s1
        (updN s.map k (Some
          (new_entry cf s.clock v cst (schedule_handle cf s))))
    in
    finish (wheel_cancel s2 (entry_timer (s.map k))) c rest tk OOk
  | ORemove k ->
    finish (reset_key (remove_key s k) k) c rest tk (ORem
      (match s.map k with
       | Some e -> Some e.e_val
       | None -> None))
  | OInvalidate k ->
    finish (reset_key (remove_key s k) k) c rest tk (OInv
      (match s.map k with
       | Some _ -> true
       | None -> false))
  | OAdvance dt ->
    finish (reset_everything (w_clock s (N.add s.clock dt))) c rest tk OOk
  | OMaint ->
    let ex = snd (sweep_now cf s) in
    let s1 = wheel_advance cf s in
    finish
      (reset_keys (w_map s1 (fun k -> if mem k ex then None else s.map k)) ex)
      c rest tk OOk

(** val caller_step : config -> state -> nat -> bool -> state option **)

let caller_step cf s c b =
  let c0 = s.callers c in
  (match c0.c_pc with
   | CIdle ->
     (match c0.c_prog with
      | [] -> None
      | o :: rest -> Some (start_op cf s c c0.c_token o rest b))
   | CStripe (k, r, rs) ->
     (match s.pending k with
      | Some f -> Some (set_caller s c c0.c_prog (CWait (k, f)) c0.c_token)
      | None ->
        Some
          (set_caller (create_future s k r rs) c c0.c_prog (CWait (k,
            s.nfut)) c0.c_token))
   | CWait (k, f) ->
     (match s.futs f with
      | Some f0 ->
        (match f0.f_state with
         | Computing ->
           Some
             (set_caller
               (w_futs s
                 (updn s.futs f (Some
                   (fw_state f0 Computing (c :: f0.f_waiters))))) c c0.c_prog
               (CPark (k, f)) c0.c_token)
         | Complete v ->
           Some
             (finish (push_ret s c k (Some f) v) c c0.c_prog c0.c_token (ORet
               v)))
      | None -> None)
   | CPark (k, f) ->
     if c0.c_token
     then Some (set_caller s c c0.c_prog (CWait (k, f)) false)
     else if b
          then Some (set_caller s c c0.c_prog (CWait (k, f)) false)
          else None)

(** val wake_all : (nat -> caller) -> nat list -> nat -> caller **)

let wake_all cs ws c =
  if existsb (Nat.eqb c) ws
  then { c_prog = (cs c).c_prog; c_pc = (cs c).c_pc; c_token = true }
  else cs c

(** val set_fut : state -> nat -> future -> state **)

let set_fut s f f' =
  w_futs s (updn s.futs f (Some f'))

(** val task_step : config -> state -> nat -> state option **)

let task_step cf s f =
  match s.futs f with
  | Some f0 ->
    let k = f0.f_key in
    (match f0.f_tpc with
     | TLoad ->
       let v = N.add vbase s.nruns in
       let c = loader_cost k v in
       let s1 =
         w_runs s (N.add s.nruns (Npos XH)) (updN s.runs k (S (s.runs k)))
           (updN s.runs_since k (S (s.runs_since k)))
       in
       Some
       (set_fut s1 f (fw_loaded (fw_tpc f0 (TWrite (v, c))) (Some (v, c))))
     | TWrite (v, c) ->
       let s1 = w_map s (updN s.map k (Some (new_entry cf s.clock v c None)))
       in
       let s2 =
         w_writes s1 ({ w_fut = f; w_key = k; w_val = v; w_cost =
           c } :: s1.writes)
       in
       Some (set_fut s2 f (fw_written (fw_tpc f0 (TUnmark v)) (Some s.gt)))
     | TUnmark v ->
       let s1 = w_pending s (updN s.pending k None) in
       Some (set_fut s1 f (fw_unmarked (fw_tpc f0 (TComplete v)) (Some s.gt)))
     | TComplete v ->
       let s1 = w_callers s (wake_all s.callers f0.f_waiters) in
       Some
       (set_fut s1 f
         (fw_ncomplete (fw_tpc (fw_state f0 (Complete v) []) TDone) (S
           f0.f_ncomplete)))
     | TDone -> None)
  | None -> None

(** val step : config -> state -> tid -> bool -> state option **)

let step cf s t b =
  match match t with
        | Caller c -> caller_step cf s c b
        | Task f -> task_step cf s f with
  | Some s' -> Some (w_gt s' (S s'.gt))
  | None -> None

type sched = (tid * bool) list

(** val run : config -> state -> sched -> state **)

let rec run cf s = function
| [] -> s
| p :: r ->
  let (t, b) = p in
  (match step cf s t b with
   | Some s' -> run cf s' r
   | None -> run cf s r)

(** val init : n -> (nat -> op list) -> state **)

let init t0 progs =
  { clock = t0; map = (fun _ -> None); pending = (fun _ -> None); futs =
    (fun _ -> None); nfut = O; callers = (fun c -> { c_prog = (progs c);
    c_pc = CIdle; c_token = false }); timers = []; tick = N0; next_timer =
    N0; nruns = N0; runs = (fun _ -> O); gt = (S O); reset_k = (fun _ -> O);
    reset_all = O; runs_since = (fun _ -> O); outs = []; rets = []; writes =
    [] }

(** val first_task : config -> state -> nat -> nat -> state option **)

let rec first_task cf s n0 f =
  match n0 with
  | O -> None
  | S n' ->
    (match step cf s (Task f) false with
     | Some s' -> Some s'
     | None -> first_task cf s n' (S f))

(** val drive : config -> nat -> state -> state * bool **)

let rec drive cf fuel s =
  match fuel with
  | O -> (s, false)
  | S fu ->
    (match step cf s (Caller O) false with
     | Some s' -> drive cf fu s'
     | None ->
       (match first_task cf s s.nfut O with
        | Some s' -> drive cf fu s'
        | None -> (s, true)))

(** val seq_op : config -> state -> op -> state * bool **)

let seq_op cf s o =
  let c = s.callers O in
  drive cf (S (S (S (S (S (S (S (S (S (S (S (S (S (S (S (S (S (S (S (S (S (S
    (S (S (S (S (S (S (S (S (S (S (S (S (S (S (S (S (S (S (S (S (S (S (S (S
    (S (S (S (S (S (S (S (S (S (S (S (S (S (S (S (S (S (S
    O))))))))))))))))))))))))))))))))))))))))))))))))))))))))))))))))
    (set_caller s O (o :: []) c.c_pc c.c_token)

(** val seq_run : config -> state -> op list -> state * bool **)

let rec seq_run cf s = function
| [] -> (s, true)
| o :: r ->
  let (s1, ok) = seq_op cf s o in if ok then seq_run cf s1 r else (s1, false)
