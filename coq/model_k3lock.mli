
type __ = Obj.t

val negb : bool -> bool

type nat =
| O
| S of nat

type ('a, 'b) sum =
| Inl of 'a
| Inr of 'b

val fst : ('a1 * 'a2) -> 'a1

val snd : ('a1 * 'a2) -> 'a2

val length : 'a1 list -> nat

val app : 'a1 list -> 'a1 list -> 'a1 list

val eqb : bool -> bool -> bool

module Nat :
 sig
  val eqb : nat -> nat -> bool
 end

val existsb : ('a1 -> bool) -> 'a1 list -> bool

val filter : ('a1 -> bool) -> 'a1 list -> 'a1 list

type system = { init : __; step : (__ -> __ -> __ -> (__ * __) option) }

type state = __

type tid = __

type choice = __

type event = __

val replay :
  system -> (event -> event -> bool) -> state -> ((tid * choice) * event)
  list -> (state option, nat) sum

type positive =
| XI of positive
| XO of positive
| XH

type n =
| N0
| Npos of positive

module Pos :
 sig
  type mask =
  | IsNul
  | IsPos of positive
  | IsNeg
 end

module Coq_Pos :
 sig
  val succ : positive -> positive

  val add : positive -> positive -> positive

  val add_carry : positive -> positive -> positive

  val pred_double : positive -> positive

  type mask = Pos.mask =
  | IsNul
  | IsPos of positive
  | IsNeg

  val succ_double_mask : mask -> mask

  val double_mask : mask -> mask

  val double_pred_mask : positive -> mask

  val sub_mask : positive -> positive -> mask

  val sub_mask_carry : positive -> positive -> mask

  val mul : positive -> positive -> positive

  val eqb : positive -> positive -> bool
 end

module N :
 sig
  val add : n -> n -> n

  val sub : n -> n -> n

  val mul : n -> n -> n

  val eqb : n -> n -> bool
 end

type ord =
| Rlx
| Acq
| Rel
| AcqRel
| SeqCst

type var =
| VState
| VLocked
| VNode of nat

type mev =
| EvLoad of var * ord * n
| EvStore of var * ord * n
| EvSwap of var * ord * n * n
| EvCas of var * ord * ord * n * n * n * bool
| EvCasW of var * ord * ord * n * n * n * bool
| EvFsub of var * ord * n * n
| EvFor of var * ord * n * n
| EvFand of var * ord * n * n
| EvPark
| EvUnpark of nat
| EvYield
| EvSpin

type op =
| OLock
| OTry
| OAsync
| OPoll
| ODropFut
| OWait

type res =
| RL
| RT of bool
| RA
| RP of bool

type mch =
| ChGo
| ChAgain

type wk =
| WThread
| WBlock
| WCount

type actx =
| ALock
| ASpin of bool
| ATry
| AFirst of bool
| APoll of bool

type qctx =
| QSync of bool
| QFut of bool

type lctx =
| LQ of qctx
| LX of qctx
| LDrop
| LWake

type pc =
| Idle
| TALoad of actx
| TACas of actx * bool
| Yield of bool
| SpinNext of bool
| PollNext of bool
| LLSwap of lctx
| LLLoad of lctx
| LLSpin of lctx
| QRearm of qctx
| QFor of qctx
| QLoad of qctx
| QCas of qctx * bool
| QFix of qctx
| QUnl of qctx * bool
| PLoad
| Park
| BPark
| XFix of qctx
| XUnl of qctx
| CS
| UFand
| WMark
| WUnl of (wk * nat) option
| WWake of nat
| DFix
| DUnl
| DLoad
| WaitW

type mstate = { locked : bool; hasq : bool; llock : nat option;
                queue : nat list; narm : (nat -> wk option);
                nwk : (nat -> bool); token : (nat -> bool);
                bwoken : (nat -> bool); prog : (nat -> op list);
                pcs : (nat -> pc); fut : (nat -> bool option);
                holders : nat list; results : (nat * res) list }

val holders : mstate -> nat list

val results : mstate -> (nat * res) list

val upd : (nat -> 'a1) -> nat -> 'a1 -> nat -> 'a1

val set_locked : mstate -> bool -> mstate

val set_hasq : mstate -> bool -> mstate

val set_llock : mstate -> nat option -> mstate

val set_queue : mstate -> nat list -> mstate

val set_narm : mstate -> nat -> wk option -> mstate

val set_nwk : mstate -> nat -> bool -> mstate

val set_token : mstate -> nat -> bool -> mstate

val set_bwoken : mstate -> nat -> bool -> mstate

val set_prog : mstate -> nat -> op list -> mstate

val set_pc : mstate -> nat -> pc -> mstate

val set_fut : mstate -> nat -> bool option -> mstate

val set_holders : mstate -> nat list -> mstate

val log : mstate -> nat -> res -> mstate

val mem : nat -> nat list -> bool

val rem : nat -> nat list -> nat list

val enc : bool -> bool -> n

val word : mstate -> n

val b2n : bool -> n

val o_ta_load : ord

val o_ta_cas : ord

val o_ta_casf : ord

val o_ll_swap : ord

val o_ll_load : ord

val o_ll_unlock : ord

val o_rearm : ord

val o_q_for : ord

val o_q_load : ord

val o_q_cas : ord

val o_q_casf : ord

val o_fix : ord

val o_node_load : ord

val o_unlock : ord

val o_mark : ord

val kind_of : qctx -> wk

val res_of_actx : actx -> res

val res_of_qctx : qctx -> res

val ret : mstate -> nat -> pc -> mev -> (mstate * mev) option

val fix_flags : mstate -> mstate * mev

val do_taload : mstate -> nat -> actx -> (mstate * mev) option

val after_llock : mstate -> nat -> lctx -> mstate

val do_llswap : mstate -> nat -> lctx -> (mstate * mev) option

val do_wait : mstate -> nat -> mch -> (mstate * mev) option

val dispatch : mstate -> nat -> mch -> op list -> (mstate * mev) option

val block_next : mstate -> nat -> mstate

val mstep : mstate -> nat -> mch -> (mstate * mev) option

val minit : (nat -> op list) -> mstate

val sys : (nat -> op list) -> system

val ord_eqb : ord -> ord -> bool

val var_eqb : var -> var -> bool

val mev_eqb : mev -> mev -> bool

val replay_trace :
  (nat -> op list) -> ((nat * mch) * mev) list -> (mstate option, nat) sum

val replay_from :
  (nat -> op list) -> mstate -> ((nat * mch) * mev) list -> (mstate option,
  nat) sum

val peek : mstate -> nat -> mch -> mev option

type fn =
| FnTryAcquire
| FnLock
| FnLockSlow
| FnLockAsync
| FnTryLock
| FnUnlock
| FnFixFlags
| FnWakeNext
| FnGuardDrop
| FnFutPoll
| FnFutFinish
| FnFutDrop
| FnListLock
| FnListUnlock
| FnRearm
| FnMarkWoken
| FnWake

type sop =
| SLoad
| SStore
| SSwap
| SCas
| SCasWeak
| SFor
| SFand
| SFadd
| SFsub
| SPark
| SUnpark
| SYield
| SSpin
| SCall of fn

type svar =
| SvState
| SvLocked
| SvNode
| SvNone

val call : fn -> ((svar * sop) * ord option) * ord option

val skeleton : (fn * (((svar * sop) * ord option) * ord option) list) list

type rw =
| RD
| WR

type rop =
| ROLock of rw
| ROTry of rw
| ROAsync of rw
| ROPoll of rw
| RODropFut
| ROWait

type rres =
| RRL of rw
| RRT of rw * bool
| RRA of rw
| RRP of bool

type rch =
| RGo
| RAgain
| RSpur

type ractx =
| RALock of rw
| RASpin of rw * bool
| RATry of rw
| RAFirst of rw * bool
| RAPoll of rw * bool

type rqctx =
| RQSync of rw * bool
| RQFut of rw * bool

type rfixk =
| RFQ of rqctx
| RFX of rqctx
| RFD
| RFW of (wk * nat) list

type rlctx =
| RLQ of rqctx
| RLX of rqctx
| RLDrop
| RLWake

type rpc =
| RIdle
| RTALoad of ractx
| RTACas of ractx * bool * bool * n
| RYield of rw * bool
| RSpinNext of rw * bool
| RPollNext of rw * bool
| RLLSwap of rlctx
| RLLLoad of rlctx
| RLLSpin of rlctx
| RQRearm of rqctx
| RQFor of rqctx
| RQLoad of rqctx
| RQCas of rqctx * bool * bool * n
| RFix1 of rfixk
| RFix2 of rfixk
| RQUnl of rqctx * bool
| RPLoad of rw
| RPark of rw
| RBPark
| RXUnl of rqctx
| RCS of rw
| RURel of rw
| RWSweep of (wk * nat) list
| RWUnl of (wk * nat) list
| RWWake of nat * (wk * nat) list
| RDUnl
| RDLoad
| RWaitW

type rwstate = { wl : bool; wp : bool; hq : bool; rd : n;
                 rllock : nat option; rqueue : (nat * bool) list;
                 rnarm : (nat -> wk option); rnwk : (nat -> bool);
                 rtoken : (nat -> bool); rbwoken : (nat -> bool);
                 rprog : (nat -> rop list); rpcs : (nat -> rpc);
                 rfut : (nat -> (rw * bool) option); wholders : nat list;
                 rholders : nat list; rresults : (nat * rres) list }

val rresults : rwstate -> (nat * rres) list

val rs_word : rwstate -> (((bool * bool) * bool) * n) -> rwstate

val rs_wl : rwstate -> bool -> rwstate

val rs_wp : rwstate -> bool -> rwstate

val rs_hq : rwstate -> bool -> rwstate

val rs_rd : rwstate -> n -> rwstate

val rs_llock : rwstate -> nat option -> rwstate

val rs_queue : rwstate -> (nat * bool) list -> rwstate

val rs_narm : rwstate -> nat -> wk option -> rwstate

val rs_nwk : rwstate -> nat -> bool -> rwstate

val rs_token : rwstate -> nat -> bool -> rwstate

val rs_bwoken : rwstate -> nat -> bool -> rwstate

val rs_prog : rwstate -> nat -> rop list -> rwstate

val rs_pc : rwstate -> nat -> rpc -> rwstate

val rs_fut : rwstate -> nat -> (rw * bool) option -> rwstate

val rs_wholders : rwstate -> nat list -> rwstate

val rs_rholders : rwstate -> nat list -> rwstate

val rlog : rwstate -> nat -> rres -> rwstate

val qmem : nat -> (nat * bool) list -> bool

val qrem : nat -> (nat * bool) list -> (nat * bool) list

val nwriters : (nat * bool) list -> nat

val first_writer : (nat * bool) list -> nat option

val rem1 : nat -> nat list -> nat list

val renc : bool -> bool -> bool -> n -> n

val rword : rwstate -> n

val ro_ta_load : ord

val ro_ta_cas : ord

val ro_ta_casf : ord

val ro_q_for : ord

val ro_q_load : ord

val ro_q_cas : ord

val ro_q_casf : ord

val ro_fix : ord

val ro_unlock : ord

val rkind_a : ractx -> rw

val rkind_q : rqctx -> rw

val is_wr : rw -> bool

val rw_eqb : rw -> rw -> bool

val rkind_of : rqctx -> wk

val rres_a : ractx -> rres

val rres_q : rqctx -> rres

val rret : rwstate -> nat -> rpc -> mev -> (rwstate * mev) option

val ta_fail : rwstate -> nat -> ractx -> mev -> (rwstate * mev) option

val rdo_taload : rwstate -> nat -> ractx -> (rwstate * mev) option

val rafter_llock : rwstate -> nat -> rlctx -> rwstate

val rdo_llswap : rwstate -> nat -> rlctx -> (rwstate * mev) option

val rdo_wait : rwstate -> nat -> rch -> (rwstate * mev) option

val rdispatch : rwstate -> nat -> rch -> rop list -> (rwstate * mev) option

val rblock_next : rwstate -> nat -> rwstate

val rdo_fix1 : rwstate -> nat -> rfixk -> (rwstate * mev) option

val rflush : rwstate -> nat -> (wk * nat) list -> rwstate

val wake_of : rwstate -> nat -> (wk * nat) list

val after_acq_a : rwstate -> nat -> ractx -> rpc

val rwstep : rwstate -> nat -> rch -> (rwstate * mev) option

val rwinit : (nat -> rop list) -> rwstate

val rwsys : (nat -> rop list) -> system

val rw_replay_trace :
  (nat -> rop list) -> ((nat * rch) * mev) list -> (rwstate option, nat) sum

val rw_replay_from :
  (nat -> rop list) -> rwstate -> ((nat * rch) * mev) list -> (rwstate
  option, nat) sum

val rwpeek : rwstate -> nat -> rch -> mev option

type rfn =
| RfTryAcqR
| RfTryAcqW
| RfRead
| RfReadSlow
| RfReadAsync
| RfWrite
| RfWriteSlow
| RfWriteAsync
| RfTryRead
| RfTryWrite
| RfUnlockR
| RfUnlockW
| RfFixFlags
| RfWakeWaiters
| RfRGuardDrop
| RfWGuardDrop
| RfRFutPoll
| RfRFutFinish
| RfRFutDrop
| RfWFutPoll
| RfWFutFinish
| RfWFutDrop
| RfListLock
| RfRearm
| RfMarkWoken
| RfWake

type rsop =
| RsLoad
| RsStore
| RsCas
| RsCasWeak
| RsFor
| RsFand
| RsFsub
| RsPark
| RsYield
| RsCall of rfn

val rcall : rfn -> ((svar * rsop) * ord option) * ord option

val rq_section : (((svar * rsop) * ord option) * ord option) list

val rpark_tail : (((svar * rsop) * ord option) * ord option) list

val rskeleton : (rfn * (((svar * rsop) * ord option) * ord option) list) list
