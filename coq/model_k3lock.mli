
type __ = Obj.t

val negb : bool -> bool

type nat =
| O
| S of nat

type ('a, 'b) sum =
| Inl of 'a
| Inr of 'b

val length : 'a1 list -> nat

val app : 'a1 list -> 'a1 list -> 'a1 list

val eqb : bool -> bool -> bool

module Nat :
 sig
  val eqb : nat -> nat -> bool
 end

val existsb : ('a1 -> bool) -> 'a1 list -> bool

val filter : ('a1 -> bool) -> 'a1 list -> 'a1 list

type system = { init : __; step : (__ -> __ -> __ -> (__ * __) option) }

type state = __

type tid = __

type choice = __

type event = __

val replay :
  system -> (event -> event -> bool) -> state -> ((tid * choice) * event)
  list -> (state option, nat) sum

type positive =
| XI of positive
| XO of positive
| XH

type n =
| N0
| Npos of positive

module Pos :
 sig
  val succ : positive -> positive

  val add : positive -> positive -> positive

  val add_carry : positive -> positive -> positive

  val eqb : positive -> positive -> bool
 end

module N :
 sig
  val add : n -> n -> n

  val eqb : n -> n -> bool
 end

type ord =
| Rlx
| Acq
| Rel
| AcqRel
| SeqCst

type var =
| VState
| VLocked
| VNode of nat

type mev =
| EvLoad of var * ord * n
| EvStore of var * ord * n
| EvSwap of var * ord * n * n
| EvCas of var * ord * ord * n * n * n * bool
| EvFor of var * ord * n * n
| EvFand of var * ord * n * n
| EvPark
| EvUnpark of nat
| EvYield
| EvSpin

type op =
| OLock
| OTry
| OAsync
| OPoll
| ODropFut
| OWait

type res =
| RL
| RT of bool
| RA
| RP of bool

type mch =
| ChGo
| ChAgain

type wk =
| WThread
| WBlock
| WCount

type actx =
| ALock
| ASpin of bool
| ATry
| AFirst of bool
| APoll of bool

type qctx =
| QSync of bool
| QFut of bool

type lctx =
| LQ of qctx
| LX of qctx
| LDrop
| LWake

type pc =
| Idle
| TALoad of actx
| TACas of actx * bool
| Yield of bool
| SpinNext of bool
| PollNext of bool
| LLSwap of lctx
| LLLoad of lctx
| LLSpin of lctx
| QRearm of qctx
| QFor of qctx
| QLoad of qctx
| QCas of qctx * bool
| QFix of qctx
| QUnl of qctx * bool
| PLoad
| Park
| BPark
| XFix of qctx
| XUnl of qctx
| CS
| UFand
| WMark
| WUnl of (wk * nat) option
| WWake of nat
| DFix
| DUnl
| DLoad
| WaitW

type mstate = { locked : bool; hasq : bool; llock : nat option;
                queue : nat list; narm : (nat -> wk option);
                nwk : (nat -> bool); token : (nat -> bool);
                bwoken : (nat -> bool); prog : (nat -> op list);
                pcs : (nat -> pc); fut : (nat -> bool option);
                holders : nat list; results : (nat * res) list }

val holders : mstate -> nat list

val results : mstate -> (nat * res) list

val upd : (nat -> 'a1) -> nat -> 'a1 -> nat -> 'a1

val set_locked : mstate -> bool -> mstate

val set_hasq : mstate -> bool -> mstate

val set_llock : mstate -> nat option -> mstate

val set_queue : mstate -> nat list -> mstate

val set_narm : mstate -> nat -> wk option -> mstate

val set_nwk : mstate -> nat -> bool -> mstate

val set_token : mstate -> nat -> bool -> mstate

val set_bwoken : mstate -> nat -> bool -> mstate

val set_prog : mstate -> nat -> op list -> mstate

val set_pc : mstate -> nat -> pc -> mstate

val set_fut : mstate -> nat -> bool option -> mstate

val set_holders : mstate -> nat list -> mstate

val log : mstate -> nat -> res -> mstate

val mem : nat -> nat list -> bool

val rem : nat -> nat list -> nat list

val enc : bool -> bool -> n

val word : mstate -> n

val b2n : bool -> n

val o_ta_load : ord

val o_ta_cas : ord

val o_ta_casf : ord

val o_ll_swap : ord

val o_ll_load : ord

val o_ll_unlock : ord

val o_rearm : ord

val o_q_for : ord

val o_q_load : ord

val o_q_cas : ord

val o_q_casf : ord

val o_fix : ord

val o_node_load : ord

val o_unlock : ord

val o_mark : ord

val kind_of : qctx -> wk

val res_of_actx : actx -> res

val res_of_qctx : qctx -> res

val ret : mstate -> nat -> pc -> mev -> (mstate * mev) option

val fix_flags : mstate -> mstate * mev

val do_taload : mstate -> nat -> actx -> (mstate * mev) option

val after_llock : mstate -> nat -> lctx -> mstate

val do_llswap : mstate -> nat -> lctx -> (mstate * mev) option

val do_wait : mstate -> nat -> mch -> (mstate * mev) option

val dispatch : mstate -> nat -> mch -> op list -> (mstate * mev) option

val block_next : mstate -> nat -> mstate

val mstep : mstate -> nat -> mch -> (mstate * mev) option

val minit : (nat -> op list) -> mstate

val sys : (nat -> op list) -> system

val ord_eqb : ord -> ord -> bool

val var_eqb : var -> var -> bool

val mev_eqb : mev -> mev -> bool

val replay_trace :
  (nat -> op list) -> ((nat * mch) * mev) list -> (mstate option, nat) sum

val peek : mstate -> nat -> mch -> mev option

type fn =
| FnTryAcquire
| FnLock
| FnLockSlow
| FnLockAsync
| FnTryLock
| FnUnlock
| FnFixFlags
| FnWakeNext
| FnGuardDrop
| FnFutPoll
| FnFutFinish
| FnFutDrop
| FnListLock
| FnListUnlock
| FnRearm
| FnMarkWoken
| FnWake

type sop =
| SLoad
| SStore
| SSwap
| SCas
| SCasWeak
| SFor
| SFand
| SFadd
| SFsub
| SPark
| SUnpark
| SYield
| SSpin
| SCall of fn

type svar =
| SvState
| SvLocked
| SvNode
| SvNone

val call : fn -> ((svar * sop) * ord option) * ord option

val skeleton : (fn * (((svar * sop) * ord option) * ord option) list) list
