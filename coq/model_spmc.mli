
val negb : bool -> bool

type nat =
| O
| S of nat

val fst : ('a1 * 'a2) -> 'a1

val snd : ('a1 * 'a2) -> 'a2

val length : 'a1 list -> nat

val app : 'a1 list -> 'a1 list -> 'a1 list

type comparison =
| Eq
| Lt
| Gt

val add : nat -> nat -> nat

val nth : nat -> 'a1 list -> 'a1 -> 'a1

val map : ('a1 -> 'a2) -> 'a1 list -> 'a2 list

val fold_left : ('a1 -> 'a2 -> 'a1) -> 'a2 list -> 'a1 -> 'a1

val existsb : ('a1 -> bool) -> 'a1 list -> bool

val forallb : ('a1 -> bool) -> 'a1 list -> bool

val filter : ('a1 -> bool) -> 'a1 list -> 'a1 list

val firstn : nat -> 'a1 list -> 'a1 list

val skipn : nat -> 'a1 list -> 'a1 list

type positive =
| XI of positive
| XO of positive
| XH

type n =
| N0
| Npos of positive

module Pos :
 sig
  type mask =
  | IsNul
  | IsPos of positive
  | IsNeg
 end

module Coq_Pos :
 sig
  val succ : positive -> positive

  val add : positive -> positive -> positive

  val add_carry : positive -> positive -> positive

  val pred_double : positive -> positive

  type mask = Pos.mask =
  | IsNul
  | IsPos of positive
  | IsNeg

  val succ_double_mask : mask -> mask

  val double_mask : mask -> mask

  val double_pred_mask : positive -> mask

  val sub_mask : positive -> positive -> mask

  val sub_mask_carry : positive -> positive -> mask

  val mul : positive -> positive -> positive

  val compare_cont : comparison -> positive -> positive -> comparison

  val compare : positive -> positive -> comparison

  val eqb : positive -> positive -> bool

  val iter_op : ('a1 -> 'a1 -> 'a1) -> positive -> 'a1 -> 'a1

  val to_nat : positive -> nat

  val of_succ_nat : nat -> positive
 end

module N :
 sig
  val succ_double : n -> n

  val double : n -> n

  val add : n -> n -> n

  val sub : n -> n -> n

  val mul : n -> n -> n

  val compare : n -> n -> comparison

  val eqb : n -> n -> bool

  val leb : n -> n -> bool

  val ltb : n -> n -> bool

  val min : n -> n -> n

  val pos_div_eucl : positive -> n -> n * n

  val div_eucl : n -> n -> n * n

  val div : n -> n -> n

  val modulo : n -> n -> n

  val to_nat : n -> nat

  val of_nat : nat -> n
 end

type rx = { r_cur : n; r_start : n; r_reg : bool; r_closed : bool;
            r_async : bool; r_live : bool; r_taint : bool }

type fkind =
| FRecv of n
| FRecvB of n * n
| FSend of n
| FSendB of n list * n * n
| FSendM of n list * n

type fut = { f_kind : fkind; f_live : bool; f_wait : n option;
             f_woken : bool; f_disp : bool }

type st = { fixedm : bool; cap : n; log : n list; s_alive : bool;
            s_closed : bool; s_async : bool; s_taint : bool; pdrop : 
            bool; rxs : (n * rx) list; regs : (n * n) list; pw : n option;
            futs : (n * fut) list; wlog : n list; dlog : n list }

type breason =
| BOk
| BFull
| BClosed

type out =
| ONA
| OBusy
| OWouldBlock
| OOk
| OCloseErr
| OClosed
| OPending
| OTimeout
| ONone
| OFull of n
| OClosedV of n
| OVal of n * n
| OVals of n * n list
| OEmpty of n
| ODisc of n
| OBatch of breason * n * n list
| OBErr of n * n list
| OMut of bool * n * n list
| OObs of n * bool * bool * bool * n
| OReady of out
| OSnap of n list

type op =
| TrySend of n
| Send of n
| TrySendB of n list
| TrySendM of n list
| SendB of n list
| SendM of n list
| SClose
| SDrop
| SConv
| SObs
| TryRecv of n
| Recv of n
| RecvT of n
| TryRecvB of n * n
| RecvB of n * n
| RClose of n
| RDrop of n
| RClone of n * n
| RConv of n
| RObs of n
| MkRecv of n * n
| MkRecvB of n * n * n
| MkSend of n * n
| MkSendB of n * n list
| MkSendM of n * n list
| Poll of n * n
| DropF of n
| PollNext of n * n
| Snap

val get : (n * 'a1) list -> n -> 'a1 option

val set : (n * 'a1) list -> n -> 'a1 -> (n * 'a1) list

val lenN : 'a1 list -> n

val head : st -> n

val set_rxs : st -> (n * rx) list -> st

val set_regs : st -> (n * n) list -> st

val set_pw : st -> n option -> st

val set_futs : st -> (n * fut) list -> st

val set_log : st -> n list -> st

val set_wlog : st -> n list -> st

val add_drops : st -> n list -> st

val set_sender : st -> bool -> bool -> bool -> bool -> bool -> st

val set_rx : st -> n -> rx -> st

val set_fut : st -> n -> fut -> st

val mark : n -> (n * fut) -> n * fut

val wake : n -> st -> st

val wake_list : n list -> st -> st

val wake_producer : st -> st

val drain : n -> st -> st

val wake_all : st -> st

val has_reg : n -> n -> (n * n) list -> bool

val register : n -> n -> st -> st

val cursors : st -> n list

val minl : n list -> n option

val space : st -> n option

val write1 : n -> st -> st

val write_many : n list -> st -> st

type sres =
| SOk
| SFull
| SClosedR

val try_send_core : n -> st -> st * sres

val firstnN : n -> 'a1 list -> 'a1 list

val skipnN : n -> 'a1 list -> 'a1 list

val slot_index : st -> n -> n

val slot_val : st -> n -> n

val in_window : st -> n -> bool

type rres =
| RVal of n
| REmpty
| RDisc

val adv : rx -> n -> rx

val try_recv_core : n -> rx -> st -> st * rres

type bres =
| BVals of n list
| BEmpty
| BDisc

val seqN : n -> nat -> n list

val try_recv_batch_core : n -> rx -> n -> st -> st * bres

val fut_rx : fkind -> n option

val rx_busy : st -> n -> bool

val tx_busy : st -> bool

val held : fkind -> n list

val kill : st -> n -> fut -> st

val pend : st -> n -> fkind -> n -> st

val displace : n -> n -> (n * fut) -> n * fut

val reg_producer : n -> n -> st -> st

val sender_close_internal : st -> st

val rx_unreg : rx -> rx

val obs_tx : st -> out

val obs_rx : st -> rx -> out

val out_of_rres : n -> rres -> out -> out

val out_of_bres : n -> bres -> out -> out

val send_some : n list -> st -> ((st * n) * n list) option

val with_rx : st -> n -> (rx -> st * out) -> st * out

val poll_fut : st -> n -> fut -> n -> st * out

val resident : st -> n list

val all_dead : st -> bool

val release : st -> st

val new_fut : st -> n -> fkind -> st * out

val step : st -> op -> st * out

val init : bool -> n -> bool -> st

val live_futs : st -> n list

val live_rxs : st -> n list

val teardown : st -> st
