
type nat =
| O
| S of nat

val fst : ('a1 * 'a2) -> 'a1

val snd : ('a1 * 'a2) -> 'a2

val length : 'a1 list -> nat

val app : 'a1 list -> 'a1 list -> 'a1 list

val existsb : ('a1 -> bool) -> 'a1 list -> bool

type positive =
| XI of positive
| XO of positive
| XH

type n =
| N0
| Npos of positive

module Pos :
 sig
  val succ : positive -> positive

  val add : positive -> positive -> positive

  val add_carry : positive -> positive -> positive

  val eqb : positive -> positive -> bool
 end

module N :
 sig
  val add : n -> n -> n

  val eqb : n -> n -> bool
 end

type key = n * n option

type slot = n * key

val skey : slot -> key

val oN_eqb : n option -> n option -> bool

val key_eqb : key -> key -> bool

val slot_eqb : slot -> slot -> bool

val kmem : key -> key list -> bool

type script = (slot * bool) list

type provider =
| PSingleton of n * n option * script
| PTransient of n * script

type kind =
| KSingleton
| KTransient
| KInstance

val pfid : provider -> n

val pscript : provider -> script

val cached : provider -> n option

type pmap = (slot * provider) list

val plookup : slot -> pmap -> provider option

val premove : slot -> pmap -> pmap

val pinsert : slot -> provider -> pmap -> pmap

val pset : slot -> provider -> pmap -> pmap

type st = { provs : pmap; next : n; nextf : n;
            insts : (n * (n * n option list)) list; started : n list;
            completed : n list; kinds : (n * kind) list }

val nextf : st -> n

val started : st -> n list

val completed : st -> n list

val init : st

type res =
| RNone
| RSome of n
| RPanic
| RFuel

type dres =
| DOk of n option list
| DPanic
| DFuel

val run_deps :
  (st -> slot -> st * res) -> st -> script -> n option list -> st * dres

val mark_started : st -> n -> st

val complete : st -> slot -> provider -> n option list -> st

val resolve : nat -> st -> key list -> slot -> st * res

type op =
| Register of kind * slot * script
| Resolve of slot

type out =
| OOk
| ONone
| OSome of n * n * n option list
| OPanic
| OFuel

val ilookup :
  n -> (n * (n * n option list)) list -> (n * n option list) option

val register : st -> kind -> slot -> script -> st

val fuel_of : st -> nat

val out_of : st -> res -> out

val step : st -> op -> st * out
