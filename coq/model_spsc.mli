
val negb : bool -> bool

type nat =
| O
| S of nat

val snd : ('a1 * 'a2) -> 'a2

val length : 'a1 list -> nat

val app : 'a1 list -> 'a1 list -> 'a1 list

val add : nat -> nat -> nat

val sub : nat -> nat -> nat

val min : nat -> nat -> nat

type positive =
| XI of positive
| XO of positive
| XH

type n =
| N0
| Npos of positive

type z =
| Z0
| Zpos of positive
| Zneg of positive

module Nat :
 sig
  val eqb : nat -> nat -> bool

  val leb : nat -> nat -> bool

  val ltb : nat -> nat -> bool
 end

module Pos :
 sig
  val succ : positive -> positive

  val add : positive -> positive -> positive

  val add_carry : positive -> positive -> positive

  val pred_double : positive -> positive

  val eqb : positive -> positive -> bool

  val of_succ_nat : nat -> positive
 end

module N :
 sig
  val of_nat : nat -> n
 end

val map : ('a1 -> 'a2) -> 'a1 list -> 'a2 list

val firstn : nat -> 'a1 list -> 'a1 list

val skipn : nat -> 'a1 list -> 'a1 list

val seq : nat -> nat -> nat list

module Z :
 sig
  val double : z -> z

  val succ_double : z -> z

  val pred_double : z -> z

  val pos_sub : positive -> positive -> z

  val add : z -> z -> z

  val opp : z -> z

  val sub : z -> z -> z

  val eqb : z -> z -> bool
 end

type cfg = { fix_f03 : bool; fix_conv : bool }

val cfg_repo : cfg

val cfg_fixed : cfg

type kind =
| KSync
| KAsync

val kind_eqb : kind -> kind -> bool

val flip : kind -> kind

type hst =
| HGone
| HLive of kind * bool

type sfut =
| SFSend of nat
| SFBatch of nat list * nat
| SFBatchMut of nat list * nat

type rfut =
| RFRecv
| RFBatch of nat

type owner =
| OFut
| OStream

type event =
| EWake of nat
| EDrop of nat

type res =
| ROk
| ROkN of nat
| RVal of nat
| RVals of nat list
| RFull of nat
| RClosedV of nat
| RClosed
| RTryBatchErr of nat * nat list * bool
| RBatchErr of nat * nat list
| RMutOk of nat * nat list
| RMutClosed of nat list
| RRest of nat list
| REmpty
| RDisc
| RTimeout
| RPending
| RNone
| RObs of nat * bool * bool * bool * nat
| RCloseErr
| RNA
| RBusy
| RGone
| RNoFut
| RWouldBlock

type op =
| TrySend
| Send
| TrySendBatch of nat
| SendBatch of nat
| TrySendBatchMut of nat
| SendBatchMut of nat
| CloseS
| ObsS
| ConvS
| DropS
| MkSend
| MkSendBatch of nat
| MkSendBatchMut of nat
| PollS of nat
| DropFutS
| TryRecv
| Recv
| RecvTimeout
| TryRecvBatch of nat
| RecvBatch of nat
| CloseR
| ObsR
| ConvR
| DropR
| MkRecv
| MkRecvBatch of nat
| PollR of nat
| DropFutR
| StreamNext of nat

type st = { cap : nat; q : nat list; scount : z; rcount : z; pdrop : 
            bool; cdrop : bool; pw : nat option; cw : nat option; sh : 
            hst; rh : hst; rreg : bool; sf : (sfut * bool) option;
            rf : (rfut * bool) option; next : nat; accepted : nat list;
            received : nat list; returned : nat list; dropped : nat list;
            drained : nat list; s_pend : nat option; s_woken : bool;
            r_pend : (owner * nat) option; r_woken : bool;
            st_pend : nat option; st_woken : bool; rdisc : bool;
            s_ever : bool; r_ever : bool; ev : event list }

val set_q : nat list -> st -> st

val set_scount : z -> st -> st

val set_rcount : z -> st -> st

val set_pdrop : bool -> st -> st

val set_cdrop : bool -> st -> st

val set_pw : nat option -> st -> st

val set_cw : nat option -> st -> st

val set_sh : hst -> st -> st

val set_rh : hst -> st -> st

val set_rreg : bool -> st -> st

val set_sf : (sfut * bool) option -> st -> st

val set_rf : (rfut * bool) option -> st -> st

val set_next : nat -> st -> st

val set_accepted : nat list -> st -> st

val set_received : nat list -> st -> st

val set_returned : nat list -> st -> st

val set_dropped : nat list -> st -> st

val set_drained : nat list -> st -> st

val set_s_pend : nat option -> st -> st

val set_s_woken : bool -> st -> st

val set_r_pend : (owner * nat) option -> st -> st

val set_r_woken : bool -> st -> st

val set_st_pend : nat option -> st -> st

val set_st_woken : bool -> st -> st

val set_rdisc : bool -> st -> st

val set_s_ever : bool -> st -> st

val set_r_ever : bool -> st -> st

val set_ev : event list -> st -> st

val init : nat -> kind -> st

val opt_is : 'a1 option -> bool

val is_nil : 'a1 list -> bool

val wake_ev : nat option -> event list

val wake_r_if : bool -> st -> st

val wake_s_if : bool -> st -> st

val push : nat list -> st -> st

val pop : nat -> st -> st

val give_back : nat list -> st -> st

val destroy : nat list -> st -> st

val free : st -> nat

val close_int_s_if : bool -> st -> st

val close_int_r_if : bool -> st -> st

val close_int_s : st -> st

val close_int_r : st -> st

val both_gone : st -> bool

val shared_drop_if : st -> st

val clear_stream_pend : st -> st

val clear_fut_pend : st -> st

val note_disc : st -> st

val gate_s : st -> kind option -> (kind -> bool -> st * res) -> st * res

val gate_r : st -> kind option -> (kind -> bool -> st * res) -> st * res

val alloc : nat -> st -> st

val do_try_send : st -> st * res

val do_send : st -> st * res

val do_try_send_batch : nat -> st -> st * res

val do_send_batch : cfg -> nat -> st -> st * res

val do_try_send_batch_mut : nat -> st -> st * res

val do_send_batch_mut : nat -> st -> st * res

val do_close_s : st -> st * res

val do_obs_s : st -> st * res

val do_conv_s : cfg -> st -> st * res

val do_drop_s : st -> st * res

val do_mk_s : sfut -> nat -> st -> st * res

val do_poll_s : nat -> st -> st * res

val do_dropfut_s : st -> st * res

val senders_alive : st -> bool

val do_recv1 : kind option -> res -> st -> st * res

val do_recvn : kind option -> res -> nat -> st -> st * res

val do_close_r : st -> st * res

val do_obs_r : st -> st * res

val stream_unreg : st -> st

val do_conv_r : cfg -> st -> st * res

val do_drop_r : st -> st * res

val do_mk_r : rfut -> st -> st * res

val do_poll_r : nat -> st -> st * res

val do_dropfut_r : st -> st * res

val do_stream_next : nat -> st -> st * res

val exec : cfg -> st -> op -> st * res

type out = res * event list

val step : cfg -> st -> op -> st * out

val run : cfg -> st -> op list -> st * out list

val teardown : op list

val run_case : cfg -> nat -> kind -> op list -> out list
