
(** val negb : bool -> bool **)

let negb = function
| true -> false
| false -> true

type nat =
| O
| S of nat

(** val fst : ('a1 * 'a2) -> 'a1 **)

let fst = function
| (x, _) -> x

(** val snd : ('a1 * 'a2) -> 'a2 **)

let snd = function
| (_, y) -> y

(** val length : 'a1 list -> nat **)

let rec length = function
| [] -> O
| _ :: l' -> S (length l')

(** val app : 'a1 list -> 'a1 list -> 'a1 list **)

let rec app l m =
  match l with
  | [] -> m
  | a :: l1 -> a :: (app l1 m)

type comparison =
| Eq
| Lt
| Gt

module Coq__1 = struct
 (** val add : nat -> nat -> nat **)
 let rec add n0 m =
   match n0 with
   | O -> m
   | S p -> S (add p m)
end
include Coq__1

(** val existsb : ('a1 -> bool) -> 'a1 list -> bool **)

let rec existsb f = function
| [] -> false
| a :: l0 -> (||) (f a) (existsb f l0)

(** val forallb : ('a1 -> bool) -> 'a1 list -> bool **)

let rec forallb f = function
| [] -> true
| a :: l0 -> (&&) (f a) (forallb f l0)

(** val filter : ('a1 -> bool) -> 'a1 list -> 'a1 list **)

let rec filter f = function
| [] -> []
| x :: l0 -> if f x then x :: (filter f l0) else filter f l0

(** val firstn : nat -> 'a1 list -> 'a1 list **)

let rec firstn n0 l =
  match n0 with
  | O -> []
  | S n1 -> (match l with
             | [] -> []
             | a :: l0 -> a :: (firstn n1 l0))

(** val skipn : nat -> 'a1 list -> 'a1 list **)

let rec skipn n0 l =
  match n0 with
  | O -> l
  | S n1 -> (match l with
             | [] -> []
             | _ :: l0 -> skipn n1 l0)

type positive =
| XI of positive
| XO of positive
| XH

type n =
| N0
| Npos of positive

module Pos =
 struct
  type mask =
  | IsNul
  | IsPos of positive
  | IsNeg
 end

module Coq_Pos =
 struct
  (** val succ : positive -> positive **)

  let rec succ = function
  | XI p -> XO (succ p)
  | XO p -> XI p
  | XH -> XO XH

  (** val add : positive -> positive -> positive **)

  let rec add x y =
    match x with
    | XI p ->
      (match y with
       | XI q0 -> XO (add_carry p q0)
       | XO q0 -> XI (add p q0)
       | XH -> XO (succ p))
    | XO p ->
      (match y with
       | XI q0 -> XI (add p q0)
       | XO q0 -> XO (add p q0)
       | XH -> XI p)
    | XH -> (match y with
             | XI q0 -> XO (succ q0)
             | XO q0 -> XI q0
             | XH -> XO XH)

  (** val add_carry : positive -> positive -> positive **)

  and add_carry x y =
    match x with
    | XI p ->
      (match y with
       | XI q0 -> XI (add_carry p q0)
       | XO q0 -> XO (add_carry p q0)
       | XH -> XI (succ p))
    | XO p ->
      (match y with
       | XI q0 -> XO (add_carry p q0)
       | XO q0 -> XI (add p q0)
       | XH -> XO (succ p))
    | XH ->
      (match y with
       | XI q0 -> XI (succ q0)
       | XO q0 -> XO (succ q0)
       | XH -> XI XH)

  (** val pred_double : positive -> positive **)

  let rec pred_double = function
  | XI p -> XI (XO p)
  | XO p -> XI (pred_double p)
  | XH -> XH

  type mask = Pos.mask =
  | IsNul
  | IsPos of positive
  | IsNeg

  (** val succ_double_mask : mask -> mask **)

  let succ_double_mask = function
  | IsNul -> IsPos XH
  | IsPos p -> IsPos (XI p)
  | IsNeg -> IsNeg

  (** val double_mask : mask -> mask **)

  let double_mask = function
  | IsPos p -> IsPos (XO p)
  | x0 -> x0

  (** val double_pred_mask : positive -> mask **)

  let double_pred_mask = function
  | XI p -> IsPos (XO (XO p))
  | XO p -> IsPos (XO (pred_double p))
  | XH -> IsNul

  (** val sub_mask : positive -> positive -> mask **)

  let rec sub_mask x y =
    match x with
    | XI p ->
      (match y with
       | XI q0 -> double_mask (sub_mask p q0)
       | XO q0 -> succ_double_mask (sub_mask p q0)
       | XH -> IsPos (XO p))
    | XO p ->
      (match y with
       | XI q0 -> succ_double_mask (sub_mask_carry p q0)
       | XO q0 -> double_mask (sub_mask p q0)
       | XH -> IsPos (pred_double p))
    | XH -> (match y with
             | XH -> IsNul
             | _ -> IsNeg)

  (** val sub_mask_carry : positive -> positive -> mask **)

  and sub_mask_carry x y =
    match x with
    | XI p ->
      (match y with
       | XI q0 -> succ_double_mask (sub_mask_carry p q0)
       | XO q0 -> double_mask (sub_mask p q0)
       | XH -> IsPos (pred_double p))
    | XO p ->
      (match y with
       | XI q0 -> double_mask (sub_mask_carry p q0)
       | XO q0 -> succ_double_mask (sub_mask_carry p q0)
       | XH -> double_pred_mask p)
    | XH -> IsNeg

  (** val compare_cont : comparison -> positive -> positive -> comparison **)

  let rec compare_cont r x y =
    match x with
    | XI p ->
      (match y with
       | XI q0 -> compare_cont r p q0
       | XO q0 -> compare_cont Gt p q0
       | XH -> Gt)
    | XO p ->
      (match y with
       | XI q0 -> compare_cont Lt p q0
       | XO q0 -> compare_cont r p q0
       | XH -> Gt)
    | XH -> (match y with
             | XH -> r
             | _ -> Lt)

  (** val compare : positive -> positive -> comparison **)

  let compare =
    compare_cont Eq

  (** val eqb : positive -> positive -> bool **)

  let rec eqb p q0 =
    match p with
    | XI p0 -> (match q0 with
                | XI q1 -> eqb p0 q1
                | _ -> false)
    | XO p0 -> (match q0 with
                | XO q1 -> eqb p0 q1
                | _ -> false)
    | XH -> (match q0 with
             | XH -> true
             | _ -> false)

  (** val iter_op : ('a1 -> 'a1 -> 'a1) -> positive -> 'a1 -> 'a1 **)

  let rec iter_op op0 p a =
    match p with
    | XI p0 -> op0 a (iter_op op0 p0 (op0 a a))
    | XO p0 -> iter_op op0 p0 (op0 a a)
    | XH -> a

  (** val to_nat : positive -> nat **)

  let to_nat x =
    iter_op Coq__1.add x (S O)

  (** val of_succ_nat : nat -> positive **)

  let rec of_succ_nat = function
  | O -> XH
  | S x -> succ (of_succ_nat x)
 end

module N =
 struct
  (** val add : n -> n -> n **)

  let add n0 m =
    match n0 with
    | N0 -> m
    | Npos p -> (match m with
                 | N0 -> n0
                 | Npos q0 -> Npos (Coq_Pos.add p q0))

  (** val sub : n -> n -> n **)

  let sub n0 m =
    match n0 with
    | N0 -> N0
    | Npos n' ->
      (match m with
       | N0 -> n0
       | Npos m' ->
         (match Coq_Pos.sub_mask n' m' with
          | Coq_Pos.IsPos p -> Npos p
          | _ -> N0))

  (** val compare : n -> n -> comparison **)

  let compare n0 m =
    match n0 with
    | N0 -> (match m with
             | N0 -> Eq
             | Npos _ -> Lt)
    | Npos n' -> (match m with
                  | N0 -> Gt
                  | Npos m' -> Coq_Pos.compare n' m')

  (** val eqb : n -> n -> bool **)

  let eqb n0 m =
    match n0 with
    | N0 -> (match m with
             | N0 -> true
             | Npos _ -> false)
    | Npos p -> (match m with
                 | N0 -> false
                 | Npos q0 -> Coq_Pos.eqb p q0)

  (** val leb : n -> n -> bool **)

  let leb x y =
    match compare x y with
    | Gt -> false
    | _ -> true

  (** val ltb : n -> n -> bool **)

  let ltb x y =
    match compare x y with
    | Lt -> true
    | _ -> false

  (** val min : n -> n -> n **)

  let min n0 n' =
    match compare n0 n' with
    | Gt -> n'
    | _ -> n0

  (** val max : n -> n -> n **)

  let max n0 n' =
    match compare n0 n' with
    | Gt -> n0
    | _ -> n'

  (** val to_nat : n -> nat **)

  let to_nat = function
  | N0 -> O
  | Npos p -> Coq_Pos.to_nat p

  (** val of_nat : nat -> n **)

  let of_nat = function
  | O -> N0
  | S n' -> Npos (Coq_Pos.of_succ_nat n')
 end

(** val mem : n -> n list -> bool **)

let mem k l =
  existsb (N.eqb k) l

(** val len : 'a1 list -> n **)

let len l =
  N.of_nat (length l)

(** val aget : n -> (n * 'a1) list -> 'a1 option **)

let rec aget k = function
| [] -> None
| p :: t -> let (k', v) = p in if N.eqb k k' then Some v else aget k t

(** val adel : n -> (n * 'a1) list -> (n * 'a1) list **)

let rec adel k = function
| [] -> []
| p :: t ->
  let (k', v) = p in if N.eqb k k' then adel k t else (k', v) :: (adel k t)

(** val aset : n -> 'a1 -> (n * 'a1) list -> (n * 'a1) list **)

let aset k v l =
  (k, v) :: (adel k l)

(** val is_nil : 'a1 list -> bool **)

let is_nil = function
| [] -> true
| _ :: _ -> false

(** val nodupb : n list -> bool **)

let rec nodupb = function
| [] -> true
| x :: t -> (&&) (negb (mem x t)) (nodupb t)

type owner =
| OF of n
| OH of n

type hrec = { htx : bool; hasync : bool; hclosed : bool; hreg : bool;
              hpend : (n * n) option }

type fkind =
| FSend of n option
| FRecv of bool
| FSendB of n list * n * n
| FRecvB of n * bool

type frec = { fh : n; fk : fkind; fpend : (n * n) option }

type st = { cap : n; kk : n; q : n list; unpub : n; scount : n; rdrop : 
            bool; sq : (n * n) list; rw : (owner * n) option;
            hs : (n * hrec) list; fs : (n * frec) list; wk : (n -> n);
            used : n list; acc : n list; rcv : n list; back : n list;
            drp : n list; qdrp : n list; lost : bool; multi : bool;
            evw : n list; evd : n list; fix03 : bool; fixcl : bool }

(** val set_kk : st -> n -> st **)

let set_kk s x =
  { cap = s.cap; kk = x; q = s.q; unpub = s.unpub; scount = s.scount; rdrop =
    s.rdrop; sq = s.sq; rw = s.rw; hs = s.hs; fs = s.fs; wk = s.wk; used =
    s.used; acc = s.acc; rcv = s.rcv; back = s.back; drp = s.drp; qdrp =
    s.qdrp; lost = s.lost; multi = s.multi; evw = s.evw; evd = s.evd; fix03 =
    s.fix03; fixcl = s.fixcl }

(** val set_q : st -> n list -> st **)

let set_q s x =
  { cap = s.cap; kk = s.kk; q = x; unpub = s.unpub; scount = s.scount;
    rdrop = s.rdrop; sq = s.sq; rw = s.rw; hs = s.hs; fs = s.fs; wk = s.wk;
    used = s.used; acc = s.acc; rcv = s.rcv; back = s.back; drp = s.drp;
    qdrp = s.qdrp; lost = s.lost; multi = s.multi; evw = s.evw; evd = s.evd;
    fix03 = s.fix03; fixcl = s.fixcl }

(** val set_unpub : st -> n -> st **)

let set_unpub s x =
  { cap = s.cap; kk = s.kk; q = s.q; unpub = x; scount = s.scount; rdrop =
    s.rdrop; sq = s.sq; rw = s.rw; hs = s.hs; fs = s.fs; wk = s.wk; used =
    s.used; acc = s.acc; rcv = s.rcv; back = s.back; drp = s.drp; qdrp =
    s.qdrp; lost = s.lost; multi = s.multi; evw = s.evw; evd = s.evd; fix03 =
    s.fix03; fixcl = s.fixcl }

(** val set_scount : st -> n -> st **)

let set_scount s x =
  { cap = s.cap; kk = s.kk; q = s.q; unpub = s.unpub; scount = x; rdrop =
    s.rdrop; sq = s.sq; rw = s.rw; hs = s.hs; fs = s.fs; wk = s.wk; used =
    s.used; acc = s.acc; rcv = s.rcv; back = s.back; drp = s.drp; qdrp =
    s.qdrp; lost = s.lost; multi = s.multi; evw = s.evw; evd = s.evd; fix03 =
    s.fix03; fixcl = s.fixcl }

(** val set_rdrop : st -> bool -> st **)

let set_rdrop s x =
  { cap = s.cap; kk = s.kk; q = s.q; unpub = s.unpub; scount = s.scount;
    rdrop = x; sq = s.sq; rw = s.rw; hs = s.hs; fs = s.fs; wk = s.wk; used =
    s.used; acc = s.acc; rcv = s.rcv; back = s.back; drp = s.drp; qdrp =
    s.qdrp; lost = s.lost; multi = s.multi; evw = s.evw; evd = s.evd; fix03 =
    s.fix03; fixcl = s.fixcl }

(** val set_sq : st -> (n * n) list -> st **)

let set_sq s x =
  { cap = s.cap; kk = s.kk; q = s.q; unpub = s.unpub; scount = s.scount;
    rdrop = s.rdrop; sq = x; rw = s.rw; hs = s.hs; fs = s.fs; wk = s.wk;
    used = s.used; acc = s.acc; rcv = s.rcv; back = s.back; drp = s.drp;
    qdrp = s.qdrp; lost = s.lost; multi = s.multi; evw = s.evw; evd = s.evd;
    fix03 = s.fix03; fixcl = s.fixcl }

(** val set_rw : st -> (owner * n) option -> st **)

let set_rw s x =
  { cap = s.cap; kk = s.kk; q = s.q; unpub = s.unpub; scount = s.scount;
    rdrop = s.rdrop; sq = s.sq; rw = x; hs = s.hs; fs = s.fs; wk = s.wk;
    used = s.used; acc = s.acc; rcv = s.rcv; back = s.back; drp = s.drp;
    qdrp = s.qdrp; lost = s.lost; multi = s.multi; evw = s.evw; evd = s.evd;
    fix03 = s.fix03; fixcl = s.fixcl }

(** val set_hs : st -> (n * hrec) list -> st **)

let set_hs s x =
  { cap = s.cap; kk = s.kk; q = s.q; unpub = s.unpub; scount = s.scount;
    rdrop = s.rdrop; sq = s.sq; rw = s.rw; hs = x; fs = s.fs; wk = s.wk;
    used = s.used; acc = s.acc; rcv = s.rcv; back = s.back; drp = s.drp;
    qdrp = s.qdrp; lost = s.lost; multi = s.multi; evw = s.evw; evd = s.evd;
    fix03 = s.fix03; fixcl = s.fixcl }

(** val set_fs : st -> (n * frec) list -> st **)

let set_fs s x =
  { cap = s.cap; kk = s.kk; q = s.q; unpub = s.unpub; scount = s.scount;
    rdrop = s.rdrop; sq = s.sq; rw = s.rw; hs = s.hs; fs = x; wk = s.wk;
    used = s.used; acc = s.acc; rcv = s.rcv; back = s.back; drp = s.drp;
    qdrp = s.qdrp; lost = s.lost; multi = s.multi; evw = s.evw; evd = s.evd;
    fix03 = s.fix03; fixcl = s.fixcl }

(** val set_wk : st -> (n -> n) -> st **)

let set_wk s x =
  { cap = s.cap; kk = s.kk; q = s.q; unpub = s.unpub; scount = s.scount;
    rdrop = s.rdrop; sq = s.sq; rw = s.rw; hs = s.hs; fs = s.fs; wk = x;
    used = s.used; acc = s.acc; rcv = s.rcv; back = s.back; drp = s.drp;
    qdrp = s.qdrp; lost = s.lost; multi = s.multi; evw = s.evw; evd = s.evd;
    fix03 = s.fix03; fixcl = s.fixcl }

(** val set_used : st -> n list -> st **)

let set_used s x =
  { cap = s.cap; kk = s.kk; q = s.q; unpub = s.unpub; scount = s.scount;
    rdrop = s.rdrop; sq = s.sq; rw = s.rw; hs = s.hs; fs = s.fs; wk = s.wk;
    used = x; acc = s.acc; rcv = s.rcv; back = s.back; drp = s.drp; qdrp =
    s.qdrp; lost = s.lost; multi = s.multi; evw = s.evw; evd = s.evd; fix03 =
    s.fix03; fixcl = s.fixcl }

(** val set_acc : st -> n list -> st **)

let set_acc s x =
  { cap = s.cap; kk = s.kk; q = s.q; unpub = s.unpub; scount = s.scount;
    rdrop = s.rdrop; sq = s.sq; rw = s.rw; hs = s.hs; fs = s.fs; wk = s.wk;
    used = s.used; acc = x; rcv = s.rcv; back = s.back; drp = s.drp; qdrp =
    s.qdrp; lost = s.lost; multi = s.multi; evw = s.evw; evd = s.evd; fix03 =
    s.fix03; fixcl = s.fixcl }

(** val set_rcv : st -> n list -> st **)

let set_rcv s x =
  { cap = s.cap; kk = s.kk; q = s.q; unpub = s.unpub; scount = s.scount;
    rdrop = s.rdrop; sq = s.sq; rw = s.rw; hs = s.hs; fs = s.fs; wk = s.wk;
    used = s.used; acc = s.acc; rcv = x; back = s.back; drp = s.drp; qdrp =
    s.qdrp; lost = s.lost; multi = s.multi; evw = s.evw; evd = s.evd; fix03 =
    s.fix03; fixcl = s.fixcl }

(** val set_back : st -> n list -> st **)

let set_back s x =
  { cap = s.cap; kk = s.kk; q = s.q; unpub = s.unpub; scount = s.scount;
    rdrop = s.rdrop; sq = s.sq; rw = s.rw; hs = s.hs; fs = s.fs; wk = s.wk;
    used = s.used; acc = s.acc; rcv = s.rcv; back = x; drp = s.drp; qdrp =
    s.qdrp; lost = s.lost; multi = s.multi; evw = s.evw; evd = s.evd; fix03 =
    s.fix03; fixcl = s.fixcl }

(** val set_drp : st -> n list -> st **)

let set_drp s x =
  { cap = s.cap; kk = s.kk; q = s.q; unpub = s.unpub; scount = s.scount;
    rdrop = s.rdrop; sq = s.sq; rw = s.rw; hs = s.hs; fs = s.fs; wk = s.wk;
    used = s.used; acc = s.acc; rcv = s.rcv; back = s.back; drp = x; qdrp =
    s.qdrp; lost = s.lost; multi = s.multi; evw = s.evw; evd = s.evd; fix03 =
    s.fix03; fixcl = s.fixcl }

(** val set_qdrp : st -> n list -> st **)

let set_qdrp s x =
  { cap = s.cap; kk = s.kk; q = s.q; unpub = s.unpub; scount = s.scount;
    rdrop = s.rdrop; sq = s.sq; rw = s.rw; hs = s.hs; fs = s.fs; wk = s.wk;
    used = s.used; acc = s.acc; rcv = s.rcv; back = s.back; drp = s.drp;
    qdrp = x; lost = s.lost; multi = s.multi; evw = s.evw; evd = s.evd;
    fix03 = s.fix03; fixcl = s.fixcl }

(** val set_lost : st -> bool -> st **)

let set_lost s x =
  { cap = s.cap; kk = s.kk; q = s.q; unpub = s.unpub; scount = s.scount;
    rdrop = s.rdrop; sq = s.sq; rw = s.rw; hs = s.hs; fs = s.fs; wk = s.wk;
    used = s.used; acc = s.acc; rcv = s.rcv; back = s.back; drp = s.drp;
    qdrp = s.qdrp; lost = x; multi = s.multi; evw = s.evw; evd = s.evd;
    fix03 = s.fix03; fixcl = s.fixcl }

(** val set_multi : st -> bool -> st **)

let set_multi s x =
  { cap = s.cap; kk = s.kk; q = s.q; unpub = s.unpub; scount = s.scount;
    rdrop = s.rdrop; sq = s.sq; rw = s.rw; hs = s.hs; fs = s.fs; wk = s.wk;
    used = s.used; acc = s.acc; rcv = s.rcv; back = s.back; drp = s.drp;
    qdrp = s.qdrp; lost = s.lost; multi = x; evw = s.evw; evd = s.evd;
    fix03 = s.fix03; fixcl = s.fixcl }

(** val set_evw : st -> n list -> st **)

let set_evw s x =
  { cap = s.cap; kk = s.kk; q = s.q; unpub = s.unpub; scount = s.scount;
    rdrop = s.rdrop; sq = s.sq; rw = s.rw; hs = s.hs; fs = s.fs; wk = s.wk;
    used = s.used; acc = s.acc; rcv = s.rcv; back = s.back; drp = s.drp;
    qdrp = s.qdrp; lost = s.lost; multi = s.multi; evw = x; evd = s.evd;
    fix03 = s.fix03; fixcl = s.fixcl }

(** val set_evd : st -> n list -> st **)

let set_evd s x =
  { cap = s.cap; kk = s.kk; q = s.q; unpub = s.unpub; scount = s.scount;
    rdrop = s.rdrop; sq = s.sq; rw = s.rw; hs = s.hs; fs = s.fs; wk = s.wk;
    used = s.used; acc = s.acc; rcv = s.rcv; back = s.back; drp = s.drp;
    qdrp = s.qdrp; lost = s.lost; multi = s.multi; evw = s.evw; evd = x;
    fix03 = s.fix03; fixcl = s.fixcl }

(** val init : bool -> n -> bool -> bool -> st **)

let init async c f03 fcl =
  let c0 = N.max c (Npos XH) in
  { cap = c0; kk =
  (if async then c0 else N.min c0 (Npos (XO (XO (XO (XO (XO (XO XH))))))));
  q = []; unpub = N0; scount = (Npos XH); rdrop = false; sq = []; rw = None;
  hs = ((N0, { htx = true; hasync = async; hclosed = false; hreg = false;
  hpend = None }) :: (((Npos XH), { htx = false; hasync = async; hclosed =
  false; hreg = false; hpend = None }) :: [])); fs = []; wk = (fun _ -> N0);
  used = []; acc = []; rcv = []; back = []; drp = []; qdrp = []; lost =
  false; multi = false; evw = []; evd = []; fix03 = f03; fixcl = fcl }

type op =
| TrySend of n * n
| Send of n * n
| TryRecv of n
| Recv of n
| RecvT0 of n
| Close of n
| DropH of n
| Clone of n * n
| ToSync of n
| ToAsync of n
| Len of n
| IsEmpty of n
| IsFull of n
| Cap of n
| IsClosed of n
| MkSend of n * n * n
| MkRecv of n * n
| Poll of n * n
| DropF of n
| PollNext of n * n
| TrySendB of n * n list * bool
| SendB of n * n list * bool
| TryRecvB of n * n
| RecvB of n * n
| MkSendB of n * n * n list
| MkRecvB of n * n * n

type res =
| ROk
| RFull of n
| RClosedV of n
| RClosed
| RVal of n
| REmpty
| RDisc
| RTimeout
| RCloseErr
| RBad
| RBlock
| RNum of n
| RBool of bool
| RBatchOk of n
| RBatchErr of n * bool * n list
| RMutOk of n * n list
| RMutClosed of n list
| RVals of n list
| RPending
| RReady of res

(** val fresh : n list -> st -> bool **)

let fresh vs s =
  (&&) (forallb (fun v -> negb (mem v s.used)) vs) (nodupb vs)

(** val use : n list -> st -> st **)

let use vs s =
  set_used s (app vs s.used)

(** val giveback : n list -> st -> st **)

let giveback vs s =
  set_back s (app s.back vs)

(** val dropv : n list -> st -> st **)

let dropv vs s =
  set_evd (set_drp s (app s.drp vs)) (app s.evd vs)

(** val wake : n -> st -> st **)

let wake w s =
  set_evw
    (set_wk s (fun x ->
      if N.eqb x w then N.add (s.wk x) (Npos XH) else s.wk x))
    (app s.evw (w :: []))

(** val notify_senders : st -> st **)

let notify_senders s =
  match s.sq with
  | [] -> s
  | p :: r -> let (_, w) = p in wake w (set_sq s r)

(** val publish : st -> st **)

let publish s =
  notify_senders (set_unpub s N0)

(** val flush : st -> st **)

let flush s =
  if N.ltb N0 s.unpub then publish s else s

(** val notify_receiver : st -> st **)

let notify_receiver s =
  match s.rw with
  | Some p -> let (_, w) = p in wake w (set_rw s None)
  | None -> s

(** val wake_list : (n * n) list -> st -> st **)

let rec wake_list l s =
  match l with
  | [] -> s
  | p :: r -> let (_, w) = p in wake_list r (wake w s)

(** val wake_all_senders : st -> st **)

let wake_all_senders s =
  wake_list s.sq (set_sq s [])

(** val window_open : st -> bool **)

let window_open s =
  N.ltb (N.add (len s.q) s.unpub) s.cap

(** val window_open_cold : st -> bool **)

let window_open_cold s =
  N.ltb (len s.q) s.cap

(** val hot_slack : st -> n **)

let hot_slack s =
  N.sub s.cap (N.add (len s.q) s.unpub)

(** val cold_slack : st -> n **)

let cold_slack s =
  N.sub s.cap (len s.q)

(** val deq1 : st -> st * n option **)

let deq1 s =
  match s.q with
  | [] -> (s, None)
  | v :: r ->
    let s1 =
      set_rcv (set_unpub (set_q s r) (N.add s.unpub (Npos XH)))
        (app s.rcv (v :: []))
    in
    ((if N.leb s1.kk s1.unpub then publish s1 else s1), (Some v))

(** val deqn : nat -> st -> st * n list **)

let rec deqn n0 s =
  match n0 with
  | O -> (s, [])
  | S n' ->
    let (s1, o) = deq1 s in
    (match o with
     | Some v -> let (s2, vs) = deqn n' s1 in (s2, (v :: vs))
     | None -> (s1, []))

(** val pushl : n list -> st -> st **)

let pushl vs s =
  if is_nil vs
  then s
  else notify_receiver (set_acc (set_q s (app s.q vs)) (app s.acc vs))

(** val push : n -> st -> st **)

let push v s =
  pushl (v :: []) s

(** val tx_dead : st -> hrec -> bool **)

let tx_dead s r =
  (||) r.hclosed s.rdrop

(** val has_futs : n -> st -> bool **)

let has_futs h s =
  existsb (fun p -> N.eqb (snd p).fh h) s.fs

(** val with_closed : hrec -> hrec **)

let with_closed r =
  { htx = r.htx; hasync = r.hasync; hclosed = true; hreg = r.hreg; hpend =
    r.hpend }

(** val with_async : hrec -> bool -> hrec **)

let with_async r a =
  { htx = r.htx; hasync = a; hclosed = r.hclosed; hreg = false; hpend = None }

(** val with_reg : hrec -> bool -> (n * n) option -> hrec **)

let with_reg r g p =
  { htx = r.htx; hasync = r.hasync; hclosed = r.hclosed; hreg = g; hpend = p }

(** val put_h : n -> hrec -> st -> st **)

let put_h h r s =
  set_hs s (aset h r s.hs)

(** val put_f : n -> frec -> st -> st **)

let put_f f r s =
  set_fs s (aset f r s.fs)

(** val unreg_send : n -> st -> st **)

let unreg_send f s =
  set_sq s (filter (fun p -> negb (N.eqb (fst p) f)) s.sq)

(** val in_sq : n -> st -> bool **)

let in_sq f s =
  existsb (fun p -> N.eqb (fst p) f) s.sq

(** val is_recv_kind : fkind -> bool **)

let is_recv_kind = function
| FSend _ -> false
| FSendB (_, _, _) -> false
| _ -> true

(** val kitems : fkind -> n list **)

let kitems = function
| FSend item -> (match item with
                 | Some v -> v :: []
                 | None -> [])
| FSendB (rest, _, _) -> rest
| _ -> []

(** val note_lost : n -> frec -> st -> st **)

let note_lost f fr s =
  match fr.fpend with
  | Some _ ->
    if (&&) (negb (in_sq f s)) (negb s.rdrop) then set_lost s true else s
  | None -> s

(** val note_multi : n -> hrec -> st -> st **)

let note_multi _ r s =
  if (||) (existsb (fun p -> is_recv_kind (snd p).fk) s.fs) r.hreg
  then set_multi s true
  else s

(** val do_try_send : st -> n -> n -> st * res **)

let do_try_send s h v =
  match aget h s.hs with
  | Some r ->
    if (&&) r.htx (fresh (v :: []) s)
    then let s0 = use (v :: []) s in
         if tx_dead s0 r
         then ((giveback (v :: []) s0), (RClosedV v))
         else if (||) (window_open s0) (window_open_cold s0)
              then ((push v s0), ROk)
              else ((giveback (v :: []) s0), (RFull v))
    else (s, RBad)
  | None -> (s, RBad)

(** val do_send : st -> n -> n -> st * res **)

let do_send s h v =
  match aget h s.hs with
  | Some r ->
    if (&&) ((&&) r.htx (negb r.hasync)) (fresh (v :: []) s)
    then if tx_dead s r
         then ((dropv (v :: []) (use (v :: []) s)), RClosed)
         else if window_open s
              then ((push v (use (v :: []) s)), ROk)
              else (s, RBlock)
    else (s, RBad)
  | None -> (s, RBad)

(** val do_try_send_b : st -> n -> n list -> bool -> st * res **)

let do_try_send_b s h vs inplace =
  match aget h s.hs with
  | Some r ->
    if (&&) r.htx (fresh vs s)
    then if is_nil vs
         then (s, (if inplace then RMutOk (N0, []) else RBatchOk N0))
         else let s0 = use vs s in
              if tx_dead s0 r
              then ((giveback vs s0),
                     (if inplace
                      then RMutClosed vs
                      else RBatchErr (N0, false, vs)))
              else let k = N.to_nat (N.min (len vs) (cold_slack s0)) in
                   let s1 = pushl (firstn k vs) s0 in
                   let rest = skipn k vs in
                   if is_nil rest
                   then (s1,
                          (if inplace
                           then RMutOk ((len vs), [])
                           else RBatchOk (len vs)))
                   else ((giveback rest s1),
                          (if inplace
                           then RMutOk ((N.of_nat k), rest)
                           else RBatchErr ((N.of_nat k), true, rest)))
    else (s, RBad)
  | None -> (s, RBad)

(** val do_send_b : st -> n -> n list -> bool -> st * res **)

let do_send_b s h vs inplace =
  match aget h s.hs with
  | Some r ->
    if (&&) ((&&) r.htx (negb r.hasync)) (fresh vs s)
    then if is_nil vs
         then (s, (if inplace then RMutOk (N0, []) else RBatchOk N0))
         else if tx_dead s r
              then ((giveback vs (use vs s)),
                     (if inplace
                      then RMutClosed vs
                      else RBatchErr (N0, false, vs)))
              else if N.leb (len vs) (hot_slack s)
                   then ((pushl vs (use vs s)),
                          (if inplace
                           then RMutOk ((len vs), [])
                           else RBatchOk (len vs)))
                   else (s, RBlock)
    else (s, RBad)
  | None -> (s, RBad)

(** val recv_tail : st -> res -> st * res **)

let recv_tail s onempty =
  if N.eqb s.scount N0 then ((flush s), RDisc) else ((flush s), onempty)

(** val do_try_recv : st -> n -> st * res **)

let do_try_recv s h =
  match aget h s.hs with
  | Some r ->
    if r.htx
    then (s, RBad)
    else if r.hclosed
         then (s, RDisc)
         else let (s1, o) = deq1 s in
              (match o with
               | Some v -> (s1, (RVal v))
               | None -> recv_tail s1 REmpty)
  | None -> (s, RBad)

(** val do_recv : st -> n -> st * res **)

let do_recv s h =
  match aget h s.hs with
  | Some r ->
    if (||) r.htx r.hasync
    then (s, RBad)
    else if r.hclosed
         then (s, RDisc)
         else let (s1, o) = deq1 s in
              (match o with
               | Some v -> (s1, (RVal v))
               | None ->
                 if N.eqb s1.scount N0
                 then ((flush s1), RDisc)
                 else (s, RBlock))
  | None -> (s, RBad)

(** val do_recv_t0 : st -> n -> st * res **)

let do_recv_t0 s h =
  match aget h s.hs with
  | Some r ->
    if (||) r.htx r.hasync
    then (s, RBad)
    else if (&&) s.fix03 r.hclosed
         then (s, RDisc)
         else let (s1, o) = deq1 s in
              (match o with
               | Some v -> (s1, (RVal v))
               | None -> recv_tail s1 RTimeout)
  | None -> (s, RBad)

(** val do_try_recv_b : st -> n -> n -> st * res **)

let do_try_recv_b s h max0 =
  match aget h s.hs with
  | Some r ->
    if r.htx
    then (s, RBad)
    else if N.eqb max0 N0
         then (s, (RVals []))
         else if r.hclosed
              then (s, RDisc)
              else let (s1, vs) = deqn (N.to_nat max0) s in
                   if is_nil vs
                   then recv_tail s1 REmpty
                   else ((flush s1), (RVals vs))
  | None -> (s, RBad)

(** val do_recv_b : st -> n -> n -> st * res **)

let do_recv_b s h max0 =
  match aget h s.hs with
  | Some r ->
    if (||) r.htx r.hasync
    then (s, RBad)
    else if N.eqb max0 N0
         then (s, (RVals []))
         else if r.hclosed
              then (s, RDisc)
              else let (s1, vs) = deqn (N.to_nat max0) s in
                   if is_nil vs
                   then if N.eqb s1.scount N0
                        then ((flush s1), RDisc)
                        else (s, RBlock)
                   else ((flush s1), (RVals vs))
  | None -> (s, RBad)

(** val close_h : st -> n -> hrec -> st **)

let close_h s h r =
  let s1 = put_h h (with_closed r) s in
  if r.htx
  then let s2 = set_scount s1 (N.sub s1.scount (Npos XH)) in
       if N.eqb s1.scount (Npos XH) then notify_receiver s2 else s2
  else wake_all_senders (set_rdrop s1 true)

(** val do_close : st -> n -> st * res **)

let do_close s h =
  match aget h s.hs with
  | Some r -> if r.hclosed then (s, RCloseErr) else ((close_h s h r), ROk)
  | None -> (s, RBad)

(** val destroy : st -> st **)

let destroy s =
  dropv s.q (set_qdrp (set_q s []) (app s.q s.qdrp))

(** val do_drop_h : st -> n -> st * res **)

let do_drop_h s h =
  match aget h s.hs with
  | Some r ->
    if has_futs h s
    then (s, RBad)
    else let s0 =
           if (&&) ((&&) (negb r.htx) r.hasync) r.hreg
           then set_rw s None
           else s
         in
         let s1 = if r.hclosed then s0 else close_h s0 h r in
         let s2 = set_hs s1 (adel h s1.hs) in
         ((if is_nil s2.hs then destroy s2 else s2), ROk)
  | None -> (s, RBad)

(** val do_clone : st -> n -> n -> st * res **)

let do_clone s h h2 =
  match aget h s.hs with
  | Some r ->
    (match aget h2 s.hs with
     | Some _ -> (s, RBad)
     | None ->
       if r.htx
       then if (&&) s.fixcl r.hclosed
            then ((put_h h2 { htx = true; hasync = r.hasync; hclosed = true;
                    hreg = false; hpend = None } s), ROk)
            else ((put_h h2 { htx = true; hasync = r.hasync; hclosed = false;
                    hreg = false; hpend = None }
                    (set_scount s (N.add s.scount (Npos XH)))), ROk)
       else (s, RBad))
  | None -> (s, RBad)

(** val do_to_async : st -> n -> st * res **)

let do_to_async s h =
  match aget h s.hs with
  | Some r ->
    if (||) r.hasync (has_futs h s)
    then (s, RBad)
    else if r.htx
         then ((put_h h (with_async r true) s), ROk)
         else ((put_h h (with_async r true) (set_kk s s.cap)), ROk)
  | None -> (s, RBad)

(** val do_to_sync : st -> n -> st * res **)

let do_to_sync s h =
  match aget h s.hs with
  | Some r ->
    if (||) (negb r.hasync) (has_futs h s)
    then (s, RBad)
    else if r.htx
         then ((put_h h (with_async r false) s), ROk)
         else let s0 = if r.hreg then set_rw s None else s in
              ((put_h h (with_async r false)
                 (set_kk s0
                   (N.min s0.cap (Npos (XO (XO (XO (XO (XO (XO XH)))))))))),
              ROk)
  | None -> (s, RBad)

(** val obs : st -> n -> (hrec -> res) -> st * res **)

let obs s h f =
  match aget h s.hs with
  | Some r -> (s, (f r))
  | None -> (s, RBad)

(** val chan_len : st -> n **)

let chan_len s =
  N.min (len s.q) s.cap

(** val is_closed_h : st -> hrec -> bool **)

let is_closed_h s r =
  if r.htx
  then (||) r.hclosed s.rdrop
  else (||) r.hclosed ((&&) (N.eqb s.scount N0) (N.eqb (chan_len s) N0))

(** val do_mk_send : st -> n -> n -> n -> st * res **)

let do_mk_send s f h v =
  match aget h s.hs with
  | Some r ->
    (match aget f s.fs with
     | Some _ -> (s, RBad)
     | None ->
       if (&&) ((&&) r.htx r.hasync) (fresh (v :: []) s)
       then ((put_f f { fh = h; fk = (FSend (Some v)); fpend = None }
               (use (v :: []) s)), ROk)
       else (s, RBad))
  | None -> (s, RBad)

(** val do_mk_send_b : st -> n -> n -> n list -> st * res **)

let do_mk_send_b s f h vs =
  match aget h s.hs with
  | Some r ->
    (match aget f s.fs with
     | Some _ -> (s, RBad)
     | None ->
       if (&&) ((&&) r.htx r.hasync) (fresh vs s)
       then ((put_f f { fh = h; fk = (FSendB (vs, N0, (len vs))); fpend =
               None } (use vs s)), ROk)
       else (s, RBad))
  | None -> (s, RBad)

(** val do_mk_recv : st -> n -> n -> fkind -> st * res **)

let do_mk_recv s f h k =
  match aget h s.hs with
  | Some r ->
    (match aget f s.fs with
     | Some _ -> (s, RBad)
     | None ->
       if (&&) (negb r.htx) r.hasync
       then ((put_f f { fh = h; fk = k; fpend = None } (note_multi h r s)),
              ROk)
       else (s, RBad))
  | None -> (s, RBad)

(** val poll_recv_core : st -> owner -> n -> bool -> (st * bool) * res **)

let poll_recv_core s o w reg =
  let (s1, o0) = deq1 s in
  (match o0 with
   | Some v ->
     (((if reg then set_rw s1 None else s1), false), (RReady (RVal v)))
   | None ->
     let s2 = flush s1 in
     if N.eqb s2.scount N0
     then (((if reg then set_rw s2 None else s2), false), (RReady RDisc))
     else (((set_rw s2 (Some (o, w))), true), RPending))

(** val poll_recv_b_core :
    st -> owner -> n -> n -> bool -> (st * bool) * res **)

let poll_recv_b_core s o w max0 reg =
  let (s1, vs) = deqn (N.to_nat max0) s in
  if is_nil vs
  then let s2 = flush s1 in
       if N.eqb s2.scount N0
       then (((if reg then set_rw s2 None else s2), false), (RReady RDisc))
       else (((set_rw s2 (Some (o, w))), true), RPending)
  else (((flush (if reg then set_rw s1 None else s1)), false), (RReady (RVals
         vs)))

(** val pend_of : st -> n -> res -> (n * n) option **)

let pend_of s w = function
| RPending -> Some (w, (s.wk w))
| _ -> None

(** val do_poll : st -> n -> n -> st * res **)

let do_poll s f w =
  match aget f s.fs with
  | Some fr ->
    (match aget fr.fh s.hs with
     | Some r ->
       (match fr.fk with
        | FSend item ->
          if tx_dead s r
          then ((put_f f { fh = fr.fh; fk = (FSend item); fpend = None }
                  (unreg_send f (note_lost f fr s))), (RReady RClosed))
          else (match item with
                | Some v ->
                  if window_open s
                  then ((put_f f { fh = fr.fh; fk = (FSend None); fpend =
                          None } (push v (unreg_send f s))), (RReady ROk))
                  else let s1 =
                         set_sq s (app (unreg_send f s).sq ((f, w) :: []))
                       in
                       ((put_f f { fh = fr.fh; fk = (FSend item); fpend =
                          (Some (w, (s1.wk w))) } s1), RPending)
                | None -> (s, (RReady ROk)))
        | FRecv reg ->
          if r.hclosed
          then ((put_f f { fh = fr.fh; fk = (FRecv reg); fpend = None } s),
                 (RReady RDisc))
          else let (p, res0) = poll_recv_core s (OF f) w reg in
               let (s1, reg') = p in
               ((put_f f { fh = fr.fh; fk = (FRecv reg'); fpend =
                  (pend_of s1 w res0) } s1), res0)
        | FSendB (rest, sent, total) ->
          if N.eqb sent total
          then ((put_f f { fh = fr.fh; fk = (FSendB (rest, sent, total));
                  fpend = None } (unreg_send f (note_lost f fr s))), (RReady
                 (RBatchOk total)))
          else if tx_dead s r
               then ((put_f f { fh = fr.fh; fk = (FSendB ([], sent, total));
                       fpend = None }
                       (giveback rest (unreg_send f (note_lost f fr s)))),
                      (RReady (RBatchErr (sent, false, rest))))
               else let j = N.to_nat (N.min (len rest) (hot_slack s)) in
                    let s1 =
                      if is_nil (firstn j rest)
                      then s
                      else pushl (firstn j rest) (unreg_send f s)
                    in
                    let rest' = skipn j rest in
                    let sent' = N.add sent (N.of_nat j) in
                    if is_nil rest'
                    then ((put_f f { fh = fr.fh; fk = (FSendB ([], sent',
                            total)); fpend = None } (unreg_send f s1)),
                           (RReady (RBatchOk total)))
                    else let s2 =
                           set_sq s1 (app (unreg_send f s1).sq ((f, w) :: []))
                         in
                         ((put_f f { fh = fr.fh; fk = (FSendB (rest', sent',
                            total)); fpend = (Some (w, (s2.wk w))) } s2),
                         RPending)
        | FRecvB (max0, reg) ->
          if N.eqb max0 N0
          then ((put_f f { fh = fr.fh; fk = (FRecvB (max0, reg)); fpend =
                  None } s), (RReady (RVals [])))
          else if r.hclosed
               then ((put_f f { fh = fr.fh; fk = (FRecvB (max0, reg));
                       fpend = None } s), (RReady RDisc))
               else let (p, res0) = poll_recv_b_core s (OF f) w max0 reg in
                    let (s1, reg') = p in
                    ((put_f f { fh = fr.fh; fk = (FRecvB (max0, reg'));
                       fpend = (pend_of s1 w res0) } s1), res0))
     | None -> (s, RBad))
  | None -> (s, RBad)

(** val do_drop_f : st -> n -> st * res **)

let do_drop_f s f =
  match aget f s.fs with
  | Some fr ->
    let s1 =
      match fr.fk with
      | FRecv reg -> if reg then set_rw s None else s
      | FRecvB (_, reg) -> if reg then set_rw s None else s
      | _ -> dropv (kitems fr.fk) (unreg_send f (note_lost f fr s))
    in
    ((set_fs s1 (adel f s1.fs)), ROk)
  | None -> (s, RBad)

(** val do_poll_next : st -> n -> n -> st * res **)

let do_poll_next s h w =
  match aget h s.hs with
  | Some r ->
    if (||) ((||) r.htx (negb r.hasync)) (has_futs h s)
    then (s, RBad)
    else if r.hclosed
         then ((put_h h (with_reg r r.hreg None) s), (RReady RDisc))
         else let (p, res0) = poll_recv_core s (OH h) w r.hreg in
              let (s1, reg') = p in
              ((put_h h (with_reg r reg' (pend_of s1 w res0)) s1), res0)
  | None -> (s, RBad)

(** val exec : st -> op -> st * res **)

let exec s = function
| TrySend (h, v) -> do_try_send s h v
| Send (h, v) -> do_send s h v
| TryRecv h -> do_try_recv s h
| Recv h -> do_recv s h
| RecvT0 h -> do_recv_t0 s h
| Close h -> do_close s h
| DropH h -> do_drop_h s h
| Clone (h, h2) -> do_clone s h h2
| ToSync h -> do_to_sync s h
| ToAsync h -> do_to_async s h
| Len h -> obs s h (fun _ -> RNum (chan_len s))
| IsEmpty h -> obs s h (fun _ -> RBool (N.eqb (chan_len s) N0))
| IsFull h -> obs s h (fun _ -> RBool (N.leb s.cap (chan_len s)))
| Cap h -> obs s h (fun _ -> RNum s.cap)
| IsClosed h -> obs s h (fun r -> RBool (is_closed_h s r))
| MkSend (f, h, v) -> do_mk_send s f h v
| MkRecv (f, h) -> do_mk_recv s f h (FRecv false)
| Poll (f, w) -> do_poll s f w
| DropF f -> do_drop_f s f
| PollNext (h, w) -> do_poll_next s h w
| TrySendB (h, vs, ip) -> do_try_send_b s h vs ip
| SendB (h, vs, ip) -> do_send_b s h vs ip
| TryRecvB (h, max0) -> do_try_recv_b s h max0
| RecvB (h, max0) -> do_recv_b s h max0
| MkSendB (f, h, vs) -> do_mk_send_b s f h vs
| MkRecvB (f, h, max0) -> do_mk_recv s f h (FRecvB (max0, false))

type out = (res * n list) * n list

(** val step : st -> op -> st * out **)

let step s o =
  let (s1, r) = exec (set_evd (set_evw s []) []) o in
  (s1, ((r, s1.evw), s1.evd))
