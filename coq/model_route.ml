
(** val negb : bool -> bool **)

let negb = function
| true -> false
| false -> true

type nat =
| O
| S of nat

(** val fst : ('a1 * 'a2) -> 'a1 **)

let fst = function
| (x, _) -> x

(** val snd : ('a1 * 'a2) -> 'a2 **)

let snd = function
| (_, y) -> y

(** val length : 'a1 list -> nat **)

let rec length = function
| [] -> O
| _ :: l' -> S (length l')

(** val app : 'a1 list -> 'a1 list -> 'a1 list **)

let rec app l m =
  match l with
  | [] -> m
  | a :: l1 -> a :: (app l1 m)

module Nat =
 struct
  (** val leb : nat -> nat -> bool **)

  let rec leb n0 m =
    match n0 with
    | O -> true
    | S n' -> (match m with
               | O -> false
               | S m' -> leb n' m')

  (** val ltb : nat -> nat -> bool **)

  let ltb n0 m =
    leb (S n0) m
 end

(** val map : ('a1 -> 'a2) -> 'a1 list -> 'a2 list **)

let rec map f = function
| [] -> []
| a :: t -> (f a) :: (map f t)

(** val flat_map : ('a1 -> 'a2 list) -> 'a1 list -> 'a2 list **)

let rec flat_map f = function
| [] -> []
| x :: t -> app (f x) (flat_map f t)

(** val fold_right : ('a2 -> 'a1 -> 'a1) -> 'a1 -> 'a2 list -> 'a1 **)

let rec fold_right f a0 = function
| [] -> a0
| b :: t -> f b (fold_right f a0 t)

(** val existsb : ('a1 -> bool) -> 'a1 list -> bool **)

let rec existsb f = function
| [] -> false
| a :: l0 -> (||) (f a) (existsb f l0)

(** val forallb : ('a1 -> bool) -> 'a1 list -> bool **)

let rec forallb f = function
| [] -> true
| a :: l0 -> (&&) (f a) (forallb f l0)

(** val filter : ('a1 -> bool) -> 'a1 list -> 'a1 list **)

let rec filter f = function
| [] -> []
| x :: l0 -> if f x then x :: (filter f l0) else filter f l0

(** val find : ('a1 -> bool) -> 'a1 list -> 'a1 option **)

let rec find f = function
| [] -> None
| x :: tl -> if f x then Some x else find f tl

(** val combine : 'a1 list -> 'a2 list -> ('a1 * 'a2) list **)

let rec combine l l' =
  match l with
  | [] -> []
  | x :: tl ->
    (match l' with
     | [] -> []
     | y :: tl' -> (x, y) :: (combine tl tl'))

type positive =
| XI of positive
| XO of positive
| XH

type n =
| N0
| Npos of positive

module Pos =
 struct
  (** val eqb : positive -> positive -> bool **)

  let rec eqb p q =
    match p with
    | XI p0 -> (match q with
                | XI q0 -> eqb p0 q0
                | _ -> false)
    | XO p0 -> (match q with
                | XO q0 -> eqb p0 q0
                | _ -> false)
    | XH -> (match q with
             | XH -> true
             | _ -> false)
 end

module N =
 struct
  (** val eqb : n -> n -> bool **)

  let eqb n0 m =
    match n0 with
    | N0 -> (match m with
             | N0 -> true
             | Npos _ -> false)
    | Npos p -> (match m with
                 | N0 -> false
                 | Npos q -> Pos.eqb p q)
 end

(** val mem : n -> n list -> bool **)

let mem k l =
  existsb (N.eqb k) l

type level =
| ERROR
| WARN
| INFO
| DEBUG
| TRACE

type lfilter =
| OFF
| UPTO of level

(** val rank : level -> nat **)

let rank = function
| ERROR -> S O
| WARN -> S (S O)
| INFO -> S (S (S O))
| DEBUG -> S (S (S (S O)))
| TRACE -> S (S (S (S (S O))))

(** val frank : lfilter -> nat **)

let frank = function
| OFF -> O
| UPTO l -> rank l

(** val admits : lfilter -> level -> bool **)

let admits f l =
  Nat.leb (rank l) (frank f)

(** val fmax : lfilter -> lfilter -> lfilter **)

let fmax a b =
  if Nat.leb (frank a) (frank b) then b else a

type name = n list

(** val sep : name **)

let sep =
  (Npos (XO (XI (XO (XI (XI XH)))))) :: ((Npos (XO (XI (XO (XI (XI
    XH)))))) :: [])

(** val root_name : name **)

let root_name =
  (Npos (XO (XI (XO (XO (XI (XI XH))))))) :: ((Npos (XI (XI (XI (XI (XO (XI
    XH))))))) :: ((Npos (XI (XI (XI (XI (XO (XI XH))))))) :: ((Npos (XO (XO
    (XI (XO (XI (XI XH))))))) :: [])))

(** val name_eqb : name -> name -> bool **)

let rec name_eqb a b =
  match a with
  | [] -> (match b with
           | [] -> true
           | _ :: _ -> false)
  | x :: a' ->
    (match b with
     | [] -> false
     | y :: b' -> (&&) (N.eqb x y) (name_eqb a' b'))

(** val strip_prefix : name -> name -> name option **)

let rec strip_prefix p t =
  match p with
  | [] -> Some t
  | a :: p' ->
    (match t with
     | [] -> None
     | b :: t' -> if N.eqb a b then strip_prefix p' t' else None)

(** val starts_with_sep : name -> bool **)

let starts_with_sep = function
| [] -> false
| a :: l ->
  (match l with
   | [] -> false
   | b :: _ ->
     (&&) (N.eqb a (Npos (XO (XI (XO (XI (XI XH)))))))
       (N.eqb b (Npos (XO (XI (XO (XI (XI XH))))))))

(** val target_matches_prefix : name -> name -> bool **)

let target_matches_prefix target prefix =
  match strip_prefix prefix target with
  | Some rest -> (match rest with
                  | [] -> true
                  | _ :: _ -> starts_with_sep rest)
  | None -> false

type logger = { lname : name; llevel : lfilter; ladd : bool; lapps : n list }

type config = { cappenders : n list; cloggers : logger list }

(** val is_root : logger -> bool **)

let is_root l =
  name_eqb l.lname root_name

(** val find_root : logger list -> logger option **)

let find_root ls =
  find is_root ls

(** val nodup_names : name list -> bool **)

let rec nodup_names = function
| [] -> true
| x :: t -> (&&) (negb (existsb (name_eqb x) t)) (nodup_names t)

(** val wf_cfg : config -> bool **)

let wf_cfg c =
  (&&) (nodup_names (map (fun l -> l.lname) c.cloggers))
    (forallb (fun l -> forallb (fun a -> mem a c.cappenders) l.lapps)
      c.cloggers)

type rule = { rprefix : name; rlevel : lfilter; radd : bool }

type pfilter = { frules : rule list; fdefault : lfilter }

(** val rule_of : logger -> rule **)

let rule_of l =
  { rprefix = l.lname; rlevel = l.llevel; radd = l.ladd }

(** val build_filter : n -> logger list -> pfilter **)

let build_filter a ls =
  { frules =
    (map rule_of
      (filter (fun l -> (&&) (negb (is_root l)) (mem a l.lapps)) ls));
    fdefault =
    (match find_root ls with
     | Some r -> if mem a r.lapps then r.llevel else OFF
     | None -> OFF) }

(** val max_by_key_from : ('a1 -> nat) -> 'a1 -> 'a1 list -> 'a1 **)

let rec max_by_key_from key best = function
| [] -> best
| x :: t ->
  if Nat.leb (key best) (key x)
  then max_by_key_from key x t
  else max_by_key_from key best t

(** val max_by_key : ('a1 -> nat) -> 'a1 list -> 'a1 option **)

let max_by_key key = function
| [] -> None
| x :: t -> Some (max_by_key_from key x t)

(** val longest_from : ('a1 -> nat) -> 'a1 -> 'a1 list -> 'a1 **)

let rec longest_from key best = function
| [] -> best
| x :: t ->
  if Nat.ltb (key best) (key x)
  then longest_from key x t
  else longest_from key best t

(** val longest : ('a1 -> nat) -> 'a1 list -> 'a1 option **)

let longest key = function
| [] -> None
| x :: t -> Some (longest_from key x t)

(** val rule_len : rule -> nat **)

let rule_len r =
  length r.rprefix

(** val find_most_specific_rule : pfilter -> name -> rule option **)

let find_most_specific_rule f target =
  max_by_key rule_len
    (filter (fun r -> target_matches_prefix target r.rprefix) f.frules)

(** val filter_enabled : pfilter -> name -> level -> bool **)

let filter_enabled f target lv =
  match find_most_specific_rule f target with
  | Some r -> admits r.rlevel lv
  | None -> admits f.fdefault lv

(** val filter_max_level : pfilter -> lfilter **)

let filter_max_level f =
  fold_right fmax f.fdefault (map (fun r -> r.rlevel) f.frules)

(** val actors : config -> (n * pfilter) list **)

let actors c =
  map (fun a -> (a, (build_filter a c.cloggers))) c.cappenders

(** val proc_max_level : config -> lfilter **)

let proc_max_level c =
  fold_right fmax OFF (map (fun af -> filter_max_level (snd af)) (actors c))

(** val event_enabled : config -> name -> level -> bool **)

let event_enabled c target lv =
  existsb (fun af -> filter_enabled (snd af) target lv) (actors c)

(** val winner_from :
    (name * bool) option -> rule option list -> (name * bool) option **)

let rec winner_from w = function
| [] -> w
| o :: t ->
  (match o with
   | Some r ->
     (match w with
      | Some p ->
        let (wp, _) = p in
        if Nat.ltb (length wp) (length r.rprefix)
        then winner_from (Some (r.rprefix, r.radd)) t
        else winner_from w t
      | None -> winner_from (Some (r.rprefix, r.radd)) t)
   | None -> winner_from w t)

(** val gate_of : (name * bool) option -> name option **)

let gate_of = function
| Some p0 -> let (p, b) = p0 in if b then None else Some p
| None -> None

(** val actor_receives :
    name option -> pfilter -> rule option -> level -> bool **)

let actor_receives gate f r lv =
  (&&)
    (match gate with
     | Some gp ->
       (match r with
        | Some r' -> name_eqb r'.rprefix gp
        | None -> false)
     | None -> true)
    (match r with
     | Some r' -> admits r'.rlevel lv
     | None -> admits f.fdefault lv)

(** val process_event : config -> name -> level -> n list **)

let process_event c target lv =
  let acts = actors c in
  let rules = map (fun af -> find_most_specific_rule (snd af) target) acts in
  let gate = gate_of (winner_from None rules) in
  map (fun x -> fst (fst x))
    (filter (fun x -> actor_receives gate (snd (fst x)) (snd x) lv)
      (combine acts rules))

type via =
| ViaLog
| ViaTracing

(** val emit : config -> via -> name -> level -> n list **)

let emit c v target lv =
  match v with
  | ViaLog ->
    if admits (proc_max_level c) lv then process_event c target lv else []
  | ViaTracing ->
    if (&&) (admits (proc_max_level c) lv) (event_enabled c target lv)
    then process_event c target lv
    else []

(** val model_delivers : config -> via -> name -> level -> n -> bool **)

let model_delivers c v target lv a =
  mem a (emit c v target lv)

(** val is_prefix : name -> name -> bool **)

let rec is_prefix p t =
  match p with
  | [] -> true
  | a :: p' ->
    (match t with
     | [] -> false
     | b :: t' -> (&&) (N.eqb a b) (is_prefix p' t'))

(** val module_prefix : name -> name -> bool **)

let module_prefix p t =
  (||) (name_eqb t p) (is_prefix (app p sep) t)

(** val logger_len : logger -> nat **)

let logger_len l =
  length l.lname

(** val named_matching : config -> name -> logger list **)

let named_matching c t =
  filter (fun l -> (&&) (negb (is_root l)) (module_prefix l.lname t))
    c.cloggers

(** val spec_logger_for : config -> name -> n -> logger option **)

let spec_logger_for c t a =
  match longest logger_len
          (filter (fun l -> mem a l.lapps) (named_matching c t)) with
  | Some l -> Some l
  | None ->
    (match find_root c.cloggers with
     | Some r -> if mem a r.lapps then Some r else None
     | None -> None)

(** val spec_overall : config -> name -> logger option **)

let spec_overall c t =
  match longest logger_len (named_matching c t) with
  | Some l -> Some l
  | None -> find_root c.cloggers

(** val spec_delivers : config -> name -> level -> n -> bool **)

let spec_delivers c t lv a =
  (&&)
    (match spec_logger_for c t a with
     | Some l -> admits l.llevel lv
     | None -> false)
    (match spec_overall c t with
     | Some w -> (||) w.ladd (mem a w.lapps)
     | None -> true)

(** val nonempty : 'a1 list -> bool **)

let nonempty = function
| [] -> false
| _ :: _ -> true

(** val winner_wired : config -> name -> bool **)

let winner_wired c t =
  match longest logger_len (named_matching c t) with
  | Some w -> nonempty w.lapps
  | None -> true

(** val all_wired : config -> bool **)

let all_wired c =
  forallb (fun l -> (||) (is_root l) (nonempty l.lapps)) c.cloggers

type event = ((n * n) * name) * level

(** val deliveries_of : config -> n -> event list -> ((n * n) * via) list **)

let deliveries_of c a evs =
  flat_map (fun e ->
    let (y, lv) = e in
    let (y0, t) = y in
    app (if model_delivers c ViaLog t lv a then (y0, ViaLog) :: [] else [])
      (if model_delivers c ViaTracing t lv a
       then (y0, ViaTracing) :: []
       else [])) evs
