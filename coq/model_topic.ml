
(** val negb : bool -> bool **)

let negb = function
| true -> false
| false -> true

type nat =
| O
| S of nat

(** val fst : ('a1 * 'a2) -> 'a1 **)

let fst = function
| (x, _) -> x

(** val snd : ('a1 * 'a2) -> 'a2 **)

let snd = function
| (_, y) -> y

(** val length : 'a1 list -> nat **)

let rec length = function
| [] -> O
| _ :: l' -> S (length l')

(** val app : 'a1 list -> 'a1 list -> 'a1 list **)

let rec app l m =
  match l with
  | [] -> m
  | a :: l1 -> a :: (app l1 m)

type comparison =
| Eq
| Lt
| Gt

(** val map : ('a1 -> 'a2) -> 'a1 list -> 'a2 list **)

let rec map f = function
| [] -> []
| a :: t -> (f a) :: (map f t)

(** val fold_left : ('a1 -> 'a2 -> 'a1) -> 'a2 list -> 'a1 -> 'a1 **)

let rec fold_left f l a0 =
  match l with
  | [] -> a0
  | b :: t -> fold_left f t (f a0 b)

(** val existsb : ('a1 -> bool) -> 'a1 list -> bool **)

let rec existsb f = function
| [] -> false
| a :: l0 -> (||) (f a) (existsb f l0)

(** val filter : ('a1 -> bool) -> 'a1 list -> 'a1 list **)

let rec filter f = function
| [] -> []
| x :: l0 -> if f x then x :: (filter f l0) else filter f l0

(** val find : ('a1 -> bool) -> 'a1 list -> 'a1 option **)

let rec find f = function
| [] -> None
| x :: tl -> if f x then Some x else find f tl

type positive =
| XI of positive
| XO of positive
| XH

type n =
| N0
| Npos of positive

type z =
| Z0
| Zpos of positive
| Zneg of positive

module Pos =
 struct
  (** val succ : positive -> positive **)

  let rec succ = function
  | XI p -> XO (succ p)
  | XO p -> XI p
  | XH -> XO XH

  (** val add : positive -> positive -> positive **)

  let rec add x y =
    match x with
    | XI p ->
      (match y with
       | XI q -> XO (add_carry p q)
       | XO q -> XI (add p q)
       | XH -> XO (succ p))
    | XO p ->
      (match y with
       | XI q -> XI (add p q)
       | XO q -> XO (add p q)
       | XH -> XI p)
    | XH -> (match y with
             | XI q -> XO (succ q)
             | XO q -> XI q
             | XH -> XO XH)

  (** val add_carry : positive -> positive -> positive **)

  and add_carry x y =
    match x with
    | XI p ->
      (match y with
       | XI q -> XI (add_carry p q)
       | XO q -> XO (add_carry p q)
       | XH -> XI (succ p))
    | XO p ->
      (match y with
       | XI q -> XO (add_carry p q)
       | XO q -> XI (add p q)
       | XH -> XO (succ p))
    | XH ->
      (match y with
       | XI q -> XI (succ q)
       | XO q -> XO (succ q)
       | XH -> XI XH)

  (** val pred_double : positive -> positive **)

  let rec pred_double = function
  | XI p -> XI (XO p)
  | XO p -> XI (pred_double p)
  | XH -> XH

  (** val compare_cont : comparison -> positive -> positive -> comparison **)

  let rec compare_cont r x y =
    match x with
    | XI p ->
      (match y with
       | XI q -> compare_cont r p q
       | XO q -> compare_cont Gt p q
       | XH -> Gt)
    | XO p ->
      (match y with
       | XI q -> compare_cont Lt p q
       | XO q -> compare_cont r p q
       | XH -> Gt)
    | XH -> (match y with
             | XH -> r
             | _ -> Lt)

  (** val compare : positive -> positive -> comparison **)

  let compare =
    compare_cont Eq

  (** val eqb : positive -> positive -> bool **)

  let rec eqb p q =
    match p with
    | XI p0 -> (match q with
                | XI q0 -> eqb p0 q0
                | _ -> false)
    | XO p0 -> (match q with
                | XO q0 -> eqb p0 q0
                | _ -> false)
    | XH -> (match q with
             | XH -> true
             | _ -> false)

  (** val of_succ_nat : nat -> positive **)

  let rec of_succ_nat = function
  | O -> XH
  | S x -> succ (of_succ_nat x)
 end

module N =
 struct
  (** val add : n -> n -> n **)

  let add n0 m =
    match n0 with
    | N0 -> m
    | Npos p -> (match m with
                 | N0 -> n0
                 | Npos q -> Npos (Pos.add p q))

  (** val compare : n -> n -> comparison **)

  let compare n0 m =
    match n0 with
    | N0 -> (match m with
             | N0 -> Eq
             | Npos _ -> Lt)
    | Npos n' -> (match m with
                  | N0 -> Gt
                  | Npos m' -> Pos.compare n' m')

  (** val eqb : n -> n -> bool **)

  let eqb n0 m =
    match n0 with
    | N0 -> (match m with
             | N0 -> true
             | Npos _ -> false)
    | Npos p -> (match m with
                 | N0 -> false
                 | Npos q -> Pos.eqb p q)

  (** val leb : n -> n -> bool **)

  let leb x y =
    match compare x y with
    | Gt -> false
    | _ -> true

  (** val of_nat : nat -> n **)

  let of_nat = function
  | O -> N0
  | S n' -> Npos (Pos.of_succ_nat n')
 end

module Z =
 struct
  (** val double : z -> z **)

  let double = function
  | Z0 -> Z0
  | Zpos p -> Zpos (XO p)
  | Zneg p -> Zneg (XO p)

  (** val succ_double : z -> z **)

  let succ_double = function
  | Z0 -> Zpos XH
  | Zpos p -> Zpos (XI p)
  | Zneg p -> Zneg (Pos.pred_double p)

  (** val pred_double : z -> z **)

  let pred_double = function
  | Z0 -> Zneg XH
  | Zpos p -> Zpos (Pos.pred_double p)
  | Zneg p -> Zneg (XI p)

  (** val pos_sub : positive -> positive -> z **)

  let rec pos_sub x y =
    match x with
    | XI p ->
      (match y with
       | XI q -> double (pos_sub p q)
       | XO q -> succ_double (pos_sub p q)
       | XH -> Zpos (XO p))
    | XO p ->
      (match y with
       | XI q -> pred_double (pos_sub p q)
       | XO q -> double (pos_sub p q)
       | XH -> Zpos (Pos.pred_double p))
    | XH ->
      (match y with
       | XI q -> Zneg (XO q)
       | XO q -> Zneg (Pos.pred_double q)
       | XH -> Z0)

  (** val add : z -> z -> z **)

  let add x y =
    match x with
    | Z0 -> y
    | Zpos x' ->
      (match y with
       | Z0 -> x
       | Zpos y' -> Zpos (Pos.add x' y')
       | Zneg y' -> pos_sub x' y')
    | Zneg x' ->
      (match y with
       | Z0 -> x
       | Zpos y' -> pos_sub y' x'
       | Zneg y' -> Zneg (Pos.add x' y'))

  (** val opp : z -> z **)

  let opp = function
  | Z0 -> Z0
  | Zpos x0 -> Zneg x0
  | Zneg x0 -> Zpos x0

  (** val sub : z -> z -> z **)

  let sub m n0 =
    add m (opp n0)

  (** val eqb : z -> z -> bool **)

  let eqb x y =
    match x with
    | Z0 -> (match y with
             | Z0 -> true
             | _ -> false)
    | Zpos p -> (match y with
                 | Zpos q -> Pos.eqb p q
                 | _ -> false)
    | Zneg p -> (match y with
                 | Zneg q -> Pos.eqb p q
                 | _ -> false)
 end

(** val mem : n -> n list -> bool **)

let mem k l =
  existsb (N.eqb k) l

type cfg = { fix04 : bool; fix05 : bool; fix07 : bool; fix14 : bool }

type msg = n * n

type mbox = { m_buf : msg list; m_cap : n; m_waiter : n option;
              m_disc : bool; m_dropped : n }

(** val opt_list : n option -> n list **)

let opt_list = function
| Some w -> w :: []
| None -> []

(** val mb_deliver : mbox -> msg -> mbox * n list **)

let mb_deliver m x =
  if N.leb m.m_cap (N.of_nat (length m.m_buf))
  then ({ m_buf = m.m_buf; m_cap = m.m_cap; m_waiter = m.m_waiter; m_disc =
         m.m_disc; m_dropped = (N.add m.m_dropped (Npos XH)) }, [])
  else ({ m_buf = (app m.m_buf (x :: [])); m_cap = m.m_cap; m_waiter = None;
         m_disc = m.m_disc; m_dropped = m.m_dropped }, (opt_list m.m_waiter))

(** val mb_disconnect : mbox -> mbox * n list **)

let mb_disconnect m =
  if m.m_disc
  then (m, [])
  else ({ m_buf = m.m_buf; m_cap = m.m_cap; m_waiter = None; m_disc = true;
         m_dropped = m.m_dropped }, (opt_list m.m_waiter))

(** val mb_set_buf : mbox -> msg list -> mbox **)

let mb_set_buf m b =
  { m_buf = b; m_cap = m.m_cap; m_waiter = m.m_waiter; m_disc = m.m_disc;
    m_dropped = m.m_dropped }

(** val mb_set_waiter : mbox -> n option -> mbox **)

let mb_set_waiter m w =
  { m_buf = m.m_buf; m_cap = m.m_cap; m_waiter = w; m_disc = m.m_disc;
    m_dropped = m.m_dropped }

(** val mb_new : n -> bool -> mbox **)

let mb_new cap disc =
  { m_buf = []; m_cap = cap; m_waiter = None; m_disc = disc; m_dropped = N0 }

type txh = { t_id : n; t_live : bool; t_async : bool; t_closed : bool }

type rxh = { r_id : n; r_live : bool; r_async : bool; r_closed : bool;
             r_subs : n list; r_mb : mbox }

(** val rx_set_mb : rxh -> mbox -> rxh **)

let rx_set_mb x m =
  { r_id = x.r_id; r_live = x.r_live; r_async = x.r_async; r_closed =
    x.r_closed; r_subs = x.r_subs; r_mb = m }

(** val rx_set_subs : rxh -> n list -> rxh **)

let rx_set_subs x s =
  { r_id = x.r_id; r_live = x.r_live; r_async = x.r_async; r_closed =
    x.r_closed; r_subs = s; r_mb = x.r_mb }

(** val rx_set_closed : rxh -> bool -> rxh **)

let rx_set_closed x c =
  { r_id = x.r_id; r_live = x.r_live; r_async = x.r_async; r_closed = c;
    r_subs = x.r_subs; r_mb = x.r_mb }

(** val rx_set_live : rxh -> bool -> rxh **)

let rx_set_live x l =
  { r_id = x.r_id; r_live = l; r_async = x.r_async; r_closed = x.r_closed;
    r_subs = x.r_subs; r_mb = x.r_mb }

(** val rx_set_kind : rxh -> bool -> bool -> rxh **)

let rx_set_kind x a c =
  { r_id = x.r_id; r_live = x.r_live; r_async = a; r_closed = c; r_subs =
    x.r_subs; r_mb = x.r_mb }

(** val tx_set : txh -> bool -> bool -> bool -> txh **)

let tx_set x l a c =
  { t_id = x.t_id; t_live = l; t_async = a; t_closed = c }

type state = { txs : txh list; rxs : rxh list; lists : (n * n list) list;
               rcount : z; scount : z; futs : (n * n) list }

(** val st_set_rxs : state -> rxh list -> state **)

let st_set_rxs s r =
  { txs = s.txs; rxs = r; lists = s.lists; rcount = s.rcount; scount =
    s.scount; futs = s.futs }

(** val st_set_txs : state -> txh list -> state **)

let st_set_txs s t =
  { txs = t; rxs = s.rxs; lists = s.lists; rcount = s.rcount; scount =
    s.scount; futs = s.futs }

(** val st_set_lists : state -> (n * n list) list -> state **)

let st_set_lists s l =
  { txs = s.txs; rxs = s.rxs; lists = l; rcount = s.rcount; scount =
    s.scount; futs = s.futs }

(** val st_set_rcount : state -> z -> state **)

let st_set_rcount s c =
  { txs = s.txs; rxs = s.rxs; lists = s.lists; rcount = c; scount = s.scount;
    futs = s.futs }

(** val st_set_scount : state -> z -> state **)

let st_set_scount s c =
  { txs = s.txs; rxs = s.rxs; lists = s.lists; rcount = s.rcount; scount = c;
    futs = s.futs }

(** val st_set_futs : state -> (n * n) list -> state **)

let st_set_futs s f =
  { txs = s.txs; rxs = s.rxs; lists = s.lists; rcount = s.rcount; scount =
    s.scount; futs = f }

(** val find_rx : n -> rxh list -> rxh option **)

let find_rx r rs =
  find (fun x -> N.eqb x.r_id r) rs

(** val upd_rx : n -> (rxh -> rxh) -> rxh list -> rxh list **)

let upd_rx r f rs =
  map (fun x -> if N.eqb x.r_id r then f x else x) rs

(** val find_tx : n -> txh list -> txh option **)

let find_tx s ts =
  find (fun x -> N.eqb x.t_id s) ts

(** val upd_tx : n -> (txh -> txh) -> txh list -> txh list **)

let upd_tx s f ts =
  map (fun x -> if N.eqb x.t_id s then f x else x) ts

(** val get_list : n -> (n * n list) list -> n list option **)

let rec get_list t = function
| [] -> None
| p :: rest ->
  let (t', l) = p in if N.eqb t' t then Some l else get_list t rest

(** val set_list : n -> n list -> (n * n list) list -> (n * n list) list **)

let rec set_list t l = function
| [] -> (t, l) :: []
| p :: rest ->
  let (t', l') = p in
  if N.eqb t' t then (t', l) :: rest else (t', l') :: (set_list t l rest)

(** val rx_alive : n -> rxh list -> bool **)

let rx_alive m rs =
  match find_rx m rs with
  | Some x -> x.r_live
  | None -> false

(** val disp_alive : state -> bool **)

let disp_alive s =
  existsb (fun t -> t.t_live) s.txs

(** val rx_busy : n -> state -> bool **)

let rx_busy r s =
  existsb (fun p -> N.eqb (snd p) r) s.futs

(** val subscribe_core : n -> n -> state -> state **)

let subscribe_core r t s =
  match find_rx r s.rxs with
  | Some x ->
    if mem t x.r_subs
    then s
    else let rs' =
           upd_rx r (fun y -> rx_set_subs y (app y.r_subs (t :: []))) s.rxs
         in
         if disp_alive s
         then let l = match get_list t s.lists with
                      | Some l -> l
                      | None -> []
              in
              let l1 = filter (fun m -> rx_alive m s.rxs) l in
              let l2 = if mem r l1 then l1 else app l1 (r :: []) in
              st_set_lists (st_set_rxs s rs') (set_list t l2 s.lists)
         else st_set_rxs s rs'
  | None -> s

(** val unsubscribe_core : n -> n -> state -> state **)

let unsubscribe_core r t s =
  match find_rx r s.rxs with
  | Some x ->
    if mem t x.r_subs
    then let rs' =
           upd_rx r (fun y ->
             rx_set_subs y (filter (fun u -> negb (N.eqb u t)) y.r_subs))
             s.rxs
         in
         if disp_alive s
         then (match get_list t s.lists with
               | Some l ->
                 let l' =
                   filter (fun m ->
                     (&&) (rx_alive m s.rxs) (negb (N.eqb m r))) l
                 in
                 st_set_lists (st_set_rxs s rs') (set_list t l' s.lists)
               | None -> st_set_rxs s rs')
         else st_set_rxs s rs'
    else s
  | None -> s

(** val rx_close_internal : cfg -> n -> state -> state **)

let rx_close_internal c r s =
  if disp_alive s
  then (match find_rx r s.rxs with
        | Some x ->
          let s1 =
            if c.fix14
            then fold_left (fun a t -> unsubscribe_core r t a) x.r_subs s
            else st_set_rxs s (upd_rx r (fun y -> rx_set_subs y []) s.rxs)
          in
          st_set_rcount s1 (Z.sub s1.rcount (Zpos XH))
        | None -> s)
  else s

(** val in_lists : n -> (n * n list) list -> bool **)

let in_lists m ls =
  existsb (fun p -> mem m (snd p)) ls

(** val map_wakes : (rxh -> rxh * n list) -> rxh list -> rxh list * n list **)

let rec map_wakes f = function
| [] -> ([], [])
| x :: rest ->
  let (x', w) = f x in
  let (rest', w') = map_wakes f rest in ((x' :: rest'), (app w w'))

(** val disconnect_all : cfg -> state -> state * n list **)

let disconnect_all c s =
  let (rs', w) =
    map_wakes (fun x ->
      if (&&) x.r_live ((||) c.fix05 (in_lists x.r_id s.lists))
      then let (m', w) = mb_disconnect x.r_mb in ((rx_set_mb x m'), w)
      else (x, [])) s.rxs
  in
  ((st_set_rxs s rs'), w)

(** val tx_close_internal : cfg -> state -> state * n list **)

let tx_close_internal c s =
  if c.fix04
  then let s1 = st_set_scount s (Z.sub s.scount (Zpos XH)) in
       if Z.eqb s.scount (Zpos XH) then disconnect_all c s1 else (s1, [])
  else disconnect_all c s

(** val deliver_one : n -> msg -> rxh list -> rxh list * n list **)

let deliver_one m x rs =
  match find_rx m rs with
  | Some y ->
    if y.r_live
    then let (mb', w) = mb_deliver y.r_mb x in
         ((upd_rx m (fun z0 -> rx_set_mb z0 mb') rs), w)
    else (rs, [])
  | None -> (rs, [])

(** val deliver_list : n list -> msg -> rxh list -> rxh list * n list **)

let rec deliver_list l x rs =
  match l with
  | [] -> (rs, [])
  | m :: l' ->
    let (rs1, w1) = deliver_one m x rs in
    let (rs2, w2) = deliver_list l' x rs1 in (rs2, (app w1 w2))

type op =
| Publish of n * n * n
| CloneS of n * n
| CloseS of n
| DropS of n
| ConvS of n
| IsClosedS of n
| Subscribe of n * n
| Unsubscribe of n * n
| CloneR of n * n
| CloseR of n
| DropR of n
| ConvR of n
| TryRecv of n
| RecvTimeout0 of n
| MkRecv of n * n
| Poll of n * n
| DropF of n
| PollNext of n * n
| IsClosedR of n
| IsEmptyR of n
| CapR of n

type res =
| RNoHandle
| RBadId
| RNoApi
| RBusy
| ROk
| RClosed
| RCloseErr
| RBool of bool
| RNum of n
| RVal of n * n
| REmpty
| RTimeout
| RPending
| RDisc

type out = res * n list

(** val mb_pop : mbox -> (msg * mbox) option **)

let mb_pop m =
  match m.m_buf with
  | [] -> None
  | x :: b -> Some (x, (mb_set_buf m b))

(** val recv_core : n -> rxh -> res -> n option -> state -> state * out **)

let recv_core r x none reg s =
  match mb_pop x.r_mb with
  | Some p ->
    let (m, m') = p in
    let (t, v) = m in
    ((st_set_rxs s (upd_rx r (fun y -> rx_set_mb y m') s.rxs)), ((RVal (t,
    v)), []))
  | None ->
    if x.r_mb.m_disc
    then (s, (RDisc, []))
    else (match reg with
          | Some w ->
            ((st_set_rxs s
               (upd_rx r (fun y ->
                 rx_set_mb y (mb_set_waiter y.r_mb (Some w))) s.rxs)), (none,
              []))
          | None -> (s, (none, [])))

(** val live_rx : n -> state -> rxh option **)

let live_rx r s =
  match find_rx r s.rxs with
  | Some x -> if x.r_live then Some x else None
  | None -> None

(** val live_tx : n -> state -> txh option **)

let live_tx t s =
  match find_tx t s.txs with
  | Some x -> if x.t_live then Some x else None
  | None -> None

(** val new_rx : n -> bool -> bool -> n -> bool -> rxh **)

let new_rx id async closed cap disc =
  { r_id = id; r_live = true; r_async = async; r_closed = closed; r_subs =
    []; r_mb = (mb_new cap disc) }

(** val step : cfg -> state -> op -> state * out **)

let step c s = function
| Publish (h, t, v) ->
  (match live_tx h s with
   | Some x ->
     if (||) x.t_closed (Z.eqb s.rcount Z0)
     then (s, (RClosed, []))
     else (match get_list t s.lists with
           | Some l ->
             let (rs', w) = deliver_list l (t, v) s.rxs in
             ((st_set_rxs s rs'), (ROk, w))
           | None -> (s, (ROk, [])))
   | None -> (s, (RNoHandle, [])))
| CloneS (h, h') ->
  (match live_tx h s with
   | Some x ->
     (match find_tx h' s.txs with
      | Some _ -> (s, (RBadId, []))
      | None ->
        if x.t_async
        then (s, (RNoApi, []))
        else let cl = (&&) c.fix04 x.t_closed in
             let s1 =
               st_set_txs s
                 (app s.txs ({ t_id = h'; t_live = true; t_async = false;
                   t_closed = cl } :: []))
             in
             let s2 =
               if (&&) c.fix04 (negb cl)
               then st_set_scount s1 (Z.add s1.scount (Zpos XH))
               else s1
             in
             (s2, (ROk, [])))
   | None -> (s, (RNoHandle, [])))
| CloseS h ->
  (match live_tx h s with
   | Some x ->
     if x.t_closed
     then (s, (RCloseErr, []))
     else let s1 =
            st_set_txs s
              (upd_tx h (fun y -> tx_set y y.t_live y.t_async true) s.txs)
          in
          let (s2, w) = tx_close_internal c s1 in (s2, (ROk, w))
   | None -> (s, (RNoHandle, [])))
| DropS h ->
  (match live_tx h s with
   | Some x ->
     let (s1, w) = if x.t_closed then (s, []) else tx_close_internal c s in
     ((st_set_txs s1
        (upd_tx h (fun y -> tx_set y false y.t_async true) s1.txs)), (ROk, w))
   | None -> (s, (RNoHandle, [])))
| ConvS h ->
  (match live_tx h s with
   | Some _ ->
     ((st_set_txs s
        (upd_tx h (fun y -> tx_set y y.t_live (negb y.t_async) y.t_closed)
          s.txs)), (ROk, []))
   | None -> (s, (RNoHandle, [])))
| IsClosedS h ->
  (match live_tx h s with
   | Some _ -> (s, ((RBool (Z.eqb s.rcount Z0)), []))
   | None -> (s, (RNoHandle, [])))
| Subscribe (r, t) ->
  (match live_rx r s with
   | Some _ -> ((subscribe_core r t s), (ROk, []))
   | None -> (s, (RNoHandle, [])))
| Unsubscribe (r, t) ->
  (match live_rx r s with
   | Some _ -> ((unsubscribe_core r t s), (ROk, []))
   | None -> (s, (RNoHandle, [])))
| CloneR (r, r') ->
  (match live_rx r s with
   | Some x ->
     (match find_rx r' s.rxs with
      | Some _ -> (s, (RBadId, []))
      | None ->
        if disp_alive s
        then let born_disc = (&&) ((&&) c.fix05 c.fix04) (Z.eqb s.scount Z0)
             in
             let s1 = st_set_rcount s (Z.add s.rcount (Zpos XH)) in
             let s2 =
               st_set_rxs s1
                 (app s1.rxs
                   ((new_rx r' x.r_async false x.r_mb.m_cap born_disc) :: []))
             in
             ((fold_left (fun a t -> subscribe_core r' t a) x.r_subs s2),
             (ROk, []))
        else ((st_set_rxs s
                (app s.rxs ((new_rx r' x.r_async true N0 c.fix05) :: []))),
               (ROk, [])))
   | None -> (s, (RNoHandle, [])))
| CloseR r ->
  (match live_rx r s with
   | Some x ->
     if x.r_closed
     then (s, (RCloseErr, []))
     else let s1 =
            st_set_rxs s (upd_rx r (fun y -> rx_set_closed y true) s.rxs)
          in
          ((rx_close_internal c r s1), (ROk, []))
   | None -> (s, (RNoHandle, [])))
| DropR r ->
  (match live_rx r s with
   | Some x ->
     if rx_busy r s
     then (s, (RBusy, []))
     else let run0 =
            if (&&) x.r_async (negb c.fix07) then true else negb x.r_closed
          in
          let s1 =
            st_set_rxs s (upd_rx r (fun y -> rx_set_closed y true) s.rxs)
          in
          let s2 = if run0 then rx_close_internal c r s1 else s1 in
          let w = if x.r_mb.m_disc then [] else opt_list x.r_mb.m_waiter in
          ((st_set_rxs s2
             (upd_rx r (fun y ->
               rx_set_mb (rx_set_live y false) (fst (mb_disconnect y.r_mb)))
               s2.rxs)), (ROk, w))
   | None -> (s, (RNoHandle, [])))
| ConvR r ->
  (match live_rx r s with
   | Some _ ->
     if rx_busy r s
     then (s, (RBusy, []))
     else ((st_set_rxs s
             (upd_rx r (fun y ->
               rx_set_kind y (negb y.r_async) ((&&) c.fix07 y.r_closed))
               s.rxs)), (ROk, []))
   | None -> (s, (RNoHandle, [])))
| TryRecv r ->
  (match live_rx r s with
   | Some x -> recv_core r x REmpty None s
   | None -> (s, (RNoHandle, [])))
| RecvTimeout0 r ->
  (match live_rx r s with
   | Some x ->
     if x.r_async
     then (s, (RNoApi, []))
     else if x.r_closed
          then recv_core r x RDisc None s
          else recv_core r x RTimeout None s
   | None -> (s, (RNoHandle, [])))
| MkRecv (f, r) ->
  (match live_rx r s with
   | Some x ->
     if negb x.r_async
     then (s, (RNoApi, []))
     else if existsb (fun p -> N.eqb (fst p) f) s.futs
          then (s, (RBadId, []))
          else ((st_set_futs s (app s.futs ((f, r) :: []))), (ROk, []))
   | None -> (s, (RNoHandle, [])))
| Poll (f, w) ->
  (match find (fun p -> N.eqb (fst p) f) s.futs with
   | Some p ->
     let (_, r) = p in
     (match live_rx r s with
      | Some x -> recv_core r x RPending (Some w) s
      | None -> (s, (RNoHandle, [])))
   | None -> (s, (RNoHandle, [])))
| DropF f ->
  (match find (fun p -> N.eqb (fst p) f) s.futs with
   | Some _ ->
     ((st_set_futs s (filter (fun p -> negb (N.eqb (fst p) f)) s.futs)),
       (ROk, []))
   | None -> (s, (RNoHandle, [])))
| PollNext (r, w) ->
  (match live_rx r s with
   | Some x ->
     if negb x.r_async
     then (s, (RNoApi, []))
     else if rx_busy r s
          then (s, (RBusy, []))
          else recv_core r x RPending (Some w) s
   | None -> (s, (RNoHandle, [])))
| IsClosedR r ->
  (match live_rx r s with
   | Some x ->
     (s, ((RBool
       ((||) x.r_closed
         ((&&) (negb (disp_alive s))
           (match x.r_mb.m_buf with
            | [] -> true
            | _ :: _ -> false)))), []))
   | None -> (s, (RNoHandle, [])))
| IsEmptyR r ->
  (match live_rx r s with
   | Some x ->
     (s, ((RBool (match x.r_mb.m_buf with
                  | [] -> true
                  | _ :: _ -> false)), []))
   | None -> (s, (RNoHandle, [])))
| CapR r ->
  (match live_rx r s with
   | Some x -> (s, ((RNum x.r_mb.m_cap), []))
   | None -> (s, (RNoHandle, [])))

(** val init : bool -> n -> state **)

let init async cap =
  { txs = ({ t_id = N0; t_live = true; t_async = async; t_closed =
    false } :: []); rxs = ((new_rx N0 async false cap false) :: []); lists =
    []; rcount = (Zpos XH); scount = (Zpos XH); futs = [] }

(** val run_from : cfg -> state -> op list -> state * out list **)

let rec run_from c s = function
| [] -> (s, [])
| o :: h' ->
  let (s1, x) = step c s o in
  let (s2, xs) = run_from c s1 h' in (s2, (x :: xs))

(** val run : cfg -> bool -> n -> op list -> state * out list **)

let run c async cap h =
  run_from c (init async cap) h
