
type __ = Obj.t

val negb : bool -> bool

type nat =
| O
| S of nat

type ('a, 'b) sum =
| Inl of 'a
| Inr of 'b

val snd : ('a1 * 'a2) -> 'a2

val length : 'a1 list -> nat

val app : 'a1 list -> 'a1 list -> 'a1 list

type comparison =
| Eq
| Lt
| Gt

val add : nat -> nat -> nat

val eqb : bool -> bool -> bool

val tl : 'a1 list -> 'a1 list

type positive =
| XI of positive
| XO of positive
| XH

type n =
| N0
| Npos of positive

module Pos :
 sig
  type mask =
  | IsNul
  | IsPos of positive
  | IsNeg
 end

module Coq_Pos :
 sig
  val succ : positive -> positive

  val add : positive -> positive -> positive

  val add_carry : positive -> positive -> positive

  val pred_double : positive -> positive

  type mask = Pos.mask =
  | IsNul
  | IsPos of positive
  | IsNeg

  val succ_double_mask : mask -> mask

  val double_mask : mask -> mask

  val double_pred_mask : positive -> mask

  val sub_mask : positive -> positive -> mask

  val sub_mask_carry : positive -> positive -> mask

  val mul : positive -> positive -> positive

  val compare_cont : comparison -> positive -> positive -> comparison

  val compare : positive -> positive -> comparison

  val eqb : positive -> positive -> bool

  val iter_op : ('a1 -> 'a1 -> 'a1) -> positive -> 'a1 -> 'a1

  val to_nat : positive -> nat
 end

module N :
 sig
  val succ_double : n -> n

  val double : n -> n

  val add : n -> n -> n

  val sub : n -> n -> n

  val mul : n -> n -> n

  val compare : n -> n -> comparison

  val eqb : n -> n -> bool

  val leb : n -> n -> bool

  val pos_div_eucl : positive -> n -> n * n

  val div_eucl : n -> n -> n * n

  val modulo : n -> n -> n

  val to_nat : n -> nat
 end

type system = { init : __; step : (__ -> __ -> __ -> (__ * __) option) }

type state = __

type tid = __

type choice = __

type event = __

val replay :
  system -> (event -> event -> bool) -> state -> ((tid * choice) * event)
  list -> (state option, nat) sum

type tid0 =
| TP
| TC

type choice0 =
| CGo
| CSpin
| CSpur

type evar =
| VTail
| VHead
| VSendW
| VRecvW
| VSenderCnt
| VRecvCnt
| VProdDropped
| VConsDropped
| VClosedP
| VClosedC
| VNotifP
| VNotifC
| VLockP
| VLockC
| VSlot
| VNone

type ekind =
| KLoad
| KStore
| KSwap
| KFsub
| KFence
| KLock
| KUnlock
| KPark
| KUnpark
| KSpin
| KWSlot
| KRSlot

type eord =
| ORlx
| OAcq
| ORel
| OAcqRel
| OSeqCst
| ONone

type event0 = { ek : ekind; evr : evar; eo : eord; ea : n; er : n; eok : bool }

val eLoad : evar -> eord -> n -> event0

val eStore : evar -> eord -> n -> event0

val eSwap : evar -> eord -> n -> n -> event0

val eFsub : evar -> eord -> n -> n -> event0

val eFence : event0

val eLock : evar -> bool -> event0

val eUnlock : evar -> event0

val ePark : event0

val eUnpark : n -> event0

val eSpin : event0

val eWSlot : event0

val eRSlot : event0

val evar_eqb : evar -> evar -> bool

val ekind_eqb : ekind -> ekind -> bool

val eord_eqb : eord -> eord -> bool

val event_eqb : event0 -> event0 -> bool

type pop =
| Send
| TrySend

type cop =
| Recv
| TryRecv
| Drain

type pres =
| POk of n
| PFull of n
| PClosed of n
| PGone of n

type cres =
| RVal of n
| REmpty
| RDisc

type pp =
| LdA
| LdB
| Slot
| StIdx

type wk =
| WkLock
| WkSt0
| WkStN
| WkUnlock of bool
| WkUnpark

type rg =
| RgLock
| RgSt
| RgUnlock

type un =
| UnLock
| UnSt
| UnUnlock

type wctx =
| WNotify
| WDrop

type pctx =
| KTry
| KFirst
| KLoop of bool

type puctx =
| UOk
| UClosed

type ppc_t =
| PIdle
| PCd of pctx
| PPush of pctx * pp
| PUnreg of puctx * un
| PNfFence
| PNfLd
| PWake of wctx * wk
| PPark
| PSwap
| PSpinDec
| PReg of rg
| PFence
| PDrStore
| PDrSub
| PDrain of pp
| PDone

type cctx =
| CTry1
| CTry2
| CFirst
| CLoop of bool
| CLoopD of bool

type sctx =
| STry
| SLoop of bool

type cuctx =
| CUVal
| CUDisc

type cpc_t =
| CIdle
| CPop of cctx * pp
| CSc of sctx
| CUnreg of cuctx * un
| CNfFence
| CNfLd
| CWake of wctx * wk
| CPark
| CSwap
| CSpinDec
| CReg of rg
| CFence
| CDrStore
| CDrSub
| CDrain of pp
| CDone

type st = { tail : n; head : n; ch : n; ct : n; slots : (n -> n option);
            p_closed : bool; c_closed : bool; pdropped : bool;
            cdropped : bool; scount : n; rcount : n; p_rel : bool;
            c_rel : bool; cw_lock : bool; cw_slot : bool; recv_w : n;
            c_notif : bool; tok_c : bool; pw_lock : bool; pw_slot : bool;
            send_w : n; p_notif : bool; tok_p : bool; ppc : ppc_t;
            cpc : cpc_t; pprog : pop list; cprog : cop list; pseq : n;
            accepted : n list; received : n list; dropped : n list;
            chand : n; presults : pres list; cresults : cres list; bad : 
            bool }

val set_tail : st -> n -> st

val set_head : st -> n -> st

val set_ch : st -> n -> st

val set_ct : st -> n -> st

val set_slots : st -> (n -> n option) -> st

val set_p_closed : st -> bool -> st

val set_c_closed : st -> bool -> st

val set_pdropped : st -> bool -> st

val set_cdropped : st -> bool -> st

val set_scount : st -> n -> st

val set_rcount : st -> n -> st

val set_p_rel : st -> bool -> st

val set_c_rel : st -> bool -> st

val set_cw_lock : st -> bool -> st

val set_cw_slot : st -> bool -> st

val set_recv_w : st -> n -> st

val set_c_notif : st -> bool -> st

val set_tok_c : st -> bool -> st

val set_pw_lock : st -> bool -> st

val set_pw_slot : st -> bool -> st

val set_send_w : st -> n -> st

val set_p_notif : st -> bool -> st

val set_tok_p : st -> bool -> st

val set_ppc : st -> ppc_t -> st

val set_cpc : st -> cpc_t -> st

val set_pprog : st -> pop list -> st

val set_cprog : st -> cop list -> st

val set_pseq : st -> n -> st

val set_accepted : st -> n list -> st

val set_received : st -> n list -> st

val set_dropped : st -> n list -> st

val set_chand : st -> n -> st

val set_presults : st -> pres list -> st

val set_cresults : st -> cres list -> st

val set_bad : st -> bool -> st

val b2n : bool -> n

val upd : (n -> n option) -> n -> n option -> n -> n option

val init0 : pop list -> cop list -> st

val p_done_op : st -> pres -> st

val c_next_prog : st -> cres -> cop list

val c_done_op : st -> cres -> st

val p_release : st -> st

val c_release : st -> st

val write_slot : n -> st -> st

val take_slot : n -> bool -> st -> st

type pop_out =
| PoNext of pp
| PoNone
| PoSome

val pop_core : n -> bool -> st -> pp -> (st * event0) * pop_out

val p_push_ok : st -> pctx -> st

val p_push_err : st -> pctx -> st

val p_wake_done : st -> wctx -> st

val p_lock_pw : st -> bool -> ppc_t -> ppc_t -> st * event0

val pstep : n -> n -> st -> choice0 -> (st * event0) option

val c_pop_some : st -> cctx -> st

val c_pop_none : st -> cctx -> st

val c_wake_done : st -> wctx -> st

val c_lock_cw : st -> bool -> cpc_t -> cpc_t -> st * event0

val cstep : n -> st -> choice0 -> (st * event0) option

val step0 : n -> n -> st -> tid0 -> choice0 -> (st * event0) option

val sys : n -> n -> pop list -> cop list -> system

val pow2_ge : nat -> n -> n -> n

val phys_of : n -> n

val replay_spsc :
  n -> n -> pop list -> cop list -> ((tid0 * choice0) * event0) list -> (st
  option, nat) sum
