
type __ = Obj.t

(** val negb : bool -> bool **)

let negb = function
| true -> false
| false -> true

type nat =
| O
| S of nat

type ('a, 'b) sum =
| Inl of 'a
| Inr of 'b

(** val snd : ('a1 * 'a2) -> 'a2 **)

let snd = function
| (_, y) -> y

(** val length : 'a1 list -> nat **)

let rec length = function
| [] -> O
| _ :: l' -> S (length l')

(** val app : 'a1 list -> 'a1 list -> 'a1 list **)

let rec app l m =
  match l with
  | [] -> m
  | a :: l1 -> a :: (app l1 m)

type comparison =
| Eq
| Lt
| Gt

module Coq__1 = struct
 (** val add : nat -> nat -> nat **)
 let rec add n0 m =
   match n0 with
   | O -> m
   | S p -> S (add p m)
end
include Coq__1

(** val eqb : bool -> bool -> bool **)

let eqb b1 b2 =
  if b1 then b2 else if b2 then false else true

(** val tl : 'a1 list -> 'a1 list **)

let tl = function
| [] -> []
| _ :: m -> m

type positive =
| XI of positive
| XO of positive
| XH

type n =
| N0
| Npos of positive

module Pos =
 struct
  type mask =
  | IsNul
  | IsPos of positive
  | IsNeg
 end

module Coq_Pos =
 struct
  (** val succ : positive -> positive **)

  let rec succ = function
  | XI p -> XO (succ p)
  | XO p -> XI p
  | XH -> XO XH

  (** val add : positive -> positive -> positive **)

  let rec add x y =
    match x with
    | XI p ->
      (match y with
       | XI q -> XO (add_carry p q)
       | XO q -> XI (add p q)
       | XH -> XO (succ p))
    | XO p ->
      (match y with
       | XI q -> XI (add p q)
       | XO q -> XO (add p q)
       | XH -> XI p)
    | XH -> (match y with
             | XI q -> XO (succ q)
             | XO q -> XI q
             | XH -> XO XH)

  (** val add_carry : positive -> positive -> positive **)

  and add_carry x y =
    match x with
    | XI p ->
      (match y with
       | XI q -> XI (add_carry p q)
       | XO q -> XO (add_carry p q)
       | XH -> XI (succ p))
    | XO p ->
      (match y with
       | XI q -> XO (add_carry p q)
       | XO q -> XI (add p q)
       | XH -> XO (succ p))
    | XH ->
      (match y with
       | XI q -> XI (succ q)
       | XO q -> XO (succ q)
       | XH -> XI XH)

  (** val pred_double : positive -> positive **)

  let rec pred_double = function
  | XI p -> XI (XO p)
  | XO p -> XI (pred_double p)
  | XH -> XH

  type mask = Pos.mask =
  | IsNul
  | IsPos of positive
  | IsNeg

  (** val succ_double_mask : mask -> mask **)

  let succ_double_mask = function
  | IsNul -> IsPos XH
  | IsPos p -> IsPos (XI p)
  | IsNeg -> IsNeg

  (** val double_mask : mask -> mask **)

  let double_mask = function
  | IsPos p -> IsPos (XO p)
  | x0 -> x0

  (** val double_pred_mask : positive -> mask **)

  let double_pred_mask = function
  | XI p -> IsPos (XO (XO p))
  | XO p -> IsPos (XO (pred_double p))
  | XH -> IsNul

  (** val sub_mask : positive -> positive -> mask **)

  let rec sub_mask x y =
    match x with
    | XI p ->
      (match y with
       | XI q -> double_mask (sub_mask p q)
       | XO q -> succ_double_mask (sub_mask p q)
       | XH -> IsPos (XO p))
    | XO p ->
      (match y with
       | XI q -> succ_double_mask (sub_mask_carry p q)
       | XO q -> double_mask (sub_mask p q)
       | XH -> IsPos (pred_double p))
    | XH -> (match y with
             | XH -> IsNul
             | _ -> IsNeg)

  (** val sub_mask_carry : positive -> positive -> mask **)

  and sub_mask_carry x y =
    match x with
    | XI p ->
      (match y with
       | XI q -> succ_double_mask (sub_mask_carry p q)
       | XO q -> double_mask (sub_mask p q)
       | XH -> IsPos (pred_double p))
    | XO p ->
      (match y with
       | XI q -> double_mask (sub_mask_carry p q)
       | XO q -> succ_double_mask (sub_mask_carry p q)
       | XH -> double_pred_mask p)
    | XH -> IsNeg

  (** val mul : positive -> positive -> positive **)

  let rec mul x y =
    match x with
    | XI p -> add y (XO (mul p y))
    | XO p -> XO (mul p y)
    | XH -> y

  (** val compare_cont : comparison -> positive -> positive -> comparison **)

  let rec compare_cont r x y =
    match x with
    | XI p ->
      (match y with
       | XI q -> compare_cont r p q
       | XO q -> compare_cont Gt p q
       | XH -> Gt)
    | XO p ->
      (match y with
       | XI q -> compare_cont Lt p q
       | XO q -> compare_cont r p q
       | XH -> Gt)
    | XH -> (match y with
             | XH -> r
             | _ -> Lt)

  (** val compare : positive -> positive -> comparison **)

  let compare =
    compare_cont Eq

  (** val eqb : positive -> positive -> bool **)

  let rec eqb p q =
    match p with
    | XI p0 -> (match q with
                | XI q0 -> eqb p0 q0
                | _ -> false)
    | XO p0 -> (match q with
                | XO q0 -> eqb p0 q0
                | _ -> false)
    | XH -> (match q with
             | XH -> true
             | _ -> false)

  (** val iter_op : ('a1 -> 'a1 -> 'a1) -> positive -> 'a1 -> 'a1 **)

  let rec iter_op op p a =
    match p with
    | XI p0 -> op a (iter_op op p0 (op a a))
    | XO p0 -> iter_op op p0 (op a a)
    | XH -> a

  (** val to_nat : positive -> nat **)

  let to_nat x =
    iter_op Coq__1.add x (S O)
 end

module N =
 struct
  (** val succ_double : n -> n **)

  let succ_double = function
  | N0 -> Npos XH
  | Npos p -> Npos (XI p)

  (** val double : n -> n **)

  let double = function
  | N0 -> N0
  | Npos p -> Npos (XO p)

  (** val add : n -> n -> n **)

  let add n0 m =
    match n0 with
    | N0 -> m
    | Npos p -> (match m with
                 | N0 -> n0
                 | Npos q -> Npos (Coq_Pos.add p q))

  (** val sub : n -> n -> n **)

  let sub n0 m =
    match n0 with
    | N0 -> N0
    | Npos n' ->
      (match m with
       | N0 -> n0
       | Npos m' ->
         (match Coq_Pos.sub_mask n' m' with
          | Coq_Pos.IsPos p -> Npos p
          | _ -> N0))

  (** val mul : n -> n -> n **)

  let mul n0 m =
    match n0 with
    | N0 -> N0
    | Npos p -> (match m with
                 | N0 -> N0
                 | Npos q -> Npos (Coq_Pos.mul p q))

  (** val compare : n -> n -> comparison **)

  let compare n0 m =
    match n0 with
    | N0 -> (match m with
             | N0 -> Eq
             | Npos _ -> Lt)
    | Npos n' -> (match m with
                  | N0 -> Gt
                  | Npos m' -> Coq_Pos.compare n' m')

  (** val eqb : n -> n -> bool **)

  let eqb n0 m =
    match n0 with
    | N0 -> (match m with
             | N0 -> true
             | Npos _ -> false)
    | Npos p -> (match m with
                 | N0 -> false
                 | Npos q -> Coq_Pos.eqb p q)

  (** val leb : n -> n -> bool **)

  let leb x y =
    match compare x y with
    | Gt -> false
    | _ -> true

  (** val pos_div_eucl : positive -> n -> n * n **)

  let rec pos_div_eucl a b =
    match a with
    | XI a' ->
      let (q, r) = pos_div_eucl a' b in
      let r' = succ_double r in
      if leb b r' then ((succ_double q), (sub r' b)) else ((double q), r')
    | XO a' ->
      let (q, r) = pos_div_eucl a' b in
      let r' = double r in
      if leb b r' then ((succ_double q), (sub r' b)) else ((double q), r')
    | XH ->
      (match b with
       | N0 -> (N0, (Npos XH))
       | Npos p -> (match p with
                    | XH -> ((Npos XH), N0)
                    | _ -> (N0, (Npos XH))))

  (** val div_eucl : n -> n -> n * n **)

  let div_eucl a b =
    match a with
    | N0 -> (N0, N0)
    | Npos na -> (match b with
                  | N0 -> (N0, a)
                  | Npos _ -> pos_div_eucl na b)

  (** val modulo : n -> n -> n **)

  let modulo a b =
    snd (div_eucl a b)

  (** val to_nat : n -> nat **)

  let to_nat = function
  | N0 -> O
  | Npos p -> Coq_Pos.to_nat p
 end

type system = { init : __; step : (__ -> __ -> __ -> (__ * __) option) }

type state = __

type tid = __

type choice = __

type event = __

(** val replay :
    system -> (event -> event -> bool) -> state -> ((tid * choice) * event)
    list -> (state option, nat) sum **)

let rec replay s eqb0 s0 = function
| [] -> Inl (Some s0)
| p :: r ->
  let (p0, e) = p in
  let (t, c) = p0 in
  (match s.step s0 t c with
   | Some p1 ->
     let (s', e') = p1 in
     if eqb0 e e' then replay s eqb0 s' r else Inr (length r)
   | None -> Inr (length r))

type tid0 =
| TP
| TC

type choice0 =
| CGo
| CSpin
| CSpur

type evar =
| VTail
| VHead
| VSendW
| VRecvW
| VSenderCnt
| VRecvCnt
| VProdDropped
| VConsDropped
| VClosedP
| VClosedC
| VNotifP
| VNotifC
| VLockP
| VLockC
| VSlot
| VNone

type ekind =
| KLoad
| KStore
| KSwap
| KFsub
| KFence
| KLock
| KUnlock
| KPark
| KUnpark
| KSpin
| KWSlot
| KRSlot

type eord =
| ORlx
| OAcq
| ORel
| OAcqRel
| OSeqCst
| ONone

type event0 = { ek : ekind; evr : evar; eo : eord; ea : n; er : n; eok : bool }

(** val eLoad : evar -> eord -> n -> event0 **)

let eLoad v o r =
  { ek = KLoad; evr = v; eo = o; ea = N0; er = r; eok = true }

(** val eStore : evar -> eord -> n -> event0 **)

let eStore v o a =
  { ek = KStore; evr = v; eo = o; ea = a; er = N0; eok = true }

(** val eSwap : evar -> eord -> n -> n -> event0 **)

let eSwap v o a r =
  { ek = KSwap; evr = v; eo = o; ea = a; er = r; eok = true }

(** val eFsub : evar -> eord -> n -> n -> event0 **)

let eFsub v o a r =
  { ek = KFsub; evr = v; eo = o; ea = a; er = r; eok = true }

(** val eFence : event0 **)

let eFence =
  { ek = KFence; evr = VNone; eo = OSeqCst; ea = N0; er = N0; eok = true }

(** val eLock : evar -> bool -> event0 **)

let eLock v ok =
  { ek = KLock; evr = v; eo = ONone; ea = N0; er = N0; eok = ok }

(** val eUnlock : evar -> event0 **)

let eUnlock v =
  { ek = KUnlock; evr = v; eo = ONone; ea = N0; er = N0; eok = true }

(** val ePark : event0 **)

let ePark =
  { ek = KPark; evr = VNone; eo = ONone; ea = N0; er = N0; eok = true }

(** val eUnpark : n -> event0 **)

let eUnpark t =
  { ek = KUnpark; evr = VNone; eo = ONone; ea = t; er = N0; eok = true }

(** val eSpin : event0 **)

let eSpin =
  { ek = KSpin; evr = VNone; eo = ONone; ea = N0; er = N0; eok = true }

(** val eWSlot : event0 **)

let eWSlot =
  { ek = KWSlot; evr = VSlot; eo = ONone; ea = N0; er = N0; eok = true }

(** val eRSlot : event0 **)

let eRSlot =
  { ek = KRSlot; evr = VSlot; eo = ONone; ea = N0; er = N0; eok = true }

(** val evar_eqb : evar -> evar -> bool **)

let evar_eqb a b =
  match a with
  | VTail -> (match b with
              | VTail -> true
              | _ -> false)
  | VHead -> (match b with
              | VHead -> true
              | _ -> false)
  | VSendW -> (match b with
               | VSendW -> true
               | _ -> false)
  | VRecvW -> (match b with
               | VRecvW -> true
               | _ -> false)
  | VSenderCnt -> (match b with
                   | VSenderCnt -> true
                   | _ -> false)
  | VRecvCnt -> (match b with
                 | VRecvCnt -> true
                 | _ -> false)
  | VProdDropped -> (match b with
                     | VProdDropped -> true
                     | _ -> false)
  | VConsDropped -> (match b with
                     | VConsDropped -> true
                     | _ -> false)
  | VClosedP -> (match b with
                 | VClosedP -> true
                 | _ -> false)
  | VClosedC -> (match b with
                 | VClosedC -> true
                 | _ -> false)
  | VNotifP -> (match b with
                | VNotifP -> true
                | _ -> false)
  | VNotifC -> (match b with
                | VNotifC -> true
                | _ -> false)
  | VLockP -> (match b with
               | VLockP -> true
               | _ -> false)
  | VLockC -> (match b with
               | VLockC -> true
               | _ -> false)
  | VSlot -> (match b with
              | VSlot -> true
              | _ -> false)
  | VNone -> (match b with
              | VNone -> true
              | _ -> false)

(** val ekind_eqb : ekind -> ekind -> bool **)

let ekind_eqb a b =
  match a with
  | KLoad -> (match b with
              | KLoad -> true
              | _ -> false)
  | KStore -> (match b with
               | KStore -> true
               | _ -> false)
  | KSwap -> (match b with
              | KSwap -> true
              | _ -> false)
  | KFsub -> (match b with
              | KFsub -> true
              | _ -> false)
  | KFence -> (match b with
               | KFence -> true
               | _ -> false)
  | KLock -> (match b with
              | KLock -> true
              | _ -> false)
  | KUnlock -> (match b with
                | KUnlock -> true
                | _ -> false)
  | KPark -> (match b with
              | KPark -> true
              | _ -> false)
  | KUnpark -> (match b with
                | KUnpark -> true
                | _ -> false)
  | KSpin -> (match b with
              | KSpin -> true
              | _ -> false)
  | KWSlot -> (match b with
               | KWSlot -> true
               | _ -> false)
  | KRSlot -> (match b with
               | KRSlot -> true
               | _ -> false)

(** val eord_eqb : eord -> eord -> bool **)

let eord_eqb a b =
  match a with
  | ORlx -> (match b with
             | ORlx -> true
             | _ -> false)
  | OAcq -> (match b with
             | OAcq -> true
             | _ -> false)
  | ORel -> (match b with
             | ORel -> true
             | _ -> false)
  | OAcqRel -> (match b with
                | OAcqRel -> true
                | _ -> false)
  | OSeqCst -> (match b with
                | OSeqCst -> true
                | _ -> false)
  | ONone -> (match b with
              | ONone -> true
              | _ -> false)

(** val event_eqb : event0 -> event0 -> bool **)

let event_eqb a b =
  (&&)
    ((&&)
      ((&&)
        ((&&) ((&&) (ekind_eqb a.ek b.ek) (evar_eqb a.evr b.evr))
          (eord_eqb a.eo b.eo)) (N.eqb a.ea b.ea)) (N.eqb a.er b.er))
    (eqb a.eok b.eok)

type pop =
| Send
| TrySend

type cop =
| Recv
| TryRecv
| Drain

type pres =
| POk of n
| PFull of n
| PClosed of n
| PGone of n

type cres =
| RVal of n
| REmpty
| RDisc

type pp =
| LdA
| LdB
| Slot
| StIdx

type wk =
| WkLock
| WkSt0
| WkStN
| WkUnlock of bool
| WkUnpark

type rg =
| RgLock
| RgSt
| RgUnlock

type un =
| UnLock
| UnSt
| UnUnlock

type wctx =
| WNotify
| WDrop

type pctx =
| KTry
| KFirst
| KLoop of bool

type puctx =
| UOk
| UClosed

type ppc_t =
| PIdle
| PCd of pctx
| PPush of pctx * pp
| PUnreg of puctx * un
| PNfFence
| PNfLd
| PWake of wctx * wk
| PPark
| PSwap
| PSpinDec
| PReg of rg
| PFence
| PDrStore
| PDrSub
| PDrain of pp
| PDone

type cctx =
| CTry1
| CTry2
| CFirst
| CLoop of bool
| CLoopD of bool

type sctx =
| STry
| SLoop of bool

type cuctx =
| CUVal
| CUDisc

type cpc_t =
| CIdle
| CPop of cctx * pp
| CSc of sctx
| CUnreg of cuctx * un
| CNfFence
| CNfLd
| CWake of wctx * wk
| CPark
| CSwap
| CSpinDec
| CReg of rg
| CFence
| CDrStore
| CDrSub
| CDrain of pp
| CDone

type st = { tail : n; head : n; ch : n; ct : n; slots : (n -> n option);
            p_closed : bool; c_closed : bool; pdropped : bool;
            cdropped : bool; scount : n; rcount : n; p_rel : bool;
            c_rel : bool; cw_lock : bool; cw_slot : bool; recv_w : n;
            c_notif : bool; tok_c : bool; pw_lock : bool; pw_slot : bool;
            send_w : n; p_notif : bool; tok_p : bool; ppc : ppc_t;
            cpc : cpc_t; pprog : pop list; cprog : cop list; pseq : n;
            accepted : n list; received : n list; dropped : n list;
            chand : n; presults : pres list; cresults : cres list; bad : 
            bool }

(** val set_tail : st -> n -> st **)

let set_tail s v =
  { tail = v; head = s.head; ch = s.ch; ct = s.ct; slots = s.slots;
    p_closed = s.p_closed; c_closed = s.c_closed; pdropped = s.pdropped;
    cdropped = s.cdropped; scount = s.scount; rcount = s.rcount; p_rel =
    s.p_rel; c_rel = s.c_rel; cw_lock = s.cw_lock; cw_slot = s.cw_slot;
    recv_w = s.recv_w; c_notif = s.c_notif; tok_c = s.tok_c; pw_lock =
    s.pw_lock; pw_slot = s.pw_slot; send_w = s.send_w; p_notif = s.p_notif;
    tok_p = s.tok_p; ppc = s.ppc; cpc = s.cpc; pprog = s.pprog; cprog =
    s.cprog; pseq = s.pseq; accepted = s.accepted; received = s.received;
    dropped = s.dropped; chand = s.chand; presults = s.presults; cresults =
    s.cresults; bad = s.bad }

(** val set_head : st -> n -> st **)

let set_head s v =
  { tail = s.tail; head = v; ch = s.ch; ct = s.ct; slots = s.slots;
    p_closed = s.p_closed; c_closed = s.c_closed; pdropped = s.pdropped;
    cdropped = s.cdropped; scount = s.scount; rcount = s.rcount; p_rel =
    s.p_rel; c_rel = s.c_rel; cw_lock = s.cw_lock; cw_slot = s.cw_slot;
    recv_w = s.recv_w; c_notif = s.c_notif; tok_c = s.tok_c; pw_lock =
    s.pw_lock; pw_slot = s.pw_slot; send_w = s.send_w; p_notif = s.p_notif;
    tok_p = s.tok_p; ppc = s.ppc; cpc = s.cpc; pprog = s.pprog; cprog =
    s.cprog; pseq = s.pseq; accepted = s.accepted; received = s.received;
    dropped = s.dropped; chand = s.chand; presults = s.presults; cresults =
    s.cresults; bad = s.bad }

(** val set_ch : st -> n -> st **)

let set_ch s v =
  { tail = s.tail; head = s.head; ch = v; ct = s.ct; slots = s.slots;
    p_closed = s.p_closed; c_closed = s.c_closed; pdropped = s.pdropped;
    cdropped = s.cdropped; scount = s.scount; rcount = s.rcount; p_rel =
    s.p_rel; c_rel = s.c_rel; cw_lock = s.cw_lock; cw_slot = s.cw_slot;
    recv_w = s.recv_w; c_notif = s.c_notif; tok_c = s.tok_c; pw_lock =
    s.pw_lock; pw_slot = s.pw_slot; send_w = s.send_w; p_notif = s.p_notif;
    tok_p = s.tok_p; ppc = s.ppc; cpc = s.cpc; pprog = s.pprog; cprog =
    s.cprog; pseq = s.pseq; accepted = s.accepted; received = s.received;
    dropped = s.dropped; chand = s.chand; presults = s.presults; cresults =
    s.cresults; bad = s.bad }

(** val set_ct : st -> n -> st **)

let set_ct s v =
  { tail = s.tail; head = s.head; ch = s.ch; ct = v; slots = s.slots;
    p_closed = s.p_closed; c_closed = s.c_closed; pdropped = s.pdropped;
    cdropped = s.cdropped; scount = s.scount; rcount = s.rcount; p_rel =
    s.p_rel; c_rel = s.c_rel; cw_lock = s.cw_lock; cw_slot = s.cw_slot;
    recv_w = s.recv_w; c_notif = s.c_notif; tok_c = s.tok_c; pw_lock =
    s.pw_lock; pw_slot = s.pw_slot; send_w = s.send_w; p_notif = s.p_notif;
    tok_p = s.tok_p; ppc = s.ppc; cpc = s.cpc; pprog = s.pprog; cprog =
    s.cprog; pseq = s.pseq; accepted = s.accepted; received = s.received;
    dropped = s.dropped; chand = s.chand; presults = s.presults; cresults =
    s.cresults; bad = s.bad }

(** val set_slots : st -> (n -> n option) -> st **)

let set_slots s v =
  { tail = s.tail; head = s.head; ch = s.ch; ct = s.ct; slots = v; p_closed =
    s.p_closed; c_closed = s.c_closed; pdropped = s.pdropped; cdropped =
    s.cdropped; scount = s.scount; rcount = s.rcount; p_rel = s.p_rel;
    c_rel = s.c_rel; cw_lock = s.cw_lock; cw_slot = s.cw_slot; recv_w =
    s.recv_w; c_notif = s.c_notif; tok_c = s.tok_c; pw_lock = s.pw_lock;
    pw_slot = s.pw_slot; send_w = s.send_w; p_notif = s.p_notif; tok_p =
    s.tok_p; ppc = s.ppc; cpc = s.cpc; pprog = s.pprog; cprog = s.cprog;
    pseq = s.pseq; accepted = s.accepted; received = s.received; dropped =
    s.dropped; chand = s.chand; presults = s.presults; cresults = s.cresults;
    bad = s.bad }

(** val set_p_closed : st -> bool -> st **)

let set_p_closed s v =
  { tail = s.tail; head = s.head; ch = s.ch; ct = s.ct; slots = s.slots;
    p_closed = v; c_closed = s.c_closed; pdropped = s.pdropped; cdropped =
    s.cdropped; scount = s.scount; rcount = s.rcount; p_rel = s.p_rel;
    c_rel = s.c_rel; cw_lock = s.cw_lock; cw_slot = s.cw_slot; recv_w =
    s.recv_w; c_notif = s.c_notif; tok_c = s.tok_c; pw_lock = s.pw_lock;
    pw_slot = s.pw_slot; send_w = s.send_w; p_notif = s.p_notif; tok_p =
    s.tok_p; ppc = s.ppc; cpc = s.cpc; pprog = s.pprog; cprog = s.cprog;
    pseq = s.pseq; accepted = s.accepted; received = s.received; dropped =
    s.dropped; chand = s.chand; presults = s.presults; cresults = s.cresults;
    bad = s.bad }

(** val set_c_closed : st -> bool -> st **)

let set_c_closed s v =
  { tail = s.tail; head = s.head; ch = s.ch; ct = s.ct; slots = s.slots;
    p_closed = s.p_closed; c_closed = v; pdropped = s.pdropped; cdropped =
    s.cdropped; scount = s.scount; rcount = s.rcount; p_rel = s.p_rel;
    c_rel = s.c_rel; cw_lock = s.cw_lock; cw_slot = s.cw_slot; recv_w =
    s.recv_w; c_notif = s.c_notif; tok_c = s.tok_c; pw_lock = s.pw_lock;
    pw_slot = s.pw_slot; send_w = s.send_w; p_notif = s.p_notif; tok_p =
    s.tok_p; ppc = s.ppc; cpc = s.cpc; pprog = s.pprog; cprog = s.cprog;
    pseq = s.pseq; accepted = s.accepted; received = s.received; dropped =
    s.dropped; chand = s.chand; presults = s.presults; cresults = s.cresults;
    bad = s.bad }

(** val set_pdropped : st -> bool -> st **)

let set_pdropped s v =
  { tail = s.tail; head = s.head; ch = s.ch; ct = s.ct; slots = s.slots;
    p_closed = s.p_closed; c_closed = s.c_closed; pdropped = v; cdropped =
    s.cdropped; scount = s.scount; rcount = s.rcount; p_rel = s.p_rel;
    c_rel = s.c_rel; cw_lock = s.cw_lock; cw_slot = s.cw_slot; recv_w =
    s.recv_w; c_notif = s.c_notif; tok_c = s.tok_c; pw_lock = s.pw_lock;
    pw_slot = s.pw_slot; send_w = s.send_w; p_notif = s.p_notif; tok_p =
    s.tok_p; ppc = s.ppc; cpc = s.cpc; pprog = s.pprog; cprog = s.cprog;
    pseq = s.pseq; accepted = s.accepted; received = s.received; dropped =
    s.dropped; chand = s.chand; presults = s.presults; cresults = s.cresults;
    bad = s.bad }

(** val set_cdropped : st -> bool -> st **)

let set_cdropped s v =
  { tail = s.tail; head = s.head; ch = s.ch; ct = s.ct; slots = s.slots;
    p_closed = s.p_closed; c_closed = s.c_closed; pdropped = s.pdropped;
    cdropped = v; scount = s.scount; rcount = s.rcount; p_rel = s.p_rel;
    c_rel = s.c_rel; cw_lock = s.cw_lock; cw_slot = s.cw_slot; recv_w =
    s.recv_w; c_notif = s.c_notif; tok_c = s.tok_c; pw_lock = s.pw_lock;
    pw_slot = s.pw_slot; send_w = s.send_w; p_notif = s.p_notif; tok_p =
    s.tok_p; ppc = s.ppc; cpc = s.cpc; pprog = s.pprog; cprog = s.cprog;
    pseq = s.pseq; accepted = s.accepted; received = s.received; dropped =
    s.dropped; chand = s.chand; presults = s.presults; cresults = s.cresults;
    bad = s.bad }

(** val set_scount : st -> n -> st **)

let set_scount s v =
  { tail = s.tail; head = s.head; ch = s.ch; ct = s.ct; slots = s.slots;
    p_closed = s.p_closed; c_closed = s.c_closed; pdropped = s.pdropped;
    cdropped = s.cdropped; scount = v; rcount = s.rcount; p_rel = s.p_rel;
    c_rel = s.c_rel; cw_lock = s.cw_lock; cw_slot = s.cw_slot; recv_w =
    s.recv_w; c_notif = s.c_notif; tok_c = s.tok_c; pw_lock = s.pw_lock;
    pw_slot = s.pw_slot; send_w = s.send_w; p_notif = s.p_notif; tok_p =
    s.tok_p; ppc = s.ppc; cpc = s.cpc; pprog = s.pprog; cprog = s.cprog;
    pseq = s.pseq; accepted = s.accepted; received = s.received; dropped =
    s.dropped; chand = s.chand; presults = s.presults; cresults = s.cresults;
    bad = s.bad }

(** val set_rcount : st -> n -> st **)

let set_rcount s v =
  { tail = s.tail; head = s.head; ch = s.ch; ct = s.ct; slots = s.slots;
    p_closed = s.p_closed; c_closed = s.c_closed; pdropped = s.pdropped;
    cdropped = s.cdropped; scount = s.scount; rcount = v; p_rel = s.p_rel;
    c_rel = s.c_rel; cw_lock = s.cw_lock; cw_slot = s.cw_slot; recv_w =
    s.recv_w; c_notif = s.c_notif; tok_c = s.tok_c; pw_lock = s.pw_lock;
    pw_slot = s.pw_slot; send_w = s.send_w; p_notif = s.p_notif; tok_p =
    s.tok_p; ppc = s.ppc; cpc = s.cpc; pprog = s.pprog; cprog = s.cprog;
    pseq = s.pseq; accepted = s.accepted; received = s.received; dropped =
    s.dropped; chand = s.chand; presults = s.presults; cresults = s.cresults;
    bad = s.bad }

(** val set_p_rel : st -> bool -> st **)

let set_p_rel s v =
  { tail = s.tail; head = s.head; ch = s.ch; ct = s.ct; slots = s.slots;
    p_closed = s.p_closed; c_closed = s.c_closed; pdropped = s.pdropped;
    cdropped = s.cdropped; scount = s.scount; rcount = s.rcount; p_rel = v;
    c_rel = s.c_rel; cw_lock = s.cw_lock; cw_slot = s.cw_slot; recv_w =
    s.recv_w; c_notif = s.c_notif; tok_c = s.tok_c; pw_lock = s.pw_lock;
    pw_slot = s.pw_slot; send_w = s.send_w; p_notif = s.p_notif; tok_p =
    s.tok_p; ppc = s.ppc; cpc = s.cpc; pprog = s.pprog; cprog = s.cprog;
    pseq = s.pseq; accepted = s.accepted; received = s.received; dropped =
    s.dropped; chand = s.chand; presults = s.presults; cresults = s.cresults;
    bad = s.bad }

(** val set_c_rel : st -> bool -> st **)

let set_c_rel s v =
  { tail = s.tail; head = s.head; ch = s.ch; ct = s.ct; slots = s.slots;
    p_closed = s.p_closed; c_closed = s.c_closed; pdropped = s.pdropped;
    cdropped = s.cdropped; scount = s.scount; rcount = s.rcount; p_rel =
    s.p_rel; c_rel = v; cw_lock = s.cw_lock; cw_slot = s.cw_slot; recv_w =
    s.recv_w; c_notif = s.c_notif; tok_c = s.tok_c; pw_lock = s.pw_lock;
    pw_slot = s.pw_slot; send_w = s.send_w; p_notif = s.p_notif; tok_p =
    s.tok_p; ppc = s.ppc; cpc = s.cpc; pprog = s.pprog; cprog = s.cprog;
    pseq = s.pseq; accepted = s.accepted; received = s.received; dropped =
    s.dropped; chand = s.chand; presults = s.presults; cresults = s.cresults;
    bad = s.bad }

(** val set_cw_lock : st -> bool -> st **)

let set_cw_lock s v =
  { tail = s.tail; head = s.head; ch = s.ch; ct = s.ct; slots = s.slots;
    p_closed = s.p_closed; c_closed = s.c_closed; pdropped = s.pdropped;
    cdropped = s.cdropped; scount = s.scount; rcount = s.rcount; p_rel =
    s.p_rel; c_rel = s.c_rel; cw_lock = v; cw_slot = s.cw_slot; recv_w =
    s.recv_w; c_notif = s.c_notif; tok_c = s.tok_c; pw_lock = s.pw_lock;
    pw_slot = s.pw_slot; send_w = s.send_w; p_notif = s.p_notif; tok_p =
    s.tok_p; ppc = s.ppc; cpc = s.cpc; pprog = s.pprog; cprog = s.cprog;
    pseq = s.pseq; accepted = s.accepted; received = s.received; dropped =
    s.dropped; chand = s.chand; presults = s.presults; cresults = s.cresults;
    bad = s.bad }

(** val set_cw_slot : st -> bool -> st **)

let set_cw_slot s v =
  { tail = s.tail; head = s.head; ch = s.ch; ct = s.ct; slots = s.slots;
    p_closed = s.p_closed; c_closed = s.c_closed; pdropped = s.pdropped;
    cdropped = s.cdropped; scount = s.scount; rcount = s.rcount; p_rel =
    s.p_rel; c_rel = s.c_rel; cw_lock = s.cw_lock; cw_slot = v; recv_w =
    s.recv_w; c_notif = s.c_notif; tok_c = s.tok_c; pw_lock = s.pw_lock;
    pw_slot = s.pw_slot; send_w = s.send_w; p_notif = s.p_notif; tok_p =
    s.tok_p; ppc = s.ppc; cpc = s.cpc; pprog = s.pprog; cprog = s.cprog;
    pseq = s.pseq; accepted = s.accepted; received = s.received; dropped =
    s.dropped; chand = s.chand; presults = s.presults; cresults = s.cresults;
    bad = s.bad }

(** val set_recv_w : st -> n -> st **)

let set_recv_w s v =
  { tail = s.tail; head = s.head; ch = s.ch; ct = s.ct; slots = s.slots;
    p_closed = s.p_closed; c_closed = s.c_closed; pdropped = s.pdropped;
    cdropped = s.cdropped; scount = s.scount; rcount = s.rcount; p_rel =
    s.p_rel; c_rel = s.c_rel; cw_lock = s.cw_lock; cw_slot = s.cw_slot;
    recv_w = v; c_notif = s.c_notif; tok_c = s.tok_c; pw_lock = s.pw_lock;
    pw_slot = s.pw_slot; send_w = s.send_w; p_notif = s.p_notif; tok_p =
    s.tok_p; ppc = s.ppc; cpc = s.cpc; pprog = s.pprog; cprog = s.cprog;
    pseq = s.pseq; accepted = s.accepted; received = s.received; dropped =
    s.dropped; chand = s.chand; presults = s.presults; cresults = s.cresults;
    bad = s.bad }

(** val set_c_notif : st -> bool -> st **)

let set_c_notif s v =
  { tail = s.tail; head = s.head; ch = s.ch; ct = s.ct; slots = s.slots;
    p_closed = s.p_closed; c_closed = s.c_closed; pdropped = s.pdropped;
    cdropped = s.cdropped; scount = s.scount; rcount = s.rcount; p_rel =
    s.p_rel; c_rel = s.c_rel; cw_lock = s.cw_lock; cw_slot = s.cw_slot;
    recv_w = s.recv_w; c_notif = v; tok_c = s.tok_c; pw_lock = s.pw_lock;
    pw_slot = s.pw_slot; send_w = s.send_w; p_notif = s.p_notif; tok_p =
    s.tok_p; ppc = s.ppc; cpc = s.cpc; pprog = s.pprog; cprog = s.cprog;
    pseq = s.pseq; accepted = s.accepted; received = s.received; dropped =
    s.dropped; chand = s.chand; presults = s.presults; cresults = s.cresults;
    bad = s.bad }

(** val set_tok_c : st -> bool -> st **)

let set_tok_c s v =
  { tail = s.tail; head = s.head; ch = s.ch; ct = s.ct; slots = s.slots;
    p_closed = s.p_closed; c_closed = s.c_closed; pdropped = s.pdropped;
    cdropped = s.cdropped; scount = s.scount; rcount = s.rcount; p_rel =
    s.p_rel; c_rel = s.c_rel; cw_lock = s.cw_lock; cw_slot = s.cw_slot;
    recv_w = s.recv_w; c_notif = s.c_notif; tok_c = v; pw_lock = s.pw_lock;
    pw_slot = s.pw_slot; send_w = s.send_w; p_notif = s.p_notif; tok_p =
    s.tok_p; ppc = s.ppc; cpc = s.cpc; pprog = s.pprog; cprog = s.cprog;
    pseq = s.pseq; accepted = s.accepted; received = s.received; dropped =
    s.dropped; chand = s.chand; presults = s.presults; cresults = s.cresults;
    bad = s.bad }

(** val set_pw_lock : st -> bool -> st **)

let set_pw_lock s v =
  { tail = s.tail; head = s.head; ch = s.ch; ct = s.ct; slots = s.slots;
    p_closed = s.p_closed; c_closed = s.c_closed; pdropped = s.pdropped;
    cdropped = s.cdropped; scount = s.scount; rcount = s.rcount; p_rel =
    s.p_rel; c_rel = s.c_rel; cw_lock = s.cw_lock; cw_slot = s.cw_slot;
    recv_w = s.recv_w; c_notif = s.c_notif; tok_c = s.tok_c; pw_lock = v;
    pw_slot = s.pw_slot; send_w = s.send_w; p_notif = s.p_notif; tok_p =
    s.tok_p; ppc = s.ppc; cpc = s.cpc; pprog = s.pprog; cprog = s.cprog;
    pseq = s.pseq; accepted = s.accepted; received = s.received; dropped =
    s.dropped; chand = s.chand; presults = s.presults; cresults = s.cresults;
    bad = s.bad }

(** val set_pw_slot : st -> bool -> st **)

let set_pw_slot s v =
  { tail = s.tail; head = s.head; ch = s.ch; ct = s.ct; slots = s.slots;
    p_closed = s.p_closed; c_closed = s.c_closed; pdropped = s.pdropped;
    cdropped = s.cdropped; scount = s.scount; rcount = s.rcount; p_rel =
    s.p_rel; c_rel = s.c_rel; cw_lock = s.cw_lock; cw_slot = s.cw_slot;
    recv_w = s.recv_w; c_notif = s.c_notif; tok_c = s.tok_c; pw_lock =
    s.pw_lock; pw_slot = v; send_w = s.send_w; p_notif = s.p_notif; tok_p =
    s.tok_p; ppc = s.ppc; cpc = s.cpc; pprog = s.pprog; cprog = s.cprog;
    pseq = s.pseq; accepted = s.accepted; received = s.received; dropped =
    s.dropped; chand = s.chand; presults = s.presults; cresults = s.cresults;
    bad = s.bad }

(** val set_send_w : st -> n -> st **)

let set_send_w s v =
  { tail = s.tail; head = s.head; ch = s.ch; ct = s.ct; slots = s.slots;
    p_closed = s.p_closed; c_closed = s.c_closed; pdropped = s.pdropped;
    cdropped = s.cdropped; scount = s.scount; rcount = s.rcount; p_rel =
    s.p_rel; c_rel = s.c_rel; cw_lock = s.cw_lock; cw_slot = s.cw_slot;
    recv_w = s.recv_w; c_notif = s.c_notif; tok_c = s.tok_c; pw_lock =
    s.pw_lock; pw_slot = s.pw_slot; send_w = v; p_notif = s.p_notif; tok_p =
    s.tok_p; ppc = s.ppc; cpc = s.cpc; pprog = s.pprog; cprog = s.cprog;
    pseq = s.pseq; accepted = s.accepted; received = s.received; dropped =
    s.dropped; chand = s.chand; presults = s.presults; cresults = s.cresults;
    bad = s.bad }

(** val set_p_notif : st -> bool -> st **)

let set_p_notif s v =
  { tail = s.tail; head = s.head; ch = s.ch; ct = s.ct; slots = s.slots;
    p_closed = s.p_closed; c_closed = s.c_closed; pdropped = s.pdropped;
    cdropped = s.cdropped; scount = s.scount; rcount = s.rcount; p_rel =
    s.p_rel; c_rel = s.c_rel; cw_lock = s.cw_lock; cw_slot = s.cw_slot;
    recv_w = s.recv_w; c_notif = s.c_notif; tok_c = s.tok_c; pw_lock =
    s.pw_lock; pw_slot = s.pw_slot; send_w = s.send_w; p_notif = v; tok_p =
    s.tok_p; ppc = s.ppc; cpc = s.cpc; pprog = s.pprog; cprog = s.cprog;
    pseq = s.pseq; accepted = s.accepted; received = s.received; dropped =
    s.dropped; chand = s.chand; presults = s.presults; cresults = s.cresults;
    bad = s.bad }

(** val set_tok_p : st -> bool -> st **)

let set_tok_p s v =
  { tail = s.tail; head = s.head; ch = s.ch; ct = s.ct; slots = s.slots;
    p_closed = s.p_closed; c_closed = s.c_closed; pdropped = s.pdropped;
    cdropped = s.cdropped; scount = s.scount; rcount = s.rcount; p_rel =
    s.p_rel; c_rel = s.c_rel; cw_lock = s.cw_lock; cw_slot = s.cw_slot;
    recv_w = s.recv_w; c_notif = s.c_notif; tok_c = s.tok_c; pw_lock =
    s.pw_lock; pw_slot = s.pw_slot; send_w = s.send_w; p_notif = s.p_notif;
    tok_p = v; ppc = s.ppc; cpc = s.cpc; pprog = s.pprog; cprog = s.cprog;
    pseq = s.pseq; accepted = s.accepted; received = s.received; dropped =
    s.dropped; chand = s.chand; presults = s.presults; cresults = s.cresults;
    bad = s.bad }

(** val set_ppc : st -> ppc_t -> st **)

let set_ppc s v =
  { tail = s.tail; head = s.head; ch = s.ch; ct = s.ct; slots = s.slots;
    p_closed = s.p_closed; c_closed = s.c_closed; pdropped = s.pdropped;
    cdropped = s.cdropped; scount = s.scount; rcount = s.rcount; p_rel =
    s.p_rel; c_rel = s.c_rel; cw_lock = s.cw_lock; cw_slot = s.cw_slot;
    recv_w = s.recv_w; c_notif = s.c_notif; tok_c = s.tok_c; pw_lock =
    s.pw_lock; pw_slot = s.pw_slot; send_w = s.send_w; p_notif = s.p_notif;
    tok_p = s.tok_p; ppc = v; cpc = s.cpc; pprog = s.pprog; cprog = s.cprog;
    pseq = s.pseq; accepted = s.accepted; received = s.received; dropped =
    s.dropped; chand = s.chand; presults = s.presults; cresults = s.cresults;
    bad = s.bad }

(** val set_cpc : st -> cpc_t -> st **)

let set_cpc s v =
  { tail = s.tail; head = s.head; ch = s.ch; ct = s.ct; slots = s.slots;
    p_closed = s.p_closed; c_closed = s.c_closed; pdropped = s.pdropped;
    cdropped = s.cdropped; scount = s.scount; rcount = s.rcount; p_rel =
    s.p_rel; c_rel = s.c_rel; cw_lock = s.cw_lock; cw_slot = s.cw_slot;
    recv_w = s.recv_w; c_notif = s.c_notif; tok_c = s.tok_c; pw_lock =
    s.pw_lock; pw_slot = s.pw_slot; send_w = s.send_w; p_notif = s.p_notif;
    tok_p = s.tok_p; ppc = s.ppc; cpc = v; pprog = s.pprog; cprog = s.cprog;
    pseq = s.pseq; accepted = s.accepted; received = s.received; dropped =
    s.dropped; chand = s.chand; presults = s.presults; cresults = s.cresults;
    bad = s.bad }

(** val set_pprog : st -> pop list -> st **)

let set_pprog s v =
  { tail = s.tail; head = s.head; ch = s.ch; ct = s.ct; slots = s.slots;
    p_closed = s.p_closed; c_closed = s.c_closed; pdropped = s.pdropped;
    cdropped = s.cdropped; scount = s.scount; rcount = s.rcount; p_rel =
    s.p_rel; c_rel = s.c_rel; cw_lock = s.cw_lock; cw_slot = s.cw_slot;
    recv_w = s.recv_w; c_notif = s.c_notif; tok_c = s.tok_c; pw_lock =
    s.pw_lock; pw_slot = s.pw_slot; send_w = s.send_w; p_notif = s.p_notif;
    tok_p = s.tok_p; ppc = s.ppc; cpc = s.cpc; pprog = v; cprog = s.cprog;
    pseq = s.pseq; accepted = s.accepted; received = s.received; dropped =
    s.dropped; chand = s.chand; presults = s.presults; cresults = s.cresults;
    bad = s.bad }

(** val set_cprog : st -> cop list -> st **)

let set_cprog s v =
  { tail = s.tail; head = s.head; ch = s.ch; ct = s.ct; slots = s.slots;
    p_closed = s.p_closed; c_closed = s.c_closed; pdropped = s.pdropped;
    cdropped = s.cdropped; scount = s.scount; rcount = s.rcount; p_rel =
    s.p_rel; c_rel = s.c_rel; cw_lock = s.cw_lock; cw_slot = s.cw_slot;
    recv_w = s.recv_w; c_notif = s.c_notif; tok_c = s.tok_c; pw_lock =
    s.pw_lock; pw_slot = s.pw_slot; send_w = s.send_w; p_notif = s.p_notif;
    tok_p = s.tok_p; ppc = s.ppc; cpc = s.cpc; pprog = s.pprog; cprog = v;
    pseq = s.pseq; accepted = s.accepted; received = s.received; dropped =
    s.dropped; chand = s.chand; presults = s.presults; cresults = s.cresults;
    bad = s.bad }

(** val set_pseq : st -> n -> st **)

let set_pseq s v =
  { tail = s.tail; head = s.head; ch = s.ch; ct = s.ct; slots = s.slots;
    p_closed = s.p_closed; c_closed = s.c_closed; pdropped = s.pdropped;
    cdropped = s.cdropped; scount = s.scount; rcount = s.rcount; p_rel =
    s.p_rel; c_rel = s.c_rel; cw_lock = s.cw_lock; cw_slot = s.cw_slot;
    recv_w = s.recv_w; c_notif = s.c_notif; tok_c = s.tok_c; pw_lock =
    s.pw_lock; pw_slot = s.pw_slot; send_w = s.send_w; p_notif = s.p_notif;
    tok_p = s.tok_p; ppc = s.ppc; cpc = s.cpc; pprog = s.pprog; cprog =
    s.cprog; pseq = v; accepted = s.accepted; received = s.received;
    dropped = s.dropped; chand = s.chand; presults = s.presults; cresults =
    s.cresults; bad = s.bad }

(** val set_accepted : st -> n list -> st **)

let set_accepted s v =
  { tail = s.tail; head = s.head; ch = s.ch; ct = s.ct; slots = s.slots;
    p_closed = s.p_closed; c_closed = s.c_closed; pdropped = s.pdropped;
    cdropped = s.cdropped; scount = s.scount; rcount = s.rcount; p_rel =
    s.p_rel; c_rel = s.c_rel; cw_lock = s.cw_lock; cw_slot = s.cw_slot;
    recv_w = s.recv_w; c_notif = s.c_notif; tok_c = s.tok_c; pw_lock =
    s.pw_lock; pw_slot = s.pw_slot; send_w = s.send_w; p_notif = s.p_notif;
    tok_p = s.tok_p; ppc = s.ppc; cpc = s.cpc; pprog = s.pprog; cprog =
    s.cprog; pseq = s.pseq; accepted = v; received = s.received; dropped =
    s.dropped; chand = s.chand; presults = s.presults; cresults = s.cresults;
    bad = s.bad }

(** val set_received : st -> n list -> st **)

let set_received s v =
  { tail = s.tail; head = s.head; ch = s.ch; ct = s.ct; slots = s.slots;
    p_closed = s.p_closed; c_closed = s.c_closed; pdropped = s.pdropped;
    cdropped = s.cdropped; scount = s.scount; rcount = s.rcount; p_rel =
    s.p_rel; c_rel = s.c_rel; cw_lock = s.cw_lock; cw_slot = s.cw_slot;
    recv_w = s.recv_w; c_notif = s.c_notif; tok_c = s.tok_c; pw_lock =
    s.pw_lock; pw_slot = s.pw_slot; send_w = s.send_w; p_notif = s.p_notif;
    tok_p = s.tok_p; ppc = s.ppc; cpc = s.cpc; pprog = s.pprog; cprog =
    s.cprog; pseq = s.pseq; accepted = s.accepted; received = v; dropped =
    s.dropped; chand = s.chand; presults = s.presults; cresults = s.cresults;
    bad = s.bad }

(** val set_dropped : st -> n list -> st **)

let set_dropped s v =
  { tail = s.tail; head = s.head; ch = s.ch; ct = s.ct; slots = s.slots;
    p_closed = s.p_closed; c_closed = s.c_closed; pdropped = s.pdropped;
    cdropped = s.cdropped; scount = s.scount; rcount = s.rcount; p_rel =
    s.p_rel; c_rel = s.c_rel; cw_lock = s.cw_lock; cw_slot = s.cw_slot;
    recv_w = s.recv_w; c_notif = s.c_notif; tok_c = s.tok_c; pw_lock =
    s.pw_lock; pw_slot = s.pw_slot; send_w = s.send_w; p_notif = s.p_notif;
    tok_p = s.tok_p; ppc = s.ppc; cpc = s.cpc; pprog = s.pprog; cprog =
    s.cprog; pseq = s.pseq; accepted = s.accepted; received = s.received;
    dropped = v; chand = s.chand; presults = s.presults; cresults =
    s.cresults; bad = s.bad }

(** val set_chand : st -> n -> st **)

let set_chand s v =
  { tail = s.tail; head = s.head; ch = s.ch; ct = s.ct; slots = s.slots;
    p_closed = s.p_closed; c_closed = s.c_closed; pdropped = s.pdropped;
    cdropped = s.cdropped; scount = s.scount; rcount = s.rcount; p_rel =
    s.p_rel; c_rel = s.c_rel; cw_lock = s.cw_lock; cw_slot = s.cw_slot;
    recv_w = s.recv_w; c_notif = s.c_notif; tok_c = s.tok_c; pw_lock =
    s.pw_lock; pw_slot = s.pw_slot; send_w = s.send_w; p_notif = s.p_notif;
    tok_p = s.tok_p; ppc = s.ppc; cpc = s.cpc; pprog = s.pprog; cprog =
    s.cprog; pseq = s.pseq; accepted = s.accepted; received = s.received;
    dropped = s.dropped; chand = v; presults = s.presults; cresults =
    s.cresults; bad = s.bad }

(** val set_presults : st -> pres list -> st **)

let set_presults s v =
  { tail = s.tail; head = s.head; ch = s.ch; ct = s.ct; slots = s.slots;
    p_closed = s.p_closed; c_closed = s.c_closed; pdropped = s.pdropped;
    cdropped = s.cdropped; scount = s.scount; rcount = s.rcount; p_rel =
    s.p_rel; c_rel = s.c_rel; cw_lock = s.cw_lock; cw_slot = s.cw_slot;
    recv_w = s.recv_w; c_notif = s.c_notif; tok_c = s.tok_c; pw_lock =
    s.pw_lock; pw_slot = s.pw_slot; send_w = s.send_w; p_notif = s.p_notif;
    tok_p = s.tok_p; ppc = s.ppc; cpc = s.cpc; pprog = s.pprog; cprog =
    s.cprog; pseq = s.pseq; accepted = s.accepted; received = s.received;
    dropped = s.dropped; chand = s.chand; presults = v; cresults =
    s.cresults; bad = s.bad }

(** val set_cresults : st -> cres list -> st **)

let set_cresults s v =
  { tail = s.tail; head = s.head; ch = s.ch; ct = s.ct; slots = s.slots;
    p_closed = s.p_closed; c_closed = s.c_closed; pdropped = s.pdropped;
    cdropped = s.cdropped; scount = s.scount; rcount = s.rcount; p_rel =
    s.p_rel; c_rel = s.c_rel; cw_lock = s.cw_lock; cw_slot = s.cw_slot;
    recv_w = s.recv_w; c_notif = s.c_notif; tok_c = s.tok_c; pw_lock =
    s.pw_lock; pw_slot = s.pw_slot; send_w = s.send_w; p_notif = s.p_notif;
    tok_p = s.tok_p; ppc = s.ppc; cpc = s.cpc; pprog = s.pprog; cprog =
    s.cprog; pseq = s.pseq; accepted = s.accepted; received = s.received;
    dropped = s.dropped; chand = s.chand; presults = s.presults; cresults =
    v; bad = s.bad }

(** val set_bad : st -> bool -> st **)

let set_bad s v =
  { tail = s.tail; head = s.head; ch = s.ch; ct = s.ct; slots = s.slots;
    p_closed = s.p_closed; c_closed = s.c_closed; pdropped = s.pdropped;
    cdropped = s.cdropped; scount = s.scount; rcount = s.rcount; p_rel =
    s.p_rel; c_rel = s.c_rel; cw_lock = s.cw_lock; cw_slot = s.cw_slot;
    recv_w = s.recv_w; c_notif = s.c_notif; tok_c = s.tok_c; pw_lock =
    s.pw_lock; pw_slot = s.pw_slot; send_w = s.send_w; p_notif = s.p_notif;
    tok_p = s.tok_p; ppc = s.ppc; cpc = s.cpc; pprog = s.pprog; cprog =
    s.cprog; pseq = s.pseq; accepted = s.accepted; received = s.received;
    dropped = s.dropped; chand = s.chand; presults = s.presults; cresults =
    s.cresults; bad = v }

(** val b2n : bool -> n **)

let b2n = function
| true -> Npos XH
| false -> N0

(** val upd : (n -> n option) -> n -> n option -> n -> n option **)

let upd f k v x =
  if N.eqb x k then v else f x

(** val init0 : pop list -> cop list -> st **)

let init0 pp0 cp0 =
  { tail = N0; head = N0; ch = N0; ct = N0; slots = (fun _ -> None);
    p_closed = false; c_closed = false; pdropped = false; cdropped = false;
    scount = (Npos XH); rcount = (Npos XH); p_rel = false; c_rel = false;
    cw_lock = false; cw_slot = false; recv_w = N0; c_notif = false; tok_c =
    false; pw_lock = false; pw_slot = false; send_w = N0; p_notif = false;
    tok_p = false; ppc = PIdle; cpc = CIdle; pprog = pp0; cprog = cp0; pseq =
    N0; accepted = []; received = []; dropped = []; chand = N0; presults =
    []; cresults = []; bad = false }

(** val p_done_op : st -> pres -> st **)

let p_done_op s r =
  set_ppc
    (set_presults (set_pprog s (tl s.pprog)) (app s.presults (r :: []))) PIdle

(** val c_next_prog : st -> cres -> cop list **)

let c_next_prog s r =
  match s.cprog with
  | [] -> tl s.cprog
  | c :: _ ->
    (match c with
     | Drain -> (match r with
                 | RVal _ -> s.cprog
                 | _ -> tl s.cprog)
     | _ -> tl s.cprog)

(** val c_done_op : st -> cres -> st **)

let c_done_op s r =
  set_cpc
    (set_cresults (set_cprog s (c_next_prog s r)) (app s.cresults (r :: [])))
    CIdle

(** val p_release : st -> st **)

let p_release s =
  set_ppc (set_p_rel s true) (if s.c_rel then PDrain LdA else PDone)

(** val c_release : st -> st **)

let c_release s =
  set_cpc (set_c_rel s true) (if s.p_rel then CDrain LdA else CDone)

(** val write_slot : n -> st -> st **)

let write_slot phys s =
  let k = N.modulo s.tail phys in
  let s1 = match s.slots k with
           | Some _ -> set_bad s true
           | None -> s in
  set_slots s1 (upd s.slots k (Some s.pseq))

(** val take_slot : n -> bool -> st -> st **)

let take_slot phys toRecv s =
  let k = N.modulo s.head phys in
  (match s.slots k with
   | Some v ->
     let s1 = set_slots s (upd s.slots k None) in
     if toRecv
     then set_chand (set_received s1 (app s.received (v :: []))) v
     else set_dropped s1 (app s.dropped (v :: []))
   | None -> set_bad s true)

type pop_out =
| PoNext of pp
| PoNone
| PoSome

(** val pop_core : n -> bool -> st -> pp -> (st * event0) * pop_out **)

let pop_core phys toRecv s = function
| LdA ->
  ((s, (eLoad VHead ORlx s.head)), (PoNext
    (if N.eqb s.head s.ct then LdB else Slot)))
| LdB ->
  (((set_ct s s.tail), (eLoad VTail OAcq s.tail)),
    (if N.eqb s.head s.tail then PoNone else PoNext Slot))
| Slot -> (((take_slot phys toRecv s), eRSlot), (PoNext StIdx))
| StIdx ->
  (((set_head s (N.add s.head (Npos XH))),
    (eStore VHead ORel (N.add s.head (Npos XH)))), PoSome)

(** val p_push_ok : st -> pctx -> st **)

let p_push_ok s = function
| KLoop r ->
  if r then set_ppc s (PUnreg (UOk, UnLock)) else set_ppc s PNfFence
| _ -> set_ppc s PNfFence

(** val p_push_err : st -> pctx -> st **)

let p_push_err s = function
| KTry -> p_done_op s (PFull s.pseq)
| KFirst -> set_ppc s (PCd (KLoop false))
| KLoop r -> if r then set_ppc s PPark else set_ppc s PSpinDec

(** val p_wake_done : st -> wctx -> st **)

let p_wake_done s = function
| WNotify -> p_done_op s (POk s.pseq)
| WDrop -> p_release s

(** val p_lock_pw : st -> bool -> ppc_t -> ppc_t -> st * event0 **)

let p_lock_pw s slotv fail ok =
  if s.pw_lock
  then ((set_ppc s fail), (eLock VLockP false))
  else ((set_ppc (set_pw_slot (set_pw_lock s true) slotv) ok),
         (eLock VLockP true))

(** val pstep : n -> n -> st -> choice0 -> (st * event0) option **)

let pstep cap phys s c =
  match s.ppc with
  | PIdle ->
    (match s.pprog with
     | [] ->
       let s1 = set_p_closed s true in
       Some ((if s.p_closed then p_release s1 else set_ppc s1 PDrStore),
       (eSwap VClosedP OAcqRel (Npos XH) (b2n s.p_closed)))
     | op :: _ ->
       let s1 = set_p_notif (set_pseq s (N.add s.pseq (Npos XH))) false in
       Some
       ((if s.p_closed
         then p_done_op s1
                (match op with
                 | Send -> PGone s1.pseq
                 | TrySend -> PClosed s1.pseq)
         else set_ppc s1 (PCd
                (match op with
                 | Send -> KFirst
                 | TrySend -> KTry))), (eLoad VClosedP ORlx (b2n s.p_closed))))
  | PCd k ->
    Some
      ((if s.cdropped
        then (match k with
              | KTry -> p_done_op s (PClosed s.pseq)
              | KFirst -> p_done_op s (PGone s.pseq)
              | KLoop r ->
                if r
                then set_ppc s (PUnreg (UClosed, UnLock))
                else p_done_op s (PGone s.pseq))
        else set_ppc s (PPush (k, LdA))),
      (eLoad VConsDropped OAcq (b2n s.cdropped)))
  | PPush (k, p) ->
    (match p with
     | LdA ->
       Some
         ((set_ppc s (PPush (k,
            (if N.leb cap (N.sub s.tail s.ch) then LdB else Slot)))),
         (eLoad VTail ORlx s.tail))
     | LdB ->
       let s1 = set_ch s s.head in
       Some
       ((if N.leb cap (N.sub s.tail s.head)
         then p_push_err s1 k
         else set_ppc s1 (PPush (k, Slot))), (eLoad VHead OAcq s.head))
     | Slot -> Some ((set_ppc (write_slot phys s) (PPush (k, StIdx))), eWSlot)
     | StIdx ->
       Some
         ((p_push_ok
            (set_accepted (set_tail s (N.add s.tail (Npos XH)))
              (app s.accepted (s.pseq :: []))) k),
         (eStore VTail ORel (N.add s.tail (Npos XH)))))
  | PUnreg (a, u) ->
    (match u with
     | UnLock ->
       Some (p_lock_pw s false (PUnreg (a, UnLock)) (PUnreg (a, UnSt)))
     | UnSt ->
       Some ((set_ppc (set_send_w s N0) (PUnreg (a, UnUnlock))),
         (eStore VSendW ORlx N0))
     | UnUnlock ->
       let s1 = set_pw_lock s false in
       Some
       ((match a with
         | UOk -> set_ppc s1 PNfFence
         | UClosed -> p_done_op s1 (PGone s.pseq)), (eUnlock VLockP)))
  | PNfFence -> Some ((set_ppc s PNfLd), eFence)
  | PNfLd ->
    Some
      ((if N.eqb s.recv_w N0
        then p_done_op s (POk s.pseq)
        else set_ppc s (PWake (WNotify, WkLock))),
      (eLoad VRecvW ORlx s.recv_w))
  | PWake (w, k) ->
    (match k with
     | WkLock ->
       if s.cw_lock
       then Some (s, (eLock VLockC false))
       else let s1 = set_cw_lock s true in
            Some
            ((if s.cw_slot
              then set_ppc (set_cw_slot s1 false) (PWake (w, WkSt0))
              else set_ppc s1 (PWake (w, (WkUnlock false)))),
            (eLock VLockC true))
     | WkSt0 ->
       Some ((set_ppc (set_recv_w s N0) (PWake (w, WkStN))),
         (eStore VRecvW ORlx N0))
     | WkStN ->
       Some ((set_ppc (set_c_notif s true) (PWake (w, (WkUnlock true)))),
         (eStore VNotifC ORel (Npos XH)))
     | WkUnlock b ->
       let s1 = set_cw_lock s false in
       Some
       ((if b then set_ppc s1 (PWake (w, WkUnpark)) else p_wake_done s1 w),
       (eUnlock VLockC))
     | WkUnpark ->
       Some ((p_wake_done (set_tok_c s true) w), (eUnpark (Npos XH))))
  | PPark ->
    (match c with
     | CSpur -> Some ((set_ppc s PSwap), ePark)
     | _ ->
       if s.tok_p
       then Some ((set_ppc (set_tok_p s false) PSwap), ePark)
       else None)
  | PSwap ->
    Some ((set_ppc (set_p_notif s false) (PCd (KLoop (negb s.p_notif)))),
      (eSwap VNotifP OAcq N0 (b2n s.p_notif)))
  | PSpinDec ->
    (match c with
     | CSpin -> Some ((set_ppc s (PCd (KLoop false))), eSpin)
     | _ -> Some (p_lock_pw s true (PReg RgLock) (PReg RgSt)))
  | PReg g ->
    (match g with
     | RgLock -> Some (p_lock_pw s true (PReg RgLock) (PReg RgSt))
     | RgSt ->
       Some ((set_ppc (set_send_w s (Npos XH)) (PReg RgUnlock)),
         (eStore VSendW ORlx (Npos XH)))
     | RgUnlock ->
       Some ((set_ppc (set_pw_lock s false) PFence), (eUnlock VLockP)))
  | PFence -> Some ((set_ppc s (PCd (KLoop true))), eFence)
  | PDrStore ->
    Some ((set_ppc (set_pdropped s true) PDrSub),
      (eStore VProdDropped ORel (Npos XH)))
  | PDrSub ->
    let s1 = set_scount s (N.sub s.scount (Npos XH)) in
    Some
    ((if N.eqb s.scount (Npos XH)
      then set_ppc s1 (PWake (WDrop, WkLock))
      else p_release s1), (eFsub VSenderCnt OAcqRel (Npos XH) s.scount))
  | PDrain p ->
    let (p0, o) = pop_core phys false s p in
    let (s1, e) = p0 in
    Some
    ((match o with
      | PoNext p' -> set_ppc s1 (PDrain p')
      | PoNone -> set_ppc s1 PDone
      | PoSome -> set_ppc s1 (PDrain LdA)), e)
  | PDone -> None

(** val c_pop_some : st -> cctx -> st **)

let c_pop_some s = function
| CLoop r ->
  if r then set_cpc s (CUnreg (CUVal, UnLock)) else set_cpc s CNfFence
| CLoopD r ->
  if r then set_cpc s (CUnreg (CUVal, UnLock)) else set_cpc s CNfFence
| _ -> set_cpc s CNfFence

(** val c_pop_none : st -> cctx -> st **)

let c_pop_none s = function
| CTry1 -> set_cpc s (CSc STry)
| CTry2 -> c_done_op s RDisc
| CFirst -> set_cpc s (CPop ((CLoop false), LdA))
| CLoop r -> set_cpc s (CSc (SLoop r))
| CLoopD r ->
  if r then set_cpc s (CUnreg (CUDisc, UnLock)) else c_done_op s RDisc

(** val c_wake_done : st -> wctx -> st **)

let c_wake_done s = function
| WNotify -> c_done_op s (RVal s.chand)
| WDrop -> c_release s

(** val c_lock_cw : st -> bool -> cpc_t -> cpc_t -> st * event0 **)

let c_lock_cw s slotv fail ok =
  if s.cw_lock
  then ((set_cpc s fail), (eLock VLockC false))
  else ((set_cpc (set_cw_slot (set_cw_lock s true) slotv) ok),
         (eLock VLockC true))

(** val cstep : n -> st -> choice0 -> (st * event0) option **)

let cstep phys s c =
  match s.cpc with
  | CIdle ->
    (match s.cprog with
     | [] ->
       let s1 = set_c_closed s true in
       Some ((if s.c_closed then c_release s1 else set_cpc s1 CDrStore),
       (eSwap VClosedC OAcqRel (Npos XH) (b2n s.c_closed)))
     | op :: _ ->
       let s1 = set_c_notif s false in
       Some
       ((if s.c_closed
         then c_done_op s1 RDisc
         else set_cpc s1 (CPop
                ((match op with
                  | TryRecv -> CTry1
                  | _ -> CFirst), LdA))),
       (eLoad VClosedC ORlx (b2n s.c_closed))))
  | CPop (k, p) ->
    let (p0, o) = pop_core phys true s p in
    let (s1, e) = p0 in
    Some
    ((match o with
      | PoNext p' -> set_cpc s1 (CPop (k, p'))
      | PoNone -> c_pop_none s1 k
      | PoSome -> c_pop_some s1 k), e)
  | CSc k ->
    Some
      ((match k with
        | STry ->
          if N.eqb s.scount N0
          then set_cpc s (CPop (CTry2, LdA))
          else c_done_op s REmpty
        | SLoop r ->
          if N.eqb s.scount N0
          then set_cpc s (CPop ((CLoopD r), LdA))
          else if r then set_cpc s CPark else set_cpc s CSpinDec),
      (eLoad VSenderCnt OAcq s.scount))
  | CUnreg (a, u) ->
    (match u with
     | UnLock ->
       Some (c_lock_cw s false (CUnreg (a, UnLock)) (CUnreg (a, UnSt)))
     | UnSt ->
       Some ((set_cpc (set_recv_w s N0) (CUnreg (a, UnUnlock))),
         (eStore VRecvW ORlx N0))
     | UnUnlock ->
       let s1 = set_cw_lock s false in
       Some
       ((match a with
         | CUVal -> set_cpc s1 CNfFence
         | CUDisc -> c_done_op s1 RDisc), (eUnlock VLockC)))
  | CNfFence -> Some ((set_cpc s CNfLd), eFence)
  | CNfLd ->
    Some
      ((if N.eqb s.send_w N0
        then c_done_op s (RVal s.chand)
        else set_cpc s (CWake (WNotify, WkLock))),
      (eLoad VSendW ORlx s.send_w))
  | CWake (w, k) ->
    (match k with
     | WkLock ->
       if s.pw_lock
       then Some (s, (eLock VLockP false))
       else let s1 = set_pw_lock s true in
            Some
            ((if s.pw_slot
              then set_cpc (set_pw_slot s1 false) (CWake (w, WkSt0))
              else set_cpc s1 (CWake (w, (WkUnlock false)))),
            (eLock VLockP true))
     | WkSt0 ->
       Some ((set_cpc (set_send_w s N0) (CWake (w, WkStN))),
         (eStore VSendW ORlx N0))
     | WkStN ->
       Some ((set_cpc (set_p_notif s true) (CWake (w, (WkUnlock true)))),
         (eStore VNotifP ORel (Npos XH)))
     | WkUnlock b ->
       let s1 = set_pw_lock s false in
       Some
       ((if b then set_cpc s1 (CWake (w, WkUnpark)) else c_wake_done s1 w),
       (eUnlock VLockP))
     | WkUnpark -> Some ((c_wake_done (set_tok_p s true) w), (eUnpark N0)))
  | CPark ->
    (match c with
     | CSpur -> Some ((set_cpc s CSwap), ePark)
     | _ ->
       if s.tok_c
       then Some ((set_cpc (set_tok_c s false) CSwap), ePark)
       else None)
  | CSwap ->
    Some
      ((set_cpc (set_c_notif s false) (CPop ((CLoop (negb s.c_notif)), LdA))),
      (eSwap VNotifC OAcq N0 (b2n s.c_notif)))
  | CSpinDec ->
    (match c with
     | CSpin -> Some ((set_cpc s (CPop ((CLoop false), LdA))), eSpin)
     | _ -> Some (c_lock_cw s true (CReg RgLock) (CReg RgSt)))
  | CReg g ->
    (match g with
     | RgLock -> Some (c_lock_cw s true (CReg RgLock) (CReg RgSt))
     | RgSt ->
       Some ((set_cpc (set_recv_w s (Npos XH)) (CReg RgUnlock)),
         (eStore VRecvW ORlx (Npos XH)))
     | RgUnlock ->
       Some ((set_cpc (set_cw_lock s false) CFence), (eUnlock VLockC)))
  | CFence -> Some ((set_cpc s (CPop ((CLoop true), LdA))), eFence)
  | CDrStore ->
    Some ((set_cpc (set_cdropped s true) CDrSub),
      (eStore VConsDropped ORel (Npos XH)))
  | CDrSub ->
    let s1 = set_rcount s (N.sub s.rcount (Npos XH)) in
    Some
    ((if N.eqb s.rcount (Npos XH)
      then set_cpc s1 (CWake (WDrop, WkLock))
      else c_release s1), (eFsub VRecvCnt OAcqRel (Npos XH) s.rcount))
  | CDrain p ->
    let (p0, o) = pop_core phys false s p in
    let (s1, e) = p0 in
    Some
    ((match o with
      | PoNext p' -> set_cpc s1 (CDrain p')
      | PoNone -> set_cpc s1 CDone
      | PoSome -> set_cpc s1 (CDrain LdA)), e)
  | CDone -> None

(** val step0 : n -> n -> st -> tid0 -> choice0 -> (st * event0) option **)

let step0 cap phys s t c =
  match t with
  | TP -> pstep cap phys s c
  | TC -> cstep phys s c

(** val sys : n -> n -> pop list -> cop list -> system **)

let sys cap phys pp0 cp0 =
  { init = (Obj.magic init0 pp0 cp0); step = (Obj.magic step0 cap phys) }

(** val pow2_ge : nat -> n -> n -> n **)

let rec pow2_ge fuel p cap =
  match fuel with
  | O -> p
  | S f -> if N.leb cap p then p else pow2_ge f (N.mul (Npos (XO XH)) p) cap

(** val phys_of : n -> n **)

let phys_of cap =
  pow2_ge (N.to_nat cap) (Npos (XO XH)) cap

(** val replay_spsc :
    n -> n -> pop list -> cop list -> ((tid0 * choice0) * event0) list -> (st
    option, nat) sum **)

let replay_spsc cap phys pp0 cp0 tr =
  Obj.magic replay (sys cap phys pp0 cp0) event_eqb (init0 pp0 cp0) tr
