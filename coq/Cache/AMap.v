(* Cache/AMap.v — association lists keyed by N with an arbitrary payload
   (the per-shard HashMap<K, Arc<CacheEntry<V>>> of cache/src/store.rs).
   The list order stands for the HashMap's iteration order, which the code
   never relies on except in "first 10 entries" sampling (see CacheOps.v).
   No proofs here. *)
From Fibre Require Import Common.Base.

Section AMap.
  Variable V : Type.

  Definition amap := list (N * V).

  Fixpoint afind (k : N) (m : amap) : option V :=
    match m with
    | [] => None
    | (k', v) :: t => if N.eqb k k' then Some v else afind k t
    end.

  Fixpoint adel (k : N) (m : amap) : amap :=
    match m with
    | [] => []
    | (k', v) :: t => if N.eqb k k' then adel k t else (k', v) :: adel k t
    end.

  (* in-place replacement of the payload of k (no-op if absent) *)
  Fixpoint aset (k : N) (v : V) (m : amap) : amap :=
    match m with
    | [] => []
    | (k', v') :: t => if N.eqb k k' then (k', v) :: aset k v t else (k', v') :: aset k v t
    end.

  Definition akeys (m : amap) : list N := map fst m.

  Definition ahas (k : N) (m : amap) : bool :=
    match afind k m with Some _ => true | None => false end.

  (* HashMap::insert: an existing key keeps its bucket (iteration position);
     the position of a new key is unspecified in the code, here: front *)
  Definition aput (k : N) (v : V) (m : amap) : amap :=
    if ahas k m then aset k v m else (k, v) :: m.
End AMap.

Arguments afind {V}.
Arguments adel {V}.
Arguments aput {V}.
Arguments aset {V}.
Arguments akeys {V}.
Arguments ahas {V}.
