(* Cache/PolicyTinyLfu.v — model of cache/src/policy/tinylfu.rs (W-TinyLFU:
   a window LruList in front of a main SlruState, admission by a frequency sketch).
   The count-min sketch (hashing, ahash::RandomState, periodic halving) is an
   abstract component: any state type [sk] with any [sk_incr], [sk_est],
   [sk_clear] and initial value.  The real `cms::CountMinSketch` is one such
   instance; theorems hold for every instance.  What the policy tracks as
   residents is window ++ probationary ++ protected.  evict drains main first and
   then the window tail.  No proofs here. *)
From Fibre Require Import Common.Base Cache.PolicySpec Cache.PolicyLru Cache.PolicySlru.

(* TinyLfuPolicy::new *)
Definition tl_window_target (cap : N) : N :=
  if N.eqb cap 0 then 0 else N.max (round_div cap 100) 1.

Definition tl_main_prot_capacity (cap : N) : N :=
  let main := cap - tl_window_target cap in
  if N.eqb main 0 then 0 else main - N.max (round_div main 5) 1.

Section TinyLfu.
  Variable sk : Type.
  Variable sk_incr : sk -> N -> sk.
  Variable sk_est : sk -> N -> N.
  Variable sk_clear : sk -> sk.
  Variable sk0 : sk.

  Record tlfu := mkTlfu { tl_win : lru_list; tl_main : slru; tl_sk : sk }.

  (* `while window.cost > window_target { pop_back; admit to main or reject }`;
     every iteration pops one window entry, so `length window` is enough fuel.
     [rej] accumulates rejected candidates in reverse. *)
  Fixpoint tl_window_loop (fuel : nat) (wt : N) (s : sk) (win : lru_list) (m : slru)
           (rej : list N) : lru_list * slru * list N :=
    match fuel with
    | O => (win, m, rev rej)
    | S f =>
        if N.ltb wt (total win) then
          match ll_pop_back win with
          | None => (win, m, rev rej)
          | Some ((ck, cc), win') =>
              let admit_candidate :=
                match slru_peek_lru m with
                | None => true
                | Some v => N.leb (sk_est s v) (sk_est s ck)    (* est(cand) >= est(victim) *)
                end in
              if admit_candidate
              then tl_window_loop f wt s win' (slru_admit_internal ck cc m) rej
              else tl_window_loop f wt s win' m (ck :: rej)
          end
        else (win, m, rev rej)
    end.

  Definition tl_access (cap k c : N) (s : tlfu) : tlfu :=
    let s1 := sk_incr (tl_sk s) k in
    if ll_has k (tl_win s) then mkTlfu (ll_push_front k c (tl_win s)) (tl_main s) s1
    else mkTlfu (tl_win s) (slru_access (tl_main_prot_capacity cap) k c (tl_main s)) s1.

  Definition tl_admit (cap k c : N) (s : tlfu) : tlfu * out :=
    let s1 := sk_incr (tl_sk s) k in
    if orb (ll_has k (sl_prob (tl_main s))) (ll_has k (sl_prot (tl_main s))) then
      (mkTlfu (tl_win s) (slru_access (tl_main_prot_capacity cap) k c (tl_main s)) s1, OAdmit)
    else
      let win1 := ll_push_front k c (tl_win s) in
      let '(win2, m2, rej) :=
        tl_window_loop (length win1) (tl_window_target cap) s1 win1 (tl_main s) [] in
      (mkTlfu win2 m2 s1, match rej with [] => OAdmit | _ => OAdmitEvict rej end).

  Definition tl_remove (k : N) (s : tlfu) : tlfu :=
    if ll_has k (tl_win s) then mkTlfu (ll_remove k (tl_win s)) (tl_main s) (tl_sk s)
    else mkTlfu (tl_win s) (slru_remove k (tl_main s)) (tl_sk s).

  (* `if cost_to_free == 0 { return (vec![], 0) }`, then main.evict_items, then
     `while total_cost_freed < cost_to_free { window.pop_back() }` *)
  Definition tl_evict (cap n : N) (s : tlfu) : tlfu * list N * N :=
    if N.eqb n 0 then (s, [], 0)
    else let '(m', vs, f) := slru_evict (tl_main_prot_capacity cap) n (tl_main s) in
         let '(vs2, f2, rest) := pop_while n f (rev (tl_win s)) in
         (mkTlfu (rev rest) m' (tl_sk s), vs ++ vs2, f2).

  Definition tl_step (cap : N) (s : tlfu) (cl : call) : tlfu * out :=
    match cl with
    | Access k c => (tl_access cap k c s, ODone)
    | Admit k c => tl_admit cap k c s
    | Remove k => (tl_remove k s, ODone)
    | Evict n => let '(s', vs, f) := tl_evict cap n s in (s', OVictims vs f)
    | Clear => (mkTlfu [] (mkSlru [] []) (sk_clear (tl_sk s)), ODone)
    end.

  Definition tl_tr (s : tlfu) : list kc := tl_win s ++ slru_tr (tl_main s).

  Definition TinyLfuP (cap : N) : policy :=
    mkPolicy tlfu (mkTlfu [] (mkSlru [] []) sk0) (tl_step cap) tl_tr.
End TinyLfu.

(* The D1 replay instance of the sketch: its state is, per on_access/on_admit
   call (each increments exactly once, first thing), the list of candidates the
   implementation rejected in that call.  A rejected candidate estimates 0,
   everything else 1, so `est(cand) >= est(victim)` fails exactly for them.
   The model's own output is then diffed against the implementation's. *)
Definition replay_sk := (list N * list (list N))%type.

Definition replay_incr (s : replay_sk) (_ : N) : replay_sk :=
  match snd s with
  | [] => ([], [])
  | h :: t => (h, t)
  end.

Definition replay_est (s : replay_sk) (k : N) : N := if mem k (fst s) then 0 else 1.

Definition TinyLfuReplayP (rejects : list (list N)) (cap : N) : policy :=
  TinyLfuP replay_sk replay_incr replay_est (fun s => s) ([], rejects) cap.
