(* Cache/Iter.v — models of cache/src/iter.rs (Iter, IterStream, SnapshotIter,
   AsyncSnapshotIter) over an abstract shard content.  No proofs here.

   A shard's HashMap is a list of entries in its (arbitrary but fixed)
   enumeration order: `guard.iter()` of an unchanged map enumerates the same
   sequence every time, which is all the cursor logic relies on.  Every theorem
   is stated for every such order.

   Times are nanosecond counters of cache/src/time.rs as unbounded N (no u64
   wrap).  expires_at = 0 means "no TTL", as in entry.rs. *)
From Fibre Require Import Common.Base.

Record entry := mkE {
  ekey  : N;
  eval  : N;      (* value id *)
  ecost : N;
  eexp  : N;      (* CacheEntry::expires_at, 0 = no TTL *)
  ela   : N       (* CacheEntry::last_accessed, 0 when the cache has no TTI *)
}.

Definition item := (N * N)%type.          (* what the iterators yield: (key, value) *)
Definition item_of (e : entry) : item := (ekey e, eval e).

(* entry.rs CacheEntry::is_expired(tti) at clock value now *)
Definition is_expired (tti : option N) (now : N) (e : entry) : bool :=
  (N.ltb 0 (eexp e) && N.leb (eexp e) now)
  || match tti with
     | Some d => N.leb (ela e + d) now
     | None => false
     end.

Definition live (tti : option N) (now : N) (e : entry) : bool := negb (is_expired tti now e).

(* ------------------------------------------------------------------------ *)
(** Iter / IterStream: batch refill through a (shard_index, items_seen_in_shard)
    cursor.  IterStream's async block is the same loop; D1 drives both. *)

Record cursor := mkCur { c_shard : nat; c_seen : nat }.

Record iter_st := mkIt { it_buf : list item; it_cur : cursor; it_fin : bool }.

Definition iter_init : iter_st := mkIt [] (mkCur 0 0) false.

Section Refill.
  Variable shards : list (list entry).
  Variable tti : option N.
  Variable batch : nat.

  (* Iter::refill_buffer's while loop at clock value [now]; the bool is the
     out-of-fuel marker (true = loop ended by its own condition) *)
  Fixpoint refill (fuel : nat) (now : N) (cur : cursor) (buf : list item) : cursor * list item * bool :=
    match fuel with
    | O => (cur, buf, false)
    | S f =>
        if ((c_shard cur <? length shards)%nat && (length buf <? batch)%nat)%bool then
          let sh := nth (c_shard cur) shards [] in
          if (length sh <=? c_seen cur)%nat then
            (* items_seen_in_shard >= items_in_shard: next shard *)
            refill f now (mkCur (S (c_shard cur)) 0) buf
          else
            let needed := (batch - length buf)%nat in
            let chunk := firstn needed (skipn (c_seen cur) sh) in     (* .skip(seen).take(needed) *)
            refill f now (mkCur (c_shard cur) (c_seen cur + length chunk))
                   (buf ++ map item_of (filter (live tti now) chunk))
        else (cur, buf, true)
    end.

  Definition refill_fuel : nat := S (length shards + length (concat shards)).

  (* Iter::next (and IterStream::poll_next, whose refill future completes at
     its first poll when no writer holds a shard lock) *)
  Definition iter_next (now : N) (st : iter_st) : option item * iter_st * bool :=
    match it_buf st with
    | x :: b => (Some x, mkIt b (it_cur st) (it_fin st), true)
    | [] =>
        if it_fin st then (None, st, true)
        else
          let '(cur', buf', ok) := refill refill_fuel now (it_cur st) [] in
          let fin' := (length shards <=? c_shard cur')%nat in
          match buf' with
          | x :: b => (Some x, mkIt b cur' fin', ok)
          | [] => (None, mkIt [] cur' fin', ok)
          end
    end.

  (* `for x in iter` : call next until None.  [clk c] is the cache clock during
     the c-th call of next (c = 0,1,..): constant at quiescence. *)
  Fixpoint drain (fuel : nat) (clk : nat -> N) (c : nat) (st : iter_st) : list item * bool :=
    match fuel with
    | O => ([], false)
    | S f =>
        let '(o, st', ok) := iter_next (clk c) st in
        match o with
        | None => ([], ok)
        | Some x => let '(r, ok') := drain f clk (S c) st' in (x :: r, (ok && ok')%bool)
        end
    end.

  Definition drain_fuel : nat := S (S (length (concat shards))).

  Definition iterate_clk (clk : nat -> N) : list item * bool := drain drain_fuel clk 0%nat iter_init.

  (* quiescent iteration at a frozen clock *)
  Definition iterate (now : N) : list item * bool := iterate_clk (fun _ => now).

  (* the harness variant: the clock is advanced by d after each of the first K
     calls of next (and by the rest of K*d when the loop is over) *)
  Definition iterate_adv (now d : N) (K : nat) : list item * bool :=
    iterate_clk (fun c => now + N.of_nat (Nat.min c K) * d).
End Refill.

(* ------------------------------------------------------------------------ *)
(** SnapshotIter / AsyncSnapshotIter: per shard, clone the key set, then
    `cache.fetch(key)` for each key.  fetch goes through the hash to the shard,
    checks expiry at that moment and, on a hit, refreshes last_accessed when
    the cache has a TTI (handles/sync.rs on_hit). *)

Definition touch (tti : option N) (now : N) (e : entry) : entry :=
  match tti with
  | Some _ => mkE (ekey e) (eval e) (ecost e) (eexp e) now
  | None => e
  end.

(* lookup + on_hit inside one shard's map *)
Fixpoint fetch_in (tti : option N) (now : N) (k : N) (sh : list entry) : option N * list entry :=
  match sh with
  | [] => (None, [])
  | e :: r =>
      if N.eqb (ekey e) k then
        if is_expired tti now e then (None, e :: r) else (Some (eval e), touch tti now e :: r)
      else let '(o, r') := fetch_in tti now k r in (o, e :: r')
  end.

(* store.rs get_shard_index with the harness's identity hasher: hash & (n-1),
   n a power of two, i.e. key mod n *)
Definition shard_idx (n : nat) (k : N) : nat := N.to_nat (k mod N.of_nat n).

Fixpoint set_nth {A} (i : nat) (x : A) (l : list A) : list A :=
  match l, i with
  | [], _ => []
  | _ :: t, O => x :: t
  | h :: t, S j => h :: set_nth j x t
  end.

(* Cache::fetch *)
Definition fetch (tti : option N) (now : N) (shards : list (list entry)) (k : N)
  : option N * list (list entry) :=
  let i := shard_idx (length shards) k in
  let '(o, sh') := fetch_in tti now k (nth i shards []) in
  (o, set_nth i sh' shards).

(* the keys of one shard's snapshot, fetched one by one *)
Fixpoint snap_pass (tti : option N) (now : N) (ks : list N) (shards : list (list entry))
  : list item * list (list entry) :=
  match ks with
  | [] => ([], shards)
  | k :: r =>
      let '(o, s1) := fetch tti now shards k in
      let '(os, s2) := snap_pass tti now r s1 in
      (match o with Some v => (k, v) :: os | None => os end, s2)
  end.

(* load_next_shard + the key loop, for shards i, i+1, .. (todo = how many are left) *)
Fixpoint snap_from (tti : option N) (now : N) (todo i : nat) (shards : list (list entry))
  : list item * list (list entry) :=
  match todo with
  | O => ([], shards)
  | S t =>
      let ks := map ekey (nth i shards []) in       (* guard.keys().cloned().collect() *)
      let '(o1, s1) := snap_pass tti now ks shards in
      let '(o2, s2) := snap_from tti now t (S i) s1 in
      (o1 ++ o2, s2)
  end.

(* `for x in cache.iter_snapshot()` at a frozen clock: output and the shards
   afterwards (last_accessed of the yielded entries refreshed) *)
Definition snap_iterate (tti : option N) (now : N) (shards : list (list entry))
  : list item * list (list entry) :=
  snap_from tti now (length shards) 0%nat shards.
