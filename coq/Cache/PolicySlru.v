(* Cache/PolicySlru.v — model of cache/src/policy/slru.rs (SlruState + SlruPolicy).
   Two LruLists (front first, as in PolicyLru.v).  SlruState's functions are
   shared with TinyLfu (PolicyTinyLfu.v), as in the code.  No proofs here. *)
From Fibre Require Import Common.Base Cache.PolicySpec Cache.PolicyLru.

Record slru := mkSlru { sl_prob : lru_list; sl_prot : lru_list }.

Definition ll_has (k : N) (l : lru_list) : bool :=
  match lookup k l with Some _ => true | None => false end.

(* LruList::pop_back: the tail is the last element *)
Definition ll_pop_back (l : lru_list) : option (kc * lru_list) :=
  match rev l with
  | [] => None
  | x :: r => Some (x, rev r)
  end.

(* SlruPolicy::new: prob_capacity = max(1, round(capacity * 0.20)) unless capacity = 0;
   prot_capacity = capacity - prob_capacity (saturating).  Only prot_capacity is used. *)
Definition slru_prob_capacity (cap : N) : N :=
  if N.eqb cap 0 then 0 else N.max (round_div cap 5) 1.

Definition slru_prot_capacity (cap : N) : N := cap - slru_prob_capacity cap.

(* SlruState::maintain_capacities: `while protected.cost > prot_capacity` demote the
   protected tail to the probationary front.  Every iteration pops one protected
   entry, so `length prot` is enough fuel (PolicySlruProofs.slru_maintain_done). *)
Fixpoint slru_maintain (fuel : nat) (pcap : N) (prob prot : lru_list) : lru_list * lru_list :=
  match fuel with
  | O => (prob, prot)
  | S f =>
      if N.ltb pcap (total prot) then
        match ll_pop_back prot with
        | Some ((k, c), prot') => slru_maintain f pcap (ll_push_front k c prob) prot'
        | None => (prob, prot)
        end
      else (prob, prot)
  end.

Definition slru_maintain_all (pcap : N) (s : slru) : slru :=
  let '(pb, pt) := slru_maintain (length (sl_prot s)) pcap (sl_prob s) (sl_prot s) in
  mkSlru pb pt.

(* SlruState::access_internal.  NB the cost argument replaces the recorded cost. *)
Definition slru_access (pcap k c : N) (s : slru) : slru :=
  if ll_has k (sl_prot s) then mkSlru (sl_prob s) (ll_push_front k c (sl_prot s))
  else if ll_has k (sl_prob s) then
    slru_maintain_all pcap (mkSlru (ll_remove k (sl_prob s)) (ll_push_front k c (sl_prot s)))
  else s.

(* SlruState::admit_internal (used by TinyLfu only) *)
Definition slru_admit_internal (k c : N) (s : slru) : slru :=
  if andb (negb (ll_has k (sl_prot s))) (negb (ll_has k (sl_prob s)))
  then mkSlru (ll_push_front k c (sl_prob s)) (sl_prot s)
  else if ll_has k (sl_prob s) then mkSlru (ll_push_front k c (sl_prob s)) (sl_prot s)
  else s.

(* SlruState::peek_lru (used by TinyLfu only) *)
Definition slru_peek_lru (s : slru) : option N :=
  match ll_pop_back (sl_prob s) with
  | Some ((k, _), _) => Some k
  | None => match ll_pop_back (sl_prot s) with
            | Some ((k, _), _) => Some k
            | None => None
            end
  end.

(* SlruPolicy::on_admit: a key already in the protected segment is refreshed
   there with the new cost; anything else is pushed to the probationary front
   (`push_front` updates the cost of an existing key) *)
Definition slru_admit (k c : N) (s : slru) : slru :=
  if ll_has k (sl_prot s)
  then mkSlru (sl_prob s) (ll_push_front k c (sl_prot s))
  else mkSlru (ll_push_front k c (sl_prob s)) (sl_prot s).

Definition slru_remove (k : N) (s : slru) : slru :=
  if ll_has k (sl_prob s) then mkSlru (ll_remove k (sl_prob s)) (sl_prot s)
  else mkSlru (sl_prob s) (ll_remove k (sl_prot s)).

(* SlruState::evict_items: maintain_capacities, then pop the probationary tail
   while cost_to_free > 0, then the protected tail.  `cost_to_free` is
   `want - freed` saturating, so `> 0` is `freed < want` ([pop_while]). *)
Definition slru_evict (pcap n : N) (s : slru) : slru * list N * N :=
  let s1 := slru_maintain_all pcap s in
  let '(vs1, f1, rest1) := pop_while n 0 (rev (sl_prob s1)) in
  let '(vs2, f2, rest2) := pop_while n f1 (rev (sl_prot s1)) in
  (mkSlru (rev rest1) (rev rest2), vs1 ++ vs2, f2).

Definition slru_step (cap : N) (s : slru) (cl : call) : slru * out :=
  let pcap := slru_prot_capacity cap in
  match cl with
  | Access k c => (slru_access pcap k c s, ODone)
  | Admit k c => (slru_admit k c s, OAdmit)
  | Remove k => (slru_remove k s, ODone)
  | Evict n => let '(s', vs, f) := slru_evict pcap n s in (s', OVictims vs f)
  | Clear => (mkSlru [] [], ODone)
  end.

Definition slru_tr (s : slru) : list kc := sl_prob s ++ sl_prot s.

Definition SlruP (cap : N) : policy :=
  mkPolicy slru (mkSlru [] []) (slru_step cap) slru_tr.
