(* Cache/PolicySieve.v — models of cache/src/policy/{sieve,clock}.rs.
   Entries carry (key, cost, flag).  The HashMap `items` + the order container
   of the Rust code are merged into one ordered entry list (D1 validates).
   No proofs here. *)
From Fibre Require Import Common.Base Cache.PolicySpec.

Definition ent := (N * N * bool)%type.
Definition ekey (e : ent) : N := fst (fst e).
Definition ecost (e : ent) : N := snd (fst e).
Definition eflag (e : ent) : bool := snd e.
Definition ekc (e : ent) : kc := fst e.

Definition eclear (e : ent) : ent := (fst e, false).

Fixpoint erm (k : N) (l : list ent) : list ent :=
  match l with
  | [] => []
  | e :: t => if N.eqb k (ekey e) then erm k t else e :: erm k t
  end.

Fixpoint eset (k : N) (l : list ent) : list ent :=
  match l with
  | [] => []
  | e :: t => if N.eqb k (ekey e) then (fst e, true) :: eset k t else e :: eset k t
  end.

Fixpoint ehas (k : N) (l : list ent) : bool :=
  match l with
  | [] => false
  | e :: t => if N.eqb k (ekey e) then true else ehas k t
  end.

Fixpoint eindex (k : N) (l : list ent) : option nat :=
  match l with
  | [] => None
  | e :: t => if N.eqb k (ekey e) then Some O
              else match eindex k t with Some i => Some (S i) | None => None end
  end.

(* scan from the hand: clear flags of flagged entries until the first unflagged
   one.  Returns (cleared prefix, Some (victim, rest)) or (all cleared, None). *)
Fixpoint scan (l : list ent) : list ent * option (ent * list ent) :=
  match l with
  | [] => ([], None)
  | e :: t =>
      if eflag e then
        let '(cl, r) := scan t in (eclear e :: cl, r)
      else ([], Some (e, t))
  end.

(** SIEVE.  [sv_r] is `order` *reversed*: oldest first, so that the Rust index
    `order.len() - 1 - hand` is position [hand] here, `push_front` appends at
    the end and the fallback "LRU index" is position 0. *)
Record sieve := mkSieve { sv_r : list ent; sv_hand : nat }.

Definition sieve_admit (k c : N) (s : sieve) : sieve :=
  mkSieve (erm k (sv_r s) ++ [(k, c, false)]) (sv_hand s).

Definition sieve_remove (k : N) (s : sieve) : sieve :=
  let r := erm k (sv_r s) in
  mkSieve r (if Nat.leb (length r) (sv_hand s) then O else sv_hand s).

(* one iteration of the outer `while cost_to_free > 0 && !order.is_empty()` *)
Definition sieve_evict_one (s : sieve) : option (ent * sieve) :=
  let pre := firstn (sv_hand s) (sv_r s) in
  let post := skipn (sv_hand s) (sv_r s) in
  match scan post with
  | (cl, Some (v, rest)) => Some (v, mkSieve (pre ++ cl ++ rest) (sv_hand s + length cl))
  | (cl, None) =>
      (* no victim found: hand := 0, then the fallback removes the oldest *)
      match pre ++ cl with
      | [] => None
      | v :: rest => Some (v, mkSieve rest O)
      end
  end.

(* the outer loop shared by both policies: `while cost_to_free > 0 && !empty`
   (cost_to_free = want - freed, saturating).  Every iteration removes one entry,
   so the entry count is enough fuel. *)
Fixpoint evict_loop {St : Type} (one : St -> option (ent * St))
         (fuel : nat) (want freed : N) (s : St) (acc : list N) : St * list N * N :=
  match fuel with
  | O => (s, rev acc, freed)
  | S f =>
      if N.ltb freed want then
        match one s with
        | Some (v, s') => evict_loop one f want (freed + ecost v) s' (ekey v :: acc)
        | None => (s, rev acc, freed)
        end
      else (s, rev acc, freed)
  end.

Definition sieve_step (s : sieve) (cl : call) : sieve * out :=
  match cl with
  | Access k _ => (mkSieve (eset k (sv_r s)) (sv_hand s), ODone)
  | Admit k c => (sieve_admit k c s, OAdmit)
  | Remove k => (sieve_remove k s, ODone)
  | Evict n => let '(s', vs, f) := evict_loop sieve_evict_one (length (sv_r s)) n 0 s [] in
               (s', OVictims vs f)
  | Clear => (mkSieve [] O, ODone)
  end.

Definition SieveP : policy :=
  mkPolicy sieve (mkSieve [] O) sieve_step (fun s => map ekc (sv_r s)).

(** CLOCK.  [ck_o] is `order` as in the code (push at the end), hand an index. *)
Record clock := mkClock { ck_o : list ent; ck_hand : nat }.

(* `entry.cost = cost` for the entry of k: position and reference bit are kept *)
Fixpoint esetcost (k c : N) (l : list ent) : list ent :=
  match l with
  | [] => []
  | e :: t => if N.eqb k (ekey e) then (k, c, eflag e) :: esetcost k c t else e :: esetcost k c t
  end.

Definition clock_admit (k c : N) (s : clock) : clock :=
  if ehas k (ck_o s) then mkClock (esetcost k c (ck_o s)) (ck_hand s)   (* re-admission records the new cost *)
  else mkClock (ck_o s ++ [(k, c, false)]) (ck_hand s).

Definition clock_remove (k : N) (s : clock) : clock :=
  match eindex k (ck_o s) with
  | None => s
  | Some pos =>
      mkClock (erm k (ck_o s))
              (if andb (Nat.leb pos (ck_hand s)) (Nat.ltb O (ck_hand s))
               then pred (ck_hand s) else ck_hand s)
  end.

(* one iteration of the outer loop: advance the hand cyclically, clearing
   reference bits, until an unreferenced entry is found; remove it there.
   (The `swept < 2*len` bound of the code only splits this search over several
   outer iterations; it never ends it.) *)
Definition clock_evict_one (s : clock) : option (ent * clock) :=
  let h := if Nat.leb (length (ck_o s)) (ck_hand s) then O else ck_hand s in
  let pre := firstn h (ck_o s) in
  let post := skipn h (ck_o s) in
  match scan post with
  | (cl, Some (v, rest)) => Some (v, mkClock (pre ++ cl ++ rest) (h + length cl))
  | (cl, None) =>
      match scan (pre ++ cl) with
      | (cl2, Some (v, rest)) => Some (v, mkClock (cl2 ++ rest) (length cl2))
      | (_, None) => None
      end
  end.

Definition clock_step (s : clock) (cl : call) : clock * out :=
  match cl with
  | Access k _ => (mkClock (eset k (ck_o s)) (ck_hand s), ODone)
  | Admit k c => (clock_admit k c s, OAdmit)
  | Remove k => (clock_remove k s, ODone)
  | Evict n => let '(s', vs, f) := evict_loop clock_evict_one (length (ck_o s)) n 0 s [] in
               (s', OVictims vs f)
  | Clear => (mkClock [] O, ODone)
  end.

Definition ClockP : policy :=
  mkPolicy clock (mkClock [] O) clock_step (fun s => map ekc (ck_o s)).
