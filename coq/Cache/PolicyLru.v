(* Cache/PolicyLru.v — models of cache/src/policy/{lru_list,lru,fifo}.rs.
   LruList is a key/cost list, most recently pushed first (head = front).
   The arena + index links + HashMap of the Rust code are an implementation of
   this list; D1 validates that on every run.  No proofs here. *)
From Fibre Require Import Common.Base Cache.PolicySpec.

Definition lru_list := list kc.     (* front first *)

(* LruList::move_to_front *)
Definition ll_move_to_front (k : N) (l : lru_list) : lru_list :=
  match lookup k l with
  | Some c => (k, c) :: rm k l
  | None => l
  end.

(* LruList::push_front: existing key => cost update + move_to_front *)
Definition ll_push_front (k c : N) (l : lru_list) : lru_list := (k, c) :: rm k l.

(* LruList::remove *)
Definition ll_remove (k : N) (l : lru_list) : lru_list := rm k l.

(* repeated LruList::pop_back while freed < want; [r] is the list reversed
   (back first).  Returns victims (in pop order), their total, the remainder
   (still reversed). *)
Fixpoint pop_while (want freed : N) (r : list kc) : list N * N * list kc :=
  match r with
  | [] => ([], freed, [])
  | (k, c) :: t =>
      if N.ltb freed want then
        let '(vs, f, rest) := pop_while want (freed + c) t in (k :: vs, f, rest)
      else ([], freed, r)
  end.

Definition ll_evict (n : N) (l : lru_list) : lru_list * list N * N :=
  let '(vs, f, rest) := pop_while n 0 (rev l) in (rev rest, vs, f).

(* LruPolicy *)
Definition lru_step (l : lru_list) (cl : call) : lru_list * out :=
  match cl with
  | Access k _ => (ll_move_to_front k l, ODone)
  | Admit k c => (ll_push_front k c l, OAdmit)
  | Remove k => (ll_remove k l, ODone)
  | Evict n => let '(l', vs, f) := ll_evict n l in (l', OVictims vs f)
  | Clear => ([], ODone)
  end.

Definition LruP : policy := mkPolicy lru_list [] lru_step (fun l => l).

(* Fifo: on_access is a no-op; on_admit pushes only if absent (finding F-19:
   a re-admission with a different cost keeps the old cost); evict's
   `while cost_to_free > 0 { cost_to_free = saturating_sub(cost) }` is the same
   loop as `freed < want` *)
Definition fifo_step (l : lru_list) (cl : call) : lru_list * out :=
  match cl with
  | Access _ _ => (l, ODone)
  | Admit k c => (match lookup k l with Some _ => l | None => ll_push_front k c l end, OAdmit)
  | Remove k => (ll_remove k l, ODone)
  | Evict n => let '(l', vs, f) := ll_evict n l in (l', OVictims vs f)
  | Clear => ([], ODone)
  end.

Definition FifoP : policy := mkPolicy lru_list [] fifo_step (fun l => l).
