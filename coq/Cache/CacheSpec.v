(* Cache/CacheSpec.v — observation functions and specification-side definitions
   used by the statements of C11, C12, C13, C16 (Props/C1x.v).  No proofs here. *)
From Fibre Require Import Common.Base Cache.PolicySpec Cache.AMap Cache.CacheOps.

Section Spec.
  Variable P : policy.
  Variable c : cfg.
  Notation state := (state P).

  (** ** observations *)
  Definition smap (s : state) (j : N) : amap entry := s_map P (st_sh P s j).

  (* every notification handed to the channel and not dropped, oldest first
     (the notifier thread only moves the split point between log and queue) *)
  Definition sent (s : state) : list notif := st_log P s ++ st_nq P s.

  Definition vfind (s : state) (k : N) : option N := option_map e_val (find P c s k).

  (* no key twice in a shard map *)
  Definition wf (s : state) : Prop := forall j, NoDup (akeys (smap s j)).

  (* an entry is live at [now]: TTL not reached, and not idle for TTI *)
  Definition live (now : N) (e : entry) : Prop :=
    (e_exp e = 0 \/ now < e_exp e) /\ (forall d, c_tti c = Some d -> now < e_la e + d).

  Definition reachable (s : state) : Prop := exists now0 ops, s = state_after P c now0 ops.

  (** ** C11: the per-key register that may forget *)
  Definition reg := N -> option N.
  Definition rset (r : reg) (k : N) (v : option N) : reg := fun j => if N.eqb j k then v else r j.
  Definition reads_ok (r : reg) (k : N) (o : option N) : Prop :=
    match o with None => True | Some v => r k = Some v end.
  Definition pairs_ok (r : reg) (ks : list N) (l : list (N * N)) : Prop :=
    forall k v, In (k, v) l -> In k ks /\ r k = Some v.

  (* the register after [o] returned [x], and what [x] must satisfy *)
  Definition reg_step (r : reg) (o : op) (x : res) : reg * Prop :=
    match o with
    | OInsert k v _ | OInsertTtl k v _ _ => (rset r k (Some v), x = RUnit)
    | OGet k | OFetch k | OPeek k | OEntryGet k =>
        (r, match x with ROpt o => reads_ok r k o | _ => False end)
    | OEntryOrInsert k v _ =>
        match x with
        | RVal y => match r k with
                    | Some w => if N.eqb w y then (r, True) else (rset r k (Some v), y = v)
                    | None => (rset r k (Some v), y = v)
                    end
        | _ => (r, False)
        end
    | OCompute k f =>
        match x with
        | RBool true => (rset r k (option_map (capply f) (r k)), r k <> None)
        | RBool false => (r, True)
        | _ => (r, False)
        end
    | OComputeVal k f =>
        match x with
        | ROpt (Some old) => (rset r k (Some (capply f old)), r k = Some old)
        | ROpt None => (r, True)
        | _ => (r, False)
        end
    | ORemove k => (rset r k None, match x with ROpt o => reads_ok r k o | _ => False end)
    | OInvalidate k => (rset r k None, match x with RBool b => b = true -> r k <> None | _ => False end)
    | OClear => (fun _ => None, x = RUnit)
    | OMultiGet ks | OMultiGetAsync ks =>
        (r, match x with RPairs l => pairs_ok r ks l | _ => False end)
    | OMultiInsert items =>
        (fold_left (fun r it => rset r (fst (fst it)) (Some (snd (fst it)))) items r, x = RUnit)
    | OMultiRemove ks =>
        (fold_left (fun r k => rset r k None) ks r, match x with RPairs l => pairs_ok r ks l | _ => False end)
    | OMultiInvalidate ks => (fold_left (fun r k => rset r k None) ks r, x = RUnit)
    | OMaint _ | OJanitorTick _ _ | OJanitorSignal _ _ | OAdvance _ | ODeliver _ => (r, x = RUnit)
    | OCost => (r, match x with RCost _ => True | _ => False end)
    end.

  Fixpoint accepts (r : reg) (tr : list (op * res)) : Prop :=
    match tr with
    | [] => True
    | (o, x) :: t => let '(r', ok) := reg_step r o x in ok /\ accepts r' t
    end.

  (** ** C12 *)
  (* [o] at state [s] handed the caller the stored value [v] of key [k] *)
  Definition served (s : state) (o : op) (k v : N) : Prop :=
    match o with
    | OGet k' | OFetch k' | OPeek k' | OEntryGet k' | OComputeVal k' _ =>
        k' = k /\ snd (step P c s o) = ROpt (Some v)
    | OEntryOrInsert k' _ _ =>
        (* entry(k) was Occupied and or_insert returned what it held *)
        k' = k /\ exists e, occupied P c s k = Some e /\ e_val e = v
    | OMultiGet _ | OMultiGetAsync _ =>
        exists l, snd (step P c s o) = RPairs l /\ In (k, v) l
    | _ => False
    end.

  Definition is_entry_op (o : op) : bool :=
    match o with OEntryGet _ | OEntryOrInsert _ _ _ => true | _ => false end.
  Definition is_compute_op (o : op) : bool :=
    match o with OComputeVal _ _ | OCompute _ _ => true | _ => false end.

  (* the first sentence of C12: whatever is served is unexpired *)
  Definition C12_served_live : Prop :=
    forall s o k v, served s o k v ->
      exists e, find P c s k = Some e /\ e_val e = v /\ live (st_now P s) e.

  (* o refreshes k's idle timer when it hits *)
  Definition refreshes (o : op) (k : N) : bool :=
    match o with
    | OGet k' | OFetch k' => N.eqb k k'
    | OMultiGet ks | OMultiGetAsync ks => mem k ks
    | _ => false
    end.

  (* o explicitly removes k *)
  Definition removes (o : op) (k : N) : bool :=
    match o with
    | ORemove k' | OInvalidate k' => N.eqb k k'
    | OMultiRemove ks | OMultiInvalidate ks => mem k ks
    | _ => false
    end.
  (* o may replace or drop k's entry without a notification (overwrite, clear) *)
  Definition silent (o : op) (k : N) : bool :=
    match o with
    | OInsert k' _ _ | OInsertTtl k' _ _ _ | OEntryOrInsert k' _ _ => N.eqb k k'
    | OMultiInsert items => mem k (map (fun it => fst (fst it)) items)
    | OClear => true
    | _ => false
    end.

  (* the second sentence of C12: on an unbounded cache no operation other than an
     explicit removal/overwrite of k makes an unexpired entry of k disappear *)
  Definition C12_present : Prop :=
    c_cap c = U64_MAX ->
    forall s o k e,
      wf s -> (forall j k', In k' (akeys (smap s j)) -> shard_of c k' = j) ->
      find P c s k = Some e ->
      live (st_now P (fst (step P c s o))) e ->
      removes o k = false -> silent o k = false ->
      exists e', find P c (fst (step P c s o)) k = Some e' /\ e_id e' = e_id e /\ e_exp e' = e_exp e.

  (** ** C13 *)
  Definition map_cost (m : amap entry) : Z :=
    fold_right (fun ke z => (Z.of_N (e_cost (snd ke)) + z)%Z) 0%Z m.
  Definition resident_cost (s : state) : Z :=
    fold_right (fun j z => (map_cost (smap s j) + z)%Z) 0%Z (nseq (c_shards c)).

  (* shard i's policy tracks exactly the resident entries of shard i, at their costs
     ("every write event reached the policy", and nothing stale is tracked) *)
  Definition in_sync (s : state) (i : N) : Prop :=
    let T := ptracked P (s_pol P (st_sh P s i)) in
    NoDup (keys T) /\ forall k, lookup k T = option_map e_cost (afind k (smap s i)).

  (* the C14 evict clause at shard i's current policy state, plus: an evict that
     cannot free enough evicts everything it tracks *)
  Definition evict_ok_at (s : state) (i : N) : Prop :=
    forall n, let T := ptracked P (s_pol P (st_sh P s i)) in
              let '(p', o) := pstep P (s_pol P (st_sh P s i)) (Evict n) in
              exists vs rel, o = OVictims vs rel /\ evict_ok T (ptracked P p') n vs rel
                             /\ (total T < n -> ptracked P p' = []).

  (** ** C16 *)
  Definition is_maint (o : op) : bool :=
    match o with OMaint _ | OJanitorTick _ _ | OJanitorSignal _ _ => true | _ => false end.

  (* the notifications [new] handed to the channel by operation [o] taking s to s' are truthful:
     each names an entry that was resident with that value, is gone afterwards, and carries the
     reason of what removed it *)
  Definition C16_truthful (s s' : state) (o : op) (new : list notif) : Prop :=
    forall n, In n new ->
      exists e, find P c s (n_key n) = Some e /\ e_id e = n_id n /\ e_val e = n_val n
        /\ (forall e', find P c s' (n_key n) = Some e' -> e_id e' <> n_id n)
        /\ match n_reason n with
           | Invalidated => removes o (n_key n) = true
           | Expired => is_maint o = true /\ (fix_f16 (c_fix c) = true -> expired c (st_now P s) e = true)
           | Capacity => is_maint o = true /\ c_cap c < U64_MAX
           end.

  (* when the channel did not drop anything during o: every entry that o made disappear,
     other than by overwrite or clear, is notified *)
  Definition C16_complete (s s' : state) (o : op) (new : list notif) : Prop :=
    c_listener c = true -> st_ndrops P s' = st_ndrops P s ->
    forall k e, find P c s k = Some e ->
      (forall e', find P c s' k = Some e' -> e_id e' <> e_id e) ->
      silent o k = false ->
      exists n, In n new /\ n_id n = e_id e /\ n_key n = k /\ n_val n = e_val e.

  Definition C16_step (s : state) (o : op) : Prop :=
    let s' := fst (step P c s o) in
    exists new, sent s' = sent s ++ new
                /\ C16_truthful s s' o new /\ C16_complete s s' o new
                /\ (c_listener c = false -> new = []).
End Spec.

(* order-preserving sub-list *)
Inductive subseq {A : Type} : list A -> list A -> Prop :=
| ss_nil : subseq [] []
| ss_skip x l1 l2 : subseq l1 l2 -> subseq l1 (x :: l2)
| ss_keep x l1 l2 : subseq l1 l2 -> subseq (x :: l1) (x :: l2).
