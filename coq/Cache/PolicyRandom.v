(* Cache/PolicyRandom.v — model of cache/src/policy/random.rs.
   `items: HashMap<K, u64>` is an association list (NoDup keys is an invariant).
   The RNG is an abstract component: any state type [rs] and any function
   [choose] from an RNG state and the current key list to an index (taken modulo
   the length) and a next RNG state.  `items.keys().choose(&mut rng)` returns
   *some* current key; every such behaviour is [choose] for some ([rs], [choose]),
   and every ([rs], [choose]) yields a current key.  Theorems hold for all of them.
   No proofs here. *)
From Fibre Require Import Common.Base Cache.PolicySpec Cache.PolicySieve.

Section Random.
  Variable rs : Type.
  Variable choose : rs -> list N -> nat * rs.
  Variable r0 : rs.

  Definition rnd := (list kc * rs)%type.

  (* one iteration of `while cost_to_free > 0 && !items.is_empty()`:
     choose a key, `items.remove(&key)` *)
  Definition rnd_one (st : rnd) : option (ent * rnd) :=
    let '(items, r) := st in
    match items with
    | [] => None
    | d :: _ =>
        let '(i, r') := choose r (keys items) in
        let '(k, c) := nth (Nat.modulo i (length items)) items d in
        Some ((k, c, false), (rm k items, r'))
    end.

  Definition rnd_step (st : rnd) (cl : call) : rnd * out :=
    let '(items, r) := st in
    match cl with
    | Access _ _ => (st, ODone)
    | Admit k c => (((k, c) :: rm k items, r), OAdmit)        (* HashMap::insert *)
    | Remove k => ((rm k items, r), ODone)
    | Evict n => let '(st', vs, f) := evict_loop rnd_one (length items) n 0 st [] in
                 (st', OVictims vs f)
    | Clear => (([], r), ODone)
    end.

  Definition RandomP : policy := mkPolicy rnd ([], r0) rnd_step fst.
End Random.

(* The D1 replay instance: the RNG state is the list of keys the implementation
   chose (all evict calls of the case, in order); [choose] looks the next one up
   in the current key list.  A key that is not there yields index 0, i.e. a
   different victim than the implementation's, which the output diff reports. *)
Fixpoint index_of (k : N) (l : list N) : nat :=
  match l with
  | [] => O
  | x :: t => if N.eqb k x then O else S (index_of k t)
  end.

Definition replay_choose (r : list N) (ks : list N) : nat * list N :=
  match r with
  | [] => (O, [])
  | k :: t => ((if mem k ks then index_of k ks else O), t)
  end.

Definition RandomReplayP (choices : list N) : policy := RandomP (list N) replay_choose choices.
