(* Cache/Snapshot.v — to_snapshot (snapshot.rs), the restore path of
   builder/mod.rs::build_shared_core (as repaired for finding F-23: restored
   entries are admitted to their shard's policy), and the slice of the cache a restored
   cache then lives in: insert / insert_with_ttl / peek / fetch / clock /
   run_maintenance with a per-shard LRU policy (janitor.rs:
   perform_shard_maintenance + cleanup_capacity_for_shard).  No proofs here.

   What is deliberately not here (other properties own it): remove/clear,
   loaders, listeners, the timer wheel (caches that run maintenance are built
   without time_to_live/time_to_idle, so there is no wheel), read-access
   batching (bounded caches are read with peek), the 512-slot bound of the
   write-event channel (fewer undrained writes per shard are assumed). *)
From Fibre Require Import Common.Base Cache.PolicySpec Cache.PolicyLru Cache.Iter.

(* store.rs Shard: the map, the shard's policy (LruPolicy's list, most recent
   first), the write-event buffer (oldest first) *)
Record shardst := mkSh { sh_map : list entry; sh_pol : lru_list; sh_pend : list kc }.

Record cache := mkC {
  c_shs  : list shardst;
  c_cost : N;              (* metrics.current_cost *)
  c_cap  : option N;       (* None: unbounded (u64::MAX, NullPolicy); Some c: capacity c, LRU per shard *)
  c_ttl  : option N;       (* builder time_to_live *)
  c_tti  : option N;       (* builder time_to_idle *)
  c_now  : N               (* the cache clock *)
}.

(* metrics.current_cost is an AtomicU64 updated with fetch_add / fetch_sub: wrapping *)
Definition W64 : N := 2 ^ 64.
Definition wadd (a b : N) : N := (a + b) mod W64.
Definition wsub (a b : N) : N := (a + W64 - b mod W64) mod W64.

Definition empty_sh : shardst := mkSh [] [] [].

Definition new_cache (n : nat) (cap ttl tti : option N) (now : N) : cache :=
  mkC (repeat empty_sh n) 0 cap ttl tti now.

Definition maps (c : cache) : list (list entry) := map sh_map (c_shs c).

Fixpoint set_maps (shs : list shardst) (ms : list (list entry)) : list shardst :=
  match shs, ms with
  | sh :: r, m :: r' => mkSh m (sh_pol sh) (sh_pend sh) :: set_maps r r'
  | _, _ => []
  end.

(* HashMap::insert on one shard: replaces in place, returns the old entry *)
Fixpoint upsert (e : entry) (m : list entry) : list entry * option entry :=
  match m with
  | [] => ([e], None)
  | h :: t =>
      if N.eqb (ekey h) (ekey e) then (e :: t, Some h)
      else let '(t', o) := upsert e t in (h :: t', o)
  end.

(* CacheEntry::new / new_with_custom_expiry *)
Definition new_entry (c : cache) (k v cst : N) (ttl : option N) : entry :=
  mkE k v cst
      (match ttl with Some d => c_now c + d | None => 0 end)
      (match c_tti c with Some _ => c_now c | None => 0 end).

(* Cache::insert / insert_with_ttl: map insert, current_cost -= old, Write event, current_cost += cost *)
Definition insert_entry (c : cache) (e : entry) : cache :=
  let i := shard_idx (length (c_shs c)) (ekey e) in
  let sh := nth i (c_shs c) empty_sh in
  let '(m', old) := upsert e (sh_map sh) in
  let oldc := match old with Some o => ecost o | None => 0 end in
  mkC (set_nth i (mkSh m' (sh_pol sh) (sh_pend sh ++ [(ekey e, ecost e)])) (c_shs c))
      (wadd (wsub (c_cost c) oldc) (ecost e)) (c_cap c) (c_ttl c) (c_tti c) (c_now c).

Definition find_key (k : N) (m : list entry) : option entry := find (fun e => N.eqb (ekey e) k) m.

(* Cache::peek *)
Definition peek (c : cache) (k : N) : option N :=
  match find_key k (nth (shard_idx (length (c_shs c)) k) (maps c) []) with
  | Some e => if is_expired (c_tti c) (c_now c) e then None else Some (eval e)
  | None => None
  end.

(* ------------------------------------------------------------------------ *)
(** run_maintenance *)

Definition drain_limit : nat := 16.     (* COOPERATIVE_MAINTENANCE_DRAIN_LIMIT *)

(* perform_shard_maintenance step 3 with LruPolicy: on_admit = push_front, always Admit *)
Definition admit_all (ws : list kc) (l : lru_list) : lru_list :=
  fold_left (fun l w => ll_push_front (fst w) (snd w) l) ws l.

(* the key/cost pairs of a shard's residents *)
Definition mkc (m : list entry) : list kc := map (fun e => (ekey e, ecost e)) m.

Definition remove_keys (vs : list N) (m : list entry) : list entry :=
  filter (fun e => negb (mem (ekey e) vs)) m.

Definition resident (m : list entry) (k : N) : bool := existsb (fun e => N.eqb (ekey e) k) m.

(* cleanup_capacity_for_shard (since fix 496bcb6): the cost of the entries the
   victim keys actually removed from this shard's map *)
Definition removed_cost (vs : list N) (m : list entry) : N :=
  sumN (map ecost (filter (fun e => mem (ekey e) vs) m)).

(* one shard of Cache::run_maintenance: drain <= 16 write events; a Write event
   whose key is no longer resident is skipped (since fix 0a3449f), the others are
   admitted to the policy with the event's cost; (no timer wheel, no TTI);
   cleanup_capacity_for_shard against the global current_cost: the policy names
   victims for current_cost - capacity, they are removed from this shard's map
   and current_cost drops by the cost of what was actually removed *)
Definition maint_one (cap : option N) (sh : shardst) (cost : N) : shardst * N :=
  let ws := filter (fun w => resident (sh_map sh) (fst w)) (firstn drain_limit (sh_pend sh)) in
  let pend' := skipn drain_limit (sh_pend sh) in
  match cap with
  | None => (mkSh (sh_map sh) (sh_pol sh) pend', cost)
  | Some cp =>
      let pol1 := admit_all ws (sh_pol sh) in
      if N.leb cost cp then (mkSh (sh_map sh) pol1 pend', cost)
      else
        let '(pol2, vs, _) := ll_evict (cost - cp) pol1 in
        match vs with
        | [] => (mkSh (sh_map sh) pol2 pend', cost)
        | _ => (mkSh (remove_keys vs (sh_map sh)) pol2 pend', wsub cost (removed_cost vs (sh_map sh)))
        end
  end.

Fixpoint maint_shards (cap : option N) (shs : list shardst) (cost : N) : list shardst * N :=
  match shs with
  | [] => ([], cost)
  | sh :: r =>
      let '(sh', c1) := maint_one cap sh cost in
      let '(r', c2) := maint_shards cap r c1 in
      (sh' :: r', c2)
  end.

Definition run_maintenance (c : cache) : cache :=
  let '(shs', cost') := maint_shards (c_cap c) (c_shs c) (c_cost c) in
  mkC shs' cost' (c_cap c) (c_ttl c) (c_tti c) (c_now c).

(* ------------------------------------------------------------------------ *)
(** to_snapshot and build_from_snapshot *)

Record pentry := mkP { pkey : N; pval : N; pcost : N; pttl : option N }.   (* PersistentEntry *)
Record snap := mkSnap { s_entries : list pentry; s_cap : option N; s_shards : nat }.

(* expires_at == 0 => None, else Duration::checked_sub *)
Definition pentry_of (now : N) (e : entry) : pentry :=
  mkP (ekey e) (eval e) (ecost e)
      (if N.eqb (eexp e) 0 then None
       else if N.leb now (eexp e) then Some (eexp e - now) else None).

(* all shards write-locked, expired entries skipped *)
Definition snapshot (c : cache) : snap :=
  mkSnap (map (pentry_of (c_now c)) (filter (live (c_tti c) (c_now c)) (concat (maps c))))
         (c_cap c) (length (c_shs c)).

(* CacheEntry::new_with_expiry(value, cost, ttl_remaining.map(|t| now + t), tti) *)
Definition entry_of_p (now : N) (tti : option N) (p : pentry) : entry :=
  mkE (pkey p) (pval p) (pcost p)
      (match pttl p with Some d => now + d | None => 0 end)
      (match tti with Some _ => now | None => 0 end).

(* entries_by_shard[hash % shards].insert(key, entry), in snapshot order *)
Definition restore_shard (n i : nat) (es : list entry) : list entry :=
  fold_left (fun m e => fst (upsert e m))
            (filter (fun e => Nat.eqb (shard_idx n (ekey e)) i) es) [].

(* the policy of shard i after the restore (repaired code, fix of finding F-23):
   every restored entry is admitted to its shard's policy, in snapshot order,
   `cache_policy[index].on_admit(&key, cost)`.  LruPolicy::on_admit always
   answers Admit (push_front), so the Reject branch (entry skipped, its cost
   not counted) and the AdmitAndEvict branch (victims removed from the restored
   maps, on_remove, their cost subtracted) of the repaired code are unreachable
   here.  An unbounded cache has NullPolicy, which tracks nothing. *)
Definition restore_policy (cap : option N) (n i : nat) (es : list entry) : lru_list :=
  match cap with
  | None => []
  | Some _ => admit_all (mkc (filter (fun e => Nat.eqb (shard_idx n (ekey e)) i) es)) []
  end.

(* build_shared_core(Some(snapshot)): capacity and shard count come from the
   snapshot; current_cost = sum of all snapshot costs; every entry admitted to
   its policy; empty event buffers; no eviction at restore time even if the
   snapshot is over capacity (the next maintenance does that); no TTL timer is
   scheduled for restored entries (there is no timer wheel in this model) *)
Definition restore (s : snap) (now : N) (ttl tti : option N) : cache :=
  let es := map (entry_of_p now tti) (s_entries s) in
  mkC (map (fun i => mkSh (restore_shard (s_shards s) i es)
                          (restore_policy (s_cap s) (s_shards s) i es) [])
           (seq 0 (s_shards s)))
      (sumN (map pcost (s_entries s))) (s_cap s) ttl tti now.

(* The order of a snapshot's entries is the hash-map order of the original
   cache, which the model does not know; after the repair it decides the LRU
   order of the restored policy.  The D1 harness therefore reorders the
   deserialized snapshot by key before build_from_snapshot (a snapshot is a bag
   of entries: every reordering is a valid serialized form), and so does the
   model's op.  The theorems hold for every reordering. *)
Fixpoint insert_by_key (p : pentry) (l : list pentry) : list pentry :=
  match l with
  | [] => [p]
  | h :: t => if N.leb (pkey p) (pkey h) then p :: h :: t else h :: insert_by_key p t
  end.

Definition sort_by_key (l : list pentry) : list pentry := fold_right insert_by_key [] l.

Definition reorder (s : snap) : snap := mkSnap (sort_by_key (s_entries s)) (s_cap s) (s_shards s).

(* ------------------------------------------------------------------------ *)
(** the op language of the D1 tie *)

Inductive op :=
| OIns (k v c : N)                  (* insert (builder ttl applies) *)
| OInsTtl (k v c d : N)             (* insert_with_ttl *)
| OAdv (d : N)                      (* clock += d *)
| OFetch (k : N)
| OPeek (k : N)
| OIter (batch : nat) (d : N) (K : nat)   (* iter_with_batch_size / iter_stream_with_batch_size (batch.max(1));
                                         clock += d after each of the first K calls of next, K*d in total *)
| OIterSnap                         (* iter_snapshot / iter_snapshot_async *)
| OSnap (gap : N) (rttl rtti : option N)
                                    (* to_snapshot; clock += gap; build_from_snapshot (entries reordered by key) by a
                                       builder with time_to_live rttl and time_to_idle rtti; continue on the restored
                                       cache.  The builder's time_to_live applies to LATER inserts only: a restored
                                       entry's deadline is now + its persisted ttl_remaining, and an entry persisted
                                       without a TTL gets none (builder/mod.rs: p_entry.ttl_remaining.map(..)) *)
| OMaint                            (* run_maintenance *)
| OCost.                            (* metrics().current_cost *)

Inductive res :=
| RUnit
| RVal (o : option N)
| RItems (l : list item) (ok : bool)
| RSnap (l : list pentry)
| RCost (n : N).

Definition step (c : cache) (o : op) : cache * res :=
  match o with
  | OIns k v cst => (insert_entry c (new_entry c k v cst (c_ttl c)), RUnit)
  | OInsTtl k v cst d => (insert_entry c (new_entry c k v cst (Some d)), RUnit)
  | OAdv d => (mkC (c_shs c) (c_cost c) (c_cap c) (c_ttl c) (c_tti c) (c_now c + d), RUnit)
  | OFetch k =>
      let '(r, ms) := fetch (c_tti c) (c_now c) (maps c) k in
      (mkC (set_maps (c_shs c) ms) (c_cost c) (c_cap c) (c_ttl c) (c_tti c) (c_now c), RVal r)
  | OPeek k => (c, RVal (peek c k))
  | OIter b d K =>
      let '(out, ok) := iterate_adv (maps c) (c_tti c) (Nat.max 1 b) (c_now c) d K in
      (mkC (c_shs c) (c_cost c) (c_cap c) (c_ttl c) (c_tti c)
           (c_now c + N.of_nat K * d), RItems out ok)
  | OIterSnap =>
      let '(out, ms) := snap_iterate (c_tti c) (c_now c) (maps c) in
      (mkC (set_maps (c_shs c) ms) (c_cost c) (c_cap c) (c_ttl c) (c_tti c) (c_now c), RItems out true)
  | OSnap gap rttl rtti =>
      let s := snapshot c in
      (restore (reorder s) (c_now c + gap) rttl rtti, RSnap (s_entries s))
  | OMaint => (run_maintenance c, RUnit)
  | OCost => (c, RCost (c_cost c))
  end.

Fixpoint run (c : cache) (os : list op) : cache * list res :=
  match os with
  | [] => (c, [])
  | o :: r => let '(c1, x) := step c o in
              let '(c2, xs) := run c1 r in (c2, x :: xs)
  end.
