(* Cache/Loader.v — E-LOADER: K3' (section-level) model of fibre_cache's loader single-flight
   (cache/src/handles/sync.rs fetch_with / trigger_background_load / load_value_blocking,
    cache/src/shared.rs spawn_loader_task, cache/src/loader.rs LoadFuture).

   One step = one lock-protected critical section or one atomic action, in source order
   (docs/C15.md lists the sections with file:line).  Actors: callers (threads running a
   program of public API calls) and loader tasks (one per LoadFuture, spawned by the leader).
   The [bool] passed with the scheduled actor is the one bit of nondeterminism the code has
   besides the schedule: a failing [try_lock] in trigger_background_load / a spurious return
   of thread::park.

   Ghost fields (never read by the modelled code, only by theorems): [gt] logical time of the
   step being executed, the f_read_at .. f_ncomplete fields of a future, reset_k/reset_all,
   runs_since, outs/rets/writes.

   NO proofs in this file (Proofs/LoaderProofs.v); everything here is executable and extracted. *)
From Fibre Require Import Common.Base.
Import ListNotations.
Open Scope N_scope.

(* ---------------------------------------------------------------- configuration, ops *)
Record config := { c_ttl : option N;        (* CacheBuilder::time_to_live, in clock units *)
                   c_grace : option N;      (* CacheBuilder::stale_while_revalidate *)
                   c_wheel : N }.           (* timer wheel size (tick = 1 clock unit) *)

Inductive op :=
| OFetch (k : N)                (* Cache::fetch_with(&k) *)
| OInsert (k v c : N)           (* Cache::insert(k, v, c) *)
| ORemove (k : N)               (* Cache::remove(&k) *)
| OInvalidate (k : N)           (* Cache::invalidate(&k) *)
| OAdvance (dt : N)             (* verif_time::advance(dt) *)
| OMaint.                       (* Cache::run_maintenance() *)

Record entry := { e_val : N; e_cost : N; e_exp : N (* 0 = no TTL *); e_timer : option N }.
Record timer := { t_id : N; t_key : N; t_slot : N; t_laps : N }.

Inductive fstate := Computing | Complete (v : N).

(* program counter of a loader task (shared.rs spawn_loader_task, Loader::Sync arm) *)
Inductive tpc :=
| TLoad                         (* about to call the loader closure (no lock held) *)
| TWrite (v c : N)              (* about to take shard.map.write() and insert *)
| TUnmark (v : N)               (* about to take pending_loads[i].lock() and remove(&key) *)
| TComplete (v : N)             (* about to call future.complete(value) *)
| TDone.

Record future := {
  f_key : N; f_state : fstate; f_waiters : list nat; f_tpc : tpc;
  (* ghost *)
  f_read_at : nat;              (* time of the creating caller's map-read section *)
  f_reset_seen : nat;           (* last invalidation/expiry event of f_key before that read *)
  f_created : nat;              (* time of the stripe section that inserted the marker *)
  f_loaded : option (N * N);    (* what the loader returned *)
  f_written : option nat;       (* time of the task's map-write section *)
  f_unmarked : option nat;      (* time of the task's marker removal *)
  f_ncomplete : nat }.          (* number of times complete() ran *)

(* program counter of a caller inside fetch_with *)
Inductive cpc :=
| CIdle                             (* between public calls *)
| CStripe (k : N) (r rs : nat)      (* missed in the map at time r; about to lock the stripe *)
| CWait (k : N) (f : nat)           (* about to lock future f's inner mutex *)
| CPark (k : N) (f : nat).          (* registered as waiter; inside thread::park() *)

Record caller := { c_prog : list op; c_pc : cpc; c_token : bool (* std park token *) }.

Inductive out := ORet (v : N) | OOk | ORem (r : option N) | OInv (b : bool).
Record ret := { r_caller : nat; r_key : N; r_via : option nat; r_val : N }.
Record wr := { w_fut : nat; w_key : N; w_val : N; w_cost : N }.

Record state := {
  clock : N;
  map : N -> option entry;              (* all shards' maps (key -> entry) *)
  pending : N -> option nat;            (* all stripes' pending_loads maps (key -> future id) *)
  futs : nat -> option future; nfut : nat;
  callers : nat -> caller;
  timers : list timer; tick : N; next_timer : N;    (* the shards' timer wheels (in lockstep) *)
  nruns : N; runs : N -> nat;           (* loader invocations: total, per key *)
  (* ghost *)
  gt : nat;
  reset_k : N -> nat; reset_all : nat;  (* time of the last invalidation / expiry-capable event *)
  runs_since : N -> nat;                (* loader runs of k since the last such event for k *)
  outs : list out; rets : list ret; writes : list wr }.

Inductive tid := Caller (c : nat) | Task (f : nat).

(* ---------------------------------------------------------------- small helpers *)
Definition updN {A} (m : N -> A) (k : N) (v : A) : N -> A := fun x => if N.eqb x k then v else m x.
Definition updn {A} (m : nat -> A) (k : nat) (v : A) : nat -> A := fun x => if Nat.eqb x k then v else m x.

Definition vbase : N := 1000.
Definition loader_cost (k v : N) : N := 1 + (k + v) mod 5.

Definition last_reset (s : state) (k : N) : nat := Nat.max (reset_k s k) (reset_all s).

(* setters *)
Definition mkst := Build_state.
Definition w_clock s x := mkst x (map s) (pending s) (futs s) (nfut s) (callers s) (timers s) (tick s) (next_timer s) (nruns s) (runs s) (gt s) (reset_k s) (reset_all s) (runs_since s) (outs s) (rets s) (writes s).
Definition w_map s x := mkst (clock s) x (pending s) (futs s) (nfut s) (callers s) (timers s) (tick s) (next_timer s) (nruns s) (runs s) (gt s) (reset_k s) (reset_all s) (runs_since s) (outs s) (rets s) (writes s).
Definition w_pending s x := mkst (clock s) (map s) x (futs s) (nfut s) (callers s) (timers s) (tick s) (next_timer s) (nruns s) (runs s) (gt s) (reset_k s) (reset_all s) (runs_since s) (outs s) (rets s) (writes s).
Definition w_futs s x := mkst (clock s) (map s) (pending s) x (nfut s) (callers s) (timers s) (tick s) (next_timer s) (nruns s) (runs s) (gt s) (reset_k s) (reset_all s) (runs_since s) (outs s) (rets s) (writes s).
Definition w_nfut s x := mkst (clock s) (map s) (pending s) (futs s) x (callers s) (timers s) (tick s) (next_timer s) (nruns s) (runs s) (gt s) (reset_k s) (reset_all s) (runs_since s) (outs s) (rets s) (writes s).
Definition w_callers s x := mkst (clock s) (map s) (pending s) (futs s) (nfut s) x (timers s) (tick s) (next_timer s) (nruns s) (runs s) (gt s) (reset_k s) (reset_all s) (runs_since s) (outs s) (rets s) (writes s).
Definition w_wheel s ts tk nt := mkst (clock s) (map s) (pending s) (futs s) (nfut s) (callers s) ts tk nt (nruns s) (runs s) (gt s) (reset_k s) (reset_all s) (runs_since s) (outs s) (rets s) (writes s).
Definition w_runs s n r rs := mkst (clock s) (map s) (pending s) (futs s) (nfut s) (callers s) (timers s) (tick s) (next_timer s) n r (gt s) (reset_k s) (reset_all s) rs (outs s) (rets s) (writes s).
Definition w_gt s x := mkst (clock s) (map s) (pending s) (futs s) (nfut s) (callers s) (timers s) (tick s) (next_timer s) (nruns s) (runs s) x (reset_k s) (reset_all s) (runs_since s) (outs s) (rets s) (writes s).
Definition w_reset s rk ra rs := mkst (clock s) (map s) (pending s) (futs s) (nfut s) (callers s) (timers s) (tick s) (next_timer s) (nruns s) (runs s) (gt s) rk ra rs (outs s) (rets s) (writes s).
Definition w_outs s x := mkst (clock s) (map s) (pending s) (futs s) (nfut s) (callers s) (timers s) (tick s) (next_timer s) (nruns s) (runs s) (gt s) (reset_k s) (reset_all s) (runs_since s) x (rets s) (writes s).
Definition w_rets s x := mkst (clock s) (map s) (pending s) (futs s) (nfut s) (callers s) (timers s) (tick s) (next_timer s) (nruns s) (runs s) (gt s) (reset_k s) (reset_all s) (runs_since s) (outs s) x (writes s).
Definition w_writes s x := mkst (clock s) (map s) (pending s) (futs s) (nfut s) (callers s) (timers s) (tick s) (next_timer s) (nruns s) (runs s) (gt s) (reset_k s) (reset_all s) (runs_since s) (outs s) (rets s) x.

Definition mkf := Build_future.
Definition fw_state F st ws := mkf (f_key F) st ws (f_tpc F) (f_read_at F) (f_reset_seen F) (f_created F) (f_loaded F) (f_written F) (f_unmarked F) (f_ncomplete F).
Definition fw_tpc F p := mkf (f_key F) (f_state F) (f_waiters F) p (f_read_at F) (f_reset_seen F) (f_created F) (f_loaded F) (f_written F) (f_unmarked F) (f_ncomplete F).
Definition fw_loaded F x := mkf (f_key F) (f_state F) (f_waiters F) (f_tpc F) (f_read_at F) (f_reset_seen F) (f_created F) x (f_written F) (f_unmarked F) (f_ncomplete F).
Definition fw_written F x := mkf (f_key F) (f_state F) (f_waiters F) (f_tpc F) (f_read_at F) (f_reset_seen F) (f_created F) (f_loaded F) x (f_unmarked F) (f_ncomplete F).
Definition fw_unmarked F x := mkf (f_key F) (f_state F) (f_waiters F) (f_tpc F) (f_read_at F) (f_reset_seen F) (f_created F) (f_loaded F) (f_written F) x (f_ncomplete F).
Definition fw_ncomplete F x := mkf (f_key F) (f_state F) (f_waiters F) (f_tpc F) (f_read_at F) (f_reset_seen F) (f_created F) (f_loaded F) (f_written F) (f_unmarked F) x.

Definition new_future (k : N) (r rs g : nat) : future :=
  mkf k Computing [] TLoad r rs g None None None 0%nat.

Definition set_caller s c (p : list op) (pc : cpc) (tk : bool) : state :=
  w_callers s (updn (callers s) c {| c_prog := p; c_pc := pc; c_token := tk |}).

(* ---------------------------------------------------------------- the timer wheel (task/timer.rs)
   Every function below returns [w_wheel s ...] / [w_map s ...] shaped states so that the
   projections of the result compute by [cbn]. *)
Definition new_timer (cf : config) (s : state) (k ttl : N) : timer :=
  {| t_id := next_timer s; t_key := k; t_slot := (tick s + ttl) mod c_wheel cf; t_laps := ttl / c_wheel cf |}.

(* TimerWheel::schedule when a wheel exists (TTL configured); handle = next_timer s *)
Definition wheel_schedule (cf : config) (s : state) (k : N) : state :=
  w_wheel s (match c_ttl cf with Some t => new_timer cf s k t :: timers s | None => timers s end)
            (tick s)
            (match c_ttl cf with Some _ => next_timer s + 1 | None => next_timer s end).
Definition schedule_handle (cf : config) (s : state) : option N :=
  match c_ttl cf with Some _ => Some (next_timer s) | None => None end.

(* TimerWheel::cancel *)
Definition wheel_cancel (s : state) (h : option N) : state :=
  w_wheel s (match h with
             | None => timers s
             | Some id => filter (fun t => negb (t_id t =? id)) (timers s)
             end) (tick s) (next_timer s).

Fixpoint wheel_sweep (slot : N) (ts : list timer) : list timer * list N :=
  match ts with
  | [] => ([], [])
  | t :: r =>
      let keep := fst (wheel_sweep slot r) in
      let ex := snd (wheel_sweep slot r) in
      if t_slot t =? slot then
        if 0 <? t_laps t then ({| t_id := t_id t; t_key := t_key t; t_slot := t_slot t; t_laps := t_laps t - 1 |} :: keep, ex)
        else (keep, t_key t :: ex)
      else (t :: keep, ex)
  end.

(* TimerWheel::advance (only when a wheel exists): process slot (tick mod size), then tick+1 *)
Definition sweep_now (cf : config) (s : state) : list timer * list N :=
  match c_ttl cf with
  | Some _ => wheel_sweep (tick s mod c_wheel cf) (timers s)
  | None => (timers s, [])
  end.
Definition wheel_advance (cf : config) (s : state) : state :=
  w_wheel s (fst (sweep_now cf s)) (match c_ttl cf with Some _ => tick s + 1 | None => tick s end) (next_timer s).

(* ---------------------------------------------------------------- entries and the read section *)
Definition new_entry (cf : config) (now : N) (v c : N) (h : option N) : entry :=
  {| e_val := v; e_cost := c;
     e_exp := match c_ttl cf with Some t => now + t | None => 0 end;
     e_timer := h |}.

Inductive rd := RHit (v : N) | RStale (v : N) | RMiss.

(* fetch_with's decision under shard.map.read() *)
Definition classify (cf : config) (now : N) (oe : option entry) : rd :=
  match oe with
  | None => RMiss
  | Some e =>
      if e_exp e =? 0 then RHit (e_val e)
      else if now <? e_exp e then RHit (e_val e)
      else match c_grace cf with
           | Some g => if now <? e_exp e + g then RStale (e_val e) else RMiss
           | None => RMiss
           end
  end.

Definition is_fresh (now : N) (oe : option entry) : bool :=
  match oe with
  | None => false
  | Some e => (e_exp e =? 0) || (now <? e_exp e)
  end.

(* create a LoadFuture for k (id = nfut s), insert it as the pending marker and spawn its task *)
Definition create_future (s : state) (k : N) (r rs : nat) : state :=
  w_pending (w_nfut (w_futs s (updn (futs s) (nfut s) (Some (new_future k r rs (gt s))))) (S (nfut s)))
            (updN (pending s) k (Some (nfut s))).

Definition push_out s (o : out) := w_outs s (o :: outs s).
Definition push_ret s c k via v :=
  w_rets s ({| r_caller := c; r_key := k; r_via := via; r_val := v |} :: rets s).

Definition reset_key s (k : N) : state :=
  w_reset s (updN (reset_k s) k (gt s)) (reset_all s) (updN (runs_since s) k 0%nat).
Definition reset_everything s : state :=
  w_reset s (reset_k s) (gt s) (fun _ => 0%nat).
Definition reset_keys s (ks : list N) : state :=
  w_reset s (fun k => if mem k ks then gt s else reset_k s k) (reset_all s)
            (fun k => if mem k ks then 0%nat else runs_since s k).

(* ---------------------------------------------------------------- caller steps *)
Definition entry_timer (oe : option entry) : option N :=
  match oe with Some e => e_timer e | None => None end.

(* Cache::remove: map.write() remove_entry, then cancel the removed entry's timer *)
Definition remove_key (s : state) (k : N) : state :=
  wheel_cancel (w_map s (updN (map s) k None)) (entry_timer (map s k)).

Definition finish s c rest tk (o : out) : state := push_out (set_caller s c rest CIdle tk) o.

Definition start_op (cf : config) (s : state) (c : nat) (tk : bool) (o : op) (rest : list op) (b : bool) : state :=
  match o with
  | OFetch k =>
      (* sync.rs fetch_with: the shard.map.read() section *)
      match classify cf (clock s) (map s k) with
      | RHit v => finish (push_ret s c k None v) c rest tk (ORet v)
      | RStale v =>
          (* trigger_background_load, still under the map read lock *)
          if b then finish (push_ret s c k None v) c rest tk (ORet v)       (* try_lock failed: give up *)
          else match pending s k with
               | Some _ => finish (push_ret s c k None v) c rest tk (ORet v) (* a load is already pending *)
               | None => finish (push_ret (create_future s k (gt s) (last_reset s k)) c k None v) c rest tk (ORet v)
               end
      | RMiss => set_caller s c rest (CStripe k (gt s) (last_reset s k)) tk
      end
  | OInsert k v cst =>
      (* schedule the new timer, map.write() insert, cancel the replaced entry's timer *)
      let s1 := wheel_schedule cf s k in
      let s2 := w_map s1 (updN (map s) k (Some (new_entry cf (clock s) v cst (schedule_handle cf s)))) in
      finish (wheel_cancel s2 (entry_timer (map s k))) c rest tk OOk
  | ORemove k =>
      finish (reset_key (remove_key s k) k) c rest tk
             (ORem (match map s k with Some e => Some (e_val e) | None => None end))
  | OInvalidate k =>
      finish (reset_key (remove_key s k) k) c rest tk
             (OInv (match map s k with Some _ => true | None => false end))
  | OAdvance dt =>
      finish (reset_everything (w_clock s (clock s + dt))) c rest tk OOk
  | OMaint =>
      (* per shard: TimerWheel::advance, then cleanup_ttl_for_shard retains by key hash
         without re-checking expiry *)
      let ex := snd (sweep_now cf s) in
      let s1 := wheel_advance cf s in
      finish (reset_keys (w_map s1 (fun k => if mem k ex then None else map s k)) ex) c rest tk OOk
  end.

Definition caller_step (cf : config) (s : state) (c : nat) (b : bool) : option state :=
  let C := callers s c in
  match c_pc C with
  | CIdle =>
      match c_prog C with
      | [] => None
      | o :: rest => Some (start_op cf s c (c_token C) o rest b)
      end
  | CStripe k r rs =>
      (* load_value_blocking: the pending_loads[i].lock() section *)
      match pending s k with
      | Some f => Some (set_caller s c (c_prog C) (CWait k f) (c_token C))
      | None => Some (set_caller (create_future s k r rs) c (c_prog C) (CWait k (nfut s)) (c_token C))
      end
  | CWait k f =>
      (* future.inner.lock(): take the value, or register while Computing *)
      match futs s f with
      | None => None
      | Some F =>
          match f_state F with
          | Complete v => Some (finish (push_ret s c k (Some f) v) c (c_prog C) (c_token C) (ORet v))
          | Computing =>
              Some (set_caller (w_futs s (updn (futs s) f (Some (fw_state F Computing (c :: f_waiters F)))))
                               c (c_prog C) (CPark k f) (c_token C))
          end
      end
  | CPark k f =>
      (* thread::park(): returns if the token is set (consuming it) or spuriously *)
      if c_token C then Some (set_caller s c (c_prog C) (CWait k f) false)
      else if b then Some (set_caller s c (c_prog C) (CWait k f) false)
      else None
  end.

(* ---------------------------------------------------------------- loader task steps *)
Definition wake_all (cs : nat -> caller) (ws : list nat) : nat -> caller :=
  fun c => if existsb (Nat.eqb c) ws
           then {| c_prog := c_prog (cs c); c_pc := c_pc (cs c); c_token := true |}
           else cs c.

Definition set_fut s (f : nat) (F' : future) : state := w_futs s (updn (futs s) f (Some F')).

Definition task_step (cf : config) (s : state) (f : nat) : option state :=
  match futs s f with
  | None => None
  | Some F =>
      let k := f_key F in
      match f_tpc F with
      | TLoad =>
          (* the loader closure runs here; no lock is held *)
          let v := vbase + nruns s in
          let c := loader_cost k v in
          let s1 := w_runs s (nruns s + 1) (updN (runs s) k (S (runs s k))) (updN (runs_since s) k (S (runs_since s k))) in
          Some (set_fut s1 f (fw_loaded (fw_tpc F (TWrite v c)) (Some (v, c))))
      | TWrite v c =>
          (* shard.map.write(): insert; the old entry's timer is NOT cancelled *)
          let s1 := w_map s (updN (map s) k (Some (new_entry cf (clock s) v c None))) in
          let s2 := w_writes s1 ({| w_fut := f; w_key := k; w_val := v; w_cost := c |} :: writes s1) in
          Some (set_fut s2 f (fw_written (fw_tpc F (TUnmark v)) (Some (gt s))))
      | TUnmark v =>
          (* pending_loads[i].lock().remove(&key) *)
          let s1 := w_pending s (updN (pending s) k None) in
          Some (set_fut s1 f (fw_unmarked (fw_tpc F (TComplete v)) (Some (gt s))))
      | TComplete v =>
          (* LoadFuture::complete: state := Complete; drain + wake every waiter *)
          let s1 := w_callers s (wake_all (callers s) (f_waiters F)) in
          Some (set_fut s1 f (fw_ncomplete (fw_tpc (fw_state F (Complete v) []) TDone) (S (f_ncomplete F))))
      | TDone => None
      end
  end.

Definition step (cf : config) (s : state) (t : tid) (b : bool) : option state :=
  match (match t with Caller c => caller_step cf s c b | Task f => task_step cf s f end) with
  | Some s' => Some (w_gt s' (S (gt s')))
  | None => None
  end.

(* ---------------------------------------------------------------- runs *)
Definition sched := list (tid * bool).

Fixpoint run (cf : config) (s : state) (sch : sched) : state :=
  match sch with
  | [] => s
  | (t, b) :: r => match step cf s t b with
                   | Some s' => run cf s' r
                   | None => run cf s r            (* a disabled choice is skipped *)
                   end
  end.

Definition init (t0 : N) (progs : nat -> list op) : state :=
  {| clock := t0; map := fun _ => None; pending := fun _ => None;
     futs := fun _ => None; nfut := 0%nat;
     callers := fun c => {| c_prog := progs c; c_pc := CIdle; c_token := false |};
     timers := []; tick := 0; next_timer := 0; nruns := 0; runs := fun _ => 0%nat;
     gt := 1%nat; reset_k := fun _ => 0%nat; reset_all := 0%nat; runs_since := fun _ => 0%nat;
     outs := []; rets := []; writes := [] |}.

Definition reachable (cf : config) (t0 : N) (progs : nat -> list op) (s : state) : Prop :=
  exists sch, run cf (init t0 progs) sch = s.

(* ---------------------------------------------------------------- K2 projection (sequential D1)
   Each public call runs to quiescence: the caller steps while it can; when it is blocked
   (parked) or done, the loader tasks step (lowest id first); repeat. *)
Fixpoint first_task (cf : config) (s : state) (n : nat) (f : nat) : option state :=
  match n with
  | O => None
  | S n' => match step cf s (Task f) false with
            | Some s' => Some s'
            | None => first_task cf s n' (S f)
            end
  end.

Fixpoint drive (cf : config) (fuel : nat) (s : state) : state * bool :=
  match fuel with
  | O => (s, false)                                 (* out of fuel (never for fuel >= 16) *)
  | S fu =>
      match step cf s (Caller 0) false with
      | Some s' => drive cf fu s'
      | None => match first_task cf s (nfut s) 0 with
                | Some s' => drive cf fu s'
                | None => (s, true)
                end
      end
  end.

Definition seq_op (cf : config) (s : state) (o : op) : state * bool :=
  let C := callers s 0%nat in
  drive cf 64 (set_caller s 0%nat [o] (c_pc C) (c_token C)).

Fixpoint seq_run (cf : config) (s : state) (ops : list op) : state * bool :=
  match ops with
  | [] => (s, true)
  | o :: r => let '(s1, ok) := seq_op cf s o in
              if ok then seq_run cf s1 r else (s1, false)
  end.
