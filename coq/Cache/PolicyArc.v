(* Cache/PolicyArc.v — model of cache/src/policy/arc.rs.
   Four LruLists (front first): T1/T2 hold residents, B1/B2 are ghost lists.
   What the policy tracks as evictable residents is T1 ++ T2.  The model mirrors
   the code as it is, including finding F-20-arc-admit (on_admit's `replace`
   demotes a resident into a ghost list yet the decision is Admit).  `replace`
   falls back to T1's tail when T2 is empty, so it returns nothing only when
   T1 ++ T2 is empty.  No proofs here. *)
From Fibre Require Import Common.Base Cache.PolicySpec Cache.PolicyLru Cache.PolicySlru
     Cache.PolicySieve.

Record arc := mkArc { a_p : N; a_t1 : lru_list; a_t2 : lru_list; a_b1 : lru_list; a_b2 : lru_list }.

(* `b.push_front(key, cost); if b.current_total_cost() > capacity { b.pop_back(); }` *)
Definition ghost_push (cap k c : N) (b : lru_list) : lru_list :=
  let b1 := ll_push_front k c b in
  if N.ltb cap (total b1) then
    match ll_pop_back b1 with Some (_, b2) => b2 | None => b1 end
  else b1.

(* ArcState::replace *)
Definition arc_replace (cap : N) (key_in_b2 : bool) (s : arc) : option (kc * arc) :=
  let t1c := total (a_t1 s) in
  if andb (N.ltb 0 t1c) (orb (N.leb (a_p s) t1c) (andb key_in_b2 (N.eqb t1c (a_p s)))) then
    match ll_pop_back (a_t1 s) with
    | Some ((k, c), t1') =>
        Some ((k, c), mkArc (a_p s) t1' (a_t2 s) (ghost_push cap k c (a_b1 s)) (a_b2 s))
    | None => None
    end
  else
    match ll_pop_back (a_t2 s) with
    | Some ((k, c), t2') =>
        Some ((k, c), mkArc (a_p s) (a_t1 s) t2' (a_b1 s) (ghost_push cap k c (a_b2 s)))
    | None =>
        (* T2 is empty: fall back to T1's tail *)
        match ll_pop_back (a_t1 s) with
        | Some ((k, c), t1') =>
            Some ((k, c), mkArc (a_p s) t1' (a_t2 s) (ghost_push cap k c (a_b1 s)) (a_b2 s))
        | None => None
        end
    end.

Definition arc_access (k c : N) (s : arc) : arc :=
  if ll_has k (a_t1 s) then
    mkArc (a_p s) (ll_remove k (a_t1 s)) (ll_push_front k c (a_t2 s)) (a_b1 s) (a_b2 s)
  else if ll_has k (a_t2 s) then
    mkArc (a_p s) (a_t1 s) (ll_push_front k c (a_t2 s)) (a_b1 s) (a_b2 s)
  else s.

(* the `delta` of a ghost hit: `(x as f64 / y as f64).round() as u64` when
   y > 0 && x > y, else 1; then `.max(1)` *)
Definition arc_delta (x y : N) : N :=
  N.max (if andb (N.ltb 0 y) (N.ltb y x) then round_div x y else 1) 1.

(* on_admit, ghost lists: a hit in B1 grows p, a hit in B2 (only looked at when
   the key is not in B1) shrinks it.  Returns the new state and `key_in_b2`.
   T1/T2 are untouched. *)
Definition arc_ghost_adapt (cap k : N) (s : arc) : arc * bool :=
  if ll_has k (a_b1 s) then
    let b1' := ll_remove k (a_b1 s) in
    let delta := arc_delta (total (a_b2 s)) (total b1') in
    (mkArc (N.min (a_p s + delta) cap) (a_t1 s) (a_t2 s) b1' (a_b2 s), false)
  else if ll_has k (a_b2 s) then
    let b2' := ll_remove k (a_b2 s) in
    let delta := arc_delta (total (a_b1 s)) (total b2') in
    (mkArc (a_p s - delta) (a_t1 s) (a_t2 s) (a_b1 s) b2', true)
  else (s, false).

(* on_admit, tail: `if t1.cost + t2.cost >= capacity { replace(..); }` (the result
   is dropped: the demoted resident is not reported -- F-20), then push into T1 *)
Definition arc_admit_fresh (cap k c : N) (s1 : arc) (kib2 : bool) : arc :=
  let s2 :=
    if N.leb cap (total (a_t1 s1) + total (a_t2 s1)) then
      match arc_replace cap kib2 s1 with Some (_, s') => s' | None => s1 end
    else s1 in
  mkArc (a_p s2) (ll_push_front k c (a_t1 s2)) (a_t2 s2) (a_b1 s2) (a_b2 s2).

Definition arc_admit (cap k c : N) (s : arc) : arc :=
  if ll_has k (a_t1 s) then
    mkArc (a_p s) (ll_remove k (a_t1 s)) (ll_push_front k c (a_t2 s)) (a_b1 s) (a_b2 s)
  else if ll_has k (a_t2 s) then
    mkArc (a_p s) (a_t1 s) (ll_push_front k c (a_t2 s)) (a_b1 s) (a_b2 s)
  else
    let '(s1, kib2) := arc_ghost_adapt cap k s in
    arc_admit_fresh cap k c s1 kib2.

Definition arc_remove (k : N) (s : arc) : arc :=
  if ll_has k (a_t1 s) then mkArc (a_p s) (ll_remove k (a_t1 s)) (a_t2 s) (a_b1 s) (a_b2 s)
  else if ll_has k (a_t2 s) then mkArc (a_p s) (a_t1 s) (ll_remove k (a_t2 s)) (a_b1 s) (a_b2 s)
  else if ll_has k (a_b1 s) then mkArc (a_p s) (a_t1 s) (a_t2 s) (ll_remove k (a_b1 s)) (a_b2 s)
  else mkArc (a_p s) (a_t1 s) (a_t2 s) (a_b1 s) (ll_remove k (a_b2 s)).

(* one iteration of evict's `while total_cost_freed < cost_to_free` *)
Definition arc_evict_one (cap : N) (s : arc) : option (ent * arc) :=
  let kib2 := match ll_pop_back (a_t1 s) with
              | Some ((k, _), _) => ll_has k (a_b2 s)
              | None => false
              end in
  match arc_replace cap kib2 s with
  | Some ((k, c), s') => Some ((k, c, false), s')
  | None => None
  end.

Definition arc_step (cap : N) (s : arc) (cl : call) : arc * out :=
  match cl with
  | Access k c => (arc_access k c s, ODone)
  | Admit k c => (arc_admit cap k c s, OAdmit)
  | Remove k => (arc_remove k s, ODone)
  | Evict n =>
      let '(s', vs, f) :=
        evict_loop (arc_evict_one cap) (length (a_t1 s) + length (a_t2 s)) n 0 s [] in
      (s', OVictims vs f)
  | Clear => (mkArc 0 [] [] [] [], ODone)
  end.

Definition arc_tr (s : arc) : list kc := a_t1 s ++ a_t2 s.

Definition ArcP (cap : N) : policy := mkPolicy arc (mkArc 0 [] [] [] []) (arc_step cap) arc_tr.
