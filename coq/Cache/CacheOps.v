(* Cache/CacheOps.v — K2 (operation-level, sequential) model of fibre_cache's
   cache: cache/src/handles/sync.rs (+ the mirrored async handle), entry_api.rs,
   entry.rs, store.rs, shared.rs, task/{janitor,timer,access_batcher,notifier}.rs.

   Every function below mirrors one Rust function, defects included; the four
   [fixes] switches select the behaviour after the proposed patches
   (docs/C12.md, docs/C13.md).  [impl_fixes] says which behaviour /repo has
   today and is what the D1 tie runs.  No proofs in this file. *)
From Fibre Require Import Common.Base Cache.PolicySpec Cache.AMap.

(** * constants of the code *)
Definition EVQ_CAP : N := 512.      (* store.rs ACCESS_EVENT_CHANNEL_BUFFER *)
Definition NQ_CAP : N := 128.       (* notifier.rs NOTIFICATION_CHANNEL_CAPACITY *)
Definition COOP_LIMIT : N := 16.    (* janitor.rs COOPERATIVE_MAINTENANCE_DRAIN_LIMIT *)
Definition JAN_LIMIT : N := 256.    (* janitor.rs JANITOR_MAINTENANCE_DRAIN_LIMIT *)
Definition SAMPLE : N := 10.        (* janitor.rs JANITOR_EXPIRE_SAMPLE_SIZE *)
Definition U64 : N := 18446744073709551616.   (* 2^64 *)
Definition U64_MAX : N := 18446744073709551615.

Inductive reason := Capacity | Expired | Invalidated.

(* entry.rs CacheEntry: value id, cost, expires_at (0 = no TTL), last_accessed,
   ttl_timer_handle.  [e_id] is a ghost incarnation number (one per
   CacheEntry allocation); nothing computes with it. *)
Record entry := mkE { e_val : N; e_cost : N; e_exp : N; e_la : N; e_timer : option N; e_id : N }.

(* timer.rs Timer (arena index = t_id) *)
Record timer := mkT { t_id : N; t_key : N; t_slot : N; t_laps : N }.

Record notif := mkNt { n_key : N; n_val : N; n_reason : reason; n_id : N }.

Record fixes := mkFixes {
  fix_f15 : bool;   (* entry(): an expired entry is Vacant; VacantEntry::insert accounts for the replaced entry *)
  fix_f16 : bool;   (* cleanup_ttl_for_shard re-checks is_expired *)
  fix_f18 : bool;   (* cleanup_capacity_for_shard subtracts the cost of the entries it removed *)
  fix_f28 : bool;   (* perform_shard_maintenance admits a Write event only if its key is resident *)
  fix_f33 : bool    (* try_compute_val treats an expired entry as NotFound *)
}.

Definition no_fixes : fixes := mkFixes false false false false false.    (* the code as found *)
Definition all_fixes : fixes := mkFixes true true true true true.
(* what /repo does today — the ONE line to edit after applying a patch; the D1
   tie runs the model with these switches (ocaml/eng_cache.ml) *)
Definition impl_fixes : fixes := mkFixes true false true true true.   (* F-15, F-18, F-28, F-33 repaired in /repo; F-16 recorded *)

Record cfg := mkCfg {
  c_shards : N;            (* power of two >= 1; shard = hash & (n-1), hash = key *)
  c_cap : N;               (* capacity; U64_MAX when unbounded *)
  c_ttl : option N;        (* time_to_live, ns *)
  c_tti : option N;        (* time_to_idle, ns *)
  c_wheel : N;             (* timer wheel slots >= 1 *)
  c_tick : N;              (* timer tick duration, ns, >= 1 *)
  c_listener : bool;
  c_track : bool;          (* some policy uses_access_events *)
  c_opp : bool;            (* maintenance_chance(1): every insert runs opportunistic maintenance *)
  c_intro : bool;          (* maintenance_on_introspection *)
  c_fix : fixes
}.

Inductive cfun := FSet (v : N) | FKeep.
Definition capply (f : cfun) (x : N) : N := match f with FSet v => v | FKeep => x end.

Inductive op :=
| OInsert (k v c : N)
| OInsertTtl (k v c d : N)
| OGet (k : N)                       (* get(k, |v| *v): refreshes TTI, records the access *)
| OFetch (k : N)
| OPeek (k : N)
| OEntryOrInsert (k v c : N)         (* entry(k).or_insert(v, c) / or_insert_with *)
| OEntryGet (k : N)                  (* entry(k): Occupied(o) => Some(o.get()), Vacant => None (dropped) *)
| OCompute (k : N) (f : cfun)        (* compute / try_compute *)
| OComputeVal (k : N) (f : cfun)     (* compute_val / try_compute_val, closure returns the old value *)
| ORemove (k : N)
| OInvalidate (k : N)
| OClear
| OMultiGet (ks : list N)
| OMultiGetAsync (ks : list N)       (* AsyncCache::multiget: calls policy.on_access directly, no batching *)
| OMultiInsert (items : list (N * N * N))
| OMultiRemove (ks : list N)
| OMultiInvalidate (ks : list N)
| OMaint (ord : list N)              (* run_maintenance; [ord] = the order in which the (hash-ordered) read batch is applied *)
| OJanitorTick (i : N) (ord : list N)     (* Janitor::cleanup on shard i (not reachable from the API: theorem coverage only) *)
| OJanitorSignal (i : N) (ord : list N)   (* Janitor::signaled_maintenance on shard i *)
| OAdvance (d : N)                   (* verif_time::advance *)
| OCost                              (* metrics().current_cost *)
| ODeliver (n : N).                  (* the notifier thread hands the next <= n notifications to the listener *)

Inductive res :=
| RUnit
| ROpt (o : option N)
| RBool (b : bool)
| RVal (v : N)
| RPairs (l : list (N * N))
| RCost (c : N).

(** * small helpers *)
Fixpoint take_n {A : Type} (n : N) (l : list A) : list A * list A :=
  match l with
  | [] => ([], [])
  | x :: t => if N.eqb n 0 then ([], l)
              else let '(a, b) := take_n (n - 1) t in (x :: a, b)
  end.

Fixpoint nseq_aux (fuel : nat) (i : N) : list N :=
  match fuel with O => [] | S f => i :: nseq_aux f (i + 1) end.
Definition nseq (n : N) : list N := nseq_aux (N.to_nat n) 0.

(* the order in which a drained read batch (a HashMap) is iterated: any;
   [ord] lists the keys that come first *)
Fixpoint reorder (ord : list N) (b : list kc) : list kc :=
  match ord with
  | [] => b
  | k :: r => match lookup k b with
              | Some c => (k, c) :: reorder r (rm k b)
              | None => reorder r b
              end
  end.

Definition has_wheel (c : cfg) : bool :=
  match c_ttl c, c_tti c with None, None => false | _, _ => true end.

(* entry.rs is_expired *)
Definition expired (c : cfg) (now : N) (e : entry) : bool :=
  (negb (N.eqb (e_exp e) 0) && N.leb (e_exp e) now)
  || match c_tti c with Some d => N.leb (e_la e + d) now | None => false end.

(* timer.rs schedule: (duration / tick).round() *)
Definition ticks_of (c : cfg) (d : N) : N := (2 * d + c_tick c) / (2 * c_tick c).

Definition shard_of (c : cfg) (k : N) : N := k mod (c_shards c).

Section Cache.
  Variable P : policy.
  Variable c : cfg.

  Record shard := mkSh {
    s_map : amap entry;
    s_pol : pst P;
    s_evq : list kc;         (* event_buffer: Write(key, cost), oldest first, bounded EVQ_CAP, try_send drops when full *)
    s_batch : list kc;       (* read_access_batcher: coalesced (first record of a key wins) *)
    s_tick : N;              (* TimerWheel.current_tick *)
    s_timers : list timer
  }.

  Record state := mkSt {
    st_sh : N -> shard;
    st_cc : Z;               (* metrics.current_cost as a mathematical integer; the u64 is st_cc mod 2^64 *)
    st_now : N;              (* virtual clock, ns *)
    st_nq : list notif;      (* notifier channel, oldest first, bounded NQ_CAP, try_send drops when full *)
    st_log : list notif;     (* what the listener has been called with, oldest first *)
    st_tid : N;              (* next timer arena index *)
    st_eid : N;              (* ghost: next incarnation id *)
    st_evdrops : N;          (* ghost: Write events dropped because a buffer was full *)
    st_ndrops : N            (* ghost: notifications dropped because the channel was full *)
  }.

  Definition pcall (p : pst P) (cl : call) : pst P := fst (pstep P p cl).

  Definition init_shard : shard := mkSh [] (pinit P) [] [] 0 [].
  Definition init (now0 : N) : state := mkSt (fun _ => init_shard) 0%Z now0 [] [] 0 0 0 0.

  (** setters *)
  Definition set_sh (s : state) (i : N) (x : shard) : state :=
    mkSt (fun j => if N.eqb j i then x else st_sh s j)
         (st_cc s) (st_now s) (st_nq s) (st_log s) (st_tid s) (st_eid s) (st_evdrops s) (st_ndrops s).
  Definition set_cc (s : state) (z : Z) : state :=
    mkSt (st_sh s) z (st_now s) (st_nq s) (st_log s) (st_tid s) (st_eid s) (st_evdrops s) (st_ndrops s).
  Definition add_cc (s : state) (z : Z) : state := set_cc s (st_cc s + z)%Z.

  Definition sh_map (sh : shard) (m : amap entry) : shard :=
    mkSh m (s_pol sh) (s_evq sh) (s_batch sh) (s_tick sh) (s_timers sh).
  Definition sh_pol (sh : shard) (p : pst P) : shard :=
    mkSh (s_map sh) p (s_evq sh) (s_batch sh) (s_tick sh) (s_timers sh).
  Definition sh_timers (sh : shard) (t : list timer) : shard :=
    mkSh (s_map sh) (s_pol sh) (s_evq sh) (s_batch sh) (s_tick sh) t.

  Definition cc_obs (s : state) : N := Z.to_N (st_cc s mod Z.of_N U64)%Z.

  Definition find (s : state) (k : N) : option entry := afind k (s_map (st_sh s (shard_of c k))).

  (* notification_sender.try_send *)
  Definition notify (s : state) (n : notif) : state :=
    if c_listener c then
      if N.ltb (N.of_nat (length (st_nq s))) NQ_CAP then
        mkSt (st_sh s) (st_cc s) (st_now s) (st_nq s ++ [n]) (st_log s) (st_tid s) (st_eid s) (st_evdrops s) (st_ndrops s)
      else
        mkSt (st_sh s) (st_cc s) (st_now s) (st_nq s) (st_log s) (st_tid s) (st_eid s) (st_evdrops s) (st_ndrops s + 1)
    else s.

  (* event_buffer_tx.try_send(Write(k, cost)) on shard i *)
  Definition ev_push (s : state) (i k cost : N) : state :=
    let sh := st_sh s i in
    if N.ltb (N.of_nat (length (s_evq sh))) EVQ_CAP then
      set_sh s i (mkSh (s_map sh) (s_pol sh) (s_evq sh ++ [(k, cost)]) (s_batch sh) (s_tick sh) (s_timers sh))
    else
      mkSt (st_sh s) (st_cc s) (st_now s) (st_nq s) (st_log s) (st_tid s) (st_eid s) (st_evdrops s + 1) (st_ndrops s).

  (** ** timer wheel (task/timer.rs) *)
  Definition cancel_timer (h : option N) (ts : list timer) : list timer :=
    match h with
    | Some id => filter (fun t => negb (N.eqb (t_id t) id)) ts
    | None => ts
    end.

  (* wheel.schedule(key_hash, d) on shard i; returns the handle *)
  Definition schedule (s : state) (i k d : N) : state * N :=
    let sh := st_sh s i in
    let ticks := ticks_of c d in
    let t := mkT (st_tid s) k ((s_tick sh + ticks) mod c_wheel c) (ticks / c_wheel c) in
    let s1 := set_sh s i (sh_timers sh (t :: s_timers sh)) in
    (mkSt (st_sh s1) (st_cc s1) (st_now s1) (st_nq s1) (st_log s1) (st_tid s + 1) (st_eid s1) (st_evdrops s1) (st_ndrops s1),
     st_tid s).

  (* wheel.advance(): one tick per call *)
  Definition wheel_advance (sh : shard) : list N * shard :=
    let slot := s_tick sh mod c_wheel c in
    let fired := filter (fun t => N.eqb (t_slot t) slot && N.eqb (t_laps t) 0) (s_timers sh) in
    let rest := filter (fun t => negb (N.eqb (t_slot t) slot && N.eqb (t_laps t) 0)) (s_timers sh) in
    let rest' := map (fun t => if N.eqb (t_slot t) slot then mkT (t_id t) (t_key t) (t_slot t) (t_laps t - 1) else t) rest in
    (map t_key fired,
     mkSh (s_map sh) (s_pol sh) (s_evq sh) (s_batch sh) (s_tick sh + 1) rest').

  (** ** perform_shard_maintenance (janitor.rs) *)
  Definition access_all (p : pst P) (l : list kc) : pst P :=
    fold_left (fun p kc => pcall p (Access (fst kc) (snd kc))) l p.

  Definition admit_all (m : amap entry) (p : pst P) (l : list kc) : pst P :=
    fold_left (fun p kc =>
                 if fix_f28 (c_fix c) && negb (ahas (fst kc) m) then p
                 else pcall p (Admit (fst kc) (snd kc))) l p.

  Definition perform (i limit : N) (ord : list N) (s : state) : state :=
    let sh := st_sh s i in
    let '(writes, rest) := take_n limit (s_evq sh) in
    let batch := reorder ord (s_batch sh) in
    let wk := map fst writes in
    let early := filter (fun p => negb (mem (fst p) wk)) batch in
    let late := filter (fun p => mem (fst p) wk) batch in
    let p1 := access_all (s_pol sh) early in
    let p2 := admit_all (s_map sh) p1 writes in
    let p3 := access_all p2 late in
    set_sh s i (mkSh (s_map sh) p3 rest [] (s_tick sh) (s_timers sh)).

  (** ** expiry cleanup *)
  (* remove (k, e) from shard i as cleanup_ttl/tti do: map, policy.on_remove,
     current_cost, [cancel] the entry's TTL timer (TTI cleanup only), notify *)
  Definition drop_entry (rsn : reason) (cancel : bool) (i : N) (s : state) (ke : N * entry) : state :=
    let '(k, e) := ke in
    let sh := st_sh s i in
    let sh' := mkSh (adel k (s_map sh)) (pcall (s_pol sh) (Remove k)) (s_evq sh) (s_batch sh) (s_tick sh)
                    (if cancel then cancel_timer (e_timer e) (s_timers sh) else s_timers sh) in
    notify (add_cc (set_sh s i sh') (- Z.of_N (e_cost e))) (mkNt k (e_val e) rsn (e_id e)).

  (* Janitor::cleanup_ttl_for_shard *)
  Definition cleanup_ttl (i : N) (s : state) : state :=
    if has_wheel c then
      let '(fired, sh1) := wheel_advance (st_sh s i) in
      let s1 := set_sh s i sh1 in
      match fired with
      | [] => s1
      | _ =>
          let victims := filter (fun ke => mem (fst ke) fired
                                           && (negb (fix_f16 (c_fix c)) || expired c (st_now s) (snd ke)))
                                (s_map sh1) in
          fold_left (drop_entry Expired false i) victims s1
      end
    else s.

  (* Janitor::cleanup_tti_for_shard: the first SAMPLE entries of the map's iteration order *)
  Definition cleanup_tti (i : N) (s : state) : state :=
    match c_tti c with
    | None => s
    | Some _ =>
        let victims := filter (fun ke => expired c (st_now s) (snd ke)) (fst (take_n SAMPLE (s_map (st_sh s i)))) in
        fold_left (drop_entry Expired true i) victims s
    end.

  (** ** capacity cleanup (Janitor::cleanup_capacity_for_shard) *)
  (* remove the victims that are (still) in the map, notify; returns the cost actually removed *)
  Definition evict_victim (i : N) (acc : state * N) (k : N) : state * N :=
    let '(s, freed) := acc in
    let sh := st_sh s i in
    match afind k (s_map sh) with
    | Some e => (notify (set_sh s i (sh_map sh (adel k (s_map sh)))) (mkNt k (e_val e) Capacity (e_id e)),
                 freed + e_cost e)
    | None => (s, freed)
    end.

  Definition cleanup_cap (i : N) (s : state) : state :=
    if N.leb (cc_obs s) (c_cap c) then s
    else
      let want := cc_obs s - c_cap c in
      let sh := st_sh s i in
      let '(p', o) := pstep P (s_pol sh) (Evict want) in
      let s1 := set_sh s i (sh_pol sh p') in
      match o with
      | OVictims vs rel =>
          match vs with
          | [] => s1
          | _ => let '(s2, freed) := fold_left (evict_victim i) vs (s1, 0) in
                 add_cc s2 (- Z.of_N (if fix_f18 (c_fix c) then freed else rel))
          end
      | _ => s1
      end.

  Definition maint_shard (ord : list N) (s : state) (i : N) : state :=
    cleanup_cap i (cleanup_tti i (cleanup_ttl i (perform i COOP_LIMIT ord s))).

  (* Cache::run_maintenance *)
  Definition run_maintenance (ord : list N) (s : state) : state :=
    fold_left (maint_shard ord) (nseq (c_shards c)) s.

  Definition janitor_tick (i : N) (ord : list N) (s : state) : state :=
    if N.ltb i (c_shards c)
    then cleanup_cap i (cleanup_tti i (cleanup_ttl i (perform i JAN_LIMIT ord s)))
    else s.

  Definition janitor_signal (i : N) (ord : list N) (s : state) : state :=
    if N.ltb i (c_shards c) then cleanup_cap i (perform i JAN_LIMIT ord s) else s.

  (** ** writes *)
  Definition bump_eid (s : state) : state :=
    mkSt (st_sh s) (st_cc s) (st_now s) (st_nq s) (st_log s) (st_tid s) (st_eid s + 1) (st_evdrops s) (st_ndrops s).

  (* the part of insert / insert_with_ttl / multi_insert that they share:
     [exp] is the new entry's expires_at, [sched] the duration to schedule on the wheel (if any) *)
  Definition insert_core (s : state) (k v cost exp : N) (sched : option N) : state :=
    let i := shard_of c k in
    let '(s1, h) := match sched with
                    | Some d => if has_wheel c then let '(s', id) := schedule s i k d in (s', Some id) else (s, None)
                    | None => (s, None)
                    end in
    let la := match c_tti c with Some _ => st_now s | None => 0 end in
    let e := mkE v cost exp la h (st_eid s) in
    let sh := st_sh s1 i in
    let old := afind k (s_map sh) in
    let s2 := bump_eid (set_sh s1 i (sh_map sh (aput k e (s_map sh)))) in
    let s3 := match old with
              | Some o => let sh2 := st_sh s2 i in
                          add_cc (set_sh s2 i (sh_timers sh2 (cancel_timer (e_timer o) (s_timers sh2))))
                                 (- Z.of_N (e_cost o))
              | None => s2
              end in
    add_cc (ev_push s3 i k cost) (Z.of_N cost).

  Definition opportunistic (s : state) (k : N) : state :=
    if c_opp c then perform (shard_of c k) COOP_LIMIT [] s else s.

  Definition ttl_exp (now : N) : N := match c_ttl c with Some d => now + d | None => 0 end.

  Definition do_insert (s : state) (k v cost : N) : state :=
    opportunistic (insert_core s k v cost (ttl_exp (st_now s)) (c_ttl c)) k.

  Definition do_insert_ttl (s : state) (k v cost d : N) : state :=
    opportunistic (insert_core s k v cost (st_now s + d) (Some d)) k.

  (* VacantEntry::insert: no timer is scheduled.  With fix_f15 the entry found
     expired by entry() is replaced and accounted for like Cache::insert does. *)
  Definition vacant_insert (s : state) (k v cost : N) : state :=
    let i := shard_of c k in
    let la := match c_tti c with Some _ => st_now s | None => 0 end in
    let e := mkE v cost (ttl_exp (st_now s)) la None (st_eid s) in
    let sh := st_sh s i in
    let old := afind k (s_map sh) in
    let s2 := bump_eid (set_sh s i (sh_map sh (aput k e (s_map sh)))) in
    let s3 := match old with
              | Some o => let sh2 := st_sh s2 i in
                          add_cc (set_sh s2 i (sh_timers sh2 (cancel_timer (e_timer o) (s_timers sh2))))
                                 (- Z.of_N (e_cost o))
              | None => s2
              end in
    add_cc (ev_push s3 i k cost) (Z.of_N cost).

  (* entry(k): is the entry Occupied? *)
  Definition occupied (s : state) (k : N) : option entry :=
    match find s k with
    | Some e => if fix_f15 (c_fix c) && expired c (st_now s) e then None else Some e
    | None => None
    end.

  Definition do_or_insert (s : state) (k v cost : N) : state * res :=
    match occupied s k with
    | Some e => (s, RVal (e_val e))
    | None => (vacant_insert s k v cost, RVal v)
    end.

  (** ** reads *)
  (* on_hit: refresh last_accessed when TTI is configured; record the access *)
  Definition on_hit (s : state) (k : N) (e : entry) : state :=
    let i := shard_of c k in
    let sh := st_sh s i in
    let m := match c_tti c with
             | Some _ => aset k (mkE (e_val e) (e_cost e) (e_exp e) (st_now s) (e_timer e) (e_id e)) (s_map sh)
             | None => s_map sh
             end in
    let b := if c_track c then (if mem k (keys (s_batch sh)) then s_batch sh else s_batch sh ++ [(k, e_cost e)])
             else s_batch sh in
    set_sh s i (mkSh m (s_pol sh) (s_evq sh) b (s_tick sh) (s_timers sh)).

  Definition do_read (hit : bool) (s : state) (k : N) : state * option N :=
    match find s k with
    | Some e => if expired c (st_now s) e then (s, None)
                else ((if hit then on_hit s k e else s), Some (e_val e))
    | None => (s, None)
    end.

  (* AsyncCache::multiget's hit path: TTI refresh + policy.on_access right away *)
  Definition on_hit_direct (s : state) (k : N) (e : entry) : state :=
    let i := shard_of c k in
    let sh := st_sh s i in
    let m := match c_tti c with
             | Some _ => aset k (mkE (e_val e) (e_cost e) (e_exp e) (st_now s) (e_timer e) (e_id e)) (s_map sh)
             | None => s_map sh
             end in
    set_sh s i (mkSh m (pcall (s_pol sh) (Access k (e_cost e))) (s_evq sh) (s_batch sh) (s_tick sh) (s_timers sh)).

  Definition do_read_direct (s : state) (k : N) : state * option N :=
    match find s k with
    | Some e => if expired c (st_now s) e then (s, None) else (on_hit_direct s k e, Some (e_val e))
    | None => (s, None)
    end.

  Fixpoint do_multiget_gen (rd : state -> N -> state * option N)
           (s : state) (ks : list N) (acc : list (N * N)) : state * list (N * N) :=
    match ks with
    | [] => (s, rev acc)
    | k :: r => let '(s1, o) := rd s k in
                match o with
                | Some v => do_multiget_gen rd s1 r (if mem k (map fst acc) then acc else (k, v) :: acc)
                | None => do_multiget_gen rd s1 r acc
                end
    end.

  (** ** compute *)
  Definition computable (s : state) (k : N) : option entry :=
    match find s k with
    | Some e => if fix_f33 (c_fix c) && expired c (st_now s) e then None else Some e
    | None => None
    end.

  Definition do_compute (s : state) (k : N) (f : cfun) : state * option N :=
    match computable s k with
    | Some e =>
        let i := shard_of c k in
        let sh := st_sh s i in
        (set_sh s i (sh_map sh (aset k (mkE (capply f (e_val e)) (e_cost e) (e_exp e) (e_la e) (e_timer e) (e_id e))
                                     (s_map sh))),
         Some (e_val e))
    | None => (s, None)
    end.

  (** ** removal *)
  Definition do_remove (s : state) (k : N) : state * option N :=
    let i := shard_of c k in
    let sh := st_sh s i in
    match afind k (s_map sh) with
    | Some e =>
        let sh' := mkSh (adel k (s_map sh)) (pcall (s_pol sh) (Remove k)) (s_evq sh) (s_batch sh) (s_tick sh)
                        (cancel_timer (e_timer e) (s_timers sh)) in
        (notify (add_cc (set_sh s i sh') (- Z.of_N (e_cost e))) (mkNt k (e_val e) Invalidated (e_id e)),
         Some (e_val e))
    | None => (s, None)
    end.

  Fixpoint do_multi_remove (s : state) (ks : list N) (acc : list (N * N)) : state * list (N * N) :=
    match ks with
    | [] => (s, rev acc)
    | k :: r => let '(s1, o) := do_remove s k in
                match o with
                | Some v => do_multi_remove s1 r ((k, v) :: acc)
                | None => do_multi_remove s1 r acc
                end
    end.

  (* Cache::clear: per shard on_remove for every key, map.clear(); then policy.clear();
     current_cost := 0.  Timers, event buffers and read batches are left alone. *)
  Definition clear_shard (s : state) (i : N) : state :=
    let sh := st_sh s i in
    let p := fold_left (fun p k => pcall p (Remove k)) (akeys (s_map sh)) (s_pol sh) in
    set_sh s i (mkSh [] (pcall p Clear) (s_evq sh) (s_batch sh) (s_tick sh) (s_timers sh)).

  Definition do_clear (s : state) : state :=
    set_cc (fold_left clear_shard (nseq (c_shards c)) s) 0%Z.

  Definition do_multi_insert (s : state) (items : list (N * N * N)) : state :=
    fold_left (fun s it => let '(k, v, cost) := it in insert_core s k v cost (ttl_exp (st_now s)) (c_ttl c))
              items s.

  Definition flush_intro (s : state) : state :=
    if c_intro c then fold_left (fun s i => perform i U64 [] s) (nseq (c_shards c)) s else s.

  Definition do_deliver (s : state) (n : N) : state :=
    let '(a, b) := take_n n (st_nq s) in
    mkSt (st_sh s) (st_cc s) (st_now s) b (st_log s ++ a) (st_tid s) (st_eid s) (st_evdrops s) (st_ndrops s).

  Definition step (s : state) (o : op) : state * res :=
    match o with
    | OInsert k v cost => (do_insert s k v cost, RUnit)
    | OInsertTtl k v cost d => (do_insert_ttl s k v cost d, RUnit)
    | OGet k | OFetch k => let '(s', r) := do_read true s k in (s', ROpt r)
    | OPeek k => let '(s', r) := do_read false s k in (s', ROpt r)
    | OEntryOrInsert k v cost => do_or_insert s k v cost
    | OEntryGet k => (s, ROpt (match occupied s k with Some e => Some (e_val e) | None => None end))
    | OCompute k f => let '(s', r) := do_compute s k f in
                      (s', RBool (match r with Some _ => true | None => false end))
    | OComputeVal k f => let '(s', r) := do_compute s k f in (s', ROpt r)
    | ORemove k => let '(s', r) := do_remove s k in (s', ROpt r)
    | OInvalidate k => let '(s', r) := do_remove s k in
                       (s', RBool (match r with Some _ => true | None => false end))
    | OClear => (do_clear s, RUnit)
    | OMultiGet ks => let '(s', l) := do_multiget_gen (do_read true) s ks [] in (s', RPairs l)
    | OMultiGetAsync ks => let '(s', l) := do_multiget_gen do_read_direct s ks [] in (s', RPairs l)
    | OMultiInsert items => (do_multi_insert s items, RUnit)
    | OMultiRemove ks => let '(s', l) := do_multi_remove s ks [] in (s', RPairs l)
    | OMultiInvalidate ks => (fst (do_multi_remove s ks []), RUnit)
    | OMaint ord => (run_maintenance ord s, RUnit)
    | OJanitorTick i ord => (janitor_tick i ord s, RUnit)
    | OJanitorSignal i ord => (janitor_signal i ord s, RUnit)
    | OAdvance d => (mkSt (st_sh s) (st_cc s) (st_now s + d) (st_nq s) (st_log s) (st_tid s) (st_eid s)
                          (st_evdrops s) (st_ndrops s), RUnit)
    | OCost => let s' := flush_intro s in (s', RCost (cc_obs s'))
    | ODeliver n => (do_deliver s n, RUnit)
    end.

  Fixpoint run (s : state) (ops : list op) : state * list res :=
    match ops with
    | [] => (s, [])
    | o :: r => let '(s1, x) := step s o in
                let '(s2, xs) := run s1 r in (s2, x :: xs)
    end.

  Definition state_after (now0 : N) (ops : list op) : state := fst (run (init now0) ops).
End Cache.

(** the policy used when the builder selects null_policy() (policy/null.rs) *)
Definition null_step (u : unit) (cl : call) : unit * out :=
  match cl with
  | Access _ _ => (tt, ODone)
  | Admit _ _ => (tt, OAdmit)
  | Remove _ => (tt, ODone)
  | Evict _ => (tt, OVictims [] 0)
  | Clear => (tt, ODone)
  end.
Definition NullP : policy := mkPolicy unit tt null_step (fun _ => []).
