(* Cache/PolicySpec.v — the CachePolicy trait as a Gallina interface, and the
   C14 contract as a predicate over one call.  No proofs here. *)
From Fibre Require Import Common.Base.

Inductive call :=
| Access (k c : N)
| Admit (k c : N)
| Remove (k : N)
| Evict (n : N)
| Clear.

(* cache/src/policy/mod.rs: AdmissionDecision + the (Vec<K>, u64) of evict *)
Inductive out :=
| ODone                       (* on_access / on_remove / clear return () *)
| OAdmit
| OReject
| OAdmitEvict (vs : list N)
| OVictims (vs : list N) (c : N).

Record policy := mkPolicy {
  pst      : Type;
  pinit    : pst;
  pstep    : pst -> call -> pst * out;
  (* what the policy is tracking as evictable residents, with recorded cost *)
  ptracked : pst -> list kc
}.

Fixpoint prun (P : policy) (s : pst P) (cs : list call) : pst P * list out :=
  match cs with
  | [] => (s, [])
  | c :: r => let '(s1, o) := pstep P s c in
              let '(s2, os) := prun P s1 r in (s2, o :: os)
  end.

Definition pstate_after (P : policy) (cs : list call) : pst P :=
  fst (prun P (pinit P) cs).

(** The contract of property C14 for one call, relating the tracked set before
    (T) and after (T').  The clauses for on_access, on_admit and evict are
    parameters so that the faithful model of each policy can state exactly the
    clause it satisfies; [step_ok]/[contract] below fix the access and evict
    clauses to the full ones (what Lru/Fifo/Sieve/Clock are proved against). *)

(* victims are tracked, distinct, reported at their recorded costs, and are
   exactly what stops being tracked *)
Definition evict_core (T T' : list kc) (vs : list N) (c : N) : Prop :=
  NoDup vs
  /\ incl vs (keys T)
  /\ c = sumN (map (cost_of T) vs)
  /\ Permutation T' (without vs T).

Definition evict_ok (T T' : list kc) (n : N) (vs : list N) (c : N) : Prop :=
  NoDup vs
  /\ incl vs (keys T)                              (* only tracked keys *)
  /\ c = sumN (map (cost_of T) vs)                 (* exactly their recorded costs *)
  /\ Permutation T' (without vs T)                 (* stops tracking exactly the victims *)
  /\ (n <= total T -> n <= c).                     (* frees enough whenever possible *)

(* evict_ok minus "frees enough whenever possible" (used to state refutations that do
   not depend on sufficiency; every built-in policy now satisfies [evict_ok]) *)
Definition evict_nosuff (T T' : list kc) (n : N) (vs : list N) (c : N) : Prop :=
  evict_core T T' vs c.

Definition admit_full (T T' : list kc) (k c : N) : Prop :=
  Permutation T' ((k, c) :: rm k T).

(* what Fifo does (F-19-fifo): a fresh key is tracked with its cost; a key already
   tracked keeps its *old* cost (no duplicate). *)
Definition admit_keep_old (T T' : list kc) (k c : N) : Prop :=
  match lookup k T with
  | None => Permutation T' ((k, c) :: T)
  | Some _ => Permutation T' T
  end.

(* what Arc does (F-20-arc-admit): the admission may silently stop tracking at most one
   *other* key (it is moved to a ghost list, not nominated as a victim). *)
Definition admit_demote (T T' : list kc) (k c : N) : Prop :=
  exists D : list N,
    (length D <= 1)%nat /\ incl D (keys T) /\ ~ In k D
    /\ Permutation T' ((k, c) :: rm k (without D T)).

(* AdmissionDecision::AdmitAndEvict(vs): the key is admitted (cost updated, no
   duplicate) and the victims -- tracked keys, or the admitted key itself --
   are exactly what stops being tracked.  task/janitor.rs removes them from the map. *)
Definition admit_evict_full (T T' : list kc) (k c : N) (vs : list N) : Prop :=
  NoDup vs
  /\ incl vs (k :: keys T)
  /\ Permutation T' (without vs ((k, c) :: rm k T)).

(* on_access never changes which keys are tracked.  Lru/Fifo/Sieve/Clock/Random
   ignore the cost argument; Slru/Arc/TinyLfu store it as the key's recorded cost
   (`LruList::push_front(key, cost)` on the access path). *)
Definition access_keep (T T' : list kc) (k c : N) : Prop := Permutation T' T.

Definition access_update (T T' : list kc) (k c : N) : Prop :=
  match lookup k T with
  | None => Permutation T' T
  | Some _ => Permutation T' ((k, c) :: rm k T)
  end.

(* AdmissionDecision::Reject is never acceptable: task/janitor.rs ignores it (the
   entry stays in the map), so a rejecting policy would leave a resident key
   untracked.  No built-in policy returns it. *)
Definition step_okG
           (access_clause : list kc -> list kc -> N -> N -> Prop)
           (admit_clause : list kc -> list kc -> N -> N -> Prop)
           (evict_clause : list kc -> list kc -> N -> list N -> N -> Prop)
           (T : list kc) (cl : call) (o : out) (T' : list kc) : Prop :=
  match cl, o with
  | Access k c, ODone => access_clause T T' k c
  | Admit k c, OAdmit => admit_clause T T' k c
  | Admit k c, OAdmitEvict vs => admit_evict_full T T' k c vs
  | Remove k, ODone => Permutation T' (rm k T)
  | Evict n, OVictims vs c => evict_clause T T' n vs c
  | Clear, ODone => T' = []
  | _, _ => False
  end.

Definition contractG access_clause admit_clause evict_clause (P : policy) : Prop :=
  forall cs : list call,
    let s := pstate_after P cs in
    NoDup (keys (ptracked P s))                               (* never duplicates a key *)
    /\ forall cl, let '(s', o) := pstep P s cl in
                  step_okG access_clause admit_clause evict_clause
                           (ptracked P s) cl o (ptracked P s').

Definition step_ok (admit_clause : list kc -> list kc -> N -> N -> Prop) :=
  step_okG access_keep admit_clause evict_ok.

Definition contract (admit_clause : list kc -> list kc -> N -> N -> Prop) (P : policy) : Prop :=
  contractG access_keep admit_clause evict_ok P.

(** f64 roundings in the policy constructors and in Arc's adaptation step:
    `(a as f64 / b as f64).round() as u64` and `(x as f64 * 0.20).round()` are
    round-half-away-from-zero of the exact quotient.  On N that is
    floor((2a + b) / 2b).  f64 agrees with the exact value for operands < 2^26
    (D1 stays below that; DESIGN.md section 10). *)
Definition round_div (a b : N) : N := (2 * a + b) / (2 * b).
