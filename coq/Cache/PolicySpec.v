(* Cache/PolicySpec.v — the CachePolicy trait as a Gallina interface, and the
   C14 contract as a predicate over one call.  No proofs here. *)
From Fibre Require Import Common.Base.

Inductive call :=
| Access (k c : N)
| Admit (k c : N)
| Remove (k : N)
| Evict (n : N)
| Clear.

(* cache/src/policy/mod.rs: AdmissionDecision + the (Vec<K>, u64) of evict *)
Inductive out :=
| ODone                       (* on_access / on_remove / clear return () *)
| OAdmit
| OReject
| OAdmitEvict (vs : list N)
| OVictims (vs : list N) (c : N).

Record policy := mkPolicy {
  pst      : Type;
  pinit    : pst;
  pstep    : pst -> call -> pst * out;
  (* what the policy is tracking as evictable residents, with recorded cost *)
  ptracked : pst -> list kc
}.

Fixpoint prun (P : policy) (s : pst P) (cs : list call) : pst P * list out :=
  match cs with
  | [] => (s, [])
  | c :: r => let '(s1, o) := pstep P s c in
              let '(s2, os) := prun P s1 r in (s2, o :: os)
  end.

Definition pstate_after (P : policy) (cs : list call) : pst P :=
  fst (prun P (pinit P) cs).

(** The contract of property C14 for one call, relating the tracked set before
    (T) and after (T').  [readmit_updates] is the clause "re-admitting a key
    updates its cost rather than duplicating it"; it is a parameter so that the
    faithful models of Fifo/Clock (finding F-19) can state the weaker clause
    they do satisfy. *)
Definition evict_ok (T T' : list kc) (n : N) (vs : list N) (c : N) : Prop :=
  NoDup vs
  /\ incl vs (keys T)                              (* only tracked keys *)
  /\ c = sumN (map (cost_of T) vs)                 (* exactly their recorded costs *)
  /\ Permutation T' (without vs T)                 (* stops tracking exactly the victims *)
  /\ (n <= total T -> n <= c).                     (* frees enough whenever possible *)

Definition admit_full (T T' : list kc) (k c : N) : Prop :=
  Permutation T' ((k, c) :: rm k T).

(* what Fifo/Clock do: a fresh key is tracked with its cost; a key already
   tracked keeps its *old* cost (no duplicate). *)
Definition admit_keep_old (T T' : list kc) (k c : N) : Prop :=
  match lookup k T with
  | None => Permutation T' ((k, c) :: T)
  | Some _ => Permutation T' T
  end.

Definition step_ok (admit_clause : list kc -> list kc -> N -> N -> Prop)
           (T : list kc) (cl : call) (o : out) (T' : list kc) : Prop :=
  match cl, o with
  | Access _ _, ODone => Permutation T' T
  | Admit k c, OAdmit => admit_clause T T' k c
  | Remove k, ODone => Permutation T' (rm k T)
  | Evict n, OVictims vs c => evict_ok T T' n vs c
  | Clear, ODone => T' = []
  | _, _ => False
  end.

Definition contract (admit_clause : list kc -> list kc -> N -> N -> Prop) (P : policy) : Prop :=
  forall cs : list call,
    let s := pstate_after P cs in
    NoDup (keys (ptracked P s))                               (* never duplicates a key *)
    /\ forall cl, let '(s', o) := pstep P s cl in
                  step_ok admit_clause (ptracked P s) cl o (ptracked P s').
