(* Proofs/PipelineProofs.v — all-schedules invariant of Log/Pipeline.v and the C19 pipeline theorems. *)
From Coq Require Import List Arith Bool Lia.
Import ListNotations.
From Fibre Require Import Log.Pipeline.

(* ------------------------------------------------------------------ small list facts *)
Lemma oks_app_ok h p : oks (h ++ [(p, true)]) = oks h ++ [p].
Proof. unfold oks. rewrite filter_app, map_app. reflexivity. Qed.

Lemma oks_app_err h p : oks (h ++ [(p, false)]) = oks h.
Proof. unfold oks. rewrite filter_app, map_app. cbn. apply app_nil_r. Qed.

Lemma app_mid {A} (w : list A) x q : (w ++ [x]) ++ q = w ++ x :: q.
Proof. rewrite <- app_assoc. reflexivity. Qed.

Lemma from_same e p : from e (e, p) = true.
Proof. unfold from. cbn. apply Nat.eqb_refl. Qed.

Lemma from_other e e0 p : e <> e0 -> from e (e0, p) = false.
Proof. unfold from. cbn. intros H. apply Nat.eqb_neq. congruence. Qed.

Lemma upd_same f e v : upd f e v e = v.
Proof. unfold upd. rewrite Nat.eqb_refl. reflexivity. Qed.

Lemma upd_other f e v j : j <> e -> upd f e v j = f j.
Proof. unfold upd. intros H. apply Nat.eqb_neq in H. rewrite H. reflexivity. Qed.

(* order-preserving sub-list *)
Inductive Subseq {A} : list A -> list A -> Prop :=
| sub_nil : forall l, Subseq [] l
| sub_keep : forall x a b, Subseq a b -> Subseq (x :: a) (x :: b)
| sub_skip : forall x a b, Subseq a b -> Subseq a (x :: b).

Lemma Subseq_refl {A} (l : list A) : Subseq l l.
Proof. induction l; constructor; assumption. Qed.

Lemma Subseq_app_r {A} (a b r : list A) : Subseq a b -> Subseq a (b ++ r).
Proof. induction 1; cbn [app]; constructor; assumption. Qed.

Lemma Subseq_trans {A} (a b c : list A) : Subseq a b -> Subseq b c -> Subseq a c.
Proof.
  intros H1 H2. revert a H1. induction H2; intros a0 H1.
  - inversion H1; subst. constructor.
  - inversion H1; subst; constructor; auto.
  - constructor. auto.
Qed.

Lemma Subseq_prefix {A} (a r : list A) : Subseq a (a ++ r).
Proof. apply Subseq_app_r. apply Subseq_refl. Qed.

Lemma Subseq_oks h : Subseq (oks h) (map fst h).
Proof.
  unfold oks. induction h as [|[p b] t IH]; cbn [filter map fst snd]; [constructor|].
  destruct b; cbn [map fst]; constructor; exact IH.
Qed.

Lemma map_pair_filter_from e (l : list ev) : map (pair e) (map snd (filter (from e) l)) = filter (from e) l.
Proof.
  induction l as [|[e0 p] t IH]; cbn [filter]; [reflexivity|].
  destruct (from e (e0, p)) eqn:E; [|exact IH].
  unfold from in E. cbn [fst] in E. apply Nat.eqb_eq in E. subst e0.
  cbn [map snd]. rewrite IH. reflexivity.
Qed.

Lemma NoDup_by_projection (l : list ev) : (forall e, NoDup (filter (from e) l)) -> NoDup l.
Proof.
  induction l as [|[e0 p] t IH]; intros H; [constructor|].
  constructor.
  - intros Hin. specialize (H e0). cbn [filter] in H. rewrite from_same in H.
    inversion H as [|? ? Hni _]; subst. apply Hni. apply filter_In. split; [exact Hin | apply from_same].
  - apply IH. intros e. specialize (H e). cbn [filter] in H.
    destruct (from e (e0, p)); [inversion H; assumption | exact H].
Qed.

Lemma Subseq_NoDup {A} (a b : list A) : Subseq a b -> NoDup b -> NoDup a.
Proof.
  induction 1; intros Hb; [constructor | |].
  - inversion Hb; subst. constructor; [|auto]. intros Hin. apply H2.
    clear - H Hin. induction H; [destruct Hin | | right; auto].
    destruct Hin as [<-|Hin]; [left; reflexivity | right; auto].
  - inversion Hb; subst. auto.
Qed.

Lemma Subseq_In {A} (a b : list A) x : Subseq a b -> In x a -> In x b.
Proof.
  induction 1; intros Hin; [destruct Hin | |right; auto].
  destruct Hin as [<-|Hin]; [left; reflexivity | right; auto].
Qed.

Lemma NoDup_map_pair (e : nat) (l : list nat) : NoDup l -> NoDup (map (pair e) l).
Proof.
  induction 1; cbn [map]; constructor; [|assumption].
  intros Hin. apply in_map_iff in Hin. destruct Hin as [y [E Hy]]. inversion E; subst. contradiction.
Qed.

(* ------------------------------------------------------------------ the invariant *)
Record Inv (cap : nat) (scripts : nat -> list nat) (s : st) : Prop := mkInv {
  i_script : forall e, map fst (hist (ems s e)) ++ todo (ems s e) = scripts e;
  i_proj : forall e, filter (from e) (written s ++ queue s) = accepted s e;
  i_early : incl (early s) (written s ++ queue s);
  i_cap : length (queue s) <= cap;
  i_closed_flag : closed s = true -> flag s = true;
  i_rx : rx_alive s = false -> wpc s = WDone;
  i_final_flag : wpc s = WFinal \/ wpc s = WFlush \/ wpc s = WDone -> flag s = true;
  i_flushed : wpc s = WFlush \/ wpc s = WDone -> incl (early s) (written s);
  i_noerr : flag s = false -> forall e p, ~ In (p, false) (hist (ems s e));
  i_join : spc s = SDone -> wpc s = WDone;
  i_sflag : spc s <> SIdle -> flag s = true }.

Lemma inv_init cap sc : Inv cap sc (init sc).
Proof.
  constructor; cbn; intros; try reflexivity; try discriminate; try lia; try tauto.
  - intros x [].
  - destruct H as [H|[H|H]]; discriminate.
  - destruct H; discriminate.
Qed.

Ltac fields H :=
  destruct H as [Hscript Hproj Hearly Hcap Hcf Hrx Hff Hfl Hne Hjoin Hsf].

Lemma inv_emit cap sc s e0 spin : Inv cap sc s -> Inv cap sc (step_emit cap s e0 spin).
Proof.
  intros H. unfold step_emit.
  destruct (todo (ems s e0)) as [|p rest] eqn:Etodo; [exact H|].
  destruct (epc (ems s e0)) eqn:Epc.
  - destruct (closed s || negb (rx_alive s)) eqn:Ecl.
    + (* send returns Err *)
      fields H. constructor; unfold accepted; cbn [set_ems queue written flag closed rx_alive wpc spc ems early];
        try assumption.
      * intros e. destruct (Nat.eq_dec e e0) as [->|Hn]; [rewrite upd_same | rewrite upd_other by exact Hn; apply Hscript].
        cbn [hist todo]. rewrite map_app, <- app_assoc. cbn [map fst app]. rewrite <- (Hscript e0), Etodo. reflexivity.
      * intros e. rewrite Hproj. unfold accepted.
        destruct (Nat.eq_dec e e0) as [->|Hn]; [rewrite upd_same | rewrite upd_other by exact Hn; reflexivity].
        cbn [hist]. rewrite oks_app_err. reflexivity.
      * intros Hf e q Hin. exfalso.
        apply orb_true_iff in Ecl. destruct Ecl as [Ecl|Ecl].
        -- apply Hcf in Ecl. congruence.
        -- apply negb_true_iff in Ecl. apply Hrx in Ecl.
           assert (flag s = true) by (apply Hff; tauto). congruence.
    + (* passed the check *)
      fields H. constructor; unfold accepted; cbn [set_ems queue written flag closed rx_alive wpc spc ems early];
        try assumption.
      * intros e. destruct (Nat.eq_dec e e0) as [->|Hn]; [rewrite upd_same | rewrite upd_other by exact Hn; apply Hscript].
        cbn [hist todo]. rewrite <- Etodo. apply Hscript.
      * intros e. rewrite Hproj. unfold accepted.
        destruct (Nat.eq_dec e e0) as [->|Hn]; [rewrite upd_same | rewrite upd_other by exact Hn]; reflexivity.
      * intros Hf e q. destruct (Nat.eq_dec e e0) as [->|Hn]; [rewrite upd_same | rewrite upd_other by exact Hn];
          cbn [hist]; apply Hne; exact Hf.
  - destruct (Nat.ltb_spec (length (queue s)) cap) as [Hlt|Hge].
    + (* push, Ok *)
      fields H. constructor; unfold accepted; cbn [queue written flag closed rx_alive wpc spc ems early];
        try assumption.
      * intros e. destruct (Nat.eq_dec e e0) as [->|Hn]; [rewrite upd_same | rewrite upd_other by exact Hn; apply Hscript].
        cbn [hist todo]. rewrite map_app, <- app_assoc. cbn [map fst app]. rewrite <- (Hscript e0), Etodo. reflexivity.
      * intros e. rewrite app_assoc, filter_app, Hproj. unfold accepted.
        destruct (Nat.eq_dec e e0) as [->|Hn].
        -- rewrite upd_same. cbn [hist filter]. rewrite from_same, oks_app_ok, map_app. reflexivity.
        -- rewrite upd_other by exact Hn. cbn [filter]. rewrite from_other by exact Hn. apply app_nil_r.
      * rewrite app_assoc. destruct (flag s).
        -- intros x Hx. apply in_or_app. left. apply Hearly. exact Hx.
        -- intros x Hx. apply in_app_or in Hx. apply in_or_app. destruct Hx as [Hx|Hx]; [left; apply Hearly|right]; exact Hx.
      * rewrite app_length. cbn [length]. lia.
      * intros Hw. specialize (Hfl Hw). rewrite (Hff (or_intror Hw)). exact Hfl.
      * intros Hf e q. destruct (Nat.eq_dec e e0) as [->|Hn]; [rewrite upd_same | rewrite upd_other by exact Hn; apply Hne; exact Hf].
        cbn [hist]. intros Hin. apply in_app_or in Hin. destruct Hin as [Hin|[Hin|[]]]; [|discriminate].
        apply (Hne Hf e0 q). exact Hin.
    + (* full: spin (no change) or back to the closed check *)
      destruct spin; [exact H|].
      fields H. constructor; unfold accepted; cbn [set_ems queue written flag closed rx_alive wpc spc ems early];
        try assumption.
      * intros e. destruct (Nat.eq_dec e e0) as [->|Hn]; [rewrite upd_same | rewrite upd_other by exact Hn; apply Hscript].
        cbn [hist todo]. rewrite <- Etodo. apply Hscript.
      * intros e. rewrite Hproj. unfold accepted.
        destruct (Nat.eq_dec e e0) as [->|Hn]; [rewrite upd_same | rewrite upd_other by exact Hn]; reflexivity.
      * intros Hf e q. destruct (Nat.eq_dec e e0) as [->|Hn]; [rewrite upd_same | rewrite upd_other by exact Hn];
          cbn [hist]; apply Hne; exact Hf.
Qed.

(* the writer pops the head of the queue and writes it *)
Lemma inv_pop cap sc s x q' pc :
  Inv cap sc s -> queue s = x :: q' ->
  (pc = WFinal -> flag s = true) -> pc <> WFlush -> pc <> WDone -> wpc s <> WDone ->
  Inv cap sc (set_w s q' (written s ++ [x]) pc (rx_alive s)).
Proof.
  intros H Eq Hpc Hnf Hnd Hwd. fields H. rewrite Eq in *.
  constructor; unfold accepted; cbn [set_w queue written flag closed rx_alive wpc spc ems early]; try assumption.
  - intros e. rewrite app_mid. apply Hproj.
  - rewrite app_mid. exact Hearly.
  - cbn [length] in Hcap. lia.
  - intros Hr. apply Hrx in Hr. contradiction.
  - intros [E|[E|E]]; [apply Hpc; exact E | contradiction | contradiction].
  - intros [E|E]; contradiction.
  - intros Hs. apply Hjoin in Hs. contradiction.
Qed.

(* the writer only moves its program counter *)
Lemma inv_pc cap sc s pc :
  Inv cap sc s ->
  (pc = WFinal \/ pc = WFlush -> flag s = true) ->
  (pc = WFlush -> queue s = []) -> pc <> WDone -> wpc s <> WDone ->
  Inv cap sc (set_w s (queue s) (written s) pc (rx_alive s)).
Proof.
  intros H Hpc Hq Hnd Hwd. fields H.
  constructor; unfold accepted; cbn [set_w queue written flag closed rx_alive wpc spc ems early]; try assumption.
  - intros Hr. apply Hrx in Hr. contradiction.
  - intros [E|[E|E]]; [apply Hpc; tauto | apply Hpc; tauto | contradiction].
  - intros [E|E]; [|contradiction]. specialize (Hq E). rewrite Hq, app_nil_r in Hearly. exact Hearly.
  - intros Hs. apply Hjoin in Hs. contradiction.
Qed.

Lemma inv_writer cap sc s t : Inv cap sc s -> Inv cap sc (step_writer s t).
Proof.
  intros H. unfold step_writer. destruct (wpc s) as [| |n| | |] eqn:Ew.
  - (* WTop *)
    apply inv_pc; try exact H; try congruence.
    + destruct (flag s) eqn:Ef; intros [E|E]; congruence.
    + destruct (flag s); discriminate.
    + destruct (flag s); discriminate.
  - (* WRecv *)
    destruct (queue s) as [|x q'] eqn:Eq.
    + destruct (closed s) eqn:Ec.
      * rewrite <- Eq. apply inv_pc; try exact H; try congruence.
        intros _. apply (i_closed_flag _ _ _ H). exact Ec.
      * destruct t; [|exact H]. rewrite <- Eq. apply inv_pc; try exact H; try congruence.
        intros [E|E]; discriminate.
    + apply inv_pop with (cap := cap) (sc := sc); try exact H; try assumption; try congruence.
  - (* WBatch *)
    destruct n as [|n'].
    + apply inv_pc; try exact H; try congruence. intros [E|E]; discriminate.
    + destruct (queue s) as [|x q'] eqn:Eq.
      * rewrite <- Eq. apply inv_pc; try exact H; try congruence. intros [E|E]; discriminate.
      * apply inv_pop with (cap := cap) (sc := sc); try exact H; try assumption; try congruence.
  - (* WFinal *)
    assert (flag s = true) as Hf by (apply (i_final_flag _ _ _ H); tauto).
    destruct (queue s) as [|x q'] eqn:Eq.
    + rewrite <- Eq. apply inv_pc; try exact H; try congruence.
    + apply inv_pop with (cap := cap) (sc := sc); try exact H; try assumption; try congruence.
  - (* WFlush -> WDone, rx dropped *)
    fields H.
    constructor; unfold accepted; cbn [set_w queue written flag closed rx_alive wpc spc ems early]; try assumption.
    + intros _. reflexivity.
    + intros _. apply Hff. tauto.
    + intros _. apply Hfl. tauto.
    + intros _. reflexivity.
  - exact H.
Qed.

Lemma inv_shut cap sc s : Inv cap sc s -> Inv cap sc (step_shut s).
Proof.
  intros H. unfold step_shut. destruct (spc s) eqn:Es.
  - fields H. constructor; unfold accepted; cbn [queue written flag closed rx_alive wpc spc ems early]; try assumption.
    all: try (intros _; reflexivity); try discriminate.
  - assert (flag s = true) as Hf by (apply (i_sflag _ _ _ H); congruence).
    fields H. constructor; unfold accepted; cbn [queue written flag closed rx_alive wpc spc ems early]; try assumption.
    all: try (intros _; exact Hf); try discriminate.
  - destruct (wpc s) eqn:Ew; try exact H.
    fields H. constructor; unfold accepted; cbn [queue written flag closed rx_alive wpc spc ems early]; try assumption.
    all: try (intros _; reflexivity).
    all: try (intros _; apply Hsf; congruence).
    all: try (intros [E|[E|E]]; apply Hff; tauto).
    all: try (intros _; apply Hfl; tauto).
  - exact H.
Qed.

Lemma inv_step cap sc s l : Inv cap sc s -> Inv cap sc (step cap s l).
Proof.
  intros H. destruct l; cbn [step]; [apply inv_emit | apply inv_emit | apply inv_writer | apply inv_shut]; exact H.
Qed.

Lemma inv_run_from cap sc sch s : Inv cap sc s -> Inv cap sc (fold_left (step cap) sch s).
Proof.
  revert s. induction sch as [|l t IH]; intros s H; cbn [fold_left]; [exact H|].
  apply IH. apply inv_step. exact H.
Qed.

(* the invariant holds after EVERY schedule *)
Theorem pipe_inv cap sc sch : Inv cap sc (run cap sc sch).
Proof. unfold run. apply inv_run_from. apply inv_init. Qed.

(* ------------------------------------------------------------------ theorems *)
(* ORDER: what the writer has written for thread e, followed by what is still queued for e, is
   exactly the list of e's accepted sends, in emission order *)
Theorem pipe_order cap sc sch e :
  let s := run cap sc sch in
  filter (from e) (written s) ++ filter (from e) (queue s) = accepted s e
  /\ Subseq (map snd (filter (from e) (written s))) (sc e).
Proof.
  intros s. pose proof (pipe_inv cap sc sch) as H. fold s in H. fields H. split.
  - rewrite <- filter_app. apply Hproj.
  - assert (Subseq (filter (from e) (written s)) (accepted s e)) as H1.
    { rewrite <- Hproj, filter_app. apply Subseq_prefix. }
    assert (Subseq (oks (hist (ems s e))) (sc e)) as H2.
    { rewrite <- (Hscript e). apply Subseq_app_r. apply Subseq_oks. }
    apply Subseq_trans with (oks (hist (ems s e))); [|exact H2].
    unfold accepted in H1. clear - H1.
    remember (filter (from e) (written s)) as l eqn:El.
    assert (forall x, In x l -> fst x = e) as Hl.
    { intros x Hx. subst l. apply filter_In in Hx. destruct Hx as [_ Hx]. apply Nat.eqb_eq. exact Hx. }
    clear El. revert H1 Hl. generalize (oks (hist (ems s e))). intros o. revert o.
    induction l as [|[e1 p1] t IH]; intros o H1 Hl; cbn [map snd]; [constructor|].
    assert (e1 = e) as -> by (apply (Hl (e1, p1)); left; reflexivity).
    induction o as [|p o IHo]; cbn [map] in H1; [inversion H1|].
    inversion H1; subst.
    + constructor. apply IH; [assumption | intros x Hx; apply Hl; right; exact Hx].
    + constructor. apply IHo. assumption.
Qed.

(* EXACTLY ONCE: with distinct payloads per thread nothing is written or queued twice *)
Theorem pipe_exactly_once cap sc sch :
  (forall e, NoDup (sc e)) -> NoDup (written (run cap sc sch) ++ queue (run cap sc sch)).
Proof.
  intros Hnd. pose proof (pipe_inv cap sc sch) as H. fields H.
  apply NoDup_by_projection. intros e. rewrite Hproj. unfold accepted.
  apply NoDup_map_pair. apply Subseq_NoDup with (sc e); [|apply Hnd].
  rewrite <- (Hscript e). apply Subseq_app_r. apply Subseq_oks.
Qed.

(* CAPACITY: the channel never holds more than its capacity (sends wait) *)
Theorem pipe_capacity cap sc sch : length (queue (run cap sc sch)) <= cap.
Proof. apply (i_cap _ _ _ (pipe_inv cap sc sch)). Qed.

(* BLOCK POLICY: until shutdown begins no send fails and no accepted event leaves the pipeline *)
Theorem pipe_block_no_drop cap sc sch e :
  let s := run cap sc sch in
  flag s = false ->
  accepted s e = map (pair e) (map fst (hist (ems s e)))
  /\ (forall x, In x (accepted s e) -> In x (written s ++ queue s)).
Proof.
  intros s Hf. pose proof (pipe_inv cap sc sch) as H. fold s in H. fields H. split.
  - unfold accepted, oks. f_equal. f_equal.
    specialize (Hne Hf e). induction (hist (ems s e)) as [|[p b] t IH]; cbn [filter snd]; [reflexivity|].
    destruct b.
    + f_equal. apply IH. intros q Hq. apply (Hne q). right. exact Hq.
    + exfalso. apply (Hne p). left. reflexivity.
  - intros x Hx. rewrite <- Hproj in Hx. apply filter_In in Hx. apply Hx.
Qed.

(* NO LOSS AT SHUTDOWN (except F-26): once the writer has exited - in particular once
   shutdown()/Drop has returned - every event accepted before shutdown began has been written *)
Theorem pipe_no_loss_except_F26 cap sc sch :
  let s := run cap sc sch in
  (wpc s = WDone \/ spc s = SDone) -> incl (early s) (written s).
Proof.
  intros s Hd. pose proof (pipe_inv cap sc sch) as H. fold s in H. fields H.
  apply Hfl. right. destruct Hd as [Hd|Hd]; [exact Hd | apply Hjoin; exact Hd].
Qed.

(* events pushed before the flag was stored: [early] is exactly that (definitional sanity) *)
Theorem pipe_early_accepted cap sc sch x :
  let s := run cap sc sch in In x (early s) -> In x (accepted s (fst x)).
Proof.
  intros s Hx. pose proof (pipe_inv cap sc sch) as H. fold s in H. fields H.
  rewrite <- Hproj. apply filter_In. split; [apply Hearly; exact Hx|].
  unfold from. apply Nat.eqb_refl.
Qed.

(* F-26 (candidate, model level): the unrestricted statement is false - an emitter that passed the
   closed check can push after the writer's final drain saw Empty; send returns Ok, the writer exits *)
Definition F26_scripts (e : nat) : list nat := match e with 0 => [7] | _ => [] end.
Definition F26_schedule : list label :=
  [LShut; LWriter false; LWriter false; LEmit 0; LEmit 0; LWriter false].

Lemma F26_witness :
  let s := run 1 F26_scripts F26_schedule in
  wpc s = WDone /\ accepted s 0 = [(0, 7)] /\ written s = [] /\ queue s = [(0, 7)] /\ closed s = false.
Proof. vm_compute. repeat split. Qed.

(* the wide window on the real code: the sender is spinning on a full channel (no closed re-check)
   while shutdown closes the handle and the consumer drains to Empty/Disconnected; the spin's next
   try_send_now then succeeds ON A CLOSED SENDER *)
Definition F26_scripts_spin (e : nat) : list nat := match e with 0 => [7] | 1 => [9] | _ => [] end.
Definition F26_schedule_spin : list label :=
  [LEmit 1; LEmit 1;                       (* (1,9) fills the capacity-1 channel *)
   LEmit 0; LEmitSpin 0;                   (* thread 0 passed the check, channel full: spinning *)
   LShut; LShut;                           (* flag, close *)
   LWriter false; LWriter false;           (* WTop -> WFinal; pops (1,9) *)
   LWriter false;                          (* Empty -> WFlush *)
   LEmitSpin 0;                            (* the spin's try_send_now succeeds: Ok *)
   LWriter false].                         (* WDone *)

Lemma F26_witness_spin :
  let s := run 1 F26_scripts_spin F26_schedule_spin in
  wpc s = WDone /\ closed s = true /\ accepted s 0 = [(0, 7)] /\ written s = [(1, 9)] /\ queue s = [(0, 7)].
Proof. vm_compute. repeat split. Qed.

Theorem pipe_refuted_F26 :
  ~ (forall cap sc sch e x,
       wpc (run cap sc sch) = WDone -> In x (accepted (run cap sc sch) e) -> In x (written (run cap sc sch))).
Proof.
  intros H. destruct F26_witness as [Hw [Ha [Hwr _]]].
  specialize (H 1 F26_scripts F26_schedule 0 (0, 7) Hw).
  rewrite Ha, Hwr in H. apply H. left. reflexivity.
Qed.
