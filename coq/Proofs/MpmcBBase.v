(* Proofs/MpmcBBase.v — list / association-list / waiter-queue lemmas used by the bounded-MPMC proofs. *)
From Fibre Require Import Common.Base Chan.MpmcB.

(** * occurrence counting (conservation is stated by counts) *)
Fixpoint occ (v : N) (l : list N) : nat :=
  match l with [] => 0%nat | x :: t => ((if N.eqb v x then 1 else 0) + occ v t)%nat end.

Lemma occ_app v a b : occ v (a ++ b) = (occ v a + occ v b)%nat.
Proof. induction a as [|x t IH]; cbn [app occ]; [reflexivity | rewrite IH; lia]. Qed.

Lemma occ_one v x : occ v [x] = if N.eqb v x then 1%nat else 0%nat.
Proof. cbn [occ]. destruct (N.eqb v x); reflexivity. Qed.

Lemma occ_In v l : (0 < occ v l)%nat <-> In v l.
Proof.
  induction l as [|x t IH]; cbn [occ In]; [split; [lia | tauto]|].
  destruct (N.eqb_spec v x) as [->|Hn]; split; intros H.
  - left. reflexivity.
  - lia.
  - right. apply IH. lia.
  - destruct H as [H|H]; [congruence|]. apply IH in H. lia.
Qed.

Lemma occ_NoDup l : (forall v, (occ v l <= 1)%nat) -> NoDup l.
Proof.
  induction l as [|x t IH]; intros H; constructor.
  - intros Hi. apply occ_In in Hi. specialize (H x). cbn [occ] in H. rewrite N.eqb_refl in H. lia.
  - apply IH. intros v. specialize (H v). cbn [occ] in H. lia.
Qed.

Lemma occ_count v l : occ v l = count_occ N.eq_dec l v.
Proof.
  induction l as [|x t IH]; cbn [occ count_occ]; [reflexivity|].
  destruct (N.eq_dec x v) as [->|Hn].
  - rewrite N.eqb_refl, IH. reflexivity.
  - destruct (N.eqb_spec v x); [congruence|]. rewrite IH. reflexivity.
Qed.

Lemma occ_perm a b : (forall v, occ v a = occ v b) -> Permutation a b.
Proof.
  intros H. apply (Permutation_count_occ N.eq_dec). intros v. rewrite <- !occ_count. apply H.
Qed.

Lemma NoDup_app_single {A} (l : list A) (x : A) : NoDup l -> ~ In x l -> NoDup (l ++ [x]).
Proof.
  induction l as [|y t IH]; cbn [app]; intros Hnd Hni.
  - constructor; [intros [] | constructor].
  - inversion Hnd as [|? ? Hy Hnd']; subst. constructor.
    + intros Hi. apply in_app_or in Hi. destruct Hi as [Hi|[E|[]]]; [contradiction|].
      apply Hni. left. symmetry. exact E.
    + apply IH; [exact Hnd' | intros Hi; apply Hni; right; exact Hi].
Qed.

(** * association lists *)
Section Assoc.
  Context {A : Type}.
  Implicit Types (l : list (N * A)) (k : N).

  Definition akeys l : list N := map fst l.

  Lemma aget_aset_same k v l : aget k (aset k v l) = Some v.
  Proof.
    induction l as [|[k' x] t IH]; cbn [aset aget].
    - rewrite N.eqb_refl. reflexivity.
    - destruct (N.eqb_spec k k') as [->|Hn]; cbn [aget].
      + rewrite N.eqb_refl. reflexivity.
      + destruct (N.eqb_spec k k'); [congruence | exact IH].
  Qed.

  Lemma aget_aset_other k k2 v l : k2 <> k -> aget k2 (aset k v l) = aget k2 l.
  Proof.
    intros Hne. induction l as [|[k' x] t IH]; cbn [aset aget].
    - destruct (N.eqb_spec k2 k); [congruence | reflexivity].
    - destruct (N.eqb_spec k k') as [->|Hn]; cbn [aget].
      + destruct (N.eqb_spec k2 k'); [congruence | reflexivity].
      + destruct (N.eqb_spec k2 k'); [reflexivity | exact IH].
  Qed.

  Lemma aget_aset k k2 v l : aget k2 (aset k v l) = if N.eqb k2 k then Some v else aget k2 l.
  Proof.
    destruct (N.eqb_spec k2 k) as [->|Hn]; [apply aget_aset_same | apply aget_aset_other; exact Hn].
  Qed.

  Lemma aget_In k v l : aget k l = Some v -> In (k, v) l.
  Proof.
    induction l as [|[k' x] t IH]; cbn [aget]; intros H; [discriminate|].
    destruct (N.eqb_spec k k') as [->|Hn]; [inversion H; subst; left; reflexivity | right; auto].
  Qed.

  Lemma aget_None k l : aget k l = None <-> ~ In k (akeys l).
  Proof.
    unfold akeys. induction l as [|[k' x] t IH]; cbn [aget map fst In]; [tauto|].
    destruct (N.eqb_spec k k') as [->|Hn].
    - split; [discriminate | intros H; exfalso; apply H; left; reflexivity].
    - rewrite IH. split; [intros H [E|I]; [congruence | auto] | tauto].
  Qed.

  Lemma aget_Some_keys k v l : aget k l = Some v -> In k (akeys l).
  Proof. intros H. apply aget_In in H. unfold akeys. apply in_map_iff. exists (k, v). auto. Qed.

  Lemma In_aget k v l : NoDup (akeys l) -> In (k, v) l -> aget k l = Some v.
  Proof.
    unfold akeys. induction l as [|[k' x] t IH]; cbn [aget map fst]; intros Hnd Hin; [contradiction|].
    inversion Hnd as [|? ? Hni Hnd']; subst. destruct Hin as [E|Hin].
    - inversion E; subst. rewrite N.eqb_refl. reflexivity.
    - destruct (N.eqb_spec k k') as [->|Hn]; [|auto].
      exfalso. apply Hni. apply in_map_iff. exists (k', v). auto.
  Qed.

  Lemma akeys_aset_in k v l : In k (akeys l) -> akeys (aset k v l) = akeys l.
  Proof.
    unfold akeys. induction l as [|[k' x] t IH]; cbn [aset map fst In]; intros H; [contradiction|].
    destruct (N.eqb_spec k k') as [->|Hn]; cbn [map fst]; [reflexivity|].
    f_equal. apply IH. destruct H; [congruence | assumption].
  Qed.

  Lemma akeys_aset_new k v l : ~ In k (akeys l) -> akeys (aset k v l) = akeys l ++ [k].
  Proof.
    unfold akeys. induction l as [|[k' x] t IH]; cbn [aset map fst In app]; intros H; [reflexivity|].
    destruct (N.eqb_spec k k') as [->|Hn]; [exfalso; apply H; left; reflexivity|].
    cbn [map fst]. f_equal. apply IH. tauto.
  Qed.

  Lemma NoDup_aset k v l : NoDup (akeys l) -> NoDup (akeys (aset k v l)).
  Proof.
    intros H. destruct (in_dec N.eq_dec k (akeys l)) as [Hi|Hn].
    - rewrite akeys_aset_in by exact Hi. exact H.
    - rewrite akeys_aset_new by exact Hn. apply NoDup_app_single; assumption.
  Qed.

  (** counting entries whose value satisfies a predicate *)
  Fixpoint cnt (P : A -> bool) l : nat :=
    match l with [] => 0%nat | (_, x) :: t => ((if P x then 1 else 0) + cnt P t)%nat end.

  Definition b2n (b : bool) : nat := if b then 1%nat else 0%nat.

  Lemma cnt_aset P k x x' l :
    NoDup (akeys l) -> aget k l = Some x ->
    (cnt P (aset k x' l) + b2n (P x) = cnt P l + b2n (P x'))%nat.
  Proof.
    unfold akeys, b2n. induction l as [|[k' y] t IH]; cbn [aget aset cnt map fst]; intros Hnd Hg; [discriminate|].
    inversion Hnd as [|? ? Hni Hnd']; subst.
    destruct (N.eqb_spec k k') as [->|Hn].
    - inversion Hg; subst. cbn [cnt]. destruct (P x), (P x'); lia.
    - cbn [cnt]. specialize (IH Hnd' Hg). destruct (P y); lia.
  Qed.

  Lemma cnt_aset_new P k x' l :
    aget k l = None -> cnt P (aset k x' l) = (cnt P l + b2n (P x'))%nat.
  Proof.
    unfold b2n. induction l as [|[k' y] t IH]; cbn [aget aset cnt]; intros Hg; [lia|].
    destruct (N.eqb_spec k k') as [->|Hn]; [discriminate|].
    cbn [cnt]. rewrite (IH Hg). lia.
  Qed.

  Lemma cnt_zero P l : cnt P l = 0%nat <-> (forall k x, In (k, x) l -> P x = false).
  Proof.
    induction l as [|[k' y] t IH]; cbn [cnt In]; [split; [intros _ ? ? [] | reflexivity]|].
    split.
    - intros H k x [E|Hi].
      + inversion E; subst. destruct (P x); [lia | reflexivity].
      + apply (proj1 IH) with k; [destruct (P y); lia | exact Hi].
    - intros H. rewrite (H k' y) by (left; reflexivity). apply IH. intros k x Hi. apply (H k x). right. exact Hi.
  Qed.

  Lemma cnt_pos P k x l : In (k, x) l -> P x = true -> (0 < cnt P l)%nat.
  Proof.
    intros Hi Hp. destruct (cnt P l) eqn:E; [|lia].
    rewrite (proj1 (cnt_zero P l) E k x Hi) in Hp. discriminate.
  Qed.

  Lemma cnt_ext P Q l : (forall x, P x = Q x) -> cnt P l = cnt Q l.
  Proof. intros H. induction l as [|[k y] t IH]; cbn [cnt]; [reflexivity | rewrite H, IH; reflexivity]. Qed.

  Lemma existsb_aset P k x x' l :
    NoDup (akeys l) -> aget k l = Some x -> P x' = P x ->
    existsb (fun e => P (snd e)) (aset k x' l) = existsb (fun e => P (snd e)) l.
  Proof.
    unfold akeys. induction l as [|[k' y] t IH]; cbn [aget aset existsb map fst snd]; intros Hnd Hg Hp; [discriminate|].
    inversion Hnd as [|? ? Hni Hnd']; subst.
    destruct (N.eqb_spec k k') as [->|Hn].
    - inversion Hg; subst. cbn [existsb snd]. rewrite Hp. reflexivity.
    - cbn [existsb snd]. rewrite (IH Hnd' Hg Hp). reflexivity.
  Qed.
End Assoc.


(** * waiter queues: lists of (future id, waker id) — also association lists *)
Lemma In_akeys {A} (k : N) (v : A) l : In (k, v) l -> In k (akeys l).
Proof. intros H. unfold akeys. apply in_map_iff. exists (k, v). auto. Qed.

Lemma akeys_In {A} (k : N) (l : list (N * A)) : In k (akeys l) -> exists v, In (k, v) l.
Proof. unfold akeys. intros H. apply in_map_iff in H. destruct H as [[k' v] [E Hi]]. cbn in E. subst. eauto. Qed.

Lemma akeys_app {A} (a b : list (N * A)) : akeys (a ++ b) = akeys a ++ akeys b.
Proof. apply map_app. Qed.

Lemma queued_In f l : queued f l = true <-> In f (akeys l).
Proof.
  unfold queued, akeys. rewrite existsb_exists. split.
  - intros [[f' w] [Hi He]]. cbn [fst] in He. apply N.eqb_eq in He. subst. apply in_map_iff. exists (f', w). auto.
  - intros H. apply in_map_iff in H. destruct H as [[f' w] [E Hi]]. cbn [fst] in E. subst.
    exists (f, w). split; [exact Hi | apply N.eqb_refl].
Qed.

Lemma queued_false f l : queued f l = false <-> ~ In f (akeys l).
Proof.
  rewrite <- queued_In. destruct (queued f l); split; intros H.
  - discriminate.
  - exfalso. apply H. reflexivity.
  - intros H2. discriminate.
  - reflexivity.
Qed.

Lemma unlink_In f e l : In e (unlink f l) <-> In e l /\ fst e <> f.
Proof.
  unfold unlink. rewrite filter_In. split; intros [A B]; split; try exact A.
  - intros E. subst. rewrite N.eqb_refl in B. discriminate.
  - destruct (N.eqb_spec f (fst e)); [congruence | reflexivity].
Qed.

Lemma unlink_keys f f' l : In f' (akeys (unlink f l)) <-> In f' (akeys l) /\ f' <> f.
Proof.
  split.
  - intros H. apply akeys_In in H. destruct H as [w H]. apply unlink_In in H. destruct H as [A B].
    split; [eapply In_akeys; exact A | exact B].
  - intros [H Hne]. apply akeys_In in H. destruct H as [w H]. apply In_akeys with w. apply unlink_In. auto.
Qed.

Lemma unlink_NoDup f l : NoDup (akeys l) -> NoDup (akeys (unlink f l)).
Proof.
  unfold akeys, unlink. induction l as [|[f' w] t IH]; cbn [filter map fst]; intros H; [constructor|].
  inversion H as [|? ? Hni Hnd]; subst.
  destruct (N.eqb f f'); cbn [negb map fst]; [apply IH; exact Hnd|].
  constructor; [|apply IH; exact Hnd].
  intros Hi. apply Hni. apply in_map_iff in Hi. destruct Hi as [e [E Hi]]. apply filter_In in Hi.
  apply in_map_iff. exists e. tauto.
Qed.

Lemma unlink_absent f l : ~ In f (akeys l) -> unlink f l = l.
Proof.
  unfold akeys, unlink. induction l as [|[f' w] t IH]; cbn [filter map fst In]; intros H; [reflexivity|].
  destruct (N.eqb_spec f f') as [->|Hn]; [exfalso; apply H; left; reflexivity|].
  cbn [negb]. f_equal. apply IH. tauto.
Qed.

Lemma remove_first_unlink f l : NoDup (akeys l) -> remove_first f l = unlink f l.
Proof.
  unfold akeys, unlink. induction l as [|[f' w] t IH]; cbn [remove_first filter map fst]; intros H; [reflexivity|].
  inversion H as [|? ? Hni Hnd]; subst.
  destruct (N.eqb_spec f f') as [->|Hn]; cbn [negb].
  - symmetry. apply unlink_absent. exact Hni.
  - f_equal. apply IH. exact Hnd.
Qed.

Lemma set_waker_keys f w l : akeys (set_waker f w l) = akeys l.
Proof.
  unfold akeys. induction l as [|[f' w'] t IH]; cbn [set_waker map fst]; [reflexivity|].
  destruct (N.eqb f f'); cbn [map fst]; [reflexivity | f_equal; exact IH].
Qed.

Lemma set_waker_In f w f' w' l : In (f', w') (set_waker f w l) -> exists w2, In (f', w2) l.
Proof.
  intros H. apply In_akeys in H. rewrite set_waker_keys in H. apply akeys_In. exact H.
Qed.

Lemma first_waiting_Some g l f w :
  first_waiting g l = Some (f, w) ->
  In (f, w) l /\ exists x, g f = Some x /\ is_waiting (f_state x) = true.
Proof.
  induction l as [|[f' w'] t IH]; cbn [first_waiting]; intros H; [discriminate|].
  destruct (g f') as [x|] eqn:E.
  - destruct (is_waiting (f_state x)) eqn:Ew.
    + inversion H; subst. split; [left; reflexivity | eauto].
    + destruct (IH H) as [A B]. split; [right; exact A | exact B].
  - destruct (IH H) as [A B]. split; [right; exact A | exact B].
Qed.

Lemma first_waiting_None g l :
  first_waiting g l = None ->
  forall f w x, In (f, w) l -> g f = Some x -> is_waiting (f_state x) = false.
Proof.
  induction l as [|[f' w'] t IH]; cbn [first_waiting]; intros H f w x Hi Hg; [contradiction|].
  destruct Hi as [E|Hi].
  - inversion E; subst. rewrite Hg in H. destruct (is_waiting (f_state x)); [discriminate | reflexivity].
  - destruct (g f') as [y|]; [destruct (is_waiting (f_state y)); [discriminate|]|]; eapply IH; eauto.
Qed.

Lemma set_waker_other f w f1 w1 l : f1 <> f -> In (f1, w1) (set_waker f w l) -> In (f1, w1) l.
Proof.
  intros Hne. induction l as [|[f' w'] t IH]; cbn [set_waker]; intros H; [exact H|].
  destruct (N.eqb_spec f f') as [->|Hn].
  - destruct H as [E|H]; [inversion E; subst; contradiction | right; exact H].
  - destruct H as [E|H]; [left; exact E | right; apply IH; exact H].
Qed.
