(* Proofs/TicketK3Values.v — the value invariant VInv of the K3 ticket model: what the consumer has
   taken is the SET payloads below the cursor in ticket order; a thread's SET tickets carry its op
   numbers in increasing order; API results agree with the ticket states.  (C01, C02) *)
From Fibre Require Import Common.Base Common.Conc Chan.TicketK3 Proofs.TicketK3Base Proofs.TicketK3Frame
  Proofs.TicketK3Prod Proofs.TicketK3Cons Proofs.TicketK3Safety.
From Coq Require Import ZifyBool ZifyNat ZifyN Arith.

(* number of items of the call in progress whose SET store is done *)
Definition done_of (pc : ppc_t) : N :=
  match pc with
  | PE1 k r | PE2 k r _ | PEs k r _ | PE3 k r _ | PW0 k r | PW1 k r | PN1 k r | PN2 k r | PN3 k r =>
      kitem k + N.min (rw r) (rv r)
  | PB1 b | PL1 b | PC0 b | PC1 b | PC2 b _ | PC3 b _ | PC4 b _ _ => bsent b
  | _ => 0
  end.

(* consumer pcs at which nothing has been taken in the current call *)
Definition dgot0 (d : dctx) : bool := match d with DRun _ _ got => N.eqb got 0 | _ => true end.
Definition fquiet (f : fctx) : bool := match f with FVals => false | _ => true end.
Definition quiet (pc : cpc_t) : bool :=
  match pc with
  | CIdle | CDropSt | CWk _ | CDone | CSa _ => true
  | CLock d | CD1 d | CD2 d | CD3 d | CD4 d | CM1 d | CM2 d => dgot0 d
  | CD5 d set => dgot0 d && negb set
  | CD6 d => match d with DRun _ _ got => N.eqb got 0 | _ => false end
  | CUnl d r => match d with
                | DRun _ _ got => N.eqb got 0
                | _ => match r with QGot => false | _ => true end
                end
  | CP1 u | CP2 u | CP3 u | CP4 u | CP5 u =>
      match u with
      | UbDeq (DRun _ _ got) _ => N.eqb got 0       (* got is already advanced *)
      | UbDeq _ set => negb set
      | UbFlush f => fquiet f
      end
  | CFl f | CFu f => fquiet f
  end.

Definition valsf (tkf : N -> tstat) (a b : N) : list val :=
  flat_map (fun t => tk_val (tkf t)) (nrange a (N.to_nat (b - a))).

Lemma vals_in_valsf s a b : vals_in s a b = valsf (tk s) a b.
Proof. reflexivity. Qed.

Lemma flat_map_ext_in' {A B} (f g : A -> list B) l :
  (forall a, In a l -> f a = g a) -> flat_map f l = flat_map g l.
Proof.
  induction l as [|a l IH]; cbn [flat_map]; intros H; [reflexivity|].
  rewrite (H a) by (left; reflexivity). rewrite IH; [reflexivity|]. intros b Hb. apply H. right. exact Hb.
Qed.

Lemma valsf_ext f g a b : (forall t, a <= t < b -> f t = g t) -> valsf f a b = valsf g a b.
Proof.
  intros H. unfold valsf. apply flat_map_ext_in'. intros t Ht. apply in_nrange in Ht. rewrite H by lia. reflexivity.
Qed.

Lemma valsf_upd_out f t0 x a b : t0 < a \/ b <= t0 -> valsf (updN f t0 x) a b = valsf f a b.
Proof. intros H. apply valsf_ext. intros t Ht. apply updN_neq. lia. Qed.

Lemma valsf_claim_out f t0 m th a b : b <= t0 -> valsf (claim f t0 m th) a b = valsf f a b.
Proof. intros H. apply valsf_ext. intros t Ht. apply claim_out. lia. Qed.

Lemma valsf_snoc f a b : a <= b -> valsf f a (b + 1) = valsf f a b ++ tk_val (f b).
Proof.
  intros H. unfold valsf. replace (N.to_nat (b + 1 - a)) with (N.to_nat (b - a) + 1)%nat by lia.
  rewrite nrange_app, flat_map_app. cbn [nrange flat_map]. rewrite app_nil_r.
  replace (a + N.of_nat (N.to_nat (b - a))) with b by lia. reflexivity.
Qed.

Record same_val (s s' : st) : Prop := {
  sv_tk : tk s' = tk s;
  sv_hpos : hpos s' = hpos s;
  sv_presl : presl s' = presl s;
  sv_pseq : pseq s' = pseq s;
  sv_received : received s' = received s;
  sv_cresl : cresl s' = cresl s;
  sv_chand : chand s' = chand s
}.

Record VInv (s : st) : Prop := {
  V_recv : received s = valsf (tk s) 0 (hpos s) ++ (if taken (cpc s) then tk_val (tk s (hpos s)) else []);
  V_set : forall t th k, tk s t = TSet (th, k) ->
          1 <= k /\ k <= pseq s th + done_of (ppc s th) /\ (k <= pseq s th -> In (POk (th, k)) (presl s th));
  V_fly : forall th i, i < done_of (ppc s th) -> exists t, tk s t = TSet (th, pseq s th + 1 + i);
  V_ord : forall t1 t2 th k1 k2, tk s t1 = TSet (th, k1) -> tk s t2 = TSet (th, k2) -> t1 < t2 -> k1 < k2;
  V_own : forall t t2 th k, tk s t = TSet (th, k) -> tk s t2 = TOwn th -> t < t2;
  V_res : forall th r, In r (presl s th) ->
          exists k, 1 <= k <= pseq s th /\
            ((r = POk (th, k) /\ exists t, tk s t = TSet (th, k)) \/
             ((r = PFull (th, k) \/ r = PClosed (th, k)) /\ forall t, tk s t <> TSet (th, k)));
  V_got : got s ++ chand s = received s;
  V_quiet : quiet (cpc s) = true -> chand s = []
}.

Lemma got_app l rs : flat_map cres_val (l ++ rs) = flat_map cres_val l ++ flat_map cres_val rs.
Proof. apply flat_map_app. Qed.

(* ---------------------------------------------------------------- frames *)
Lemma VInv_p_pure s s' u p :
  VInv s -> same_val s s' -> cpc s' = cpc s -> ppc s' = updn (ppc s) u p ->
  done_of p = done_of (ppc s u) -> VInv s'.
Proof.
  intros [V1 V2 V3 V4 V5 V6 V7 V8] [e1 e2 e3 e4 e5 e6 e7] Ec Ep Hf.
  constructor; unfold got in *; rewrite ?e1, ?e2, ?e3, ?e4, ?e5, ?e6, ?e7, ?Ec, ?Ep; try assumption.
  - intros t th k Ht. destruct (Nat.eqb_spec th u) as [->|Hne].
    + rewrite updn_eq, Hf. apply (V2 _ _ _ Ht).
    + rewrite updn_neq by exact Hne. apply (V2 _ _ _ Ht).
  - intros th i. destruct (Nat.eqb_spec th u) as [->|Hne].
    + rewrite updn_eq, Hf. apply V3.
    + rewrite updn_neq by exact Hne. apply V3.
Qed.

Lemma VInv_c_pure s s' p :
  VInv s -> same_val s s' -> ppc s' = ppc s -> cpc s' = p ->
  taken p = taken (cpc s) -> (quiet p = true -> quiet (cpc s) = true) -> VInv s'.
Proof.
  intros [V1 V2 V3 V4 V5 V6 V7 V8] [e1 e2 e3 e4 e5 e6 e7] Ep Ec Ht Hq.
  constructor; unfold got in *; rewrite ?e1, ?e2, ?e3, ?e4, ?e5, ?e6, ?e7, ?Ec, ?Ep, ?Ht; try assumption.
  intros X. apply V8. apply Hq. exact X.
Qed.

Section Values.
Variables cap cc n kk : N.
Hypothesis Hcc : 0 < cc.
Hypothesis Hn : 0 < n.

Lemma taken_set s : SInv cap cc n s -> taken (cpc s) = true -> exists v, tk s (hpos s) = TSet v.
Proof.
  intros I Ht. pose proof (C_inv _ _ _ _ I) as C.
  destruct (cpc s); try discriminate Ht. destruct set; try discriminate Ht. cbn [CInv] in C. destruct C as [C1 [C2 C3]].
  pose proof (E_slot _ _ _ _ I (ent n (hcid s)) (hidx s) (ent_lt cc n Hcc Hn _) C2) as [E1 _]. cbv zeta in E1.
  rewrite C1, <- (A_pos _ _ _ _ I) in E1. unfold slot_at in C3. rewrite C3 in E1.
  destruct (N.ltb_spec (hpos s) (hpos s)) as [L|_]; [lia|].
  destruct (tk s (hpos s)) as [| |v|]; try discriminate E1. exists v. reflexivity.
Qed.

Lemma set_below_tail s t v : SInv cap cc n s -> tk s t = TSet v -> t < gtail s.
Proof.
  intros I H. destruct (N.lt_ge_cases t (gtail s)) as [L|L]; [exact L|]. apply (B_free _ _ _ _ I) in L. congruence.
Qed.

(* ------------------------------------------------------------ S3 / C3 *)
Lemma VInv_claim s u m p :
  SInv cap cc n s -> VInv s -> (forall t, ~ owns (ppc s u) t) -> done_of p = done_of (ppc s u) ->
  VInv (set_ppc_at (set_tk (set_gtail s (gtail s + m)) (claim (tk s) (gtail s) m u)) u p).
Proof.
  intros I [V1 V2 V3 V4 V5 V6 V7 V8] Hno Hd.
  pose proof (A_tail _ _ _ _ I) as Htl.
  assert (Hlt : forall t v, tk s t = TSet v -> t < gtail s) by (intros t v; apply set_below_tail; exact I).
  assert (Hset : forall t v, claim (tk s) (gtail s) m u t = TSet v -> tk s t = TSet v).
  { intros t v H. destruct (N.lt_ge_cases t (gtail s)) as [L|L]; [|destruct (N.lt_ge_cases t (gtail s + m)) as [L'|L']].
    - rewrite claim_out in H by lia. exact H.
    - rewrite claim_in in H by lia. discriminate H.
    - rewrite claim_out in H by lia. exact H. }
  assert (Hkeep : forall t v, tk s t = TSet v -> claim (tk s) (gtail s) m u t = TSet v).
  { intros t v H. rewrite claim_out; [exact H | left; apply (Hlt _ _ H)]. }
  unfold set_ppc_at. constructor; unfold got; st_goal; try assumption.
  - rewrite valsf_claim_out by lia. rewrite V1. f_equal.
    destruct (taken (cpc s)) eqn:Et; [|reflexivity].
    destruct (taken_set s I Et) as [v Hv]. rewrite (Hkeep _ _ Hv), Hv. reflexivity.
  - intros t th k Ht. apply Hset in Ht. destruct (Nat.eqb_spec th u) as [->|Hth].
    + rewrite updn_eq, Hd. apply (V2 _ _ _ Ht).
    + rewrite updn_neq by exact Hth. apply (V2 _ _ _ Ht).
  - intros th i Hi. destruct (Nat.eqb_spec th u) as [->|Hth].
    + rewrite updn_eq, Hd in Hi. destruct (V3 _ _ Hi) as [t Ht]. exists t. apply Hkeep. exact Ht.
    + rewrite updn_neq in Hi by exact Hth. destruct (V3 _ _ Hi) as [t Ht]. exists t. apply Hkeep. exact Ht.
  - intros t1 t2 th k1 k2 H1 H2. apply (V4 _ _ _ _ _ (Hset _ _ H1) (Hset _ _ H2)).
  - intros t t2 th k H1 H2. apply Hset in H1.
    destruct (N.lt_ge_cases t2 (gtail s)) as [L|L]; [|destruct (N.lt_ge_cases t2 (gtail s + m)) as [L'|L']].
    + rewrite claim_out in H2 by lia. apply (V5 _ _ _ _ H1 H2).
    + pose proof (Hlt _ _ H1). lia.
    + pose proof (Hlt _ _ H1). lia.
  - intros th r Hr. destruct (V6 th r Hr) as [k [Hk [[Hr1 [t Ht]]|[Hr1 Hr2]]]]; exists k; (split; [exact Hk|]).
    + left. split; [exact Hr1|]. exists t. apply Hkeep. exact Ht.
    + right. split; [exact Hr1|]. intros t X. apply (Hr2 t). apply Hset. exact X.
Qed.

(* ------------------------------------------------------------ W1 *)
Lemma VInv_publish s u k r p' X :
  SInv cap cc n s -> VInv s -> ppc s u = PW1 k r ->
  done_of p' = done_of (PW1 k r) + (if rset r then 1 else 0) ->
  VInv (set_ppc_at (set_tk (set_sstate s X)
                           (updN (tk s) (rcur r) (if rset r then TSet (itemval s u (kitem k + rw r)) else TSkip))) u p').
Proof.
  intros I [V1 V2 V3 V4 V5 V6 V7 V8] Epc Hd.
  set (t := rcur r) in *.
  pose proof (P_inv _ _ _ _ I u) as Pu. rewrite Epc in Pu. cbn [PInv] in Pu. destruct Pu as [[Pw [Pv [Pc Pb]]] Pres].
  assert (Ht : tk s t = TOwn u).
  { apply (B_own _ _ _ _ I). rewrite Epc. unfold owns. cbn [own_lo own_hi]. unfold t, rcur. lia. }
  pose proof (own_ge _ _ _ _ _ _ I Ht) as Hge.
  assert (Hne : forall t' v, tk s t' = TSet v -> t' <> t) by (intros t' v H Y; subst t'; congruence).
  (* the other SET tickets of u carry smaller op numbers and are below t *)
  assert (Hold : forall t' k', tk s t' = TSet (u, k') -> k' <= pseq s u + done_of (PW1 k r) /\ t' < t).
  { intros t' k' H. split; [|apply (V5 _ _ _ _ H Ht)].
    destruct (V2 _ _ _ H) as [_ [Y _]]. rewrite Epc in Y. exact Y. }
  assert (Hmin : rset r = true -> N.min (rw r) (rv r) = rw r) by (unfold rset; intros Y; apply N.ltb_lt in Y; lia).
  set (x' := if rset r then TSet (itemval s u (kitem k + rw r)) else TSkip).
  unfold set_ppc_at. constructor; unfold got; st_goal; try assumption.
  - rewrite valsf_upd_out by lia. rewrite V1. f_equal.
    destruct (taken (cpc s)) eqn:Et; [|reflexivity].
    destruct (taken_set s I Et) as [v Hv]. rewrite updN_neq by (apply (Hne _ v Hv)). reflexivity.
  - intros t' th k' H. destruct (N.eqb_spec t' t) as [->|N1].
    + rewrite updN_eq in H. subst x'. destruct (rset r) eqn:Ers; [|discriminate H]. unfold itemval in H. inversion H; subst th k'.
      rewrite updn_eq, Hd. cbn [done_of]. rewrite (Hmin eq_refl). split; [lia|]. split; [lia|]. intros Y. lia.
    + rewrite updN_neq in H by exact N1. destruct (V2 _ _ _ H) as [Y1 [Y2 Y3]]. split; [exact Y1|]. split; [|exact Y3].
      destruct (Nat.eqb_spec th u) as [->|Hth]; [|rewrite updn_neq by exact Hth; exact Y2].
      rewrite updn_eq, Hd. rewrite Epc in Y2. lia.
  - intros th i Hi. destruct (Nat.eqb_spec th u) as [->|Hth].
    + rewrite updn_eq, Hd in Hi. cbn [done_of] in Hi.
      destruct (N.lt_ge_cases i (kitem k + N.min (rw r) (rv r))) as [L|L].
      * destruct (V3 u i) as [t' Ht']; [rewrite Epc; exact L|]. exists t'. rewrite updN_neq by (apply (Hne _ _ Ht')). exact Ht'.
      * destruct (rset r) eqn:Ers; [|lia]. rewrite (Hmin eq_refl) in *. assert (i = kitem k + rw r) by lia. subst i.
        exists t. rewrite updN_eq. subst x'. try rewrite Ers. reflexivity.
    + rewrite updn_neq in Hi by exact Hth. destruct (V3 _ _ Hi) as [t' Ht']. exists t'.
      rewrite updN_neq by (apply (Hne _ _ Ht')). exact Ht'.
  - intros t1 t2 th k1 k2 H1 H2 L.
    destruct (N.eqb_spec t1 t) as [->|N1]; destruct (N.eqb_spec t2 t) as [->|N2]; try lia.
    + rewrite updN_eq in H1. rewrite updN_neq in H2 by exact N2.
      subst x'. destruct (rset r); [|discriminate H1]. unfold itemval in H1. inversion H1; subst th k1.
      destruct (Hold _ _ H2). lia.
    + rewrite updN_eq in H2. rewrite updN_neq in H1 by exact N1.
      subst x'. destruct (rset r) eqn:Ers; [|discriminate H2]. unfold itemval in H2. inversion H2; subst th k2.
      destruct (Hold _ _ H1) as [Y _]. cbn [done_of] in Y. rewrite (Hmin eq_refl) in Y. lia.
    + rewrite updN_neq in H1, H2 by assumption. apply (V4 _ _ _ _ _ H1 H2 L).
  - intros t1 t2 th k' H1 H2.
    destruct (N.eqb_spec t2 t) as [->|N2]; [rewrite updN_eq in H2; subst x'; destruct (rset r); discriminate H2|].
    rewrite updN_neq in H2 by exact N2.
    destruct (N.eqb_spec t1 t) as [->|N1]; [|rewrite updN_neq in H1 by exact N1; apply (V5 _ _ _ _ H1 H2)].
    rewrite updN_eq in H1. subst x'. destruct (rset r); [|discriminate H1]. unfold itemval in H1. inversion H1; subst th k'.
    apply (B_own _ _ _ _ I) in H2. rewrite Epc in H2. unfold owns in H2. cbn [own_lo own_hi] in H2. unfold t, rcur in *. lia.
  - intros th r0 Hr. destruct (V6 th r0 Hr) as [k' [Hk [[Hr1 [t' Ht']]|[Hr1 Hr2]]]]; exists k'; (split; [exact Hk|]).
    + left. split; [exact Hr1|]. exists t'. rewrite updN_neq by (apply (Hne _ _ Ht')). exact Ht'.
    + right. split; [exact Hr1|]. intros t'.
      destruct (N.eqb_spec t' t) as [->|N1]; [|rewrite updN_neq by exact N1; apply Hr2].
      rewrite updN_eq. subst x'. destruct (rset r); [|discriminate]. unfold itemval. intros Y. inversion Y; subst th k'. lia.
Qed.

(* ------------------------------------------------------------ completion of a producer call *)
Lemma VInv_p_done_n s u rs items :
  SInv cap cc n s -> VInv s ->
  done_of (ppc s u) <= items ->
  (forall i, i < done_of (ppc s u) -> In (POk (itemval s u i)) rs) ->
  (forall r, In r rs -> exists i, i < items /\
     ((r = POk (itemval s u i) /\ i < done_of (ppc s u)) \/
      ((r = PFull (itemval s u i) \/ r = PClosed (itemval s u i)) /\ done_of (ppc s u) <= i))) ->
  VInv (p_done_n s u rs items).
Proof.
  intros I [V1 V2 V3 V4 V5 V6 V7 V8] Hle Hok Hrs. unfold p_done_n, set_ppc_at.
  constructor; unfold got; st_goal; try assumption.
  - intros t th k Ht. destruct (V2 _ _ _ Ht) as [Y1 [Y2 Y3]]. split; [exact Y1|].
    destruct (Nat.eqb_spec th u) as [->|Hth].
    + rewrite !updn_eq. cbn [done_of]. split; [lia|]. intros _. apply in_or_app.
      destruct (N.le_gt_cases k (pseq s u)) as [L|L]; [left; apply Y3; exact L|].
      right. replace k with (pseq s u + 1 + (k - pseq s u - 1)) by lia. apply (Hok (k - pseq s u - 1)). lia.
    + rewrite !updn_neq by exact Hth. split; assumption.
  - intros th i Hi. destruct (Nat.eqb_spec th u) as [->|Hth].
    + rewrite updn_eq in Hi. cbn [done_of] in Hi. lia.
    + rewrite !updn_neq in * by exact Hth. apply (V3 _ _ Hi).
  - intros th r' Hr'. destruct (Nat.eqb_spec th u) as [->|Hth].
    + rewrite !updn_eq in *. apply in_app_or in Hr'. destruct Hr' as [Hin|Hin].
      * destruct (V6 _ _ Hin) as [k [Hk Y]]. exists k. split; [lia | exact Y].
      * destruct (Hrs _ Hin) as [i [Hi Y]]. exists (pseq s u + 1 + i). split; [lia|]. unfold itemval in Y.
        destruct Y as [[-> Hd]|[Y Hd]].
        -- left. split; [reflexivity|]. apply (V3 u i Hd).
        -- right. split; [exact Y|]. intros t Ht. destruct (V2 _ _ _ Ht) as [_ [Z _]]. lia.
    + rewrite !updn_neq in * by exact Hth. apply (V6 _ _ Hr').
Qed.

End Values.
