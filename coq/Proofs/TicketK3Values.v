(* Proofs/TicketK3Values.v — the value invariant VInv of the K3 ticket model: what the consumer has
   taken is the SET payloads below the cursor in ticket order; a thread's SET tickets carry its op
   numbers in increasing order; API results agree with the ticket states.  (C01, C02) *)
From Fibre Require Import Common.Base Common.Conc Chan.TicketK3 Proofs.TicketK3Base Proofs.TicketK3Frame
  Proofs.TicketK3Prod Proofs.TicketK3Cons Proofs.TicketK3Safety.
From Coq Require Import ZifyBool ZifyNat ZifyN Arith.

(* the thread's SET store is done, its call has not returned yet *)
Definition fly_of (pc : ppc_t) : option N :=
  match pc with PN1 _ t true | PN2 _ t true | PN3 _ t true => Some t | _ => None end.
(* the consumer holds a taken payload that its call has not returned yet *)
Definition hand (pc : cpc_t) : bool :=
  match pc with
  | CD5 _ true | CD6 _ | CUnl _ QGot
  | CP1 (UbSet _) | CP2 (UbSet _) | CP3 (UbSet _) | CP4 (UbSet _) | CP5 (UbSet _) => true
  | _ => false
  end.
Definition hand_c (s : st) : list val := if hand (cpc s) then [chand s] else [].

Definition valsf (tkf : N -> tstat) (a b : N) : list val :=
  flat_map (fun t => tk_val (tkf t)) (nrange a (N.to_nat (b - a))).

Lemma vals_in_valsf s a b : vals_in s a b = valsf (tk s) a b.
Proof. reflexivity. Qed.

Lemma flat_map_ext_in' {A B} (f g : A -> list B) l :
  (forall a, In a l -> f a = g a) -> flat_map f l = flat_map g l.
Proof.
  induction l as [|a l IH]; cbn [flat_map]; intros H; [reflexivity|].
  rewrite (H a) by (left; reflexivity). rewrite IH; [reflexivity|]. intros b Hb. apply H. right. exact Hb.
Qed.

Lemma valsf_ext f g a b : (forall t, a <= t < b -> f t = g t) -> valsf f a b = valsf g a b.
Proof.
  intros H. unfold valsf. apply flat_map_ext_in'. intros t Ht. apply in_nrange in Ht. rewrite H by lia. reflexivity.
Qed.

Lemma valsf_upd_out f t0 x a b : t0 < a \/ b <= t0 -> valsf (updN f t0 x) a b = valsf f a b.
Proof. intros H. apply valsf_ext. intros t Ht. apply updN_neq. lia. Qed.

Lemma valsf_snoc f a b : a <= b -> valsf f a (b + 1) = valsf f a b ++ tk_val (f b).
Proof.
  intros H. unfold valsf. replace (N.to_nat (b + 1 - a)) with (N.to_nat (b - a) + 1)%nat by lia.
  rewrite nrange_app, flat_map_app. cbn [nrange flat_map]. rewrite app_nil_r.
  replace (a + N.of_nat (N.to_nat (b - a))) with b by lia. reflexivity.
Qed.

Record same_val (s s' : st) : Prop := {
  sv_tk : tk s' = tk s;
  sv_hpos : hpos s' = hpos s;
  sv_presl : presl s' = presl s;
  sv_pseq : pseq s' = pseq s;
  sv_received : received s' = received s;
  sv_cresl : cresl s' = cresl s;
  sv_chand : chand s' = chand s
}.

Record VInv (s : st) : Prop := {
  V_recv : received s = valsf (tk s) 0 (hpos s) ++ (if taken (cpc s) then tk_val (tk s (hpos s)) else []);
  V_set : forall t th k, tk s t = TSet (th, k) ->
          (k <= pseq s th /\ In (POk (th, k)) (presl s th)) \/ (k = pseq s th + 1 /\ fly_of (ppc s th) = Some t);
  V_ord : forall t1 t2 th k1 k2, tk s t1 = TSet (th, k1) -> tk s t2 = TSet (th, k2) -> t1 < t2 -> k1 < k2;
  V_own : forall t t2 th k, tk s t = TSet (th, k) -> tk s t2 = TOwn th -> t < t2;
  V_res : forall th r, In r (presl s th) ->
          exists k, 1 <= k <= pseq s th /\
            ((r = POk (th, k) /\ exists t, tk s t = TSet (th, k)) \/
             ((r = PFull (th, k) \/ r = PClosed (th, k)) /\ forall t, tk s t <> TSet (th, k)));
  V_got : got s ++ hand_c s = received s
}.

Lemma got_app l r : flat_map cres_val (l ++ [r]) = flat_map cres_val l ++ cres_val r.
Proof. rewrite flat_map_app. cbn [flat_map]. rewrite app_nil_r. reflexivity. Qed.

(* ---------------------------------------------------------------- frames *)
Lemma VInv_p_pure s s' u p :
  VInv s -> same_val s s' -> cpc s' = cpc s -> ppc s' = updn (ppc s) u p ->
  fly_of p = fly_of (ppc s u) -> VInv s'.
Proof.
  intros [V1 V2 V3 V4 V5 V6] [e1 e2 e3 e4 e5 e6 e7] Ec Ep Hf.
  constructor; unfold got, hand_c in *; rewrite ?e1, ?e2, ?e3, ?e4, ?e5, ?e6, ?e7, ?Ec, ?Ep; try assumption.
  intros t th k Ht. destruct (V2 t th k Ht) as [X|[X Y]]; [left; exact X|]. right. split; [exact X|].
  destruct (Nat.eqb_spec th u) as [->|Hne]; [rewrite updn_eq, Hf; exact Y | rewrite updn_neq by exact Hne; exact Y].
Qed.

Lemma VInv_c_pure s s' p :
  VInv s -> same_val s s' -> ppc s' = ppc s -> cpc s' = p ->
  taken p = taken (cpc s) -> hand p = hand (cpc s) -> VInv s'.
Proof.
  intros [V1 V2 V3 V4 V5 V6] [e1 e2 e3 e4 e5 e6 e7] Ep Ec Ht Hh.
  constructor; unfold got, hand_c in *; rewrite ?e1, ?e2, ?e3, ?e4, ?e5, ?e6, ?e7, ?Ec, ?Ep, ?Ht, ?Hh; assumption.
Qed.

Section Values.
Variables cap cc n kk : N.
Hypothesis Hcc : 0 < cc.
Hypothesis Hn : 0 < n.

Lemma taken_set s : SInv cap cc n s -> taken (cpc s) = true -> exists v, tk s (hpos s) = TSet v.
Proof.
  intros I Ht. pose proof (C_inv _ _ _ _ I) as C.
  destruct (cpc s); try discriminate Ht. destruct set; try discriminate Ht. cbn [CInv] in C. destruct C as [C1 [C2 C3]].
  assert (Epc : taken (CD5 d true) = true) by reflexivity.
  pose proof (E_slot _ _ _ _ I (ent n (hcid s)) (hidx s) (ent_lt cc n Hcc Hn _) C2) as [E1 _]. cbv zeta in E1.
  rewrite C1, <- (A_pos _ _ _ _ I) in E1. unfold slot_at in C3. rewrite C3 in E1.
  destruct (N.ltb_spec (hpos s) (hpos s)) as [L|_]; [lia|].
  destruct (tk s (hpos s)) as [| |v|]; try discriminate E1. exists v. reflexivity.
Qed.

(* ------------------------------------------------------------ S3 *)
Lemma VInv_claim s u x :
  SInv cap cc n s -> VInv s -> ppc s u = PS3 x ->
  VInv (set_ppc_at (set_tk (set_gtail s (gtail s + 1)) (updN (tk s) (gtail s) (TOwn u))) u (PS4 x (gtail s))).
Proof.
  intros I [V1 V2 V3 V4 V5 V6] Epc.
  assert (Hg : tk s (gtail s) = TFree) by (apply (B_free _ _ _ _ I); lia).
  pose proof (A_tail _ _ _ _ I) as Htl.
  assert (Hne : forall t v, tk s t = TSet v -> t <> gtail s) by (intros t v H X; subst t; congruence).
  assert (Hlt : forall t v, tk s t = TSet v -> t < gtail s).
  { intros t v H. destruct (N.lt_ge_cases t (gtail s)) as [L|L]; [exact L|]. apply (B_free _ _ _ _ I) in L. congruence. }
  unfold set_ppc_at. constructor; unfold got, hand_c; st_goal.
  - rewrite valsf_upd_out by lia. rewrite V1. f_equal.
    destruct (taken (cpc s)) eqn:Et; [|reflexivity].
    destruct (taken_set s I Et) as [v Hv]. rewrite updN_neq by (apply (Hne _ v Hv)). reflexivity.
  - intros t th k Ht. destruct (N.eqb_spec t (gtail s)) as [->|Hn']; [rewrite updN_eq in Ht; discriminate Ht|].
    rewrite updN_neq in Ht by exact Hn'. destruct (V2 t th k Ht) as [X|[X Y]]; [left; exact X|]. right. split; [exact X|].
    destruct (Nat.eqb_spec th u) as [->|Hth]; [rewrite Epc in Y; discriminate Y | rewrite updn_neq by exact Hth; exact Y].
  - intros t1 t2 th k1 k2 H1 H2.
    destruct (N.eqb_spec t1 (gtail s)) as [->|N1]; [rewrite updN_eq in H1; discriminate H1|].
    destruct (N.eqb_spec t2 (gtail s)) as [->|N2]; [rewrite updN_eq in H2; discriminate H2|].
    rewrite updN_neq in H1, H2 by assumption. apply (V3 _ _ _ _ _ H1 H2).
  - intros t t2 th k H1 H2.
    destruct (N.eqb_spec t (gtail s)) as [->|N1]; [rewrite updN_eq in H1; discriminate H1|].
    rewrite updN_neq in H1 by exact N1.
    destruct (N.eqb_spec t2 (gtail s)) as [->|N2]; [apply (Hlt _ _ H1)|].
    rewrite updN_neq in H2 by exact N2. apply (V4 _ _ _ _ H1 H2).
  - intros th r Hr. destruct (V5 th r Hr) as [k [Hk [[Hr1 [t Ht]]|[Hr1 Hr2]]]]; exists k; (split; [exact Hk|]).
    + left. split; [exact Hr1|]. exists t. rewrite updN_neq by (apply (Hne _ _ Ht)). exact Ht.
    + right. split; [exact Hr1|]. intros t.
      destruct (N.eqb_spec t (gtail s)) as [->|N1]; [rewrite updN_eq; discriminate | rewrite updN_neq by exact N1; apply Hr2].
  - exact V6.
Qed.

(* ------------------------------------------------------------ W1 *)
Lemma VInv_publish s u x t ok :
  SInv cap cc n s -> VInv s -> ppc s u = PW1 x t ok ->
  VInv (set_ppc_at (set_tk (set_sstate s (updN (sstate s) (slot_of cc n t) (if ok then sSET else sSKIP)))
                           (updN (tk s) t (if ok then TSet (myval s u) else TSkip))) u (PN1 x t ok)).
Proof.
  intros I [V1 V2 V3 V4 V5 V6] Epc.
  assert (Ht : tk s t = TOwn u) by (apply (B_own _ _ _ _ I); rewrite Epc; reflexivity).
  pose proof (own_ge _ _ _ _ _ _ I Ht) as Hge.
  assert (Hne : forall t' v, tk s t' = TSet v -> t' <> t) by (intros t' v H X; subst t'; congruence).
  (* the other SET tickets of u carry smaller op numbers and are below t *)
  assert (Hold : forall t' k, tk s t' = TSet (u, k) -> k <= pseq s u /\ t' < t).
  { intros t' k H. split; [|apply (V4 _ _ _ _ H Ht)].
    destruct (V2 _ _ _ H) as [[X _]|[_ Y]]; [exact X | rewrite Epc in Y; discriminate Y]. }
  set (x' := if ok then TSet (myval s u) else TSkip).
  unfold set_ppc_at. constructor; unfold got, hand_c; st_goal.
  - rewrite valsf_upd_out by lia. rewrite V1. f_equal.
    destruct (taken (cpc s)) eqn:Et; [|reflexivity].
    destruct (taken_set s I Et) as [v Hv]. rewrite updN_neq by (apply (Hne _ v Hv)). reflexivity.
  - intros t' th k H. destruct (N.eqb_spec t' t) as [->|N1].
    + rewrite updN_eq in H. subst x'. destruct ok; [|discriminate H]. unfold myval in H. inversion H; subst th k.
      right. split; [reflexivity|]. rewrite updn_eq. reflexivity.
    + rewrite updN_neq in H by exact N1. destruct (V2 _ _ _ H) as [X|[X Y]]; [left; exact X|]. right. split; [exact X|].
      destruct (Nat.eqb_spec th u) as [->|Hth]; [rewrite Epc in Y; discriminate Y | rewrite updn_neq by exact Hth; exact Y].
  - intros t1 t2 th k1 k2 H1 H2 L.
    destruct (N.eqb_spec t1 t) as [->|N1]; destruct (N.eqb_spec t2 t) as [->|N2]; try lia.
    + rewrite updN_eq in H1. rewrite updN_neq in H2 by exact N2.
      subst x'. destruct ok; [|discriminate H1]. unfold myval in H1. inversion H1; subst th k1.
      destruct (Hold _ _ H2). lia.
    + rewrite updN_eq in H2. rewrite updN_neq in H1 by exact N1.
      subst x'. destruct ok; [|discriminate H2]. unfold myval in H2. inversion H2; subst th k2.
      destruct (Hold _ _ H1). lia.
    + rewrite updN_neq in H1, H2 by assumption. apply (V3 _ _ _ _ _ H1 H2 L).
  - intros t1 t2 th k H1 H2.
    destruct (N.eqb_spec t2 t) as [->|N2]; [rewrite updN_eq in H2; subst x'; destruct ok; discriminate H2|].
    rewrite updN_neq in H2 by exact N2.
    destruct (N.eqb_spec t1 t) as [->|N1]; [|rewrite updN_neq in H1 by exact N1; apply (V4 _ _ _ _ H1 H2)].
    rewrite updN_eq in H1. subst x'. destruct ok; [|discriminate H1]. unfold myval in H1. inversion H1; subst th k.
    exfalso. apply N2. apply (B_own _ _ _ _ I) in H2. rewrite Epc in H2. cbn [own_of] in H2. congruence.
  - intros th r Hr. destruct (V5 th r Hr) as [k [Hk [[Hr1 [t' Ht']]|[Hr1 Hr2]]]]; exists k; (split; [exact Hk|]).
    + left. split; [exact Hr1|]. exists t'. rewrite updN_neq by (apply (Hne _ _ Ht')). exact Ht'.
    + right. split; [exact Hr1|]. intros t'.
      destruct (N.eqb_spec t' t) as [->|N1]; [|rewrite updN_neq by exact N1; apply Hr2].
      rewrite updN_eq. subst x'. destruct ok; [|discriminate]. unfold myval. intros X. inversion X; subst th k. lia.
  - exact V6.
Qed.

(* ------------------------------------------------------------ completion of a try_send *)
Lemma VInv_p_done s u r :
  SInv cap cc n s -> VInv s -> own_of (ppc s u) = None ->
  (r = POk (myval s u) /\ exists t, fly_of (ppc s u) = Some t) \/
  ((r = PFull (myval s u) \/ r = PClosed (myval s u)) /\ fly_of (ppc s u) = None) ->
  VInv (p_done s u r).
Proof.
  intros I [V1 V2 V3 V4 V5 V6] Ho Hr. unfold p_done, set_ppc_at.
  constructor; unfold got, hand_c; st_goal; try assumption.
  - intros t th k Ht. destruct (Nat.eqb_spec th u) as [->|Hth].
    + rewrite !updn_eq. left. destruct (V2 _ _ _ Ht) as [[X Y]|[X Y]].
      * split; [lia | apply in_or_app; left; exact Y].
      * destruct Hr as [[-> _]|[_ Hf]]; [|rewrite Hf in Y; discriminate Y].
        split; [lia|]. apply in_or_app. right. left. unfold myval. rewrite X. reflexivity.
    + rewrite !updn_neq by exact Hth. apply (V2 _ _ _ Ht).
  - intros th r' Hr'. destruct (Nat.eqb_spec th u) as [->|Hth].
    + rewrite !updn_eq in *. apply in_app_or in Hr'. destruct Hr' as [Hin|[<-|[]]].
      * destruct (V5 _ _ Hin) as [k [Hk X]]. exists k. split; [lia | exact X].
      * exists (pseq s u + 1). split; [lia|]. unfold myval in Hr.
        destruct Hr as [[-> [t Hf]]|[Hr Hf]].
        -- left. split; [reflexivity|]. exists t. pose proof (P_inv _ _ _ _ I u) as P.
           destruct (ppc s u); try discriminate Hf; destruct ok; try discriminate Hf; cbn [fly_of] in Hf;
             inversion Hf; subst; cbn [PInv] in P; apply P; reflexivity.
        -- right. split; [exact Hr|]. intros t Ht. destruct (V2 _ _ _ Ht) as [[X _]|[_ Y]]; [lia | congruence].
    + rewrite !updn_neq in * by exact Hth. apply (V5 _ _ Hr').
Qed.

End Values.
