(* Proofs/SpmcOpsProofs.v — theorems about the K2 model of the broadcast SPMC channel
   (Chan/SpmcOps.v), for ALL op histories (induction over the op list with an invariant). *)
From Fibre Require Import Common.Base Chan.SpmcOps.
From Coq Require Import ZifyBool ZifyNat ZifyN.
Ltac Zify.zify_post_hook ::= Z.div_mod_to_equations.

(* ------------------------------------------------------------------ assoc lists *)
Section AssocFacts.
  Context {A : Type}.
  Implicit Types (l : list (N * A)).

  Lemma get_set_eq l k a : get (set l k a) k = Some a.
  Proof.
    induction l as [|[k' a'] t IH]; cbn [set get].
    - rewrite N.eqb_refl. reflexivity.
    - destruct (N.eqb_spec k k') as [->|Hn]; cbn [get].
      + rewrite N.eqb_refl. reflexivity.
      + destruct (N.eqb_spec k k'); [contradiction|]. exact IH.
  Qed.

  Lemma get_set_neq l k k2 a : k2 <> k -> get (set l k a) k2 = get l k2.
  Proof.
    intros Hne. induction l as [|[k' a'] t IH]; cbn [set get].
    - destruct (N.eqb_spec k2 k); [contradiction|]. reflexivity.
    - destruct (N.eqb_spec k k') as [->|Hn]; cbn [get].
      + destruct (N.eqb_spec k2 k'); [contradiction|]. reflexivity.
      + destruct (N.eqb_spec k2 k'); [reflexivity|]. exact IH.
  Qed.

  Lemma get_In l k a : get l k = Some a -> In (k, a) l.
  Proof.
    induction l as [|[k' a'] t IH]; cbn [get]; intros H; [discriminate|].
    destruct (N.eqb_spec k k') as [->|Hn].
    - inversion H; subst. left. reflexivity.
    - right. apply IH. exact H.
  Qed.

  Lemma get_None_keys l k : get l k = None -> ~ In k (map fst l).
  Proof.
    induction l as [|[k' a'] t IH]; cbn [get map fst]; intros H; [tauto|].
    destruct (N.eqb_spec k k') as [->|Hn]; [discriminate|].
    intros [He|Hi]; [congruence | exact (IH H Hi)].
  Qed.

  Lemma In_get l k a : NoDup (map fst l) -> In (k, a) l -> get l k = Some a.
  Proof.
    induction l as [|[k' a'] t IH]; cbn [get map fst]; intros Hnd Hin; [contradiction|].
    inversion Hnd as [|? ? Hni Hnd']; subst.
    destruct Hin as [He|Hin].
    - inversion He; subst. rewrite N.eqb_refl. reflexivity.
    - destruct (N.eqb_spec k k') as [->|Hn].
      + exfalso. apply Hni. apply in_map_iff. exists (k', a). auto.
      + apply IH; assumption.
  Qed.

  Lemma set_keys_in l k a x : In x (map fst (set l k a)) -> x = k \/ In x (map fst l).
  Proof.
    induction l as [|[k' a'] t IH]; cbn [set map fst].
    - intros [H|[]]. left. congruence.
    - destruct (N.eqb_spec k k') as [->|Hn]; cbn [map fst].
      + intros [H|H]; [left; congruence | right; right; exact H].
      + intros [H|H]; [right; left; exact H|]. destruct (IH H); [left|right; right]; assumption.
  Qed.

  Lemma set_NoDup l k a : NoDup (map fst l) -> NoDup (map fst (set l k a)).
  Proof.
    induction l as [|[k' a'] t IH]; cbn [set map fst]; intros Hnd.
    - constructor; [intros []|constructor].
    - inversion Hnd as [|? ? Hni Hnd']; subst.
      destruct (N.eqb_spec k k') as [->|Hn]; cbn [map fst].
      + constructor; assumption.
      + constructor; [|apply IH; exact Hnd'].
        intros Hin. apply set_keys_in in Hin. destruct Hin; [congruence|contradiction].
  Qed.
End AssocFacts.

(* ------------------------------------------------------------------ slices of the log *)
Definition slice (l : list N) (a b : N) : list N :=
  firstn (N.to_nat (b - a)) (skipn (N.to_nat a) l).

Lemma lenN_app {A} (l1 l2 : list A) : lenN (l1 ++ l2) = lenN l1 + lenN l2.
Proof. unfold lenN. rewrite app_length. lia. Qed.

Lemma slice_nil l a : slice l a a = [].
Proof. unfold slice. replace (a - a) with 0 by lia. reflexivity. Qed.

Lemma slice_app_l l vs a b : b <= lenN l -> slice (l ++ vs) a b = slice l a b.
Proof.
  unfold slice, lenN. intros Hb.
  destruct (N.leb_spec a b) as [Hab|Hab].
  - rewrite skipn_app. rewrite firstn_app.
    rewrite skipn_length.
    replace (N.to_nat (b - a) - (length l - N.to_nat a))%nat with 0%nat by lia.
    cbn [firstn]. rewrite app_nil_r. reflexivity.
  - replace (b - a) with 0 by lia. reflexivity.
Qed.

Lemma firstn_plus {A} (n m : nat) (l : list A) :
  firstn (n + m) l = firstn n l ++ firstn m (skipn n l).
Proof.
  revert l. induction n as [|n IH]; intros l; [reflexivity|].
  destruct l as [|x t]; cbn [plus firstn skipn app].
  - destruct m; reflexivity.
  - rewrite IH. reflexivity.
Qed.

Lemma skipn_plus {A} (n m : nat) (l : list A) : skipn m (skipn n l) = skipn (n + m) l.
Proof.
  revert l. induction n as [|n IH]; intros l; [reflexivity|].
  destruct l as [|x t]; cbn [plus skipn].
  - destruct m; reflexivity.
  - apply IH.
Qed.

Lemma slice_split l a b c : a <= b -> b <= c -> slice l a c = slice l a b ++ slice l b c.
Proof.
  unfold slice. intros Hab Hbc.
  replace (N.to_nat (c - a)) with (N.to_nat (b - a) + N.to_nat (c - b))%nat by lia.
  rewrite firstn_plus. f_equal.
  rewrite skipn_plus. f_equal. f_equal. lia.
Qed.

Lemma skipn_cons_nth {A} (d : A) (n : nat) (l : list A) :
  (n < length l)%nat -> skipn n l = nth n l d :: skipn (S n) l.
Proof.
  revert l. induction n as [|n IH]; intros [|x t] H; cbn [length] in H; try lia.
  - reflexivity.
  - cbn [skipn nth]. apply IH. lia.
Qed.

Lemma slice_cons l t k :
  t < lenN l -> slice l t (t + N.of_nat (S k)) = nth (N.to_nat t) l 0 :: slice l (t + 1) (t + 1 + N.of_nat k).
Proof.
  unfold slice, lenN. intros Ht.
  replace (N.to_nat (t + N.of_nat (S k) - t)) with (S k) by lia.
  replace (N.to_nat (t + 1 + N.of_nat k - (t + 1))) with k by lia.
  rewrite (skipn_cons_nth 0) by lia. cbn [firstn].
  replace (N.to_nat (t + 1)) with (S (N.to_nat t)) by lia. reflexivity.
Qed.

Lemma map_nth_seqN l t k :
  t + N.of_nat k <= lenN l ->
  map (fun i => nth (N.to_nat i) l 0) (seqN t k) = slice l t (t + N.of_nat k).
Proof.
  revert t. induction k as [|k IH]; intros t H.
  - cbn [seqN map]. replace (t + N.of_nat 0) with t by lia. rewrite slice_nil. reflexivity.
  - cbn [seqN map]. rewrite slice_cons by lia. f_equal. apply IH. lia.
Qed.

Lemma seqN_length a k : length (seqN a k) = k.
Proof. revert a. induction k; intros a; cbn [seqN length]; [reflexivity|]. rewrite IHk. reflexivity. Qed.

Lemma seqN_bounds a k i : In i (seqN a k) -> a <= i < a + N.of_nat k.
Proof.
  revert a. induction k as [|k IH]; intros a; cbn [seqN]; [intros []|].
  intros [<-|H]; [lia|]. apply IH in H. lia.
Qed.

(* ------------------------------------------------------------------ the part of the state the
   delivery / backpressure / disconnect theorems talk about; waker and drop bookkeeping never touch it *)
Record core := mkCore {
  c_fixed : bool; c_cap : N; c_log : list N;
  c_alive : bool; c_closed : bool; c_taint : bool; c_pdrop : bool;
  c_rxs : list (N * rx) }.

Definition proj (s : st) : core :=
  mkCore (fixedm s) (cap s) (log s) (s_alive s) (s_closed s) (s_taint s) (pdrop s) (rxs s).

Lemma proj_wake w s : proj (wake w s) = proj s.
Proof. reflexivity. Qed.

Lemma proj_wake_list ws s : proj (wake_list ws s) = proj s.
Proof.
  revert s. induction ws as [|w t IH]; intros s; [reflexivity|].
  cbn [wake_list fold_left]. change (proj (wake_list t (wake w s)) = proj s). rewrite IH. reflexivity.
Qed.

Lemma proj_wake_producer s : proj (wake_producer s) = proj s.
Proof. unfold wake_producer. destruct (pw s); reflexivity. Qed.

Lemma proj_drain k s : proj (drain k s) = proj s.
Proof. unfold drain. rewrite proj_wake_list. reflexivity. Qed.

Lemma proj_wake_all s : proj (wake_all s) = proj s.
Proof. unfold wake_all. rewrite proj_wake_list. reflexivity. Qed.

Lemma proj_register k w s : proj (register k w s) = proj s.
Proof. unfold register. destruct (has_reg k w (regs s)); reflexivity. Qed.

Lemma proj_add_drops s l : proj (add_drops s l) = proj s.
Proof. reflexivity. Qed.

Lemma proj_set_fut s f x : proj (set_fut s f x) = proj s.
Proof. reflexivity. Qed.

Lemma proj_kill s f x : proj (kill s f x) = proj s.
Proof. reflexivity. Qed.

Lemma proj_pend s f k w : proj (pend s f k w) = proj s.
Proof. reflexivity. Qed.

Lemma proj_reg_producer f w s : proj (reg_producer f w s) = proj s.
Proof. reflexivity. Qed.

Definition c_head (c : core) : N := lenN (c_log c).
Definition with_log (c : core) (l : list N) : core :=
  mkCore (c_fixed c) (c_cap c) l (c_alive c) (c_closed c) (c_taint c) (c_pdrop c) (c_rxs c).
Definition with_rxs (c : core) (l : list (N * rx)) : core :=
  mkCore (c_fixed c) (c_cap c) (c_log c) (c_alive c) (c_closed c) (c_taint c) (c_pdrop c) l.
Definition with_sender (c : core) (alive closed taint pd : bool) : core :=
  mkCore (c_fixed c) (c_cap c) (c_log c) alive closed taint pd (c_rxs c).

Definition c_cursors (c : core) : list N :=
  map (fun p => r_cur (snd p)) (filter (fun p => r_reg (snd p)) (c_rxs c)).

Definition c_space (c : core) : option N :=
  match minl (c_cursors c) with
  | None => None
  | Some m => Some (c_cap c - N.min (c_head c - m) (c_cap c))
  end.

Definition c_slot_index (c : core) (idx : N) : N := idx + c_cap c * ((c_head c - 1 - idx) / c_cap c).
Definition c_slot_val (c : core) (idx : N) : N := nth (N.to_nat (c_slot_index c idx)) (c_log c) 0.

Lemma space_proj s : space s = c_space (proj s).
Proof. reflexivity. Qed.

Lemma slot_val_proj s i : slot_val s i = c_slot_val (proj s) i.
Proof. reflexivity. Qed.

(* write1 / write_many: the log grows by exactly the values written, nothing else in the core moves *)
Lemma proj_write1 v s : proj (write1 v s) = with_log (proj s) (log s ++ [v]).
Proof.
  unfold write1. rewrite proj_drain.
  destruct (N.leb (cap s) (head s)); reflexivity.
Qed.

Lemma proj_write_many vs s : proj (write_many vs s) = with_log (proj s) (log s ++ vs).
Proof.
  revert s. induction vs as [|v t IH]; intros s.
  - cbn [write_many fold_left]. rewrite app_nil_r. destruct s; reflexivity.
  - cbn [write_many fold_left]. change (proj (write_many t (write1 v s)) = with_log (proj s) (log s ++ v :: t)).
    rewrite IH. pose proof (proj_write1 v s) as H.
    assert (Hl : log (write1 v s) = log s ++ [v]) by (change (c_log (proj (write1 v s)) = log s ++ [v]); rewrite H; reflexivity).
    rewrite Hl, H. unfold with_log. cbn [c_fixed c_cap c_alive c_closed c_taint c_pdrop c_rxs proj].
    rewrite <- app_assoc. reflexivity.
Qed.
