(* Proofs/SpmcOpsProofs.v — theorems about the K2 model of the broadcast SPMC channel
   (Chan/SpmcOps.v), for ALL op histories (induction over the op list with an invariant). *)
From Fibre Require Import Common.Base Chan.SpmcOps.
From Coq Require Import ZifyBool ZifyNat ZifyN.
Ltac Zify.zify_post_hook ::= Z.div_mod_to_equations.

(* ------------------------------------------------------------------ assoc lists *)
Section AssocFacts.
  Context {A : Type}.
  Implicit Types (l : list (N * A)).

  Lemma get_set_eq l k a : get (set l k a) k = Some a.
  Proof.
    induction l as [|[k' a'] t IH]; cbn [set get].
    - rewrite N.eqb_refl. reflexivity.
    - destruct (N.eqb_spec k k') as [->|Hn]; cbn [get].
      + rewrite N.eqb_refl. reflexivity.
      + destruct (N.eqb_spec k k'); [contradiction|]. exact IH.
  Qed.

  Lemma get_set_neq l k k2 a : k2 <> k -> get (set l k a) k2 = get l k2.
  Proof.
    intros Hne. induction l as [|[k' a'] t IH]; cbn [set get].
    - destruct (N.eqb_spec k2 k); [contradiction|]. reflexivity.
    - destruct (N.eqb_spec k k') as [->|Hn]; cbn [get].
      + destruct (N.eqb_spec k2 k'); [contradiction|]. reflexivity.
      + destruct (N.eqb_spec k2 k'); [reflexivity|]. exact IH.
  Qed.

  Lemma get_In l k a : get l k = Some a -> In (k, a) l.
  Proof.
    induction l as [|[k' a'] t IH]; cbn [get]; intros H; [discriminate|].
    destruct (N.eqb_spec k k') as [->|Hn].
    - inversion H; subst. left. reflexivity.
    - right. apply IH. exact H.
  Qed.

  Lemma get_None_keys l k : get l k = None -> ~ In k (map fst l).
  Proof.
    induction l as [|[k' a'] t IH]; cbn [get map fst]; intros H; [tauto|].
    destruct (N.eqb_spec k k') as [->|Hn]; [discriminate|].
    intros [He|Hi]; [congruence | exact (IH H Hi)].
  Qed.

  Lemma In_get l k a : NoDup (map fst l) -> In (k, a) l -> get l k = Some a.
  Proof.
    induction l as [|[k' a'] t IH]; cbn [get map fst]; intros Hnd Hin; [contradiction|].
    inversion Hnd as [|? ? Hni Hnd']; subst.
    destruct Hin as [He|Hin].
    - inversion He; subst. rewrite N.eqb_refl. reflexivity.
    - destruct (N.eqb_spec k k') as [->|Hn].
      + exfalso. apply Hni. apply in_map_iff. exists (k', a). auto.
      + apply IH; assumption.
  Qed.

  Lemma set_keys_in l k a x : In x (map fst (set l k a)) -> x = k \/ In x (map fst l).
  Proof.
    induction l as [|[k' a'] t IH]; cbn [set map fst].
    - intros [H|[]]. left. congruence.
    - destruct (N.eqb_spec k k') as [->|Hn]; cbn [map fst].
      + intros [H|H]; [left; congruence | right; right; exact H].
      + intros [H|H]; [right; left; exact H|]. destruct (IH H); [left|right; right]; assumption.
  Qed.

  Lemma set_NoDup l k a : NoDup (map fst l) -> NoDup (map fst (set l k a)).
  Proof.
    induction l as [|[k' a'] t IH]; cbn [set map fst]; intros Hnd.
    - constructor; [intros []|constructor].
    - inversion Hnd as [|? ? Hni Hnd']; subst.
      destruct (N.eqb_spec k k') as [->|Hn]; cbn [map fst].
      + constructor; assumption.
      + constructor; [|apply IH; exact Hnd'].
        intros Hin. apply set_keys_in in Hin. destruct Hin; [congruence|contradiction].
  Qed.
  Lemma set_set l k a b : set (set l k a) k b = set l k b.
  Proof.
    induction l as [|[k' a'] t IH]; cbn [set].
    - rewrite N.eqb_refl. reflexivity.
    - destruct (N.eqb_spec k k') as [->|Hn]; cbn [set].
      + rewrite N.eqb_refl. reflexivity.
      + destruct (N.eqb_spec k k'); [contradiction|]. rewrite IH. reflexivity.
  Qed.
End AssocFacts.

(* ------------------------------------------------------------------ slices of the log *)
Definition slice (l : list N) (a b : N) : list N :=
  firstn (N.to_nat (b - a)) (skipn (N.to_nat a) l).

Lemma lenN_app {A} (l1 l2 : list A) : lenN (l1 ++ l2) = lenN l1 + lenN l2.
Proof. unfold lenN. rewrite app_length. lia. Qed.

Lemma slice_nil l a : slice l a a = [].
Proof. unfold slice. replace (a - a) with 0 by lia. reflexivity. Qed.

Lemma slice_app_l l vs a b : b <= lenN l -> slice (l ++ vs) a b = slice l a b.
Proof.
  unfold slice, lenN. intros Hb.
  destruct (N.leb_spec a b) as [Hab|Hab].
  - rewrite skipn_app. rewrite firstn_app.
    rewrite skipn_length.
    replace (N.to_nat (b - a) - (length l - N.to_nat a))%nat with 0%nat by lia.
    cbn [firstn]. rewrite app_nil_r. reflexivity.
  - replace (b - a) with 0 by lia. reflexivity.
Qed.

Lemma firstn_plus {A} (n m : nat) (l : list A) :
  firstn (n + m) l = firstn n l ++ firstn m (skipn n l).
Proof.
  revert l. induction n as [|n IH]; intros l; [reflexivity|].
  destruct l as [|x t]; cbn [plus firstn skipn app].
  - destruct m; reflexivity.
  - rewrite IH. reflexivity.
Qed.

Lemma skipn_plus {A} (n m : nat) (l : list A) : skipn m (skipn n l) = skipn (n + m) l.
Proof.
  revert l. induction n as [|n IH]; intros l; [reflexivity|].
  destruct l as [|x t]; cbn [plus skipn].
  - destruct m; reflexivity.
  - apply IH.
Qed.

Lemma slice_split l a b c : a <= b -> b <= c -> slice l a c = slice l a b ++ slice l b c.
Proof.
  unfold slice. intros Hab Hbc.
  replace (N.to_nat (c - a)) with (N.to_nat (b - a) + N.to_nat (c - b))%nat by lia.
  rewrite firstn_plus. f_equal.
  rewrite skipn_plus. f_equal. f_equal. lia.
Qed.

Lemma skipn_cons_nth {A} (d : A) (n : nat) (l : list A) :
  (n < length l)%nat -> skipn n l = nth n l d :: skipn (S n) l.
Proof.
  revert l. induction n as [|n IH]; intros [|x t] H; cbn [length] in H; try lia.
  - reflexivity.
  - cbn [skipn nth]. apply IH. lia.
Qed.

Lemma slice_cons l t k :
  t < lenN l -> slice l t (t + N.of_nat (S k)) = nth (N.to_nat t) l 0 :: slice l (t + 1) (t + 1 + N.of_nat k).
Proof.
  unfold slice, lenN. intros Ht.
  replace (N.to_nat (t + N.of_nat (S k) - t)) with (S k) by lia.
  replace (N.to_nat (t + 1 + N.of_nat k - (t + 1))) with k by lia.
  rewrite (skipn_cons_nth 0) by lia. cbn [firstn].
  replace (N.to_nat (t + 1)) with (S (N.to_nat t)) by lia. reflexivity.
Qed.

Lemma map_nth_seqN l t k :
  t + N.of_nat k <= lenN l ->
  map (fun i => nth (N.to_nat i) l 0) (seqN t k) = slice l t (t + N.of_nat k).
Proof.
  revert t. induction k as [|k IH]; intros t H.
  - cbn [seqN map]. replace (t + N.of_nat 0) with t by lia. rewrite slice_nil. reflexivity.
  - cbn [seqN map]. rewrite slice_cons by lia. f_equal. apply IH. lia.
Qed.

Lemma seqN_length a k : length (seqN a k) = k.
Proof. revert a. induction k; intros a; cbn [seqN length]; [reflexivity|]. rewrite IHk. reflexivity. Qed.

Lemma seqN_bounds a k i : In i (seqN a k) -> a <= i < a + N.of_nat k.
Proof.
  revert a. induction k as [|k IH]; intros a; cbn [seqN]; [intros []|].
  intros [<-|H]; [lia|]. apply IH in H. lia.
Qed.

(* ------------------------------------------------------------------ the part of the state the
   delivery / backpressure / disconnect theorems talk about; waker and drop bookkeeping never touch it *)
Record core := mkCore {
  c_fixed : bool; c_cap : N; c_log : list N;
  c_alive : bool; c_closed : bool; c_taint : bool; c_pdrop : bool;
  c_rxs : list (N * rx) }.

Definition proj (s : st) : core :=
  mkCore (fixedm s) (cap s) (log s) (s_alive s) (s_closed s) (s_taint s) (pdrop s) (rxs s).

Lemma proj_wake w s : proj (wake w s) = proj s.
Proof. reflexivity. Qed.

Lemma proj_wake_list ws s : proj (wake_list ws s) = proj s.
Proof.
  revert s. induction ws as [|w t IH]; intros s; [reflexivity|].
  cbn [wake_list fold_left]. change (proj (wake_list t (wake w s)) = proj s). rewrite IH. reflexivity.
Qed.

Lemma proj_wake_producer s : proj (wake_producer s) = proj s.
Proof. unfold wake_producer. destruct (pw s); reflexivity. Qed.

Lemma proj_drain k s : proj (drain k s) = proj s.
Proof. unfold drain. rewrite proj_wake_list. reflexivity. Qed.

Lemma proj_wake_all s : proj (wake_all s) = proj s.
Proof. unfold wake_all. rewrite proj_wake_list. reflexivity. Qed.

Lemma proj_register k w s : proj (register k w s) = proj s.
Proof. unfold register. destruct (has_reg k w (regs s)); reflexivity. Qed.

Lemma proj_add_drops s l : proj (add_drops s l) = proj s.
Proof. reflexivity. Qed.

Lemma proj_set_fut s f x : proj (set_fut s f x) = proj s.
Proof. reflexivity. Qed.

Lemma proj_kill s f x : proj (kill s f x) = proj s.
Proof. reflexivity. Qed.

Lemma proj_pend s f k w : proj (pend s f k w) = proj s.
Proof. reflexivity. Qed.

Lemma proj_reg_producer f w s : proj (reg_producer f w s) = proj s.
Proof. reflexivity. Qed.

Definition c_head (c : core) : N := lenN (c_log c).
Definition with_log (c : core) (l : list N) : core :=
  mkCore (c_fixed c) (c_cap c) l (c_alive c) (c_closed c) (c_taint c) (c_pdrop c) (c_rxs c).
Definition with_rxs (c : core) (l : list (N * rx)) : core :=
  mkCore (c_fixed c) (c_cap c) (c_log c) (c_alive c) (c_closed c) (c_taint c) (c_pdrop c) l.
Definition with_sender (c : core) (alive closed taint pd : bool) : core :=
  mkCore (c_fixed c) (c_cap c) (c_log c) alive closed taint pd (c_rxs c).

Definition c_cursors (c : core) : list N :=
  map (fun p => r_cur (snd p)) (filter (fun p => r_reg (snd p)) (c_rxs c)).

Definition c_space (c : core) : option N :=
  match minl (c_cursors c) with
  | None => None
  | Some m => Some (c_cap c - N.min (c_head c - m) (c_cap c))
  end.

Definition c_slot_index (c : core) (idx : N) : N := idx + c_cap c * ((c_head c - 1 - idx) / c_cap c).
Definition c_slot_val (c : core) (idx : N) : N := nth (N.to_nat (c_slot_index c idx)) (c_log c) 0.

Lemma space_proj s : space s = c_space (proj s).
Proof. reflexivity. Qed.

Lemma slot_val_proj s i : slot_val s i = c_slot_val (proj s) i.
Proof. reflexivity. Qed.

(* write1 / write_many: the log grows by exactly the values written, nothing else in the core moves *)
Lemma proj_write1 v s : proj (write1 v s) = with_log (proj s) (log s ++ [v]).
Proof.
  unfold write1. rewrite proj_drain.
  destruct (N.leb (cap s) (head s)); reflexivity.
Qed.

Lemma proj_write_many vs s : proj (write_many vs s) = with_log (proj s) (log s ++ vs).
Proof.
  revert s. induction vs as [|v t IH]; intros s.
  - cbn [write_many fold_left]. rewrite app_nil_r. destruct s; reflexivity.
  - cbn [write_many fold_left]. change (proj (write_many t (write1 v s)) = with_log (proj s) (log s ++ v :: t)).
    rewrite IH. pose proof (proj_write1 v s) as H.
    assert (Hl : log (write1 v s) = log s ++ [v]) by (change (c_log (proj (write1 v s)) = log s ++ [v]); rewrite H; reflexivity).
    rewrite Hl, H. unfold with_log. cbn [c_fixed c_cap c_alive c_closed c_taint c_pdrop c_rxs proj].
    rewrite <- app_assoc. reflexivity.
Qed.

(* ------------------------------------------------------------------ what a receiver obtained *)
Fixpoint vals_of (r : N) (o : out) : list N :=
  match o with
  | OVal r' v => if N.eqb r' r then [v] else []
  | OVals r' vs => if N.eqb r' r then vs else []
  | OReady o' => vals_of r o'
  | _ => []
  end.

Definition recvd (r : N) (outs : list out) : list N := flat_map (vals_of r) outs.
Definition quiet (o : out) : Prop := forall r, vals_of r o = [].

Lemma recvd_snoc r outs o : recvd r (outs ++ [o]) = recvd r outs ++ vals_of r o.
Proof. unfold recvd. rewrite flat_map_app. cbn [flat_map]. rewrite app_nil_r. reflexivity. Qed.

(* ------------------------------------------------------------------ transition shapes on the core *)
Definition c_get (c : core) (r : N) : option rx := get (c_rxs c) r.

(* which op may introduce a taint: only Clone / to_sync,to_async of a receiver / of the sender *)
Inductive okind := KOther | KClone (r : N) | KRConv (r : N) | KSConv.
Definition kind_of (o : op) : okind :=
  match o with RClone r _ => KClone r | RConv r => KRConv r | SConv => KSConv | _ => KOther end.

Definition rx_upd_ok (kd : okind) (r : N) (fixed : bool) (x x' : rx) : Prop :=
  r_cur x' = r_cur x /\ r_start x' = r_start x /\
  (   (r_reg x' = false /\ r_closed x' = true /\ r_taint x' = r_taint x)
   \/ (r_reg x' = r_reg x /\ r_closed x' = r_closed x /\ r_taint x' = r_taint x /\
       (r_live x' = true \/ r_closed x = true))
   \/ (fixed = false /\ r_reg x' = r_reg x /\ r_closed x' = false /\ r_live x' = true /\
       r_taint x' = (r_taint x || r_closed x) /\ kd = KRConv r)).

Definition clone_ok (kd : okind) (r : N) (fixed : bool) (x xc : rx) : Prop :=
  kd = KClone r /\ r_cur xc = r_cur x /\ r_start xc = r_cur x /\ r_live xc = true /\
  (   (r_reg xc = true /\ r_closed xc = false /\ r_taint xc = (r_taint x || negb (r_reg x)) /\
       (fixed = false \/ r_closed x = false))
   \/ (fixed = true /\ r_closed x = true /\ r_reg xc = false /\ r_closed xc = true /\ r_taint xc = r_taint x)).

Definition sender_ok (kd : okind) (c : core) (a cl t pd : bool) : Prop :=
  c_alive c = true /\
  (   (c_closed c = false /\ a = true /\ cl = true /\ t = c_taint c /\ pd = true)
   \/ (a = false /\ cl = true /\ t = c_taint c /\ (pd = true \/ (c_closed c = true /\ pd = c_pdrop c)))
   \/ (c_fixed c = false /\ a = true /\ cl = false /\ t = (c_taint c || c_closed c) /\ pd = c_pdrop c /\ kd = KSConv)).

Inductive shape (kd : okind) (c : core) (o : out) : core -> Prop :=
| Sh_same : quiet o -> shape kd c o c
| Sh_send vs sp : quiet o -> c_space c = Some sp -> lenN vs <= sp -> c_alive c = true -> c_closed c = false ->
    shape kd c o (with_log c (c_log c ++ vs))
| Sh_recv r x k : c_get c r = Some x -> r_closed x = false ->
    r_cur x + k <= c_head c ->
    vals_of r o = map (c_slot_val c) (seqN (r_cur x) (N.to_nat k)) ->
    (forall r', r' <> r -> vals_of r' o = []) ->
    shape kd c o (with_rxs c (set (c_rxs c) r (adv x k)))
| Sh_rx_upd r x x' : quiet o -> c_get c r = Some x -> r_live x = true -> rx_upd_ok kd r (c_fixed c) x x' ->
    shape kd c o (with_rxs c (set (c_rxs c) r x'))
| Sh_clone r x cid xc : quiet o -> c_get c r = Some x -> r_live x = true -> c_get c cid = None ->
    clone_ok kd r (c_fixed c) x xc ->
    shape kd c o (with_rxs c (set (c_rxs c) cid xc))
| Sh_sender a cl t pd : quiet o -> sender_ok kd c a cl t pd -> shape kd c o (with_sender c a cl t pd).

Lemma with_log_same c : with_log c (c_log c) = c.
Proof. destruct c; reflexivity. Qed.

(* ---- primitive specs *)
Lemma try_send_core_spec v s s' res :
  try_send_core v s = (s', res) ->
  match res with
  | SOk => proj s' = with_log (proj s) (log s ++ [v]) /\ exists sp, c_space (proj s) = Some sp /\ 1 <= sp
  | SFull => s' = s /\ exists m, minl (cursors s) = Some m /\ cap s <= head s - m
  | SClosedR => s' = s /\ minl (cursors s) = None
  end.
Proof.
  unfold try_send_core. destruct (minl (cursors s)) as [m|] eqn:Em.
  - destruct (N.leb_spec (cap s) (head s - m)) as [Hle|Hlt]; intros H; inversion H; subst.
    + split; [reflexivity|]. exists m. split; [reflexivity|exact Hle].
    + split; [apply proj_write1|].
      unfold c_space. change (c_cursors (proj s)) with (cursors s). rewrite Em.
      eexists. split; [reflexivity|]. change (c_head (proj s)) with (head s). cbn [c_cap proj]. lia.
  - intros H; inversion H; subst. split; reflexivity.
Qed.

Lemma firstnN_len {A} k (l : list A) : lenN (firstnN k l) = N.min k (lenN l).
Proof. unfold lenN, firstnN. rewrite firstn_length. lia. Qed.

Lemma firstnN_skipnN {A} k (l : list A) : firstnN k l ++ skipnN k l = l.
Proof. apply firstn_skipn. Qed.

Lemma send_some_spec vs s :
  match send_some vs s with
  | None => c_space (proj s) = None
  | Some (s', k, rest) =>
      exists sp, c_space (proj s) = Some sp /\ k = N.min sp (lenN vs) /\
                 rest = skipnN k vs /\
                 proj s' = with_log (proj s) (log s ++ firstnN k vs)
  end.
Proof.
  unfold send_some. rewrite space_proj. destruct (c_space (proj s)) as [sp|]; [|reflexivity].
  exists sp. split; [reflexivity|]. split; [reflexivity|]. split; [reflexivity|]. apply proj_write_many.
Qed.

Lemma slot_index_window c i :
  i < c_head c -> c_head c <= i + c_cap c -> c_slot_index c i = i.
Proof.
  intros H1 H2. unfold c_slot_index.
  assert (Hc : c_cap c <> 0) by lia.
  rewrite N.div_small by lia. lia.
Qed.

Lemma in_window_spec s t : in_window s t = true <-> t < head s /\ head s <= t + cap s.
Proof. unfold in_window. rewrite andb_true_iff, N.ltb_lt, N.leb_le. tauto. Qed.

Lemma try_recv_core_spec r x s s' res :
  try_recv_core r x s = (s', res) ->
  match res with
  | RVal v => proj s' = with_rxs (proj s) (set (rxs s) r (adv x 1)) /\ r_cur x + 1 <= head s /\
              v = c_slot_val (proj s) (r_cur x) /\ in_window s (r_cur x) = true
  | REmpty => s' = s /\ in_window s (r_cur x) = false /\ (pdrop s = false \/ r_cur x < head s)
  | RDisc => s' = s /\ pdrop s = true /\ head s <= r_cur x
  end.
Proof.
  unfold try_recv_core. destruct (in_window s (r_cur x)) eqn:Ew.
  - intros H; inversion H; subst. apply in_window_spec in Ew.
    rewrite proj_wake_producer, proj_add_drops.
    split; [reflexivity|]. split; [lia|]. split; [|reflexivity].
    unfold c_slot_val. rewrite slot_index_window; [reflexivity| |]; cbn [c_head c_cap c_log proj]; tauto.
  - destruct (pdrop s) eqn:Ep; cbn [andb].
    + destruct (N.leb_spec (head s) (r_cur x)) as [Hle|Hlt]; intros H; inversion H; subst; auto.
    + intros H; inversion H; subst. auto.
Qed.

Lemma try_recv_batch_core_spec r x n s s' res :
  try_recv_batch_core r x n s = (s', res) ->
  match res with
  | BVals vs => exists k, proj s' = with_rxs (proj s) (set (rxs s) r (adv x k)) /\ r_cur x + k <= head s /\
                k = N.min (head s - r_cur x) n /\ r_cur x < head s /\
                vs = map (c_slot_val (proj s)) (seqN (r_cur x) (N.to_nat k))
  | BEmpty => s' = s /\ head s <= r_cur x /\ pdrop s = false
  | BDisc => s' = s /\ head s <= r_cur x /\ pdrop s = true
  end.
Proof.
  unfold try_recv_batch_core. destruct (N.leb_spec (head s) (r_cur x)) as [Hle|Hlt].
  - destruct (pdrop s) eqn:Ep; intros H; inversion H; subst; auto.
  - intros H; inversion H; subst. eexists. rewrite proj_wake_producer, proj_add_drops.
    split; [reflexivity|]. split; [lia|]. split; [reflexivity|]. split; [exact Hlt|]. reflexivity.
Qed.

(* ------------------------------------------------------------------ every step has one of the shapes *)
Lemma shape_ext kd c o o' c' : (forall r, vals_of r o' = vals_of r o) -> shape kd c o c' -> shape kd c o' c'.
Proof.
  intros He H. destruct H.
  - apply Sh_same. intros r. rewrite He. apply H.
  - eapply Sh_send; eauto. intros r. rewrite He. apply H.
  - eapply Sh_recv; eauto.
    + rewrite He. assumption.
    + intros r' Hr. rewrite He. auto.
  - eapply Sh_rx_upd; eauto. intros r0. rewrite He. apply H.
  - eapply Sh_clone; eauto. intros r0. rewrite He. apply H.
  - eapply Sh_sender; eauto. intros r0. rewrite He. apply H.
Qed.

Lemma vals_of_OVal_eq r v : vals_of r (OVal r v) = [v].
Proof. cbn [vals_of]. rewrite N.eqb_refl. reflexivity. Qed.
Lemma vals_of_OVal_neq r r' v : r' <> r -> vals_of r' (OVal r v) = [].
Proof. intros H. cbn [vals_of]. destruct (N.eqb_spec r r'); [congruence|reflexivity]. Qed.
Lemma vals_of_OVals_eq r vs : vals_of r (OVals r vs) = vs.
Proof. cbn [vals_of]. rewrite N.eqb_refl. reflexivity. Qed.
Lemma vals_of_OVals_neq r r' vs : r' <> r -> vals_of r' (OVals r vs) = [].
Proof. intros H. cbn [vals_of]. destruct (N.eqb_spec r r'); [congruence|reflexivity]. Qed.

Ltac quiet_tac := let r := fresh in intros r; cbn [vals_of]; try reflexivity; destruct (N.eqb _ _); reflexivity.
Ltac same_tac := apply Sh_same; quiet_tac.

Lemma recv_shape r x s s' res on_empty :
  get (rxs s) r = Some x -> r_closed x = false ->
  try_recv_core r x s = (s', res) -> quiet on_empty ->
  forall kd, shape kd (proj s) (out_of_rres r res on_empty) (proj s').
Proof.
  intros Hg Hc H Hq kd. apply try_recv_core_spec in H. destruct res as [v| |]; cbn [out_of_rres].
  - destruct H as (Hp & Hb & Hv & _). rewrite Hp.
    change (rxs s) with (c_rxs (proj s)).
    eapply Sh_recv with (k := 1); eauto.
    + rewrite vals_of_OVal_eq. cbn [N.to_nat Pos.to_nat Pos.iter_op seqN map]. subst v. reflexivity.
    + intros r' Hr. apply vals_of_OVal_neq. exact Hr.
  - destruct H as (-> & _). apply Sh_same. exact Hq.
  - destruct H as (-> & _). same_tac.
Qed.

Lemma recv_batch_shape r x n s s' res on_empty :
  get (rxs s) r = Some x -> r_closed x = false ->
  try_recv_batch_core r x n s = (s', res) -> quiet on_empty ->
  forall kd, shape kd (proj s) (out_of_bres r res on_empty) (proj s').
Proof.
  intros Hg Hc H Hq kd. apply try_recv_batch_core_spec in H. destruct res as [vs| |]; cbn [out_of_bres].
  - destruct H as (k & Hp & Hb & _ & _ & Hv). rewrite Hp.
    change (rxs s) with (c_rxs (proj s)).
    eapply Sh_recv with (k := k); eauto.
    + rewrite vals_of_OVals_eq. exact Hv.
    + intros r' Hr. apply vals_of_OVals_neq. exact Hr.
  - destruct H as (-> & _). apply Sh_same. exact Hq.
  - destruct H as (-> & _). same_tac.
Qed.

Lemma send1_shape v s s' res o :
  s_alive s = true -> s_closed s = false -> quiet o ->
  try_send_core v s = (s', res) -> forall kd, shape kd (proj s) o (proj s').
Proof.
  intros Ha Hc Hq H kd. apply try_send_core_spec in H. destruct res.
  - destruct H as (Hp & sp & Hs & Hle). rewrite Hp.
    change (log s) with (c_log (proj s)). eapply Sh_send; eauto.
  - destruct H as (-> & _). apply Sh_same. exact Hq.
  - destruct H as (-> & _). apply Sh_same. exact Hq.
Qed.

Lemma send_some_shape vs s s' k rest o :
  s_alive s = true -> s_closed s = false -> quiet o ->
  send_some vs s = Some (s', k, rest) -> forall kd, shape kd (proj s) o (proj s').
Proof.
  intros Ha Hc Hq H kd. pose proof (send_some_spec vs s) as Hs. rewrite H in Hs.
  destruct Hs as (sp & Hsp & Hk & _ & Hp). rewrite Hp.
  change (log s) with (c_log (proj s)). eapply Sh_send; eauto.
  rewrite firstnN_len. lia.
Qed.

Lemma with_rx_inv s r k s' o :
  with_rx s r k = (s', o) ->
  (s' = s /\ o = ONA) \/ exists x, get (rxs s) r = Some x /\ r_live x = true /\ k x = (s', o).
Proof.
  unfold with_rx. destruct (get (rxs s) r) as [x|] eqn:E.
  - destruct (r_live x) eqn:El; intros H.
    + right. eauto.
    + inversion H. left. auto.
  - intros H. inversion H. left. auto.
Qed.

Ltac pinv H := inversion H; subst; clear H.

Lemma new_fut_shape kd s f k s' o : new_fut s f k = (s', o) -> shape kd (proj s) o (proj s').
Proof.
  unfold new_fut. destruct (get (futs s) f); intros H; pinv H; same_tac.
Qed.

Lemma poll_shape kd s f x w s' o : poll_fut s f x w = (s', o) -> shape kd (proj s) o (proj s').
Proof.
  unfold poll_fut. destruct (f_kind x) as [r|r n|v|rest sent total|rest sent].
  - destruct (get (rxs s) r) as [y|] eqn:Eg; [|intros H; pinv H; same_tac].
    destruct (r_closed y) eqn:Ec; [intros H; pinv H; rewrite proj_kill; same_tac|].
    destruct (try_recv_core r y s) as [s1 res] eqn:Et.
    pose proof (recv_shape r y s s1 res OPending Eg Ec Et ltac:(quiet_tac)) as Hs.
    destruct res; intros H; pinv H; rewrite ?proj_kill, ?proj_pend, ?proj_register;
      (eapply shape_ext; [|apply Hs]); intros r0; reflexivity.
  - destruct (get (rxs s) r) as [y|] eqn:Eg; [|intros H; pinv H; same_tac].
    destruct (r_closed y) eqn:Ec; [intros H; pinv H; rewrite proj_kill; same_tac|].
    destruct (N.eqb n 0); [intros H; pinv H; rewrite proj_kill; same_tac|].
    destruct (try_recv_batch_core r y n s) as [s1 res] eqn:Et.
    pose proof (recv_batch_shape r y n s s1 res OPending Eg Ec Et ltac:(quiet_tac)) as Hs.
    destruct res; intros H; pinv H; rewrite ?proj_kill, ?proj_pend, ?proj_register;
      (eapply shape_ext; [|apply Hs]); intros r0; reflexivity.
  - destruct (s_alive s) eqn:Ea; cbn [negb]; [|intros H; pinv H; same_tac].
    destruct (s_closed s) eqn:Ec; [intros H; pinv H; rewrite proj_add_drops, proj_kill; same_tac|].
    destruct (try_send_core v s) as [s1 res] eqn:Et.
    pose proof (send1_shape v s s1 res OOk Ea Ec ltac:(quiet_tac) Et) as Hs.
    destruct res; intros H; pinv H;
      rewrite ?proj_add_drops, ?proj_kill, ?proj_pend, ?proj_reg_producer;
      (eapply shape_ext; [|apply Hs]); intros r0; reflexivity.
  - destruct (s_alive s) eqn:Ea; cbn [negb]; [|intros H; pinv H; same_tac].
    destruct (N.eqb sent total); [intros H; pinv H; rewrite proj_add_drops, proj_kill; same_tac|].
    destruct (s_closed s) eqn:Ec; [intros H; pinv H; rewrite proj_add_drops, proj_kill; same_tac|].
    destruct (send_some rest s) as [[[s1 k] rest']|] eqn:Es;
      [|intros H; pinv H; rewrite proj_add_drops, proj_kill; same_tac].
    pose proof (send_some_shape rest s s1 k rest' OOk Ea Ec ltac:(quiet_tac) Es) as Hs.
    destruct (N.eqb (sent + k) total); intros H; pinv H;
      rewrite ?proj_add_drops, ?proj_kill, ?proj_pend, ?proj_reg_producer;
      (eapply shape_ext; [|apply Hs]); intros r0; reflexivity.
  - destruct (s_alive s) eqn:Ea; cbn [negb]; [|intros H; pinv H; same_tac].
    destruct rest as [|v0 rest0]; [intros H; pinv H; rewrite proj_kill; same_tac|].
    destruct (s_closed s) eqn:Ec; [intros H; pinv H; rewrite proj_add_drops, proj_kill; same_tac|].
    destruct (send_some (v0 :: rest0) s) as [[[s1 k] rest']|] eqn:Es;
      [|intros H; pinv H; rewrite proj_add_drops, proj_kill; same_tac].
    pose proof (send_some_shape (v0 :: rest0) s s1 k rest' OOk Ea Ec ltac:(quiet_tac) Es) as Hs.
    destruct rest'; intros H; pinv H;
      rewrite ?proj_add_drops, ?proj_kill, ?proj_pend, ?proj_reg_producer;
      (eapply shape_ext; [|apply Hs]); intros r0; reflexivity.
Qed.

Lemma proj_release s : proj (release s) = proj s.
Proof. unfold release. destruct (all_dead s); reflexivity. Qed.

Lemma proj_set_rx s r x : proj (set_rx s r x) = with_rxs (proj s) (set (rxs s) r x).
Proof. reflexivity. Qed.

Lemma step_shape s op s' o : step s op = (s', o) -> shape (kind_of op) (proj s) o (proj s').
Proof.
  destruct op; cbn [step].
  - (* TrySend *)
    destruct (s_alive s) eqn:Ea; cbn [negb]; [|intros H; pinv H; same_tac].
    destruct (s_closed s) eqn:Ec; [intros H; pinv H; same_tac|].
    destruct (try_send_core v s) as [s1 res] eqn:Et.
    pose proof (send1_shape v s s1 res OOk Ea Ec ltac:(quiet_tac) Et) as Hs.
    destruct res; intros H; pinv H; rewrite ?proj_add_drops; (eapply shape_ext; [|apply Hs]); quiet_tac.
  - (* Send *)
    destruct (s_alive s) eqn:Ea; cbn [negb orb]; [|intros H; pinv H; same_tac].
    destruct (s_async s); [intros H; pinv H; same_tac|].
    destruct (s_closed s) eqn:Ec; [intros H; pinv H; same_tac|].
    destruct (try_send_core v s) as [s1 res] eqn:Et.
    pose proof (send1_shape v s s1 res OOk Ea Ec ltac:(quiet_tac) Et) as Hs.
    destruct res; intros H; pinv H; rewrite ?proj_add_drops; try same_tac; (eapply shape_ext; [|apply Hs]); quiet_tac.
  - (* TrySendB *)
    destruct (s_alive s) eqn:Ea; cbn [negb]; [|intros H; pinv H; same_tac].
    destruct vs as [|v0 vs0]; [intros H; pinv H; same_tac|].
    destruct (s_closed s) eqn:Ec; [intros H; pinv H; same_tac|].
    destruct (send_some (v0 :: vs0) s) as [[[s1 k] rest']|] eqn:Es; [|intros H; pinv H; same_tac].
    pose proof (send_some_shape _ s s1 k rest' OOk Ea Ec ltac:(quiet_tac) Es) as Hs.
    destruct rest'; intros H; pinv H; rewrite ?proj_add_drops; (eapply shape_ext; [|apply Hs]); quiet_tac.
  - (* TrySendM *)
    destruct (s_alive s) eqn:Ea; cbn [negb]; [|intros H; pinv H; same_tac].
    destruct vs as [|v0 vs0]; [intros H; pinv H; same_tac|].
    destruct (s_closed s) eqn:Ec; [intros H; pinv H; same_tac|].
    destruct (send_some (v0 :: vs0) s) as [[[s1 k] rest']|] eqn:Es; [|intros H; pinv H; same_tac].
    pose proof (send_some_shape _ s s1 k rest' OOk Ea Ec ltac:(quiet_tac) Es) as Hs.
    intros H; pinv H; rewrite ?proj_add_drops; (eapply shape_ext; [|apply Hs]); quiet_tac.
  - (* SendB *)
    destruct (s_alive s) eqn:Ea; cbn [negb orb]; [|intros H; pinv H; same_tac].
    destruct (s_async s); [intros H; pinv H; same_tac|].
    destruct vs as [|v0 vs0]; [intros H; pinv H; same_tac|].
    destruct (s_closed s) eqn:Ec; [intros H; pinv H; same_tac|].
    destruct (send_some (v0 :: vs0) s) as [[[s1 k] rest']|] eqn:Es; [|intros H; pinv H; same_tac].
    pose proof (send_some_shape _ s s1 k rest' OOk Ea Ec ltac:(quiet_tac) Es) as Hs.
    destruct rest'; intros H; pinv H; try same_tac; (eapply shape_ext; [|apply Hs]); quiet_tac.
  - (* SendM *)
    destruct (s_alive s) eqn:Ea; cbn [negb orb]; [|intros H; pinv H; same_tac].
    destruct (s_async s); [intros H; pinv H; same_tac|].
    destruct vs as [|v0 vs0]; [intros H; pinv H; same_tac|].
    destruct (s_closed s) eqn:Ec; [intros H; pinv H; same_tac|].
    destruct (send_some (v0 :: vs0) s) as [[[s1 k] rest']|] eqn:Es; [|intros H; pinv H; same_tac].
    pose proof (send_some_shape _ s s1 k rest' OOk Ea Ec ltac:(quiet_tac) Es) as Hs.
    destruct rest'; intros H; pinv H; try same_tac; (eapply shape_ext; [|apply Hs]); quiet_tac.
  - (* SClose *)
    destruct (s_alive s) eqn:Ea; cbn [negb]; [|intros H; pinv H; same_tac].
    destruct (tx_busy s); [intros H; pinv H; same_tac|].
    destruct (s_closed s) eqn:Ec; intros H; pinv H; [same_tac|].
    unfold sender_close_internal. rewrite proj_wake_all.
    change (shape (kind_of SClose) (proj s) OOk (with_sender (proj s) true true (s_taint s) true)).
    apply Sh_sender; [quiet_tac|]. split; [exact Ea|]. left. cbn [proj c_closed c_taint]. intuition auto.
  - (* SDrop *)
    destruct (s_alive s) eqn:Ea; cbn [negb]; [|intros H; pinv H; same_tac].
    destruct (tx_busy s); [intros H; pinv H; same_tac|].
    intros H; pinv H. rewrite proj_release.
    destruct (s_closed s) eqn:Ec.
    + change (shape (kind_of SDrop) (proj s) OOk (with_sender (proj s) false true (s_taint s) (pdrop s))).
      apply Sh_sender; [quiet_tac|]. split; [exact Ea|]. right. left. cbn [proj c_closed c_taint c_pdrop]. intuition auto.
    + set (s1 := sender_close_internal s).
      assert (Hp1 : proj s1 = with_sender (proj s) (s_alive s) (s_closed s) (s_taint s) true)
        by (unfold s1, sender_close_internal; rewrite proj_wake_all; reflexivity).
      assert (Hc : proj (set_sender s1 false true (s_async s1) (s_taint s1) (pdrop s1))
                   = with_sender (proj s) false true (s_taint s) true).
      { change (proj (set_sender s1 false true (s_async s1) (s_taint s1) (pdrop s1)))
          with (with_sender (proj s1) false true (c_taint (proj s1)) (c_pdrop (proj s1))).
        rewrite Hp1. reflexivity. }
      rewrite Hc. apply Sh_sender; [quiet_tac|]. split; [exact Ea|]. right. left. cbn [proj c_taint]. intuition auto.
  - (* SConv *)
    destruct (s_alive s) eqn:Ea; cbn [negb]; [|intros H; pinv H; same_tac].
    destruct (tx_busy s); [intros H; pinv H; same_tac|].
    destruct (fixedm s) eqn:Ef; intros H; pinv H.
    + assert (Hc : proj (set_sender s true (s_closed s) (negb (s_async s)) (s_taint s) (pdrop s)) = proj s)
        by (unfold proj; cbn [set_sender fixedm cap log s_alive s_closed s_taint pdrop rxs]; rewrite Ea; reflexivity).
      rewrite Hc. same_tac.
    + change (shape (kind_of SConv) (proj s) OOk (with_sender (proj s) true false (s_taint s || s_closed s) (pdrop s))).
      apply Sh_sender; [quiet_tac|]. split; [exact Ea|]. right. right. cbn [proj c_fixed c_closed c_taint c_pdrop]. intuition auto.
  - (* SObs *)
    destruct (s_alive s); cbn [negb]; intros H; pinv H; same_tac.
  - (* TryRecv *)
    intros H. apply with_rx_inv in H. destruct H as [[-> ->]|(x & Hg & Hl & H)]; [same_tac|].
    destruct (r_closed x) eqn:Ec; [pinv H; same_tac|].
    destruct (try_recv_core r x s) as [s1 res] eqn:Et. pinv H.
    apply recv_shape with (x := x); auto. quiet_tac.
  - (* Recv *)
    intros H. apply with_rx_inv in H. destruct H as [[-> ->]|(x & Hg & Hl & H)]; [same_tac|].
    destruct (r_async x); [pinv H; same_tac|].
    destruct (r_closed x) eqn:Ec; [pinv H; same_tac|].
    destruct (try_recv_core r x s) as [s1 res] eqn:Et. pinv H.
    apply recv_shape with (x := x); auto. quiet_tac.
  - (* RecvT *)
    intros H. apply with_rx_inv in H. destruct H as [[-> ->]|(x & Hg & Hl & H)]; [same_tac|].
    destruct (r_async x); [pinv H; same_tac|].
    destruct (r_closed x) eqn:Ec; [pinv H; same_tac|].
    destruct (try_recv_core r x s) as [s1 res] eqn:Et. pinv H.
    apply recv_shape with (x := x); auto. quiet_tac.
  - (* TryRecvB *)
    intros H. apply with_rx_inv in H. destruct H as [[-> ->]|(x & Hg & Hl & H)]; [same_tac|].
    destruct (N.eqb n 0); [pinv H; same_tac|].
    destruct (r_closed x) eqn:Ec; [pinv H; same_tac|].
    destruct (try_recv_batch_core r x n s) as [s1 res] eqn:Et. pinv H.
    apply recv_batch_shape with (x := x) (n := n); auto. quiet_tac.
  - (* RecvB *)
    intros H. apply with_rx_inv in H. destruct H as [[-> ->]|(x & Hg & Hl & H)]; [same_tac|].
    destruct (r_async x); [pinv H; same_tac|].
    destruct (N.eqb n 0); [pinv H; same_tac|].
    destruct (r_closed x) eqn:Ec; [pinv H; same_tac|].
    destruct (try_recv_batch_core r x n s) as [s1 res] eqn:Et. pinv H.
    apply recv_batch_shape with (x := x) (n := n); auto. quiet_tac.
  - (* RClose *)
    intros H. apply with_rx_inv in H. destruct H as [[-> ->]|(x & Hg & Hl & H)]; [same_tac|].
    destruct (r_closed x) eqn:Ec; pinv H; [same_tac|].
    rewrite proj_wake_producer, proj_set_rx.
    change (rxs s) with (c_rxs (proj s)). eapply Sh_rx_upd; eauto; [quiet_tac|].
    split; [reflexivity|]. split; [reflexivity|]. left. intuition auto.
  - (* RDrop *)
    intros H. apply with_rx_inv in H. destruct H as [[-> ->]|(x & Hg & Hl & H)]; [same_tac|].
    destruct (rx_busy s r); [pinv H; same_tac|].
    destruct (r_closed x) eqn:Ec.
    + rewrite Hg in H. pinv H. rewrite proj_release, proj_set_rx.
      change (rxs s) with (c_rxs (proj s)). eapply Sh_rx_upd; eauto; [quiet_tac|].
      split; [reflexivity|]. split; [reflexivity|]. right. left. cbn [r_reg r_closed r_taint r_live]. intuition auto.
    + set (s1 := wake_producer (set_rx s r (rx_unreg x))) in *.
      assert (Hp1 : proj s1 = with_rxs (proj s) (set (rxs s) r (rx_unreg x)))
        by (unfold s1; rewrite proj_wake_producer; reflexivity).
      assert (Hr1 : rxs s1 = set (rxs s) r (rx_unreg x))
        by (change (c_rxs (proj s1) = set (rxs s) r (rx_unreg x)); rewrite Hp1; reflexivity).
      rewrite Hr1, get_set_eq in H. pinv H. rewrite proj_release, proj_set_rx, Hp1, Hr1, set_set.
      change (rxs s) with (c_rxs (proj s)).
      change (with_rxs (with_rxs (proj s) (set (c_rxs (proj s)) r (rx_unreg x))))
        with (with_rxs (proj s)).
      eapply Sh_rx_upd; eauto; [quiet_tac|].
      split; [reflexivity|]. split; [reflexivity|]. left. intuition auto.
  - (* RClone *)
    intros H. apply with_rx_inv in H. destruct H as [[-> ->]|(x & Hg & Hl & H)]; [same_tac|].
    destruct (get (rxs s) c) eqn:Egc; [pinv H; same_tac|].
    destruct (fixedm s && r_closed x) eqn:Eb; pinv H; rewrite proj_set_rx;
      change (rxs s) with (c_rxs (proj s)); (eapply Sh_clone; eauto; [quiet_tac|]).
    + apply andb_true_iff in Eb. destruct Eb as [Ef Ec].
      split; [reflexivity|]. split; [reflexivity|]. split; [reflexivity|]. split; [reflexivity|]. right. cbn [proj c_fixed]. intuition auto.
    + split; [reflexivity|]. split; [reflexivity|]. split; [reflexivity|]. split; [reflexivity|]. left.
      cbn [r_reg r_closed r_taint proj c_fixed]. apply andb_false_iff in Eb. tauto.
  - (* RConv *)
    intros H. apply with_rx_inv in H. destruct H as [[-> ->]|(x & Hg & Hl & H)]; [same_tac|].
    destruct (rx_busy s r); [pinv H; same_tac|].
    destruct (fixedm s) eqn:Ef; pinv H; rewrite proj_set_rx;
      change (rxs s) with (c_rxs (proj s)); (eapply Sh_rx_upd; eauto; [quiet_tac|]).
    + split; [reflexivity|]. split; [reflexivity|]. right. left. cbn [r_reg r_closed r_taint r_live]. intuition auto.
    + split; [reflexivity|]. split; [reflexivity|]. right. right. cbn [r_reg r_closed r_taint r_live proj c_fixed]. intuition auto.
  - (* RObs *)
    intros H. apply with_rx_inv in H. destruct H as [[-> ->]|(x & Hg & Hl & H)]; [same_tac|]. pinv H. same_tac.
  - (* MkRecv *)
    intros H. apply with_rx_inv in H. destruct H as [[-> ->]|(x & Hg & Hl & H)]; [same_tac|].
    destruct (r_async x); [eapply new_fut_shape; exact H | pinv H; same_tac].
  - (* MkRecvB *)
    intros H. apply with_rx_inv in H. destruct H as [[-> ->]|(x & Hg & Hl & H)]; [same_tac|].
    destruct (r_async x); [eapply new_fut_shape; exact H | pinv H; same_tac].
  - destruct (s_alive s && s_async s); [apply new_fut_shape | intros H; pinv H; same_tac].
  - destruct (s_alive s && s_async s); [apply new_fut_shape | intros H; pinv H; same_tac].
  - destruct (s_alive s && s_async s); [apply new_fut_shape | intros H; pinv H; same_tac].
  - (* Poll *)
    destruct (get (futs s) f) as [x|]; [|intros H; pinv H; same_tac].
    destruct (f_live x); [apply poll_shape | intros H; pinv H; same_tac].
  - (* DropF *)
    destruct (get (futs s) f) as [x|]; [|intros H; pinv H; same_tac].
    destruct (f_live x); intros H; pinv H; same_tac.
  - (* PollNext *)
    intros H. apply with_rx_inv in H. destruct H as [[-> ->]|(x & Hg & Hl & H)]; [same_tac|].
    destruct (r_async x); cbn [negb] in H; [|pinv H; same_tac].
    destruct (rx_busy s r); [pinv H; same_tac|].
    destruct (r_closed x) eqn:Ec; [pinv H; same_tac|].
    destruct (try_recv_core r x s) as [s1 res] eqn:Et.
    pose proof (recv_shape r x s s1 res OPending Hg Ec Et ltac:(quiet_tac)) as Hs.
    destruct res; pinv H; rewrite ?proj_register; (eapply shape_ext; [|apply Hs]); intros r0; reflexivity.
  - (* Snap *)
    intros H; pinv H; same_tac.
Qed.

(* ------------------------------------------------------------------ the invariant *)
Definition RxInv (c : core) (outs : list out) (r : N) (x : rx) : Prop :=
  r_start x <= r_cur x /\ r_cur x <= c_head c /\
  (r_taint x = false -> r_reg x = true -> c_head c <= r_cur x + c_cap c) /\
  (r_reg x = true -> r_live x = true /\ r_closed x = false) /\
  (r_taint x = false -> r_reg x = false -> r_closed x = true) /\
  (r_taint x = false -> recvd r outs = slice (c_log c) (r_start x) (r_cur x)) /\
  (c_fixed c = true -> r_taint x = false).

Record InvC (c : core) (outs : list out) : Prop := {
  i_cap : 0 < c_cap c;
  i_nd : NoDup (map fst (c_rxs c));
  i_none : forall r, c_get c r = None -> recvd r outs = [];
  i_rx : forall r x, c_get c r = Some x -> RxInv c outs r x;
  i_s1 : c_closed c = true \/ c_alive c = false -> c_pdrop c = true;
  i_s2 : c_pdrop c = true -> c_closed c = true \/ c_alive c = false \/ c_taint c = true;
  i_s3 : c_fixed c = true -> c_taint c = false }.

Lemma minl_le l m x : minl l = Some m -> In x l -> m <= x.
Proof.
  revert m. induction l as [|y t IH]; cbn [minl]; intros m Hm Hin; [contradiction|].
  destruct (minl t) as [m'|] eqn:Em.
  - inversion Hm; subst. destruct Hin as [->|Hin]; [lia|]. specialize (IH m' eq_refl Hin). lia.
  - inversion Hm; subst. destruct Hin as [->|Hin]; [lia|]. destruct t; [contradiction|].
    cbn [minl] in Em. destruct (minl t); discriminate.
Qed.

Lemma minl_in l m : minl l = Some m -> In m l.
Proof.
  revert m. induction l as [|y t IH]; cbn [minl]; intros m Hm; [discriminate|].
  destruct (minl t) as [m'|] eqn:Em; inversion Hm; subst.
  - destruct (N.min_spec y m') as [[_ ->]|[_ ->]]; [left; reflexivity | right; apply IH; reflexivity].
  - left. reflexivity.
Qed.

Lemma minl_none l : minl l = None -> l = [].
Proof. destruct l as [|y t]; [reflexivity|]. cbn [minl]. destruct (minl t); discriminate. Qed.

Lemma cursor_in c r x : c_get c r = Some x -> r_reg x = true -> In (r_cur x) (c_cursors c).
Proof.
  intros Hg Hr. apply get_In in Hg. unfold c_cursors.
  apply in_map_iff. exists (r, x). split; [reflexivity|]. apply filter_In. split; [exact Hg|exact Hr].
Qed.

Lemma in_cursors c m : NoDup (map fst (c_rxs c)) -> In m (c_cursors c) ->
  exists r x, c_get c r = Some x /\ r_reg x = true /\ r_cur x = m.
Proof.
  intros Hnd Hin. unfold c_cursors in Hin. apply in_map_iff in Hin. destruct Hin as ([r x] & Hm & Hf).
  apply filter_In in Hf. destruct Hf as [Hi Hr]. exists r, x. split; [|split; [exact Hr|exact Hm]].
  apply In_get; assumption.
Qed.

Lemma recvd_quiet r outs o : quiet o -> recvd r (outs ++ [o]) = recvd r outs.
Proof. intros H. rewrite recvd_snoc, H, app_nil_r. reflexivity. Qed.

Lemma slot_vals_window c t k :
  0 < c_cap c -> t + k <= c_head c -> c_head c <= t + c_cap c ->
  map (c_slot_val c) (seqN t (N.to_nat k)) = slice (c_log c) t (t + k).
Proof.
  intros Hc Hk Hw.
  replace (t + k) with (t + N.of_nat (N.to_nat k)) by lia.
  rewrite <- map_nth_seqN by (unfold c_head in Hk; lia).
  apply map_ext_in. intros i Hi. apply seqN_bounds in Hi.
  unfold c_slot_val. rewrite slot_index_window; [reflexivity|lia|lia].
Qed.

Ltac fin :=
  intros; rewrite ?recvd_quiet by assumption;
  repeat match goal with
         | H : (_ || _)%bool = false |- _ => apply orb_false_iff in H; destruct H
         | H : negb _ = false |- _ => apply negb_false_iff in H
         end;
  try match goal with D : r_reg ?x = true -> _ /\ _, Hr : r_reg ?x = true |- _ => destruct (D Hr) end;
  try match goal with E : r_taint ?x = false -> r_reg ?x = false -> _, H1 : r_taint ?x = false, H2 : r_reg ?x = false |- _ =>
        specialize (E H1 H2) end;
  auto; try congruence; try lia.

Ltac rxinv_split := unfold RxInv; split; [|split; [|split; [|split; [|split; [|split]]]]].

Lemma inv_step kd c outs o c' : InvC c outs -> shape kd c o c' -> InvC c' (outs ++ [o]).
Proof.
  intros I Hs. destruct I as [Icap Ind Inone Irx Is1 Is2 Is3]. destruct Hs.
  - (* same *)
    constructor; auto.
    + intros r Hg. rewrite recvd_quiet by assumption. auto.
    + intros r x Hg. destruct (Irx r x Hg) as (A & B & C & D & E & F & G).
      rxinv_split; auto. intros Ht. rewrite recvd_quiet by assumption. auto.
  - (* send *)
    constructor; auto.
    + intros r Hg. rewrite recvd_quiet by assumption. auto.
    + intros r x Hg. destruct (Irx r x Hg) as (A & B & C & D & E & F & G).
      change (c_get (with_log c (c_log c ++ vs)) r) with (c_get c r) in Hg.
      rxinv_split; unfold c_head in *; cbn [with_log c_log c_cap c_fixed]; rewrite ?lenN_app; auto; try lia.
      * intros Ht Hr. specialize (C Ht Hr).
        unfold c_space in H0. destruct (minl (c_cursors c)) as [m|] eqn:Em; [|discriminate].
        inversion H0; subst sp. pose proof (minl_le _ _ _ Em (cursor_in c r x Hg Hr)).
        unfold c_head in *. lia.
      * intros Ht. rewrite recvd_quiet by assumption. rewrite slice_app_l by lia. auto.
  - (* recv *)
    constructor; auto.
    + cbn [with_rxs c_rxs]. apply set_NoDup. exact Ind.
    + intros r0 Hg. unfold c_get in Hg. cbn [with_rxs c_rxs] in Hg.
      destruct (N.eq_dec r0 r) as [->|Hne]; [rewrite get_set_eq in Hg; discriminate|].
      rewrite get_set_neq in Hg by exact Hne. rewrite recvd_snoc, H3 by exact Hne. rewrite app_nil_r. auto.
    + intros r0 x0 Hg. unfold c_get in Hg. cbn [with_rxs c_rxs] in Hg.
      destruct (N.eq_dec r0 r) as [->|Hne].
      * rewrite get_set_eq in Hg. inversion Hg; subst x0. clear Hg.
        destruct (Irx r x H) as (A & B & C & D & E & F & G).
        change (c_head (with_rxs c (set (c_rxs c) r (adv x k)))) with (c_head c) in *.
        rxinv_split; cbn [adv r_cur r_start r_reg r_closed r_live r_taint with_rxs c_cap c_log c_fixed];
          change (c_head (with_rxs c (set (c_rxs c) r (adv x k)))) with (c_head c); auto; try lia.
        { intros Ht. rewrite recvd_snoc, H2, (F Ht).
          assert (Hr : r_reg x = true).
          { destruct (r_reg x) eqn:Er; [reflexivity|]. specialize (E Ht eq_refl). congruence. }
          specialize (C Ht Hr).
          rewrite slot_vals_window by lia.
          rewrite <- slice_split by lia. reflexivity. }
      * rewrite get_set_neq in Hg by exact Hne.
        destruct (Irx r0 x0 Hg) as (A & B & C & D & E & F & G).
        rxinv_split; change (c_head (with_rxs c (set (c_rxs c) r (adv x k)))) with (c_head c);
          cbn [with_rxs c_cap c_log c_fixed]; auto.
        intros Ht. rewrite recvd_snoc, H3 by exact Hne. rewrite app_nil_r. auto.
  - (* receiver flag update *)
    destruct H2 as (Hcur & Hst & Hcases).
    constructor; auto.
    + cbn [with_rxs c_rxs]. apply set_NoDup. exact Ind.
    + intros r0 Hg. unfold c_get in Hg. cbn [with_rxs c_rxs] in Hg.
      destruct (N.eq_dec r0 r) as [->|Hne]; [rewrite get_set_eq in Hg; discriminate|].
      rewrite get_set_neq in Hg by exact Hne. rewrite recvd_quiet by assumption. auto.
    + intros r0 x0 Hg. unfold c_get in Hg. cbn [with_rxs c_rxs] in Hg.
      destruct (N.eq_dec r0 r) as [->|Hne].
      * rewrite get_set_eq in Hg. inversion Hg; subst x0. clear Hg.
        destruct (Irx r x H0) as (A & B & C & D & E & F & G).
        destruct Hcases as [(R1 & R2 & R3)|[(R1 & R2 & R3 & R4)|(R0 & R1 & R2 & R3 & R4 & _)]];
          rxinv_split; change (c_head (with_rxs c (set (c_rxs c) r x'))) with (c_head c);
          cbn [with_rxs c_cap c_log c_fixed]; rewrite ?Hcur, ?Hst, ?R1, ?R2, ?R3, ?R4; fin.
        { split; [|assumption]. destruct R4; congruence. }
      * rewrite get_set_neq in Hg by exact Hne.
        destruct (Irx r0 x0 Hg) as (A & B & C & D & E & F & G).
        rxinv_split; change (c_head (with_rxs c (set (c_rxs c) r x'))) with (c_head c);
          cbn [with_rxs c_cap c_log c_fixed]; auto.
        intros Ht. rewrite recvd_quiet by assumption. auto.
  - (* clone *)
    destruct H3 as (_ & Hcur & Hst & Hlive & Hcases).
    constructor; auto.
    + cbn [with_rxs c_rxs]. apply set_NoDup. exact Ind.
    + intros r0 Hg. unfold c_get in Hg. cbn [with_rxs c_rxs] in Hg.
      destruct (N.eq_dec r0 cid) as [->|Hne]; [rewrite get_set_eq in Hg; discriminate|].
      rewrite get_set_neq in Hg by exact Hne. rewrite recvd_quiet by assumption. auto.
    + intros r0 x0 Hg. unfold c_get in Hg. cbn [with_rxs c_rxs] in Hg.
      destruct (N.eq_dec r0 cid) as [->|Hne].
      * rewrite get_set_eq in Hg. inversion Hg; subst x0. clear Hg.
        destruct (Irx r x H0) as (A & B & C & D & E & F & G).
        destruct Hcases as [(R1 & R2 & R3 & R4)|(R0 & R1 & R2 & R3 & R4)];
          rxinv_split; change (c_head (with_rxs c (set (c_rxs c) cid xc))) with (c_head c);
          cbn [with_rxs c_cap c_log c_fixed]; rewrite ?Hcur, ?Hst, ?R1, ?R2, ?R3, ?R4, ?Hlive; auto; try lia; try congruence.
        { intros Ht _. apply orb_false_iff in Ht. destruct Ht as [Ht Hr]. apply negb_false_iff in Hr. auto. }
        { intros Ht. rewrite recvd_quiet by assumption. rewrite (Inone cid H2), slice_nil. reflexivity. }
        { intros Hf. destruct R4 as [R4|R4]; [congruence|]. rewrite (G Hf). cbn [orb].
          apply negb_false_iff. destruct (r_reg x) eqn:Er; [reflexivity|]. specialize (E (G Hf) eq_refl). congruence. }
        { intros Ht. rewrite recvd_quiet by assumption. rewrite (Inone cid H2), slice_nil. reflexivity. }
      * rewrite get_set_neq in Hg by exact Hne.
        destruct (Irx r0 x0 Hg) as (A & B & C & D & E & F & G).
        rxinv_split; change (c_head (with_rxs c (set (c_rxs c) cid xc))) with (c_head c);
          cbn [with_rxs c_cap c_log c_fixed]; auto.
        intros Ht. rewrite recvd_quiet by assumption. auto.
  - (* sender lifecycle *)
    destruct H0 as (Ha & Hcases).
    constructor; cbn [with_sender c_cap c_rxs c_closed c_alive c_pdrop c_taint c_fixed]; auto.
    + intros r Hg. rewrite recvd_quiet by assumption. auto.
    + intros r x Hg. destruct (Irx r x Hg) as (A & B & C & D & E & F & G).
      rxinv_split; auto. intros Ht. rewrite recvd_quiet by assumption. auto.
    + destruct Hcases as [(R1 & -> & -> & -> & ->)|[(-> & -> & -> & [->|[R1 ->]])|(R0 & -> & -> & -> & -> & _)]]; auto.
      intros [?|?]; congruence.
    + destruct Hcases as [(R1 & -> & -> & -> & ->)|[(-> & -> & -> & [->|[R1 ->]])|(R0 & -> & -> & -> & -> & _)]]; auto.
      intros Hp. destruct (Is2 Hp) as [Hc|[Hc|Hc]]; [|congruence|]; right; right; rewrite Hc; auto using orb_true_r.
    + destruct Hcases as [(R1 & -> & -> & -> & ->)|[(-> & -> & -> & [->|[R1 ->]])|(R0 & -> & -> & -> & -> & _)]]; auto.
      congruence.
Qed.

(* ------------------------------------------------------------------ all histories *)
Lemma inv_init fx c a : 0 < c -> InvC (proj (init fx c a)) [].
Proof.
  intros Hc. constructor; cbn [proj init fixedm cap log s_alive s_closed s_taint pdrop rxs
                                c_cap c_rxs c_closed c_alive c_pdrop c_taint c_fixed]; auto.
  - cbn [map fst]. constructor; [intros []|constructor].
  - intros r x Hg. unfold c_get, proj, init in Hg. cbn [c_rxs rxs get] in Hg.
    destruct (N.eqb r 0); [|discriminate]. inversion Hg; subst x.
    rxinv_split; unfold c_head, proj, init;
      cbn [r_start r_cur r_reg r_closed r_live r_taint c_cap c_log c_fixed fixedm cap log length]; auto;
      try (unfold lenN; cbn [length]; lia).
  - intros [?|?]; discriminate.
Qed.

Lemma inv_runacc ops : forall s acc,
  InvC (proj s) (rev acc) ->
  InvC (proj (fst (runacc (s, acc) ops))) (rev (snd (runacc (s, acc) ops))).
Proof.
  induction ops as [|o t IH]; intros s acc I; [exact I|].
  cbn [runacc fold_left]. change (fold_left stepacc t) with (fun p => runacc p t). cbn beta.
  assert (Hst : stepacc (s, acc) o = (fst (step s o), snd (step s o) :: acc))
    by (unfold stepacc; cbn [fst snd]; destruct (step s o); reflexivity).
  rewrite Hst. destruct (step s o) as [s1 x] eqn:Es. cbn [fst snd].
  apply IH. cbn [rev]. eapply inv_step; [exact I|]. apply step_shape with (op := o). exact Es.
Qed.

Theorem inv_run fx c a ops s outs :
  0 < c -> run fx c a ops = (s, outs) -> InvC (proj s) outs.
Proof.
  intros Hc H. unfold run in H.
  pose proof (inv_runacc ops (init fx c a) [] (inv_init fx c a Hc)) as I.
  destruct (runacc (init fx c a, []) ops) as [s1 acc]. inversion H; subst. exact I.
Qed.

(* prefix runs are runs: every intermediate state of a history is itself the end of a history *)
Lemma runacc_app ops1 ops2 p : runacc p (ops1 ++ ops2) = runacc (runacc p ops1) ops2.
Proof. unfold runacc. apply fold_left_app. Qed.

(* ---- C07: delivery *)
Theorem spmc_delivery fx c a ops s outs r x :
  0 < c -> run fx c a ops = (s, outs) -> get (rxs s) r = Some x -> r_taint x = false ->
  recvd r outs = slice (log s) (r_start x) (r_cur x) /\ r_start x <= r_cur x /\ r_cur x <= head s.
Proof.
  intros Hc Hr Hg Ht. pose proof (inv_run _ _ _ _ _ _ Hc Hr) as I.
  destruct (i_rx _ _ I r x Hg) as (A & B & C & D & E & F & G).
  split; [apply F; exact Ht|]. split; assumption.
Qed.

Theorem spmc_fixed_untainted c a ops s outs :
  0 < c -> run true c a ops = (s, outs) ->
  s_taint s = false /\ forall r x, get (rxs s) r = Some x -> r_taint x = false.
Proof.
  intros Hc Hr. pose proof (inv_run _ _ _ _ _ _ Hc Hr) as I.
  assert (Hf : fixedm s = true).
  { clear I. unfold run in Hr. destruct (runacc (init true c a, []) ops) as [s1 acc] eqn:E.
    inversion Hr; subst s1. clear Hr.
    assert (forall ops p, fixedm (fst (runacc p ops)) = fixedm (fst p)) as Hk.
    { clear. induction ops as [|o t IH]; intros p; [reflexivity|].
      cbn [runacc fold_left]. change (fixedm (fst (runacc (stepacc p o) t)) = fixedm (fst p)).
      rewrite IH. unfold stepacc. destruct (step (fst p) o) as [s1 x] eqn:Es. cbn [fst].
      apply step_shape in Es. change (c_fixed (proj s1) = c_fixed (proj (fst p))).
      destruct Es; reflexivity. }
    specialize (Hk ops (init true c a, [])). rewrite E in Hk. exact Hk. }
  split.
  - apply (i_s3 _ _ I). exact Hf.
  - intros r x Hg. destruct (i_rx _ _ I r x Hg) as (_ & _ & _ & _ & _ & _ & G). apply G. exact Hf.
Qed.

Theorem spmc_clone_position s p cid s' :
  step s (RClone p cid) = (s', OOk) ->
  exists xp xc, get (rxs s) p = Some xp /\ get (rxs s') cid = Some xc /\
                r_start xc = r_cur xp /\ r_cur xc = r_cur xp /\ get (rxs s) cid = None.
Proof.
  cbn [step]. intros H. apply with_rx_inv in H. destruct H as [[_ H]|(x & Hg & Hl & H)]; [discriminate|].
  destruct (get (rxs s) cid) eqn:Egc; [discriminate|].
  destruct (fixedm s && r_closed x); pinv H; eexists; eexists; (split; [exact Hg|]);
    cbn [set_rx set_rxs rxs]; rewrite get_set_eq; (split; [reflexivity|]); cbn [r_start r_cur]; auto.
Qed.

(* ---- C07: an unread value is never overwritten *)
Theorem spmc_no_overwrite fx c a ops s outs r x :
  0 < c -> run fx c a ops = (s, outs) -> get (rxs s) r = Some x ->
  r_taint x = false -> r_closed x = false ->
  r_reg x = true /\ r_live x = true /\ head s <= r_cur x + cap s /\
  forall i, r_cur x <= i -> i < head s -> slot_index s i = i.
Proof.
  intros Hc Hr Hg Ht Hcl. pose proof (inv_run _ _ _ _ _ _ Hc Hr) as I.
  destruct (i_rx _ _ I r x Hg) as (A & B & C & D & E & F & G).
  assert (Hreg : r_reg x = true).
  { destruct (r_reg x) eqn:Er; [reflexivity|]. specialize (E Ht eq_refl). congruence. }
  destruct (D Hreg) as [Hl _]. specialize (C Ht Hreg).
  change (c_head (proj s)) with (head s) in *. change (c_cap (proj s)) with (cap s) in *.
  split; [exact Hreg|]. split; [exact Hl|]. split; [exact C|].
  change (c_head (proj s)) with (head s) in *. change (c_cap (proj s)) with (cap s) in *.
  intros i H1 H2. apply (slot_index_window (proj s));
    change (c_head (proj s)) with (head s); change (c_cap (proj s)) with (cap s); lia.
Qed.

(* ---- C07: the sender is held back by the slowest registered receiver; exactness of try_send *)
Theorem spmc_try_send_exact s v :
  s_alive s = true -> s_closed s = false ->
  match minl (cursors s) with
  | None => step s (TrySend v) = (add_drops s [v], OClosedV v)
  | Some m =>
      if N.ltb (head s - m) (cap s)
      then snd (step s (TrySend v)) = OOk /\ log (fst (step s (TrySend v))) = log s ++ [v]
      else step s (TrySend v) = (add_drops s [v], OFull v)
  end.
Proof.
  intros Ha Hc. cbn [step]. rewrite Ha, Hc. cbn [negb]. unfold try_send_core.
  destruct (minl (cursors s)) as [m|]; [|reflexivity].
  destruct (N.ltb_spec (head s - m) (cap s)) as [Hlt|Hge].
  - destruct (N.leb_spec (cap s) (head s - m)); [lia|]. split; [reflexivity|].
    cbn [fst]. change (c_log (proj (write1 v s)) = log s ++ [v]). rewrite proj_write1. reflexivity.
  - destruct (N.leb_spec (cap s) (head s - m)); [reflexivity|lia].
Qed.

Theorem spmc_send_ok_means_space s op s' o vs :
  step s op = (s', o) -> log s' = log s ++ vs -> vs <> [] ->
  exists m, minl (cursors s) = Some m /\ head s + lenN vs - m <= cap s /\
            s_alive s = true /\ s_closed s = false.
Proof.
  intros Hs Hl Hne. apply step_shape in Hs.
  assert (Hlog : c_log (proj s') = c_log (proj s) ++ vs) by exact Hl.
  destruct Hs as [Hq|vs0 sp Hq Hsp Hle Ha Hc|r x k Hg Hcl Hk Hv Ho|r x x' Hq Hg Hl0 Hu|r x cid xc Hq Hg Hl0 Hn Hk|al cl t pd Hq Hk];
    cbn [with_log with_rxs with_sender c_log] in Hlog.
  1,3,4,5,6: (rewrite <- (app_nil_r (c_log (proj s))) in Hlog at 1; apply app_inv_head in Hlog; congruence).
  apply app_inv_head in Hlog. subst vs0.
  unfold c_space in Hsp. change (c_cursors (proj s)) with (cursors s) in Hsp.
  destruct (minl (cursors s)) as [m|] eqn:Em; [|discriminate]. inversion Hsp; subst sp.
  exists m. split; [reflexivity|]. change (c_head (proj s)) with (head s) in Hle. cbn [c_cap proj] in Hle.
  split; [|split; assumption].
  assert (lenN vs <> 0) by (unfold lenN; destruct vs; [congruence|cbn [length]; lia]). lia.
Qed.

(* ---- C07: closing / dropping a receiver releases the backpressure it caused and wakes the producer *)
Lemma wlog_release s : wlog (release s) = wlog s.
Proof. unfold release. destruct (all_dead s); reflexivity. Qed.

Lemma close_or_drop_spec s r x o :
  get (rxs s) r = Some x -> r_live x = true -> r_closed x = false -> rx_busy s r = false ->
  o = RClose r \/ o = RDrop r ->
  snd (step s o) = OOk /\
  (exists x', r_reg x' = false /\ proj (fst (step s o)) = with_rxs (proj s) (set (rxs s) r x')) /\
  (forall w, pw s = Some w -> wlog (fst (step s o)) = w :: wlog s).
Proof.
  intros Hg Hl Hc Hb [-> | ->]; cbn [step]; unfold with_rx; rewrite Hg, Hl, ?Hb, Hc.
  - cbn [fst snd]. split; [reflexivity|]. split.
    + exists (rx_unreg x). split; [reflexivity|]. rewrite proj_wake_producer. reflexivity.
    + intros w Hw. unfold wake_producer. cbn [set_rx set_rxs pw]. rewrite Hw. reflexivity.
  - set (s1 := wake_producer (set_rx s r (rx_unreg x))).
    assert (Hp1 : proj s1 = with_rxs (proj s) (set (rxs s) r (rx_unreg x)))
      by (unfold s1; rewrite proj_wake_producer; reflexivity).
    assert (Hr1 : rxs s1 = set (rxs s) r (rx_unreg x))
      by (change (c_rxs (proj s1) = set (rxs s) r (rx_unreg x)); rewrite Hp1; reflexivity).
    rewrite Hr1, get_set_eq. cbn [fst snd]. split; [reflexivity|]. split.
    + eexists. split; [|rewrite proj_release, proj_set_rx, Hp1, Hr1, set_set; reflexivity]. reflexivity.
    + intros w Hw. rewrite wlog_release. cbn [set_rx set_rxs wlog].
      unfold s1, wake_producer. cbn [set_rx set_rxs pw]. rewrite Hw. reflexivity.
Qed.

Theorem spmc_close_releases fx c a ops s outs r x v o :
  0 < c -> run fx c a ops = (s, outs) ->
  s_alive s = true -> s_closed s = false ->
  get (rxs s) r = Some x -> r_live x = true -> r_closed x = false -> rx_busy s r = false ->
  (forall r' x', r' <> r -> get (rxs s) r' = Some x' -> r_reg x' = true -> head s - r_cur x' < cap s) ->
  o = RClose r \/ o = RDrop r ->
  let s1 := fst (step s o) in
  snd (step s o) = OOk /\
  (snd (step s1 (TrySend v)) = OOk \/ (snd (step s1 (TrySend v)) = OClosedV v /\ cursors s1 = [])) /\
  (forall w, pw s = Some w -> wlog s1 = w :: wlog s).
Proof.
  intros Hc Hr Ha Hcl Hg Hl Hrc Hb Hothers Ho s1.
  pose proof (inv_run _ _ _ _ _ _ Hc Hr) as I.
  destruct (close_or_drop_spec s r x o Hg Hl Hrc Hb Ho) as (Hout & (x' & Hx' & Hp) & Hw).
  fold s1 in Hp, Hw. split; [exact Hout|]. split; [|exact Hw].
  assert (Ha1 : s_alive s1 = true) by (change (c_alive (proj s1) = true); rewrite Hp; exact Ha).
  assert (Hc1 : s_closed s1 = false) by (change (c_closed (proj s1) = false); rewrite Hp; exact Hcl).
  assert (Hh1 : head s1 = head s) by (change (c_head (proj s1) = head s); rewrite Hp; reflexivity).
  assert (Hcap1 : cap s1 = cap s) by (change (c_cap (proj s1) = cap s); rewrite Hp; reflexivity).
  pose proof (spmc_try_send_exact s1 v Ha1 Hc1) as Hex.
  destruct (minl (cursors s1)) as [m|] eqn:Em.
  - left. apply minl_in in Em. change (cursors s1) with (c_cursors (proj s1)) in Em.
    rewrite Hp in Em. apply in_cursors in Em; [|cbn [with_rxs c_rxs]; apply set_NoDup; exact (i_nd _ _ I)].
    destruct Em as (r0 & x0 & Hg0 & Hreg0 & Hcur0). unfold c_get in Hg0. cbn [with_rxs c_rxs] in Hg0.
    destruct (N.eq_dec r0 r) as [->|Hne].
    + rewrite get_set_eq in Hg0. inversion Hg0; subst x0. congruence.
    + rewrite get_set_neq in Hg0 by exact Hne. specialize (Hothers r0 x0 Hne Hg0 Hreg0).
      rewrite Hh1, Hcap1 in Hex. destruct (N.ltb_spec (head s - m) (cap s)); [tauto|lia].
  - right. rewrite Hex. cbn [snd]. split; [reflexivity|]. apply minl_none. exact Em.
Qed.

(* ---- C07 / C04: Disconnected only once the sender is gone and the receiver has drained its view *)
Theorem spmc_try_recv_disc fx c a ops s outs r s' :
  0 < c -> run fx c a ops = (s, outs) -> step s (TryRecv r) = (s', ODisc r) ->
  exists x, get (rxs s) r = Some x /\ r_live x = true /\
    (r_closed x = true \/
     (pdrop s = true /\ r_cur x = head s /\
      (s_alive s = false \/ s_closed s = true \/ s_taint s = true) /\
      (r_taint x = false -> recvd r outs = slice (log s) (r_start x) (head s)))).
Proof.
  intros Hc Hr Hs. pose proof (inv_run _ _ _ _ _ _ Hc Hr) as I.
  cbn [step] in Hs. apply with_rx_inv in Hs. destruct Hs as [[_ H]|(x & Hg & Hl & H)]; [discriminate|].
  exists x. split; [exact Hg|]. split; [exact Hl|].
  destruct (r_closed x) eqn:Ecl; [left; reflexivity|right].
  destruct (try_recv_core r x s) as [s1 res] eqn:Et. apply try_recv_core_spec in Et.
  destruct res; cbn [out_of_rres] in H; try discriminate.
  destruct Et as (_ & Hp & Hh).
  destruct (i_rx _ _ I r x Hg) as (A & B & C & D & E & F & G).
  change (c_head (proj s)) with (head s) in *.
  assert (Heq : r_cur x = head s) by lia.
  split; [exact Hp|]. split; [exact Heq|]. split.
  - destruct (i_s2 _ _ I Hp) as [?|[?|?]]; auto.
  - intros Ht. rewrite <- Heq. apply F. exact Ht.
Qed.

Theorem spmc_try_recv_when_gone_and_drained s r x :
  get (rxs s) r = Some x -> r_live x = true -> r_closed x = false ->
  pdrop s = true -> r_cur x = head s -> step s (TryRecv r) = (s, ODisc r).
Proof.
  intros Hg Hl Hc Hp Hh. cbn [step]. unfold with_rx. rewrite Hg, Hl, Hc. unfold try_recv_core.
  assert (Hw : in_window s (r_cur x) = false).
  { unfold in_window. rewrite Hh. destruct (N.ltb_spec (head s) (head s)); [lia|reflexivity]. }
  rewrite Hw, Hp. cbn [andb]. destruct (N.leb_spec (head s) (r_cur x)); [reflexivity|lia].
Qed.

(* the sender being gone is what sets producer_dropped, in every reachable state *)
Theorem spmc_pdrop_iff_sender_gone fx c a ops s outs :
  0 < c -> run fx c a ops = (s, outs) ->
  (s_closed s = true \/ s_alive s = false -> pdrop s = true) /\
  (pdrop s = true -> s_closed s = true \/ s_alive s = false \/ s_taint s = true).
Proof.
  intros Hc Hr. pose proof (inv_run _ _ _ _ _ _ Hc Hr) as I.
  split; [exact (i_s1 _ _ I) | exact (i_s2 _ _ I)].
Qed.

(* ------------------------------------------------------------------ C07: full statement, the known
   finding on the faithful model (fixedm = false), and the full statement for the patched model *)
Definition spmc_delivery_full (fx : bool) : Prop :=
  forall c a ops s outs r x,
    0 < c -> run fx c a ops = (s, outs) -> get (rxs s) r = Some x ->
    recvd r outs = slice (log s) (r_start x) (r_cur x).

(* witness: receiver 0 is closed at position 0, values 1 and 2 go round the 1-slot ring, then
   Clone of the closed handle registers a cursor at the stale position 0; its batch receive
   returns the value of index 1 twice *)
Definition witness_clone_closed : list op :=
  [RClone 0 1; RClose 0; TrySend 1; TryRecv 1; TrySend 2; TryRecv 1; RClone 0 2; TryRecvB 2 5].

Lemma spmc_delivery_refuted_clone_closed : ~ spmc_delivery_full false.
Proof.
  intros H.
  specialize (H 1 false witness_clone_closed).
  destruct (run false 1 false witness_clone_closed) as [s outs] eqn:E.
  assert (Hg : exists x, get (rxs s) 2 = Some x /\ recvd 2 outs <> slice (log s) (r_start x) (r_cur x)).
  { vm_compute in E. inversion E; subst. eexists. split; [vm_compute; reflexivity|]. vm_compute. discriminate. }
  destruct Hg as (x & Hg & Hne). apply Hne. eapply H; [lia|reflexivity|exact Hg].
Qed.

Theorem spmc_delivery_fixed : spmc_delivery_full true.
Proof.
  intros c a ops s outs r x Hc Hr Hg.
  destruct (spmc_fixed_untainted c a ops s outs Hc Hr) as [_ Ht].
  apply (spmc_delivery true c a ops s outs r x Hc Hr Hg (Ht r x Hg)).
Qed.

(* what `r_taint` means operationally: a receiver handle is tainted only if it (or an ancestor in the
   clone relation) was obtained from a handle that was not in the cursor list: Clone of a closed handle,
   to_sync/to_async of a closed handle.  On histories that never do that, nothing is tainted. *)
Definition derives_from_closed (s : st) (o : op) : bool :=
  match o with
  | RClone r _ | RConv r =>
      match get (rxs s) r with
      | Some x => r_closed x || negb (r_reg x)
      | None => false
      end
  | SConv => s_closed s
  | _ => false
  end.

Fixpoint clean_from (s : st) (ops : list op) : bool :=
  match ops with
  | [] => true
  | o :: t => negb (derives_from_closed s o) && clean_from (fst (step s o)) t
  end.

Definition no_taint (s : st) : Prop :=
  s_taint s = false /\ forall r x, get (rxs s) r = Some x -> r_taint x = false.

Lemma kind_clone o r : kind_of o = KClone r -> exists c, o = RClone r c.
Proof. destruct o; cbn [kind_of]; intros H; inversion H; subst. eauto. Qed.
Lemma kind_rconv o r : kind_of o = KRConv r -> o = RConv r.
Proof. destruct o; cbn [kind_of]; intros H; inversion H; subst. reflexivity. Qed.
Lemma kind_sconv o : kind_of o = KSConv -> o = SConv.
Proof. destruct o; cbn [kind_of]; intros H; inversion H; subst. reflexivity. Qed.

Lemma step_no_taint s o : no_taint s -> derives_from_closed s o = false -> no_taint (fst (step s o)).
Proof.
  intros [Hs Hr] Hd. destruct (step s o) as [s' x] eqn:Es. cbn [fst].
  pose proof (step_shape _ _ _ _ Es) as Hsh.
  assert (Hgoal : c_taint (proj s') = false /\ forall r y, c_get (proj s') r = Some y -> r_taint y = false);
    [|exact Hgoal].
  change (c_taint (proj s) = false) in Hs. change (forall r x, c_get (proj s) r = Some x -> r_taint x = false) in Hr.
  destruct Hsh as [Hq|vs0 sp Hq Hsp Hle Ha Hc|r x0 k Hg Hcl Hk Hv Ho|r x0 x' Hq Hg Hl0 Hu|r x0 cid xc Hq Hg Hl0 Hn Hk|al cl t pd Hq Hk].
  - auto.
  - auto.
  - split; [exact Hs|]. intros r1 y Hy. unfold c_get in Hy. cbn [with_rxs c_rxs] in Hy.
    destruct (N.eq_dec r1 r) as [->|Hne].
    + rewrite get_set_eq in Hy. inversion Hy; subst. cbn [adv r_taint]. apply (Hr r x0 Hg).
    + rewrite get_set_neq in Hy by exact Hne. apply (Hr r1 y Hy).
  - split; [exact Hs|]. intros r1 y Hy. unfold c_get in Hy. cbn [with_rxs c_rxs] in Hy.
    destruct (N.eq_dec r1 r) as [->|Hne].
    + rewrite get_set_eq in Hy. inversion Hy; subst y.
      destruct Hu as (_ & _ & [(_ & _ & ->)|[(_ & _ & -> & _)|(Hf & Hreg & Hcl & Hlv & -> & Hkd)]]);
        try (apply (Hr r x0 Hg)).
      apply kind_rconv in Hkd. subst o. cbn [derives_from_closed] in Hd.
      unfold c_get in Hg. cbn [proj c_rxs] in Hg. rewrite Hg in Hd. apply orb_false_iff in Hd. destruct Hd as [Hd _].
      rewrite (Hr r x0 Hg), Hd. reflexivity.
    + rewrite get_set_neq in Hy by exact Hne. apply (Hr r1 y Hy).
  - split; [exact Hs|]. intros r1 y Hy. unfold c_get in Hy. cbn [with_rxs c_rxs] in Hy.
    destruct (N.eq_dec r1 cid) as [->|Hne].
    + rewrite get_set_eq in Hy. inversion Hy; subst y.
      destruct Hk as (Hkd & _ & _ & _ & [(_ & _ & -> & _)|(_ & _ & _ & _ & ->)]); [|apply (Hr r x0 Hg)].
      apply kind_clone in Hkd. destruct Hkd as [c0 ->]. cbn [derives_from_closed] in Hd.
      unfold c_get in Hg. cbn [proj c_rxs] in Hg. rewrite Hg in Hd. apply orb_false_iff in Hd. destruct Hd as [_ Hd].
      rewrite (Hr r x0 Hg), Hd. reflexivity.
    + rewrite get_set_neq in Hy by exact Hne. apply (Hr r1 y Hy).
  - split; [|exact Hr]. cbn [with_sender c_taint].
    destruct Hk as (_ & [(_ & _ & _ & -> & _)|[(_ & _ & -> & _)|(_ & _ & _ & -> & _ & Hkd)]]); try exact Hs.
    apply kind_sconv in Hkd. subst o. cbn [derives_from_closed] in Hd.
    rewrite Hs. change (c_closed (proj s)) with (s_closed s). rewrite Hd. reflexivity.
Qed.

Lemma clean_no_taint ops : forall s, no_taint s -> clean_from s ops = true ->
  no_taint (fst (runacc (s, []) ops)) /\ forall acc, fst (runacc (s, acc) ops) = fst (runacc (s, []) ops).
Proof.
  assert (Hacc : forall ops s acc, fst (runacc (s, acc) ops) = fst (runacc (s, []) ops)).
  { induction ops0 as [|o t IH]; intros s acc; [reflexivity|].
    cbn [runacc fold_left]. change (fold_left stepacc t) with (fun p => runacc p t). cbn beta.
    unfold stepacc. cbn [fst snd]. destruct (step s o) as [s1 x]. rewrite (IH s1 (x :: acc)), (IH s1 [x]). reflexivity. }
  induction ops as [|o t IH]; intros s Hn Hc; [split; [exact Hn|intros; reflexivity]|].
  cbn [clean_from] in Hc. apply andb_true_iff in Hc. destruct Hc as [Hd Hc]. apply negb_true_iff in Hd.
  split; [|intros acc; apply Hacc].
  cbn [runacc fold_left]. change (fold_left stepacc t) with (fun p => runacc p t). cbn beta.
  unfold stepacc. cbn [fst snd]. pose proof (step_no_taint s o Hn Hd) as Hn1.
  destruct (step s o) as [s1 x]. cbn [fst] in *. rewrite Hacc. apply IH; assumption.
Qed.

(* the `_except_` form of the delivery theorem with a checkable hypothesis on the history *)
Theorem spmc_delivery_clean fx c a ops s outs r x :
  0 < c -> clean_from (init fx c a) ops = true -> run fx c a ops = (s, outs) ->
  get (rxs s) r = Some x ->
  recvd r outs = slice (log s) (r_start x) (r_cur x) /\ r_start x <= r_cur x /\ r_cur x <= head s.
Proof.
  intros Hc Hcl Hr Hg.
  assert (Hn0 : no_taint (init fx c a)).
  { split; [reflexivity|]. intros r0 x0 H0. cbn [init rxs get] in H0. destruct (N.eqb r0 0); [|discriminate].
    inversion H0. reflexivity. }
  destruct (clean_no_taint ops _ Hn0 Hcl) as [[_ Hn] _].
  unfold run in Hr. destruct (runacc (init fx c a, []) ops) as [s1 acc] eqn:E. cbn [fst] in Hn.
  inversion Hr; subst s1.
  eapply spmc_delivery; eauto. unfold run. rewrite E. reflexivity.
Qed.

(* ================================================================== C04: disconnect protocol *)

(* ---- after the last receiver is gone every send form fails with Closed and hands the values back *)
Lemma no_open_rx_no_cursor c outs :
  InvC c outs -> (forall r x, c_get c r = Some x -> r_live x = false \/ r_closed x = true) -> c_cursors c = [].
Proof.
  intros I Hall. destruct (c_cursors c) as [|m t] eqn:E; [reflexivity|exfalso].
  assert (Hin : In m (c_cursors c)) by (rewrite E; left; reflexivity).
  apply in_cursors in Hin; [|exact (i_nd _ _ I)]. destruct Hin as (r & x & Hg & Hr & _).
  destruct (i_rx _ _ I r x Hg) as (_ & _ & _ & D & _). destruct (D Hr) as [Hl Hc].
  destruct (Hall r x Hg); congruence.
Qed.

Theorem spmc_all_receivers_gone fx c a ops s outs :
  0 < c -> run fx c a ops = (s, outs) -> s_alive s = true ->
  (forall r x, get (rxs s) r = Some x -> r_live x = false \/ r_closed x = true) ->
  (forall v, snd (step s (TrySend v)) = OClosedV v) /\
  (forall v, s_async s = false -> snd (step s (Send v)) = OClosed) /\
  (forall vs, vs <> [] -> snd (step s (TrySendB vs)) = OBatch BClosed 0 vs) /\
  (forall vs, vs <> [] -> snd (step s (TrySendM vs)) = OMut false 0 vs) /\
  (forall vs, vs <> [] -> s_async s = false -> snd (step s (SendB vs)) = OBErr 0 vs) /\
  (forall vs, vs <> [] -> s_async s = false -> snd (step s (SendM vs)) = OMut false 0 vs) /\
  snd (step s SObs) = OObs 0 true false true (cap s).
Proof.
  intros Hc Hr Ha Hall. pose proof (inv_run _ _ _ _ _ _ Hc Hr) as I.
  assert (Hcur : cursors s = []) by (apply (no_open_rx_no_cursor (proj s) outs I); exact Hall).
  assert (Hsp : space s = None) by (unfold space; rewrite Hcur; reflexivity).
  assert (Hcap : N.eqb 0 (cap s) = false).
  { destruct (N.eqb_spec 0 (cap s)) as [E|]; [|reflexivity]. pose proof (i_cap _ _ I) as H0. cbn [proj c_cap] in H0. lia. }
  repeat split.
  - intros v. cbn [step]. rewrite Ha. cbn [negb]. destruct (s_closed s); [reflexivity|].
    unfold try_send_core. rewrite Hcur. reflexivity.
  - intros v Hs. cbn [step]. rewrite Ha, Hs. cbn [negb orb]. destruct (s_closed s); [reflexivity|].
    unfold try_send_core. rewrite Hcur. reflexivity.
  - intros vs Hne. cbn [step]. rewrite Ha. cbn [negb]. destruct vs as [|v0 t]; [congruence|].
    destruct (s_closed s); [reflexivity|]. unfold send_some. rewrite Hsp. reflexivity.
  - intros vs Hne. cbn [step]. rewrite Ha. cbn [negb]. destruct vs as [|v0 t]; [congruence|].
    destruct (s_closed s); [reflexivity|]. unfold send_some. rewrite Hsp. reflexivity.
  - intros vs Hne Hs. cbn [step]. rewrite Ha, Hs. cbn [negb orb]. destruct vs as [|v0 t]; [congruence|].
    destruct (s_closed s); [reflexivity|]. unfold send_some. rewrite Hsp. reflexivity.
  - intros vs Hne Hs. cbn [step]. rewrite Ha, Hs. cbn [negb orb]. destruct vs as [|v0 t]; [congruence|].
    destruct (s_closed s); [reflexivity|]. unfold send_some. rewrite Hsp. reflexivity.
  - cbn [step]. rewrite Ha. cbn [negb snd]. unfold obs_tx. rewrite Hcur. cbn [minl]. rewrite N.eqb_refl, Hcap. reflexivity.
Qed.

(* ---- a closed handle rejects every operation on it; close is idempotent *)
Theorem spmc_closed_rx_rejects s r x :
  get (rxs s) r = Some x -> r_live x = true -> r_closed x = true ->
  step s (TryRecv r) = (s, ODisc r) /\
  (r_async x = false -> step s (Recv r) = (s, ODisc r) /\ step s (RecvT r) = (s, ODisc r)) /\
  (forall n, n <> 0 -> step s (TryRecvB r n) = (s, ODisc r)) /\
  (forall n, n <> 0 -> r_async x = false -> step s (RecvB r n) = (s, ODisc r)) /\
  step s (RClose r) = (s, OCloseErr) /\
  (forall f y w, get (futs s) f = Some y -> f_live y = true -> fut_rx (f_kind y) = Some r ->
                 snd (step s (Poll f w)) = OReady (ODisc r)) /\
  (r_async x = true -> rx_busy s r = false -> forall w, step s (PollNext r w) = (s, OReady ONone)).
Proof.
  intros Hg Hl Hc. cbn [step]. unfold with_rx. rewrite Hg, Hl, Hc.
  split; [reflexivity|]. split; [intros ->; split; reflexivity|].
  split; [intros n Hn; destruct (N.eqb_spec n 0); [contradiction|reflexivity]|].
  split; [intros n Hn ->; destruct (N.eqb_spec n 0); [contradiction|reflexivity]|].
  split; [reflexivity|]. split.
  - intros f y w Hf Hlv Hk. rewrite Hf, Hlv. unfold poll_fut.
    destruct (f_kind y) as [r0|r0 n0| | |]; cbn [fut_rx] in Hk; inversion Hk; subst r0; rewrite Hg, Hc; reflexivity.
  - intros -> Hb w. cbn [negb]. rewrite Hb. reflexivity.
Qed.

Theorem spmc_closed_tx_rejects s :
  s_alive s = true -> s_closed s = true ->
  (forall v, step s (TrySend v) = (add_drops s [v], OClosedV v)) /\
  (forall v, s_async s = false -> step s (Send v) = (add_drops s [v], OClosed)) /\
  (forall vs, vs <> [] -> step s (TrySendB vs) = (add_drops s vs, OBatch BClosed 0 vs)) /\
  (forall vs, vs <> [] -> step s (TrySendM vs) = (add_drops s vs, OMut false 0 vs)) /\
  (tx_busy s = false -> step s SClose = (s, OCloseErr)) /\
  (forall f y w v, get (futs s) f = Some y -> f_live y = true -> f_kind y = FSend v ->
                   snd (step s (Poll f w)) = OReady OClosed).
Proof.
  intros Ha Hc. cbn [step]. rewrite Ha, Hc. cbn [negb].
  split; [reflexivity|]. split; [intros v ->; reflexivity|].
  split; [intros [|v0 t] Hne; [congruence|reflexivity]|].
  split; [intros [|v0 t] Hne; [congruence|reflexivity]|].
  split; [intros ->; reflexivity|].
  intros f y w v Hf Hl Hk. rewrite Hf, Hl. unfold poll_fut. rewrite Hk, Ha, Hc. reflexivity.
Qed.

Theorem spmc_close_sets_flag s r s' :
  step s (RClose r) = (s', OOk) ->
  exists x x', get (rxs s) r = Some x /\ r_closed x = false /\ get (rxs s') r = Some x' /\
               r_closed x' = true /\ r_reg x' = false.
Proof.
  cbn [step]. intros H. apply with_rx_inv in H. destruct H as [[_ H]|(x & Hg & Hl & H)]; [discriminate|].
  destruct (r_closed x) eqn:Ec; [discriminate|]. pinv H.
  exists x, (rx_unreg x). split; [exact Hg|]. split; [exact Ec|].
  split; [|split; reflexivity].
  change (c_get (proj (wake_producer (set_rx s r (rx_unreg x)))) r = Some (rx_unreg x)).
  rewrite proj_wake_producer. unfold c_get. cbn [proj set_rx set_rxs rxs c_rxs]. apply get_set_eq.
Qed.

(* ---- closing or dropping one receiver changes no other receiver's outcomes, and does not disconnect
   the sender while another receiver is registered *)
Theorem spmc_close_isolated s r x o r' :
  get (rxs s) r = Some x -> r_live x = true -> r_closed x = false -> rx_busy s r = false ->
  o = RClose r \/ o = RDrop r -> r' <> r ->
  let s1 := fst (step s o) in
  get (rxs s1) r' = get (rxs s) r' /\
  snd (step s1 (TryRecv r')) = snd (step s (TryRecv r')) /\
  (forall n, snd (step s1 (TryRecvB r' n)) = snd (step s (TryRecvB r' n))) /\
  snd (step s1 (RObs r')) = snd (step s (RObs r')) /\
  (forall x', get (rxs s) r' = Some x' -> r_reg x' = true -> minl (cursors s1) <> None).
Proof.
  intros Hg Hl Hc Hb Ho Hne s1.
  destruct (close_or_drop_spec s r x o Hg Hl Hc Hb Ho) as (_ & (x1 & Hx1 & Hp) & _). fold s1 in Hp.
  assert (Hget : get (rxs s1) r' = get (rxs s) r').
  { change (c_get (proj s1) r' = get (rxs s) r'). rewrite Hp. unfold c_get. cbn [with_rxs c_rxs].
    apply get_set_neq. exact Hne. }
  assert (Hlog : log s1 = log s) by (change (c_log (proj s1) = log s); rewrite Hp; reflexivity).
  assert (Hcap : cap s1 = cap s) by (change (c_cap (proj s1) = cap s); rewrite Hp; reflexivity).
  assert (Hpd : pdrop s1 = pdrop s) by (change (c_pdrop (proj s1) = pdrop s); rewrite Hp; reflexivity).
  assert (Hhd : head s1 = head s) by (unfold head; rewrite Hlog; reflexivity).
  split; [exact Hget|]. split; [|split; [|split]].
  - cbn [step]. unfold with_rx. rewrite Hget. destruct (get (rxs s) r') as [y|]; [|reflexivity].
    destruct (r_live y); [|reflexivity]. destruct (r_closed y); [reflexivity|].
    unfold try_recv_core, in_window. rewrite Hhd, Hcap, Hpd, Hlog.
    destruct (N.ltb (r_cur y) (head s) && N.leb (head s) (r_cur y + cap s)); [reflexivity|].
    destruct (pdrop s && N.leb (head s) (r_cur y)); reflexivity.
  - intros n. cbn [step]. unfold with_rx. rewrite Hget. destruct (get (rxs s) r') as [y|]; [|reflexivity].
    destruct (r_live y); [|reflexivity]. destruct (N.eqb n 0); [reflexivity|]. destruct (r_closed y); [reflexivity|].
    unfold try_recv_batch_core. rewrite Hhd, Hpd.
    destruct (N.leb (head s) (r_cur y)); [destruct (pdrop s); reflexivity|]. cbn [snd out_of_bres].
    f_equal. apply map_ext. intros i. unfold slot_val, slot_index. rewrite Hhd, Hcap, Hlog. reflexivity.
  - cbn [step]. unfold with_rx. rewrite Hget. destruct (get (rxs s) r') as [y|]; [|reflexivity].
    destruct (r_live y); [|reflexivity]. cbn [snd]. unfold obs_rx. rewrite Hhd, Hcap, Hpd. reflexivity.
  - intros x' Hg' Hr' Hn. apply minl_none in Hn.
    assert (Hin : In (r_cur x') (c_cursors (proj s1))).
    { apply (cursor_in (proj s1) r' x'); [|exact Hr']. unfold c_get. change (c_rxs (proj s1)) with (rxs s1). rewrite Hget. exact Hg'. }
    change (c_cursors (proj s1)) with (cursors s1) in Hin. rewrite Hn in Hin. contradiction.
Qed.

(* ---- history level: Disconnected is final, close is final *)
Definition is_disc (r : N) (o : out) : bool :=
  match o with
  | ODisc r' => N.eqb r' r
  | OReady (ODisc r') => N.eqb r' r
  | _ => false
  end.

Definition frozen (s : st) (r : N) : Prop :=
  exists x, get (rxs s) r = Some x /\ (r_closed x = true \/ (pdrop s = true /\ head s <= r_cur x)).

Ltac bf H :=
  repeat match type of H with
         | context [match ?e with _ => _ end] => let E := fresh "E" in destruct e eqn:E
         | context [if ?e then _ else _] => let E := fresh "E" in destruct e eqn:E
         end.

Lemma rres_disc r x s s1 : try_recv_core r x s = (s1, RDisc) -> pdrop s = true /\ head s <= r_cur x.
Proof. intros H. apply try_recv_core_spec in H. tauto. Qed.
Lemma bres_disc r x n s s1 : try_recv_batch_core r x n s = (s1, BDisc) -> pdrop s = true /\ head s <= r_cur x.
Proof. intros H. apply try_recv_batch_core_spec in H. tauto. Qed.

Ltac disc_fin :=
  match goal with
  | Hd : is_disc _ _ = true |- _ =>
      cbn [is_disc] in Hd; try discriminate Hd; apply N.eqb_eq in Hd; subst
  end;
  match goal with
  | Hg : get (rxs ?s) ?r = Some ?x |- frozen ?s ?r =>
      exists x; split; [exact Hg|];
      first [ left; assumption
            | right; match goal with
                     | E : try_recv_core _ _ _ = (_, RDisc) |- _ => exact (rres_disc _ _ _ _ E)
                     | E : try_recv_batch_core _ _ _ _ = (_, BDisc) |- _ => exact (bres_disc _ _ _ _ _ E)
                     end ]
  end.

Lemma step_disc s o s' x r : step s o = (s', x) -> is_disc r x = true -> frozen s r.
Proof.
  intros H Hd. destruct o; cbn [step] in H;
    try (apply with_rx_inv in H; destruct H as [[-> ->]|(y & Hg & Hl & H)]; [discriminate Hd|]).
  all: try (unfold new_fut, out_of_rres, out_of_bres in H).
  all: try (bf H; pinv H; try discriminate Hd; disc_fin; fail).
  (* Poll *)
  destruct (get (futs s) f) as [y|]; [|pinv H; discriminate Hd].
  destruct (f_live y); [|pinv H; discriminate Hd].
  unfold poll_fut in H. destruct (f_kind y).
  all: bf H; pinv H; try discriminate Hd; disc_fin.
Qed.

(* a step is "calm" if it does not clone / convert a closed handle, or the model is the patched one *)
Definition calm (s : st) (o : op) : Prop := fixedm s = true \/ derives_from_closed s o = false.

Lemma step_sender_calm s o s' x outs :
  InvC (proj s) outs -> step s o = (s', x) -> calm s o -> s_taint s = false ->
  s_taint s' = false /\ fixedm s' = fixedm s /\
  (pdrop s = true -> pdrop s' = true /\ log s' = log s).
Proof.
  intros I Hs Hc Ht. pose proof (step_shape _ _ _ _ Hs) as Hsh.
  change (c_taint (proj s) = false) in Ht.
  change (c_taint (proj s') = false /\ c_fixed (proj s') = c_fixed (proj s) /\
          (c_pdrop (proj s) = true -> c_pdrop (proj s') = true /\ c_log (proj s') = c_log (proj s))).
  destruct Hsh as [Hq|vs0 sp Hq Hsp Hle Ha Hcl|r0 x0 k Hg Hcl Hk Hv Ho|r0 x0 x' Hq Hg Hl0 Hu|r0 x0 cid xc Hq Hg Hl0 Hn Hk|al cl t pd Hq Hk];
    cbn [with_log with_rxs with_sender c_taint c_fixed c_pdrop c_log]; auto.
  - split; [exact Ht|]. split; [reflexivity|]. intros Hp.
    destruct (i_s2 _ _ I Hp) as [?|[?|?]]; congruence.
  - destruct Hk as (Ha & [(_ & _ & _ & -> & ->)|[(_ & _ & -> & Hpd)|(Hf & _ & _ & -> & -> & Hkd)]]).
    + auto.
    + split; [exact Ht|]. split; [reflexivity|]. intros Hp. split; [|reflexivity].
      destruct Hpd as [->|[_ ->]]; [reflexivity|exact Hp].
    + apply kind_sconv in Hkd. subst o. destruct Hc as [Hc|Hc].
      * change (c_fixed (proj s) = true) in Hc. congruence.
      * cbn [derives_from_closed] in Hc. change (c_closed (proj s) = false) in Hc. rewrite Ht, Hc. auto.
Qed.

Lemma step_rx_calm s o s' x r y :
  step s o = (s', x) -> calm s o -> get (rxs s) r = Some y ->
  (r_closed y = true \/ (pdrop s = true /\ head s <= r_cur y)) ->
  (exists y', get (rxs s') r = Some y' /\
              (r_closed y' = true \/ (r_closed y = false /\ r_cur y' = r_cur y))) /\ vals_of r x = [].
Proof.
  intros Hs Hc Hgy Hfr. pose proof (step_shape _ _ _ _ Hs) as Hsh.
  change (get (rxs s') r) with (c_get (proj s') r).
  change (c_get (proj s) r = Some y) in Hgy.
    destruct Hsh as [Hq|vs0 sp Hq Hsp Hle Ha Hcl|r0 x0 k Hg Hcl Hk Hv Ho|r0 x0 x' Hq Hg Hl0 Hu|r0 x0 cid xc Hq Hg Hl0 Hn Hk|al cl t pd Hq Hk].
    - split; [|apply Hq]. exists y. split; [exact Hgy|]. destruct (r_closed y); auto.
    - split; [|apply Hq]. exists y. split; [exact Hgy|]. destruct (r_closed y); auto.
    - destruct (N.eq_dec r r0) as [->|Hne].
      + rewrite Hgy in Hg. inversion Hg; subst x0. clear Hg.
        destruct Hfr as [Hfr|[Hp Hh]]; [congruence|].
        change (c_head (proj s)) with (head s) in Hk.
        assert (k = 0) by lia. subst k.
        split.
        * exists (adv y 0). split; [unfold c_get; cbn [with_rxs c_rxs]; apply get_set_eq|].
          right. split; [exact Hcl|]. cbn [adv r_cur]. lia.
        * rewrite Hv. reflexivity.
      + split; [|apply Ho; exact Hne]. exists y. split.
        * unfold c_get. cbn [with_rxs c_rxs]. rewrite get_set_neq by exact Hne. exact Hgy.
        * destruct (r_closed y); auto.
    - split; [|apply Hq]. destruct (N.eq_dec r r0) as [->|Hne].
      + rewrite Hgy in Hg. inversion Hg; subst x0. clear Hg.
        exists x'. split; [unfold c_get; cbn [with_rxs c_rxs]; apply get_set_eq|].
        destruct Hu as (Hcur & _ & [(_ & -> & _)|[(_ & -> & _)|(Hf & Hreg & Hcl' & Hlv & _ & Hkd)]]).
        * auto.
        * destruct (r_closed y); auto.
        * apply kind_rconv in Hkd. subst o. destruct Hc as [Hc|Hc].
          -- change (c_fixed (proj s) = true) in Hc. congruence.
          -- cbn [derives_from_closed] in Hc. unfold c_get in Hgy. cbn [proj c_rxs] in Hgy. rewrite Hgy in Hc.
             apply orb_false_iff in Hc. destruct Hc as [Hc _]. right. auto.
      + exists y. split.
        * unfold c_get. cbn [with_rxs c_rxs]. rewrite get_set_neq by exact Hne. exact Hgy.
        * destruct (r_closed y); auto.
    - split; [|apply Hq]. exists y. split.
      + unfold c_get. cbn [with_rxs c_rxs]. rewrite get_set_neq; [exact Hgy|]. intros ->. congruence.
      + destruct (r_closed y); auto.
    - split; [|apply Hq]. exists y. split; [exact Hgy|]. destruct (r_closed y); auto.
Qed.

Lemma step_frozen s o s' x outs r :
  InvC (proj s) outs -> step s o = (s', x) -> calm s o -> s_taint s = false ->
  frozen s r -> frozen s' r /\ vals_of r x = [].
Proof.
  intros I Hs Hc Ht (y & Hgy & Hfr).
  destruct (step_sender_calm s o s' x outs I Hs Hc Ht) as (_ & _ & Hpd).
  destruct (step_rx_calm s o s' x r y Hs Hc Hgy Hfr) as [(y' & Hg' & Hy') Hv]. split; [|exact Hv].
  exists y'. split; [exact Hg'|]. destruct Hy' as [Hy'|[Hcy Hcur]]; [left; exact Hy'|].
  destruct Hfr as [Hfr|[Hp Hh]]; [congruence|]. right.
  destruct (Hpd Hp) as [Hp' Hl']. split; [exact Hp'|]. unfold head. rewrite Hl', Hcur. exact Hh.
Qed.

(* chronological outputs of a history started in s *)
Fixpoint outs_from (s : st) (ops : list op) : list out :=
  match ops with
  | [] => []
  | o :: t => snd (step s o) :: outs_from (fst (step s o)) t
  end.

Fixpoint end_of (s : st) (ops : list op) : st :=
  match ops with [] => s | o :: t => end_of (fst (step s o)) t end.

Lemma runacc_outs ops : forall s acc,
  runacc (s, acc) ops = (end_of s ops, rev (outs_from s ops) ++ acc).
Proof.
  induction ops as [|o t IH]; intros s acc; [reflexivity|].
  cbn [runacc fold_left]. change (fold_left stepacc t) with (fun p => runacc p t). cbn beta.
  unfold stepacc. cbn [fst snd]. destruct (step s o) as [s1 x] eqn:Es. rewrite IH.
  cbn [end_of outs_from rev]. rewrite Es. cbn [fst snd]. rewrite <- app_assoc. reflexivity.
Qed.

Lemma run_outs fx c a ops : run fx c a ops = (end_of (init fx c a) ops, outs_from (init fx c a) ops).
Proof. unfold run. rewrite runacc_outs. rewrite app_nil_r, rev_involutive. reflexivity. Qed.

Fixpoint calm_from (s : st) (ops : list op) : Prop :=
  match ops with
  | [] => True
  | o :: t => calm s o /\ calm_from (fst (step s o)) t
  end.

Lemma clean_calm ops : forall s, clean_from s ops = true -> calm_from s ops.
Proof.
  induction ops as [|o t IH]; intros s H; [exact I|].
  cbn [clean_from] in H. apply andb_true_iff in H. destruct H as [H1 H2].
  split; [right; apply negb_true_iff; exact H1 | apply IH; exact H2].
Qed.

Lemma fixed_calm ops : forall s outs, InvC (proj s) outs -> fixedm s = true -> calm_from s ops.
Proof.
  induction ops as [|o t IH]; intros s outs I H; [exact Logic.I|].
  split; [left; exact H|]. destruct (step s o) as [s1 x] eqn:Es. cbn [fst].
  apply (IH s1 (outs ++ [x])).
  - eapply inv_step; [exact I|]. apply step_shape with (op := o). exact Es.
  - pose proof (step_shape _ _ _ _ Es) as Hsh. change (c_fixed (proj s1) = true).
    change (c_fixed (proj s) = true) in H. destruct Hsh; exact H.
Qed.

(* once Disconnected was returned for r, no later output carries a value for r *)
Fixpoint nvad (r : N) (seen : bool) (outs : list out) : Prop :=
  match outs with
  | [] => True
  | o :: t => (seen = true -> vals_of r o = []) /\ nvad r (seen || is_disc r o) t
  end.

Lemma nvad_from r ops : forall s seen outs0,
  InvC (proj s) outs0 -> s_taint s = false -> calm_from s ops ->
  (seen = true -> frozen s r) -> nvad r seen (outs_from s ops).
Proof.
  induction ops as [|o t IH]; intros s seen outs0 I Ht Hc Hf; [exact Logic.I|].
  cbn [outs_from nvad]. destruct Hc as [Hc1 Hc2]. destruct (step s o) as [s1 x] eqn:Es. cbn [fst snd] in *.
  split.
  - intros Hs. destruct (step_frozen s o s1 x outs0 r I Es Hc1 Ht (Hf Hs)) as [_ Hv]. exact Hv.
  - apply (IH s1 _ (outs0 ++ [x])).
    + eapply inv_step; [exact I|]. apply step_shape with (op := o). exact Es.
    + destruct (step_sender_calm s o s1 x outs0 I Es Hc1 Ht) as (H & _). exact H.
    + exact Hc2.
    + intros Hs. apply orb_true_iff in Hs.
      assert (Hfz : frozen s r).
      { destruct Hs as [Hs|Hs]; [exact (Hf Hs)|]. eapply step_disc; eauto. }
      destruct (step_frozen s o s1 x outs0 r I Es Hc1 Ht Hfz) as [H _]. exact H.
Qed.

Definition spmc_disc_final_full (fx : bool) : Prop :=
  forall c a ops r, 0 < c -> nvad r false (snd (run fx c a ops)).

Theorem spmc_disc_final_clean fx c a ops r :
  0 < c -> clean_from (init fx c a) ops = true -> nvad r false (snd (run fx c a ops)).
Proof.
  intros Hc Hcl. rewrite run_outs. cbn [snd].
  apply (nvad_from r ops (init fx c a) false []); [apply inv_init; exact Hc|reflexivity|apply clean_calm; exact Hcl|discriminate].
Qed.

Theorem spmc_disc_final_fixed : spmc_disc_final_full true.
Proof.
  intros c a ops r Hc. rewrite run_outs. cbn [snd].
  apply (nvad_from r ops (init true c a) false []); [apply inv_init; exact Hc|reflexivity| |discriminate].
  apply (fixed_calm ops _ []); [apply inv_init; exact Hc|reflexivity].
Qed.

(* known finding (sender): close(); to_async()/to_sync() re-opens the sender, so a receiver that has
   observed Disconnected obtains a value afterwards *)
Definition witness_reopen_tx : list op := [SClose; TryRecv 0; SConv; TrySend 1; TryRecv 0].

Lemma spmc_disc_final_refuted_reopen_tx : ~ spmc_disc_final_full false.
Proof.
  intros H. specialize (H 2 false witness_reopen_tx 0 ltac:(lia)). vm_compute in H.
  destruct H as (_ & _ & _ & _ & H & _). specialize (H eq_refl). discriminate H.
Qed.

(* ---- close is final for a receiver handle: after close() returned Ok, no later operation yields a
   value on it — on the patched model and on histories that do not convert/clone closed handles *)
Lemma closed_forever r ops : forall s y,
  calm_from s ops -> get (rxs s) r = Some y -> r_closed y = true ->
  (exists y', get (rxs (end_of s ops)) r = Some y' /\ r_closed y' = true) /\ recvd r (outs_from s ops) = [].
Proof.
  induction ops as [|o t IH]; intros s y Hc Hg Hcl; [split; [eauto|reflexivity]|].
  destruct Hc as [Hc1 Hc2]. cbn [end_of outs_from]. destruct (step s o) as [s1 x] eqn:Es. cbn [fst snd] in *.
  destruct (step_rx_calm s o s1 x r y Es Hc1 Hg (or_introl Hcl)) as [(y' & Hg' & Hy') Hv].
  assert (Hcl' : r_closed y' = true) by (destruct Hy' as [?|[? _]]; congruence).
  destruct (IH s1 y' Hc2 Hg' Hcl') as [He Hr]. split; [exact He|].
  unfold recvd. cbn [flat_map]. rewrite Hv. exact Hr.
Qed.

Definition spmc_close_final_full (fx : bool) : Prop :=
  forall c a ops1 r ops2, 0 < c ->
    let s1 := end_of (init fx c a) ops1 in
    snd (step s1 (RClose r)) = OOk ->
    recvd r (outs_from (fst (step s1 (RClose r))) ops2) = [].

Lemma inv_end_of fx c a ops : 0 < c -> InvC (proj (end_of (init fx c a) ops)) (outs_from (init fx c a) ops).
Proof. intros Hc. apply (inv_run fx c a ops). exact Hc. apply run_outs. Qed.

Lemma fixedm_step s o : fixedm (fst (step s o)) = fixedm s.
Proof.
  destruct (step s o) as [s1 x] eqn:E. cbn [fst]. pose proof (step_shape _ _ _ _ E) as Hsh.
  change (c_fixed (proj s1) = c_fixed (proj s)). destruct Hsh; reflexivity.
Qed.

Lemma fixedm_end_of ops : forall s, fixedm (end_of s ops) = fixedm s.
Proof.
  induction ops as [|o t IH]; intros s; [reflexivity|]. cbn [end_of]. rewrite IH. apply fixedm_step.
Qed.

Theorem spmc_close_final_fixed : spmc_close_final_full true.
Proof.
  intros c a ops1 r ops2 Hc s1 Hok.
  pose proof (fixedm_step s1 (RClose r)) as Hf. unfold s1 in Hf at 2. rewrite fixedm_end_of in Hf. cbn [init fixedm] in Hf.
  pose proof (inv_end_of true c a ops1 Hc) as I1. fold s1 in I1.
  destruct (step s1 (RClose r)) as [s2 x] eqn:Es. cbn [snd fst] in *. subst x.
  destruct (spmc_close_sets_flag s1 r s2 Es) as (y & y' & _ & _ & Hg' & Hcl' & _).
  assert (I2 : InvC (proj s2) (outs_from (init true c a) ops1 ++ [OOk])).
  { eapply inv_step; [exact I1|]. apply step_shape with (op := RClose r). exact Es. }
  destruct (closed_forever r ops2 s2 y' (fixed_calm ops2 s2 _ I2 Hf) Hg' Hcl') as [_ H]. exact H.
Qed.

Theorem spmc_close_final_clean fx c a ops1 r ops2 :
  0 < c -> let s1 := end_of (init fx c a) ops1 in
  snd (step s1 (RClose r)) = OOk -> clean_from (fst (step s1 (RClose r))) ops2 = true ->
  recvd r (outs_from (fst (step s1 (RClose r))) ops2) = [].
Proof.
  intros Hc s1 Hok Hcl. destruct (step s1 (RClose r)) as [s2 x] eqn:Es. cbn [snd fst] in *. subst x.
  destruct (spmc_close_sets_flag s1 r s2 Es) as (y & y' & _ & _ & Hg' & Hcl' & _).
  destruct (closed_forever r ops2 s2 y' (clean_calm ops2 s2 Hcl) Hg' Hcl') as [_ H]. exact H.
Qed.

(* known finding (receiver): close(); to_async()/to_sync() re-opens the handle *)
Lemma spmc_close_final_refuted_reopen_rx : ~ spmc_close_final_full false.
Proof.
  intros H. specialize (H 2 false [RClone 0 1] 0 [RConv 0; TrySend 1; TryRecv 0] ltac:(lia)).
  cbv zeta in H. specialize (H ltac:(vm_compute; reflexivity)). vm_compute in H. discriminate H.
Qed.
