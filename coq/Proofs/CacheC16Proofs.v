(* Proofs/CacheC16Proofs.v — C16: notifications are truthful, never duplicated,
   and complete when the channel does not drop. *)
From Fibre Require Import Common.Base Cache.PolicySpec Cache.AMap Cache.CacheOps Cache.CacheSpec
     Proofs.AMapProofs Proofs.CacheCoreProofs Proofs.CacheStepProofs Proofs.CacheC12Proofs.

Section C16.
  Set Default Proof Using "All".
  Variable P : policy.
  Variable c : cfg.
  Hypothesis Hn : 0 < c_shards c.

  Notation state := (state P).
  Notation find := (find P c).
  Notation wfp := (wfp P c).
  Notation smap := (smap P).
  Notation sent := (sent P).

  (* incarnation numbers: fresh, unique among residents, never resident once notified *)
  Definition inv16 (s : state) : Prop :=
    (forall k e, find s k = Some e -> e_id e < st_eid P s)
    /\ (forall k1 e1 k2 e2, find s k1 = Some e1 -> find s k2 = Some e2 -> e_id e1 = e_id e2 -> k1 = k2)
    /\ (forall n, In n (sent s) -> n_id n < st_eid P s /\ forall k e, find s k = Some e -> e_id e <> n_id n)
    /\ NoDup (map n_id (sent s)).

  (* every entry of s' is an entry of s (same incarnation) *)
  Definition idsub (s s' : state) : Prop :=
    forall k e', find s' k = Some e' -> exists e, find s k = Some e /\ e_id e = e_id e'.

  Lemma inv16_idsub s s' :
    idsub s s' -> st_eid P s <= st_eid P s' -> sent s' = sent s -> inv16 s -> inv16 s'.
  Proof.
    intros Hs He Hsent [A [B [C D]]]. split; [|split; [|split]].
    - intros k e' Hf. destruct (Hs k e' Hf) as [e [Hf0 Hid]]. specialize (A k e Hf0). lia.
    - intros k1 e1 k2 e2 H1 H2 Hid. destruct (Hs k1 e1 H1) as [a [Ha Ia]]. destruct (Hs k2 e2 H2) as [b [Hb Ib]].
      apply (B k1 a k2 b Ha Hb). congruence.
    - rewrite Hsent. intros n Hi. destruct (C n Hi) as [C1 C2]. split; [lia|].
      intros k e' Hf. destruct (Hs k e' Hf) as [e [Hf0 Hid]]. rewrite <- Hid. apply (C2 k e Hf0).
    - rewrite Hsent. exact D.
  Qed.

  Lemma refr_find_fwd s s' k e :
    refr P c s s' -> find s k = Some e -> exists e', find s' k = Some e' /\ e_id e' = e_id e /\ e_val e' = e_val e.
  Proof.
    intros [_ [R _]] Hf. specialize (R (shard_of c k) k). rewrite !find_smap in *. rewrite Hf in R.
    unfold rel_entry in R. destruct (afind k (smap s' (shard_of c k))) as [e'|]; [|contradiction].
    exists e'. split; [reflexivity|]. destruct R as [->|[-> _]]; [auto|].
    unfold refreshed. destruct (c_tti c); auto.
  Qed.

  (** ** transitions that notify nothing *)
  Definition quiet (s s' : state) (o : op) : Prop :=
    sent s' = sent s
    /\ (forall k e, find s k = Some e -> silent o k = false ->
                    exists e', find s' k = Some e' /\ e_id e' = e_id e).

  Lemma quiet_step s s' o : quiet s s' o -> s' = fst (step P c s o) -> C16_step P c s o.
  Proof.
    intros [Hs Hk] ->. exists []. rewrite app_nil_r. split; [exact Hs|]. split; [intros n []|]. split; [|reflexivity].
    intros _ _ k e Hf Hgone Hsil. destruct (Hk k e Hf Hsil) as [e' [Hf' Hid]]. exfalso. apply (Hgone e' Hf'). exact Hid.
  Qed.

  (** ** a write *)
  Lemma write_facts s s' k e dcc :
    ueff P s s' (shard_of c k) (aput k e (smap s (shard_of c k))) dcc 1 -> e_id e = st_eid P s ->
    inv16 s ->
    inv16 s' /\ sent s' = sent s
    /\ (forall k' e0, k' <> k -> find s k' = Some e0 -> find s' k' = Some e0).
  Proof.
    intros H Hid [A [B [C D]]].
    assert (Hf : forall k', find s' k' = if N.eqb k' k then Some e else find s k') by (intros k'; apply (find_ueff_aput P c Hn _ _ _ _ _ _ k' H)).
    destruct H as [_ [_ [_ [E [S _]]]]]. split; [|split; [exact S|]].
    - split; [|split; [|split]].
      + intros k' e' Hf'. rewrite Hf in Hf'. destruct (N.eqb_spec k' k) as [->|].
        * inversion Hf'; subst. lia.
        * specialize (A k' e' Hf'). lia.
      + intros k1 e1 k2 e2 H1 H2 Hi. rewrite Hf in H1, H2.
        destruct (N.eqb_spec k1 k) as [->|N1], (N.eqb_spec k2 k) as [->|N2]; auto.
        * inversion H1; subst. specialize (A k2 e2 H2). lia.
        * inversion H2; subst. specialize (A k1 e1 H1). lia.
        * eapply B; eassumption.
      + rewrite S. intros n Hi. destruct (C n Hi) as [C1 C2]. split; [lia|].
        intros k' e' Hf'. rewrite Hf in Hf'. destruct (N.eqb_spec k' k) as [->|].
        * inversion Hf'; subst. lia.
        * apply (C2 k' e' Hf').
      + rewrite S. exact D.
    - intros k' e0 Hne Hf0. rewrite Hf. destruct (N.eqb_spec k' k); [contradiction | exact Hf0].
  Qed.

  Lemma multi_insert_facts items : forall s,
    wfp s -> inv16 s ->
    inv16 (do_multi_insert P c s items) /\ sent (do_multi_insert P c s items) = sent s.
  Proof.
    unfold do_multi_insert. induction items as [|[[k v] cost] t IH]; intros s Hw Hi; cbn [fold_left]; [auto|].
    destruct (insert_core_ueff P c s k v cost (ttl_exp c (st_now P s)) (c_ttl c)) as [h H]. cbn zeta in H.
    destruct (write_facts s _ k _ _ H eq_refl Hi) as [Hi1 [Hs1 _]].
    destruct (IH _ (ueff_aput_wfp P c Hn _ _ _ _ _ _ H Hw) Hi1) as [Hi2 Hs2]. split; [exact Hi2 | congruence].
  Qed.

  (** ** a removal step *)
  Lemma drop_find s D d :
    wfp s -> (forall d, In d D -> afind (d_key d) (smap s (d_sh d)) = Some (d_ent d)) -> In d D ->
    find s (d_key d) = Some (d_ent d) /\ shard_of c (d_key d) = d_sh d.
  Proof.
    intros [_ Hp] F Hd. specialize (F d Hd).
    assert (Hs : shard_of c (d_key d) = d_sh d) by (apply Hp; eapply afind_Some_keys; exact F).
    split; [rewrite find_smap, Hs; exact F | exact Hs].
  Qed.

  Lemma drops_ids_NoDup s D :
    wfp s -> inv16 s ->
    (forall d, In d D -> afind (d_key d) (smap s (d_sh d)) = Some (d_ent d)) ->
    (forall j, NoDup (dkeys j D)) ->
    NoDup (map (fun d => e_id (d_ent d)) D).
  Proof.
    intros Hw [_ [B _]] F U. induction D as [|d t IH]; cbn [map]; constructor.
    - intros Hi. apply in_map_iff in Hi. destruct Hi as [d' [Hid Hd']].
      destruct (drop_find s (d :: t) d Hw F (or_introl eq_refl)) as [F1 S1].
      destruct (drop_find s (d :: t) d' Hw F (or_intror Hd')) as [F2 S2].
      assert (Hk : d_key d' = d_key d) by (eapply B; eassumption).
      specialize (U (d_sh d)). unfold dkeys in U. cbn [filter] in U. rewrite N.eqb_refl in U. cbn [map] in U.
      inversion U as [|? ? Hni _]; subst. apply Hni. rewrite <- Hk. apply in_map. apply filter_In. split; [exact Hd'|].
      apply N.eqb_eq. congruence.
    - apply IH.
      + intros d' Hd'. apply F. right. exact Hd'.
      + intros j. specialize (U j). unfold dkeys in *. cbn [filter] in U. destruct (N.eqb (d_sh d) j); [|exact U].
        cbn [map] in U. inversion U; assumption.
  Qed.

  Lemma mstep_facts s s' o D dcc :
    wfp s -> inv16 s -> mstepx P c s s' D dcc -> Forall (reason_ok o) D ->
    inv16 s' /\ (s' = fst (step P c s o) -> C16_step P c s o).
  Proof.
    intros Hw Hi [Hm [Hok _]] Hrs.
    pose proof Hm as [M [_ [Nw [E [[Hnd [kept [Hsent [Hsub [Hall Hnone]]]]] [U F]]]]]].
    destruct Hi as [A [B [C Dn]]].
    assert (Hfind : forall k, find s' k = if mem k (dkeys (shard_of c k) D) then None else find s k)
      by (intros k; apply (find_mstep P c Hn _ _ _ _ k Hm)).
    assert (Hsub' : idsub s s').
    { intros k e' Hf. rewrite Hfind in Hf. destruct (mem k _); [discriminate|]. eauto. }
    assert (Hkept : forall n, In n kept -> exists d, In d D /\ n = dnote d).
    { intros n Hi. apply (subseq_incl _ _ Hsub) in Hi. apply in_map_iff in Hi. destruct Hi as [d [<- Hd]]. eauto. }
    assert (Hgone : forall d, In d D -> find s' (d_key d) = None).
    { intros d Hd. rewrite Hfind. destruct (drop_find s D d Hw F Hd) as [_ Hs].
      assert (Hm' : mem (d_key d) (dkeys (shard_of c (d_key d)) D) = true).
      { apply mem_In. apply In_dkeys. exists d. auto. }
      rewrite Hm'. reflexivity. }
    assert (Hids : NoDup (map n_id kept)).
    { eapply subseq_NoDup; [apply subseq_map; exact Hsub|]. rewrite map_map. cbn [dnote n_id].
      apply (drops_ids_NoDup s D Hw (conj A (conj B (conj C Dn))) F U). }
    split.
    - (* invariant *)
      split; [|split; [|split]].
      + intros k e' Hf. destruct (Hsub' k e' Hf) as [e [Hf0 <-]]. rewrite E. apply (A k e Hf0).
      + intros k1 e1 k2 e2 H1 H2 Hid. destruct (Hsub' k1 e1 H1) as [a [Ha Ia]]. destruct (Hsub' k2 e2 H2) as [b [Hb Ib]].
        apply (B k1 a k2 b Ha Hb). congruence.
      + rewrite Hsent, E. intros n Hi. apply in_app_or in Hi. destruct Hi as [Hi|Hi].
        * destruct (C n Hi) as [C1 C2]. split; [exact C1|]. intros k e' Hf. destruct (Hsub' k e' Hf) as [e [Hf0 <-]].
          apply (C2 k e Hf0).
        * destruct (Hkept n Hi) as [d [Hd ->]]. destruct (drop_find s D d Hw F Hd) as [Fd _]. cbn [dnote n_id].
          split; [apply (A _ _ Fd)|]. intros k e' Hf Hid. destruct (Hsub' k e' Hf) as [e [Hf0 He]].
          assert (Hk : k = d_key d) by (eapply B; [exact Hf0 | exact Fd | congruence]).
          subst k. rewrite (Hgone d Hd) in Hf. discriminate.
      + rewrite Hsent, map_app. apply NoDup_app_intro; [exact Dn | exact Hids |].
        intros x H1 H2. apply in_map_iff in H1. destruct H1 as [n1 [<- H1]]. apply in_map_iff in H2.
        destruct H2 as [n2 [Hx H2]]. destruct (Hkept n2 H2) as [d [Hd ->]]. cbn [dnote n_id] in Hx.
        destruct (drop_find s D d Hw F Hd) as [Fd _]. destruct (C n1 H1) as [_ C2]. apply (C2 _ _ Fd). exact Hx.
    - (* the step statement *)
      intros ->. exists kept. split; [exact Hsent|]. split; [|split; [|exact Hnone]].
      + intros n Hi. destruct (Hkept n Hi) as [d [Hd ->]]. destruct (drop_find s D d Hw F Hd) as [Fd _].
        exists (d_ent d). cbn [dnote n_key n_id n_val n_reason]. split; [exact Fd|]. split; [reflexivity|]. split; [reflexivity|].
        split; [intros e' Hf; rewrite (Hgone d Hd) in Hf; discriminate|].
        rewrite Forall_forall in Hok, Hrs. specialize (Hrs d Hd). destruct (Hok d Hd) as [_ Hr]. unfold reason_ok in Hrs.
        destruct (d_rsn d); [split; [exact Hrs | exact Hr] | split; [exact Hrs | exact Hr] | exact Hrs].
      + intros Hl Hd k e Hf Hg Hsil.
        assert (Hin : In k (dkeys (shard_of c k) D)).
        { destruct (mem k (dkeys (shard_of c k) D)) eqn:Em; [apply mem_In; exact Em|].
          exfalso. specialize (Hfind k). rewrite Em, Hf in Hfind. apply (Hg e Hfind). reflexivity. }
        apply In_dkeys in Hin. destruct Hin as [d [Hdd [Hs Hk]]].
        destruct (drop_find s D d Hw F Hdd) as [Fd _]. rewrite Hk, Hf in Fd. inversion Fd as [He].
        exists (dnote d). rewrite (Hall Hl Hd). split; [apply in_map; exact Hdd|].
        cbn [dnote n_id n_key n_val]. rewrite <- He. auto.
  Qed.

  (** ** every operation *)
  Lemma c16_step_gen s o :
    wfp s -> inv16 s -> inv16 (fst (step P c s o)) /\ C16_step P c s o.
  Proof.
    intros Hw Hi. pose proof (step_kind P c Hn s o Hw) as Hk.
    assert (Hq : forall s', s' = fst (step P c s o) -> idsub s s' -> st_eid P s <= st_eid P s' -> sent s' = sent s ->
                            (forall k e, find s k = Some e -> silent o k = false ->
                                         exists e', find s' k = Some e' /\ e_id e' = e_id e) ->
                            inv16 s' /\ C16_step P c s o).
    { intros s' Hs' Hsub He Hsent Hkeep. split; [apply (inv16_idsub s s'); assumption|].
      apply (quiet_step s s' o); [split; assumption | exact Hs']. }
    remember (fst (step P c s o)) as s' eqn:Hs'. destruct Hk as [k e dcc H Hid Hsil | Hr | k e e' Hf H Hid Hc | D dcc H Hrs | Ho Hc | items Ho Hm | M E S Dn C].
    - destruct (write_facts s s' k e dcc H Hid Hi) as [Hi' [Hsent Hfr]]. split; [exact Hi'|].
      apply (quiet_step s s' o); [|exact Hs']. split; [exact Hsent|].
      intros k' e0 Hf0 Hs0. exists e0. split; [|reflexivity]. apply Hfr; [|exact Hf0]. intros ->. congruence.
    - apply Hq; [reflexivity | | destruct Hr as [_ [_ [_ [_ [Er _]]]]]; lia | apply Hr |].
      + intros k e' Hf. destruct (refr_find_back P c Hn s s' k e' Hr Hf) as [e [H1 [_ [H2 _]]]]. eauto.
      + intros k e Hf _. destruct (refr_find_fwd s s' k e Hr Hf) as [e' [H1 [H2 _]]]. eauto.
    - assert (Hfs : forall k', find s' k' = if N.eqb k' k then Some e' else find s k').
      { intros k'. rewrite (find_ueff_aset P c Hn _ _ _ _ _ _ k' H), Hf. reflexivity. }
      apply Hq; [reflexivity | | destruct H as [_ [_ [_ [Ee _]]]]; lia | apply H |].
      + intros k' e2 Hf2. rewrite Hfs in Hf2. destruct (N.eqb_spec k' k) as [->|]; [|eauto].
        inversion Hf2; subst. eauto.
      + intros k' e0 Hf0 _. rewrite Hfs. destruct (N.eqb_spec k' k) as [->|]; [|eauto].
        rewrite Hf in Hf0. inversion Hf0; subst. eauto.
    - destruct (mstep_facts s s' o D dcc Hw Hi H Hrs) as [A B]. split; [exact A | apply B; exact Hs'].
    - subst o. destruct (do_clear_spec P c Hn s) as [_ [_ [_ [Ee [Se _]]]]].
      apply Hq; [reflexivity | | rewrite Hc, Ee; lia | rewrite Hc; exact Se |].
      + intros k e' Hf. rewrite Hc, (do_clear_find P c Hn) in Hf. discriminate.
      + intros k e _ Hs0. discriminate.
    - subst o. destruct (multi_insert_facts items s Hw Hi) as [Hi' Hsent]. rewrite <- Hm in Hi', Hsent.
      split; [exact Hi'|]. apply (quiet_step s s' (OMultiInsert items)); [|exact Hs']. split; [exact Hsent|].
      intros k e Hf Hs0. exists e. split; [|reflexivity]. rewrite Hm, (multi_insert_frame P c Hn); [exact Hf|].
      apply mem_false_In. exact Hs0.
    - assert (Hfs : forall k, find s' k = find s k) by (intros k; rewrite !find_smap, M; reflexivity).
      apply Hq; [reflexivity | | lia | exact S |].
      + intros k e' Hf. rewrite Hfs in Hf. eauto.
      + intros k e Hf _. rewrite Hfs. eauto.
  Qed.

  Lemma init_inv16 now0 : inv16 (init P now0).
  Proof.
    split; [|split; [|split]].
    - intros k e Hf. discriminate.
    - intros k1 e1 k2 e2 Hf. discriminate.
    - intros n [].
    - constructor.
  Qed.

  Lemma run_inv16 ops : forall s, wfp s -> inv16 s -> inv16 (fst (run P c s ops)).
  Proof.
    induction ops as [|o t IH]; intros s Hw Hi; cbn [run fst]; [exact Hi|].
    pose proof (step_wfp P c Hn s o Hw) as Hw1. pose proof (proj1 (c16_step_gen s o Hw Hi)) as Hi1.
    destruct (step P c s o) as [s1 x]. cbn [fst] in *.
    specialize (IH s1 Hw1 Hi1). destruct (run P c s1 t) as [s2 xs]. exact IH.
  Qed.

  Theorem c16_reachable s : reachable P c s -> wfp s /\ inv16 s.
  Proof.
    intros [now0 [ops ->]]. split; [apply run_wfp, init_wfp; exact Hn|].
    apply run_inv16; [apply init_wfp; exact Hn | apply init_inv16].
  Qed.
End C16.
