(* Proofs/RvK3Base.v — basics for the K3' rendezvous proofs: list / upd / count lemmas,
   classification of program counters, the step case-analysis tactic, and the first invariant
   (LockInv: the `core` mutex is held exactly by the thread whose pc is inside a critical section;
   pre-fix pcs are unreachable when the cancel CAS runs under the lock; pcs match roles). *)
From Coq Require Import List NArith Arith Bool Lia.
From Fibre Require Import Common.Conc Chan.RvK3.
Import ListNotations.

Set Implicit Arguments.

(* ------------------------------------------------------------------ basics *)
Lemma upd_eq A (f : nat -> A) t v : upd f t v t = v.
Proof. unfold upd. rewrite Nat.eqb_refl. reflexivity. Qed.

Lemma upd_neq A (f : nat -> A) t v u : u <> t -> upd f t v u = f u.
Proof. intros H. unfold upd. destruct (Nat.eqb_spec u t); [contradiction|reflexivity]. Qed.

Lemma mem_In t l : mem t l = true <-> In t l.
Proof.
  unfold mem. rewrite existsb_exists. split.
  - intros [x [Hx E]]. apply Nat.eqb_eq in E. subst. exact Hx.
  - intros H. exists t. split; [exact H|apply Nat.eqb_refl].
Qed.

Lemma mem_false t l : mem t l = false <-> ~ In t l.
Proof.
  rewrite <- mem_In. destruct (mem t l); split; intros H; try congruence; exfalso; apply H; reflexivity.
Qed.

Lemma rem_In u t l : In u (rem t l) <-> In u l /\ u <> t.
Proof.
  unfold rem. rewrite filter_In. split; intros [H1 H2]; split; auto.
  - intros ->. rewrite Nat.eqb_refl in H2. discriminate.
  - destruct (Nat.eqb_spec u t); [contradiction|reflexivity].
Qed.

Lemma rem_NoDup t l : NoDup l -> NoDup (rem t l).
Proof. apply NoDup_filter. Qed.

Lemma In_app_single A (u t : A) l : In u (l ++ [t]) <-> In u l \/ u = t.
Proof. rewrite in_app_iff. cbn. intuition. Qed.

Lemma NoDup_app_single A (t : A) l : NoDup l -> ~ In t l -> NoDup (l ++ [t]).
Proof.
  induction l as [|a l IH]; intros N H; cbn.
  - constructor; [intros []|constructor].
  - inversion N; subst. constructor.
    + rewrite In_app_single. intros [X|X]; [contradiction|]. apply H. left. auto.
    + apply IH; [assumption|]. intros X. apply H. right. exact X.
Qed.

Lemma NoDup_cons_inv A (a : A) l : NoDup (a :: l) -> ~ In a l /\ NoDup l.
Proof. intros H. inversion H; subst. split; assumption. Qed.

(* ------------------------------------------------------------------ counting threads *)
Lemma cnt_S f n : cnt f (S n) = cnt f n + (if f n then 1 else 0).
Proof.
  unfold cnt. rewrite seq_S, filter_app, app_length. cbn [plus filter].
  destruct (f n); reflexivity.
Qed.

Lemma cnt_ext f g n : (forall u, u < n -> f u = g u) -> cnt f n = cnt g n.
Proof.
  induction n as [|n IH]; intros H; [reflexivity|].
  rewrite !cnt_S, IH by (intros u Hu; apply H; lia). rewrite (H n) by lia. reflexivity.
Qed.

Lemma cnt_dec f g n t :
  t < n -> f t = true -> g t = false -> (forall u, u <> t -> g u = f u) -> cnt f n = S (cnt g n).
Proof.
  induction n as [|n IH]; intros Ht Hf Hg H; [lia|].
  rewrite !cnt_S. destruct (Nat.eq_dec t n) as [->|N].
  - rewrite Hf, Hg. rewrite (@cnt_ext f g n) by (intros u Hu; symmetry; apply H; lia). lia.
  - rewrite (H n) by congruence. rewrite IH by (auto; lia). lia.
Qed.

Lemma cnt_pos f n : cnt f n <> 0 -> exists u, u < n /\ f u = true.
Proof.
  induction n as [|n IH]; intros H; [exfalso; apply H; reflexivity|].
  rewrite cnt_S in H. destruct (f n) eqn:E.
  - exists n. split; [lia|exact E].
  - destruct IH as [u [Hu Hf]]; [lia|]. exists u. split; [lia|exact Hf].
Qed.

Lemma cnt_zero f n u : cnt f n = 0 -> u < n -> f u = false.
Proof.
  induction n as [|n IH]; intros H Hu; [lia|].
  rewrite cnt_S in H. destruct (Nat.eq_dec u n) as [->|N].
  - destruct (f n); [lia|reflexivity].
  - apply IH; lia.
Qed.

Lemma role_lt cfg t b : role cfg t = Some b -> t < length cfg.
Proof.
  unfold role. intros H. destruct (nth_error cfg t) eqn:E; [|discriminate].
  apply nth_error_Some. congruence.
Qed.

(* ------------------------------------------------------------------ classification of pcs *)
(* inside a critical section of `core` *)
Definition holds (p : pc) : bool :=
  match p with
  | SFul _ | SUnl _ _ | RFul _ | RUnl _ _ | CCas | CUnl _ | XUnl | DDisc _ | DUnl _ => true
  | _ => false
  end.

(* pcs of the pre-fix cancel path *)
Definition xpc (p : pc) : bool := match p with XLock | XUnl => true | _ => false end.

Definition spc (p : pc) : bool :=
  match p with
  | Idle | SLock _ | SFul _ | SUnl _ _ | SUnpark _ | SWait | SPark | SFinal
  | DLock | DDisc _ | DUnl _ | DUnpark _ | Done => true
  | _ => false
  end.
Definition rpc (p : pc) : bool :=
  match p with
  | Idle | RLock _ | RFul _ | RUnl _ _ | RUnpark _ _ | RWait | RPark | RFinal _ | RtLoad | RtDec
  | CLock | CCas | CUnl _ | XLock | XUnl
  | DLock | DDisc _ | DUnl _ | DUnpark _ | Done => true
  | _ => false
  end.

(* ------------------------------------------------------------------ step case analysis *)
Ltac fsimpl :=
  cbn [lock sq rq scount rcount wstate cell gen token closed sprog rprog pcs seq handed results bad
       set_lock set_sq set_rq set_scount set_rcount set_wstate set_cell set_gen set_token set_closed
       set_sprog set_rprog set_pc set_seq set_handed log set_bad flag_bad] in *.

Ltac break_match H :=
  match type of H with
  | context [match ?x with _ => _ end] =>
      lazymatch x with
      | context [match _ with _ => _ end] => fail
      | _ => let y := fresh "v" in let E := fresh "E" in
             remember x as y eqn:E in H; symmetry in E; destruct y
      end
  end.

(* H : step true cfg s t c = Some (s', e).  Leaves one goal per (pc, branch) with s' and e
   substituted; Er : role cfg t = Some _, Epc : pcs s t = <pc>, and the branch conditions as
   equations E* in the context. *)
Ltac step_cases H :=
  unfold step in H;
  match type of H with context [role ?cfg ?t] =>
    let y := fresh "v" in remember (role cfg t) as y eqn:Er in H; symmetry in Er;
    destruct y as [[|]|]; [ unfold sstep in H | unfold rstep in H | discriminate H ] end;
  match type of H with context [pcs ?s ?t] =>
    let y := fresh "v" in remember (pcs s t) as y eqn:Epc in H; symmetry in Epc; destruct y end;
  try discriminate H;
  try (unfold dstep in H; match goal with E : pcs _ _ = _ |- _ => rewrite E in H end);
  unfold drop_start, try_lock, ret, s_done, r_done, end_frame, new_frame, cancel_cas in H;
  fsimpl; cbv beta iota zeta in H;
  repeat (break_match H; fsimpl; cbv beta iota zeta in H);
  try discriminate H;
  match type of H with Some (?a, ?b) = Some (?s', ?e) => inversion H; subst s' e; clear H end;
  repeat match goal with
         | E : ?x = _ |- _ =>
             is_var x;
             lazymatch type of x with
             | sk => subst x | rk => subst x | sun => subst x | run_ => subst x | bool => subst x
             | pc => subst x | choice => subst x | list _ => subst x | option _ => subst x
             end
         end.

Ltac split_thr u t :=
  destruct (Nat.eq_dec u t) as [->|?]; [rewrite ?upd_eq | rewrite ?upd_neq by assumption].

(* ------------------------------------------------------------------ LockInv *)
Definition roleok (cfg : list tcfg) (s : st) (u : nat) : Prop :=
  match role cfg u with
  | Some true => spc (pcs s u) = true
  | Some false => rpc (pcs s u) = true
  | None => pcs s u = Idle
  end.

Record LockInv (cfg : list tcfg) (s : st) : Prop := {
  L_hold : forall u, holds (pcs s u) = true <-> lock s = Some u;
  L_x : forall u, xpc (pcs s u) = false;
  L_role : forall u, roleok cfg s u
}.

Lemma LockInv_init cfg : LockInv cfg (init cfg).
Proof.
  split; cbn.
  - intros u. split; intros H; discriminate H.
  - reflexivity.
  - intros u. unfold roleok. cbn. destruct (role cfg u) as [[|]|]; reflexivity.
Qed.

Lemma LockInv_step cfg s t c s' e :
  LockInv cfg s -> step true cfg s t c = Some (s', e) -> LockInv cfg s'.
Proof.
  intros [L1 L2 L3] H. pose proof (L1 t) as Lt. pose proof (L2 t) as Xt.
  step_cases H; rewrite Epc in Lt, Xt; cbn [holds xpc] in Lt, Xt; try discriminate Xt.
  all: split; fsimpl;
    [ intros u; pose proof (L1 u) as Lu; split_thr u t; cbn [holds];
      try match goal with E : lock _ = _ |- _ => rewrite E in * end;
      intuition congruence
    | intros u; split_thr u t; [reflexivity | apply L2]
    | intros u; pose proof (L3 u) as Ru; unfold roleok in *; fsimpl; split_thr u t;
      [ rewrite Er in *; reflexivity | exact Ru ] ].
Qed.
