(* Proofs/HRwNode.v — HybridRwLock: waiter-node invariants RInvE. *)
From Coq Require Import List NArith Arith Bool Lia.
From Fibre Require Import Common.Conc Sync.HMutex Sync.HRwLock Proofs.HMutexBase Proofs.HRwBase Proofs.HRwGuard Proofs.HRwQueue.
Import ListNotations.

(* ---- waiter nodes: a linked node without a handle has been marked WOKEN; the handle registered in a
   linked node is its owner's *)
Definition rinsync (p : rpc) : bool :=
  match p with
  | RTALoad (RASpin _ _) | RTACas (RASpin _ _) _ _ _ | RYield _ _ | RSpinNext _ _
  | RLLSwap (RLQ (RQSync _ _)) | RLLLoad (RLQ (RQSync _ _)) | RLLSpin (RLQ (RQSync _ _))
  | RQRearm (RQSync _ _) | RQFor (RQSync _ _) | RQLoad (RQSync _ _) | RQCas (RQSync _ _) _ _ _
  | RFix1 (RFQ (RQSync _ _)) | RFix2 (RFQ (RQSync _ _)) | RQUnl (RQSync _ _) _
  | RPLoad _ | RPark _
  | RLLSwap (RLX (RQSync _ _)) | RLLLoad (RLX (RQSync _ _)) | RLLSpin (RLX (RQSync _ _))
  | RFix1 (RFX (RQSync _ _)) | RFix2 (RFX (RQSync _ _)) | RXUnl (RQSync _ _) => true
  | _ => false
  end.

Definition rkindok (k : wk) (p : rpc) (f : option (rw * bool)) : Prop :=
  match k with
  | WThread => rinsync p = true
  | WBlock => exists kk, f = Some (kk, true)
  | WCount => exists kk, f = Some (kk, false)
  end.

Definition RInvE s :=
  (forall h b, In (h, b) (rqueue s) -> rnarm s h = None -> rnwk s h = true)
  /\ (forall h b k, In (h, b) (rqueue s) -> rnarm s h = Some k -> rkindok k (rpcs s h) (rfut s h)).

Lemma rflush_narm s t ws : rnarm (rflush s t ws) = rnarm s.
Proof. revert s. induction ws as [|[k h] r IH]; intros s; cbn [rflush]; [reflexivity|]. destruct k; try apply IH; reflexivity. Qed.

Lemma RInvE1_step s t c s' e :
  RInvE s -> rwstep s t c = Some (s', e) ->
  forall h b, In (h, b) (rqueue s') -> rnarm s' h = None -> rnwk s' h = true.
Proof.
  intros [E1 E2] H.
  rstep_cases H; rsimpl.
  all: try solve [ exact E1 ].
  all: try solve [ intros hh bb Hin; apply qrem_In in Hin; destruct Hin as [Hin _]; eapply E1; exact Hin ].
  all: try solve [ rewrite rflush_queue, rflush_narm, rflush_nwk; rsimpl; exact E1 ].
  all: try match goal with E : rqueue _ = [] |- context [RWSweep] => idtac | E : rqueue _ = [] |- _ => rewrite <- E end.
  all: try match goal with E : rqueue _ = _ :: _ |- context [RWSweep] => idtac | E : rqueue _ = _ :: _ |- _ => rewrite <- E end.
  all: try solve [ exact E1 ].
  (* re-arm *)
  all: try solve [ intros hh bb Hin; split_thr hh t; [ discriminate
                   | try (apply In_app1 in Hin; destruct Hin as [Hin|Hin]; [|injection Hin; intros; congruence]); eapply E1; exact Hin ] ].
  (* mark / sweep *)
  all: try solve [ intros hh bb Hin; match goal with |- upd _ ?n _ _ = _ -> _ => destruct (Nat.eq_dec hh n) as [->|Hn] end;
                   [ rewrite !upd_eq; reflexivity
                   | rewrite !upd_neq by assumption; eapply E1;
                     first [ exact Hin | match goal with E : rqueue _ = _ :: _ |- _ => rewrite E; right; exact Hin end ] ] ].
Qed.

Lemma RInvE2_step s t c s' e :
  RInvP s -> RInvC s -> RInvE s -> rwstep s t c = Some (s', e) ->
  forall h b k, In (h, b) (rqueue s') -> rnarm s' h = Some k -> rkindok k (rpcs s' h) (rfut s' h).
Proof.
  intros P (C1 & C2 & C3) [E1 E2] H.
  pose proof (E2 t) as E2t. pose proof (C2 t) as Ct. pose proof (P t) as Pt. unfold rlinkok in Ct.
  rstep_cases H; rewrite Epc in E2t, Ct, Pt; cbn [rlk flk rfutok] in Ct, Pt; rsimpl.
  all: try match goal with E : rqueue _ = [] |- context [RWSweep] => idtac | E : rqueue _ = [] |- _ => rewrite <- E end.
  all: try match goal with E : rqueue _ = _ :: _ |- context [RWSweep] => idtac | E : rqueue _ = _ :: _ |- _ => rewrite <- E end.
  all: try solve [ rewrite rflush_queue, rflush_narm, rflush_fut; rsimpl; intros hh bb kk Hin Hk;
                   match goal with |- context [rflush ?s0 ?tt ?ws] =>
                     destruct (Nat.eq_dec hh tt) as [->|Hne];
                     [ specialize (E2t bb kk Hin Hk); destruct kk; cbn [rkindok rinsync] in *; try discriminate E2t; assumption
                     | rewrite rflush_pcs by assumption; rsimpl; eapply E2; eassumption ] end ].
  all: intros hh bb kk Hin Hk.
  all: try (apply qrem_In in Hin; destruct Hin as [Hin Hne]).
  all: try solve [ split_thr hh t; [ try contradiction;
                     specialize (E2t bb kk Hin Hk); destruct kk; cbn [rkindok rinsync] in *; auto; try congruence;
                     try (lazymatch type of E2t with ex _ => destruct E2t as [kx E2t] end; rewrite E2t in *; cbn [flk] in *; eauto; try congruence)
                   | eapply E2; eassumption ] ].
  (* the stepping thread's node is not linked *)
  all: try solve [ split_thr hh t; [ | eapply E2; eassumption ]; exfalso;
                   repeat match goal with x : rw |- _ => destruct x | x : bool |- _ => destruct x end;
                   cbn [rlk flk is_wr andb orb negb] in *;
                   try (destruct (rfut s t) as [[[|] [|]]|] eqn:F); try (destruct (rnwk s t) eqn:FN);
                   cbn [rlk flk is_wr andb orb negb] in *;
                   repeat match goal with X : _ \/ _ |- _ => destruct X | X : exists _, _ |- _ => destruct X end;
                   try congruence; try discriminate; eapply Ct; eauto ].
  (* PollNext: the future's node gets allocated *)
  1-4: (split_thr hh t; [ | eapply E2; eassumption ];
        destruct Pt as [Pt|Pt]; rewrite Pt in *; cbn [flk] in Ct;
        [ exfalso; eapply Ct; eauto
        | specialize (E2t bb kk Hin Hk); destruct kk; cbn [rkindok rinsync] in *; try discriminate E2t;
          destruct E2t as [kx E2t]; injection E2t as -> ->; eauto ]).
  (* re-arm *)
  1-5: (try (apply In_app1 in Hin); revert Hk; split_thr hh t; intros Hk;
        [ injection Hk as <-; try (destruct blk); cbn [rkindok rinsync rkind_of]; rewrite ?Pt; eauto
        | eapply E2; [ | eassumption ]; first [ eassumption | destruct Hin as [Hin|Hin]; [exact Hin|injection Hin; intros; congruence] ] ]).
  all: (revert Hk; destruct (Nat.eq_dec hh n) as [->|Hn];
        [ rewrite upd_eq; discriminate | rewrite upd_neq by assumption; intros Hk ];
        assert (Hin' : In (hh, bb) (rqueue s))
          by (first [ exact Hin | match goal with E : rqueue _ = _ :: _ |- _ => rewrite E; right; exact Hin end ]);
        split_thr hh t;
        [ specialize (E2t bb kk Hin' Hk); destruct kk; cbn [rkindok rinsync] in *; try discriminate E2t; assumption
        | eapply E2; eassumption ]).
Qed.

Lemma RInvE_step s t c s' e :
  RInvP s -> RInvC s -> RInvE s -> rwstep s t c = Some (s', e) -> RInvE s'.
Proof.
  intros P C E H. split.
  - eapply RInvE1_step; eassumption.
  - eapply RInvE2_step; eassumption.
Qed.
