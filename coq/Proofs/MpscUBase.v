(* Proofs/MpscUBase.v — proof infrastructure for the unbounded-MPSC K2 model: symbolic execution
   tactics and the structural invariant GS (same scheme as MpscBBase.v). *)
From Fibre Require Import Common.Base Chan.MpscU.
From Coq Require Import ZifyBool ZifyNat ZifyN.
Ltac Zify.zify_post_hook ::= Z.div_mod_to_equations.

(* ------------------------------------------------------------------ *)
(** * generic helpers *)

Lemma len_app {A} (a b : list A) : len (a ++ b) = len a + len b.
Proof. unfold len. rewrite app_length. lia. Qed.

Lemma len_nil {A} : len (@nil A) = 0.
Proof. reflexivity. Qed.

Lemma len_cons {A} (x : A) l : len (x :: l) = 1 + len l.
Proof. unfold len. cbn [length]. lia. Qed.

Lemma len_firstn {A} n (l : list A) : len (firstn n l) = N.min (N.of_nat n) (len l).
Proof. unfold len. rewrite firstn_length. lia. Qed.

Ltac dm :=
  match goal with
  | |- context [match ?x with _ => _ end] => destruct x eqn:?
  end.

Ltac dmh :=
  match goal with
  | H : context [match ?x with _ => _ end] |- _ => destruct x eqn:?
  end.

(** the fields [deqn] can change: q rcv *)
Definition deq_frame (s s' : st) : Prop := s' = set_rcv (set_q s (q s')) (rcv s').

Lemma deq_frame_refl s : deq_frame s s.
Proof. unfold deq_frame. destruct s; reflexivity. Qed.

Lemma deq_frame_trans a b c : deq_frame a b -> deq_frame b c -> deq_frame a c.
Proof. unfold deq_frame. intros H1 H2. rewrite H2. rewrite H1. reflexivity. Qed.

Lemma deq1_frame s : deq_frame s (fst (deq1 s)).
Proof. unfold deq_frame, deq1. destruct (q s); destruct s; reflexivity. Qed.

Lemma deqn_frame n : forall s, deq_frame s (fst (deqn n s)).
Proof.
  induction n as [|n IH]; intros s; cbn [deqn]; [apply deq_frame_refl|].
  pose proof (deq1_frame s) as H1.
  destruct (deq1 s) as [s1 [v|]] eqn:E; cbn [fst] in *; [|exact H1].
  specialize (IH s1). destruct (deqn n s1) as [s2 vs] eqn:E2. cbn [fst] in *.
  eapply deq_frame_trans; eauto.
Qed.

Lemma deq1_q s :
  match deq1 s with
  | (s1, Some v) => q s = v :: q s1 /\ rcv s1 = rcv s ++ [v]
  | (s1, None) => q s = [] /\ s1 = s
  end.
Proof. unfold deq1. destruct (q s) as [|v r] eqn:E; cbn; auto. Qed.

Lemma deqn_q n : forall s,
  q s = snd (deqn n s) ++ q (fst (deqn n s)) /\ rcv (fst (deqn n s)) = rcv s ++ snd (deqn n s).
Proof.
  induction n as [|n IH]; intros s; cbn [deqn fst snd app].
  - rewrite app_nil_r. auto.
  - pose proof (deq1_q s) as H1. destruct (deq1 s) as [s1 [v|]] eqn:E.
    + destruct H1 as [Hq Hr]. specialize (IH s1). destruct (deqn n s1) as [s2 vs] eqn:E2.
      cbn [fst snd] in *. destruct IH as [A B]. rewrite Hq, B, Hr, A, <- app_assoc. auto.
    + destruct H1 as [Hq ->]. cbn [fst snd app]. rewrite app_nil_r. auto.
Qed.

Lemma deqn_nil n s : snd (deqn n s) = [] -> n <> O -> q s = [] /\ fst (deqn n s) = s.
Proof.
  destruct n as [|n]; [congruence|]. intros H _. cbn [deqn] in *.
  pose proof (deq1_q s) as H1. destruct (deq1 s) as [s1 [v|]] eqn:E.
  - destruct (deqn n s1); discriminate.
  - cbn [fst]. exact H1.
Qed.

Lemma deqn_nil' m s s0 : deqn (N.to_nat m) s = (s0, []) -> (m =? 0) = false -> q s = [] /\ s0 = s.
Proof.
  intros E H. apply N.eqb_neq in H.
  destruct (deqn_nil (N.to_nat m) s) as [A B]; [rewrite E; reflexivity | lia |].
  rewrite E in B. cbn [fst] in B. auto.
Qed.

(* ------------------------------------------------------------------ *)
(** * symbolic execution of one step *)

Ltac unf :=
  unfold do_try_send, do_send, do_send_b, do_try_recv, do_recv, do_try_recv_b, do_recv_b,
    try_recv_core, recv_b_core, do_close, do_drop_h, do_clone, do_to_async, do_to_sync, obs,
    do_mk_send, do_mk_recv, do_poll, do_drop_f, do_poll_next, lookup_free,
    poll_recv_core, poll_recv_b_core, close_h, destroy, pushl, deq1,
    notify_receiver, put_h, put_f, note_multi, use, giveback, dropv, wake in *.

Ltac cb := cbn [q scount rdrop rw hs fs wk used acc rcv back drp qdrp multi evw evd fixcl
  set_q set_scount set_rdrop set_rw set_hs set_fs set_wk set_used set_acc set_rcv set_back set_drp
  set_qdrp set_multi set_evw set_evd set_fixcl fst snd is_nil].
Ltac cbh := cbn [q scount rdrop rw hs fs wk used acc rcv back drp qdrp multi evw evd fixcl
  set_q set_scount set_rdrop set_rw set_hs set_fs set_wk set_used set_acc set_rcv set_back set_drp
  set_qdrp set_multi set_evw set_evd set_fixcl fst snd is_nil] in *.

Ltac dm_deqn :=
  match goal with
  | |- context [match deqn ?n ?s with _ => _ end] =>
      lazymatch s with
      | context [match _ with _ => _ end] => fail
      | _ =>
        let F := fresh "F" in let Q := fresh "Q" in let E := fresh "E" in
        pose proof (deqn_frame n s) as F; pose proof (deqn_q n s) as Q;
        destruct (deqn n s) as [? ?] eqn:E; cbn [fst snd] in F, Q; unfold deq_frame in F;
        rewrite F; cb
      end
  end.

Ltac dm_any :=
  match goal with
  | |- context [match ?x with _ => _ end] =>
      lazymatch x with
      | context [match _ with _ => _ end] => fail
      | deqn _ _ => fail
      | _ => destruct x eqn:?
      end
  end.

Ltac symex := cbn [exec clear_ev]; unf; repeat (cb; first [dm_deqn | dm_any]); cb.

Ltac lens := rewrite ?len_app, ?len_cons, ?len_nil, ?len_firstn in *.

(* ------------------------------------------------------------------ *)
(** * association-list facts *)

Lemma aget_aset_eq {A} k (v : A) l : aget k (aset k v l) = Some v.
Proof. unfold aset. cbn [aget]. rewrite N.eqb_refl. reflexivity. Qed.

Lemma aget_adel_eq {A} k (l : list (N * A)) : aget k (adel k l) = None.
Proof.
  induction l as [|[k' v] t IH]; cbn [adel aget]; [reflexivity|].
  destruct (N.eqb_spec k k') as [->|Hn]; [exact IH|].
  cbn [aget]. destruct (N.eqb_spec k k'); [congruence | exact IH].
Qed.

Lemma aget_adel_neq {A} k k' (l : list (N * A)) : k' <> k -> aget k' (adel k l) = aget k' l.
Proof.
  intros Hne. induction l as [|[k2 v] t IH]; cbn [adel aget]; [reflexivity|].
  destruct (N.eqb_spec k k2) as [->|Hn].
  - destruct (N.eqb_spec k' k2); [congruence | exact IH].
  - cbn [aget]. destruct (N.eqb_spec k' k2); [reflexivity | exact IH].
Qed.

Lemma aget_aset_neq {A} k k' (v : A) l : k' <> k -> aget k' (aset k v l) = aget k' l.
Proof.
  intros Hne. unfold aset. cbn [aget]. destruct (N.eqb_spec k' k); [congruence|].
  apply aget_adel_neq. exact Hne.
Qed.

Lemma aget_None_keys {A} k (l : list (N * A)) : aget k l = None <-> ~ In k (keysN l).
Proof.
  induction l as [|[k' v] t IH]; cbn [aget keysN map fst]; [tauto|].
  destruct (N.eqb_spec k k') as [->|Hn].
  - split; [discriminate | intros H; exfalso; apply H; left; reflexivity].
  - rewrite IH. unfold keysN. split; [intros H [E|I]; [congruence|auto] | intros H I; apply H; right; exact I].
Qed.

Lemma keys_adel {A} k x (l : list (N * A)) : In x (keysN (adel k l)) <-> In x (keysN l) /\ x <> k.
Proof.
  unfold keysN. induction l as [|[k' v] t IH]; cbn [adel map fst In]; [tauto|].
  destruct (N.eqb_spec k k') as [->|Hn]; cbn [map fst In]; rewrite IH.
  - split; [intros [I B]; split; [right; exact I | exact B]|].
    intros [[E|I] B]; [congruence | split; assumption].
  - split.
    + intros [E|[I B]]; [subst; split; [left; reflexivity | congruence] | split; [right; exact I | exact B]].
    + intros [[E|I] B]; [left; exact E | right; split; assumption].
Qed.

Lemma NoDup_adel {A} k (l : list (N * A)) : NoDup (keysN l) -> NoDup (keysN (adel k l)).
Proof.
  induction l as [|[k' v] t IH]; cbn [adel keysN map fst]; intros H; [constructor|].
  inversion H as [|? ? Hni Hnd]; subst.
  destruct (N.eqb_spec k k') as [->|Hn]; [apply IH; exact Hnd|].
  cbn [keysN map fst]. constructor; [|apply IH; exact Hnd].
  intros Hi. apply keys_adel in Hi. destruct Hi as [Hi _]. contradiction.
Qed.

Lemma NoDup_aset {A} k (v : A) l : NoDup (keysN l) -> NoDup (keysN (aset k v l)).
Proof.
  intros H. unfold aset. cbn [keysN map fst]. constructor; [|apply NoDup_adel; exact H].
  intros Hi. apply keys_adel in Hi. destruct Hi as [_ Hi]. congruence.
Qed.

Lemma adel_id {A} k (l : list (N * A)) : aget k l = None -> adel k l = l.
Proof.
  induction l as [|[k' v] t IH]; cbn [adel aget]; [reflexivity|].
  destruct (N.eqb_spec k k'); [discriminate|]. intros H. f_equal. apply IH. exact H.
Qed.

Lemma aget_some_nonempty {A} k (l : list (N * A)) v : aget k l = Some v -> l <> [].
Proof. destruct l; [discriminate | congruence]. Qed.

(* ------------------------------------------------------------------ *)
(** * structural invariant GS *)

Lemma aget_In {A} k (l : list (N * A)) v : aget k l = Some v -> In (k, v) l.
Proof.
  induction l as [|[k' v'] t IH]; cbn [aget]; [discriminate|].
  destruct (N.eqb_spec k k'); [intros E; inversion E; subst; left; reflexivity | right; auto].
Qed.

Lemma has_futs_false h s f fr : has_futs h s = false -> aget f (fs s) = Some fr -> fh fr <> h.
Proof.
  unfold has_futs. intros H G E. apply aget_In in G.
  assert (existsb (fun p => fh (snd p) =? h) (fs s) = true); [|congruence].
  apply existsb_exists. exists (f, fr). split; [assumption|]. cbn. apply N.eqb_eq. exact E.
Qed.

Ltac ag :=
  repeat match goal with
  | H : context [aget ?k (aset ?k _ _)] |- _ => rewrite aget_aset_eq in H
  | |- context [aget ?k (aset ?k _ _)] => rewrite aget_aset_eq
  | H : context [aget ?k (adel ?k _)] |- _ => rewrite aget_adel_eq in H
  | |- context [aget ?k (adel ?k _)] => rewrite aget_adel_eq
  | H : ?a <> ?b |- context [aget ?a (aset ?b _ _)] => rewrite (aget_aset_neq b a) by exact H
  | H : ?a <> ?b |- context [aget ?a (adel ?b _)] => rewrite (aget_adel_neq b a) by exact H
  | H : ?a <> ?b, H2 : context [aget ?a (aset ?b _ _)] |- _ => rewrite (aget_aset_neq b a) in H2 by exact H
  | H : ?a <> ?b, H2 : context [aget ?a (adel ?b _)] |- _ => rewrite (aget_adel_neq b a) in H2 by exact H
  | H : context [aget ?a (aset ?b _ _)] |- _ => destruct (N.eq_dec a b); [subst|]
  | H : context [aget ?a (adel ?b _)] |- _ => destruct (N.eq_dec a b); [subst|]
  | |- context [aget ?a (aset ?b _ _)] => destruct (N.eq_dec a b); [subst|]
  | |- context [aget ?a (adel ?b _)] => destruct (N.eq_dec a b); [subst|]
  end.

Ltac bools :=
  repeat match goal with
  | H : _ && _ = true |- _ => apply andb_true_iff in H; destruct H
  | H : _ || _ = false |- _ => apply orb_false_iff in H; destruct H
  | H : negb _ = true |- _ => apply negb_true_iff in H
  | H : negb _ = false |- _ => apply negb_false_iff in H
  end.

Ltac somes :=
  repeat match goal with
  | H : Some _ = Some _ |- _ => inversion H; subst; clear H
  | H : Some _ = None |- _ => discriminate H
  | H : None = Some _ |- _ => discriminate H
  | H1 : ?x = Some _, H2 : ?x = Some _ |- _ => rewrite H1 in H2
  | H1 : ?x = Some _, H2 : ?x = None |- _ => rewrite H1 in H2
  end.

Lemma exec_fut_ok s o : GS s -> fut_ok (fst (exec s o)).
Proof.
  intros (N1&N2&FO&RO&SC&RL). destruct o; symex; try assumption.
  all: unfold fut_ok in *; cb; intros f1 fr1 Hg.
  all: repeat match goal with
       | H : aget _ (fs _) = Some ?fr |- _ =>
           lazymatch goal with
           | K : aget (fh fr) (hs _) = Some _ /\ _ |- _ => fail
           | _ => let r0 := fresh "r" in let A := fresh "A" in
                  destruct (FO _ _ H) as (r0 & A)
           end
       end.
  all: ag; somes; bools.
  all: repeat match goal with
       | H : aget _ (fs _) = Some ?fr |- _ =>
           lazymatch goal with
           | K : aget (fh fr) (hs _) = Some _ /\ _ |- _ => fail
           | _ => let r0 := fresh "r" in let A := fresh "A" in
                  destruct (FO _ _ H) as (r0 & A)
           end
       end.
  all: repeat match goal with H : _ /\ _ |- _ => destruct H end.
  all: try match goal with
       | H1 : has_futs (fh ?fr) _ = false, H2 : aget _ (fs _) = Some ?fr |- _ =>
           exfalso; exact (has_futs_false _ _ _ _ H1 H2 eq_refl)
       end.
  all: repeat match goal with H : fk _ = _ |- _ => rewrite H in * end.
  all: cbn [fh fk fpend is_recv_kind negb] in *.
  all: ag; somes.
  all: try solve [eexists; split; [reflexivity || eassumption|]; cbn [with_closed with_async with_reg htx hasync hclosed]; split; congruence].
Qed.

Lemma adel_aset {A} k (v : A) l : adel k (aset k v l) = adel k l.
Proof.
  unfold aset. cbn [adel]. rewrite N.eqb_refl.
  induction l as [|[k' v'] t IH]; cbn [adel]; [reflexivity|].
  destruct (N.eqb_spec k k') as [->|Hn]; [exact IH|].
  cbn [adel]. destruct (N.eqb_spec k k'); [congruence|]. f_equal. exact IH.
Qed.

Lemma open_tx_aset h r l : open_tx (aset h r l) = (if isopen r then 1 else 0) + open_tx (adel h l).
Proof.
  unfold open_tx, aset. cbn [filter snd]. destruct (isopen r); rewrite ?len_cons; lia.
Qed.

Lemma open_tx_adel h l : NoDup (keysN l) ->
  open_tx l = open_tx (adel h l) + match aget h l with Some r => if isopen r then 1 else 0 | None => 0 end.
Proof.
  unfold open_tx. induction l as [|[k v] t IH]; cbn [keysN map fst adel aget filter snd]; intros H; [reflexivity|].
  inversion H as [|? ? Hni Hnd]; subst.
  destruct (N.eqb_spec h k) as [->|Hn].
  - assert (E : aget k t = None) by (apply aget_None_keys; exact Hni).
    rewrite (adel_id k t E). destruct (isopen v); rewrite ?len_cons; lia.
  - cbn [filter snd]. specialize (IH Hnd). destruct (isopen v); rewrite ?len_cons; lia.
Qed.

Lemma exec_nodup s o : GS s -> NoDup (keysN (hs (fst (exec s o)))) /\ NoDup (keysN (fs (fst (exec s o)))).
Proof.
  intros (N1&N2&FO&RO&SC&RL). destruct o; symex; try (split; assumption).
  all: split; auto using NoDup_aset, NoDup_adel.
Qed.

Lemma exec_rx_one s o : GS s -> rx_one (fst (exec s o)).
Proof.
  intros (N1&N2&FO&RO&SC&RL). destruct o; symex; try assumption.
  all: unfold rx_one in *; cb; intros h1 r1 Hg Hx; ag; somes; bools.
  all: try solve [eapply RO; eauto].
  all: cbn [with_closed with_async with_reg htx] in *; try congruence.
  all: try solve [eapply RO; eauto].
Qed.

Lemma exec_scount s o : GS s -> scount (fst (exec s o)) = open_tx (hs (fst (exec s o))).
Proof.
  intros (N1&N2&FO&RO&SC&RL). destruct o; symex; try assumption.
  all: rewrite ?adel_aset, ?open_tx_aset.
  all: try match goal with H : aget ?h (hs ?s) = Some _ |- context [adel ?h (hs ?s)] =>
         let E := fresh "E" in pose proof (open_tx_adel h (hs s) N1) as E; rewrite H in E end.
  all: try match goal with H : aget ?h (hs ?s) = None |- context [adel ?h (hs ?s)] =>
         rewrite (adel_id h (hs s) H) end.
  all: bools; unfold isopen in *; cbn [with_closed with_async with_reg htx hclosed] in *.
  all: repeat match goal with H : htx _ = _ |- _ => rewrite H in * | H : hclosed _ = _ |- _ => rewrite H in * end.
  all: rewrite ?andb_false_r, ?andb_true_r in *; cbn [andb negb] in *; try lia.
Qed.

Lemma exec_rx_live s o : GS s -> rx_live (fst (exec s o)).
Proof.
  intros (N1&N2&FO&RO&SC&RL). destruct o; symex; try assumption.
  all: unfold rx_live in *; cb.
  all: ag; somes; bools.
  all: try exact RL.
  all: cbn [with_closed with_async with_reg htx hclosed hasync] in *.
  all: split;
    [ intros E; try discriminate E; try (apply RL in E; destruct E as (r'&A&B&C)); somes;
      try congruence;
      try (eexists; split; [reflexivity || eassumption|]; cbn [with_closed with_async with_reg htx hclosed]; split; congruence)
    | intros (r'&A&B&C); somes; cbn [with_closed with_async with_reg htx hclosed] in *; try congruence;
      try (apply RL; eexists; split; [eassumption|]; split; congruence) ].
  all: exfalso; match goal with
       | H : aget ?h (hs _) = Some ?r, Hx : htx ?r = false, Hn : 1 <> ?h |- _ =>
           apply Hn; symmetry; exact (RO _ _ H Hx)
       end.
Qed.

Lemma exec_GS s o : GS s -> GS (fst (exec s o)).
Proof.
  intros G. pose proof (exec_nodup s o G) as [A B].
  repeat split; auto using exec_fut_ok, exec_rx_one, exec_scount.
  - apply (exec_rx_live s o G).
  - apply (exec_rx_live s o G).
Qed.

