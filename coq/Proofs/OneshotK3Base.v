(* Proofs/OneshotK3Base.v — basics for the K3 oneshot proofs: upd / counting lemmas, classification of
   program counters, inversion of `rdispatch`, and the step case-analysis tactics. *)
From Coq Require Import List Arith Bool Lia.
From Fibre Require Import Common.Conc Chan.OneshotK3.
Import ListNotations.


(* ------------------------------------------------------------------ basics *)
Lemma upd_eq A (f : nat -> A) t v : upd f t v t = v.
Proof. unfold upd. rewrite Nat.eqb_refl. reflexivity. Qed.

Lemma upd_neq A (f : nat -> A) t v u : u <> t -> upd f t v u = f u.
Proof. intros H. unfold upd. destruct (Nat.eqb_spec u t); [contradiction|reflexivity]. Qed.

(* number of t in [1..n] with f t = true *)
Fixpoint cntf (f : nat -> bool) (n : nat) : nat :=
  match n with
  | 0 => 0
  | S k => (if f (S k) then 1 else 0) + cntf f k
  end.

Lemma cntf_ext f g n : (forall t, 1 <= t <= n -> f t = g t) -> cntf f n = cntf g n.
Proof.
  induction n as [|k IH]; intros H; cbn [cntf]; [reflexivity|].
  rewrite (H (S k)) by lia. rewrite IH; [reflexivity|]. intros t Ht. apply H. lia.
Qed.

Lemma cntf_dec f g n t :
  1 <= t <= n -> f t = true -> g t = false -> (forall u, u <> t -> g u = f u) ->
  cntf f n = S (cntf g n).
Proof.
  induction n as [|k IH]; intros Ht Hf Hg Ho; [lia|]. cbn [cntf].
  destruct (Nat.eq_dec t (S k)) as [->|N].
  - rewrite Hf, Hg. cbn. f_equal. apply cntf_ext. intros u Hu. symmetry. apply Ho. lia.
  - rewrite (Ho (S k)) by lia. rewrite (IH ltac:(lia) Hf Hg Ho). lia.
Qed.

Lemma cntf_zero f n : cntf f n = 0 -> forall t, 1 <= t <= n -> f t = false.
Proof.
  induction n as [|k IH]; intros H t Ht; [lia|]. cbn [cntf] in H.
  destruct (Nat.eq_dec t (S k)) as [->|N].
  - destruct (f (S k)); [cbn in H; lia|reflexivity].
  - apply IH; [|lia]. destruct (f (S k)); cbn in H; lia.
Qed.

Lemma cntf_pos f n t : 1 <= t <= n -> f t = true -> 1 <= cntf f n.
Proof.
  intros Ht Hf. destruct (cntf f n) eqn:E; [|lia].
  rewrite (cntf_zero f n E t Ht) in Hf. discriminate.
Qed.

Lemma cntf_ex f n : 1 <= cntf f n -> exists t, 1 <= t <= n /\ f t = true.
Proof.
  induction n as [|k IH]; cbn [cntf]; intros H; [lia|].
  destruct (f (S k)) eqn:E.
  - exists (S k). split; [lia|exact E].
  - destruct (IH ltac:(cbn in H; lia)) as [t [Ht Hf]]. exists t. split; [lia|exact Hf].
Qed.

(* two distinct witnesses when the count is at least 2 *)
Lemma cntf_ex_other f n t : 2 <= cntf f n -> exists u, u <> t /\ 1 <= u <= n /\ f u = true.
Proof.
  intros H.
  destruct (f t) eqn:Ft; [destruct (le_lt_dec 1 t) as [L|L]; [destruct (le_lt_dec t n) as [L2|L2]|]|].
  - pose (g := fun u => if Nat.eqb u t then false else f u).
    assert (Gt : g t = false) by (unfold g; rewrite Nat.eqb_refl; reflexivity).
    assert (Go : forall u, u <> t -> g u = f u).
    { intros u Hu. unfold g. destruct (Nat.eqb_spec u t); [contradiction|reflexivity]. }
    assert (E := cntf_dec f g n t ltac:(lia) Ft Gt Go).
    destruct (cntf_ex g n ltac:(lia)) as [u [Hu Fu]].
    exists u. unfold g in Fu. destruct (Nat.eqb_spec u t); [discriminate|]. auto.
  - destruct (cntf_ex f n ltac:(lia)) as [u [Hu Fu]]. exists u. split; [lia|auto].
  - destruct (cntf_ex f n ltac:(lia)) as [u [Hu Fu]]. exists u. split; [lia|auto].
  - destruct (cntf_ex f n ltac:(lia)) as [u [Hu Fu]]. exists u. split; [congruence|auto].
Qed.

Lemma cntf_upd_same A (F : A -> bool) (f : nat -> A) t v n :
  F v = F (f t) -> cntf (fun u => F (upd f t v u)) n = cntf (fun u => F (f u)) n.
Proof.
  intros H. apply cntf_ext. intros u _. unfold upd. destruct (Nat.eqb_spec u t) as [->|]; [exact H|reflexivity].
Qed.

Lemma cntf_upd_dec A (F : A -> bool) (f : nat -> A) t v n :
  1 <= t <= n -> F (f t) = true -> F v = false ->
  cntf (fun u => F (f u)) n = S (cntf (fun u => F (upd f t v u)) n).
Proof.
  intros Ht H1 H2. apply cntf_dec with (t := t); auto.
  - rewrite upd_eq. exact H2.
  - intros u Hu. rewrite upd_neq by exact Hu. reflexivity.
Qed.

(* ------------------------------------------------------------------ classification of pcs *)
Definition pre_fsub (p : spc_t) : bool :=
  match p with
  | SIdle | SRd | SLoad | SCas | SRd2 | SBack | SLock | SSwap | SUnlock | WTake WSend | WUnpark WSend | DFsub => true
  | _ => false
  end.
Definition writer (p : spc_t) : bool := match p with SRd2 | SBack | SLock | SSwap => true | _ => false end.
Definition srel (p : spc_t) : bool := match p with SShLoad | SDone => true | _ => false end.
Definition rrel (p : rpc_t) : bool := match p with RShLoad | RDone => true | _ => false end.
Definition prewrite (p : spc_t) : bool :=
  match p with SIdle | SRd | SLoad | SCas | SRd2 | SBack | SLock => true | _ => false end.
Definition okzone (p : spc_t) : bool :=
  match p with SSwap | WTake WSend | WUnpark WSend | SUnlock => true | _ => false end.
Definition lastz (p : spc_t) : bool :=
  match p with
  | DCas | DLoad | DRd | DCas2 | DLock | DUnlock | DLoadR
  | WTake WClosed | WTake WLate | WUnpark WClosed | WUnpark WLate => true
  | _ => false
  end.
Definition rtaker (p : rpc_t) : bool := match p with TLock _ | CLock _ => true | _ => false end.
Definition rtakz (p : rpc_t) : bool := match p with TLock _ | CLock _ | TNone _ => true | _ => false end.
Definition rcl (p : rpc_t) : bool :=
  match p with CStore false | CCas1 false | CCas2 false | CLock false | CUnlock false => true | _ => false end.
Definition rfin (p : rpc_t) : bool :=
  match p with CStore true | CCas1 true | CCas2 true | CLock true | CUnlock true | RArc | RShLoad | RDone => true | _ => false end.
Definition ropen (p : rpc_t) : bool :=
  match p with
  | TLoad _ | TCas _ | TLock _ | TNone _ | TUnlock _ _ | TFLoad _ | TFCnt _ | TCnt _ | TClose _
  | PLoad | PCntA | PCntB | PClose | PReg | PCntC | BChk | BPark => true
  | _ => false
  end.

Definition is_local (r : rres) : bool := match r with RDiscL | RFDiscL | RCloseErr => true | _ => false end.

Lemma dseen_app_local l l' : forallb is_local l' = true -> existsb is_disc (l ++ l') = existsb is_disc l.
Proof.
  intros H. rewrite existsb_app. replace (existsb is_disc l') with false; [apply orb_false_r|].
  induction l' as [|r t IH]; [reflexivity|]. cbn in *. apply andb_prop in H. destruct H as [H1 H2].
  rewrite <- IH by exact H2. destruct r; cbn in *; try reflexivity; discriminate.
Qed.

Lemma vals_app_local l l' : forallb is_local l' = true -> flat_map rres_val (l ++ l') = flat_map rres_val l.
Proof.
  intros H. rewrite flat_map_app. replace (flat_map rres_val l') with (@nil nat); [apply app_nil_r|].
  induction l' as [|r t IH]; [reflexivity|]. cbn in *. apply andb_prop in H. destruct H as [H1 H2].
  rewrite <- IH by exact H2. destruct r; cbn in *; try reflexivity; discriminate.
Qed.

(* ------------------------------------------------------------------ inversion of rdispatch *)
Definition rstart (C : cfg) (s : st) (p : list rop) : option (st * ev) :=
  match p with
  | [] => do_cstore (set_rprog s []) true
  | RTry :: r => do_tload C (set_rprog s r) CT
  | RRecv :: r => do_tload C (set_woken (set_gen (set_rprog s r) (S (gen s))) false) CP1
  | RClose :: r => do_cstore (set_rclosed (set_rprog s r) true) false
  end.

Lemma rdispatch_inv C s p s' e :
  rdispatch C s p = Some (s', e) ->
  (rclosed s = false /\ rstart C s p = Some (s', e)) \/
  (rclosed s = true /\ exists l, forallb is_local l = true /\
                                 do_arc_r (set_rprog (set_rlog s (rlog s ++ l)) []) = Some (s', e)).
Proof.
  destruct (rclosed s) eqn:Rc.
  - intros H. right. split; [reflexivity|].
    assert (G : forall p s0, rclosed s0 = true -> rdispatch C s0 p = Some (s', e) ->
                exists l, forallb is_local l = true /\
                          do_arc_r (set_rprog (set_rlog s0 (rlog s0 ++ l)) []) = Some (s', e)).
    { clear. induction p as [|o r IH]; intros s0 R0 H; cbn [rdispatch] in H; rewrite ?R0 in H.
      - exists []. split; [reflexivity|]. rewrite app_nil_r. destruct s0; exact H.
      - destruct o; cbn [rlogv rclosed set_rlog] in H;
          (apply IH in H; [|destruct s0; exact R0]);
          destruct H as [l [Hl H]]; cbn [rlogv rlog set_rlog] in H;
          [exists (RDiscL :: l)|exists (RFDiscL :: l)|exists (RCloseErr :: l)];
          (split; [cbn; exact Hl|]);
          rewrite <- app_assoc in H; cbn [app] in H; destruct s0; exact H. }
    exact (G p s Rc H).
  - intros H. left. split; [reflexivity|].
    destruct p as [|o r]; cbn [rdispatch rstart] in *; rewrite ?Rc in H; [exact H|].
    destruct o; rewrite ?Rc in H; exact H.
Qed.

(* ------------------------------------------------------------------ step case analysis *)
Ltac fsimpl :=
  cbn [cs slot mlock rd cnt arc wk gen woken token rclosed rprog rpc spc wrote oks back got drops rlog slog
       set_cs set_slot set_mlock set_rd set_cnt set_arc set_wk set_gen set_woken set_token set_rclosed
       set_rprog set_rpc set_spc set_wrote set_oks set_back set_got set_drops set_rlog set_slog
       set_spc_at rlogv slogv] in *.

Ltac break_match H :=
  match type of H with
  | context [match ?x with _ => _ end] =>
      lazymatch x with
      | context [match _ with _ => _ end] => fail
      | _ => let y := fresh "v" in let E := fresh "E" in
             remember x as y eqn:E in H; symmetry in E; destruct y
      end
  end.

Ltac finish_step H :=
  fsimpl; cbv beta iota zeta in H;
  repeat (break_match H; fsimpl; cbv beta iota zeta in H);
  try discriminate H;
  match type of H with Some (?a, ?b) = Some (?s', ?e) => inversion H; subst s' e; clear H end.

(* receiver step: one goal per pc and branch *)
Ltac rstep_cases H :=
  unfold rstep in H;
  match type of H with context [rpc ?s] =>
    let y := fresh "v" in remember (rpc s) as y eqn:Epc in H; symmetry in Epc; destruct y end;
  [ apply rdispatch_inv in H;
    let Rc := fresh "Rc" in let l := fresh "l" in let Hl := fresh "Hl" in
    destruct H as [[Rc H]|[Rc [l [Hl H]]]];
    [ unfold rstart in H;
      match type of H with context [match ?p with _ => _ end] =>
        let y := fresh "v" in let Ep := fresh "Ep" in remember p as y eqn:Ep in H; symmetry in Ep;
        destruct y as [|[] ?] end
    | ]
  | .. ];
  unfold do_tload, do_cstore, do_arc_r, rret, t_done, c_done, sh_drop in H;
  finish_step H.

Ltac sstep_cases H :=
  unfold sstep in H;
  match type of H with context [spc ?s ?t] =>
    let y := fresh "v" in remember (spc s t) as y eqn:Epc in H; symmetry in Epc; destruct y end;
  unfold do_srd, do_fsub, sret, after_wake, s_fail, dec_done, sh_drop in H;
  finish_step H.

Ltac split_thr u t :=
  destruct (Nat.eq_dec u t) as [->|?]; [rewrite ?upd_eq in * | rewrite ?upd_neq in * by assumption].

(* ------------------------------------------------------------------ normalisation of branch facts *)
Lemma cst_eqb_true a b : cst_eqb a b = true -> a = b.
Proof. destruct a, b; cbn; intros H; try reflexivity; discriminate. Qed.
Lemma cst_eqb_false a b : cst_eqb a b = false -> a <> b.
Proof. destruct a, b; cbn; intros H; try discriminate; intros X; discriminate. Qed.

Ltac norm :=
  repeat match goal with
         | H : cst_eqb _ _ = true |- _ => apply cst_eqb_true in H
         | H : cst_eqb _ _ = false |- _ => apply cst_eqb_false in H
         | H : Nat.eqb _ _ = true |- _ => apply Nat.eqb_eq in H
         | H : Nat.eqb _ _ = false |- _ => apply Nat.eqb_neq in H
         | H : Nat.leb _ _ = true |- _ => apply Nat.leb_le in H
         | H : Nat.leb _ _ = false |- _ => apply Nat.leb_gt in H
         | H : _ || _ = true |- _ => apply orb_prop in H
         | H : _ || _ = false |- _ => apply orb_false_elim in H; destruct H
         end.

Ltac pcsimpl :=
  cbn [ropen rfin rtaker rtakz rcl rrel pre_fsub writer srel prewrite okzone lastz code b2n negb andb orb] in *.

Ltac spec_refl :=
  repeat match goal with
         | H : ?x = ?x -> _ |- _ => specialize (H eq_refl)
         | H : false = true -> _ |- _ => clear H
         | H : true = false -> _ |- _ => clear H
         end.
