(* Proofs/RvK3Val.v — value accounting of the K3' rendezvous model (C01 / C03): every handoff
   moves one fresh payload from exactly one sender to exactly one receiver; the sender reports Ok
   iff its payload was handed off; the receiver returns every payload handed to it, in order,
   and never reports Timeout with a payload in its `dest`. *)
From Coq Require Import List NArith Arith Bool Lia.
From Fibre Require Import Common.Conc Chan.RvK3 Proofs.RvK3Base Proofs.RvK3Queue Proofs.RvK3Cell.
Import ListNotations.

(* strictly inside a send call (the current payload id (t, seq t) is in flight) *)
Definition midop (p : pc) : bool :=
  match p with
  | SLock _ | SFul _ | SUnl _ _ | SUnpark _ | SWait | SPark | SFinal => true
  | _ => false
  end.
Definition b2nat (b : bool) : nat := if b then 1 else 0.

Lemma was_handed_app s x r v : 
  In v (map fst (handed s ++ [(x, r)])) <-> was_handed s v \/ v = x.
Proof. unfold was_handed. rewrite map_app, in_app_iff. cbn. intuition. Qed.

Lemma qls_midop p : qrel p = QLS \/ qrel p = QXS -> midop p = true.
Proof. destruct p as [ | | | ? [| | |] | | | | | | | ? [| | |] | | | | | | | | | | | | | | | | ]; cbn; intuition congruence. Qed.
Lemma qls_not_rpc p : qrel p = QLS -> rpc p = false.
Proof. destruct p as [ | | | ? [| | |] | | | | | | | ? [| | |] | | | | | | | | | | | | | | | | ]; cbn; congruence. Qed.
Lemma qlr_not_spc p : qrel p = QLR -> spc p = false.
Proof. destruct p as [ | | | ? [| | |] | | | | | | | ? [| | |] | | | | | | | | | | | | | | | | ]; cbn; congruence. Qed.
Lemma qlr_not_midop p : qrel p = QLR -> midop p = false.
Proof. destruct p as [ | | | ? [| | |] | | | | | | | ? [| | |] | | | | | | | | | | | | | | | | ]; cbn; congruence. Qed.

Lemma in_rq_receiver cfg s u : LockInv cfg s -> QInv cfg s -> In u (rq s) -> is_receiver cfg u = true.
Proof.
  intros [_ _ L3] Q H. destruct (in_rq_class _ _ (Q_ok _ _ Q u) H) as [K _].
  specialize (L3 u). unfold roleok, is_receiver in *. destruct (role cfg u) as [[|]|]; [|reflexivity|].
  - rewrite (qlr_not_spc _ K) in L3. discriminate.
  - rewrite L3 in K. discriminate.
Qed.

Lemma in_sq_sender cfg s u : LockInv cfg s -> QInv cfg s -> In u (sq s) -> is_sender cfg u = true.
Proof.
  intros [_ _ L3] Q H. destruct (in_sq_class _ _ (Q_ok _ _ Q u) H) as [K _].
  specialize (L3 u). unfold roleok, is_sender in *. destruct (role cfg u) as [[|]|]; [reflexivity| |].
  - rewrite (qls_not_rpc _ K) in L3. discriminate.
  - rewrite L3 in K. discriminate.
Qed.

Lemma committed_qls s n :
  qrel (pcs s n) = QLS -> committed s n = match wstate s n with D => true | _ => false end.
Proof.
  unfold committed.
  destruct (pcs s n) as [ | | | ? [| | |] | | | | | | | ? [| | |] | | | | | | | | | | | | | | | | ]; cbn; congruence.
Qed.
Lemma committed_qlr s n : qrel (pcs s n) = QLR -> committed s n = false.
Proof.
  unfold committed.
  destruct (pcs s n) as [ | | | ? [| | |] | | | | | | | ? [| | |] | | | | | | | | | | | | | | | | ]; cbn; congruence.
Qed.
(* committed only looks at the thread's own pc and state *)
Lemma committed_ext s s' u : pcs s' u = pcs s u -> wstate s' u = wstate s u -> committed s' u = committed s u.
Proof. unfold committed. intros -> ->. reflexivity. Qed.

Ltac whg := unfold was_handed, cur; fsimpl; rewrite ?map_app, ?in_app_iff; cbn [map fst In].
Ltac whh H := unfold was_handed, cur in H; fsimpl; rewrite ?map_app, ?in_app_iff in H; cbn [map fst In] in H.

Lemma cur_inj s s' u t : cur s u = cur s' t -> u = t.
Proof. unfold cur. congruence. Qed.

(* ------------------------------------------------------------------ V1: handoffs are fresh *)
Record V1 (cfg : list tcfg) (s : st) : Prop := {
  S_len : forall u, is_sender cfg u = true -> seq s u = length (results s u) + b2nat (midop (pcs s u));
  S_bound : forall u k, was_handed s (u, k) -> k <= seq s u;
  S_cur : forall u, midop (pcs s u) = true -> (was_handed s (cur s u) <-> committed s u = true);
  H_nd : NoDup (map fst (handed s));
  H_role : forall v r, In (v, r) (handed s) -> is_receiver cfg r = true
}.

Lemma V1_init cfg : V1 cfg (init cfg).
Proof.
  split; cbn; intros; try reflexivity; try contradiction; try discriminate. constructor.
Qed.

Lemma V1_step cfg s t c s' e :
  LockInv cfg s -> QInv cfg s -> CInv s -> V1 cfg s -> step true cfg s t c = Some (s', e) -> V1 cfg s'.
Proof.
  intros LI QI [Co Cb] [A1 A2 A3 A4 A5] H.
  pose proof (Q_ok _ _ QI t) as Qt. pose proof (L_x LI t) as Xt. pose proof (A3 t) as St. pose proof (A1 t) as Lt.
  unfold qok in Qt. unfold committed in St.
  step_cases H; rewrite Epc in Qt, Xt, St, Lt; cbn [qrel xpc midop b2nat] in Qt, Xt, St, Lt; try discriminate Xt.
  all: try solve [ split; fsimpl;
    [ intros u Hu; pose proof (A1 u Hu) as Lu; fsimpl; split_thr u t; [|exact Lu];
      first [ unfold is_sender in Hu; rewrite Er in Hu; discriminate Hu
            | specialize (Lt Hu); cbn [midop b2nat]; rewrite ?app_length; cbn [length]; lia ]
    | unfold was_handed in *; fsimpl; intros u kk Hk; pose proof (A2 u kk Hk) as Bu; split_thr u t; lia
    | intros u; pose proof (A3 u) as Su; unfold committed, cur, was_handed in *; fsimpl; split_thr u t; [cbn [midop]|exact Su];
      try match goal with E : wstate _ _ = _ |- _ => rewrite E in * end; try tauto; try (intros _; tauto);
      try discriminate;
      try (intros _; split; [intros Hh; apply A2 in Hh; lia | discriminate])
    | exact A4
    | exact A5 ] ].
  (* the remaining steps pop the head n of a queue *)
  all: match goal with
       | E : rq _ = ?n :: _ |- _ =>
           assert (Hn : In n (rq s)) by (rewrite E; left; reflexivity);
           destruct (in_rq_class _ _ (Q_ok _ _ QI n) Hn) as [Kn Wn];
           pose proof (in_rq_receiver _ _ _ LI QI Hn) as Rn
       | E : sq _ = ?n :: _ |- _ =>
           assert (Hn : In n (sq s)) by (rewrite E; left; reflexivity);
           destruct (in_sq_class _ _ (Q_ok _ _ QI n) Hn) as [Kn Wn];
           pose proof (in_sq_sender _ _ _ LI QI Hn) as Rn
       end;
       match type of Hn with In ?n _ => assert (Hnt : n <> t) by (intros ->; tauto) end.
  - (* SFul: fulfill_receiver *)
    assert (Hfresh : ~ was_handed s (cur s t)) by (intros Hh; apply St in Hh; [discriminate|reflexivity]).
    split; fsimpl.
    + intros u Hu. pose proof (A1 u Hu) as Lu. split_thr u t; [|exact Lu]. exact (Lt Hu).
    + intros u kk Hk. whh Hk. destruct Hk as [Hk|[Hk|[]]]; [exact (A2 u kk Hk)|].
      inversion Hk; subst. lia.
    + intros u. pose proof (A3 u) as Su. split_thr u t.
      * cbn [midop]. intros _. unfold committed. fsimpl. rewrite upd_eq. split; [reflexivity|].
        intros _. whg. right. left. reflexivity.
      * intros Hm.
        match goal with |- _ <-> committed ?s' u = true => assert (Hc : committed s' u = committed s u) end.
        { destruct (Nat.eq_dec u n) as [->|Hun].
          - rewrite (qlr_not_midop _ Kn) in Hm. discriminate.
          - apply committed_ext; fsimpl; rewrite !upd_neq by assumption; reflexivity. }
        rewrite Hc. specialize (Su Hm). whg. unfold was_handed, cur in Su. split.
        -- intros [Hh|[Hh|[]]]; [tauto|]. inversion Hh. congruence.
        -- intros Hh. left. tauto.
    + rewrite map_app. cbn [map fst]. apply NoDup_app_single; assumption.
    + intros v0 r0 Hin. apply in_app_iff in Hin. destruct Hin as [Hin|[Hin|[]]]; [exact (A5 _ _ Hin)|].
      inversion Hin; subst. exact Rn.
  - (* DDisc by the last sender, last record *)
    split; fsimpl; [ intros u Hu; pose proof (A1 u Hu) as Lu; split_thr u t; [exact (Lt Hu)|exact Lu]
                   | exact A2 | | exact A4 | exact A5 ].
    intros u. pose proof (A3 u) as Su. split_thr u t; [cbn [midop]; intros Hm; discriminate Hm|]. intros Hm.
    rewrite committed_ext with (s := s); [exact (Su Hm)|fsimpl; rewrite upd_neq by assumption; reflexivity|].
    fsimpl. split_thr u n; [rewrite (qlr_not_midop _ Kn) in Hm; discriminate|reflexivity].
  - split; fsimpl; [ intros u Hu; pose proof (A1 u Hu) as Lu; split_thr u t; [exact (Lt Hu)|exact Lu]
                   | exact A2 | | exact A4 | exact A5 ].
    intros u. pose proof (A3 u) as Su. split_thr u t; [cbn [midop]; intros Hm; discriminate Hm|]. intros Hm.
    rewrite committed_ext with (s := s); [exact (Su Hm)|fsimpl; rewrite upd_neq by assumption; reflexivity|].
    fsimpl. split_thr u n; [rewrite (qlr_not_midop _ Kn) in Hm; discriminate|reflexivity].
  - (* RFul: fulfill_sender *)
    pose proof (Co n) as Cn. unfold cellok in Cn. rewrite Kn, Wn in Cn. rewrite Cn. cbn [opt_or].
    assert (Hmn : midop (pcs s n) = true) by (apply qls_midop; left; exact Kn).
    assert (Hfresh : ~ was_handed s (cur s n)).
    { intros Hh. apply (A3 n Hmn) in Hh. rewrite (committed_qls _ _ Kn), Wn in Hh. discriminate. }
    split; fsimpl.
    + intros u Hu. pose proof (A1 u Hu) as Lu. split_thr u t; [|exact Lu].
      unfold is_sender in Hu. rewrite Er in Hu. discriminate.
    + intros u kk Hk. whh Hk. destruct Hk as [Hk|[Hk|[]]]; [exact (A2 u kk Hk)|].
      inversion Hk; subst. lia.
    + intros u. pose proof (A3 u) as Su. split_thr u t; [cbn [midop]; intros Hm; discriminate Hm|]. intros Hm.
      destruct (Nat.eq_dec u n) as [->|Hun].
      * split; [intros _|intros _; whg; right; left; reflexivity].
        match goal with |- committed ?s' n = true =>
          rewrite (committed_qls s' n) by (fsimpl; rewrite upd_neq by congruence; exact Kn) end.
        fsimpl. rewrite upd_eq. reflexivity.
      * rewrite committed_ext with (s := s) by (fsimpl; rewrite !upd_neq by assumption; reflexivity).
        specialize (Su Hm). whg. unfold was_handed, cur in Su. split.
        -- intros [Hh|[Hh|[]]]; [tauto|]. inversion Hh. congruence.
        -- intros Hh. left. tauto.
    + rewrite map_app. cbn [map fst]. apply NoDup_app_single; assumption.
    + intros v0 r0 Hin. apply in_app_iff in Hin. destruct Hin as [Hin|[Hin|[]]]; [exact (A5 _ _ Hin)|].
      inversion Hin; subst. unfold is_receiver. rewrite Er. reflexivity.
  - (* DDisc by the last receiver *)
    split; fsimpl; [ intros u Hu; pose proof (A1 u Hu) as Lu; split_thr u t; [|exact Lu];
                     unfold is_sender in Hu; rewrite Er in Hu; discriminate
                   | exact A2 | | exact A4 | exact A5 ].
    intros u. pose proof (A3 u) as Su. split_thr u t; [cbn [midop]; intros Hm; discriminate Hm|]. intros Hm.
    destruct (Nat.eq_dec u n) as [->|Hun].
    + match goal with |- _ <-> committed ?s' n = true =>
        rewrite (committed_qls s' n) by (fsimpl; rewrite upd_neq by congruence; exact Kn) end.
      fsimpl. rewrite upd_eq. specialize (Su Hm). rewrite (committed_qls _ _ Kn), Wn in Su. exact Su.
    + rewrite committed_ext with (s := s) by (fsimpl; rewrite !upd_neq by assumption; reflexivity). exact (Su Hm).
  - split; fsimpl; [ intros u Hu; pose proof (A1 u Hu) as Lu; split_thr u t; [|exact Lu];
                     unfold is_sender in Hu; rewrite Er in Hu; discriminate
                   | exact A2 | | exact A4 | exact A5 ].
    intros u. pose proof (A3 u) as Su. split_thr u t; [cbn [midop]; intros Hm; discriminate Hm|]. intros Hm.
    destruct (Nat.eq_dec u n) as [->|Hun].
    + match goal with |- _ <-> committed ?s' n = true =>
        rewrite (committed_qls s' n) by (fsimpl; rewrite upd_neq by congruence; exact Kn) end.
      fsimpl. rewrite upd_eq. specialize (Su Hm). rewrite (committed_qls _ _ Kn), Wn in Su. exact Su.
    + rewrite committed_ext with (s := s) by (fsimpl; rewrite !upd_neq by assumption; reflexivity). exact (Su Hm).
Qed.

(* ------------------------------------------------------------------ V2: a send reports Ok iff handed *)
Definition res_sval (r : res) : option val :=
  match r with POk v | PFull v | PClosed v | PGone v => Some v | _ => None end.
Definition is_pok (r : res) : bool := match r with POk _ => true | _ => false end.

(* the i-th result of sender u is about payload (u, i+1), and is Ok iff that payload was handed off *)
Definition V2 (cfg : list tcfg) (s : st) : Prop :=
  forall u, is_sender cfg u = true -> forall i r, nth_error (results s u) i = Some r ->
  res_sval r = Some (u, S i) /\ (is_pok r = true <-> was_handed s (u, S i)).

Lemma V2_init cfg : V2 cfg (init cfg).
Proof. intros u _ i r H. cbn in H. destruct i; discriminate H. Qed.

Lemma nth_error_app_single A (l : list A) r i x :
  nth_error (l ++ [r]) i = Some x -> nth_error l i = Some x \/ (i = length l /\ x = r).
Proof.
  intros H. destruct (Nat.lt_ge_cases i (length l)) as [Hi|Hi].
  - left. rewrite nth_error_app1 in H by exact Hi. exact H.
  - right. rewrite nth_error_app2 in H by exact Hi.
    destruct (i - length l) as [|m] eqn:Em; cbn in H.
    + inversion H. split; [lia|reflexivity].
    + destruct m; discriminate H.
Qed.

Lemma nth_error_lt A (l : list A) i x : nth_error l i = Some x -> i < length l.
Proof. intros H. apply nth_error_Some. congruence. Qed.

Lemma V2_step cfg s t c s' e :
  LockInv cfg s -> QInv cfg s -> CInv s -> V1 cfg s -> V2 cfg s -> step true cfg s t c = Some (s', e) -> V2 cfg s'.
Proof.
  intros LI QI [Co Cb] [A1 A2 A3 A4 A5] B H.
  pose proof (Q_ok _ _ QI t) as Qt. pose proof (L_x LI t) as Xt. pose proof (A3 t) as St. pose proof (A1 t) as Lt.
  unfold qok in Qt. unfold committed in St.
  step_cases H; rewrite Epc in Qt, Xt, St, Lt; cbn [qrel xpc midop b2nat] in Qt, Xt, St, Lt; try discriminate Xt.
  all: try exact B.
  (* a receiver logs a result *)
  all: try solve [ intros u Hu; pose proof (B u Hu) as Bu; unfold was_handed in *; fsimpl; split_thr u t; [|exact Bu];
                   unfold is_sender in Hu; rewrite Er in Hu; discriminate Hu ].
  (* a sender logs the result of its current payload *)
  all: try solve [ intros u Hu; pose proof (B u Hu) as Bu; unfold was_handed, cur in *; fsimpl; split_thr u t; [|exact Bu];
                   intros i r0 Hn; apply nth_error_app_single in Hn; destruct Hn as [Hn|[-> ->]]; [exact (Bu i r0 Hn)|];
                   specialize (Lt Hu); rewrite ?upd_eq;
                   try match goal with E : wstate _ _ = _ |- _ => rewrite E in * end;
                   cbn [res_sval is_pok]; replace (S (length (results s t))) with (seq s t) by lia;
                   split; [reflexivity|]; intuition congruence ].
  (* a send on a closed handle: a fresh payload id, never handed *)
  1,2: intros u Hu; pose proof (B u Hu) as Bu; unfold was_handed, cur in *; fsimpl; split_thr u t; [|exact Bu];
       intros i r0 Hn; apply nth_error_app_single in Hn; destruct Hn as [Hn|[-> ->]]; [exact (Bu i r0 Hn)|];
       specialize (Lt Hu); rewrite ?upd_eq; cbn [res_sval is_pok];
       replace (length (results s t)) with (seq s t) by lia;
       split; [reflexivity|]; split; [discriminate|]; intros Hh; apply A2 in Hh; lia.
  (* a handoff: the new entry is the current payload of a sender inside its call, not one of its
     earlier results *)
  - intros u Hu i r0 Hn. pose proof (B u Hu i r0 Hn) as [B1 B2]. fsimpl. split; [exact B1|].
    rewrite B2. whg. unfold was_handed. split; [tauto|]. intros [Hh|[Hh|[]]]; [exact Hh|].
    inversion Hh; subst. apply nth_error_lt in Hn. specialize (Lt Hu). lia.
  - assert (Hn' : In n (sq s)) by (rewrite E; left; reflexivity).
    destruct (in_sq_class _ _ (Q_ok _ _ QI n) Hn') as [Kn Wn].
    pose proof (Co n) as Cn. unfold cellok in Cn. rewrite Kn, Wn in Cn. rewrite Cn. cbn [opt_or].
    pose proof (A1 n (in_sq_sender _ _ _ LI QI Hn')) as Ln. rewrite (qls_midop (pcs s n)) in Ln by (left; exact Kn).
    intros u Hu i r0 Hn. pose proof (B u Hu i r0 Hn) as [B1 B2].
    assert (Hr : results s u = results s u) by reflexivity. split; [exact B1|].
    rewrite B2. whg. unfold was_handed. split; [tauto|]. intros [Hh|[Hh|[]]]; [exact Hh|].
    inversion Hh; subst. fsimpl. apply nth_error_lt in Hn. cbn [b2nat] in Ln. lia.
Qed.

Lemma r_hand_qlr p : qrel p = QLR -> r_hand p = [].
Proof. destruct p as [ | | | ? [| | |] | | | | | | | ? [| | |] | | | | | | | | | | | | | | | | ]; cbn; congruence. Qed.
Lemma sender_not_receiver cfg u : is_sender cfg u = true -> is_receiver cfg u = false.
Proof. unfold is_sender, is_receiver. destruct (role cfg u) as [[|]|]; congruence. Qed.
Lemma handed_to_app s s' x r u :
  handed s' = handed s ++ [(x, r)] -> handed_to s' u = handed_to s u ++ (if Nat.eqb r u then [x] else []).
Proof.
  unfold handed_to. intros ->. rewrite filter_app, map_app. cbn [filter snd]. destruct (Nat.eqb r u); reflexivity.
Qed.

(* ------------------------------------------------------------------ V3: receivers return what they are handed *)
Record V3 (cfg : list tcfg) (s : st) : Prop := {
  R_c : forall u, pcs s u = CUnl true -> wstate s u = C;
  R_eq : forall u, is_receiver cfg u = true ->
         handed_to s u = flat_map res_taken (results s u) ++ r_hand (pcs s u) ++ opt_list (cell s u);
  R_nl : forall u r, In r (results s u) -> res_lost r = []
}.

Lemma V3_init cfg : V3 cfg (init cfg).
Proof. split; cbn; intros; try discriminate; try reflexivity; contradiction. Qed.

Lemma V3_step cfg s t c s' e :
  LockInv cfg s -> QInv cfg s -> CInv s -> V3 cfg s -> step true cfg s t c = Some (s', e) -> V3 cfg s'.
Proof.
  intros LI QI [Co Cb] [R1 R2 R3] H.
  pose proof (Q_ok _ _ QI t) as Qt. pose proof (L_x LI t) as Xt. pose proof (Co t) as Ct. pose proof (R1 t) as Rt.
  unfold qok in Qt. unfold cellok in Ct.
  step_cases H; rewrite Epc in Qt, Xt, Ct, Rt; cbn [qrel xpc] in Qt, Xt, Ct, Rt; try discriminate Xt.
  all: try solve [ split; fsimpl;
    [ intros u; pose proof (R1 u) as Ru; split_thr u t; [ try discriminate; try (intros _; reflexivity) | exact Ru ]
    | intros u Hu; pose proof (R2 u Hu) as Ru; unfold handed_to in *; fsimpl; split_thr u t; [|exact Ru];
      first [ unfold is_receiver in Hu; rewrite Er in Hu; discriminate Hu
            | rewrite Epc in Ru; cbn [r_hand] in Ru;
              try match goal with E : wstate _ _ = _ |- _ => rewrite E in * end;
              try match goal with E : cell _ _ = _ |- _ => rewrite E in * end;
              try rewrite Ct in *; try (rewrite Rt in * by reflexivity; rewrite Ct in * );
              rewrite ?flat_map_app; cbn [flat_map res_taken res_val res_lost r_hand opt_list app] in *;
              rewrite Ru, <- ?app_assoc; cbn [app]; rewrite ?app_nil_r; reflexivity ]
    | intros u r0; split_thr u t; [intros Hin|exact (R3 u r0)];
      try (apply in_app_iff in Hin; destruct Hin as [Hin|[Hin|[]]]; [exact (R3 t r0 Hin)|]; subst r0);
      try exact (R3 t r0 Hin);
      try match goal with E : wstate _ _ = _ |- _ => rewrite E in * end;
      try rewrite Ct in *; try (rewrite Rt in * by reflexivity; rewrite Ct in * ); reflexivity ] ].
  all: match goal with
       | E : rq _ = ?n :: _ |- _ =>
           assert (Hn : In n (rq s)) by (rewrite E; left; reflexivity);
           destruct (in_rq_class _ _ (Q_ok _ _ QI n) Hn) as [Kn Wn]
       | E : sq _ = ?n :: _ |- _ =>
           assert (Hn : In n (sq s)) by (rewrite E; left; reflexivity);
           destruct (in_sq_class _ _ (Q_ok _ _ QI n) Hn) as [Kn Wn];
           pose proof (sender_not_receiver _ _ (in_sq_sender _ _ _ LI QI Hn)) as Rn
       end;
       match type of Hn with In ?n _ => assert (Hnt : n <> t) by (intros ->; tauto) end;
       pose proof (Co n) as Cn; unfold cellok in Cn; rewrite Kn, Wn in Cn.
  - (* SFul *)
    split; fsimpl.
    + intros u. pose proof (R1 u) as Ru. split_thr u t; [discriminate|]. intros Hp. split_thr u n; [|exact (Ru Hp)].
      rewrite Hp in Kn. discriminate.
    + intros u Hu. pose proof (R2 u Hu) as Ru.
      rewrite handed_to_app with (s := s) (x := cur s t) (r := n) by reflexivity. fsimpl.
      split_thr u t; [unfold is_receiver in Hu; rewrite Er in Hu; discriminate Hu|].
      destruct (Nat.eqb_spec n u) as [<-|Hnu].
      * rewrite !upd_eq. rewrite Ru, (r_hand_qlr _ Kn), Cn. cbn [opt_list app]. rewrite app_nil_r. reflexivity.
      * rewrite !upd_neq by congruence. rewrite app_nil_r. exact Ru.
    + exact R3.
  - split; fsimpl; [ | intros u Hu; pose proof (R2 u Hu) as Ru; unfold handed_to in *; fsimpl; split_thr u t;
                       [unfold is_receiver in Hu; rewrite Er in Hu; discriminate Hu|exact Ru] | exact R3 ].
    intros u. pose proof (R1 u) as Ru. split_thr u t; [discriminate|]. intros Hp. split_thr u n; [|exact (Ru Hp)].
    rewrite Hp in Kn. discriminate.
  - split; fsimpl; [ | intros u Hu; pose proof (R2 u Hu) as Ru; unfold handed_to in *; fsimpl; split_thr u t;
                       [unfold is_receiver in Hu; rewrite Er in Hu; discriminate Hu|exact Ru] | exact R3 ].
    intros u. pose proof (R1 u) as Ru. split_thr u t; [discriminate|]. intros Hp. split_thr u n; [|exact (Ru Hp)].
    rewrite Hp in Kn. discriminate.
  - (* RFul *)
    rewrite Cn. cbn [opt_or]. split; fsimpl.
    + intros u. pose proof (R1 u) as Ru. split_thr u t; [discriminate|]. intros Hp. split_thr u n; [|exact (Ru Hp)].
      rewrite Hp in Kn. discriminate.
    + intros u Hu. pose proof (R2 u Hu) as Ru.
      rewrite handed_to_app with (s := s) (x := cur s n) (r := t) by reflexivity. fsimpl.
      split_thr u t.
      * rewrite Nat.eqb_refl, upd_neq by congruence. rewrite Ru, Epc, Ct. cbn [r_hand opt_list app].
        rewrite !app_nil_r. reflexivity.
      * destruct (Nat.eqb_spec t u) as [->|_]; [contradiction|]. rewrite app_nil_r.
        split_thr u n; [congruence|exact Ru].
    + exact R3.
  - split; fsimpl; [ | intros u Hu; pose proof (R2 u Hu) as Ru; unfold handed_to in *; fsimpl; split_thr u t;
                       [rewrite Epc in Ru; exact Ru|exact Ru] | exact R3 ].
    intros u. pose proof (R1 u) as Ru. split_thr u t; [discriminate|]. intros Hp. split_thr u n; [|exact (Ru Hp)].
    rewrite Hp in Kn. discriminate.
  - split; fsimpl; [ | intros u Hu; pose proof (R2 u Hu) as Ru; unfold handed_to in *; fsimpl; split_thr u t;
                       [rewrite Epc in Ru; exact Ru|exact Ru] | exact R3 ].
    intros u. pose proof (R1 u) as Ru. split_thr u t; [discriminate|]. intros Hp. split_thr u n; [|exact (Ru Hp)].
    rewrite Hp in Kn. discriminate.
Qed.
