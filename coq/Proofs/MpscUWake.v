(* Proofs/MpscUWake.v — C06 for the unbounded-MPSC K2 model: the receive-side wake-up invariants
   W1..W8 (definitions in Chan/MpscUSpec.v) for all op/poll/drop histories. *)
From Fibre Require Import Common.Base Chan.MpscU Chan.MpscUSpec Proofs.MpscUBase Proofs.MpscUInv Proofs.MpscUProofs.
From Coq Require Import ZifyBool ZifyNat ZifyN.
Ltac Zify.zify_post_hook ::= Z.div_mod_to_equations.

Lemma exec_W1 s o : W1 s -> W1 (fst (exec s o)).
Proof.
  intros W. unfold W1 in *. destruct o; symex; try assumption.
  all: try (intros o1 w1 Hr; discriminate Hr).
  all: intros o1 w1 Hr; somes.
  all: repeat match goal with H : _ /\ _ |- _ => destruct H end.
  all: repeat match goal with H : is_nil _ = true |- _ => apply is_nil_true in H; subst end.
  all: cbn [app] in *; deqnil.
  all: try (destruct (W _ _ Hr) as [A B]).
  all: repeat match goal with
       | H : (_ =? _) = false |- _ => apply N.eqb_neq in H
       | H : (_ =? _) = true |- _ => apply N.eqb_eq in H
       end.
  all: try (split; [congruence | lia]).
  all: try (split; [congruence | congruence]).
  all: match goal with A : q ?s = [], H : q ?s = ?l ++ ?r |- _ =>
         rewrite A in H; symmetry in H; apply app_eq_nil in H; destruct H end.
  all: split; congruence.
Qed.

Ltac wkfun :=
  repeat match goal with
  | |- context [if ?a =? ?b then _ else _] => destruct (N.eqb_spec a b); subst
  | H : context [if ?a =? ?b then _ else _] |- _ => destruct (N.eqb_spec a b); subst
  end.

Lemma recv_fut_on_rx s f fr : fut_ok s -> rx_one s ->
  aget f (fs s) = Some fr -> is_recv_kind (fk fr) = true -> fh fr = 1.
Proof.
  intros FO RO A K. destruct (FO f fr A) as (r&B&_&C). rewrite K in C. cbn in C. exact (RO _ _ B C).
Qed.

(** a receive future exists, yet a direct call on the receiver handle went through: impossible *)
Ltac no_fut_on_rx FO RO :=
  exfalso;
  match goal with
  | A : aget ?f (fs ?s) = Some ?fr, K : is_recv_kind (fk ?fr) = true,
    NF : has_futs ?h ?s = false, G : aget ?h (hs ?s) = Some ?r, T : htx ?r = false |- _ =>
      pose proof (recv_fut_on_rx s f fr FO RO A K) as X1;
      pose proof (RO h r G T) as X2;
      apply (has_futs_false h s f fr NF A); congruence
  end.

Ltac w2leaf V2 V4 FO RO :=
  match goal with
  | A1 : aget ?f1 (fs ?s) = Some ?fr1, K1 : is_recv_kind (fk ?fr1) = true,
    P1 : fpend ?fr1 = Some (?w1, ?c1) |- _ =>
      let B1 := fresh "B" in let B2 := fresh "B" in
      destruct (V2 f1 w1 c1 (ex_intro _ fr1 (conj A1 (conj K1 P1)))) as [B1 B2];
      split; [wkfun; lia|];
      destruct B2 as [B2|[B2|B2]];
      [ | right; left; wkfun; lia | right; right; rewrite ?B2; reflexivity ]
  end.

Lemma exec_W2 s o : GS s -> W1 s -> W2 s -> W4 s -> W5 s -> W2 (fst (exec s o)).
Proof.
  intros (N1&N2&FO&RO&SC&RL) V1 V2 V4 V5. unfold W2, rpend in *. destruct o; symex; try assumption.
  all: intros f1 w1 c1 (fr1 & A1 & K1 & P1); ag; somes; cbn [fh fk fpend] in *; somes.
  all: try w2leaf V2 V4 FO RO.
  all: somes.
  all: try (left; reflexivity).
  all: try (left; assumption).
  all: try (right; right; reflexivity).
  all: try (split; [lia | left; reflexivity]).
  all: try solve [no_fut_on_rx FO RO].
  all: try (bools; solve [no_fut_on_rx FO RO]).
  all: try (right; right;
            match goal with |- multi ?s0 = true => destruct (multi s0) eqn:M; [reflexivity|exfalso] end;
            match goal with
            | NE : ?f1 <> ?f, A1 : aget ?f1 (fs _) = Some ?fr1, A : aget ?f (fs _) = Some ?f0,
              K1 : is_recv_kind (fk ?fr1) = true, E : fk ?f0 = _ |- _ =>
                apply NE; apply (V4 M f1 f fr1 f0 A1 A K1); rewrite E; reflexivity
            end).
  all: try (right; left; rewrite ?N.eqb_refl; lia).
Qed.

Lemma existsb_recv_false (l : list (N * frec)) f fr :
  existsb (fun p => is_recv_kind (fk (snd p))) l = false -> aget f l = Some fr -> is_recv_kind (fk fr) = false.
Proof.
  intros E A. apply aget_In in A. destruct (is_recv_kind (fk fr)) eqn:K; [|reflexivity].
  assert (existsb (fun p => is_recv_kind (fk (snd p))) l = true); [|congruence].
  apply existsb_exists. exists (f, fr). auto.
Qed.

Ltac kinds :=
  repeat match goal with
  | E : fk ?x = FRecv _ |- _ =>
      lazymatch goal with K : is_recv_kind (fk x) = true |- _ => fail
      | _ => assert (is_recv_kind (fk x) = true) by (rewrite E; reflexivity) end
  | E : fk ?x = FRecvB _ _ |- _ =>
      lazymatch goal with K : is_recv_kind (fk x) = true |- _ => fail
      | _ => assert (is_recv_kind (fk x) = true) by (rewrite E; reflexivity) end
  end.

Lemma exec_W4 s o : GS s -> W4 s -> W4 (fst (exec s o)).
Proof.
  intros (N1&N2&FO&RO&SC&RL) V4. unfold W4 in *. destruct o; symex; try assumption.
  all: intros M f1 f2 fr1 fr2 A1 A2 K1 K2; ag; somes; cbn [fh fk fpend is_recv_kind] in *; try discriminate.
  all: try reflexivity.
  all: kinds.
  all: try (eapply (V4 M); eauto; fail).
  all: try (symmetry; eapply (V4 M); eauto; fail).
  all: bools.
  all: try match goal with
       | E : existsb _ (fs ?s0) = false, A : aget _ (fs ?s0) = Some ?fr, K : is_recv_kind (fk ?fr) = true |- _ =>
           rewrite (existsb_recv_false _ _ _ E A) in K; discriminate K
       end.
Qed.
