(* Proofs/MpscUWake.v — C06 for the unbounded-MPSC K2 model: the receive-side wake-up invariants
   W1..W8 (definitions in Chan/MpscUSpec.v) for all op/poll/drop histories. *)
From Fibre Require Import Common.Base Chan.MpscU Chan.MpscUSpec Proofs.MpscUBase Proofs.MpscUInv Proofs.MpscUProofs.
From Coq Require Import ZifyBool ZifyNat ZifyN.
Ltac Zify.zify_post_hook ::= Z.div_mod_to_equations.

Lemma exec_W1 s o : W1 s -> W1 (fst (exec s o)).
Proof.
  intros W. unfold W1 in *. destruct o; symex; try assumption.
  all: try (intros o1 w1 Hr; discriminate Hr).
  all: intros o1 w1 Hr; somes.
  all: repeat match goal with H : _ /\ _ |- _ => destruct H end.
  all: repeat match goal with H : is_nil _ = true |- _ => apply is_nil_true in H; subst end.
  all: cbn [app] in *; deqnil.
  all: try (destruct (W _ _ Hr) as [A B]).
  all: repeat match goal with
       | H : (_ =? _) = false |- _ => apply N.eqb_neq in H
       | H : (_ =? _) = true |- _ => apply N.eqb_eq in H
       end.
  all: try (split; [congruence | lia]).
  all: try (split; [congruence | congruence]).
  all: match goal with A : q ?s = [], H : q ?s = ?l ++ ?r |- _ =>
         rewrite A in H; symmetry in H; apply app_eq_nil in H; destruct H end.
  all: split; congruence.
Qed.

Ltac wkfun :=
  repeat match goal with
  | |- context [if ?a =? ?b then _ else _] => destruct (N.eqb_spec a b); subst
  | H : context [if ?a =? ?b then _ else _] |- _ => destruct (N.eqb_spec a b); subst
  end.

Lemma recv_fut_on_rx s f fr : fut_ok s -> rx_one s ->
  aget f (fs s) = Some fr -> is_recv_kind (fk fr) = true -> fh fr = 1.
Proof.
  intros FO RO A K. destruct (FO f fr A) as (r&B&_&C). rewrite K in C. cbn in C. exact (RO _ _ B C).
Qed.

(** a receive future exists, yet a direct call on the receiver handle went through: impossible *)
Ltac no_fut_on_rx FO RO :=
  exfalso;
  match goal with
  | A : aget ?f (fs ?s) = Some ?fr, K : is_recv_kind (fk ?fr) = true,
    NF : has_futs ?h ?s = false, G : aget ?h (hs ?s) = Some ?r, T : htx ?r = false |- _ =>
      pose proof (recv_fut_on_rx s f fr FO RO A K) as X1;
      pose proof (RO h r G T) as X2;
      apply (has_futs_false h s f fr NF A); congruence
  end.

Ltac w2leaf V2 V4 FO RO :=
  match goal with
  | A1 : aget ?f1 (fs ?s) = Some ?fr1, K1 : is_recv_kind (fk ?fr1) = true,
    P1 : fpend ?fr1 = Some (?w1, ?c1) |- _ =>
      let B1 := fresh "B" in let B2 := fresh "B" in
      destruct (V2 f1 w1 c1 (ex_intro _ fr1 (conj A1 (conj K1 P1)))) as [B1 B2];
      split; [wkfun; lia|];
      destruct B2 as [B2|[B2|B2]];
      [ | right; left; wkfun; lia | right; right; rewrite ?B2; reflexivity ]
  end.

Lemma exec_W2 s o : GS s -> W1 s -> W2 s -> W4 s -> W5 s -> W2 (fst (exec s o)).
Proof.
  intros (N1&N2&FO&RO&SC&RL) V1 V2 V4 V5. unfold W2, rpend in *. destruct o; symex; try assumption.
  all: intros f1 w1 c1 (fr1 & A1 & K1 & P1); ag; somes; cbn [fh fk fpend] in *; somes.
  all: try w2leaf V2 V4 FO RO.
  all: somes.
  all: try (left; reflexivity).
  all: try (left; assumption).
  all: try (right; right; reflexivity).
  all: try (split; [lia | left; reflexivity]).
  all: try solve [no_fut_on_rx FO RO].
  all: try (bools; solve [no_fut_on_rx FO RO]).
  all: try (right; right;
            match goal with |- multi ?s0 = true => destruct (multi s0) eqn:M; [reflexivity|exfalso] end;
            match goal with
            | NE : ?f1 <> ?f, A1 : aget ?f1 (fs _) = Some ?fr1, A : aget ?f (fs _) = Some ?f0,
              K1 : is_recv_kind (fk ?fr1) = true, E : fk ?f0 = _ |- _ =>
                apply NE; apply (V4 M f1 f fr1 f0 A1 A K1); rewrite E; reflexivity
            end).
  all: try (right; left; rewrite ?N.eqb_refl; lia).
Qed.

Lemma existsb_recv_false (l : list (N * frec)) f fr :
  existsb (fun p => is_recv_kind (fk (snd p))) l = false -> aget f l = Some fr -> is_recv_kind (fk fr) = false.
Proof.
  intros E A. apply aget_In in A. destruct (is_recv_kind (fk fr)) eqn:K; [|reflexivity].
  assert (existsb (fun p => is_recv_kind (fk (snd p))) l = true); [|congruence].
  apply existsb_exists. exists (f, fr). auto.
Qed.

Ltac kinds :=
  repeat match goal with
  | E : fk ?x = FRecv _ |- _ =>
      lazymatch goal with K : is_recv_kind (fk x) = true |- _ => fail
      | _ => assert (is_recv_kind (fk x) = true) by (rewrite E; reflexivity) end
  | E : fk ?x = FRecvB _ _ |- _ =>
      lazymatch goal with K : is_recv_kind (fk x) = true |- _ => fail
      | _ => assert (is_recv_kind (fk x) = true) by (rewrite E; reflexivity) end
  end.

Lemma exec_W4 s o : GS s -> W4 s -> W4 (fst (exec s o)).
Proof.
  intros (N1&N2&FO&RO&SC&RL) V4. unfold W4 in *. destruct o; symex; try assumption.
  all: intros M f1 f2 fr1 fr2 A1 A2 K1 K2; ag; somes; cbn [fh fk fpend is_recv_kind] in *; try discriminate.
  all: try reflexivity.
  all: kinds.
  all: try (eapply (V4 M); eauto; fail).
  all: try (symmetry; eapply (V4 M); eauto; fail).
  all: bools.
  all: try match goal with
       | E : existsb _ (fs ?s0) = false, A : aget _ (fs ?s0) = Some ?fr, K : is_recv_kind (fk ?fr) = true |- _ =>
           rewrite (existsb_recv_false _ _ _ E A) in K; discriminate K
       end.
Qed.

Lemma exec_W8 s o : W8 s -> W8 (fst (exec s o)).
Proof.
  intros V8. unfold W8 in *. destruct o; symex; try assumption.
  all: intros h1 r1 A1; ag; somes; try (apply (V8 _ _ A1)).
  all: cbn [with_closed with_async with_reg hpend hreg htx]; try (split; intros; congruence).
  all: try (destruct (V8 _ _ Heqo) as [X Y]; split; auto; fail).
  all: try (destruct (V8 _ _ Heqo) as [X Y]; split; [auto|]; intros Z; destruct (Y Z); split; auto; fail).
  bools. split; auto.
Qed.


Lemma exec_W6 s o : W6 s -> W6 (fst (exec s o)).
Proof.
  intros V6. unfold W6 in *. destruct o; symex; try assumption.
  all: intros f1 w1 Hr; somes.
  all: try (destruct (V6 _ _ Hr) as (fr1 & A1 & G1)).
  all: ag; somes.
  all: try (eexists; split; [eassumption || reflexivity|]; cbn [fk reg_of]; try assumption; reflexivity).
  all: repeat match goal with E : fk _ = _ |- _ => rewrite E in * end; cbn [reg_of] in *; try discriminate.
  all: try (eexists; split; [reflexivity|]; cbn [fk reg_of]; congruence).
Qed.


Lemma exec_W7 s o : W8 s -> W7 s -> W7 (fst (exec s o)).
Proof.
  intros V8 V7. unfold W7 in *. destruct o; symex; try assumption.
  all: intros h1 w1 Hr; somes.
  all: try (destruct (V7 _ _ Hr) as (r1 & A1 & G1)).
  all: ag; somes.
  all: try (eexists; split; [eassumption || reflexivity|]; cbn [with_closed with_async with_reg hreg]; try assumption; reflexivity).
  all: try match goal with A : aget ?h (hs _) = Some ?r, G : hreg ?r = true |- _ =>
         destruct (V8 _ _ A) as [_ Y]; destruct (Y G) end.
  all: bools; try congruence.
  all: exfalso; repeat match goal with
       | H : htx _ = _ |- _ => rewrite H in *; clear H
       | H : hasync _ = _ |- _ => rewrite H in *; clear H
       | H : hreg _ = _ |- _ => rewrite H in *; clear H
       end; cbn [andb negb orb] in *; discriminate.
Qed.

Lemma exec_W5 s o : GS s -> W8 s -> W5 s -> W5 (fst (exec s o)).
Proof.
  intros (N1&N2&FO&RO&SC&RL) V8 V5. unfold W5 in *. destruct o; symex; try assumption.
  all: intros M f1 fr1 h1 r1 A1 K1 G1; ag; somes; cbn [fh fk fpend is_recv_kind] in *; try discriminate.
  all: kinds.
  all: cbn [with_closed with_async with_reg hreg]; try reflexivity.
  all: try (eapply (V5 M); eauto; fail).
  all: bools.
  all: try solve [no_fut_on_rx FO RO].
  all: destruct (hreg r1) eqn:HR; [exfalso|reflexivity].
  all: destruct (V8 _ _ G1) as [_ Y]; destruct (Y HR) as [T1 _].
  all: pose proof (RO _ _ G1 T1) as E1; pose proof (RO _ _ Heqo H) as E2; subst; somes; congruence.
Qed.



Ltac w3leaf V3 :=
  match goal with
  | A1 : aget ?h1 (hs ?s) = Some ?r1, P1 : hpend ?r1 = Some (?w1, ?c1) |- _ =>
      let B1 := fresh "B" in let B2 := fresh "B" in
      destruct (V3 h1 w1 c1 (ex_intro _ r1 (conj A1 P1))) as [B1 B2];
      split; [wkfun; lia|];
      destruct B2 as [B2|[B2|B2]];
      [ | right; left; wkfun; lia | right; right; rewrite ?B2; reflexivity ]
  end.

Lemma exec_W3 s o : GS s -> W8 s -> W5 s -> W3 s -> W3 (fst (exec s o)).
Proof.
  intros (N1&N2&FO&RO&SC&RL) V8 V5 V3. unfold W3, spend in *. destruct o; symex; try assumption.
  all: intros h1 w1 c1 (r1 & A1 & P1); ag; somes; cbn [with_closed with_async with_reg hpend] in *; try discriminate.
  all: try w3leaf V3.
  all: somes.
  all: try (left; reflexivity).
  all: try (left; assumption).
  all: try (right; right; reflexivity).
  all: try (split; [lia | left; reflexivity]).
  all: try (right; left; rewrite ?N.eqb_refl; lia).
  all: bools; kinds.
  all: try match goal with
       | A1 : aget ?h1 (hs _) = Some ?r1, P1 : hpend ?r1 = Some _ |- _ =>
           let HR := fresh "HR" in let T1 := fresh "T" in
           assert (HR : hreg r1 = true) by (apply (V8 _ _ A1); rewrite P1; discriminate);
           destruct (proj2 (V8 _ _ A1) HR) as [T1 _]
       end.
  all: try (exfalso; match goal with
       | NE : ?h1 <> ?h, A1 : aget ?h1 (hs _) = Some ?r1, T1 : htx ?r1 = false,
         A : aget ?h (hs _) = Some ?r, T : htx ?r = false |- _ =>
           apply NE; rewrite (RO _ _ A1 T1), (RO _ _ A T); reflexivity
       end).
  all: try (right; right;
            match goal with |- multi ?s0 = true => destruct (multi s0) eqn:M; [reflexivity|exfalso] end;
            match goal with
            | A : aget ?f (fs _) = Some ?f0, K : is_recv_kind (fk ?f0) = true,
              A1 : aget ?h1 (hs _) = Some ?r1, HR : hreg ?r1 = true |- _ =>
                rewrite (V5 M f f0 h1 r1 A K A1) in HR; discriminate HR
            end).
Qed.

(* ------------------------------------------------------------------ *)
(** * all histories *)

Definition GW (s : st) : Prop := W1 s /\ W2 s /\ W3 s /\ W4 s /\ W5 s /\ W6 s /\ W7 s /\ W8 s.

Lemma exec_GW s o : GS s -> GW s -> GW (fst (exec s o)).
Proof.
  intros G (V1&V2&V3&V4&V5&V6&V7&V8).
  split; [apply (exec_W1 s o V1)|].
  split; [apply (exec_W2 s o G V1 V2 V4 V5)|].
  split; [apply (exec_W3 s o G V8 V5 V3)|].
  split; [apply (exec_W4 s o G V4)|].
  split; [apply (exec_W5 s o G V8 V5)|].
  split; [apply (exec_W6 s o V6)|].
  split; [apply (exec_W7 s o V8 V7) | apply (exec_W8 s o V8)].
Qed.

Lemma init_GW a fc : GW (init a fc).
Proof.
  unfold GW, W1, W2, W3, W4, W5, W6, W7, W8, rpend, spend, init. cb.
  split; [intros; discriminate|].
  split; [intros f w c (fr&A&_); discriminate A|].
  split.
  { intros h w c (r&A&P). cbn [aget] in A.
    destruct (h =? 0); [inversion A; subst; discriminate P|].
    destruct (h =? 1); [inversion A; subst; discriminate P | discriminate A]. }
  split; [intros _ f1 f2 fr1 fr2 A; discriminate A|].
  split; [intros _ f fr h r A; discriminate A|].
  split; [intros; discriminate|].
  split; [intros; discriminate|].
  intros h r A. cbn [aget] in A.
  destruct (h =? 0); [inversion A; subst; cbn; split; intros; congruence|].
  destruct (h =? 1); [inversion A; subst; cbn; split; intros; congruence | discriminate A].
Qed.

Lemma reach_GW s : reach s -> GW s.
Proof.
  apply reach_ind'.
  - apply init_GW.
  - intros s0 o R H. rewrite step_fst. apply exec_GW; [apply (reach_GS s0 R) | exact H].
Qed.

(** C06, receive side: a pending receive future (single-consumer usage: no second receive-side
    waiter was ever outstanding) whose channel became non-empty or disconnected has been woken *)
Theorem recv_wake s f w c :
  reach s -> multi s = false -> rpend s f w c -> (q s <> [] \/ scount s = 0) -> c < wk s w.
Proof.
  intros R M P Rdy. destruct (reach_GW s R) as (V1&V2&_).
  destruct (V2 f w c P) as [_ [X|[X|X]]]; [|exact X|congruence].
  destruct (V1 _ _ X) as [A B]. destruct Rdy; contradiction.
Qed.

Theorem stream_wake s h w c :
  reach s -> multi s = false -> spend s h w c -> (q s <> [] \/ scount s = 0) -> c < wk s w.
Proof.
  intros R M P Rdy. destruct (reach_GW s R) as (V1&_&V3&_).
  destruct (V3 h w c P) as [_ [X|[X|X]]]; [|exact X|congruence].
  destruct (V1 _ _ X) as [A B]. destruct Rdy; contradiction.
Qed.

(** "would be ready" is exactly: own handle closed, or something buffered, or no sender left *)
Theorem poll_recv_pending_iff s f w fr r reg :
  aget f (fs s) = Some fr -> aget (fh fr) (hs s) = Some r -> fk fr = FRecv reg ->
  (snd (exec s (Poll f w)) = RPending <-> hclosed r = false /\ q s = [] /\ scount s <> 0).
Proof.
  intros A B K. cbn [exec]. unfold do_poll, poll_recv_core, deq1. rewrite A, B, K.
  destruct (hclosed r); [split; [discriminate | intros (X&_); discriminate]|].
  destruct (q s) as [|v t]; cb.
  - destruct (N.eqb_spec (scount s) 0); cb; split; try discriminate; intros; auto.
    + destruct H as (_&_&H). contradiction.
  - split; [discriminate | intros (_&X&_); discriminate].
Qed.

(** no registration ever points at a future that is gone (or that is not registered) *)
Theorem no_dangling s f w : reach s -> rw s = Some (OF f, w) ->
  exists fr, aget f (fs s) = Some fr /\ reg_of (fk fr) = true.
Proof. intros R. destruct (reach_GW s R) as (_&_&_&_&_&V6&_). apply V6. Qed.

(** sends never wait on an unbounded channel: a send future resolves on its first poll *)
Theorem send_never_pending s f w fr :
  aget f (fs s) = Some fr -> is_recv_kind (fk fr) = false -> snd (exec s (Poll f w)) <> RPending.
Proof.
  intros A K. cbn [exec]. unfold do_poll. rewrite A.
  destruct (aget (fh fr) (hs s)); [|discriminate].
  destruct (fk fr) as [[v|]|reg|rest sent total|m reg]; try discriminate.
  - destruct (hclosed h); [discriminate|]. destruct (rdrop s); discriminate.
  - destruct (hclosed h); discriminate.
  - destruct (sent =? 1); [discriminate|]. destruct (is_nil rest); [discriminate|].
    destruct (tx_dead s h); discriminate.
Qed.
