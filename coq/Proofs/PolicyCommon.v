(* Proofs/PolicyCommon.v — lemmas shared by the policy contract proofs. *)
From Fibre Require Import Common.Base Cache.PolicySpec Cache.PolicySieve.

Lemma filter_perm {A} (f : A -> bool) (a b : list A) :
  Permutation a b -> Permutation (filter f a) (filter f b).
Proof.
  induction 1 as [| x l l' _ IH | x y l | l l' l'' _ IH1 _ IH2]; cbn [filter].
  - constructor.
  - destruct (f x); [constructor; exact IH | exact IH].
  - destruct (f x), (f y); try apply Permutation_refl. apply perm_swap.
  - eapply Permutation_trans; eauto.
Qed.

Lemma without_app vs a b : without vs (a ++ b) = without vs a ++ without vs b.
Proof. unfold without. apply filter_app. Qed.

Lemma without_all vs a : incl (keys a) vs -> without vs a = [].
Proof.
  unfold without. induction a as [|[k c] t IH]; cbn [filter keys map fst]; intros H; [reflexivity|].
  assert (Hk : mem k vs = true) by (apply mem_In; apply H; left; reflexivity).
  rewrite Hk. cbn [negb]. apply IH. intros x Hx. apply H. right. exact Hx.
Qed.

Lemma without_none vs a : (forall x, In x (keys a) -> ~ In x vs) -> without vs a = a.
Proof.
  unfold without. induction a as [|[k c] t IH]; cbn [filter keys map fst]; intros H; [reflexivity|].
  assert (Hk : mem k vs = false) by (apply mem_false_In; apply H; left; reflexivity).
  rewrite Hk. cbn [negb]. f_equal. apply IH. intros x Hx. apply H. right. exact Hx.
Qed.

Lemma NoDup_app_disjoint {A} (a b : list A) x : NoDup (a ++ b) -> In x a -> ~ In x b.
Proof.
  induction a as [|y t IH]; cbn [app]; intros Hnd Hin; [contradiction|].
  inversion Hnd as [|? ? Hni Hnd']; subst.
  destruct Hin as [->|Hin].
  - intros Hb. apply Hni. apply in_or_app. right. exact Hb.
  - apply IH; assumption.
Qed.

Lemma NoDup_app_l {A} (a b : list A) : NoDup (a ++ b) -> NoDup a.
Proof.
  induction a as [|y t IH]; cbn [app]; intros Hnd; [constructor|].
  inversion Hnd as [|? ? Hni Hnd']; subst. constructor.
  - intros Hi. apply Hni. apply in_or_app. left. exact Hi.
  - apply IH. exact Hnd'.
Qed.

Lemma NoDup_app_r {A} (a b : list A) : NoDup (a ++ b) -> NoDup b.
Proof.
  induction a as [|y t IH]; cbn [app]; intros Hnd; [exact Hnd|].
  inversion Hnd; subst. apply IH. assumption.
Qed.

Lemma sum_costs_keys T V :
  NoDup (keys T) -> incl V T -> sumN (map (cost_of T) (keys V)) = total V.
Proof.
  intros Hnd. induction V as [|[k c] t IH]; cbn [keys map fst sumN total]; intros Hin; [reflexivity|].
  unfold cost_of at 1. rewrite (NoDup_lookup k c T Hnd) by (apply Hin; left; reflexivity).
  f_equal. apply IH. intros x Hx. apply Hin. right. exact Hx.
Qed.

(** The workhorse: if the tracked list splits (up to permutation) into the
    victims V and the survivors T', the C14 evict clause holds. *)
Lemma evict_ok_split T T' V n c :
  NoDup (keys T) -> Permutation T (V ++ T') -> c = total V ->
  (n <= total T -> n <= c) ->
  evict_ok T T' n (keys V) c.
Proof.
  intros Hnd HP Hc Hsuff.
  assert (HndVT : NoDup (keys V ++ keys T')).
  { rewrite <- keys_app. eapply NoDup_keys_perm; eauto. }
  unfold evict_ok. repeat split.
  - apply NoDup_app_l in HndVT. exact HndVT.
  - intros x Hx. eapply Permutation_in.
    + apply Permutation_sym, keys_perm. exact HP.
    + rewrite keys_app. apply in_or_app. left. exact Hx.
  - rewrite Hc. symmetry. apply sum_costs_keys; [exact Hnd|].
    intros x Hx. eapply Permutation_in; [apply Permutation_sym; exact HP|].
    apply in_or_app. left. exact Hx.
  - apply Permutation_sym.
    assert (H1 : Permutation (without (keys V) T) (without (keys V) (V ++ T')))
      by (unfold without; apply filter_perm; exact HP).
    eapply Permutation_trans; [exact H1|]. rewrite without_app.
    rewrite without_all by apply incl_refl.
    rewrite without_none; [apply Permutation_refl|].
    intros x Hx Hv. eapply NoDup_app_disjoint; eauto.
  - exact Hsuff.
Qed.

Lemma perm_rm_cons k c l :
  NoDup (keys l) -> lookup k l = Some c -> Permutation ((k, c) :: rm k l) l.
Proof.
  induction l as [|[k' c'] t IH]; cbn [lookup rm keys map fst]; intros Hnd Hl; [discriminate|].
  inversion Hnd as [|? ? Hni Hnd']; subst.
  destruct (N.eqb_spec k k') as [->|Hn].
  - inversion Hl; subst. rewrite rm_id by exact Hni. apply Permutation_refl.
  - eapply Permutation_trans; [apply perm_swap|]. constructor. apply IH; assumption.
Qed.

(** lifting per-step facts to every call sequence *)
Lemma prun_app P s a b :
  fst (prun P s (a ++ b)) = fst (prun P (fst (prun P s a)) b).
Proof.
  revert s. induction a as [|c r IH]; intros s; cbn [app prun]; [reflexivity|].
  destruct (pstep P s c) as [s1 o]. specialize (IH s1).
  destruct (prun P s1 (r ++ b)) as [s2 os] eqn:E1.
  destruct (prun P s1 r) as [s3 os3] eqn:E2.
  cbn [fst] in *. exact IH.
Qed.

Lemma contractG_lift (acc adm : list kc -> list kc -> N -> N -> Prop)
      (ev : list kc -> list kc -> N -> list N -> N -> Prop) (P : policy) (Inv : pst P -> Prop) :
  Inv (pinit P) ->
  (forall s cl, Inv s -> Inv (fst (pstep P s cl))) ->
  (forall s, Inv s -> NoDup (keys (ptracked P s))) ->
  (forall s cl, Inv s ->
     let '(s', o) := pstep P s cl in step_okG acc adm ev (ptracked P s) cl o (ptracked P s')) ->
  contractG acc adm ev P.
Proof.
  intros Hinit Hstep Hnd Hok cs.
  assert (HI : Inv (pstate_after P cs)).
  { unfold pstate_after. induction cs as [|c r IH] using rev_ind; [exact Hinit|].
    rewrite prun_app. cbn [prun].
    destruct (pstep P (fst (prun P (pinit P) r)) c) as [s1 o] eqn:E.
    cbn [fst]. specialize (Hstep _ c IH). rewrite E in Hstep. exact Hstep. }
  cbv zeta. split; [apply Hnd; exact HI | intros cl; apply Hok; exact HI].
Qed.

Lemma contract_lift (clause : list kc -> list kc -> N -> N -> Prop) (P : policy)
      (Inv : pst P -> Prop) :
  Inv (pinit P) ->
  (forall s cl, Inv s -> Inv (fst (pstep P s cl))) ->
  (forall s, Inv s -> NoDup (keys (ptracked P s))) ->
  (forall s cl, Inv s ->
     let '(s', o) := pstep P s cl in step_ok clause (ptracked P s) cl o (ptracked P s')) ->
  contract clause P.
Proof. apply contractG_lift. Qed.

(** weakening between clause sets *)
Lemma evict_ok_core T T' n vs c : evict_ok T T' n vs c -> evict_core T T' vs c.
Proof. intros [A [B [C [D _]]]]. repeat split; assumption. Qed.

Lemma evict_core_ok T T' n vs c :
  evict_core T T' vs c -> (n <= total T -> n <= c) -> evict_ok T T' n vs c.
Proof. intros [A [B [C D]]] E. repeat split; assumption. Qed.

(** small list facts used by the segmented policies *)
Lemma rm_app k a b : rm k (a ++ b) = rm k a ++ rm k b.
Proof. rewrite !rm_filter. apply filter_app. Qed.

Lemma lookup_app k a b :
  lookup k (a ++ b) = match lookup k a with Some c => Some c | None => lookup k b end.
Proof.
  induction a as [|[k' c'] t IH]; cbn [app lookup]; [reflexivity|].
  destruct (N.eqb k k'); [reflexivity | exact IH].
Qed.

Lemma without_perm vs a b : Permutation a b -> Permutation (without vs a) (without vs b).
Proof. unfold without. apply filter_perm. Qed.

Lemma rm_perm k a b : Permutation a b -> Permutation (rm k a) (rm k b).
Proof. rewrite !rm_filter. apply filter_perm. Qed.

(** The generic outer eviction loop ([evict_loop] of PolicySieve.v) under a state
    invariant: every iteration removes one tracked entry.  Used by Random and Arc
    (Sieve/Clock use the invariant-free form in PolicySieveProofs.v). *)
Section LoopInv.
  Context {St : Type} (one : St -> option (ent * St)) (tr : St -> list kc) (Inv : St -> Prop).
  Hypothesis one_some : forall s v s', Inv s -> one s = Some (v, s') ->
                                       Permutation (tr s) (ekc v :: tr s') /\ Inv s'.

  Lemma evict_loop_inv fuel : forall want freed s acc s' vs f,
    Inv s ->
    evict_loop one fuel want freed s acc = (s', vs, f) ->
    (length (tr s) <= fuel)%nat ->
    exists V, vs = rev acc ++ keys V /\ f = freed + total V
      /\ Permutation (tr s) (V ++ tr s') /\ Inv s'
      /\ (want <= f \/ one s' = None \/ tr s' = []).
  Proof.
    induction fuel as [|fu IH]; intros want freed s acc s' vs f HI H Hlen; cbn [evict_loop] in H.
    - inversion H; subst. exists []. cbn [keys map app total]. repeat split.
      + rewrite app_nil_r. reflexivity.
      + lia.
      + apply Permutation_refl.
      + exact HI.
      + right. right. destruct (tr s'); [reflexivity | cbn [length] in Hlen; lia].
    - destruct (N.ltb_spec freed want) as [Hlt|Hge].
      + destruct (one s) as [[v s1]|] eqn:E.
        * destruct (one_some _ _ _ HI E) as [HP HI1].
          assert (Hlen1 : (length (tr s1) <= fu)%nat).
          { apply Permutation_length in HP. cbn [length] in HP. lia. }
          destruct (IH _ _ _ _ _ _ _ HI1 H Hlen1) as [V [Hv [Hf [HP2 [HI2 Hs]]]]].
          exists (ekc v :: V). cbn [keys map fst app total]. repeat split.
          -- rewrite Hv. cbn [rev]. rewrite <- app_assoc. reflexivity.
          -- rewrite Hf. unfold ekc, ecost. destruct v as [[vk vc] vf]. cbn [fst snd]. lia.
          -- eapply Permutation_trans; [exact HP|]. constructor. exact HP2.
          -- exact HI2.
          -- exact Hs.
        * inversion H; subst. exists []. cbn [keys map app total]. repeat split.
          -- rewrite app_nil_r. reflexivity.
          -- lia.
          -- apply Permutation_refl.
          -- exact HI.
          -- right. left. exact E.
      + inversion H; subst. exists []. cbn [keys map app total]. repeat split.
        * rewrite app_nil_r. reflexivity.
        * lia.
        * apply Permutation_refl.
        * exact HI.
        * left. lia.
  Qed.
End LoopInv.

(** Every clause of the contract keeps the tracked keys duplicate-free, so for a
    policy whose invariant is just [NoDup (keys tracked)] the per-step clauses
    are all that has to be proved. *)
Lemma filter_keys_In (f : kc -> bool) l x : In x (keys (filter f l)) -> In x (keys l).
Proof.
  unfold keys. rewrite !in_map_iff. intros [p [Hp Hi]]. apply filter_In in Hi.
  exists p. tauto.
Qed.

Lemma filter_keys_NoDup (f : kc -> bool) l : NoDup (keys l) -> NoDup (keys (filter f l)).
Proof.
  induction l as [|[k c] t IH]; cbn [filter keys map fst]; intros H; [constructor|].
  inversion H as [|? ? Hni Hnd]; subst.
  destruct (f (k, c)); [|apply IH; exact Hnd].
  cbn [keys map fst]. constructor; [|apply IH; exact Hnd].
  intros Hi. apply Hni. eapply filter_keys_In. exact Hi.
Qed.

Lemma without_NoDup vs l : NoDup (keys l) -> NoDup (keys (without vs l)).
Proof. apply filter_keys_NoDup. Qed.

Lemma without_keys_In vs l x : In x (keys (without vs l)) -> In x (keys l).
Proof. apply filter_keys_In. Qed.

Lemma NoDup_cons_rm k c l : NoDup (keys l) -> NoDup (keys ((k, c) :: rm k l)).
Proof.
  intros H. cbn [keys map fst]. constructor; [apply rm_not_in | apply rm_NoDup; exact H].
Qed.

Lemma perm_NoDup_keys a b : Permutation b a -> NoDup (keys a) -> NoDup (keys b).
Proof. intros P H. eapply NoDup_keys_perm; [apply Permutation_sym; exact P | exact H]. Qed.

Lemma access_keep_NoDup T T' k c : NoDup (keys T) -> access_keep T T' k c -> NoDup (keys T').
Proof. intros H P. eapply perm_NoDup_keys; eauto. Qed.

Lemma access_update_NoDup T T' k c : NoDup (keys T) -> access_update T T' k c -> NoDup (keys T').
Proof.
  unfold access_update. intros H P. destruct (lookup k T).
  - eapply perm_NoDup_keys; [exact P | apply NoDup_cons_rm; exact H].
  - eapply perm_NoDup_keys; eauto.
Qed.

Lemma admit_full_NoDup T T' k c : NoDup (keys T) -> admit_full T T' k c -> NoDup (keys T').
Proof. intros H P. eapply perm_NoDup_keys; [exact P | apply NoDup_cons_rm; exact H]. Qed.

Lemma admit_keep_old_NoDup T T' k c : NoDup (keys T) -> admit_keep_old T T' k c -> NoDup (keys T').
Proof.
  unfold admit_keep_old. intros H P. destruct (lookup k T) eqn:E.
  - eapply perm_NoDup_keys; eauto.
  - eapply perm_NoDup_keys; [exact P|]. cbn [keys map fst].
    constructor; [apply lookup_None; exact E | exact H].
Qed.

Lemma admit_demote_NoDup T T' k c : NoDup (keys T) -> admit_demote T T' k c -> NoDup (keys T').
Proof.
  intros H [D [_ [_ [_ P]]]]. eapply perm_NoDup_keys; [exact P|].
  apply NoDup_cons_rm. apply without_NoDup. exact H.
Qed.

Lemma admit_evict_full_NoDup T T' k c vs :
  NoDup (keys T) -> admit_evict_full T T' k c vs -> NoDup (keys T').
Proof.
  intros H [_ [_ P]]. eapply perm_NoDup_keys; [exact P|].
  apply without_NoDup. apply NoDup_cons_rm. exact H.
Qed.

Lemma evict_core_NoDup T T' vs c : NoDup (keys T) -> evict_core T T' vs c -> NoDup (keys T').
Proof.
  intros H [_ [_ [_ P]]]. eapply perm_NoDup_keys; [exact P | apply without_NoDup; exact H].
Qed.

Definition keeps_nodup4 (cl : list kc -> list kc -> N -> N -> Prop) : Prop :=
  forall T T' k c, NoDup (keys T) -> cl T T' k c -> NoDup (keys T').

Lemma contractG_lift_nodup (acc adm : list kc -> list kc -> N -> N -> Prop)
      (ev : list kc -> list kc -> N -> list N -> N -> Prop) (P : policy) :
  keeps_nodup4 acc -> keeps_nodup4 adm ->
  (forall T T' n vs c, ev T T' n vs c -> evict_core T T' vs c) ->
  NoDup (keys (ptracked P (pinit P))) ->
  (forall s cl, NoDup (keys (ptracked P s)) ->
     let '(s', o) := pstep P s cl in step_okG acc adm ev (ptracked P s) cl o (ptracked P s')) ->
  contractG acc adm ev P.
Proof.
  intros Hacc Hadm Hev Hinit Hok.
  apply (contractG_lift acc adm ev P (fun s => NoDup (keys (ptracked P s)))).
  - exact Hinit.
  - intros s cl HI. specialize (Hok s cl HI).
    destruct (pstep P s cl) as [s' o]. cbn [fst].
    destruct cl as [k c|k c|k|n|]; destruct o as [| | |vs|vs c0]; cbn [step_okG] in Hok;
      try contradiction.
    + eapply Hacc; eauto.
    + eapply Hadm; eauto.
    + eapply admit_evict_full_NoDup; eauto.
    + eapply perm_NoDup_keys; [exact Hok | apply rm_NoDup; exact HI].
    + eapply evict_core_NoDup; [exact HI | eapply Hev; exact Hok].
    + rewrite Hok. constructor.
  - intros s H. exact H.
  - exact Hok.
Qed.

(** the contract is monotone in its clauses: refuting a weakened statement
    refutes every stronger one, in particular the full one *)
Lemma contractG_mono (acc acc' adm adm' : list kc -> list kc -> N -> N -> Prop)
      (ev ev' : list kc -> list kc -> N -> list N -> N -> Prop) (P : policy) :
  (forall T T' k c, acc T T' k c -> acc' T T' k c) ->
  (forall T T' k c, adm T T' k c -> adm' T T' k c) ->
  (forall T T' n vs c, ev T T' n vs c -> ev' T T' n vs c) ->
  contractG acc adm ev P -> contractG acc' adm' ev' P.
Proof.
  intros Hacc Hadm Hev H cs. specialize (H cs). cbv zeta in *. destruct H as [Hnd H].
  split; [exact Hnd|]. intros cl. specialize (H cl).
  destruct (pstep P (pstate_after P cs) cl) as [s' o].
  destruct cl as [k c|k c|k|n|]; destruct o as [| | |vs|vs c0]; cbn [step_okG] in *; auto.
Qed.
