(* Proofs/PolicyCommon.v — lemmas shared by the policy contract proofs. *)
From Fibre Require Import Common.Base Cache.PolicySpec.

Lemma filter_perm {A} (f : A -> bool) (a b : list A) :
  Permutation a b -> Permutation (filter f a) (filter f b).
Proof.
  induction 1 as [| x l l' _ IH | x y l | l l' l'' _ IH1 _ IH2]; cbn [filter].
  - constructor.
  - destruct (f x); [constructor; exact IH | exact IH].
  - destruct (f x), (f y); try apply Permutation_refl. apply perm_swap.
  - eapply Permutation_trans; eauto.
Qed.

Lemma without_app vs a b : without vs (a ++ b) = without vs a ++ without vs b.
Proof. unfold without. apply filter_app. Qed.

Lemma without_all vs a : incl (keys a) vs -> without vs a = [].
Proof.
  unfold without. induction a as [|[k c] t IH]; cbn [filter keys map fst]; intros H; [reflexivity|].
  assert (Hk : mem k vs = true) by (apply mem_In; apply H; left; reflexivity).
  rewrite Hk. cbn [negb]. apply IH. intros x Hx. apply H. right. exact Hx.
Qed.

Lemma without_none vs a : (forall x, In x (keys a) -> ~ In x vs) -> without vs a = a.
Proof.
  unfold without. induction a as [|[k c] t IH]; cbn [filter keys map fst]; intros H; [reflexivity|].
  assert (Hk : mem k vs = false) by (apply mem_false_In; apply H; left; reflexivity).
  rewrite Hk. cbn [negb]. f_equal. apply IH. intros x Hx. apply H. right. exact Hx.
Qed.

Lemma NoDup_app_disjoint {A} (a b : list A) x : NoDup (a ++ b) -> In x a -> ~ In x b.
Proof.
  induction a as [|y t IH]; cbn [app]; intros Hnd Hin; [contradiction|].
  inversion Hnd as [|? ? Hni Hnd']; subst.
  destruct Hin as [->|Hin].
  - intros Hb. apply Hni. apply in_or_app. right. exact Hb.
  - apply IH; assumption.
Qed.

Lemma NoDup_app_l {A} (a b : list A) : NoDup (a ++ b) -> NoDup a.
Proof.
  induction a as [|y t IH]; cbn [app]; intros Hnd; [constructor|].
  inversion Hnd as [|? ? Hni Hnd']; subst. constructor.
  - intros Hi. apply Hni. apply in_or_app. left. exact Hi.
  - apply IH. exact Hnd'.
Qed.

Lemma NoDup_app_r {A} (a b : list A) : NoDup (a ++ b) -> NoDup b.
Proof.
  induction a as [|y t IH]; cbn [app]; intros Hnd; [exact Hnd|].
  inversion Hnd; subst. apply IH. assumption.
Qed.

Lemma sum_costs_keys T V :
  NoDup (keys T) -> incl V T -> sumN (map (cost_of T) (keys V)) = total V.
Proof.
  intros Hnd. induction V as [|[k c] t IH]; cbn [keys map fst sumN total]; intros Hin; [reflexivity|].
  unfold cost_of at 1. rewrite (NoDup_lookup k c T Hnd) by (apply Hin; left; reflexivity).
  f_equal. apply IH. intros x Hx. apply Hin. right. exact Hx.
Qed.

(** The workhorse: if the tracked list splits (up to permutation) into the
    victims V and the survivors T', the C14 evict clause holds. *)
Lemma evict_ok_split T T' V n c :
  NoDup (keys T) -> Permutation T (V ++ T') -> c = total V ->
  (n <= total T -> n <= c) ->
  evict_ok T T' n (keys V) c.
Proof.
  intros Hnd HP Hc Hsuff.
  assert (HndVT : NoDup (keys V ++ keys T')).
  { rewrite <- keys_app. eapply NoDup_keys_perm; eauto. }
  unfold evict_ok. repeat split.
  - apply NoDup_app_l in HndVT. exact HndVT.
  - intros x Hx. eapply Permutation_in.
    + apply Permutation_sym, keys_perm. exact HP.
    + rewrite keys_app. apply in_or_app. left. exact Hx.
  - rewrite Hc. symmetry. apply sum_costs_keys; [exact Hnd|].
    intros x Hx. eapply Permutation_in; [apply Permutation_sym; exact HP|].
    apply in_or_app. left. exact Hx.
  - apply Permutation_sym.
    assert (H1 : Permutation (without (keys V) T) (without (keys V) (V ++ T')))
      by (unfold without; apply filter_perm; exact HP).
    eapply Permutation_trans; [exact H1|]. rewrite without_app.
    rewrite without_all by apply incl_refl.
    rewrite without_none; [apply Permutation_refl|].
    intros x Hx Hv. eapply NoDup_app_disjoint; eauto.
  - exact Hsuff.
Qed.

Lemma perm_rm_cons k c l :
  NoDup (keys l) -> lookup k l = Some c -> Permutation ((k, c) :: rm k l) l.
Proof.
  induction l as [|[k' c'] t IH]; cbn [lookup rm keys map fst]; intros Hnd Hl; [discriminate|].
  inversion Hnd as [|? ? Hni Hnd']; subst.
  destruct (N.eqb_spec k k') as [->|Hn].
  - inversion Hl; subst. rewrite rm_id by exact Hni. apply Permutation_refl.
  - eapply Permutation_trans; [apply perm_swap|]. constructor. apply IH; assumption.
Qed.

(** lifting per-step facts to every call sequence *)
Lemma prun_app P s a b :
  fst (prun P s (a ++ b)) = fst (prun P (fst (prun P s a)) b).
Proof.
  revert s. induction a as [|c r IH]; intros s; cbn [app prun]; [reflexivity|].
  destruct (pstep P s c) as [s1 o]. specialize (IH s1).
  destruct (prun P s1 (r ++ b)) as [s2 os] eqn:E1.
  destruct (prun P s1 r) as [s3 os3] eqn:E2.
  cbn [fst] in *. exact IH.
Qed.

Lemma contract_lift (clause : list kc -> list kc -> N -> N -> Prop) (P : policy)
      (Inv : pst P -> Prop) :
  Inv (pinit P) ->
  (forall s cl, Inv s -> Inv (fst (pstep P s cl))) ->
  (forall s, Inv s -> NoDup (keys (ptracked P s))) ->
  (forall s cl, Inv s ->
     let '(s', o) := pstep P s cl in step_ok clause (ptracked P s) cl o (ptracked P s')) ->
  contract clause P.
Proof.
  intros Hinit Hstep Hnd Hok cs.
  assert (HI : Inv (pstate_after P cs)).
  { unfold pstate_after. induction cs as [|c r IH] using rev_ind; [exact Hinit|].
    rewrite prun_app. cbn [prun].
    destruct (pstep P (fst (prun P (pinit P) r)) c) as [s1 o] eqn:E.
    cbn [fst]. specialize (Hstep _ c IH). rewrite E in Hstep. exact Hstep. }
  cbv zeta. split; [apply Hnd; exact HI | intros cl; apply Hok; exact HI].
Qed.
