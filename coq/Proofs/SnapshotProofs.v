(* Proofs/SnapshotProofs.v — restore (snapshot c): same live key -> (value, cost)
   mapping, current_cost = sum of the restored costs, TTL lifetimes carried
   over exactly; the TTI lifetime is not (refuted clause). *)
From Fibre Require Import Common.Base Cache.PolicySpec Cache.PolicyLru Cache.Iter Cache.Snapshot
     Proofs.PolicyCommon Proofs.IterProofs.
From Coq Require Import ZifyBool ZifyNat ZifyN.

(* ------------------------------------------------------------------------ *)
(** list helpers *)

Lemma NoDup_app_intro {A} (a b : list A) :
  NoDup a -> NoDup b -> (forall x, In x a -> ~ In x b) -> NoDup (a ++ b).
Proof.
  induction a as [|h t IH]; cbn [app]; intros Ha Hb Hd; [exact Hb|].
  inversion Ha as [|? ? Hni Ht]; subst. constructor.
  - intros Hin. apply in_app_or in Hin. destruct Hin as [Hin|Hin]; [exact (Hni Hin)|].
    apply (Hd h); [left; reflexivity|exact Hin].
  - apply IH; [exact Ht|exact Hb|]. intros x Hx. apply Hd. right. exact Hx.
Qed.

Lemma NoDup_map_filter {A B} (f : A -> B) (p : A -> bool) l :
  NoDup (map f l) -> NoDup (map f (filter p l)).
Proof.
  induction l as [|h t IH]; cbn [map filter]; intros H; [constructor|].
  inversion H as [|? ? Hni Ht]; subst. destruct (p h); cbn [map]; [|apply IH; exact Ht].
  constructor; [|apply IH; exact Ht].
  intros Hin. apply Hni. apply in_map_iff in Hin. destruct Hin as [x [Hx Hxi]].
  apply filter_In in Hxi. apply in_map_iff. exists x. split; [exact Hx|apply Hxi].
Qed.

Lemma sumN_app a b : sumN (a ++ b) = sumN a + sumN b.
Proof. induction a as [|x t IH]; cbn [app sumN]; [lia|rewrite IH; lia]. Qed.

Lemma sumN_perm a b : Permutation a b -> sumN a = sumN b.
Proof. induction 1; cbn [sumN]; lia. Qed.

Lemma nth_map_seq {A} (F : nat -> A) (n j : nat) (d : A) :
  (j < n)%nat -> nth j (map F (seq 0 n)) d = F j.
Proof.
  intros H. rewrite (nth_indep _ d (F 0%nat)) by (rewrite map_length, seq_length; exact H).
  rewrite map_nth. rewrite seq_nth by exact H. reflexivity.
Qed.

Lemma shard_idx_lt n k : (0 < n)%nat -> (shard_idx n k < n)%nat.
Proof.
  intros H. unfold shard_idx.
  assert (k mod N.of_nat n < N.of_nat n) by (apply N.mod_lt; lia). lia.
Qed.

(* keys of distinct shards are distinct: no key twice in the whole map *)
Lemma NoDup_concat_idx (g : N -> nat) : forall (l : list (list entry)) (off : nat),
  (forall j, (j < length l)%nat ->
     NoDup (map ekey (nth j l [])) /\ forall e, In e (nth j l []) -> g (ekey e) = (off + j)%nat) ->
  NoDup (map ekey (concat l)).
Proof.
  induction l as [|a t IH]; intros off H; cbn [concat map]; [constructor|].
  rewrite map_app. apply NoDup_app_intro.
  - apply (H 0%nat). cbn [length]. lia.
  - apply (IH (S off)). intros j Hj. specialize (H (S j)). cbn [length nth] in H.
    destruct H as [H1 H2]; [lia|]. split; [exact H1|]. intros e He. rewrite (H2 e He). lia.
  - intros k Hk Hk2.
    apply in_map_iff in Hk. destruct Hk as [e [Hek He]].
    apply in_map_iff in Hk2. destruct Hk2 as [e2 [Hek2 He2]].
    apply in_concat in He2. destruct He2 as [sh [Hsh He2]].
    destruct (In_nth t sh [] Hsh) as [j [Hj Hn]].
    destruct (H 0%nat) as [_ H0]; [cbn [length]; lia|]. cbn [nth] in H0.
    destruct (H (S j)) as [_ HS]; [cbn [length]; lia|]. cbn [nth] in HS. rewrite Hn in HS.
    specialize (H0 e He). specialize (HS e2 He2). rewrite Hek in H0. rewrite Hek2 in HS. lia.
Qed.

Lemma wf_NoDup_concat shards : wf_from 0 shards -> NoDup (map ekey (concat shards)).
Proof.
  intros H. apply (NoDup_concat_idx (shard_idx (length shards)) shards 0%nat).
  intros j Hj. destruct (H j) as [H1 H2]; [lia|]. split; [exact H1|exact H2].
Qed.

(* ------------------------------------------------------------------------ *)
(** upsert *)

Lemma upsert_absent e m : ~ In (ekey e) (map ekey m) -> upsert e m = (m ++ [e], None).
Proof.
  induction m as [|h t IH]; cbn [upsert map app]; intros H; [reflexivity|].
  destruct (N.eqb_spec (ekey h) (ekey e)) as [Hk|Hk]; [exfalso; apply H; left; exact Hk|].
  rewrite IH by (intros Hi; apply H; right; exact Hi). reflexivity.
Qed.

Lemma fold_upsert_NoDup : forall l acc,
  NoDup (map ekey (acc ++ l)) ->
  fold_left (fun m e => fst (upsert e m)) l acc = acc ++ l.
Proof.
  induction l as [|e t IH]; intros acc H; cbn [fold_left]; [rewrite app_nil_r; reflexivity|].
  rewrite upsert_absent.
  - cbn [fst]. rewrite IH; rewrite <- app_assoc; [reflexivity|exact H].
  - rewrite map_app in H. cbn [map] in H. apply NoDup_remove_2 in H.
    intros Hi. apply H. apply in_or_app. left. exact Hi.
Qed.

Lemma restore_shard_eq n i es :
  NoDup (map ekey es) ->
  restore_shard n i es = filter (fun e => Nat.eqb (shard_idx n (ekey e)) i) es.
Proof.
  intros H. unfold restore_shard. rewrite fold_upsert_NoDup; [reflexivity|].
  cbn [app]. apply NoDup_map_filter. exact H.
Qed.

(* ------------------------------------------------------------------------ *)
(** snapshot then restore *)

Definition kvc (e : entry) : N * N * N := (ekey e, eval e, ecost e).

Definition wf (c : cache) : Prop := (0 < length (c_shs c))%nat /\ wf_from 0 (maps c).

(* TTL lifetime left at time t (None = no TTL) *)
Definition ttl_left (t : N) (e : entry) : option N :=
  if N.eqb (eexp e) 0 then None else Some (eexp e - t).

(* lifetime left at time t, all causes: TTL and idle timeout (None = unlimited) *)
Definition omin (a b : option N) : option N :=
  match a, b with
  | None, x => x
  | x, None => x
  | Some x, Some y => Some (N.min x y)
  end.

Definition life_left (tti : option N) (t : N) (e : entry) : option N :=
  omin (ttl_left t e) (match tti with Some d => Some (ela e + d - t) | None => None end).

(* a <= b with None = infinity *)
Definition ole (a b : option N) : Prop :=
  match a, b with
  | _, None => True
  | None, Some _ => False
  | Some x, Some y => x <= y
  end.

Lemma insert_by_key_perm p l : Permutation (insert_by_key p l) (p :: l).
Proof.
  induction l as [|h t IH]; cbn [insert_by_key]; [apply Permutation_refl|].
  destruct (N.leb (pkey p) (pkey h)); [apply Permutation_refl|].
  eapply Permutation_trans; [apply perm_skip; exact IH|apply perm_swap].
Qed.

Lemma sort_by_key_perm l : Permutation (sort_by_key l) l.
Proof.
  induction l as [|h t IH]; cbn [sort_by_key fold_right]; [constructor|].
  eapply Permutation_trans; [apply insert_by_key_perm|]. constructor. exact IH.
Qed.

(* [ps] is the snapshot's entry list in any order: a serialized snapshot is a bag
   of entries (the D1 harness sorts it by key, a plain round trip keeps it) *)
Section Restore.
  Variable c : cache.
  Variable ps : list pentry.
  Variable now' : N.
  Variable ttl' tti' : option N.
  Hypothesis Hwf : wf c.
  Hypothesis Hperm : Permutation ps (s_entries (snapshot c)).

  Let L := filter (live (c_tti c) (c_now c)) (concat (maps c)).
  Let conv (e : entry) : entry := entry_of_p now' tti' (pentry_of (c_now c) e).
  Let es := map (entry_of_p now' tti') ps.
  Let c' := restore (mkSnap ps (c_cap c) (length (c_shs c))) now' ttl' tti'.
  Let n := length (c_shs c).

  Lemma conv_key e : ekey (conv e) = ekey e. Proof. reflexivity. Qed.
  Lemma conv_kvc e : kvc (conv e) = kvc e. Proof. reflexivity. Qed.

  Lemma L_NoDup : NoDup (map ekey L).
  Proof. apply NoDup_map_filter. apply wf_NoDup_concat. apply Hwf. Qed.

  Lemma es_perm : Permutation es (map conv L).
  Proof.
    unfold es. eapply Permutation_trans; [apply Permutation_map; exact Hperm|].
    unfold snapshot. cbn [s_entries]. fold (maps c). fold L. rewrite map_map. apply Permutation_refl.
  Qed.

  Lemma es_NoDup : NoDup (map ekey es).
  Proof.
    eapply Permutation_NoDup; [apply Permutation_sym; apply Permutation_map; exact es_perm|].
    rewrite map_map. rewrite (map_ext _ ekey) by (intros; apply conv_key). exact L_NoDup.
  Qed.

  (* the restored shards: map, policy, empty buffer *)
  Lemma restore_shs :
    c_shs c' = map (fun i => mkSh (filter (fun e => Nat.eqb (shard_idx n (ekey e)) i) es)
                                  (restore_policy (c_cap c) n i es) []) (seq 0 n).
  Proof.
    unfold c', restore. cbn [c_shs s_entries s_shards s_cap]. fold es. fold n.
    apply map_ext. intros i. rewrite restore_shard_eq by exact es_NoDup. reflexivity.
  Qed.

  Lemma restore_maps :
    maps c' = map (fun i => filter (fun e => Nat.eqb (shard_idx n (ekey e)) i) es) (seq 0 n).
  Proof. unfold maps. rewrite restore_shs, map_map. reflexivity. Qed.

  Lemma restore_len : length (c_shs c') = n.
  Proof. rewrite restore_shs, map_length, seq_length. reflexivity. Qed.

  Lemma restore_wf : wf c'.
  Proof.
    destruct Hwf as [Hn _]. split; [rewrite restore_len; exact Hn|].
    intros j Hj. unfold maps in Hj. rewrite map_length, restore_len in Hj.
    assert (Hlen : length (maps c') = n) by (unfold maps; rewrite map_length; apply restore_len).
    rewrite Hlen. rewrite restore_maps. rewrite nth_map_seq by lia. split.
    - apply NoDup_map_filter. exact es_NoDup.
    - intros e He. apply filter_In in He. destruct He as [_ He]. apply Nat.eqb_eq in He. exact He.
  Qed.

  Lemma restore_concat_es : Permutation (concat (maps c')) es.
  Proof.
    destruct Hwf as [Hn _]. fold n in Hn.
    apply NoDup_Permutation.
    - apply (NoDup_map_inv ekey). apply wf_NoDup_concat. apply restore_wf.
    - apply (NoDup_map_inv ekey). exact es_NoDup.
    - intros e. rewrite restore_maps. split.
      + intros H. apply in_concat in H. destruct H as [sh [Hsh He]].
        apply in_map_iff in Hsh. destruct Hsh as [i [<- _]]. apply filter_In in He. apply He.
      + intros H. apply in_concat. exists (filter (fun e0 => Nat.eqb (shard_idx n (ekey e0)) (shard_idx n (ekey e))) es).
        split.
        * apply in_map_iff. exists (shard_idx n (ekey e)). split; [reflexivity|].
          apply in_seq. pose proof (shard_idx_lt n (ekey e) Hn). lia.
        * apply filter_In. split; [exact H|apply Nat.eqb_refl].
  Qed.

  Lemma restore_concat_perm : Permutation (concat (maps c')) (map conv L).
  Proof. eapply Permutation_trans; [exact restore_concat_es|exact es_perm]. Qed.

  (* same key -> (value, cost) mapping as the live part of the original *)
  Theorem restore_mapping :
    Permutation (map kvc (concat (maps c'))) (map kvc L).
  Proof.
    eapply Permutation_trans; [apply Permutation_map; apply restore_concat_perm|].
    rewrite map_map. rewrite (map_ext _ kvc) by (intros; apply conv_kvc). apply Permutation_refl.
  Qed.

  Lemma restored_origin e' : In e' (concat (maps c')) -> exists e, In e L /\ e' = conv e.
  Proof.
    intros H. apply (Permutation_in _ restore_concat_perm) in H.
    apply in_map_iff in H. destruct H as [e [He Hi]]. exists e. split; [exact Hi|symmetry; exact He].
  Qed.

  (* every restored entry is live at the moment of the restore *)
  Theorem restore_all_live :
    tti' <> Some 0 -> forall e', In e' (concat (maps c')) -> live tti' now' e' = true.
  Proof.
    intros Ht e' H. destruct (restored_origin e' H) as [e [He ->]].
    unfold L in He. apply filter_In in He. destruct He as [_ Hl].
    unfold live, is_expired in *. unfold conv, entry_of_p, pentry_of. cbn [eexp ela pttl].
    destruct (N.eqb_spec (eexp e) 0) as [Hz|Hz].
    - destruct tti' as [d|]; [|reflexivity]. assert (d <> 0) by congruence. lia.
    - destruct (N.leb_spec (c_now c) (eexp e)) as [Hle|Hgt].
      + destruct tti' as [d|]; [assert (d <> 0) by congruence|]; destruct (c_tti c); lia.
      + destruct (c_tti c); lia.
  Qed.

  (* metrics.current_cost of the restored cache = sum of the costs now resident *)
  Theorem restore_cost :
    c_cost c' = sumN (map ecost (concat (maps c'))) /\ c_cost c' = sumN (map ecost L).
  Proof.
    assert (H2 : c_cost c' = sumN (map ecost L)).
    { unfold c', restore. cbn [c_cost s_entries].
      rewrite (sumN_perm _ _ (Permutation_map pcost Hperm)).
      unfold snapshot. cbn [s_entries]. fold (maps c). fold L. rewrite map_map. reflexivity. }
    split; [|exact H2]. rewrite H2.
    rewrite (sumN_perm _ _ (Permutation_map ecost restore_concat_perm)).
    rewrite map_map. reflexivity.
  Qed.

  (* the TTL lifetime left is carried over exactly *)
  Theorem restore_ttl e : In e L -> ttl_left now' (conv e) = ttl_left (c_now c) e.
  Proof.
    intros He. unfold L in He. apply filter_In in He. destruct He as [_ Hl].
    unfold live, is_expired in Hl. unfold ttl_left, conv, entry_of_p, pentry_of. cbn [eexp pttl].
    destruct (N.eqb_spec (eexp e) 0) as [Hz|Hz]; [reflexivity|].
    destruct (N.leb_spec (c_now c) (eexp e)) as [Hle|Hgt].
    - destruct (N.eqb_spec (now' + (eexp e - c_now c)) 0) as [H0|H0].
      + destruct (c_tti c); lia.
      + f_equal. lia.
    - destruct (c_tti c); lia.
  Qed.

  (* without an idle timeout in the original, no restored lifetime is longer *)
  Theorem restore_life_no_tti e :
    c_tti c = None -> In e L -> ole (life_left tti' now' (conv e)) (life_left (c_tti c) (c_now c) e).
  Proof.
    intros Hn He. unfold life_left. rewrite (restore_ttl e He), Hn.
    destruct (ttl_left (c_now c) e) as [x|]; destruct tti' as [d|]; cbn [omin ole]; try exact I; lia.
  Qed.

  (* ... whatever time_to_live / time_to_idle the restoring builder has: every entry of the
     restored cache comes from a live entry of the original with the same key, value and
     cost, and has exactly that entry's TTL lifetime left (none if it had none) *)
  Theorem restore_ttl_any_builder e' :
    In e' (concat (maps c')) ->
    exists e, In e L /\ kvc e' = kvc e /\ ttl_left now' e' = ttl_left (c_now c) e.
  Proof.
    intros H. destruct (restored_origin e' H) as [e [He ->]]. exists e.
    split; [exact He|]. split; [apply conv_kvc|apply restore_ttl; exact He].
  Qed.

  Theorem restore_cap : c_cap c' = c_cap c.
  Proof. reflexivity. Qed.
End Restore.
