(* Proofs/SpscK3Examples.v — non-vacuity witnesses for the K3 SPSC theorems: concrete schedules,
   evaluated with vm_compute, that really park and are woken, wrap the indices around the physical
   buffer, fail a try_send, and run the teardown. *)
From Fibre Require Import Common.Base Common.Conc Chan.SpscK3 Proofs.SpscK3Proofs.
(* ---------------------------------------------------------------- non-vacuity witnesses *)
Fixpoint rep (n : nat) (t : tid) : list (tid * choice) :=
  match n with O => [] | S m => (t, CGo) :: rep m t end.

(* cap 1 (phys 2): the consumer runs first, registers and parks; the producer publishes, reads the
   gate, takes the registration and unparks; the consumer wakes, receives; indices wrap around
   the two physical cells over three sends; everything terminates and the ring is drained *)
Definition ex_sys := sys 1 2 [Send; Send; Send] [Recv; Recv; Recv].
Definition ex_s1 := fst (run ex_sys (init [Send; Send; Send] [Recv; Recv; Recv]) (rep 40 TC)).
Definition ex_s2 := fst (run ex_sys ex_s1 (rep 40 TP)).
Definition ex_s3 := fst (run ex_sys ex_s2 (rep 200 TC ++ rep 200 TP ++ rep 200 TC ++ rep 200 TP ++ rep 200 TC)).

Lemma ex_parks : consumer_parked ex_s1 /\ cw_slot ex_s1 = true /\ recv_w ex_s1 = 1.
Proof. vm_compute. repeat split; reflexivity. Qed.
Lemma ex_wakes_and_blocks : tok_c ex_s2 = true /\ c_notif ex_s2 = true /\ producer_parked ex_s2 /\ tail ex_s2 = 1.
Proof. vm_compute. repeat split; reflexivity. Qed.
Lemma ex_completes :
  ppc ex_s3 = PDone /\ cpc ex_s3 = CDone /\ cresults ex_s3 = [RVal 1; RVal 2; RVal 3] /\
  presults ex_s3 = [POk 1; POk 2; POk 3] /\ tail ex_s3 = 3 /\ quiescent_ns 1 2 ex_s3.
Proof.
  repeat match goal with |- _ /\ _ => split end; try (vm_compute; reflexivity).
  intros []; split; vm_compute; reflexivity.
Qed.

(* non-power-of-two capacity (cap 3, phys 4), failed try_send hands back, teardown drops the residue *)
Definition ex_t := fst (run (sys 3 4 [TrySend; TrySend; TrySend; TrySend; Send] [TryRecv])
                            (init [TrySend; TrySend; TrySend; TrySend; Send] [TryRecv])
                            (rep 60 TP ++ rep 60 TC ++ rep 60 TP ++ rep 60 TC)).
Lemma ex_teardown :
  presults ex_t = [POk 1; POk 2; POk 3; PFull 4; PGone 5] /\ cresults ex_t = [RVal 1] /\
  dropped ex_t = [2; 3] /\ ppc ex_t = PDone /\ cpc ex_t = CDone.
Proof. vm_compute. repeat split; reflexivity. Qed.
