(* Proofs/HMutexWake.v — the wake-up invariants of the HybridMutex model:
   InvF1/InvF2 (a WOKEN node whose owner is parked has its token or the unpark in flight),
   InvW (while the lock is free and the list non-empty a wake is owed to the head and on its way). *)
From Coq Require Import List NArith Arith Bool Lia.
From Fibre Require Import Common.Conc Sync.HMutex Proofs.HMutexBase Proofs.HMutexGuard Proofs.HMutexQueue.
Import ListNotations.

(* ---- a node marked WOKEN whose owner sits in park has its token, or the unpark is in flight *)
Definition InvF1 s :=
  forall h, pcs s h = Park -> nwk s h = true ->
    token s h = true \/ exists w, pcs s w = WUnl (Some (WThread, h)) \/ pcs s w = WWake h.

Definition InvF2 s :=
  forall h, pcs s h = BPark -> nwk s h = true ->
    (exists w, pcs s w = WUnl (Some (WBlock, h)))
    \/ (bwoken s h = true /\ (token s h = true \/ exists w, pcs s w = WWake h)).

Ltac tok_goal T :=
  rewrite ?upd_neq by assumption; unfold upd; repeat (destruct (Nat.eqb _ _)); auto.

Ltac f1_frame F hh Hp Hn t Epc :=
    destruct (F hh Hp Hn) as [T|[w' [W|W]]];
    [ left; tok_goal T
    | destruct (Nat.eq_dec w' t) as [->|Hw];
      [ rewrite Epc in W; try discriminate W; injection W as <-; right; exists t; right; apply upd_eq
      | right; exists w'; left; rewrite upd_neq by assumption; exact W ]
    | destruct (Nat.eq_dec w' t) as [->|Hw];
      [ rewrite Epc in W; try discriminate W; injection W as <-; left; apply upd_eq
      | right; exists w'; right; rewrite upd_neq by assumption; exact W ] ].

Lemma InvF1_step s t c s' e :
  InvB s -> InvC s -> InvP s -> InvE s -> InvF1 s -> mstep s t c = Some (s', e) -> InvF1 s'.
Proof.
  intros [B1 B2] [C1 C2] P [E1 [E2 E3]] F H.
  step_cases H; repeat match goal with E : ?x = (_, _) |- _ => is_var x; subst x end;
    unfold InvF1; fsimpl; intros hh Hp Hn; revert Hp; split_thr hh t; intros Hp;
    try discriminate Hp; try rewrite upd_neq in Hn by assumption; try congruence.
  all: try solve [ f1_frame F hh Hp Hn t Epc ].
  (* WMark on the head n *)
  all: assert (Hin : In n (queue s)) by (match goal with E : queue _ = _ :: _ |- _ => rewrite E end; left; reflexivity).
  all: destruct (Nat.eq_dec hh n) as [->|Hne];
       [ | rewrite upd_neq in Hn by assumption; f1_frame F hh Hp Hn t Epc ].
  - match goal with E0 : narm _ n = Some _ |- _ => pose proof (E2 n _ Hin E0) as K end.
    pose proof (P n) as Pn. rewrite Hp in K, Pn. cbn [futok] in Pn.
    destruct w; cbn [kindok] in K; try congruence.
    right. exists t. left. apply upd_eq.
  - match goal with E0 : narm _ n = None |- _ => pose proof (E1 n Hin E0) as Hn' end.
    f1_frame F n Hp Hn' t Epc.
Qed.

Ltac f2_frame F hh Hp Hn t Epc :=
    destruct (F hh Hp Hn) as [[w' W]|[Bw [T|[w' W]]]];
    [ destruct (Nat.eq_dec w' t) as [->|Hw];
      [ rewrite Epc in W; first [ discriminate W | injection W as <-; right; split;
        [ apply upd_eq | right; exists t; apply upd_eq ] ]
      | left; exists w'; rewrite upd_neq by assumption; exact W ]
    | right; split; [ tok_goal Bw | left; tok_goal T ]
    | destruct (Nat.eq_dec w' t) as [->|Hw];
      [ rewrite Epc in W; first [ discriminate W | injection W as <-; right; split; [ tok_goal Bw | left; apply upd_eq ] ]
      | right; split; [ tok_goal Bw | right; exists w'; rewrite upd_neq by assumption; exact W ] ] ].

Lemma InvF2_step s t c s' e :
  InvB s -> InvC s -> InvP s -> InvE s -> InvF2 s -> mstep s t c = Some (s', e) -> InvF2 s'.
Proof.
  intros [B1 B2] [C1 C2] P [E1 [E2 E3]] F H.
  step_cases H; repeat match goal with E : ?x = (_, _) |- _ => is_var x; subst x end;
    unfold InvF2; fsimpl; intros hh Hp Hn; revert Hp; split_thr hh t; intros Hp;
    try discriminate Hp; try rewrite upd_neq in Hn by assumption; try rewrite upd_eq in Hn; try congruence.
  all: try solve [ f2_frame F hh Hp Hn t Epc ].
  - exfalso. assert (X : nwk s t = false) by (apply E3; rewrite Epc; reflexivity). congruence.
  - destruct (F t Epc Hn) as [[w' W]|[Bw _]]; [|congruence].
    left. exists w'. rewrite upd_neq; [exact W|]. intros ->. rewrite Epc in W. discriminate W.
  - assert (Hin : In n (queue s)) by (match goal with E : queue _ = _ :: _ |- _ => rewrite E end; left; reflexivity).
    destruct (Nat.eq_dec hh n) as [->|Hne];
      [ | rewrite upd_neq in Hn by assumption; f2_frame F hh Hp Hn t Epc ].
    match goal with E0 : narm _ n = Some _ |- _ => pose proof (E2 n _ Hin E0) as K end.
    pose proof (P n) as Pn. rewrite Hp in K, Pn. cbn [futok] in Pn.
    destruct w; cbn [kindok insync] in K; try congruence.
    left. exists t. apply upd_eq.
  - assert (Hin : In n (queue s)) by (match goal with E : queue _ = _ :: _ |- _ => rewrite E end; left; reflexivity).
    destruct (Nat.eq_dec hh n) as [->|Hne];
      [ | rewrite upd_neq in Hn by assumption; f2_frame F hh Hp Hn t Epc ].
    match goal with E0 : narm _ n = None |- _ => pose proof (E1 n Hin E0) as Hn' end.
    f2_frame F n Hp Hn' t Epc.
Qed.

(* ---- the wake owed to the queue head: while the lock is free and the list is non-empty,
   either a wake_next is on its way to mark the head (after an unlock that saw HAS_QUEUED, or
   after the drop of a future that had been WOKEN), or the head has been WOKEN, or the head is
   inside its own queue section before the re-check of the lock word. *)
Definition wakepre (p : pc) : bool :=
  match p with LLSwap LWake | LLLoad LWake | LLSpin LWake | WMark => true | _ => false end.
Definition droppre (p : pc) : bool :=
  match p with DFix | DUnl | DLoad => true | _ => false end.
Definition prew s w : Prop :=
  wakepre (pcs s w) = true \/ (droppre (pcs s w) = true /\ nwk s w = true).
Definition armed_pre (p : pc) : bool :=
  match p with QFor _ | QLoad _ | QCas _ _ => true | _ => false end.
Definition headok s h : Prop := nwk s h = true \/ armed_pre (pcs s h) = true.

Definition InvW s :=
  locked s = false -> forall h r, queue s = h :: r -> (exists w, prew s w) \/ headok s h.

Lemma holds_locked s t : InvA s -> holds (pcs s t) = true -> locked s = true.
Proof.
  intros [A1 [A2 A3]] H. apply A1 in H. destruct (locked s); [reflexivity|].
  rewrite (A3 eq_refl) in H. destruct H.
Qed.

Lemma W_frame s s' t :
  locked s' = locked s -> queue s' = queue s ->
  (forall u, u <> t -> pcs s' u = pcs s u) ->
  (forall u, u <> t -> nwk s u = true -> nwk s' u = true) ->
  (prew s t -> forall h r, queue s = h :: r -> (exists w, prew s' w) \/ headok s' h) ->
  (forall r, queue s = t :: r -> headok s t -> (exists w, prew s' w) \/ headok s' t) ->
  InvW s -> InvW s'.
Proof.
  intros HL HQ Hp Hn Hw Hh W HL' h r HQ'. rewrite HL in HL'. rewrite HQ in HQ'.
  destruct (W HL' h r HQ') as [[w Pw]|Hok].
  - destruct (Nat.eq_dec w t) as [->|Hne]; [eapply Hw; eassumption|].
    left. exists w. unfold prew in *. rewrite (Hp w Hne).
    destruct Pw as [Pw|[Pw Pn]]; [left; exact Pw|right; split; [exact Pw|apply Hn; assumption]].
  - destruct (Nat.eq_dec h t) as [->|Hne]; [eapply Hh; eassumption|].
    right. unfold headok in *. rewrite (Hp h Hne).
    destruct Hok as [X|X]; [left; apply Hn; assumption|right; exact X].
Qed.

Lemma InvW_step s t c s' e :
  InvA s -> InvB s -> InvC s -> InvD s -> InvE s -> InvW s -> mstep s t c = Some (s', e) -> InvW s'.
Proof.
  intros A [B1 B2] [C1 C2] D [E1 [E2 E3]] W H.
  pose proof (@holds_locked s t A) as HA. pose proof (C2 t) as Ct. unfold linkok in Ct.
  step_cases H; repeat match goal with E : ?x = (_, _) |- _ => is_var x; subst x end;
    rewrite Epc in HA, Ct; cbn [holds lk fl] in HA, Ct.
  (* the lock is (still / now) held *)
  all: try solve [ unfold InvW; fsimpl; intros HL; try discriminate HL; try (rewrite HA in HL by reflexivity; discriminate HL); congruence ].
  (* frame steps *)
  all: try solve [
    apply (@W_frame s _ t); fsimpl; try reflexivity; try assumption;
    [ intros u Hu; apply upd_neq; assumption
    | intros u Hu Hn; rewrite ?upd_neq by assumption; unfold upd; repeat (destruct (Nat.eqb _ _)); auto
    | unfold prew; rewrite Epc; cbn [wakepre droppre]; intros [X|[X Y]]; try discriminate X; try congruence;
      intros hh r HQ; left; exists t; unfold prew; fsimpl; rewrite upd_eq; cbn [wakepre droppre]; auto
    | intros r HQ [X|X]; [ | rewrite Epc in X; cbn [armed_pre] in X; try discriminate X ];
      right; unfold headok; fsimpl; rewrite ?upd_eq; cbn [armed_pre]; auto ] ].
  all: mem_hyps; unfold InvW; fsimpl; intros HL hh r HQ.
  (* a future is cancelled while the lock is free: Idle/LLSwap LDrop -> DFix | DUnl *)
  1-4: (assert (Hnt : forall w, prew s w -> w <> t)
          by (intros w Pw ->; unfold prew in Pw; rewrite Epc in Pw; cbn [wakepre droppre] in Pw;
              destruct Pw as [X|[X _]]; discriminate X)).
  1-4: try (rewrite rem_notin in HQ by assumption;
            destruct (W HL hh r HQ) as [[w Pw]|Hok];
            [ left; exists w; pose proof (Hnt w Pw); unfold prew in *; fsimpl; rewrite upd_neq by assumption; exact Pw
            | right; unfold headok in *; fsimpl;
              assert (hh <> t) by (intros ->; match goal with X : ~ In _ _ |- _ => apply X end; rewrite HQ; left; reflexivity);
              rewrite upd_neq by assumption; exact Hok ]).
  1-2: (destruct (queue s) as [|h0 r0] eqn:EQ; [ match goal with X : In _ [] |- _ => destruct X end | ];
        destruct (Nat.eq_dec h0 t) as [->|Hne];
        [ rewrite rem_head in HQ by assumption; subst r0;
          destruct (W HL t _ EQ) as [[w Pw]|[Hk|Hk]];
          [ left; exists w; pose proof (Hnt w Pw); unfold prew in *; fsimpl; rewrite upd_neq by assumption; exact Pw
          | left; exists t; unfold prew; fsimpl; rewrite upd_eq; right; split; [reflexivity|exact Hk]
          | rewrite Epc in Hk; discriminate Hk ]
        | cbn [rem filter] in HQ; destruct (Nat.eqb_spec h0 t) as [|_]; [contradiction|]; cbn [negb] in HQ;
          injection HQ as <- _;
          destruct (W HL h0 r0 EQ) as [[w Pw]|Hok];
          [ left; exists w; pose proof (Hnt w Pw); unfold prew in *; fsimpl; rewrite upd_neq by assumption; exact Pw
          | right; unfold headok in *; fsimpl; rewrite upd_neq by assumption; exact Hok ] ]).
  (* a waiter links itself while the lock is free *)
  1-2: (assert (Hni : ~ In t (queue s)) by assumption;
        destruct (queue s) as [|h0 r0] eqn:EQ; cbn [app] in HQ; injection HQ as <- _;
        [ right; right; unfold headok; fsimpl; rewrite upd_eq; reflexivity | ];
        assert (Hne : h0 <> t) by (intros ->; apply Hni; left; reflexivity);
        destruct (W HL h0 r0 EQ) as [[w Pw]|Hok];
        [ assert (w <> t) by (intros ->; unfold prew in Pw; rewrite Epc in Pw; cbn [wakepre droppre] in Pw;
                              destruct Pw as [X|[X _]]; discriminate X);
          left; exists w; unfold prew in *; fsimpl; rewrite !upd_neq by assumption; exact Pw
        | right; unfold headok in *; fsimpl; rewrite !upd_neq by assumption; exact Hok ]).
  (* unlock: HAS_QUEUED was seen -> wake_next; otherwise the only queued node is at QFor *)
  1: (left; exists t; unfold prew; fsimpl; rewrite upd_eq; left; reflexivity).
  1: (assert (Hin : In hh (queue s)) by (rewrite HQ; left; reflexivity);
      match goal with E : hasq _ = false |- _ => destruct (D E hh Hin) as [_ [qq Q2]] end;
      assert (hh <> t) by (intros ->; rewrite Epc in Q2; discriminate Q2);
      right; right; fsimpl; rewrite upd_neq by assumption; rewrite Q2; reflexivity).
  (* wake_next marks the head *)
  all: match goal with E : queue _ = _ :: _ |- _ => rewrite E in HQ; injection HQ as <- _ end;
       right; left; fsimpl; apply upd_eq.
Qed.
