(* Proofs/HMutexProofs.v — the C10 theorems for HybridMutex, for every number of threads,
   every program and every schedule (Conc.reachable). *)
From Coq Require Import List NArith Arith Bool Lia.
From Fibre Require Import Common.Conc Sync.HMutex Proofs.HMutexBase Proofs.HMutexGuard
     Proofs.HMutexQueue Proofs.HMutexWake.
Import ListNotations.

Definition Inv s :=
  InvA s /\ InvB s /\ InvP s /\ InvC s /\ InvD s /\ InvE s /\ InvF1 s /\ InvF2 s /\ InvW s.

Lemma Inv_init progs : Inv (minit progs).
Proof.
  unfold Inv. split; [|split; [|split; [|split; [|split; [|split; [|split; [|split]]]]]]].
  - unfold InvA. cbn. repeat split; try tauto; try discriminate.
  - unfold InvB. split; intro u; cbn; intro X; discriminate X.
  - intros u. cbn. discriminate.
  - split; [constructor|]. intros u. unfold linkok. cbn. tauto.
  - intros _ u [].
  - unfold InvE. cbn. repeat split; try tauto; try discriminate.
  - intros h X. discriminate X.
  - intros h X. discriminate X.
  - intros _ h r X. discriminate X.
Qed.

Lemma Inv_step s t c s' e : Inv s -> mstep s t c = Some (s', e) -> Inv s'.
Proof.
  intros (A & B & P & C & D & E & F1 & F2 & W) H.
  split; [|split; [|split; [|split; [|split; [|split; [|split; [|split]]]]]]].
  - eapply InvA_step; eassumption.
  - eapply InvB_step; eassumption.
  - eapply InvP_step; eassumption.
  - eapply InvC_step; eassumption.
  - eapply InvD_step; eassumption.
  - eapply InvE_step; eassumption.
  - eapply InvF1_step; eassumption.
  - eapply InvF2_step; eassumption.
  - eapply InvW_step; eassumption.
Qed.

Theorem Inv_reachable progs s : reachable (sys progs) s -> Inv s.
Proof.
  apply (invariant_lift (sys progs) Inv).
  - apply Inv_init.
  - intros s0 t c s' e. apply Inv_step.
Qed.

(* ------------------------------------------------------------------ mutual exclusion *)
Theorem mutex_excl progs s :
  reachable (sys progs) s ->
  (locked s = true <-> exists h, holders s = [h])
  /\ (locked s = false <-> holders s = [])
  /\ (forall u, In u (holders s) <-> holds (pcs s u) = true)
  /\ (forall t u, holds (pcs s t) = true -> holds (pcs s u) = true -> t = u).
Proof.
  intros R. destruct (Inv_reachable _ _ R) as (A & _). pose proof A as [A1 [A2 A3]].
  split; [|split; [|split]].
  - split; [exact A2|]. intros [h Hh]. destruct (locked s); [reflexivity|].
    rewrite (A3 eq_refl) in Hh. discriminate Hh.
  - split; [exact A3|]. intros Hh. destruct (locked s); [|reflexivity].
    destruct (A2 eq_refl) as [h X]. congruence.
  - exact A1.
  - intros t u Ht Hu. pose proof (holds_locked s t A Ht) as L. destruct (A2 L) as [h Hh].
    apply A1 in Ht. apply A1 in Hu. rewrite Hh in Ht, Hu.
    destruct Ht as [<-|[]]. destruct Hu as [<-|[]]. reflexivity.
Qed.

Corollary critical_section_excl progs s t u :
  reachable (sys progs) s -> pcs s t = CS -> pcs s u = CS -> t = u.
Proof.
  intros R Ht Hu. destruct (mutex_excl _ _ R) as (_ & _ & _ & X).
  apply X; [rewrite Ht|rewrite Hu]; reflexivity.
Qed.

(* ------------------------------------------------------------------ try_lock never blocks *)
Definition try_pc (p : pc) : bool :=
  match p with TALoad ATry | TACas ATry _ => true | _ => false end.

Definition state_access (e : mev) : Prop :=
  match e with EvLoad VState _ _ | EvCas VState _ _ _ _ _ _ => True | _ => False end.

(* From any state whatsoever, a thread inside try_lock is enabled under every choice, its step is
   a load or CAS of the state word (never park / yield / spin / list lock), and after at most two
   of its own steps the call has returned: with the guard (CS) or with None (Idle). *)
Theorem try_lock_nonblocking s t c :
  try_pc (pcs s t) = true ->
  exists s' e, mstep s t c = Some (s', e) /\ state_access e /\
    match pcs s t with
    | TALoad ATry => (exists sq, pcs s' t = TACas ATry sq) \/ pcs s' t = Idle
    | _ => pcs s' t = CS \/ pcs s' t = Idle
    end.
Proof.
  intros H. unfold mstep. destruct (pcs s t) as [] eqn:Epc; try discriminate H.
  - destruct a; try discriminate H. unfold do_taload, ret. destruct (locked s).
    + eexists; eexists; split; [reflexivity|]. split; [exact I|]. right. cbn. apply upd_eq.
    + eexists; eexists; split; [reflexivity|]. split; [exact I|]. left. eexists. cbn. apply upd_eq.
  - destruct a; try discriminate H. unfold ret.
    destruct (negb (locked s) && eqb (hasq s) sq).
    + eexists; eexists; split; [reflexivity|]. split; [exact I|]. left. cbn. apply upd_eq.
    + eexists; eexists; split; [reflexivity|]. split; [exact I|]. right. cbn. apply upd_eq.
Qed.

(* ------------------------------------------------------------------ deadlock freedom / wake owed *)
Lemma do_taload_some s t a : do_taload s t a <> None.
Proof. unfold do_taload, ret. destruct (locked s); [destruct a|]; discriminate. Qed.

Lemma do_llswap_some s t l : do_llswap s t l <> None.
Proof. unfold do_llswap, ret. destruct l as [[|]| | |]; cbn; destruct (llock _); discriminate. Qed.

Lemma do_wait_some s t c : do_wait s t c <> None.
Proof. unfold do_wait, ret. destruct c; discriminate. Qed.

Lemma idle_fut_steps s t c : pcs s t = Idle -> fut s t <> None -> mstep s t c <> None.
Proof.
  intros Epc Hf. unfold mstep. rewrite Epc.
  generalize (prog s t). intros p. revert s Epc Hf. induction p as [|o r IH]; intros s Epc Hf; cbn [dispatch].
  - destruct (fut s t); [apply do_llswap_some|congruence].
  - destruct o; destruct (fut s t) eqn:F; try congruence;
      try apply do_llswap_some; try apply do_taload_some; try apply do_wait_some.
Qed.

Definition stuck (s : mstate) (t : nat) : Prop :=
  pcs s t = Idle \/ (pcs s t = Park /\ token s t = false) \/ (pcs s t = BPark /\ token s t = false).

Lemma disabled_stuck s t c : mstep s t c = None -> stuck s t.
Proof.
  unfold mstep, stuck. destruct (pcs s t) eqn:Epc; intros H; auto;
    try (exfalso; revert H; first [apply do_taload_some | apply do_llswap_some | apply do_wait_some]);
    unfold ret, block_next, fix_flags in H.
  all: try discriminate H.
  all: repeat (break_match H; try discriminate H); auto.
  all: try (exfalso; revert H; first [apply do_taload_some | apply do_llswap_some]).
Qed.

Lemma stuck_not_holds s t : stuck s t -> holds (pcs s t) = false.
Proof. intros [H|[[H _]|[H _]]]; rewrite H; reflexivity. Qed.

Lemma stuck_not_pre s t : stuck s t -> wakepre (pcs s t) = false /\ droppre (pcs s t) = false /\ armed_pre (pcs s t) = false.
Proof. intros [H|[[H _]|[H _]]]; rewrite H; repeat split. Qed.

(* No reachable state in which nobody can step has an unfinished thread: in particular nobody is
   parked (sync waiter in lock_slow, or block_on task) — the safety core of "acquirers eventually
   acquire after the lock is released" and of "a dropped future does not lose the wake-up". *)
Theorem mutex_deadlock_free progs s :
  reachable (sys progs) s -> quiescent (sys progs) s ->
  forall t, pcs s t = Idle /\ fut s t = None.
Proof.
  intros R Q.
  destruct (Inv_reachable _ _ R) as (A & B & P & C & D & E & F1 & F2 & W).
  assert (St : forall u, stuck s u) by (intros u; apply (disabled_stuck s u ChGo); apply (Q u ChGo)).
  assert (NoPark : forall t, pcs s t = Park \/ pcs s t = BPark -> False).
  { intros t Ht.
    assert (Hin : In t (queue s)).
    { destruct C as [_ C2]. specialize (C2 t). unfold linkok in C2. destruct Ht as [Ht|Ht]; rewrite Ht in C2; exact C2. }
    assert (HL : locked s = false).
    { destruct (locked s) eqn:EL; [|reflexivity]. exfalso.
      destruct A as [A1 [A2 _]]. destruct (A2 EL) as [h Hh].
      assert (X : holds (pcs s h) = true) by (apply A1; rewrite Hh; left; reflexivity).
      rewrite (stuck_not_holds s h (St h)) in X. discriminate X. }
    destruct (queue s) as [|h r] eqn:EQ; [destruct Hin|].
    destruct (W HL h r EQ) as [[w Pw]|Hok].
    - destruct (stuck_not_pre s w (St w)) as (X1 & X2 & _). unfold prew in Pw. rewrite X1, X2 in Pw.
      destruct Pw as [X|[X _]]; discriminate X.
    - destruct Hok as [Hk|Hk]; [|destruct (stuck_not_pre s h (St h)) as (_ & _ & X3); congruence].
      assert (Hh : In h (queue s)) by (rewrite EQ; left; reflexivity).
      destruct (St h) as [Si|[[Sp Tk]|[Sp Tk]]].
      + (* head's owner idle with a pending future: it can poll or drop it *)
        destruct C as [_ C2]. specialize (C2 h). unfold linkok in C2. rewrite Si in C2. cbn [lk] in C2.
        destruct (fut s h) eqn:Fh; cbn [fl] in C2; [|contradiction].
        apply (idle_fut_steps s h ChGo Si); [congruence|apply (Q h ChGo)].
      + destruct (F1 h Sp Hk) as [T|[w [X|X]]]; [congruence| |];
          destruct (St w) as [Y|[[Y _]|[Y _]]]; rewrite Y in X; discriminate X.
      + destruct (F2 h Sp Hk) as [[w X]|[_ [T|[w X]]]]; [|congruence|];
          destruct (St w) as [Y|[[Y _]|[Y _]]]; rewrite Y in X; discriminate X. }
  intros t. destruct (St t) as [Si|[[Sp _]|[Sp _]]]; [|exfalso; eauto|exfalso; eauto].
  split; [exact Si|]. destruct (fut s t) eqn:Ft; [|reflexivity]. exfalso.
  apply (idle_fut_steps s t ChGo Si); [congruence|apply (Q t ChGo)].
Qed.

(* The named form: in a reachable quiescent state the lock is free, the wait list is empty, no node
   is WAITING and nobody is parked. *)
Theorem mutex_wake_owed progs s :
  reachable (sys progs) s -> quiescent (sys progs) s ->
  locked s = false /\ queue s = [] /\ holders s = [] /\ llock s = None
  /\ forall t, pcs s t <> Park /\ pcs s t <> BPark.
Proof.
  intros R Q. pose proof (mutex_deadlock_free _ _ R Q) as DF.
  destruct (Inv_reachable _ _ R) as (A & B & P & C & _).
  assert (HL : locked s = false).
  { destruct (locked s) eqn:EL; [|reflexivity]. exfalso.
    destruct A as [A1 [A2 _]]. destruct (A2 EL) as [h Hh].
    assert (X : holds (pcs s h) = true) by (apply A1; rewrite Hh; left; reflexivity).
    destruct (DF h) as [Y _]. rewrite Y in X. discriminate X. }
  split; [exact HL|]. split; [|split; [|split]].
  - destruct (queue s) as [|h r] eqn:EQ; [reflexivity|]. exfalso.
    destruct C as [_ C2]. specialize (C2 h). unfold linkok in C2. destruct (DF h) as [Y Z].
    rewrite Y, Z in C2. cbn in C2. apply C2. rewrite EQ. left. reflexivity.
  - destruct A as [_ [_ A3]]. apply A3. exact HL.
  - destruct B as [_ B2]. destruct (llock s) as [h|] eqn:EL; [|reflexivity]. exfalso.
    specialize (B2 h eq_refl). destruct (DF h) as [Y _]. rewrite Y in B2. discriminate B2.
  - intros t. destruct (DF t) as [Y _]. rewrite Y. split; discriminate.
Qed.

(* ------------------------------------------------------------------ wait-list well-formedness *)
Theorem mutex_list_wf progs s :
  reachable (sys progs) s ->
  NoDup (queue s) /\ forall u, In u (queue s) -> insync (pcs s u) = true \/ fut s u <> None.
Proof.
  intros R. destruct (Inv_reachable _ _ R) as (_ & _ & P & [C1 C2] & _).
  split; [exact C1|]. intros u Hu. specialize (C2 u). specialize (P u). unfold linkok in C2.
  destruct (fut s u) as [b|] eqn:F; [right; discriminate|]. left.
  destruct (pcs s u) as [ | a | a sq | l | l | b | l | l | l | q | q | q | q sq | q | q acq | | | | q | q | | | | w | h | | | | ];
    cbn [lk fl insync futok] in *; try reflexivity; try contradiction; try discriminate P; try congruence.
  all: repeat match goal with
              | x : actx |- _ => destruct x
              | x : lctx |- _ => destruct x
              | x : qctx |- _ => destruct x
              | x : bool |- _ => destruct x
              end; cbn [lk fl insync futok] in *; try reflexivity; try contradiction; try discriminate P; try congruence; try tauto.
Qed.

(* a cancelled future whose node had been WOKEN forwards the wake: its drop continues into wake_next *)
Theorem cancel_forwards_wake s t c :
  pcs s t = DLoad -> nwk s t = true ->
  exists s' e, mstep s t c = Some (s', e) /\ pcs s' t = LLSwap LWake /\ fut s' t = None.
Proof.
  intros Epc Hn. unfold mstep. rewrite Epc, Hn. unfold ret.
  eexists; eexists; split; [reflexivity|]. cbn. rewrite !upd_eq. split; reflexivity.
Qed.
