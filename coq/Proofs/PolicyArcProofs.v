(* Proofs/PolicyArcProofs.v — what ArcP satisfies of the C14 contract, for every
   capacity and call sequence (everything except that an admission may silently
   drop one other resident), and the refutation for finding F-20-arc-admit. *)
From Fibre Require Import Common.Base Cache.PolicySpec Cache.PolicyLru Cache.PolicySlru
     Cache.PolicySieve Cache.PolicyArc Proofs.PolicyCommon Proofs.PolicySlruProofs.

Definition arc_inv (s : arc) : Prop := NoDup (keys (arc_tr s)).

Lemma arc_t1_not_t2 k s : arc_inv s -> In k (keys (a_t1 s)) -> ~ In k (keys (a_t2 s)).
Proof.
  unfold arc_inv, arc_tr. rewrite keys_app. intros H Hi. eapply NoDup_app_disjoint; eauto.
Qed.

Lemma arc_lookup_t1 k s : In k (keys (a_t1 s)) -> exists c, lookup k (arc_tr s) = Some c.
Proof.
  intros Hi. apply In_keys_lookup. unfold arc_tr. rewrite keys_app. apply in_or_app. left. exact Hi.
Qed.

Lemma arc_lookup_t2 k s : In k (keys (a_t2 s)) -> exists c, lookup k (arc_tr s) = Some c.
Proof.
  intros Hi. apply In_keys_lookup. unfold arc_tr. rewrite keys_app. apply in_or_app. right. exact Hi.
Qed.

Lemma arc_lookup_none k s : ~ In k (keys (a_t1 s)) -> ~ In k (keys (a_t2 s)) ->
  lookup k (arc_tr s) = None.
Proof.
  intros H1 H2. apply lookup_None. unfold arc_tr. rewrite keys_app. intros Hi.
  apply in_app_or in Hi. tauto.
Qed.

(** `replace` moves exactly one resident (the tail of T1 or of T2) out of T1 ++ T2 *)
Lemma arc_replace_some cap kib s k c s' :
  arc_replace cap kib s = Some ((k, c), s') ->
  Permutation (arc_tr s) ((k, c) :: arc_tr s') /\ a_p s' = a_p s.
Proof.
  unfold arc_replace, arc_tr.
  destruct (andb (N.ltb 0 (total (a_t1 s)))
                 (orb (N.leb (a_p s) (total (a_t1 s))) (andb kib (N.eqb (total (a_t1 s)) (a_p s))))).
  - destruct (ll_pop_back (a_t1 s)) as [[[k1 c1] t1']|] eqn:E; [|discriminate].
    intros H. inversion H; subst. cbn [a_t1 a_t2 a_p]. split; [|reflexivity].
    apply ll_pop_back_some in E. rewrite E, <- app_assoc. cbn [app].
    apply Permutation_sym, Permutation_middle.
  - destruct (ll_pop_back (a_t2 s)) as [[[k1 c1] t2']|] eqn:E.
    + intros H. inversion H; subst. cbn [a_t1 a_t2 a_p]. split; [|reflexivity].
      apply ll_pop_back_some in E. rewrite E, app_assoc.
      apply Permutation_sym, Permutation_cons_append.
    + destruct (ll_pop_back (a_t1 s)) as [[[k1 c1] t1']|] eqn:E1; [|discriminate].
      intros H. inversion H; subst. cbn [a_t1 a_t2 a_p]. split; [|reflexivity].
      apply ll_pop_back_some in E1. rewrite E1, <- app_assoc. cbn [app].
      apply Permutation_sym, Permutation_middle.
Qed.

(** ... and returns nothing only when there is no resident at all *)
Lemma arc_replace_none cap kib s : arc_replace cap kib s = None -> arc_tr s = [].
Proof.
  unfold arc_replace, arc_tr.
  destruct (N.ltb_spec 0 (total (a_t1 s))) as [Hpos|Hz]; cbn [andb].
  - destruct (orb (N.leb (a_p s) (total (a_t1 s))) (andb kib (N.eqb (total (a_t1 s)) (a_p s)))).
    + destruct (ll_pop_back (a_t1 s)) as [[[k1 c1] t1']|] eqn:E; [discriminate|].
      apply ll_pop_back_none in E. rewrite E in Hpos. cbn [total] in Hpos. lia.
    + destruct (ll_pop_back (a_t2 s)) as [[[k1 c1] t2']|] eqn:E; [discriminate|].
      destruct (ll_pop_back (a_t1 s)) as [[[k1 c1] t1']|] eqn:E1; [discriminate|].
      intros _. apply ll_pop_back_none in E. apply ll_pop_back_none in E1. rewrite E, E1. reflexivity.
  - destruct (ll_pop_back (a_t2 s)) as [[[k1 c1] t2']|] eqn:E; [discriminate|].
    destruct (ll_pop_back (a_t1 s)) as [[[k1 c1] t1']|] eqn:E1; [discriminate|].
    intros _. apply ll_pop_back_none in E. apply ll_pop_back_none in E1. rewrite E, E1. reflexivity.
Qed.

Lemma perm_cons_inv_NoDup (x : kc) T R : NoDup (keys T) -> Permutation T (x :: R) -> NoDup (keys R).
Proof.
  intros Hnd HP. apply (NoDup_keys_perm _ _ HP) in Hnd. cbn [keys map] in Hnd.
  inversion Hnd; assumption.
Qed.

Lemma arc_evict_one_some cap s v s' :
  arc_inv s -> arc_evict_one cap s = Some (v, s') ->
  Permutation (arc_tr s) (ekc v :: arc_tr s') /\ arc_inv s'.
Proof.
  unfold arc_evict_one. intros HI.
  set (kib := match ll_pop_back (a_t1 s) with Some ((k, _), _) => ll_has k (a_b2 s) | None => false end).
  destruct (arc_replace cap kib s) as [[[k c] s1]|] eqn:E; [|discriminate].
  intros H. inversion H; subst v s'. cbn [ekc fst].
  destruct (arc_replace_some _ _ _ _ _ _ E) as [HP _]. split; [exact HP|].
  unfold arc_inv. eapply perm_cons_inv_NoDup; eauto.
Qed.

Lemma arc_evict_one_none cap s : arc_evict_one cap s = None -> arc_tr s = [].
Proof.
  unfold arc_evict_one.
  set (kib := match ll_pop_back (a_t1 s) with Some ((k, _), _) => ll_has k (a_b2 s) | None => false end).
  destruct (arc_replace cap kib s) as [[[k c] s1]|] eqn:E; [discriminate|].
  intros _. eapply arc_replace_none; eauto.
Qed.

(** evict: every clause, including sufficiency *)
Lemma arc_evict_ok cap n s s' vs f :
  arc_inv s ->
  evict_loop (arc_evict_one cap) (length (a_t1 s) + length (a_t2 s)) n 0 s [] = (s', vs, f) ->
  evict_ok (arc_tr s) (arc_tr s') n vs f.
Proof.
  intros HI H.
  assert (Hlen : (length (arc_tr s) <= length (a_t1 s) + length (a_t2 s))%nat).
  { unfold arc_tr. rewrite app_length. apply le_n. }
  destruct (evict_loop_inv (arc_evict_one cap) arc_tr arc_inv (arc_evict_one_some cap)
              _ _ _ _ _ _ _ _ HI H Hlen) as [V [Hv [Hf [HP [_ Hs]]]]].
  cbn [rev app] in Hv. subst vs.
  apply evict_ok_split; [exact HI | exact HP | lia |].
  intros Hn.
  assert (Hdone : n <= f \/ arc_tr s' = []).
  { destruct Hs as [Hs|[Hs|Hs]]; [left; exact Hs | right; apply arc_evict_one_none in Hs; exact Hs | right; exact Hs]. }
  destruct Hdone as [Hd|Hd]; [exact Hd|].
  rewrite Hd, app_nil_r in HP. apply total_perm in HP. lia.
Qed.

(** on_access / re-admission of a resident: moved to the front of T2 with the new cost *)
Lemma arc_touch_t1 k c s : arc_inv s -> In k (keys (a_t1 s)) ->
  Permutation (ll_remove k (a_t1 s) ++ ll_push_front k c (a_t2 s)) ((k, c) :: rm k (arc_tr s)).
Proof.
  intros HI Hi. unfold ll_remove, ll_push_front, arc_tr. rewrite rm_app.
  apply Permutation_sym, Permutation_middle.
Qed.

Lemma arc_touch_t2 k c s : ~ In k (keys (a_t1 s)) ->
  Permutation (a_t1 s ++ ll_push_front k c (a_t2 s)) ((k, c) :: rm k (arc_tr s)).
Proof.
  intros Hn. unfold ll_push_front, arc_tr. rewrite rm_app, (rm_id k (a_t1 s) Hn).
  apply Permutation_sym, Permutation_middle.
Qed.

Lemma arc_access_ok k c s : arc_inv s ->
  access_update (arc_tr s) (arc_tr (arc_access k c s)) k c.
Proof.
  intros HI. unfold access_update, arc_access.
  destruct (ll_has k (a_t1 s)) eqn:E1.
  - apply ll_has_true in E1. destruct (arc_lookup_t1 _ _ E1) as [c0 Hl]. rewrite Hl.
    unfold arc_tr at 1. cbn [a_t1 a_t2]. apply arc_touch_t1; assumption.
  - apply ll_has_false in E1. destruct (ll_has k (a_t2 s)) eqn:E2.
    + apply ll_has_true in E2. destruct (arc_lookup_t2 _ _ E2) as [c0 Hl]. rewrite Hl.
      unfold arc_tr at 1. cbn [a_t1 a_t2]. apply arc_touch_t2; assumption.
    + apply ll_has_false in E2. rewrite (arc_lookup_none _ _ E1 E2). apply Permutation_refl.
Qed.

Lemma admit_full_demote T T' k c : admit_full T T' k c -> admit_demote T T' k c.
Proof.
  intros H. exists []. cbn [length]. repeat split.
  - lia.
  - intros x [].
  - intros [].
  - rewrite without_nil. exact H.
Qed.

Lemma without_cons_in vs k c R : mem k vs = true -> without vs ((k, c) :: R) = without vs R.
Proof. intros H. unfold without. cbn [filter fst]. rewrite H. reflexivity. Qed.

Lemma without_single_perm T d cd R :
  NoDup (keys T) -> Permutation T ((d, cd) :: R) -> Permutation (without [d] T) R.
Proof.
  intros Hnd HP. eapply Permutation_trans; [apply without_perm; exact HP|].
  apply (NoDup_keys_perm _ _ HP) in Hnd. cbn [keys map fst] in Hnd.
  inversion Hnd as [|? ? Hni Hnd']; subst.
  rewrite without_cons_in by (apply mem_In; left; reflexivity).
  rewrite without_none; [apply Permutation_refl|].
  intros x Hx [He|[]]. subst. contradiction.
Qed.

Lemma arc_ghost_adapt_tr cap k s s1 kib :
  arc_ghost_adapt cap k s = (s1, kib) -> a_t1 s1 = a_t1 s /\ a_t2 s1 = a_t2 s.
Proof.
  unfold arc_ghost_adapt.
  destruct (ll_has k (a_b1 s)); [intros H; inversion H; split; reflexivity|].
  destruct (ll_has k (a_b2 s)); intros H; inversion H; split; reflexivity.
Qed.

(* the tail of on_admit for a non-resident key: at most one other resident is dropped *)
Lemma arc_admit_fresh_ok cap k c s1 kib : arc_inv s1 -> ~ In k (keys (arc_tr s1)) ->
  admit_demote (arc_tr s1) (arc_tr (arc_admit_fresh cap k c s1 kib)) k c.
Proof.
  intros HI Hk. unfold arc_admit_fresh.
  assert (Hnone : forall s2, arc_tr s2 = arc_tr s1 ->
            admit_demote (arc_tr s1)
              (arc_tr (mkArc (a_p s2) (ll_push_front k c (a_t1 s2)) (a_t2 s2) (a_b1 s2) (a_b2 s2))) k c).
  { intros s2 Heq. apply admit_full_demote. unfold admit_full.
    unfold arc_tr at 1. cbn [a_t1 a_t2]. unfold ll_push_front.
    rewrite (rm_id k (arc_tr s1) Hk).
    rewrite (rm_id k (a_t1 s2)).
    2:{ intros Hi. apply Hk. rewrite <- Heq. unfold arc_tr. rewrite keys_app.
        apply in_or_app. left. exact Hi. }
    cbn [app]. fold (arc_tr s2). rewrite Heq. apply Permutation_refl. }
  destruct (N.leb cap (total (a_t1 s1) + total (a_t2 s1))); [|apply Hnone; reflexivity].
  destruct (arc_replace cap kib s1) as [[[d cd] s2]|] eqn:E; [|apply Hnone; reflexivity].
  destruct (arc_replace_some _ _ _ _ _ _ E) as [HP _].
  assert (Hd : In d (keys (arc_tr s1))).
  { eapply Permutation_in; [apply Permutation_sym, keys_perm; exact HP|]. left. reflexivity. }
  assert (Hk2 : ~ In k (keys (arc_tr s2))).
  { intros Hi. apply Hk. eapply Permutation_in; [apply Permutation_sym, keys_perm; exact HP|].
    right. exact Hi. }
  pose proof (without_single_perm _ _ _ _ HI HP) as HW.
  exists [d]. cbn [length]. repeat split.
  - lia.
  - intros x [Hx|[]]. subst. exact Hd.
  - intros [He|[]]. subst. contradiction.
  - unfold arc_tr at 1. cbn [a_t1 a_t2]. unfold ll_push_front.
    rewrite (rm_id k (a_t1 s2)).
    2:{ intros Hi. apply Hk2. unfold arc_tr. rewrite keys_app. apply in_or_app. left. exact Hi. }
    rewrite (rm_id k (without [d] (arc_tr s1))).
    2:{ intros Hi. apply Hk. eapply without_keys_In. exact Hi. }
    cbn [app]. constructor. fold (arc_tr s2). apply Permutation_sym. exact HW.
Qed.

Lemma arc_admit_ok cap k c s : arc_inv s ->
  admit_demote (arc_tr s) (arc_tr (arc_admit cap k c s)) k c.
Proof.
  intros HI. unfold arc_admit.
  destruct (ll_has k (a_t1 s)) eqn:E1.
  - apply ll_has_true in E1. apply admit_full_demote. unfold admit_full.
    unfold arc_tr at 1. cbn [a_t1 a_t2]. apply arc_touch_t1; assumption.
  - apply ll_has_false in E1. destruct (ll_has k (a_t2 s)) eqn:E2.
    + apply admit_full_demote. unfold admit_full.
      unfold arc_tr at 1. cbn [a_t1 a_t2]. apply arc_touch_t2; assumption.
    + apply ll_has_false in E2.
      destruct (arc_ghost_adapt cap k s) as [s1 kib] eqn:Eg.
      destruct (arc_ghost_adapt_tr _ _ _ _ _ Eg) as [Ht1 Ht2].
      assert (Htr : arc_tr s1 = arc_tr s) by (unfold arc_tr; rewrite Ht1, Ht2; reflexivity).
      rewrite <- Htr. apply arc_admit_fresh_ok.
      * unfold arc_inv. rewrite Htr. exact HI.
      * rewrite Htr. unfold arc_tr. rewrite keys_app. intros Hi. apply in_app_or in Hi. tauto.
Qed.

Lemma arc_remove_ok k s : arc_inv s -> Permutation (arc_tr (arc_remove k s)) (rm k (arc_tr s)).
Proof.
  intros HI. unfold arc_remove, arc_tr. rewrite rm_app.
  destruct (ll_has k (a_t1 s)) eqn:E1.
  - apply ll_has_true in E1. cbn [a_t1 a_t2]. unfold ll_remove.
    rewrite (rm_id k (a_t2 s)) by (apply arc_t1_not_t2; assumption). apply Permutation_refl.
  - apply ll_has_false in E1. rewrite (rm_id k (a_t1 s) E1).
    destruct (ll_has k (a_t2 s)) eqn:E2.
    + cbn [a_t1 a_t2]. apply Permutation_refl.
    + apply ll_has_false in E2. rewrite (rm_id k (a_t2 s) E2).
      destruct (ll_has k (a_b1 s)); cbn [a_t1 a_t2]; apply Permutation_refl.
Qed.

Lemma arc_step_ok cap s cl : arc_inv s ->
  let '(s', o) := arc_step cap s cl in
  step_okG access_update admit_demote evict_ok (arc_tr s) cl o (arc_tr s').
Proof.
  intros H. destruct cl as [k c|k c|k|n|]; cbn [arc_step step_okG].
  - apply arc_access_ok. exact H.
  - apply arc_admit_ok. exact H.
  - apply arc_remove_ok. exact H.
  - destruct (evict_loop (arc_evict_one cap) (length (a_t1 s) + length (a_t2 s)) n 0 s [])
      as [[s' vs] f] eqn:E.
    cbn [step_okG]. eapply arc_evict_ok; eauto.
  - reflexivity.
Qed.

Theorem arc_contract_except_F20_admit cap :
  contractG access_update admit_demote evict_ok (ArcP cap).
Proof.
  apply contractG_lift_nodup.
  - exact access_update_NoDup.
  - exact admit_demote_NoDup.
  - intros T T' n vs c. apply evict_ok_core.
  - constructor.
  - intros s cl Hs. exact (arc_step_ok cap s cl Hs).
Qed.

(** F-20-arc-admit: on_admit under capacity pressure stops tracking a resident
    without nominating it (ArcPolicy::new(2): admit 1, 2, 3).  Refuted even with
    the sufficiency clause dropped, hence also for the full statement. *)
Theorem arc_admit_refuted : ~ contractG access_update admit_full evict_nosuff (ArcP 2).
Proof.
  intros H. specialize (H [Admit 1 1; Admit 2 1]). cbv zeta in H. destruct H as [_ H].
  specialize (H (Admit 3 1)).
  change (Permutation [(3, 1); (2, 1)] [(3, 1); (2, 1); (1, 1)]) in H.
  apply Permutation_length in H. discriminate.
Qed.
