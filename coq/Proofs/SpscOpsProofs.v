(* Proofs/SpscOpsProofs.v — invariants of the K2 SPSC model for ALL op histories. *)
From Coq Require Import List Arith ZArith Bool Lia.
From Fibre Require Import Chan.SpscOps.
Import ListNotations.
Open Scope nat_scope.

(** * counting occurrences: conservation is stated with counts, derived Permutation/NoDup at the end *)
Definition cnt (x : nat) (l : list nat) : nat := count_occ Nat.eq_dec l x.

Lemma cnt_nil x : cnt x [] = 0.
Proof. reflexivity. Qed.
Lemma cnt_cons x y l : cnt x (y :: l) = (if y =? x then 1 else 0) + cnt x l.
Proof.
  unfold cnt. cbn [count_occ]. destruct (Nat.eq_dec y x) as [E|E].
  - subst. rewrite Nat.eqb_refl. reflexivity.
  - apply Nat.eqb_neq in E. rewrite E. reflexivity.
Qed.
Lemma cnt_app x a b : cnt x (a ++ b) = cnt x a + cnt x b.
Proof. unfold cnt. apply count_occ_app. Qed.
Lemma cnt_split k l x : cnt x l = cnt x (firstn k l) + cnt x (skipn k l).
Proof. rewrite <- cnt_app, firstn_skipn. reflexivity. Qed.
Lemma cnt_seq x a n : cnt x (seq a n) = if a <=? x then (if x <? a + n then 1 else 0) else 0.
Proof.
  revert a. induction n as [|n IH]; intros a; cbn [seq].
  - rewrite cnt_nil. destruct (a <=? x) eqn:E1, (x <? a + 0) eqn:E2; try reflexivity.
    apply Nat.leb_le in E1. apply Nat.ltb_lt in E2. lia.
  - rewrite cnt_cons, IH.
    destruct (a =? x) eqn:E0, (S a <=? x) eqn:E1, (x <? S a + n) eqn:E2, (a <=? x) eqn:E3, (x <? a + S n) eqn:E4;
      cbn; try reflexivity;
      repeat match goal with
             | H : (_ =? _) = true |- _ => apply Nat.eqb_eq in H
             | H : (_ =? _) = false |- _ => apply Nat.eqb_neq in H
             | H : (_ <=? _) = true |- _ => apply Nat.leb_le in H
             | H : (_ <=? _) = false |- _ => apply Nat.leb_gt in H
             | H : (_ <? _) = true |- _ => apply Nat.ltb_lt in H
             | H : (_ <? _) = false |- _ => apply Nat.ltb_ge in H
             end; lia.
Qed.

Arguments cnt : simpl never.
Arguments Nat.ltb : simpl never.
Arguments Nat.leb : simpl never.
Arguments Nat.eqb : simpl never.
Arguments Nat.add : simpl never.
Arguments Nat.sub : simpl never.
Arguments Nat.min : simpl never.
Arguments seq : simpl never.
Arguments firstn : simpl never.
Arguments skipn : simpl never.
Arguments Z.eqb : simpl never.
Arguments Z.sub : simpl never.

Definition tot (x : nat) (s : st) : nat :=
  cnt x (received s) + cnt x (q s) + cnt x (held s) + cnt x (returned s) + cnt x (dropped s) + cnt x (drained s).

Definition alive (s : st) : bool := match sh s, rh s with HGone, HGone => false | _, _ => true end.

Record InvD (s : st) : Prop := {
  d_len : length (q s) <= cap s;
  d_fifo : accepted s = received s ++ q s ++ drained s;
  d_cons : forall x, tot x s = if x <? next s then 1 else 0;
  d_alive : alive s = true -> drained s = [];
  d_dead : alive s = false -> q s = [];
  d_sf : sf s <> None -> exists c, sh s = HLive KAsync c;
  d_rf : rf s <> None -> exists c, rh s = HLive KAsync c
}.

Ltac b2p :=
  repeat match goal with
         | H : (_ =? _) = true |- _ => apply Nat.eqb_eq in H
         | H : (_ =? _) = false |- _ => apply Nat.eqb_neq in H
         | H : (_ <=? _) = true |- _ => apply Nat.leb_le in H
         | H : (_ <=? _) = false |- _ => apply Nat.leb_gt in H
         | H : (_ <? _) = true |- _ => apply Nat.ltb_lt in H
         | H : (_ <? _) = false |- _ => apply Nat.ltb_ge in H
         | H : (_ || _) = true |- _ => apply orb_true_iff in H
         | H : (_ || _) = false |- _ => apply orb_false_iff in H; destruct H
         | H : (_ && _) = true |- _ => apply andb_true_iff in H; destruct H
         | H : (_ && _) = false |- _ => apply andb_false_iff in H
         end.

(* destruct the scrutinee of the first match / if in the goal *)
Ltac split1 :=
  match goal with
  | |- context [match ?x with _ => _ end] =>
      match x with
      | context [match _ with _ => _ end] => fail 1
      | _ => destruct x eqn:?
      end
  end.


Ltac unf_ops :=
  unfold do_try_send, do_send, do_try_send_batch, do_send_batch, do_try_send_batch_mut, do_send_batch_mut,
    do_close_s, do_obs_s, do_conv_s, do_drop_s, do_mk_s, do_poll_s, do_dropfut_s,
    do_recv1, do_recvn, do_close_r, do_obs_r, do_conv_r, do_drop_r, do_mk_r, do_poll_r, do_dropfut_r, do_stream_next,
    gate_s, gate_r, free.
Ltac unf_prims :=
  unfold push, pop, give_back, destroy, alloc, free, close_int_s, close_int_r, close_int_s_if, close_int_r_if,
    shared_drop_if, both_gone, clear_stream_pend, clear_fut_pend, note_disc, stream_unreg,
    wake_r, wake_s, wake_r_if, wake_s_if, senders_alive.

Ltac hrw :=
  repeat match goal with
         | H : sh ?s = _ |- _ => rewrite H in *
         | H : rh ?s = _ |- _ => rewrite H in *
         | H : sf ?s = _ |- _ => rewrite H in *
         | H : rf ?s = _ |- _ => rewrite H in *
         | H : q ?s = _ |- _ => rewrite H in *
         end.
Ltac kinds :=
  repeat match goal with
         | H : kind_eqb ?k _ = true |- _ => destruct k; try discriminate H; clear H
         end.
Ltac lens := rewrite ?app_length, ?firstn_length, ?skipn_length, ?seq_length in *; cbn [length] in *.
Ltac cnts x :=
  repeat rewrite ?cnt_app, ?cnt_cons, ?cnt_nil in *;
  repeat match goal with
         | |- context [cnt x (skipn ?k ?l)] =>
             lazymatch goal with
             | _ : cnt x l = cnt x (firstn k l) + cnt x (skipn k l) |- _ => fail
             | _ => pose proof (cnt_split k l x)
             end
         | |- context [cnt x (firstn ?k ?l)] =>
             lazymatch goal with
             | _ : cnt x l = cnt x (firstn k l) + cnt x (skipn k l) |- _ => fail
             | _ => pose proof (cnt_split k l x)
             end
         end;
  repeat match goal with
         | H : context [skipn ?k ?l] |- _ =>
             rewrite (skipn_all2 (n:=k) l) in H by (cbn [length]; rewrite ?seq_length; lia)
         end;
  repeat rewrite ?cnt_nil, ?cnt_seq in *.
Ltac ifs :=
  repeat match goal with
         | |- context [if ?b then _ else _] => destruct b eqn:?
         | H : context [if ?b then _ else _] |- _ => destruct b eqn:?
         end.

Ltac pre := unfold alive in *; unf_prims; cbn; hrw; cbn; repeat (split1; cbn); hrw; cbn.
Ltac dfin Hl Hf Hc Ha Hd Hsf Hrf :=
  try (constructor; assumption);
  kinds;
  try (let Hdr := fresh "Hdr" in pose proof (Ha ltac:(unfold alive; hrw; try (destruct (sh _)); reflexivity)) as Hdr);
  constructor;
  [ pre; lens; b2p; try lia
  | pre; try rewrite Hf; try match goal with H : drained _ = [] |- _ => rewrite ?H end; repeat rewrite <- app_assoc; cbn [app]; rewrite ?app_nil_r;
    try reflexivity; repeat f_equal; rewrite ?app_assoc, ?firstn_skipn, ?app_nil_r; try reflexivity
  | let x := fresh "x" in intros x; specialize (Hc x); unfold tot, held in *; pre; cbn in Hc;
    try match goal with H : drained _ = [] |- _ => rewrite ?H in * end; b2p; cnts x; ifs; b2p; cnts x; ifs; b2p; subst; try lia
  | pre; intros; try discriminate; try match goal with H : drained _ = [] |- _ => rewrite ?H end; rewrite ?app_nil_r; auto
  | pre; intros; try discriminate; auto
  | pre; intros; try congruence; first [apply Hsf; congruence | eexists; reflexivity | eauto]
  | pre; intros; try congruence; first [apply Hrf; congruence | eexists; reflexivity | eauto] ].

Lemma invd_exec cf s o : InvD s -> InvD (fst (exec cf s o)).
Proof.
  intros [Hl Hf Hc Ha Hd Hsf Hrf].
  destruct o; cbn [exec]; unf_ops; cbn.
  all: repeat (split1; cbn).
  all: dfin Hl Hf Hc Ha Hd Hsf Hrf.
Qed.

Definition is_gone (h : hst) : bool := match h with HGone => true | HLive _ _ => false end.

Ltac z2p :=
  repeat match goal with
         | H : (_ =? _)%Z = true |- _ => apply Z.eqb_eq in H
         | H : (_ =? _)%Z = false |- _ => apply Z.eqb_neq in H
         | H : negb _ = true |- _ => apply negb_true_iff in H
         | H : negb _ = false |- _ => apply negb_false_iff in H
         end.

(* counts and flags *)
Record InvK (s : st) : Prop := {
  k_cd : cdrop s = false -> rcount s = 1%Z;
  k_pd : pdrop s = false -> scount s = 1%Z;
  k_sc : (scount s <= 1)%Z;
  k_rc : (rcount s <= 1)%Z;
  k_cdrop : cdrop s = r_ever s || is_gone (rh s);
  k_pdrop : pdrop s = s_ever s || is_gone (sh s);
  k_scl : forall k, sh s = HLive k true -> s_ever s = true;
  k_rcl : forall k, rh s = HLive k true -> r_ever s = true
}.

Ltac hyps_ifs :=
  repeat match goal with
         | H : context [if ?b then _ else _] |- _ => destruct b eqn:?
         | H : context [match ?x with _ => _ end] |- _ =>
             match x with context [match _ with _ => _ end] => fail 1 | _ => destruct x eqn:? end
         end.

Ltac kfin :=
  intros; unfold alive in *; unf_prims; cbn in *; hrw; cbn in *;
  repeat (split1; cbn in * ); hyps_ifs; b2p; z2p; subst; cbn in *;
  try discriminate; try congruence; try lia; auto.

Lemma invk_exec cf s o : InvK s -> InvK (fst (exec cf s o)).
Proof.
  intros [Hcd Hpd Hsc Hrc Hc Hp Hscl Hrcl].
  destruct o; cbn [exec]; unf_ops; cbn.
  all: repeat (split1; cbn).
  all: try (constructor; assumption).
  all: constructor; kfin; eauto.
  all: rewrite ?orb_true_r.
  all: destruct closed; cbn; rewrite ?orb_true_r, ?orb_false_r; auto.
  all: try (rewrite Hp, (Hscl _ eq_refl); reflexivity).
  all: try (rewrite Hc, (Hrcl _ eq_refl); reflexivity).
  all: try (apply (Hscl k eq_refl)); try (apply (Hrcl k eq_refl)).
  all: try congruence.
  all: try (eapply Hrcl; reflexivity); try (eapply Hscl; reflexivity).
Qed.

Record InvS (s : st) : Prop := {
  s_pw : forall w, pw s = Some w -> s_pend s = Some w;
  s_sp : forall w, s_pend s = Some w ->
         exists f k, sf s = Some (f, true) /\ held_of f <> [] /\ sh s = HLive k false;
  s_spw : forall w, s_pend s = Some w -> s_woken s = false ->
          pw s = Some w /\ length (q s) = cap s /\ cdrop s = false
}.

Lemma skipn_nonnil (k : nat) (l : list nat) : k < length l -> skipn k l <> [].
Proof. intros H E. apply (f_equal (@length nat)) in E. rewrite skipn_length in E. cbn in E. lia. Qed.

Ltac orbs :=
  repeat match goal with
         | H : _ || _ = false |- _ => apply orb_false_iff in H; destruct H
         | H : _ && _ = true |- _ => apply andb_true_iff in H; destruct H
         end.

Ltac sfin Hcd Hpw Hsp Hspw :=
  intros; unfold alive in *; unf_prims; cbn in *; hrw; cbn in *;
  repeat (split1; cbn in * ); hyps_ifs; orbs; cbn in *;
  try discriminate;
  try match goal with H : pw _ = Some _ |- _ => pose proof (Hpw _ H) end;
  try match goal with H : s_pend _ = Some _ |- _ =>
        let X := fresh in pose proof (Hsp _ H) as X; destruct X as (? & ? & ? & ? & ?) end;
  try match goal with H : s_pend _ = Some _, H2 : s_woken _ = false |- _ =>
        let X := fresh in pose proof (Hspw _ H H2) as X; destruct X as (? & ? & ?) end;
  try discriminate;
  try match goal with H : cdrop _ = false |- _ => pose proof (Hcd H) end;
  repeat match goal with H : pw _ = Some _ |- _ => rewrite H in * end; cbn in *;
  b2p; z2p; subst; cbn in *;
  try discriminate; try congruence;
  try (do 2 eexists; repeat split; try reflexivity; cbn; try discriminate;
       try (apply skipn_nonnil; cbn [length]; lia));
  try (repeat split; lens; try congruence; lia); eauto.

Lemma invs_exec cf s o : InvD s -> InvK s -> InvS s -> InvS (fst (exec cf s o)).
Proof.
  intros [Hl _ _ _ _ Hsf _] [Hcd _ _ _ Hc _ _ Hrcl] [Hpw Hsp Hspw].
  destruct o; cbn [exec]; unf_ops; cbn.
  all: repeat (split1; cbn).
  all: try (constructor; assumption).
  all: constructor; sfin Hcd Hpw Hsp Hspw.
  all: destruct closed; cbn in *.
  all: try (rewrite Hc, (Hrcl _ eq_refl) in H7; discriminate).
  all: destruct Heqb as [E|E]; z2p; try discriminate; try lia.
Qed.

Record InvR (s : st) : Prop := {
  r_cw : forall w, cw s = Some w -> (exists f, rf s = Some (f, true)) \/ rreg s = true;
  r_rreg : rreg s = true -> exists c, rh s = HLive KAsync c;
  r_pf : forall w, r_pend s = Some (OFut, w) ->
         exists f k, rf s = Some (f, true) /\ rh s = HLive k false /\ (forall m, f = RFBatch m -> m <> 0);
  r_ps : forall w, r_pend s = Some (OStream, w) -> rreg s = true;
  r_pw : forall o w, r_pend s = Some (o, w) -> r_woken s = false ->
         cw s = Some w /\ q s = [] /\ scount s <> 0%Z /\
         (o = OFut -> forall m b, rf s = Some (RFBatch m, b) -> pdrop s = false);
  r_fp : forall f, rf s = Some (f, true) -> exists w, r_pend s = Some (OFut, w)
}.

Lemma is_nil_len {A} (l : list A) : is_nil l = true -> length l = 0.
Proof. destruct l; cbn; intros; [reflexivity|discriminate]. Qed.

Ltac exs H := repeat match type of H with
                     | exists _, _ => let x := fresh "x" in destruct H as [x H]
                     | _ /\ _ => let H1 := fresh "H" in destruct H as [H1 H]
                     end.

Ltac rfin Hpd Hsc Hcw Hrreg Hpf Hps Hrpw Hfp :=
  intros; kinds; unfold alive, senders_alive in *; unf_prims; cbn in *; hrw; cbn in *;
  repeat (split1; cbn in * ); hyps_ifs; orbs; cbn in *;
  try discriminate;
  repeat match goal with H : Some _ = Some _ |- _ => inversion H; clear H; subst end;
  try match goal with H : r_pend _ = Some (OFut, _) |- _ => pose proof (Hpf _ H) as Xpf; exs Xpf end;
  try (pose proof (Hpf _ eq_refl) as Xpf; exs Xpf);
  try match goal with H : r_pend _ = Some (OStream, _) |- _ => pose proof (Hps _ H) end;
  try (pose proof (Hps _ eq_refl));
  try match goal with H : r_pend _ = Some (_, _), H2 : r_woken _ = false |- _ => pose proof (Hrpw _ _ H H2) as Xrpw; exs Xrpw end;
  try match goal with H2 : r_woken _ = false |- _ => pose proof (Hrpw _ _ eq_refl H2) as Xrpw; exs Xrpw end;
  try match goal with H : cw _ = Some _ |- _ => pose proof (Hcw _ H) as Xcw; destruct Xcw as [[? ?]|?] end;
  try (pose proof (Hcw _ eq_refl) as Xcw; destruct Xcw as [[? ?]|?]);
  try match goal with H : rf _ = Some (_, true) |- _ => pose proof (Hfp _ H) as Xfp; destruct Xfp as [? ?] end;
  try (pose proof (Hfp _ eq_refl) as Xfp; destruct Xfp as [? ?]);
  try match goal with H : rreg _ = true |- _ => pose proof (Hrreg H) as Xrr; destruct Xrr as [? ?] end;
  try (pose proof (Hrreg eq_refl) as Xrr; destruct Xrr as [? ?]);
  try discriminate;
  repeat match goal with H : cw _ = Some _ |- _ => rewrite H in * end; cbn in *;
  rewrite ?andb_true_r, ?andb_false_r, ?orb_false_r, ?orb_true_r in *;
  try discriminate;
  repeat match goal with H : is_nil _ = true |- _ => apply is_nil_len in H end;
  repeat match goal with H : negb _ = false |- _ => apply negb_false_iff in H end;
  repeat match goal with H : is_nil _ = true |- _ => apply is_nil_len in H end;
  try (exfalso; lens; b2p; lia);
  repeat match goal with H : length ?l = 0 |- _ => apply length_zero_iff_nil in H; rewrite ?H in * end;
  rewrite ?app_nil_r in *;
  try match goal with H : pdrop _ = false |- _ => pose proof (Hpd H) end;
  repeat match goal with H : HLive _ _ = HLive _ _ |- _ => inversion H; clear H; subst end;
  b2p; z2p; subst; cbn in *;
  try discriminate; try congruence;
  try (eexists; reflexivity);
  try (left; eexists; reflexivity); try (right; reflexivity); try (right; assumption);
  try (do 2 eexists; repeat split; try reflexivity; intros; try discriminate; try congruence);
  try (repeat split; intros; subst; try discriminate; try congruence; try lia; eauto;
       try match goal with H : OFut = OFut -> _, H2 : rf _ = Some (RFBatch _, _) |- _ =>
             pose proof (Hpd (H eq_refl _ _ H2)) end; try lia;
       try (exfalso; match goal with H : r_pend _ = Some (OFut, _) |- _ =>
              pose proof (Hpf _ H) as Ypf; exs Ypf; congruence end)); eauto.

Lemma invr_exec cf s o : InvD s -> InvK s -> InvR s -> InvR (fst (exec cf s o)).
Proof.
  intros [Hl _ _ _ _ _ Hrf] [_ Hpd Hsc _ _ Hp Hscl _] [Hcw Hrreg Hpf Hps Hrpw Hfp].
  destruct o; cbn [exec]; unf_ops; cbn.
  all: repeat (split1; cbn).
  all: try (constructor; assumption).
  all: constructor; rfin Hpd Hsc Hcw Hrreg Hpf Hps Hrpw Hfp.
Qed.

(** * the combined invariant, for every cfg and every history *)
Definition Inv (s : st) : Prop := InvD s /\ InvK s /\ InvS s /\ InvR s.

Lemma inv_init c k : Inv (init c k).
Proof.
  split; [|split; [|split]]; constructor; unfold tot, held, alive; cbn; intros;
    try discriminate; try congruence; try lia; auto.
Qed.

Lemma inv_set_ev e s : Inv s -> Inv (set_ev e s).
Proof.
  intros (HD & HK & HS & HR). destruct HD, HK, HS, HR.
  split; [|split; [|split]]; constructor; unfold tot, held, alive in *; cbn; assumption.
Qed.

Lemma inv_step cf s o : Inv s -> Inv (fst (step cf s o)).
Proof.
  intros H. unfold step.
  destruct (exec cf (set_ev [] s) o) as [s1 r] eqn:E. cbn.
  apply (inv_set_ev []) in H. destruct H as (HD & HK & HS & HR).
  replace s1 with (fst (exec cf (set_ev [] s) o)) by (rewrite E; reflexivity).
  split; [|split; [|split]].
  - apply invd_exec; assumption.
  - apply invk_exec; assumption.
  - apply invs_exec; assumption.
  - apply invr_exec; assumption.
Qed.

Lemma inv_run cf ops : forall s, Inv s -> Inv (fst (run cf s ops)).
Proof.
  induction ops as [|o r IH]; intros s H; cbn [run].
  - exact H.
  - destruct (step cf s o) as [s1 x] eqn:E1.
    destruct (run cf s1 r) as [s2 xs] eqn:E2. cbn.
    replace s2 with (fst (run cf s1 r)) by (rewrite E2; reflexivity).
    apply IH. replace s1 with (fst (step cf s o)) by (rewrite E1; reflexivity).
    apply inv_step. exact H.
Qed.
