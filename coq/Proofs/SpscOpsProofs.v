(* Proofs/SpscOpsProofs.v — invariants of the K2 SPSC model for ALL op histories. *)
From Coq Require Import List Arith ZArith Bool Lia.
From Fibre Require Import Chan.SpscOps.
Import ListNotations.
Open Scope nat_scope.

(** * counting occurrences: conservation is stated with counts, derived Permutation/NoDup at the end *)
Definition cnt (x : nat) (l : list nat) : nat := count_occ Nat.eq_dec l x.

Lemma cnt_nil x : cnt x [] = 0.
Proof. reflexivity. Qed.
Lemma cnt_cons x y l : cnt x (y :: l) = (if y =? x then 1 else 0) + cnt x l.
Proof.
  unfold cnt. cbn [count_occ]. destruct (Nat.eq_dec y x) as [E|E].
  - subst. rewrite Nat.eqb_refl. reflexivity.
  - apply Nat.eqb_neq in E. rewrite E. reflexivity.
Qed.
Lemma cnt_app x a b : cnt x (a ++ b) = cnt x a + cnt x b.
Proof. unfold cnt. apply count_occ_app. Qed.
Lemma cnt_split k l x : cnt x l = cnt x (firstn k l) + cnt x (skipn k l).
Proof. rewrite <- cnt_app, firstn_skipn. reflexivity. Qed.
Lemma cnt_seq x a n : cnt x (seq a n) = if a <=? x then (if x <? a + n then 1 else 0) else 0.
Proof.
  revert a. induction n as [|n IH]; intros a; cbn [seq].
  - rewrite cnt_nil. destruct (a <=? x) eqn:E1, (x <? a + 0) eqn:E2; try reflexivity.
    apply Nat.leb_le in E1. apply Nat.ltb_lt in E2. lia.
  - rewrite cnt_cons, IH.
    destruct (a =? x) eqn:E0, (S a <=? x) eqn:E1, (x <? S a + n) eqn:E2, (a <=? x) eqn:E3, (x <? a + S n) eqn:E4;
      cbn; try reflexivity;
      repeat match goal with
             | H : (_ =? _) = true |- _ => apply Nat.eqb_eq in H
             | H : (_ =? _) = false |- _ => apply Nat.eqb_neq in H
             | H : (_ <=? _) = true |- _ => apply Nat.leb_le in H
             | H : (_ <=? _) = false |- _ => apply Nat.leb_gt in H
             | H : (_ <? _) = true |- _ => apply Nat.ltb_lt in H
             | H : (_ <? _) = false |- _ => apply Nat.ltb_ge in H
             end; lia.
Qed.

Arguments cnt : simpl never.
Arguments Nat.ltb : simpl never.
Arguments Nat.leb : simpl never.
Arguments Nat.eqb : simpl never.
Arguments Nat.add : simpl never.
Arguments Nat.sub : simpl never.
Arguments Nat.min : simpl never.
Arguments seq : simpl never.
Arguments firstn : simpl never.
Arguments skipn : simpl never.
Arguments Z.eqb : simpl never.
Arguments Z.sub : simpl never.

Definition tot (x : nat) (s : st) : nat :=
  cnt x (received s) + cnt x (q s) + cnt x (held s) + cnt x (returned s) + cnt x (dropped s) + cnt x (drained s).

Definition alive (s : st) : bool := match sh s, rh s with HGone, HGone => false | _, _ => true end.

Record InvD (s : st) : Prop := {
  d_len : length (q s) <= cap s;
  d_fifo : accepted s = received s ++ q s ++ drained s;
  d_cons : forall x, tot x s = if x <? next s then 1 else 0;
  d_alive : alive s = true -> drained s = [];
  d_dead : alive s = false -> q s = [];
  d_sf : sf s <> None -> exists c, sh s = HLive KAsync c;
  d_rf : rf s <> None -> exists c, rh s = HLive KAsync c
}.

Ltac b2p :=
  repeat match goal with
         | H : (_ =? _) = true |- _ => apply Nat.eqb_eq in H
         | H : (_ =? _) = false |- _ => apply Nat.eqb_neq in H
         | H : (_ <=? _) = true |- _ => apply Nat.leb_le in H
         | H : (_ <=? _) = false |- _ => apply Nat.leb_gt in H
         | H : (_ <? _) = true |- _ => apply Nat.ltb_lt in H
         | H : (_ <? _) = false |- _ => apply Nat.ltb_ge in H
         | H : (_ || _) = true |- _ => apply orb_true_iff in H
         | H : (_ || _) = false |- _ => apply orb_false_iff in H; destruct H
         | H : (_ && _) = true |- _ => apply andb_true_iff in H; destruct H
         | H : (_ && _) = false |- _ => apply andb_false_iff in H
         end.

(* destruct the scrutinee of the first match / if in the goal *)
Ltac split1 :=
  match goal with
  | |- context [match ?x with _ => _ end] =>
      match x with
      | context [match _ with _ => _ end] => fail 1
      | _ => destruct x eqn:?
      end
  end.


Ltac unf_ops :=
  unfold do_try_send, do_send, do_try_send_batch, do_send_batch, do_try_send_batch_mut, do_send_batch_mut,
    do_close_s, do_obs_s, do_conv_s, do_drop_s, do_mk_s, do_poll_s, do_dropfut_s,
    do_recv1, do_recvn, do_close_r, do_obs_r, do_conv_r, do_drop_r, do_mk_r, do_poll_r, do_dropfut_r, do_stream_next,
    gate_s, gate_r, free.
Ltac unf_prims :=
  unfold push, pop, give_back, destroy, alloc, free, close_int_s, close_int_r, close_int_s_if, close_int_r_if,
    shared_drop_if, both_gone, clear_stream_pend, clear_fut_pend, note_disc, stream_unreg,
    wake_r, wake_s, wake_r_if, wake_s_if, senders_alive.

Ltac hrw :=
  repeat match goal with
         | H : sh ?s = _ |- _ => rewrite H in *
         | H : rh ?s = _ |- _ => rewrite H in *
         | H : sf ?s = _ |- _ => rewrite H in *
         | H : rf ?s = _ |- _ => rewrite H in *
         | H : q ?s = _ |- _ => rewrite H in *
         end.
Ltac kinds :=
  repeat match goal with
         | H : kind_eqb ?k _ = true |- _ => destruct k; try discriminate H; clear H
         end.
Ltac lens := rewrite ?app_length, ?firstn_length, ?skipn_length, ?seq_length in *; cbn [length] in *.
Ltac cnts x :=
  repeat rewrite ?cnt_app, ?cnt_cons, ?cnt_nil in *;
  repeat match goal with
         | |- context [cnt x (skipn ?k ?l)] =>
             lazymatch goal with
             | _ : cnt x l = cnt x (firstn k l) + cnt x (skipn k l) |- _ => fail
             | _ => pose proof (cnt_split k l x)
             end
         | |- context [cnt x (firstn ?k ?l)] =>
             lazymatch goal with
             | _ : cnt x l = cnt x (firstn k l) + cnt x (skipn k l) |- _ => fail
             | _ => pose proof (cnt_split k l x)
             end
         end;
  repeat match goal with
         | H : context [skipn ?k ?l] |- _ =>
             rewrite (skipn_all2 (n:=k) l) in H by (cbn [length]; rewrite ?seq_length; lia)
         end;
  repeat rewrite ?cnt_nil, ?cnt_seq in *.
Ltac ifs :=
  repeat match goal with
         | |- context [if ?b then _ else _] => destruct b eqn:?
         | H : context [if ?b then _ else _] |- _ => destruct b eqn:?
         end.

Ltac pre := unfold alive in *; unf_prims; cbn; hrw; cbn; repeat (split1; cbn); hrw; cbn.
Ltac dfin Hl Hf Hc Ha Hd Hsf Hrf :=
  try (constructor; assumption);
  kinds;
  try (let Hdr := fresh "Hdr" in pose proof (Ha ltac:(unfold alive; hrw; try (destruct (sh _)); reflexivity)) as Hdr);
  constructor;
  [ pre; lens; b2p; try lia
  | pre; try rewrite Hf; try match goal with H : drained _ = [] |- _ => rewrite ?H end; repeat rewrite <- app_assoc; cbn [app]; rewrite ?app_nil_r;
    try reflexivity; repeat f_equal; rewrite ?app_assoc, ?firstn_skipn, ?app_nil_r; try reflexivity
  | let x := fresh "x" in intros x; specialize (Hc x); unfold tot, held in *; pre; cbn in Hc;
    try match goal with H : drained _ = [] |- _ => rewrite ?H in * end; b2p; cnts x; ifs; b2p; cnts x; ifs; b2p; subst; try lia
  | pre; intros; try discriminate; try match goal with H : drained _ = [] |- _ => rewrite ?H end; rewrite ?app_nil_r; auto
  | pre; intros; try discriminate; auto
  | pre; intros; try congruence; first [apply Hsf; congruence | eexists; reflexivity | eauto]
  | pre; intros; try congruence; first [apply Hrf; congruence | eexists; reflexivity | eauto] ].

Lemma invd_exec cf s o : InvD s -> InvD (fst (exec cf s o)).
Proof.
  intros [Hl Hf Hc Ha Hd Hsf Hrf].
  destruct o; cbn [exec]; unf_ops; cbn.
  all: repeat (split1; cbn).
  all: dfin Hl Hf Hc Ha Hd Hsf Hrf.
Qed.
