(* Proofs/TopicC04Proofs.v — C04 clauses for the topic flavour: preservation of Inv4 by every step and the
   theorems (all histories). *)
From Fibre Require Import Common.Base Chan.TopicOps Chan.TopicSpec Chan.TopicSpec04 Proofs.TopicLemmas Proofs.TopicInv
     Proofs.TopicInvSub Proofs.TopicInvRx Proofs.TopicInvPub Proofs.TopicInvTx Proofs.TopicOpsProofs Proofs.TopicC04Inv.

Lemma rel4_rx_id c kc da qt cl x y : rel4_rx c kc da qt cl x y -> r_id x = a_id y.
Proof. apply p_id. Qed.
Lemma rel4_tx_id c x y : rel4_tx c x y -> t_id x = b_id y.
Proof. apply q_id. Qed.

Lemma pair4_rx c kc s sp r x :
  Inv4 c kc s sp -> find_rx r (rxs s) = Some x ->
  exists y, find_rx4 r (s4_rx sp) = Some y /\ In x (rxs s) /\ In y (s4_rx sp) /\
            rel4_rx c kc (disp_alive s) (quiet (txs s)) (cls_of c (txs s)) x y.
Proof.
  intros J H. pose proof (gfind_pair r_id a_id _ _ _ r (j_rx _ _ _ _ J) (rel4_rx_id _ _ _ _ _)) as P.
  change (gfind r_id r (rxs s)) with (find_rx r (rxs s)) in P. rewrite H in P.
  change (gfind a_id r (s4_rx sp)) with (find_rx4 r (s4_rx sp)) in P.
  destruct (find_rx4 r (s4_rx sp)) as [y|]; [|contradiction]. exists y. tauto.
Qed.

Lemma none4_rx c kc s sp r : Inv4 c kc s sp -> find_rx r (rxs s) = None -> find_rx4 r (s4_rx sp) = None.
Proof.
  intros J H. pose proof (gfind_pair r_id a_id _ _ _ r (j_rx _ _ _ _ J) (rel4_rx_id _ _ _ _ _)) as P.
  change (gfind r_id r (rxs s)) with (find_rx r (rxs s)) in P. rewrite H in P.
  change (gfind a_id r (s4_rx sp)) with (find_rx4 r (s4_rx sp)) in P.
  destruct (find_rx4 r (s4_rx sp)); [contradiction | reflexivity].
Qed.

Lemma pair4_tx c kc s sp r x :
  Inv4 c kc s sp -> find_tx r (txs s) = Some x ->
  exists y, find_tx4 r (s4_tx sp) = Some y /\ In x (txs s) /\ In y (s4_tx sp) /\ rel4_tx c x y.
Proof.
  intros J H. pose proof (gfind_pair t_id b_id _ _ _ r (j_tx _ _ _ _ J) (rel4_tx_id _)) as P.
  change (gfind t_id r (txs s)) with (find_tx r (txs s)) in P. rewrite H in P.
  change (gfind b_id r (s4_tx sp)) with (find_tx4 r (s4_tx sp)) in P.
  destruct (find_tx4 r (s4_tx sp)) as [y|]; [|contradiction]. exists y. tauto.
Qed.

Lemma none4_tx c kc s sp r : Inv4 c kc s sp -> find_tx r (txs s) = None -> find_tx4 r (s4_tx sp) = None.
Proof.
  intros J H. pose proof (gfind_pair t_id b_id _ _ _ r (j_tx _ _ _ _ J) (rel4_tx_id _)) as P.
  change (gfind t_id r (txs s)) with (find_tx r (txs s)) in P. rewrite H in P.
  change (gfind b_id r (s4_tx sp)) with (find_tx4 r (s4_tx sp)) in P.
  destruct (find_tx4 r (s4_tx sp)); [contradiction | reflexivity].
Qed.

Lemma ids4_rx c kc da qt cl rs ss : Forall2 (rel4_rx c kc da qt cl) rs ss -> map r_id rs = map a_id ss.
Proof.
  induction 1 as [|x y rs ss Hxy HF IH]; cbn [map]; [reflexivity|]. rewrite (p_id _ _ _ _ _ _ _ Hxy), IH. reflexivity.
Qed.
Lemma ids4_tx c ts ss : Forall2 (rel4_tx c) ts ss -> map t_id ts = map b_id ss.
Proof.
  induction 1 as [|x y ts ss Hxy HF IH]; cbn [map]; [reflexivity|]. rewrite (q_id _ _ _ Hxy), IH. reflexivity.
Qed.

(* the open receivers on both sides *)
Lemma open_m_to_4 c kc s sp :
  Inv4 c kc s sp -> fix07 c || kc = true ->
  (exists x, In x (rxs s) /\ rx_open_m x = true) -> any_rx_open sp = true.
Proof.
  intros J Hk [x [Hx Ho]]. destruct (Forall2_In_l _ _ _ _ (j_rx _ _ _ _ J) Hx) as [y [Hy HR]].
  unfold any_rx_open. apply existsb_exists. exists y. split; [exact Hy|].
  unfold rx_open_m in Ho. apply andb_true_iff in Ho. destruct Ho as [L C]. apply negb_true_iff in C.
  unfold rx4_open. rewrite <- (p_live _ _ _ _ _ _ _ HR), L. cbn [andb].
  destruct (a_closed y) eqn:E; [|reflexivity]. pose proof (p_cl1 _ _ _ _ _ _ _ HR L E Hk). congruence.
Qed.

Lemma open_4_to_m c kc s sp :
  Inv4 c kc s sp -> disp_alive s = true -> any_rx_open sp = true -> exists x, In x (rxs s) /\ rx_open_m x = true.
Proof.
  intros J Hda H. unfold any_rx_open in H. apply existsb_exists in H. destruct H as [y [Hy Ho]].
  destruct (Forall2_In_r _ _ _ _ (j_rx _ _ _ _ J) Hy) as [x [Hx HR]]. exists x. split; [exact Hx|].
  unfold rx4_open in Ho. apply andb_true_iff in Ho. destruct Ho as [L C]. apply negb_true_iff in C.
  unfold rx_open_m. rewrite (p_live _ _ _ _ _ _ _ HR), L. cbn [andb].
  destruct (r_closed x) eqn:E; [|reflexivity].
  rewrite Hda in HR. rewrite <- (p_live _ _ _ _ _ _ _ HR) in L. pose proof (p_cl2 _ _ _ _ _ _ _ HR L eq_refl E). congruence.
Qed.

Lemma filter_nonempty {A} (P : A -> bool) l x : In x l -> P x = true -> (0 < length (filter P l))%nat.
Proof.
  intros Hin HP. assert (In x (filter P l)) by (apply filter_In; auto).
  destruct (filter P l); [contradiction | cbn; lia].
Qed.

Lemma filter_exists {A} (P : A -> bool) l : (0 < length (filter P l))%nat -> exists x, In x l /\ P x = true.
Proof.
  destruct (filter P l) as [|a l'] eqn:E; cbn; [lia|]. intros _.
  assert (In a (filter P l)) by (rewrite E; left; reflexivity). apply filter_In in H. eauto.
Qed.

(* change the record of receiver r only (and, with it, the receiver count) *)
Lemma inv4_upd_rx_gen c kc s sp0 sp r x y f g rc' :
  Inv c s sp0 -> Inv4 c kc s sp -> find_rx r (rxs s) = Some x -> find_rx4 r (s4_rx sp) = Some y ->
  (forall z, r_id (f z) = r_id z) -> (forall z, a_id (g z) = a_id z) ->
  rel4_rx c kc (disp_alive s) (quiet (txs s)) (cls_of c (txs s)) (f x) (g y) ->
  (fix07 c || kc = true -> disp_alive s = true ->
     (rc' + Z.of_nat (b2n' (rx_open_m x)) = rcount s + Z.of_nat (b2n' (rx_open_m (f x))))%Z) ->
  (cls_of c (txs s) = true -> r_live (f x) = true -> m_disc (r_mb (f x)) = true -> quiet (txs s)) ->
  Inv4 c kc (st_set_rcount (st_set_rxs s (upd_rx r f (rxs s))) rc') (s4_set_rx sp (upd_rx4 r g (s4_rx sp))).
Proof.
  intros I J Hx Hy Hidf Hidg HR Hcnt Hq.
  assert (Hux : forall x0, In x0 (rxs s) -> r_id x0 = r -> x0 = x).
  { intros x0 H1 H2. eapply (gfind_unique r_id); eauto. apply (i_rnd _ _ _ I). }
  assert (Huy : forall y0, In y0 (s4_rx sp) -> a_id y0 = r -> y0 = y).
  { intros y0 H1 H2. eapply (gfind_unique a_id); eauto.
    rewrite <- (ids4_rx _ _ _ _ _ _ _ (j_rx _ _ _ _ J)). apply (i_rnd _ _ _ I). }
  constructor; cbn [txs rxs futs rcount scount st_set_rxs st_set_rcount s4_rx s4_tx s4_futs s4_set_rx].
  - apply (j_tx _ _ _ _ J).
  - change (disp_alive (st_set_rcount (st_set_rxs s (upd_rx r f (rxs s))) rc')) with (disp_alive s).
    apply (gupd_pair r_id a_id _ _ r f g _ _ (j_rx _ _ _ _ J) (rel4_rx_id _ _ _ _ _)).
    + intros x0 y0 Hx0 Hy0 HR0 E. rewrite (Hux x0 Hx0 E).
      assert (E2 : a_id y0 = r) by (rewrite <- (p_id _ _ _ _ _ _ _ HR0); exact E). rewrite (Huy y0 Hy0 E2). exact HR.
    + intros x0 y0 _ _ HR0 _. exact HR0.
  - apply (j_futs _ _ _ _ J).
  - intros A B. change (disp_alive (st_set_rcount (st_set_rxs s (upd_rx r f (rxs s))) rc')) with (disp_alive s) in B.
    specialize (Hcnt A B). rewrite (j_cnt _ _ _ _ J A B) in Hcnt.
    pose proof (gcount_upd r_id rx_open_m r f (rxs s) x (i_rnd _ _ _ I) Hx Hidf) as P.
    change (gupd r_id r f (rxs s)) with (upd_rx r f (rxs s)) in P. lia.
  - apply (j_sc _ _ _ _ J).
  - intros A x0' Hx0' Hl Hd. apply In_upd_rx in Hx0'. destruct Hx0' as [x0 [Hx0 E]].
    destruct (N.eqb_spec (r_id x0) r) as [E2|E2]; subst x0'.
    + rewrite (Hux x0 Hx0 E2) in *. apply Hq; assumption.
    + apply (j_quiet _ _ _ _ J A x0 Hx0 Hl Hd).
Qed.

Lemma st_set_rcount_same s : st_set_rcount s (rcount s) = s.
Proof. destruct s; reflexivity. Qed.

Lemma inv4_upd_rx c kc s sp0 sp r x y f g :
  Inv c s sp0 -> Inv4 c kc s sp -> find_rx r (rxs s) = Some x -> find_rx4 r (s4_rx sp) = Some y ->
  (forall z, r_id (f z) = r_id z) -> (forall z, a_id (g z) = a_id z) ->
  rel4_rx c kc (disp_alive s) (quiet (txs s)) (cls_of c (txs s)) (f x) (g y) ->
  (fix07 c || kc = true -> rx_open_m (f x) = rx_open_m x) ->
  (cls_of c (txs s) = true -> r_live (f x) = true -> m_disc (r_mb (f x)) = true -> quiet (txs s)) ->
  Inv4 c kc (st_set_rxs s (upd_rx r f (rxs s))) (s4_set_rx sp (upd_rx4 r g (s4_rx sp))).
Proof.
  intros I J Hx Hy Hidf Hidg HR Hopen Hq.
  pose proof (inv4_upd_rx_gen c kc s sp0 sp r x y f g (rcount s) I J Hx Hy Hidf Hidg HR) as P.
  change (st_set_rcount (st_set_rxs s (upd_rx r f (rxs s))) (rcount s))
    with (st_set_rcount (st_set_rxs s (upd_rx r f (rxs s))) (rcount (st_set_rxs s (upd_rx r f (rxs s))))) in P.
  rewrite st_set_rcount_same in P. apply P; [|exact Hq]. intros A _. rewrite (Hopen A). reflexivity.
Qed.

Lemma upd_rx4_id r ss : upd_rx4 r (fun y => y) ss = ss.
Proof.
  unfold upd_rx4. rewrite <- (map_id ss) at 2. apply map_ext. intros a. destruct (N.eqb (a_id a) r); reflexivity.
Qed.

Lemma s4_set_rx_same sp : s4_set_rx sp (s4_rx sp) = sp.
Proof. destruct sp; reflexivity. Qed.

(** receive forms *)
Lemma recv_core_ok4 c kc s sp0 sp r x none reg s1 rs w sp1 vs :
  Inv c s sp0 -> Inv4 c kc s sp -> live_rx r s = Some x ->
  (none = REmpty \/ none = RTimeout \/ none = RPending \/ (none = RDisc /\ r_closed x = true /\ reg = None)) ->
  recv_core r x none reg s = (s1, (rs, w)) ->
  s4_recv sp r rs = (sp1, vs) ->
  Inv4 c kc s1 sp1 /\ vs4_ok c kc s vs.
Proof.
  intros I J Hl Hnone Hrc Hsp.
  apply live_rx_spec in Hl. destruct Hl as [Hx Hlive].
  destruct (pair4_rx _ _ _ _ _ _ J Hx) as [y [Hy [Hinx [Hiny HR]]]].
  unfold recv_core, mb_pop in Hrc. unfold s4_recv in Hsp. rewrite Hy in Hsp.
  (* a model-only change of the mailbox that keeps flags, the disconnected bit and does not grow the buffer *)
  assert (Hmodel : forall fm : rxh -> mbox, m_disc (fm x) = m_disc (r_mb x) -> (m_buf (r_mb x) = [] -> m_buf (fm x) = []) ->
            Inv4 c kc (st_set_rxs s (upd_rx r (fun y0 => rx_set_mb y0 (fm y0)) (rxs s))) sp).
  { intros fm Hd Hb. rewrite <- (s4_set_rx_same sp). rewrite <- (upd_rx4_id r (s4_rx sp)).
    apply (inv4_upd_rx c kc s sp0 sp r x y); auto.
    - destruct HR. constructor; cbn; auto.
      intros A B C. destruct (p_disc A B C) as [D1 D2]. split; [apply Hb; exact D1 | exact D2].
    - cbn. rewrite Hd. intros A B C. apply (j_quiet _ _ _ _ J A x Hinx B C). }
  (* the reference records that the handle observed Disconnected *)
  assert (Hsaw : m_buf (r_mb x) = [] -> (cls_of c (txs s) = true -> quiet (txs s)) ->
            Inv4 c kc s (s4_set_rx sp (upd_rx4 r (fun y0 => rx4_set y0 (a_live y0) (a_closed y0) true) (s4_rx sp)))).
  { intros Hb Hq. rewrite <- (st_set_rxs_same s) at 1. rewrite <- (upd_rx_id r (rxs s)).
    apply (inv4_upd_rx c kc s sp0 sp r x y); auto.
    all: try (intros A B C; apply (j_quiet _ _ _ _ J A x Hinx B C)).
    all: destruct HR; constructor; cbn; auto. }
  destruct (m_buf (r_mb x)) as [|[t v] b] eqn:Eb.
  - destruct (m_disc (r_mb x)) eqn:Ed.
    + injection Hrc as <- <- <-.
      destruct (a_closed y) eqn:Ec; injection Hsp as <- <-; (split; [|apply vs4_ok_nil]); [exact J|].
      apply Hsaw; [reflexivity|]. intros A. apply (j_quiet _ _ _ _ J A x Hinx Hlive Ed).
    + assert (Hnd : forall nn, none = nn -> (nn = REmpty \/ nn = RTimeout \/ nn = RPending) ->
                Inv4 c kc s1 sp1 /\ vs4_ok c kc s vs).
      { intros nn -> Hnn.
        assert (Hs1 : Inv4 c kc s1 sp /\ rs = nn /\ w = []).
        { destruct reg as [wk|]; injection Hrc as <- <- <-; (split; [|auto]); [|exact J].
          apply (Hmodel (fun y0 => mb_set_waiter (r_mb y0) (Some wk))); [cbn; exact Ed | cbn; auto]. }
        destruct Hs1 as [J1 [-> _]].
        assert (Hsp' : (sp, if a_closed y then [V4ClosedRxAccepts r] else []) = (sp1, vs))
          by (destruct Hnn as [->|[->| ->]]; exact Hsp).
        injection Hsp' as <- <-. split; [exact J1|].
        intros v0 Hv0. destruct (a_closed y); [|destruct Hv0]. destruct Hv0 as [<-|[]]. exact Logic.I. }
      destruct Hnone as [Hn|[Hn|[Hn|[Hn [Hcl Hreg]]]]]; [eapply Hnd; eauto | eapply Hnd; eauto | eapply Hnd; eauto |].
      subst none reg. injection Hrc as <- <- <-.
      destruct (a_closed y) eqn:Ec; injection Hsp as <- <-; (split; [|apply vs4_ok_nil]); [exact J|].
      apply Hsaw; [reflexivity|]. intros _. apply da_false_quiet.
      destruct (disp_alive s) eqn:E; [|reflexivity].
      pose proof (p_cl2 _ _ _ _ _ _ _ HR Hlive eq_refl Hcl). congruence.
  - injection Hrc as <- <- <-. injection Hsp as <- <-. split.
    + apply (Hmodel (fun _ => mb_set_buf (r_mb x) b)); [reflexivity | intros; discriminate].
    + intros v0 Hv0. apply in_app_or in Hv0. destruct Hv0 as [Hv0|Hv0].
      * destruct (a_sawdisc y) eqn:Es; [|destruct Hv0]. destruct Hv0 as [<-|[]]. cbn.
        destruct (cls_of c (txs s)) eqn:Ecl; [|reflexivity].
        destruct (p_disc _ _ _ _ _ _ _ HR Hlive Es eq_refl) as [D _]. congruence.
      * destruct (a_closed y); [|destruct Hv0]. destruct Hv0 as [<-|[]]. exact Logic.I.
Qed.

Definition step4_ok_for (c : cfg) (kc : bool) (o : op) : Prop :=
  forall s sp0 sp s1 rs w sp1 vs, Inv c s sp0 -> Inv4 c kc s sp ->
    step c s o = (s1, (rs, w)) -> s4_step sp o rs = (sp1, vs) ->
    Inv4 c kc s1 sp1 /\ vs4_ok c kc s vs.

Lemma s4_recv_inert sp r rs :
  match rs with RVal _ _ | REmpty | RTimeout | RPending | RDisc => False | _ => True end ->
  s4_recv sp r rs = (sp, []).
Proof.
  intros H. unfold s4_recv. destruct (find_rx4 r (s4_rx sp)); [|reflexivity].
  destruct rs; try reflexivity; contradiction.
Qed.

Ltac same4 J :=
  match goal with [ H1 : (_, (_, _)) = (_, (_, _)) |- _ ] => injection H1 as <- <- <- end;
  match goal with [ H2 : _ = (_, _) |- _ ] => cbn in H2; injection H2 as <- <- end;
  split; [exact J | apply vs4_ok_nil].

Lemma ok4_TryRecv c kc r : step4_ok_for c kc (TryRecv r).
Proof.
  intros s sp0 sp s1 rs w sp1 vs I J Hs Hsp. cbn [step s4_step] in *.
  destruct (live_rx r s) as [x|] eqn:Hl.
  - eapply (recv_core_ok4 _ _ _ _ _ _ _ REmpty); eauto.
  - injection Hs as <- <- <-. rewrite s4_recv_inert in Hsp by exact Logic.I. injection Hsp as <- <-.
    split; [exact J | apply vs4_ok_nil].
Qed.

Lemma ok4_RecvTimeout0 c kc r : step4_ok_for c kc (RecvTimeout0 r).
Proof.
  intros s sp0 sp s1 rs w sp1 vs I J Hs Hsp. cbn [step s4_step] in *.
  destruct (live_rx r s) as [x|] eqn:Hl.
  - destruct (r_async x).
    + injection Hs as <- <- <-. rewrite s4_recv_inert in Hsp by exact Logic.I. injection Hsp as <- <-.
      split; [exact J | apply vs4_ok_nil].
    + destruct (r_closed x) eqn:Ec.
      * eapply (recv_core_ok4 _ _ _ _ _ _ _ RDisc); eauto 8.
      * eapply (recv_core_ok4 _ _ _ _ _ _ _ RTimeout); eauto.
  - injection Hs as <- <- <-. rewrite s4_recv_inert in Hsp by exact Logic.I. injection Hsp as <- <-.
    split; [exact J | apply vs4_ok_nil].
Qed.

Lemma ok4_PollNext c kc r wk : step4_ok_for c kc (PollNext r wk).
Proof.
  intros s sp0 sp s1 rs w sp1 vs I J Hs Hsp. cbn [step s4_step] in *.
  destruct (live_rx r s) as [x|] eqn:Hl.
  - destruct (negb (r_async x)).
    + injection Hs as <- <- <-. rewrite s4_recv_inert in Hsp by exact Logic.I. injection Hsp as <- <-.
      split; [exact J | apply vs4_ok_nil].
    + destruct (rx_busy r s).
      * injection Hs as <- <- <-. rewrite s4_recv_inert in Hsp by exact Logic.I. injection Hsp as <- <-.
        split; [exact J | apply vs4_ok_nil].
      * eapply (recv_core_ok4 _ _ _ _ _ _ _ RPending); eauto 6.
  - injection Hs as <- <- <-. rewrite s4_recv_inert in Hsp by exact Logic.I. injection Hsp as <- <-.
    split; [exact J | apply vs4_ok_nil].
Qed.

Lemma ok4_Poll c kc f wk : step4_ok_for c kc (Poll f wk).
Proof.
  intros s sp0 sp s1 rs w sp1 vs I J Hs Hsp. cbn [step s4_step] in *.
  rewrite <- (j_futs _ _ _ _ J) in Hsp.
  destruct (find (fun p => N.eqb (fst p) f) (futs s)) as [[f' r]|] eqn:Hf.
  - destruct (live_rx r s) as [x|] eqn:Hl.
    + eapply (recv_core_ok4 _ _ _ _ _ _ _ RPending); eauto 6.
    + injection Hs as <- <- <-. rewrite s4_recv_inert in Hsp by exact Logic.I. injection Hsp as <- <-.
      split; [exact J | apply vs4_ok_nil].
  - same4 J.
Qed.

Lemma ok4_observers c kc o :
  match o with IsClosedS _ | IsClosedR _ | IsEmptyR _ | CapR _ => True | _ => False end -> step4_ok_for c kc o.
Proof.
  intros Ho s sp0 sp s1 rs w sp1 vs I J Hs Hsp. destruct o; try contradiction; cbn [step s4_step] in *.
  - destruct (live_tx s0 s); same4 J.
  - destruct (live_rx r s); same4 J.
  - destruct (live_rx r s); same4 J.
  - destruct (live_rx r s); same4 J.
Qed.

Lemma inv4_futs c kc s sp l : Inv4 c kc s sp -> Inv4 c kc (st_set_futs s l) (s4_set_futs sp l).
Proof.
  intros J. constructor; cbn; try apply J. reflexivity.
Qed.

Lemma ok4_MkRecv c kc f r : step4_ok_for c kc (MkRecv f r).
Proof.
  intros s sp0 sp s1 rs w sp1 vs I J Hs Hsp. cbn [step s4_step] in *.
  destruct (live_rx r s) as [x|] eqn:Hl; [|same4 J].
  destruct (negb (r_async x)); [same4 J|].
  destruct (existsb (fun p => N.eqb (fst p) f) (futs s)); [same4 J|].
  injection Hs as <- <- <-. injection Hsp as <- <-. split; [|apply vs4_ok_nil].
  rewrite <- (j_futs _ _ _ _ J). apply inv4_futs. exact J.
Qed.

Lemma ok4_DropF c kc f : step4_ok_for c kc (DropF f).
Proof.
  intros s sp0 sp s1 rs w sp1 vs I J Hs Hsp. cbn [step s4_step] in *.
  destruct (find (fun p => N.eqb (fst p) f) (futs s)); [|same4 J].
  injection Hs as <- <- <-. injection Hsp as <- <-. split; [|apply vs4_ok_nil].
  rewrite <- (j_futs _ _ _ _ J). apply inv4_futs. exact J.
Qed.

Lemma ok4_Subscribe c kc r t : step4_ok_for c kc (Subscribe r t).
Proof.
  intros s sp0 sp s1 rs w sp1 vs I J Hs Hsp. cbn [step s4_step] in *.
  destruct (live_rx r s); [|same4 J].
  injection Hs as <- <- <-. injection Hsp as <- <-. split; [|apply vs4_ok_nil].
  destruct (subscribe_core_frame r t s) as [A1 [A2 [A3 [A4 A5]]]]. eapply inv4_frame; eauto.
Qed.

Lemma ok4_Unsubscribe c kc r t : step4_ok_for c kc (Unsubscribe r t).
Proof.
  intros s sp0 sp s1 rs w sp1 vs I J Hs Hsp. cbn [step s4_step] in *.
  destruct (live_rx r s); [|same4 J].
  injection Hs as <- <- <-. injection Hsp as <- <-. split; [|apply vs4_ok_nil].
  destruct (unsubscribe_core_frame r t s) as [A1 [A2 [A3 [A4 A5]]]]. eapply inv4_frame; eauto.
Qed.

Lemma Forall2_map_l {A B} (R : A -> B -> Prop) (F : A -> A) l ss :
  Forall2 R l ss -> (forall x y, In x l -> R x y -> R (F x) y) -> Forall2 R (map F l) ss.
Proof.
  induction 1 as [|x y l ss Hxy HF IH]; intros H; cbn [map]; constructor.
  - apply H; [left; reflexivity | exact Hxy].
  - apply IH. intros a b Ha. apply H. right. exact Ha.
Qed.

(* apply to every receiver record a function that keeps flags and the disconnected bit *)
Lemma inv4_map_rx c kc s sp (F : rxh -> rxh) :
  Inv4 c kc s sp ->
  (forall x, r_id (F x) = r_id x /\ r_live (F x) = r_live x /\ r_closed (F x) = r_closed x /\
             r_async (F x) = r_async x /\ m_disc (r_mb (F x)) = m_disc (r_mb x)) ->
  (forall x, In x (rxs s) -> m_buf (r_mb x) = [] -> quiet (txs s) -> m_buf (r_mb (F x)) = []) ->
  Inv4 c kc (st_set_rxs s (map F (rxs s))) sp.
Proof.
  intros J HF Hb.
  constructor; cbn [txs rxs futs rcount scount st_set_rxs].
  - apply (j_tx _ _ _ _ J).
  - change (disp_alive (st_set_rxs s (map F (rxs s)))) with (disp_alive s).
    apply Forall2_map_l; [apply (j_rx _ _ _ _ J)|].
    intros x y Hx HR. destruct (HF x) as [F1 [F2 [F3 [F4 F5]]]]. destruct HR.
    constructor; rewrite ?F1, ?F2, ?F3, ?F4; auto.
    intros A B C. destruct (p_disc A B C) as [D1 D2]. split; [apply Hb; assumption | exact D2].
  - apply (j_futs _ _ _ _ J).
  - intros A B. rewrite (j_cnt _ _ _ _ J A B). f_equal. symmetry. apply filter_map_inv.
    intros x. destruct (HF x) as [F1 [F2 [F3 [F4 F5]]]]. unfold rx_open_m. rewrite F2, F3. reflexivity.
  - apply (j_sc _ _ _ _ J).
  - intros A x' Hx' Hl Hd. apply in_map_iff in Hx'. destruct Hx' as [x [<- Hx]].
    destruct (HF x) as [F1 [F2 [F3 [F4 F5]]]]. apply (j_quiet _ _ _ _ J A x Hx); congruence.
Qed.

Lemma deliver_fn_flags l m x :
  r_id (deliver_fn l m x) = r_id x /\ r_live (deliver_fn l m x) = r_live x /\ r_closed (deliver_fn l m x) = r_closed x /\
  r_async (deliver_fn l m x) = r_async x /\ m_disc (r_mb (deliver_fn l m x)) = m_disc (r_mb x).
Proof.
  unfold deliver_fn. destruct (r_live x && mem (r_id x) l); [|auto 6]. cbn. repeat split.
  unfold mb_deliver. destruct (N.leb (m_cap (r_mb x)) (N.of_nat (length (m_buf (r_mb x))))); reflexivity.
Qed.

Lemma ok4_Publish c kc h t v : step4_ok_for c kc (Publish h t v).
Proof.
  intros s sp0 sp s1 rs w sp1 vs I J Hs Hsp. cbn [step s4_step] in *.
  destruct (live_tx h s) as [x|] eqn:Hl; [|same4 J].
  pose proof (live_tx_da _ _ _ Hl) as Hda.
  apply live_tx_spec in Hl. destruct Hl as [Hx Hlive].
  destruct (pair4_tx _ _ _ _ _ _ J Hx) as [y [Hy [Hinx [Hiny HR]]]].
  destruct (t_closed x || Z.eqb (rcount s) 0) eqn:Ecl.
  - injection Hs as <- <- <-. rewrite Hy in Hsp. injection Hsp as <- <-. split; [exact J|].
    intros v0 Hv0. destruct (tx4_open y && any_rx_open sp) eqn:E; [|destruct Hv0]. destruct Hv0 as [<-|[]]. cbn.
    destruct (fix07 c || kc) eqn:Ek; [|reflexivity]. exfalso.
    apply andb_true_iff in E. destruct E as [E1 E2].
    unfold tx4_open in E1. apply andb_true_iff in E1. destruct E1 as [_ E1]. apply negb_true_iff in E1.
    assert (Hc : t_closed x = false).
    { destruct (t_closed x) eqn:C; [|reflexivity]. pose proof (q_cl _ _ _ HR Hlive C). congruence. }
    rewrite Hc in Ecl. cbn in Ecl. apply Z.eqb_eq in Ecl.
    destruct (open_4_to_m _ _ _ _ J Hda E2) as [x4 [Hx4 Ho]].
    pose proof (filter_nonempty rx_open_m _ _ Hx4 Ho). rewrite (j_cnt _ _ _ _ J Ek Hda) in Ecl. lia.
  - apply orb_false_iff in Ecl. destruct Ecl as [Ec1 Ec2]. apply Z.eqb_neq in Ec2.
    assert (Hvs : vs4_ok c kc s ((if b_self y then [V4ClosedTxAccepts h] else []) ++
                                 (if any_rx_open sp then [] else [V4SendAfterLastRx h]))).
    { intros v0 Hv0. apply in_app_or in Hv0. destruct Hv0 as [Hv0|Hv0].
      - destruct (b_self y) eqn:Es; [|destruct Hv0]. pose proof (q_self _ _ _ HR Hlive Es). congruence.
      - destruct (any_rx_open sp) eqn:Eo; [destruct Hv0|]. destruct Hv0 as [<-|[]]. cbn.
        destruct (fix07 c || kc) eqn:Ek; [|reflexivity]. exfalso.
        rewrite (j_cnt _ _ _ _ J Ek Hda) in Ec2.
        assert (H0 : (0 < length (filter rx_open_m (rxs s)))%nat) by lia.
        destruct (filter_exists _ _ H0) as [x4 [A B]].
        rewrite (open_m_to_4 _ _ _ _ J Ek) in Eo; [discriminate | eauto]. }
    assert (Hopen : tx_open_m x = true) by (unfold tx_open_m; rewrite Hlive, Ec1; reflexivity).
    assert (Hnq : ~ quiet (txs s)).
    { intros Q. rewrite (Q x Hinx) in Hopen. discriminate. }
    assert (Hgen : forall l, Inv4 c kc (st_set_rxs s (map (deliver_fn l (t, v)) (rxs s))) sp).
    { intros l. apply inv4_map_rx; [exact J | intros x0; apply deliver_fn_flags |].
      intros x0 _ _ Q. contradiction. }
    destruct (get_list t (lists s)) as [l|] eqn:El.
    + pose proof (deliver_list_spec (t, v) l (rxs s) (i_lnd _ _ _ I _ _ El) (i_rnd _ _ _ I)) as Hd.
      destruct (deliver_list l (t, v) (rxs s)) as [rs' w']. cbn [fst] in Hd. subst rs'.
      injection Hs as <- <- <-. rewrite Hy in Hsp. injection Hsp as <- <-. split; [apply Hgen | exact Hvs].
    + injection Hs as <- <- <-. rewrite Hy in Hsp. injection Hsp as <- <-. split; [exact J | exact Hvs].
Qed.

(** sender handles *)
Lemma cls_upd_tx c h f ts : cls_of c (upd_tx h f ts) = cls_of c ts.
Proof. unfold cls_of, upd_tx. rewrite map_length. reflexivity. Qed.

Lemma quiet_upd_tx h f ts : (forall z, tx_open_m (f z) = true -> tx_open_m z = true) -> quiet ts -> quiet (upd_tx h f ts).
Proof.
  intros Hf Q t Ht. unfold upd_tx in Ht. apply in_map_iff in Ht. destruct Ht as [a [Ea Ha]].
  destruct (N.eqb (t_id a) h); subst t; [|apply Q; exact Ha].
  destruct (tx_open_m (f a)) eqn:E; [|reflexivity]. pose proof (Hf a E) as H1. rewrite (Q a Ha) in H1. discriminate.
Qed.

Lemma da_upd_tx s h f :
  (forall z, t_live (f z) = true -> t_live z = true) ->
  existsb t_live (upd_tx h f (txs s)) = true -> disp_alive s = true.
Proof. intros Hf H. unfold disp_alive. eapply existsb_upd_tx_live; eauto. Qed.

Lemma rel4_rx_weaken c kc da da' (qt qt' : Prop) cl x y :
  rel4_rx c kc da qt cl x y -> (da' = true -> da = true) -> (qt -> qt') -> rel4_rx c kc da' qt' cl x y.
Proof.
  intros HR Hda Hq. destruct HR. constructor; auto.
  intros A B C. destruct (p_disc A B C) as [D1 D2]. split; [exact D1 | apply Hq; exact D2].
Qed.

(* one sender handle changes; which handles are open does not change (or only shrinks through f) *)
Lemma inv4_upd_tx c kc s sp0 sp h x y f g :
  Inv c s sp0 -> Inv4 c kc s sp -> find_tx h (txs s) = Some x -> find_tx4 h (s4_tx sp) = Some y ->
  (forall z, t_id (f z) = t_id z) -> (forall z, b_id (g z) = b_id z) ->
  (forall z, t_live (f z) = true -> t_live z = true) ->
  rel4_tx c (f x) (g y) -> tx_open_m (f x) = tx_open_m x ->
  (forall z, tx_open_m (f z) = true -> tx_open_m z = true) ->
  Inv4 c kc (st_set_txs s (upd_tx h f (txs s))) (s4_set_tx sp (upd_tx4 h g (s4_tx sp))).
Proof.
  intros I J Hx Hy Hidf Hidg Hlf HR Hopen Hmono.
  assert (Hux : forall x0, In x0 (txs s) -> t_id x0 = h -> x0 = x).
  { intros x0 H1 H2. eapply (gfind_unique t_id); eauto. apply (i_tnd _ _ _ I). }
  assert (Huy : forall y0, In y0 (s4_tx sp) -> b_id y0 = h -> y0 = y).
  { intros y0 H1 H2. eapply (gfind_unique b_id); eauto.
    rewrite <- (ids4_tx _ _ _ (j_tx _ _ _ _ J)). apply (i_tnd _ _ _ I). }
  constructor; cbn [txs rxs futs rcount scount st_set_txs s4_rx s4_tx s4_futs s4_set_tx].
  - apply (gupd_pair t_id b_id _ _ h f g _ _ (j_tx _ _ _ _ J) (rel4_tx_id _)).
    + intros x0 y0 Hx0 Hy0 HR0 E. rewrite (Hux x0 Hx0 E).
      assert (E2 : b_id y0 = h) by (rewrite <- (q_id _ _ _ HR0); exact E). rewrite (Huy y0 Hy0 E2). exact HR.
    + intros x0 y0 _ _ HR0 _. exact HR0.
  - rewrite cls_upd_tx. eapply Forall2_impl2; [apply (j_rx _ _ _ _ J)|].
    intros x0 y0 _ _ HR0. eapply rel4_rx_weaken; [exact HR0 | | apply quiet_upd_tx; exact Hmono].
    unfold disp_alive at 1. cbn [txs st_set_txs]. apply da_upd_tx. exact Hlf.
  - apply (j_futs _ _ _ _ J).
  - intros A B. apply (j_cnt _ _ _ _ J A). unfold disp_alive in B. cbn [txs st_set_txs] in B.
    eapply da_upd_tx; eauto.
  - intros F4. rewrite (j_sc _ _ _ _ J F4). f_equal.
    pose proof (gcount_upd t_id tx_open_m h f (txs s) x (i_tnd _ _ _ I) Hx Hidf) as P. rewrite Hopen in P.
    change (gupd t_id h f (txs s)) with (upd_tx h f (txs s)) in P. lia.
  - rewrite cls_upd_tx. intros A x0 Hx0 Hl Hd. apply quiet_upd_tx; [exact Hmono|].
    apply (j_quiet _ _ _ _ J A x0 Hx0 Hl Hd).
Qed.

Lemma upd_tx4_id h ss : upd_tx4 h (fun y => y) ss = ss.
Proof.
  unfold upd_tx4. rewrite <- (map_id ss) at 2. apply map_ext. intros a. destruct (N.eqb (b_id a) h); reflexivity.
Qed.

Lemma s4_set_tx_same sp : s4_set_tx sp (s4_tx sp) = sp.
Proof. destruct sp; reflexivity. Qed.

Lemma ok4_ConvS c kc h : step4_ok_for c kc (ConvS h).
Proof.
  intros s sp0 sp s1 rs w sp1 vs I J Hs Hsp. cbn [step s4_step] in *.
  destruct (live_tx h s) as [x|] eqn:Hl; [|same4 J].
  injection Hs as <- <- <-. injection Hsp as <- <-. split; [|apply vs4_ok_nil].
  apply live_tx_spec in Hl. destruct Hl as [Hx Hlive].
  destruct (pair4_tx _ _ _ _ _ _ J Hx) as [y [Hy [_ [_ HR]]]].
  rewrite <- (s4_set_tx_same sp). rewrite <- (upd_tx4_id h (s4_tx sp)).
  apply (inv4_upd_tx c kc s sp0 sp h x y); auto.
  destruct HR. constructor; cbn; auto.
Qed.

Lemma ok4_CloneS c kc h h' : step4_ok_for c kc (CloneS h h').
Proof.
  intros s sp0 sp s1 rs w sp1 vs I J Hs Hsp. cbn [step s4_step] in *.
  destruct (live_tx h s) as [x|] eqn:Hl; [|same4 J].
  destruct (find_tx h' (txs s)) as [x'|] eqn:Hf'; [same4 J|].
  destruct (t_async x); [same4 J|].
  pose proof (live_tx_da _ _ _ Hl) as Hda.
  apply live_tx_spec in Hl. destruct Hl as [Hx Hlive].
  destruct (pair4_tx _ _ _ _ _ _ J Hx) as [y [Hy [Hinx [Hiny HR]]]].
  pose proof (none4_tx _ _ _ _ _ J Hf') as Hnone.
  injection Hs as <- <- <-. rewrite Hy, Hnone in Hsp. injection Hsp as <- <-. split; [|apply vs4_ok_nil].
  set (cl := fix04 c && t_closed x).
  set (xn := {| t_id := h'; t_live := true; t_async := false; t_closed := cl |}).
  set (yn := {| b_id := h'; b_live := true; b_closed := b_closed y; b_self := false |}).
  assert (Hrel : rel4_tx c xn yn).
  { constructor; cbn; auto; try (intros; discriminate).
    - intros _ Hc. unfold cl in Hc. apply andb_true_iff in Hc. destruct Hc as [_ Hc]. apply (q_cl _ _ _ HR Hlive Hc).
    - intros _ F4. unfold cl. rewrite F4. cbn. apply (q_cl4 _ _ _ HR Hlive F4). }
  assert (Hcls : cls_of c (txs s ++ [xn]) = true -> fix04 c = true).
  { unfold cls_of. rewrite app_length. cbn [length]. destruct (fix04 c); [auto|]. cbn [orb].
    destruct (txs s) as [|a l]; [destruct Hinx|]. cbn [length]. intros H. apply Nat.eqb_eq in H. lia. }
  assert (Hq : fix04 c = true -> quiet (txs s) -> quiet (txs s ++ [xn])).
  { intros F4 Q t Ht. apply in_app_or in Ht. destruct Ht as [Ht|[<-|[]]]; [apply Q; exact Ht|].
    pose proof (Q x Hinx) as Qx. unfold tx_open_m in *. rewrite Hlive in Qx. cbn in Qx. apply negb_false_iff in Qx.
    cbn. unfold cl. rewrite F4, Qx. reflexivity. }
  assert (Hda' : forall sc, disp_alive (st_set_scount (st_set_txs s (txs s ++ [xn])) sc) = disp_alive s).
  { intros sc. unfold disp_alive. cbn [txs st_set_txs st_set_scount]. rewrite existsb_app. cbn.
    unfold disp_alive in Hda. rewrite Hda. reflexivity. }
  assert (Hgen : forall sc, (fix04 c = true -> sc = Z.of_nat (length (filter tx_open_m (txs s ++ [xn])))) ->
            Inv4 c kc (st_set_scount (st_set_txs s (txs s ++ [xn])) sc) (s4_set_tx sp (s4_tx sp ++ [yn]))).
  { intros sc Hsc. constructor; cbn [txs rxs futs rcount scount st_set_txs st_set_scount s4_rx s4_tx s4_futs s4_set_tx].
    - apply Forall2_snoc; [apply (j_tx _ _ _ _ J) | exact Hrel].
    - rewrite Hda'. eapply Forall2_impl2; [apply (j_rx _ _ _ _ J)|].
      intros x0 y0 _ _ HR0. destruct HR0. constructor; auto.
      intros A B C. pose proof (Hcls C) as F4.
      assert (C0 : cls_of c (txs s) = true) by (unfold cls_of; rewrite F4; reflexivity).
      destruct (p_disc A B C0) as [D1 D2]. split; [exact D1 | apply Hq; assumption].
    - apply (j_futs _ _ _ _ J).
    - rewrite Hda'. apply (j_cnt _ _ _ _ J).
    - exact Hsc.
    - intros C x0 Hx0 Hl Hd. pose proof (Hcls C) as F4.
      assert (C0 : cls_of c (txs s) = true) by (unfold cls_of; rewrite F4; reflexivity).
      apply Hq; [exact F4 | apply (j_quiet _ _ _ _ J C0 x0 Hx0 Hl Hd)]. }
  assert (Hn : length (filter tx_open_m (txs s ++ [xn])) = (length (filter tx_open_m (txs s)) + b2n' (negb cl))%nat).
  { rewrite filter_app, app_length. cbn [filter]. unfold tx_open_m at 2. cbn. destruct cl; reflexivity. }
  destruct (fix04 c) eqn:F4.
  - cbn [andb]. destruct (negb cl) eqn:Encl.
    + apply Hgen. intros _. cbn [scount st_set_txs]. rewrite Hn, (j_sc _ _ _ _ J F4). cbn [b2n']. lia.
    + pose proof (Hgen (scount s)) as P.
      assert (E : st_set_scount (st_set_txs s (txs s ++ [xn])) (scount s) = st_set_txs s (txs s ++ [xn])) by reflexivity.
      rewrite E in P. apply P. intros _. rewrite Hn, (j_sc _ _ _ _ J F4). cbn [b2n']. lia.
  - cbn [andb]. pose proof (Hgen (scount s)) as P.
    assert (E : st_set_scount (st_set_txs s (txs s ++ [xn])) (scount s) = st_set_txs s (txs s ++ [xn])) by reflexivity.
    rewrite E in P. apply P. intros; discriminate.
Qed.

Lemma disc_fn_flags c ls x :
  r_id (disc_fn c ls x) = r_id x /\ r_live (disc_fn c ls x) = r_live x /\ r_closed (disc_fn c ls x) = r_closed x /\
  r_async (disc_fn c ls x) = r_async x /\ m_buf (r_mb (disc_fn c ls x)) = m_buf (r_mb x).
Proof.
  unfold disc_fn. destruct (r_live x && (fix05 c || in_lists (r_id x) ls)); [|auto 6]. cbn. repeat split.
  apply mb_disconnect_keeps.
Qed.

(* close / drop of a sender handle whose own flag is not set: close_internal runs *)
Lemma sender_gone_inv4 c kc s sp0 sp h x y f g :
  Inv c s sp0 -> Inv4 c kc s sp -> find_tx h (txs s) = Some x -> t_live x = true -> t_closed x = false ->
  find_tx4 h (s4_tx sp) = Some y ->
  (forall z, t_id (f z) = t_id z) -> (forall z, b_id (g z) = b_id z) ->
  (forall z, t_live (f z) = true -> t_live z = true) ->
  rel4_tx c (f x) (g y) -> (forall z, tx_open_m (f z) = false) ->
  Inv4 c kc (st_set_txs (fst (tx_close_internal c s)) (upd_tx h f (txs s))) (s4_set_tx sp (upd_tx4 h g (s4_tx sp))).
Proof.
  intros I J Hx Hlive Hncl Hy Hidf Hidg Hlf HR Hfo.
  pose proof (find_tx_In _ _ _ Hx) as [Hinx Hxid].
  assert (Hxo : tx_open_m x = true) by (unfold tx_open_m; rewrite Hlive, Hncl; reflexivity).
  assert (Hux : forall x0, In x0 (txs s) -> t_id x0 = h -> x0 = x).
  { intros x0 H1 H2. eapply (gfind_unique t_id); eauto. apply (i_tnd _ _ _ I). }
  assert (Huy : forall y0, In y0 (s4_tx sp) -> b_id y0 = h -> y0 = y).
  { intros y0 H1 H2. eapply (gfind_unique b_id); eauto.
    rewrite <- (ids4_tx _ _ _ (j_tx _ _ _ _ J)). apply (i_tnd _ _ _ I). }
  pose proof (gcount_upd t_id tx_open_m h f (txs s) x (i_tnd _ _ _ I) Hx Hidf) as Hn.
  change (gupd t_id h f (txs s)) with (upd_tx h f (txs s)) in Hn. rewrite Hxo, (Hfo x) in Hn. cbn [b2n'] in Hn.
  assert (Hmono : forall z, tx_open_m (f z) = true -> tx_open_m z = true) by (intros z E; rewrite Hfo in E; discriminate).
  rewrite tx_close_internal_fst.
  set (ran := tx_ran c s).
  set (F := fun x0 => if ran then disc_fn c (lists s) x0 else x0).
  assert (EF : (if ran then map (disc_fn c (lists s)) (rxs s) else rxs s) = map F (rxs s)).
  { unfold F. destruct ran; [reflexivity | rewrite map_id; reflexivity]. }
  rewrite EF.
  assert (HF : forall x0, r_id (F x0) = r_id x0 /\ r_live (F x0) = r_live x0 /\ r_closed (F x0) = r_closed x0 /\
                          r_async (F x0) = r_async x0 /\ m_buf (r_mb (F x0)) = m_buf (r_mb x0)).
  { intros x0. unfold F. destruct ran; [apply disc_fn_flags | auto 6]. }
  assert (Hdisc : forall x0, m_disc (r_mb (F x0)) = true -> m_disc (r_mb x0) = true \/ ran = true).
  { intros x0. unfold F. destruct ran; auto. }
  (* once it ran, no sender handle is open any more *)
  assert (Hranq : ran = true -> cls_of c (txs s) = true -> quiet (upd_tx h f (txs s))).
  { intros Hr Hc. apply quiet_count. unfold ran, tx_ran in Hr. unfold cls_of in Hc.
    destruct (fix04 c) eqn:F4.
    - cbn [negb orb] in Hr. apply Z.eqb_eq in Hr. rewrite (j_sc _ _ _ _ J F4) in Hr. lia.
    - cbn [orb] in Hc. apply Nat.eqb_eq in Hc. destruct (txs s) as [|a [|a' l]] eqn:E; try discriminate.
      destruct Hinx as [->|[]]. unfold upd_tx. cbn [map filter]. rewrite Hxid, N.eqb_refl. rewrite Hfo. reflexivity. }
  constructor; cbn [txs rxs futs rcount scount st_set_txs st_set_scount st_set_rxs s4_rx s4_tx s4_futs s4_set_tx].
  - apply (gupd_pair t_id b_id _ _ h f g _ _ (j_tx _ _ _ _ J) (rel4_tx_id _)).
    + intros x0 y0 Hx0 Hy0 HR0 E. rewrite (Hux x0 Hx0 E).
      assert (E2 : b_id y0 = h) by (rewrite <- (q_id _ _ _ HR0); exact E). rewrite (Huy y0 Hy0 E2). exact HR.
    + intros x0 y0 _ _ HR0 _. exact HR0.
  - rewrite cls_upd_tx. apply Forall2_map_l.
    + eapply Forall2_impl2; [apply (j_rx _ _ _ _ J)|].
      intros x0 y0 _ _ HR0. eapply rel4_rx_weaken; [exact HR0 | | apply quiet_upd_tx; exact Hmono].
      unfold disp_alive at 1. cbn [txs st_set_txs st_set_scount st_set_rxs]. apply da_upd_tx. exact Hlf.
    + intros x0 y0 _ HR0. destruct (HF x0) as [F1 [F2 [F3 [F4 F5]]]]. destruct HR0.
      constructor; rewrite ?F1, ?F2, ?F3, ?F4, ?F5; auto.
  - apply (j_futs _ _ _ _ J).
  - intros A B. unfold disp_alive in B. cbn [txs st_set_txs st_set_scount st_set_rxs] in B.
    pose proof (da_upd_tx s h f Hlf B) as Hda. rewrite (j_cnt _ _ _ _ J A Hda). f_equal. symmetry.
    apply filter_map_inv. intros x0. destruct (HF x0) as [F1 [F2 [F3 [F4 F5]]]]. unfold rx_open_m. rewrite F2, F3. reflexivity.
  - intros F4. rewrite F4. rewrite (j_sc _ _ _ _ J F4). lia.
  - rewrite cls_upd_tx. intros A x0' Hx0' Hl Hd. apply in_map_iff in Hx0'. destruct Hx0' as [x0 [<- Hx0]].
    destruct (HF x0) as [F1 [F2 [F3 [F4 F5]]]]. rewrite F2 in Hl.
    destruct (Hdisc x0 Hd) as [D|D].
    + apply quiet_upd_tx; [exact Hmono|]. apply (j_quiet _ _ _ _ J A x0 Hx0 Hl D).
    + apply Hranq; assumption.
Qed.

Lemma ok4_CloseS c kc h : step4_ok_for c kc (CloseS h).
Proof.
  intros s sp0 sp s1 rs w sp1 vs I J Hs Hsp. cbn [step s4_step] in *.
  destruct (live_tx h s) as [x|] eqn:Hl; [|same4 J].
  destruct (t_closed x) eqn:Ec; [same4 J|].
  apply live_tx_spec in Hl. destruct Hl as [Hx Hlive].
  destruct (pair4_tx _ _ _ _ _ _ J Hx) as [y [Hy [_ [_ HR]]]].
  pose proof (tx_close_internal_txs c s (upd_tx h (fun y0 => tx_set y0 (t_live y0) (t_async y0) true) (txs s))) as E.
  destruct (tx_close_internal c (st_set_txs s (upd_tx h (fun y0 => tx_set y0 (t_live y0) (t_async y0) true) (txs s))))
    as [s2 w2]. cbn [fst] in E. injection Hs as <- <- <-. rewrite Hy in Hsp. injection Hsp as <- <-. split.
  - rewrite E. apply (sender_gone_inv4 c kc s sp0 sp h x y); auto.
    + destruct HR. constructor; cbn; auto.
    + intros z. unfold tx_open_m. cbn. apply andb_false_r.
  - intros v0 Hv0. destruct (b_self y) eqn:Es; [|destruct Hv0].
    pose proof (q_self _ _ _ HR Hlive Es). congruence.
Qed.

Lemma ok4_DropS c kc h : step4_ok_for c kc (DropS h).
Proof.
  intros s sp0 sp s1 rs w sp1 vs I J Hs Hsp. cbn [step s4_step] in *.
  destruct (live_tx h s) as [x|] eqn:Hl; [|same4 J].
  apply live_tx_spec in Hl. destruct Hl as [Hx Hlive].
  destruct (pair4_tx _ _ _ _ _ _ J Hx) as [y [Hy [_ [_ HR]]]].
  assert (Hrel : rel4_tx c (tx_set x false (t_async x) true) (tx4_set y false true (b_self y))).
  { destruct HR. constructor; cbn; auto; intros; discriminate. }
  destruct (t_closed x) eqn:Ec.
  - injection Hs as <- <- <-. injection Hsp as <- <-. split; [|apply vs4_ok_nil].
    apply (inv4_upd_tx c kc s sp0 sp h x y); auto.
    + intros z H. discriminate.
    + unfold tx_open_m. cbn. rewrite Ec. rewrite andb_false_r. reflexivity.
    + intros z H. unfold tx_open_m in H. cbn in H. discriminate.
  - pose proof (txs_tx_close_internal c s) as Et.
    destruct (tx_close_internal c s) as [s2 w2] eqn:Ecl. cbn [fst] in Et.
    injection Hs as <- <- <-. injection Hsp as <- <-. split; [|apply vs4_ok_nil].
    rewrite Et. replace s2 with (fst (tx_close_internal c s)) by (rewrite Ecl; reflexivity).
    apply (sender_gone_inv4 c kc s sp0 sp h x y); auto.
    intros z H. discriminate.
Qed.

(** receiver handles: close / drop / clone / convert *)
Lemma upd_rx_comp r f1 f2 rs :
  (forall z, r_id (f1 z) = r_id z) -> upd_rx r f2 (upd_rx r f1 rs) = upd_rx r (fun z => f2 (f1 z)) rs.
Proof.
  intros Hid. unfold upd_rx. rewrite map_map. apply map_ext. intros a.
  destruct (N.eqb_spec (r_id a) r) as [E|E].
  - rewrite Hid. destruct (N.eqb_spec (r_id a) r); [reflexivity | contradiction].
  - destruct (N.eqb_spec (r_id a) r); [contradiction | reflexivity].
Qed.

Lemma core_upd_cong r k l1 l2 :
  map rx_core l1 = map rx_core l2 ->
  (forall z1 z2, rx_core z1 = rx_core z2 -> rx_core (k z1) = rx_core (k z2)) ->
  map rx_core (upd_rx r k l1) = map rx_core (upd_rx r k l2).
Proof.
  intros E Hk. revert l2 E. induction l1 as [|a l1 IH]; intros l2 E; destruct l2 as [|b l2]; try discriminate; [reflexivity|].
  cbn [map] in E. apply cons_eq_inv in E. destruct E as [E1 E2]. unfold upd_rx. cbn [map]. fold (upd_rx r k l1). fold (upd_rx r k l2).
  rewrite (IH l2 E2). f_equal.
  assert (Eid : r_id a = r_id b) by (unfold rx_core in E1; congruence). rewrite Eid.
  destruct (N.eqb (r_id b) r); [apply Hk; exact E1 | exact E1].
Qed.

Lemma ok4_CloseR c kc r : step4_ok_for c kc (CloseR r).
Proof.
  intros s sp0 sp s1 rs w sp1 vs I J Hs Hsp. cbn [step s4_step] in *.
  destruct (live_rx r s) as [x|] eqn:Hl; [|same4 J].
  destruct (r_closed x) eqn:Ec; [same4 J|].
  apply live_rx_spec in Hl. destruct Hl as [Hx Hlive].
  destruct (pair4_rx _ _ _ _ _ _ J Hx) as [y [Hy [Hinx [Hiny HR]]]].
  injection Hs as <- <- <-. rewrite Hy in Hsp. injection Hsp as <- <-. split.
  - set (sA := st_set_rxs s (upd_rx r (fun y0 => rx_set_closed y0 true) (rxs s))).
    destruct (close_internal_frame c r sA) as [A1 [A2 [A3 [A4 A5]]]]. cbv zeta in *.
    assert (Hf : find_rx r (rxs sA) = Some (rx_set_closed x true)).
    { unfold sA. cbn [rxs st_set_rxs]. rewrite find_rx_upd by reflexivity. rewrite Hx, N.eqb_refl. reflexivity. }
    rewrite Hf in A5. change (disp_alive sA) with (disp_alive s) in A5.
    set (rc' := rcount (rx_close_internal c r sA)) in *.
    pose proof (inv4_upd_rx_gen c kc s sp0 sp r x y (fun y0 => rx_set_closed y0 true)
                  (fun y0 => rx4_set y0 (a_live y0) true (a_sawdisc y0)) rc' I J Hx Hy) as P.
    eapply (inv4_frame c kc _ (rx_close_internal c r sA)); [apply P | | | | |]; clear P; try reflexivity; auto.
    + destruct HR. constructor; cbn; auto.
    + intros A B. rewrite A5, B. unfold rx_open_m. cbn. rewrite Hlive, Ec. cbn. change (rcount sA) with (rcount s). lia.
    + cbn. intros A B C. apply (j_quiet _ _ _ _ J A x Hinx B C).
  - intros v0 Hv0. destruct (a_closed y) eqn:Ea; [|destruct Hv0]. destruct Hv0 as [<-|[]]. cbn.
    destruct (fix07 c || kc) eqn:Ek; [|reflexivity].
    pose proof (p_cl1 _ _ _ _ _ _ _ HR Hlive Ea Ek). congruence.
Qed.

Lemma ok4_ConvR c kc r : (kc = false) -> step4_ok_for c kc (ConvR r).
Proof.
  intros Hkc s sp0 sp s1 rs w sp1 vs I J Hs Hsp. cbn [step s4_step] in *.
  destruct (live_rx r s) as [x|] eqn:Hl; [|same4 J].
  destruct (rx_busy r s); [same4 J|].
  injection Hs as <- <- <-. injection Hsp as <- <-. split; [|apply vs4_ok_nil].
  apply live_rx_spec in Hl. destruct Hl as [Hx Hlive].
  destruct (pair4_rx _ _ _ _ _ _ J Hx) as [y [Hy [Hinx [Hiny HR]]]].
  rewrite <- (s4_set_rx_same sp). rewrite <- (upd_rx4_id r (s4_rx sp)).
  apply (inv4_upd_rx c kc s sp0 sp r x y); auto.
  - destruct HR. constructor; cbn; auto.
    + intros A B C. rewrite Hkc, orb_false_r in C. rewrite C. cbn. apply p_cl1; auto. rewrite C. reflexivity.
    + intros A B C. apply andb_true_iff in C. destruct C as [_ C]. auto.
    + intros; congruence.
  - intros A. rewrite Hkc, orb_false_r in A. unfold rx_open_m. cbn. rewrite A. reflexivity.
  - cbn. intros A B C. apply (j_quiet _ _ _ _ J A x Hinx B C).
Qed.

Lemma ok4_DropR c kc r : step4_ok_for c kc (DropR r).
Proof.
  intros s sp0 sp s1 rs w sp1 vs I J Hs Hsp. cbn [step s4_step] in *.
  destruct (live_rx r s) as [x|] eqn:Hl; [|same4 J].
  destruct (rx_busy r s) eqn:Hb; [same4 J|].
  injection Hs as <- <- <-. injection Hsp as <- <-. split; [|apply vs4_ok_nil].
  apply live_rx_spec in Hl. destruct Hl as [Hx Hlive].
  destruct (pair4_rx _ _ _ _ _ _ J Hx) as [y [Hy [Hinx [Hiny HR]]]].
  set (sA := st_set_rxs s (upd_rx r (fun y0 => rx_set_closed y0 true) (rxs s))).
  set (run := if r_async x && negb (fix07 c) then true else negb (r_closed x)).
  set (s2 := if run then rx_close_internal c r sA else sA).
  set (kill := fun y0 => rx_set_mb (rx_set_live y0 false) (fst (mb_disconnect (r_mb y0)))).
  set (f := fun z => kill (rx_set_closed z true)).
  assert (Hf : find_rx r (rxs sA) = Some (rx_set_closed x true)).
  { unfold sA. cbn [rxs st_set_rxs]. rewrite find_rx_upd by reflexivity. rewrite Hx, N.eqb_refl. reflexivity. }
  assert (Hs2 : txs s2 = txs s /\ scount s2 = scount s /\ futs s2 = futs s /\
                map rx_core (rxs s2) = map rx_core (rxs sA) /\
                rcount s2 = (if run && disp_alive s then (rcount s - 1)%Z else rcount s)).
  { unfold s2. destruct run; cbn [andb]; [|repeat split; reflexivity].
    destruct (close_internal_frame c r sA) as [A1 [A2 [A3 [A4 A5]]]]. cbv zeta in *.
    rewrite Hf in A5. change (disp_alive sA) with (disp_alive s) in A5. change (rcount sA) with (rcount s) in A5.
    repeat split; auto. }
  destruct Hs2 as [B1 [B2 [B3 [B4 B5]]]].
  pose proof (inv4_upd_rx_gen c kc s sp0 sp r x y f (fun y0 => rx4_set y0 false (a_closed y0) (a_sawdisc y0))
                (rcount s2) I J Hx Hy) as P.
  eapply (inv4_frame c kc _ (st_set_rxs s2 (upd_rx r kill (rxs s2)))); [apply P | | | | |]; clear P; auto.
  - destruct HR. constructor; cbn; auto; try (intros; discriminate).
  - intros A B. rewrite B5, B, andb_true_r. unfold rx_open_m at 2. cbn [f kill r_live rx_set_mb rx_set_live]. cbn [andb b2n'].
    assert (Hrun : run = negb (r_closed x)).
    { unfold run. apply orb_true_iff in A. destruct A as [A|A].
      - rewrite A. cbn. rewrite andb_false_r. reflexivity.
      - rewrite (p_sync _ _ _ _ _ _ _ HR A). reflexivity. }
    rewrite Hrun. unfold rx_open_m. rewrite Hlive. cbn [andb]. destruct (r_closed x); cbn; lia.
  - cbn. intros; discriminate.
  - cbn [rxs st_set_rxs st_set_rcount].
    rewrite (core_upd_cong r kill (rxs s2) (rxs sA) B4).
    + unfold sA. cbn [rxs st_set_rxs]. rewrite upd_rx_comp by reflexivity. reflexivity.
    + intros z1 z2 E. unfold rx_core in *. injection E as E1 E2 E3 E4 E5. unfold kill. cbn. rewrite E1, E3, E4, E5. reflexivity.
Qed.

(** all steps *)
Definition not_conv_r (o : op) : Prop := match o with ConvR _ => False | _ => True end.

Lemma ok4_CloneR c kc r r' : step4_ok_for c kc (CloneR r r').
Proof.
  intros s sp0 sp s1 rs w sp1 vs I J Hs Hsp. cbn [step s4_step] in *.
  destruct (live_rx r s) as [x|] eqn:Hl; [|same4 J].
  destruct (find_rx r' (rxs s)) as [x'|] eqn:Hf'; [same4 J|].
  apply live_rx_spec in Hl. destruct Hl as [Hx Hlive].
  destruct (pair4_rx _ _ _ _ _ _ J Hx) as [y [Hy [Hinx [Hiny HR]]]].
  pose proof (none4_rx _ _ _ _ _ J Hf') as Hnone.
  set (yn := {| a_id := r'; a_live := true; a_closed := false; a_sawdisc := false |}).
  destruct (disp_alive s) eqn:Eda.
  - injection Hs as <- <- <-. rewrite Hy, Hnone in Hsp. injection Hsp as <- <-. split; [|apply vs4_ok_nil].
    set (bd := fix05 c && fix04 c && Z.eqb (scount s) 0).
    set (xn := new_rx r' (r_async x) false (m_cap (r_mb x)) bd).
    set (s2 := st_set_rxs (st_set_rcount s (rcount s + 1)%Z) (rxs s ++ [xn])).
    assert (J2 : Inv4 c kc s2 (s4_set_rx sp (s4_rx sp ++ [yn]))).
    { constructor; cbn [txs rxs futs rcount scount s2 st_set_rxs st_set_rcount s4_rx s4_tx s4_futs s4_set_rx].
      - apply (j_tx _ _ _ _ J).
      - change (disp_alive s2) with (disp_alive s). apply Forall2_snoc; [apply (j_rx _ _ _ _ J)|].
        constructor; cbn; auto; try (intros; discriminate). intros A. apply (p_sync _ _ _ _ _ _ _ HR A).
      - apply (j_futs _ _ _ _ J).
      - intros A B. rewrite filter_app, app_length. cbn [filter]. unfold rx_open_m at 2. cbn [xn new_rx r_live r_closed andb negb length].
        rewrite (j_cnt _ _ _ _ J A Eda). lia.
      - apply (j_sc _ _ _ _ J).
      - intros A x0 Hx0 Hl0 Hd0. apply in_app_or in Hx0. destruct Hx0 as [Hx0|[<-|[]]].
        + apply (j_quiet _ _ _ _ J A x0 Hx0 Hl0 Hd0).
        + cbn in Hd0. unfold bd in Hd0. apply andb_true_iff in Hd0. destruct Hd0 as [Hd0 Hz].
          apply andb_true_iff in Hd0. destruct Hd0 as [_ F4]. apply Z.eqb_eq in Hz.
          apply quiet_count. rewrite (j_sc _ _ _ _ J F4) in Hz. lia. }
    destruct (fold_frame (fun t a => subscribe_core r' t a) (r_subs x) (fun t s0 => subscribe_core_frame r' t s0) s2)
      as [A1 [A2 [A3 [A4 A5]]]]. cbv zeta in *.
    eapply inv4_frame; eauto.
  - injection Hs as <- <- <-. rewrite Hy, Hnone in Hsp. injection Hsp as <- <-. split; [|apply vs4_ok_nil].
    set (xn := new_rx r' (r_async x) true 0 (fix05 c)).
    constructor; cbn [txs rxs futs rcount scount st_set_rxs s4_rx s4_tx s4_futs s4_set_rx].
    + apply (j_tx _ _ _ _ J).
    + change (disp_alive (st_set_rxs s (rxs s ++ [xn]))) with (disp_alive s). apply Forall2_snoc; [apply (j_rx _ _ _ _ J)|].
      rewrite Eda. constructor; cbn; auto; try (intros; discriminate). intros A. apply (p_sync _ _ _ _ _ _ _ HR A).
    + apply (j_futs _ _ _ _ J).
    + intros A B. change (disp_alive (st_set_rxs s (rxs s ++ [xn]))) with (disp_alive s) in B. congruence.
    + apply (j_sc _ _ _ _ J).
    + intros A x0 Hx0 Hl0 Hd0. apply da_false_quiet. exact Eda.
Qed.

Theorem step4_ok c kc o : (kc = true -> not_conv_r o) -> step4_ok_for c kc o.
Proof.
  intros Hk. destruct o.
  - apply ok4_Publish.
  - apply ok4_CloneS.
  - apply ok4_CloseS.
  - apply ok4_DropS.
  - apply ok4_ConvS.
  - apply ok4_observers. exact Logic.I.
  - apply ok4_Subscribe.
  - apply ok4_Unsubscribe.
  - apply ok4_CloneR.
  - apply ok4_CloseR.
  - apply ok4_DropR.
  - apply ok4_ConvR. destruct kc; [destruct (Hk eq_refl) | reflexivity].
  - apply ok4_TryRecv.
  - apply ok4_RecvTimeout0.
  - apply ok4_MkRecv.
  - apply ok4_Poll.
  - apply ok4_DropF.
  - apply ok4_PollNext.
  - apply ok4_observers. exact Logic.I.
  - apply ok4_observers. exact Logic.I.
  - apply ok4_observers. exact Logic.I.
Qed.

Lemma check4_sound c kc : forall h s sp sp4,
  (kc = true -> Forall not_conv_r h) -> Inv c s sp -> Inv4 c kc s sp4 ->
  forall v, In v (check4_from c s sp4 h) ->
  exists h1 h2, h = h1 ++ h2 /\ v4_ok c kc (state_from c s h1) v /\ Inv c (state_from c s h1) (spec_from c s sp h1).
Proof.
  induction h as [|o h IH]; intros s sp sp4 Hk I J v Hv; [destruct Hv|].
  cbn [check4_from] in Hv. destruct (step c s o) as [s1 [rs w]] eqn:Es.
  destruct (s4_step sp4 o rs) as [sp41 vs] eqn:Ep.
  assert (Hko : kc = true -> not_conv_r o).
  { intros A. specialize (Hk A). inversion Hk; assumption. }
  assert (Hkh : kc = true -> Forall not_conv_r h).
  { intros A. specialize (Hk A). inversion Hk; assumption. }
  destruct (step4_ok c kc o Hko s sp sp4 s1 rs w sp41 vs I J Es Ep) as [J1 Hvs].
  destruct (sp_step sp o rs) as [sp1 vs0] eqn:Ep0.
  destruct (step_ok c o s sp s1 rs w sp1 vs0 I Es Ep0) as [I1 _].
  apply in_app_or in Hv. destruct Hv as [Hv|Hv].
  - exists [], (o :: h). split; [reflexivity|]. split; [apply Hvs; exact Hv | exact I].
  - destruct (IH s1 sp1 sp41 Hkh I1 J1 v Hv) as [h1 [h2 [E [Hok I2]]]].
    exists (o :: h1), h2. split; [rewrite E; reflexivity|].
    rewrite state_from_cons, spec_from_cons, Es. cbn [fst snd]. rewrite Ep0. cbn [fst]. auto.
Qed.

Lemma violations4_sound c kc a cap h v :
  (kc = true -> a = false /\ Forall not_conv_r h) ->
  In v (violations4 c a cap h) ->
  exists h1 h2, h = h1 ++ h2 /\ v4_ok c kc (state_from c (init a cap) h1) v /\
                Inv c (state_from c (init a cap) h1) (spec_after c a cap h1).
Proof.
  intros Hk Hv. unfold violations4 in Hv. unfold spec_after.
  eapply (check4_sound c kc h (init a cap) (sp_init cap) s4_init); eauto.
  - intros A. apply Hk. exact A.
  - apply inv_init.
  - apply inv4_init. intros A. apply Hk. exact A.
Qed.

(** the theorems *)
(* never, for any fix switches: a closed sender handle accepting a send, or closing twice *)
Theorem c04_closed_sender_rejects c a cap h s :
  ~ In (V4ClosedTxAccepts s) (violations4 c a cap h) /\ ~ In (V4DoubleCloseTx s) (violations4 c a cap h).
Proof.
  split; intros Hv; destruct (violations4_sound c false a cap h _ (fun A => ltac:(discriminate)) Hv) as [h1 [h2 [_ [Hok _]]]];
    exact Hok.
Qed.

(* receiver count: with patch F-07, and on the current code for sync channels whose receivers are never converted *)
Definition count_clause (v : clause4) : Prop :=
  match v with V4SendAfterLastRx _ | V4ClosedWithLiveRx _ | V4DoubleCloseRx _ => True | _ => False end.

Theorem c04_count_postfix_F07 c : fix07 c = true ->
  forall a cap h v, count_clause v -> ~ In v (violations4 c a cap h).
Proof.
  intros F7 a cap h v Hc Hv.
  destruct (violations4_sound c false a cap h _ (fun A => ltac:(discriminate)) Hv) as [h1 [h2 [_ [Hok _]]]].
  destruct v; try contradiction; cbn in Hok; rewrite F7 in Hok; discriminate.
Qed.

Theorem c04_count_except_F07 c cap h v :
  Forall not_conv_r h -> count_clause v -> ~ In v (violations4 c false cap h).
Proof.
  intros Hf Hc Hv.
  destruct (violations4_sound c true false cap h _ (fun _ => conj eq_refl Hf) Hv) as [h1 [h2 [_ [Hok _]]]].
  destruct v; try contradiction; cbn in Hok; rewrite orb_true_r in Hok; discriminate.
Qed.

Lemma Forall2_len {A B} (R : A -> B -> Prop) l1 l2 : Forall2 R l1 l2 -> length l1 = length l2.
Proof. induction 1; cbn; congruence. Qed.

(* a handle that observed Disconnected never obtains a value afterwards *)
Theorem c04_value_after_disc_postfix_F04 c : fix04 c = true ->
  forall a cap h r, ~ In (V4ValueAfterDisc r) (violations4 c a cap h).
Proof.
  intros F4 a cap h r Hv.
  destruct (violations4_sound c false a cap h _ (fun A => ltac:(discriminate)) Hv) as [h1 [h2 [_ [Hok _]]]].
  cbn in Hok. unfold cls_of in Hok. rewrite F4 in Hok. discriminate.
Qed.

Theorem c04_value_after_disc_except_F04 c a cap h r :
  Forall not_clone_s h -> ~ In (V4ValueAfterDisc r) (violations4 c a cap h).
Proof.
  intros Hf Hv.
  destruct (violations4_sound c false a cap h _ (fun A => ltac:(discriminate)) Hv) as [h1 [h2 [E [Hok I]]]].
  cbn in Hok. unfold cls_of in Hok. apply orb_false_iff in Hok. destruct Hok as [_ Hok].
  rewrite (Forall2_len _ _ _ (i_tx _ _ _ I)) in Hok. unfold spec_after in Hok.
  rewrite spec_from_single in Hok; [cbn in Hok; discriminate|].
  rewrite E in Hf. apply Forall_app in Hf. tauto.
Qed.

(* F-03 (topic): a closed receiver handle keeps handing out values / "empty": refuted for every choice of switches *)
Definition closed_rx_rejects (c : cfg) : Prop := forall a cap h r, ~ In (V4ClosedRxAccepts r) (violations4 c a cap h).

Definition w_F03 : list op := [CloseR 0; TryRecv 0].

Theorem c04_closed_rx_refuted_F03 : ~ closed_rx_rejects pre_fix /\ ~ closed_rx_rejects post_fix.
Proof.
  split; intros H; apply (H false 2 w_F03 0); vm_compute; left; reflexivity.
Qed.

(* witnesses of the other refutations *)
Definition C04_full (c : cfg) : Prop :=
  forall a cap h v, In v (violations4 c a cap h) -> match v with V4ClosedRxAccepts _ => True | _ => False end.

Definition w_F07_conv : list op := [CloneR 0 1; CloseR 0; ConvR 0; CloseR 0; Publish 0 0 1].
Definition w_F07_adrop : list op := [CloneR 0 1; CloseR 0; DropR 0; Publish 0 0 1].
Definition w_F07_under : list op := [CloseR 0; DropR 0; Publish 0 0 1].
Definition w_F04_val : list op := [Subscribe 0 1; CloneS 0 1; DropS 1; TryRecv 0; Publish 0 1 8; TryRecv 0].
Definition w_F04_zombie : list op := [Subscribe 0 1; CloseS 0; CloneS 0 1; TryRecv 0; Publish 1 1 8; TryRecv 0].

Lemma witness_F07_conv : violations4 pre_fix false 2 w_F07_conv = [V4DoubleCloseRx 0; V4ClosedWithLiveRx 0].
Proof. vm_compute. reflexivity. Qed.
Lemma witness_F07_adrop : violations4 pre_fix true 2 w_F07_adrop = [V4ClosedWithLiveRx 0].
Proof. vm_compute. reflexivity. Qed.
Lemma witness_F07_under : violations4 pre_fix true 2 w_F07_under = [V4SendAfterLastRx 0].
Proof. vm_compute. reflexivity. Qed.
Lemma witness_F04_val : violations4 pre_fix false 2 w_F04_val = [V4ValueAfterDisc 0].
Proof. vm_compute. reflexivity. Qed.
Lemma witness_F04_zombie : violations4 pre_fix false 2 w_F04_zombie = [V4ValueAfterDisc 0].
Proof. vm_compute. reflexivity. Qed.
Lemma witnesses4_postfix :
  violations4 post_fix false 2 w_F07_conv = [] /\ violations4 post_fix true 2 w_F07_adrop = [] /\
  violations4 post_fix true 2 w_F07_under = [] /\ violations4 post_fix false 2 w_F04_val = [] /\
  violations4 post_fix false 2 w_F04_zombie = [].
Proof. vm_compute. auto 6. Qed.

Theorem c04_refuted_F07 : ~ C04_full pre_fix.
Proof. intros H. specialize (H true 2 w_F07_under (V4SendAfterLastRx 0)). apply H. vm_compute. left. reflexivity. Qed.
Theorem c04_refuted_F04 : ~ C04_full pre_fix.
Proof. intros H. specialize (H false 2 w_F04_val (V4ValueAfterDisc 0)). apply H. vm_compute. left. reflexivity. Qed.

(* with the patches every clause but the closed-receiver one holds *)
Theorem c04_postfix c : fix04 c = true -> fix07 c = true -> C04_full c.
Proof.
  intros F4 F7 a cap h v Hv. destruct v; try exact Logic.I; exfalso.
  - eapply c04_value_after_disc_postfix_F04; eauto.
  - eapply (c04_count_postfix_F07 c F7 a cap h (V4SendAfterLastRx s)); [exact Logic.I | exact Hv].
  - eapply (c04_count_postfix_F07 c F7 a cap h (V4ClosedWithLiveRx s)); [exact Logic.I | exact Hv].
  - eapply (proj1 (c04_closed_sender_rejects c a cap h s)); exact Hv.
  - eapply (proj2 (c04_closed_sender_rejects c a cap h s)); exact Hv.
  - eapply (c04_count_postfix_F07 c F7 a cap h (V4DoubleCloseRx r)); [exact Logic.I | exact Hv].
Qed.
