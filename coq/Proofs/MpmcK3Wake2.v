(* Proofs/MpmcK3Wake2.v — milestone 3 (wake protocol), part 2: a registered thread whose flag is still
   WAITING is linked (InvK); a signalled thread at its park has its token or its waker still owes the
   unpark (InvTk); the records a scanning lock holder has passed are no longer WAITING (InvP). *)
From Coq Require Import List NArith Arith Bool Lia Sorted.
From Fibre Require Import Common.Conc Chan.MpmcK3 Proofs.MpmcK3Base Proofs.MpmcK3Queue Proofs.MpmcK3Life Proofs.MpmcK3Wake1.
Import ListNotations.

(* a registered thread whose flag is still WAITING has its record linked *)
Definition r_wait (p : pc) : bool :=
  match p with RRegUnlock _ GoWait | RWLoad | RWNext | TWLoad | TWNext => true | _ => false end.
Definition s_wait (p : pc) : bool :=
  match p with SRegUnlock GoWait | SWLoad | SWNext => true | _ => false end.

Record InvK (s : st) : Prop := {
  K_r : forall u, r_wait (pcs s u) = true -> flag s u = FWaiting -> In (u, gen s u) (wr s);
  K_s : forall u, s_wait (pcs s u) = true -> flag s u = FWaiting -> In (u, gen s u) (ws s) }.

Ltac k_flag F uu t :=
  lazymatch type of F with
  | upd (flag _) t _ uu = _ => idtac
  | upd (flag _) ?n ?v uu = _ =>
      let Nn := fresh "Nn" in
      destruct (Nat.eq_dec uu n) as [->|Nn];
      [ rewrite upd_eq in F; try discriminate F | rewrite (upd_neq (flag _) _ Nn) in F ]
  | _ => idtac
  end.

Ltac k_fin Kr Ks Krt Kst :=
  first [ apply Kr; assumption | apply Ks; assumption
        | apply Krt; [reflexivity | assumption] | apply Kst; [reflexivity | assumption]
        | apply in_app_iff; left; first [ apply Kr | apply Ks ]; assumption
        | apply in_app_iff; right; left; reflexivity
        | eapply remove_nth_keep; [ eassumption | first [ apply Kr | apply Ks ]; assumption | congruence ]
        | apply unlink_In; split; [ first [ apply Kr | apply Ks ]; assumption | congruence ] ].

Ltac k_goal Kr Ks Krt Kst t :=
  let uu := fresh "uu" in let X := fresh "X" in let F := fresh "F" in
  intros uu X F; k_flag F uu t;
  split_thr uu t; cbn [r_wait s_wait] in X; try discriminate X; try discriminate F;
  rewrite ?upd_eq; k_fin Kr Ks Krt Kst.

Lemma InvK_step cap cf s t c s' e :
  InvL s -> InvE s -> InvK s -> step cap cf s t c = Some (s', e) -> InvK s'.
Proof.
  intros HL [Er Es Nr Ns Eb Ed] [Kr Ks] H.
  pose proof (proj1 HL t) as L1t. pose proof (Kr t) as Krt. pose proof (Ks t) as Kst.
  step_cases H; cbn [in_sec r_wait s_wait] in *.
  all: try solve [ entry_valid Er Es ].
  all: constructor; fsimpl.
  all: try solve [ k_goal Kr Ks Krt Kst t ].
Qed.

(* threads this pc still has to unpark *)
Definition pend (p : pc) : list nat :=
  match p with
  | SUnpark _ u | RUnpark _ _ u => [u]
  | DScan _ _ w | DUnlock w | DUnpark w => w
  | _ => []
  end.
Definition park_pc (p : pc) : bool := match p with RWNext | SWNext | TWNext => true | _ => false end.

(* a signalled thread sitting at its park has its token, or its waker still owes the unpark *)
Definition InvTk (s : st) : Prop :=
  forall u, park_pc (pcs s u) = true -> f_fin (flag s u) = true ->
            tok s u = true \/ exists h, In u (pend (pcs s h)).

Ltac tk_tok T :=
  left; first [ exact T
              | unfold upd; match goal with |- (if Nat.eqb ?a ?b then _ else _) = true =>
                  destruct (Nat.eqb_spec a b); [ first [reflexivity | congruence] | exact T ] end ].

Ltac tk_old Tk t Epc uu X F :=
  let T := fresh "T" in let h := fresh "h" in let Hh := fresh "Hh" in let Nh := fresh "Nh" in
  destruct (Tk uu X F) as [T|[h Hh]];
  [ tk_tok T
  | destruct (Nat.eq_dec h t) as [->|Nh];
    [ rewrite Epc in Hh; cbn [pend] in Hh;
      first [ solve [destruct Hh]
            | destruct Hh as [<-|Hh];
              [ left; rewrite upd_eq; reflexivity
              | first [ solve [destruct Hh]
                      | right; exists t; rewrite upd_eq; cbn [pend]; exact Hh ] ]
            | right; exists t; rewrite upd_eq; cbn [pend];
              first [ exact Hh | apply in_app_iff; left; exact Hh ] ]
    | right; exists h; rewrite upd_neq by exact Nh; exact Hh ] ].

Ltac tk_goal Tk t Epc :=
  let uu := fresh "uu" in let X := fresh "X" in let F := fresh "F" in let Nn := fresh "Nn" in
  intros uu X F; split_thr uu t;
  [ cbn [park_pc] in X; first [ discriminate X | congruence ]
  | lazymatch type of F with
    | f_fin (upd (flag _) ?n _ uu) = true =>
        destruct (Nat.eq_dec uu n) as [->|Nn];
        [ right; exists t; rewrite upd_eq; cbn [pend];
          first [ left; reflexivity | apply in_app_iff; right; left; reflexivity ]
        | rewrite (upd_neq (flag _) _ Nn) in F; tk_old Tk t Epc uu X F ]
    | _ => tk_old Tk t Epc uu X F
    end ].

Lemma InvTk_step cap cf s t c s' e :
  InvE s -> InvTk s -> step cap cf s t c = Some (s', e) -> InvTk s'.
Proof.
  intros [Er Es Nr Ns Eb Ed Eds] Tk H.
  step_cases H.
  all: try solve [ entry_valid Er Es ].
  all: unfold InvTk; fsimpl.
  all: try solve [ tk_goal Tk t Epc ].
Qed.

(* the records a scanning lock holder has passed are no longer WAITING *)
Definition passed (f : nat -> fl) (l : list (nat * nat)) (i : nat) : Prop :=
  forall j u g, j < i -> nth_error l j = Some (u, g) -> f u <> FWaiting.

Lemma passed_0 f l : passed f l 0.
Proof. intros j u g Hj. lia. Qed.
Lemma passed_next f l i u g : passed f l i -> nth_error l i = Some (u, g) -> f u <> FWaiting -> passed f l (S i).
Proof.
  intros P N F j u' g' Hj Hn. destruct (Nat.eq_dec j i) as [->|Ne].
  - rewrite N in Hn. inversion Hn; subst. exact F.
  - eapply P; [|exact Hn]. lia.
Qed.
Lemma passed_upd f l i n v : v <> FWaiting -> passed f l i -> passed (upd f n v) l i.
Proof.
  intros Hv P j u g Hj Hn. unfold upd. destruct (Nat.eqb u n); [exact Hv|]. eapply P; eassumption.
Qed.
Lemma not_waiting f : f_waiting f = false -> f <> FWaiting.
Proof. destruct f; cbn; congruence. Qed.

Record InvP (s : st) : Prop := {
  P_s : forall h k i, pcs s h = SScan k i -> passed (flag s) (wr s) i;
  P_r : forall h k v i, pcs s h = RScan k v i -> passed (flag s) (ws s) i;
  P_d : forall h a i w, pcs s h = DScan a i w ->
        passed (flag s) (if is_prod (prog s h) then wr s else ws s) i }.

Ltac kill_other' HL L1t X :=
  exfalso; eapply (@other_not_in_sec _ _ _ HL);
   [ eassumption | first [ left; apply L1t; reflexivity | right; assumption ] | rewrite X; reflexivity ].

(* the CAS on entry i failed although the record is valid: it was not WAITING *)
Ltac cas_failed :=
  match goal with
  | E : true && f_waiting (flag ?s ?n) = false |- _ => cbn [andb] in E; apply not_waiting in E
  | E3 : ?v && f_waiting (flag ?s ?n) = false, E4 : ?v = true |- _ =>
      rewrite E4 in E3; cbn [andb] in E3; apply not_waiting in E3
  end.

Ltac p_new Pst Prt Pdt :=
  first [ apply passed_0
        | eapply passed_next; [ first [ eapply Pst; reflexivity | eapply Prt; reflexivity | eapply Pdt; reflexivity ] | eassumption | first [ cas_failed; assumption | rewrite upd_eq; discriminate ] ]
        | eapply passed_next;
          [ apply passed_upd; [ discriminate | first [ eapply Pst; reflexivity | eapply Prt; reflexivity | eapply Pdt; reflexivity ] ]
          | eassumption | rewrite upd_eq; discriminate ] ].

Lemma InvP_step cap cf s t c s' e :
  InvL s -> InvE s -> InvP s -> step cap cf s t c = Some (s', e) -> InvP s'.
Proof.
  intros HL [Er Es Nr Ns Eb Ed Eds] [Ps Pr Pd] H.
  pose proof (proj1 HL t) as L1t. pose proof (Ps t) as Pst. pose proof (Pr t) as Prt. pose proof (Pd t) as Pdt.
  step_cases H; cbn [in_sec] in L1t.
  all: try solve [ entry_valid Er Es ].
  all: try match goal with E : false && _ = true |- _ => discriminate E end.
  all: constructor; fsimpl.
  all: try solve [ intros hh k0 i0 X; split_thr hh t;
         [ try discriminate X
         | first [ eapply Ps; eassumption | kill_other' HL L1t X
                 | apply passed_upd; [discriminate | eapply Ps; eassumption] ] ] ].
  all: try solve [ intros hh k0 v0 i0 X; split_thr hh t;
         [ try discriminate X
         | first [ eapply Pr; eassumption | kill_other' HL L1t X
                 | apply passed_upd; [discriminate | eapply Pr; eassumption] ] ] ].
  all: try solve [ intros hh a0 i0 w0 X; split_thr hh t;
         [ try discriminate X
         | rewrite ?next_prog_role;
           first [ eapply Pd; eassumption | kill_other' HL L1t X
                 | apply passed_upd; [discriminate | eapply Pd; eassumption] ] ] ].
  all: try solve [ intros hh k0 i0 X; split_thr hh t;
         [ inversion X; subst; p_new Pst Prt Pdt | kill_other' HL L1t X ] ].
  all: try solve [ intros hh k0 v0 i0 X; split_thr hh t;
         [ inversion X; subst; p_new Pst Prt Pdt | kill_other' HL L1t X ] ].
  all: try solve [ intros hh a0 i0 w0 X; split_thr hh t;
         [ inversion X; subst;
           try match goal with E : is_prod (prog _ _) = _ |- _ => rewrite E in *; cbn iota in * end;
           p_new Pst Prt Pdt
         | kill_other' HL L1t X ] ].
Qed.
