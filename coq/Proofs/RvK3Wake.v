(* Proofs/RvK3Wake.v — wake protocol and handle counts of the K3' rendezvous model (C05):
   whoever publishes a terminal state owes the waiter an unpark (it holds the wake handle), so a
   thread parked on a terminal state always has a token or a wake in flight; the handle counts
   count the threads that have not yet dropped their handle, and the last handle of a side
   disconnects every parked waiter of the other side. *)
From Coq Require Import List NArith Arith Bool Lia.
From Fibre Require Import Common.Conc Chan.RvK3 Proofs.RvK3Base Proofs.RvK3Queue.
Import ListNotations.

Set Implicit Arguments.
Unset Strict Implicit.

(* thread at pc p holds a wake handle for u that it has not used yet *)
Definition owes (p : pc) (u : nat) : Prop :=
  match p with
  | SUnl _ (SUWoke r) | SUnpark r => r = u
  | RUnl _ (RUWoke q _) | RUnpark q _ => q = u
  | DDisc ws | DUnl ws | DUnpark ws => In u ws
  | _ => False
  end.
Definition owed (s : st) (u : nat) : Prop := token s u = true \/ exists t, owes (pcs s t) u.
Definition parkpc (p : pc) : bool := match p with SPark | RPark => true | _ => false end.

Record WInv (s : st) : Prop := {
  W_owed : forall u, parkpc (pcs s u) = true -> wstate s u <> W -> owed s u;
  W_ne : forall u, pcs s u <> DUnpark []
}.

Lemma WInv_init cfg : WInv (init cfg).
Proof. split; cbn; intros; discriminate. Qed.

(* ---- facts about one step, used to lift the wake invariant *)
Lemma step_token_kept cfg s t c s' e u :
  step true cfg s t c = Some (s', e) -> u <> t -> token s u = true -> token s' u = true.
Proof.
  intros H Hu Ht. step_cases H; fsimpl; rewrite ?upd_neq by assumption; try assumption.
  all: unfold upd; destruct (Nat.eqb u _); [reflexivity|assumption].
Qed.

Lemma step_pcs_other cfg s t c s' e u :
  step true cfg s t c = Some (s', e) -> u <> t -> pcs s' u = pcs s u.
Proof. intros H Hu. step_cases H; fsimpl; rewrite ?upd_neq by assumption; reflexivity. Qed.

Lemma step_owes_kept cfg s t c s' e u :
  WInv s -> step true cfg s t c = Some (s', e) -> owes (pcs s t) u -> owes (pcs s' t) u \/ token s' u = true.
Proof.
  intros [_ Wn] H Ho. pose proof (Wn t) as Nt.
  step_cases H; rewrite Epc in Ho, Nt; cbn [owes] in Ho; try contradiction; fsimpl; rewrite ?upd_eq; cbn [owes].
  all: try (left; exact Ho).
  all: try (subst; right; rewrite upd_eq; reflexivity).
  all: try (left; apply in_app_iff; left; exact Ho).
  all: try (destruct Ho as [->|Ho]; [right; rewrite upd_eq; reflexivity | try contradiction; left; exact Ho]).
Qed.

Lemma step_terminal_owes cfg s t c s' e u :
  step true cfg s t c = Some (s', e) -> u <> t -> wstate s u = W -> wstate s' u <> W -> owes (pcs s' t) u.
Proof.
  intros H Hu Hw Hw'.
  step_cases H; fsimpl; rewrite ?upd_eq; cbn [owes];
    try (rewrite ?upd_neq in Hw' by assumption; contradiction).
  all: match type of Hw' with context [upd _ ?n _ _] =>
         destruct (Nat.eq_dec u n) as [->|Hn]; [|rewrite upd_neq in Hw' by assumption; contradiction] end.
  all: try reflexivity.
  all: apply in_app_iff; right; left; reflexivity.
Qed.

Lemma step_park_waiting cfg s t c s' e :
  step true cfg s t c = Some (s', e) -> parkpc (pcs s' t) = true -> parkpc (pcs s t) = false -> wstate s' t = W.
Proof.
  intros H Hp Hq. step_cases H; fsimpl; rewrite upd_eq in Hp; rewrite Epc in Hq; cbn [parkpc] in Hp, Hq; try discriminate; assumption.
Qed.

Lemma step_park_stays cfg s t c s' e :
  step true cfg s t c = Some (s', e) -> parkpc (pcs s t) = true -> parkpc (pcs s' t) = false.
Proof.
  intros H Hq. step_cases H; fsimpl; rewrite upd_eq; rewrite Epc in Hq; cbn [parkpc] in *; try discriminate; reflexivity.
Qed.

Lemma WInv_step cfg s t c s' e :
  WInv s -> step true cfg s t c = Some (s', e) -> WInv s'.
Proof.
  intros WI H. split.
  - intros u Hp Hw. destruct (Nat.eq_dec u t) as [->|Hu].
    + destruct (parkpc (pcs s t)) eqn:Hq.
      * rewrite (step_park_stays H Hq) in Hp. discriminate.
      * exfalso. apply Hw. exact (step_park_waiting H Hp Hq).
    + rewrite (step_pcs_other H Hu) in Hp.
      destruct (wstate s u) eqn:Ew.
      * right. exists t. apply (step_terminal_owes H Hu Ew Hw).
      * assert (Ho : owed s u) by (apply (W_owed WI); [exact Hp|congruence]).
        destruct Ho as [Ho|[t0 Ho]].
        -- left. exact (step_token_kept H Hu Ho).
        -- destruct (Nat.eq_dec t0 t) as [->|Ht0].
           ++ destruct (step_owes_kept WI H Ho) as [X|X]; [right; exists t; exact X|left; exact X].
           ++ right. exists t0. rewrite (step_pcs_other H Ht0). exact Ho.
      * assert (Ho : owed s u) by (apply (W_owed WI); [exact Hp|congruence]).
        destruct Ho as [Ho|[t0 Ho]].
        -- left. exact (step_token_kept H Hu Ho).
        -- destruct (Nat.eq_dec t0 t) as [->|Ht0].
           ++ destruct (step_owes_kept WI H Ho) as [X|X]; [right; exists t; exact X|left; exact X].
           ++ right. exists t0. rewrite (step_pcs_other H Ht0). exact Ho.
      * assert (Ho : owed s u) by (apply (W_owed WI); [exact Hp|congruence]).
        destruct Ho as [Ho|[t0 Ho]].
        -- left. exact (step_token_kept H Hu Ho).
        -- destruct (Nat.eq_dec t0 t) as [->|Ht0].
           ++ destruct (step_owes_kept WI H Ho) as [X|X]; [right; exists t; exact X|left; exact X].
           ++ right. exists t0. rewrite (step_pcs_other H Ht0). exact Ho.
  - intros u. destruct (Nat.eq_dec u t) as [->|Hu].
    + pose proof (@W_ne _ WI t) as Nt. step_cases H; fsimpl; rewrite upd_eq; try discriminate.
      all: rewrite Epc in Nt; congruence.
    + rewrite (step_pcs_other H Hu). apply (W_ne WI).
Qed.
