(* Proofs/OneshotK3Wake.v — the wake protocol of the oneshot recv future under a block_on executor
   (K3 model): a parked receiver always has a wake-up owed.  With the repair of F-37 (fixB): no
   reachable state in which nobody can step has a parked receiver (deadlock freedom), for every N >= 1,
   all programs and all schedules; refuted for the code before the repair by a concrete schedule. *)
From Coq Require Import List Arith Bool Lia.
From Fibre Require Import Common.Conc Chan.OneshotK3 Proofs.OneshotK3Base Proofs.OneshotK3Life
     Proofs.OneshotK3Slot Proofs.OneshotK3Vals.
Import ListNotations.

Definition z2 (p : rpc_t) : bool :=
  match p with
  | TLoad CP2 | TCas CP2 | TLock CP2 | TNone CP2 | TUnlock CP2 _ | TFLoad CP2 | TFCnt CP2 | TCnt CP2 | TClose CP2
  | PCntC | BChk | BPark => true
  | _ => false
  end.
Definition lz (p : rpc_t) : bool :=
  match p with TCnt CP2 | TClose CP2 | PCntC | BChk | BPark => true | _ => false end.
Definition bz (p : rpc_t) : bool := match p with BChk | BPark => true | _ => false end.
Definition unparking (p : spc_t) : bool := match p with WUnpark _ => true | _ => false end.
Definition lastw (p : spc_t) : bool :=
  match p with DCas | DLoad | DRd | DLoadR | WTake WLate => true | _ => false end.

Section Wake.
  Variable C : cfg.
  Variable n : nat.
  Variable sprog : nat -> sop.
  Hypothesis Hn : 1 <= n.

  Notation inr := (inr n).
  Notation LInv := (LInv n).

  Record WInv (s : st) : Prop := mkWInv {
    w_1 : z2 (rpc s) = true -> wk s = Some (gen s) \/ woken s = true;
    w_2 : rpc s = BPark -> woken s = true -> token s = true \/ exists t, unparking (spc s t) = true;
    w_js : lz (rpc s) = true -> wk s = Some (gen s) -> woken s = false -> cs s = Sent ->
           exists t, spc s t = WTake WSend;
    w_jc : lz (rpc s) = true -> wk s = Some (gen s) -> woken s = false -> cs s = Closed ->
           exists t, spc s t = WTake WClosed;
    w_jt : fixB C = true -> bz (rpc s) = true -> wk s = Some (gen s) -> woken s = false -> cs s = Taken ->
           (exists t, inr t /\ pre_fsub (spc s t) = true) \/ (exists t, lastw (spc s t) = true);
    w_k2 : cs s = Empty -> (exists t, inr t /\ pre_fsub (spc s t) = true) \/ (exists t, spc s t = DCas)
  }.

  Lemma WInv_init rp : WInv (init n rp).
  Proof.
    constructor; cbn; intros; try discriminate; try congruence; auto.
    left. exists 1. split; [unfold OneshotK3Life.inr; lia|reflexivity].
  Qed.

  Ltac prep :=
    intros; fsimpl; pcsimpl; norm; spec_refl;
    repeat (match goal with
            | I : ?P -> _, H : ?P |- _ => match type of P with Prop => specialize (I H) end
            end; spec_refl);
    repeat match goal with
           | H : _ \/ _ |- _ => destruct H as [H|H]
           | H : exists _, _ |- _ => destruct H as [? H]
           | H : _ /\ _ |- _ => destruct H
           end.

  Ltac wsolve0 :=
    norm; try contradiction;
    try discriminate; try congruence; try (exfalso; congruence); eauto; try lia;
    try (left; solve [eauto]); try (right; solve [eauto]).

  Ltac wsolve1 :=
    wsolve0;
    try (match goal with
         | H : bz (rpc ?s) = true |- _ => destruct (rpc s) eqn:?; try discriminate H
         | H : lz (rpc ?s) = true |- _ => destruct (rpc s) eqn:?; try discriminate H
         end;
         repeat match goal with c : tctx |- _ => destruct c end; try discriminate;
         cbn [z2 lz bz] in *; prep; wsolve0).

  Lemma WInv_rstep s s' e : LInv s -> WInv s -> rstep C s = Some (s', e) -> WInv s'.
  Proof.
    intros L W H.
    assert (Hrdf : rclosed s = false -> rfin (rpc s) = false -> rd s = false).
    { intros A B. destruct (rd s) eqn:E; [|reflexivity]. destruct (l_rd _ _ L E); congruence. }
    assert (Hpf : cnt s <> 0 -> exists t, inr t /\ pre_fsub (spc s t) = true).
    { intros A. rewrite (l_cnt _ _ L) in A. apply cntf_ex. lia. }
    destruct (fixB C) eqn:FB;
    rstep_cases H; norm; try exact W;
    destruct L as [Irng Ird Iopen Iw1 Iwu Iw3 Idcas2 Itk Itkr Itku1 Icl Itku2 Itcas Iunr Iabs Itclose Ilast Icnt Iarc Ish1a Ish1b Ish2a Ish2b];
    destruct W as [W1 W2 Wjs Wjc Wjt Wk2];
    repeat match goal with b : bool |- _ => destruct b end;
    repeat match goal with E : ?x = _ |- _ => is_var x; lazymatch type of x with tctx => subst x | option nat => subst x | wsite => subst x end end;
    rewrite ?FB in *; rewrite ?Epc in *; cbn [z2 lz bz] in *; pcsimpl; spec_refl;
    try (exfalso;
         match goal with
         | I : forall c0 : tctx, TFLoad ?c <> TFLoad c0 /\ _ |- _ => exact (proj1 (I c) eq_refl)
         | I : forall c0 : tctx, TFCnt ?c <> TFLoad c0 /\ _ |- _ => exact (proj2 (I c) eq_refl)
         end).
    all: constructor; cbn [z2 lz bz]; prep; wsolve1.
  Qed.

  Ltac splitvars :=
    repeat match goal with
           | u : nat |- _ => lazymatch goal with
                             | |- context [upd _ ?t0 _ u] => split_thr u t0
                             | H : context [upd _ ?t0 _ u] |- _ => split_thr u t0
                             end
           end.

  (* keep / move the witness of an existential over the senders' pcs across a step of thread t *)
  Ltac keepw t :=
    match goal with
    | H1 : ?F (spc ?s ?x) = true, Ri : inr ?x |- exists u, inr u /\ ?F (upd (spc ?s) t _ u) = true =>
        exists x; split; [exact Ri|];
        destruct (Nat.eq_dec x t) as [->|?]; [rewrite upd_eq; first [reflexivity | congruence | (exfalso; match goal with Ep : spc _ t = _ |- _ => rewrite Ep in H1; first [discriminate H1 | congruence] end)] | rewrite upd_neq by assumption; exact H1]
    | H1 : ?F (spc ?s ?x) = true |- exists u, ?F (upd (spc ?s) t _ u) = true =>
        exists x; destruct (Nat.eq_dec x t) as [->|?];
        [rewrite upd_eq; first [reflexivity | congruence | (exfalso; match goal with Ep : spc _ t = _ |- _ => rewrite Ep in H1; first [discriminate H1 | congruence] end)] | rewrite upd_neq by assumption; exact H1]
    | H1 : spc ?s ?x = ?P |- exists u, upd (spc ?s) t _ u = ?P =>
        exists x; destruct (Nat.eq_dec x t) as [->|?];
        [rewrite upd_eq; first [reflexivity | congruence | (exfalso; match goal with Ep : spc _ t = _ |- _ => rewrite Ep in H1; first [discriminate H1 | congruence] end)] | rewrite upd_neq by assumption; exact H1]
    end.

  Ltac selfw t Rt :=
    match goal with
    | |- exists u, inr u /\ _ (upd _ t _ u) = true => exists t; split; [exact Rt|rewrite upd_eq; reflexivity]
    | |- exists u, _ (upd _ t _ u) = true => exists t; rewrite upd_eq; reflexivity
    | |- exists u, upd _ t _ u = _ => exists t; rewrite upd_eq; reflexivity
    end.

  Ltac wits t Rt :=
    first [ selfw t Rt | keepw t
          | (left; first [selfw t Rt | keepw t]) | (right; first [selfw t Rt | keepw t]) ].

  Lemma WInv_sstep s t s' e : inr t -> LInv s -> WInv s -> sstep sprog s t = Some (s', e) -> WInv s'.
  Proof.
    intros Rt L W H.
    assert (Hrdf : rclosed s = false -> rfin (rpc s) = false -> rd s = false).
    { intros A B. destruct (rd s) eqn:E; [|reflexivity]. destruct (l_rd _ _ L E); congruence. }
    assert (Hoth : pre_fsub (spc s t) = true -> cnt s <> 1 ->
                   exists u, u <> t /\ inr u /\ pre_fsub (spc s u) = true).
    { intros A B. apply (cntf_ex_other (fun u => pre_fsub (spc s u)) n t).
      pose proof (cntf_pos (fun u => pre_fsub (spc s u)) n t Rt A) as X.
      rewrite <- (l_cnt _ _ L) in *. lia. }
    destruct (fixB C) eqn:FB;
    sstep_cases H; norm; try exact W;
    destruct L as [Irng Ird Iopen Iw1 Iwu Iw3 Idcas2 Itk Itkr Itku1 Icl Itku2 Itcas Iunr Iabs Itclose Ilast Icnt Iarc Ish1a Ish1b Ish2a Ish2b];
    destruct W as [W1 W2 Wjs Wjc Wjt Wk2];
    repeat match goal with E : ?x = _ |- _ => is_var x; lazymatch type of x with tctx => subst x | option nat => subst x | wsite => subst x end end;
    repeat match goal with w : wsite |- _ => destruct w end;
    pose proof (Iw1 t) as Iw1t; pose proof (Idcas2 t) as Idcas2t;
    cbv beta in *; rewrite ?FB in *; rewrite Epc in *; pcsimpl; spec_refl.
    all: constructor; intros; fsimpl; splitvars; rewrite ?Epc in *; prep; try (wits t Rt); wsolve1.
  Qed.

  Lemma WInv_step s t c s' e : LInv s -> WInv s -> step C n sprog s t c = Some (s', e) -> WInv s'.
  Proof.
    intros L W H. unfold step in H. destruct t as [|k].
    - exact (WInv_rstep _ _ _ L W H).
    - destruct (Nat.leb (S k) n) eqn:E; [|discriminate].
      apply Nat.leb_le in E. apply (WInv_sstep s (S k) s' e); [unfold OneshotK3Life.inr; lia|assumption..].
  Qed.

  Theorem LW_reachable rp s : reachable (sys C n sprog rp) s -> LInv s /\ WInv s.
  Proof.
    apply (invariant_lift (sys C n sprog rp) (fun s => LInv s /\ WInv s)).
    - split; [apply LInv_init|apply WInv_init].
    - intros s0 t c s1 e [L W] H. split.
      + exact (LInv_step C n sprog s0 t c s1 e L H).
      + exact (WInv_step s0 t c s1 e L W H).
  Qed.

  (* ---------------------------------------------------------------- who can be stuck *)
  Lemma rdispatch_some s p : rdispatch C s p <> None.
  Proof.
    revert s. induction p as [|o r IH]; intros s; cbn [rdispatch].
    - destruct (rclosed s); unfold do_arc_r, do_cstore, rret; discriminate.
    - destruct o; destruct (rclosed s); try apply IH; unfold do_tload, do_cstore, rret; discriminate.
  Qed.

  Lemma sstep_none s t : sstep sprog s t = None -> spc s t = SDone.
  Proof.
    unfold sstep. destruct (spc s t) eqn:E; intros H; try reflexivity; exfalso;
      unfold do_srd, do_fsub, sret in H;
      repeat match type of H with
             | context [match ?x with _ => _ end] => destruct x
             | context [if ?x then _ else _] => destruct x
             end; discriminate.
  Qed.

  Lemma rstep_none s : rstep C s = None -> rpc s = RDone \/ (rpc s = BPark /\ token s = false).
  Proof.
    unfold rstep. destruct (rpc s) eqn:E; intros H; try (left; reflexivity);
      try (exfalso; apply (rdispatch_some _ _ H));
      try (right; split; [reflexivity|destruct (token s); [discriminate|reflexivity]]);
      exfalso; unfold do_tload, do_cstore, do_arc_r, rret in H;
      repeat match type of H with
             | context [match ?x with _ => _ end] => destruct x
             | context [if ?x then _ else _] => destruct x
             end; discriminate.
  Qed.

  Lemma parked_not_final s :
    fixB C = true -> LInv s -> WInv s ->
    (forall t, inr t -> spc s t = SDone) -> rpc s = BPark -> token s = false -> False.
  Proof.
    intros FB L W D P T.
    assert (A : forall t, spc s t = SDone \/ spc s t = SIdle).
    { intros t. destruct (le_lt_dec 1 t) as [X|X]; [destruct (le_lt_dec t n) as [Y|Y]|].
      - left. apply D. split; assumption.
      - right. apply (l_rng _ _ L). unfold OneshotK3Life.inr. lia.
      - right. apply (l_rng _ _ L). unfold OneshotK3Life.inr. lia. }
    assert (K : forall (F : spc_t -> bool) t, F SDone = false -> F SIdle = false -> F (spc s t) = true -> False).
    { intros F t F1 F2 H. destruct (A t) as [E|E]; rewrite E in H; congruence. }
    assert (K' : forall p t, p <> SDone -> p <> SIdle -> spc s t = p -> False).
    { intros p t F1 F2 H. destruct (A t) as [E|E]; congruence. }
    assert (Wf : woken s = false).
    { destruct (woken s) eqn:Wk; [exfalso|reflexivity].
      destruct (w_2 _ W P Wk) as [X|[t X]]; [congruence|]. exact (K unparking t eq_refl eq_refl X). }
    assert (Wk : wk s = Some (gen s)).
    { destruct (w_1 _ W) as [X|X]; [rewrite P; reflexivity|exact X|congruence]. }
    assert (Pin : forall t, inr t -> pre_fsub (spc s t) = true -> False).
    { intros t Ht X. rewrite (D t Ht) in X. discriminate. }
    destruct (cs s) eqn:Cs.
    - destruct (w_k2 _ W Cs) as [[t [Ht X]]|[t X]]; [exact (Pin t Ht X)|].
      exact (K' DCas t ltac:(discriminate) ltac:(discriminate) X).
    - destruct (l_w3 _ _ L Cs) as [t [Ht X]]. rewrite (D t Ht) in X. discriminate.
    - destruct (w_js _ W) as [t X]; try assumption; [rewrite P; reflexivity|].
      exact (K' (WTake WSend) t ltac:(discriminate) ltac:(discriminate) X).
    - destruct (w_jt _ W FB) as [[t [Ht X]]|[t X]]; try assumption; [rewrite P; reflexivity|exact (Pin t Ht X)|].
      exact (K lastw t eq_refl eq_refl X).
    - destruct (w_jc _ W) as [t X]; try assumption; [rewrite P; reflexivity|].
      exact (K' (WTake WClosed) t ltac:(discriminate) ltac:(discriminate) X).
  Qed.

  Section Thms.
    Variable rp : list rop.
    Variable s : st.
    Hypothesis R : reachable (sys C n sprog rp) s.
    Hypothesis FB : fixB C = true.

    (* no lost wake-up: the receiver is never parked (without a token) once every sender thread has
       finished: whoever made the wait condition true also delivered the wake *)
    Theorem k3_no_lost_wake :
      (forall t, inr t -> spc s t = SDone) -> ~ (rpc s = BPark /\ token s = false).
    Proof.
      intros D [P T]. destruct (LW_reachable rp s R) as [L W].
      exact (parked_not_final s FB L W D P T).
    Qed.

    (* deadlock freedom: a state in which no thread can take a step is a final state *)
    Theorem k3_deadlock_free : quiescent (sys C n sprog rp) s -> all_done n s.
    Proof.
      intros Q. destruct (LW_reachable rp s R) as [L W].
      assert (D : forall t, inr t -> spc s t = SDone).
      { intros t [A B]. specialize (Q t tt). cbn [step sys Conc.step] in Q. unfold step in Q.
        destruct t as [|k]; [lia|]. destruct (Nat.leb_spec (S k) n) as [X|X]; [|lia].
        apply sstep_none. exact Q. }
      split; [|exact D].
      specialize (Q 0 tt). cbn [step sys Conc.step] in Q. unfold step in Q.
      destruct (rstep_none s Q) as [X|[P T]]; [exact X|exfalso].
      exact (parked_not_final s FB L W D P T).
    Qed.
  End Thms.
End Wake.

(* ---------------------------------------------------------------- the code before the repair (cfg 0):
   F-37-oneshot.  Two sender clones; sender 1 sends and leaves; the receiver takes the value; its second
   recv() future reads state TAKEN and sender_count 1; the last sender's whole decrement_senders
   (fetch_sub -> 0 ... wake() on an empty AtomicWaker) runs before the registration; the re-check is
   try_recv, which answers Empty for TAKEN: Pending, parked, and nobody is left to wake it. *)
Definition sprog_f37 (t : nat) : sop := match t with 1 => SSend | _ => SDrop end.
Definition sys_f37 : system := sys (mkCfg false false) 2 sprog_f37 [RRecv; RRecv].
Definition sch_f37 : list (nat * unit) :=
  map (fun t => (t, tt)) (repeat 1 10 ++ repeat 0 7 ++ repeat 2 6 ++ repeat 0 3).
Definition st_f37 : st := fst (run sys_f37 (Conc.init sys_f37) sch_f37).

Lemma f37_witness :
  rpc st_f37 = BPark /\ token st_f37 = false /\ spc st_f37 1 = SDone /\ spc st_f37 2 = SDone /\
  rlog st_f37 = [RFVal 1] /\ cnt st_f37 = 0 /\ cs st_f37 = Taken.
Proof. vm_compute. repeat split. Qed.

Lemma f37_reachable : reachable sys_f37 st_f37.
Proof. exists sch_f37. unfold st_f37. reflexivity. Qed.

Lemma f37_quiescent : quiescent sys_f37 st_f37.
Proof.
  intros t c. destruct t as [|[|[|t]]].
  - vm_compute. reflexivity.
  - vm_compute. reflexivity.
  - vm_compute. reflexivity.
  - reflexivity.
Qed.

Theorem k3_deadlock_free_refuted_cfg0 :
  ~ (forall n sprog rp s, 1 <= n -> reachable (sys (mkCfg false false) n sprog rp) s ->
       quiescent (sys (mkCfg false false) n sprog rp) s -> all_done n s).
Proof.
  intros H.
  destruct (H 2 sprog_f37 [RRecv; RRecv] st_f37 ltac:(lia) f37_reachable f37_quiescent) as [X _].
  destruct f37_witness as [Y _]. rewrite Y in X. discriminate X.
Qed.
