(* Proofs/TopicSpecProofs.v — what the reference's logs mean, for EVERY trace of (operation, result)
   pairs (not only the model's): per receiver handle,
     kept(expected) = received ++ still-queued          (exactly once, in publish order, nothing else)
     omitted        = number of expected publishes that found the ideal mailbox full
     |queue| <= capacity
   where `expected` logs, in order, each accepted publish whose topic was in the handle's
   subscription set at publish time (by definition of sp_step). *)
From Fibre Require Import Common.Base Chan.TopicOps Chan.TopicSpec Proofs.TopicLemmas Proofs.TopicInv.

Definition kept (e : list (msg * bool)) : list msg := map fst (filter (fun p => negb (snd p)) e).
Definition omitted (e : list (msg * bool)) : list msg := map fst (filter (fun p => snd p) e).

Definition log_ok (y : srx) : Prop :=
  kept (s_exp y) = s_got y ++ s_q y /\
  s_full y = N.of_nat (length (omitted (s_exp y))) /\
  N.of_nat (length (s_q y)) <= s_cap y.

Lemma kept_snoc e m b : kept (e ++ [(m, b)]) = kept e ++ (if b then [] else [m]).
Proof. unfold kept. rewrite filter_app, map_app. cbn. destruct b; reflexivity. Qed.

Lemma omitted_snoc e m b : omitted (e ++ [(m, b)]) = omitted e ++ (if b then [m] else []).
Proof. unfold omitted. rewrite filter_app, map_app. cbn. destruct b; reflexivity. Qed.

Lemma log_ok_offer y m : log_ok y -> log_ok (srx_offer y m).
Proof.
  intros [H1 [H2 H3]]. unfold srx_offer.
  destruct (N.ltb_spec (N.of_nat (length (s_q y))) (s_cap y)) as [L|L]; unfold log_ok;
    cbn [s_exp s_got s_q s_full s_cap].
  - rewrite kept_snoc, omitted_snoc, H1, app_nil_r, app_assoc, app_length. cbn [length]. repeat split; auto. lia.
  - rewrite kept_snoc, omitted_snoc, H1, app_nil_r, app_length. cbn [length]. repeat split; auto. lia.
Qed.

Lemma log_ok_take y m q' : log_ok y -> s_q y = m :: q' -> log_ok (srx_take y m q').
Proof.
  intros [H1 [H2 H3]] Hq. unfold log_ok, srx_take. cbn [s_exp s_got s_q s_full s_cap]. rewrite Hq in *. cbn [length] in H3.
  repeat split; auto; [rewrite <- app_assoc; exact H1 | lia].
Qed.

Lemma log_ok_same y y' :
  s_q y' = s_q y -> s_cap y' = s_cap y -> s_full y' = s_full y -> s_exp y' = s_exp y -> s_got y' = s_got y ->
  log_ok y -> log_ok y'.
Proof. unfold log_ok. intros -> -> -> -> ->. auto. Qed.

Lemma Forall_upd_srx (P : srx -> Prop) r g l :
  Forall P l -> (forall y, P y -> P (g y)) -> Forall P (upd_srx r g l).
Proof.
  intros H Hg. unfold upd_srx. apply Forall_forall. intros z Hz. apply in_map_iff in Hz.
  destruct Hz as [a [Ea Ha]]. rewrite Forall_forall in H. specialize (H a Ha).
  destruct (N.eqb (s_id a) r); subst z; auto.
Qed.

Lemma Forall_map_srx (P : srx -> Prop) g l :
  Forall P l -> (forall y, P y -> P (g y)) -> Forall P (map g l).
Proof.
  intros H Hg. apply Forall_forall. intros z Hz. apply in_map_iff in Hz.
  destruct Hz as [a [Ea Ha]]. rewrite Forall_forall in H. subst z. auto.
Qed.

Definition sp_wf (sp : spec) : Prop := NoDup (map s_id (sp_rx sp)) /\ Forall log_ok (sp_rx sp).

Lemma map_s_id_upd r g l : (forall y, s_id (g y) = s_id y) -> map s_id (upd_srx r g l) = map s_id l.
Proof.
  intros Hg. unfold upd_srx. rewrite map_map. apply map_ext. intros a.
  destruct (N.eqb (s_id a) r); [apply Hg | reflexivity].
Qed.

Lemma wf_upd sp r g :
  sp_wf sp -> (forall y, s_id (g y) = s_id y) ->
  (forall y, In y (sp_rx sp) -> s_id y = r -> log_ok y -> log_ok (g y)) ->
  sp_wf (sp_set_rx sp (upd_srx r g (sp_rx sp))).
Proof.
  intros [H1 H2] Hid Hg. split; cbn [sp_rx sp_set_rx].
  - rewrite map_s_id_upd by exact Hid. exact H1.
  - unfold upd_srx. apply Forall_forall. intros z Hz. apply in_map_iff in Hz. destruct Hz as [a [Ea Ha]].
    rewrite Forall_forall in H2. destruct (N.eqb_spec (s_id a) r) as [E|E]; subst z; auto.
Qed.

Lemma wf_map sp g :
  sp_wf sp -> (forall y, s_id (g y) = s_id y) -> (forall y, log_ok y -> log_ok (g y)) ->
  sp_wf (sp_set_rx sp (map g (sp_rx sp))).
Proof.
  intros [H1 H2] Hid Hg. split; cbn [sp_rx sp_set_rx].
  - rewrite map_map. erewrite map_ext; [exact H1 | exact Hid].
  - apply Forall_map_srx; assumption.
Qed.

Lemma sp_recv_wf sp r rs : sp_wf sp -> sp_wf (fst (sp_recv sp r rs)).
Proof.
  intros H. unfold sp_recv. destruct (find_srx r (sp_rx sp)) as [x|] eqn:Ef; [|exact H].
  destruct rs; try exact H.
  - destruct (s_q x) as [|m q'] eqn:Eq; [exact H|].
    destruct (msg_eqb m (t, v)) eqn:Em; [|exact H]. cbn [fst].
    assert (m = (t, v)).
    { unfold msg_eqb in Em. destruct m as [a b]. cbn in Em. apply andb_true_iff in Em. destruct Em as [A B].
      apply N.eqb_eq in A. apply N.eqb_eq in B. subst. reflexivity. }
    subst m. apply wf_upd; [exact H | reflexivity|].
    intros y Hy Hid Hl. destruct H as [Hnd _].
    pose proof (find_srx_NoDup _ _ _ Hnd Hy Hid) as E. assert (y = x) by congruence. subst y.
    apply log_ok_take; assumption.
  - destruct (s_q x); [|exact H]. destruct (negb (s_closed x) && negb (any_open sp)); exact H.
  - destruct (s_q x); [|exact H]. destruct (negb (s_closed x) && negb (any_open sp)); exact H.
  - destruct (s_q x); [|exact H]. destruct (negb (s_closed x) && negb (any_open sp)); exact H.
  - destruct (s_closed x); [exact H|]. destruct (s_q x); [|exact H]. destruct (any_open sp); exact H.
Qed.

Lemma wf_set_tx sp l : sp_wf sp -> sp_wf (sp_set_tx sp l).
Proof. intros H. exact H. Qed.

Lemma after_sender_gone_wf sp : sp_wf sp -> sp_wf (after_sender_gone sp).
Proof.
  intros H. unfold after_sender_gone. destruct (any_open sp); [exact H|].
  apply wf_map; [exact H | reflexivity|]. intros y Hl. eapply log_ok_same; [..|exact Hl]; reflexivity.
Qed.

Lemma sp_step_wf sp o rs : sp_wf sp -> sp_wf (fst (sp_step sp o rs)).
Proof.
  intros H. destruct o; cbn [sp_step].
  - destruct rs; try exact H. cbn [fst]. apply wf_map; [exact H | |].
    + intros y. destruct (s_live y && mem t (s_subs y)); [|reflexivity].
      unfold srx_offer. destruct (N.ltb (N.of_nat (length (s_q y))) (s_cap y)); reflexivity.
    + intros y Hl. destruct (s_live y && mem t (s_subs y)); [apply log_ok_offer|]; exact Hl.
  - destruct rs; try exact H. destruct (find_stx s (sp_tx sp)); [|exact H].
    destruct (find_stx s' (sp_tx sp)); exact H.
  - destruct rs; try exact H. cbn [fst]. apply after_sender_gone_wf. exact H.
  - destruct rs; try exact H. cbn [fst].
    destruct (match find_stx s (sp_tx sp) with Some x => x_open x | None => false end);
      [apply after_sender_gone_wf|]; exact H.
  - destruct rs; exact H.
  - destruct rs; exact H.
  - destruct rs; try exact H. cbn [fst]. apply wf_upd; [exact H | |].
    + intros y. destruct (mem t (s_subs y)); reflexivity.
    + intros y _ _ Hl. destruct (mem t (s_subs y)); [exact Hl|]. eapply log_ok_same; [..|exact Hl]; reflexivity.
  - destruct rs; try exact H. cbn [fst]. apply wf_upd; [exact H | reflexivity|].
    intros y _ _ Hl. eapply log_ok_same; [..|exact Hl]; reflexivity.
  - destruct rs; try exact H. destruct (find_srx r (sp_rx sp)) as [x|]; [|exact H].
    destruct (find_srx r' (sp_rx sp)) eqn:En; [exact H|]. cbn [fst]. destruct H as [H1 H2].
    split; cbn [sp_rx sp_set_rx].
    + rewrite map_app. cbn [map srx_new s_id]. apply NoDup_snoc; [exact H1|].
      intros Hi. apply in_map_iff in Hi. destruct Hi as [z [Ez Hz]].
      pose proof (find_srx_NoDup _ _ _ H1 Hz Ez). congruence.
    + apply Forall_app. split; [exact H2|]. constructor; [|constructor].
      unfold log_ok, srx_new, kept, omitted. cbn. repeat split; auto. lia.
  - destruct rs; try exact H. cbn [fst]. apply wf_upd; [exact H | reflexivity|].
    intros y _ _ Hl. eapply log_ok_same; [..|exact Hl]; reflexivity.
  - destruct rs; try exact H. cbn [fst]. apply wf_upd; [exact H | reflexivity|].
    intros y _ _ Hl. eapply log_ok_same; [..|exact Hl]; reflexivity.
  - destruct rs; exact H.
  - apply sp_recv_wf. exact H.
  - apply sp_recv_wf. exact H.
  - destruct rs; exact H.
  - destruct (find (fun p => N.eqb (fst p) f) (sp_futs sp)) as [[f' r]|]; [apply sp_recv_wf|]; exact H.
  - destruct rs; exact H.
  - apply sp_recv_wf. exact H.
  - destruct rs; exact H.
  - destruct rs; exact H.
  - destruct rs; exact H.
Qed.

Fixpoint sp_run (sp : spec) (tr : list (op * res)) : spec :=
  match tr with
  | [] => sp
  | (o, rs) :: tr' => sp_run (fst (sp_step sp o rs)) tr'
  end.

Theorem reference_logs cap tr : sp_wf (sp_run (sp_init cap) tr).
Proof.
  assert (H0 : sp_wf (sp_init cap)).
  { split; cbn.
    - constructor; [intros []|constructor].
    - constructor; [|constructor]. unfold log_ok, kept, omitted. cbn. repeat split; auto. lia. }
  revert H0. generalize (sp_init cap). induction tr as [|[o rs] tr IH]; intros sp H; cbn [sp_run]; [exact H|].
  apply IH. apply sp_step_wf. exact H.
Qed.

(* in particular for the traces of the model *)
Lemma spec_from_run c : forall h s sp, exists tr, spec_from c s sp h = sp_run sp tr.
Proof.
  induction h as [|o h IH]; intros s sp; [exists []; reflexivity|].
  cbn [spec_from]. destruct (step c s o) as [s1 [rs w]]. destruct (IH s1 (fst (sp_step sp o rs))) as [tr E].
  exists ((o, rs) :: tr). exact E.
Qed.

Theorem reference_logs_model c a cap h : sp_wf (spec_after c a cap h).
Proof.
  unfold spec_after. destruct (spec_from_run c h (init a cap) (sp_init cap)) as [tr ->]. apply reference_logs.
Qed.
