(* Proofs/RendezvousWake.v — C06 for the rendezvous model: a registered future whose next poll would
   not be Pending has been woken since its last poll; a registered record always carries the waker of
   the last poll; removing a record (other than by dropping its own future) wakes it; no record
   points at a dead future.  Exception: the single-slot receiver store of spsc/mpsc silently
   overwrites a parked receive when a second one registers (finding F-33). *)
From Fibre Require Import Common.Base Chan.Rendezvous Proofs.RendezvousBase Proofs.RendezvousWF
     Proofs.RendezvousProofs.

Definition MW (c : cfg) (F : list (N * fut)) (RQ : list (N * N)) : Prop :=
  forall f r, aget f F = Some r -> f_reg r = true ->
    (f_st r <> WAITING -> f_woken r = true) /\
    (f_st r = WAITING -> f_side r = Rx -> multi_rx c = true -> qhas f RQ = true).

Lemma MW_frame c F F' RQ RQ' :
  MW c F RQ ->
  (forall f r', aget f F' = Some r' -> f_reg r' = true ->
     (exists r, aget f F = Some r /\ f_reg r = true /\ f_st r = f_st r' /\ f_side r = f_side r'
                /\ (f_woken r = true -> f_woken r' = true)
                /\ (multi_rx c = true -> qhas f RQ = true -> qhas f RQ' = true))
     \/ (f_st r' <> WAITING /\ f_woken r' = true)
     \/ (f_st r' = WAITING /\ (f_side r' = Rx -> multi_rx c = true -> qhas f RQ' = true))) ->
  MW c F' RQ'.
Proof.
  intros M Hf f r' Hg Hr. destruct (Hf f r' Hg Hr) as [[r [Hg0 [Hr0 [Hst [Hsd [Hw Hq]]]]]]|[[A B]|[A B]]].
  - destruct (M f r Hg0 Hr0) as [M1 M2]. split.
    + intros X. apply Hw. apply M1. congruence.
    + intros X Y Z. apply Hq; [exact Z|]. apply M2; congruence.
  - split; [intros _; exact B|intros X; congruence].
  - split; [intros X; congruence|intros _; exact B].
Qed.

Ltac keep r := left; exists r; repeat split; auto.

Lemma MW_same c F RQ : MW c F RQ -> MW c F RQ.
Proof. auto. Qed.

Lemma MW_handoff c H F SQ g w rest v :
  WFc H F SQ ((g, w) :: rest) -> MW c F ((g, w) :: rest) ->
  MW c (aupd g (fut_done (Some v)) F) rest.
Proof.
  intros W M. eapply MW_frame; [exact M|]. intros f r' Hg Hr. rewrite aget_aupd in Hg. deq g f.
  - destruct (aget f F) as [r|]; [|discriminate]. cbn in Hg. inversion Hg; subst r'.
    right. left. cbn. split; [discriminate|reflexivity].
  - keep r'. intros _ X. rewrite qhas_cons_neq in X by congruence. exact X.
Qed.

Lemma MW_take c F RQ g :
  MW c F RQ -> MW c (aupd g (fut_done None) F) RQ.
Proof.
  intros M. eapply MW_frame; [exact M|]. intros f r' Hg Hr. rewrite aget_aupd in Hg. deq g f.
  - destruct (aget f F) as [r|]; [|discriminate]. cbn in Hg. inversion Hg; subst r'.
    right. left. cbn. split; [discriminate|reflexivity].
  - keep r'.
Qed.

Lemma MW_disc_receivers c F RQ : MW c F RQ -> MW c (disc_all RQ F) [].
Proof.
  intros M. intros f r' Hg Hr. rewrite aget_disc_all in Hg. destruct (qhas f RQ) eqn:Hq.
  - destruct (aget f F) as [r|]; [|discriminate]. cbn in Hg. inversion Hg; subst r'. cbn.
    split; [reflexivity|discriminate].
  - destruct (M f r' Hg Hr) as [M1 M2]. split; [exact M1|].
    intros X Y Z. rewrite (M2 X Y Z) in Hq. discriminate.
Qed.

Lemma MW_disc_senders c F SQ RQ : MW c F RQ -> MW c (disc_all SQ F) RQ.
Proof.
  intros M. eapply MW_frame; [exact M|]. intros f r' Hg Hr. rewrite aget_disc_all in Hg.
  destruct (qhas f SQ).
  - destruct (aget f F) as [r|]; [|discriminate]. cbn in Hg. inversion Hg; subst r'.
    right. left. cbn. split; [discriminate|reflexivity].
  - keep r'.
Qed.

Lemma MW_aupd_unreg c F RQ f x : MW c F RQ -> MW c (aupd f (fut_unreg x) F) RQ.
Proof.
  intros M. eapply MW_frame; [exact M|]. intros f' r' Hg Hr. rewrite aget_aupd in Hg. deq f f'.
  - destruct (aget f' F) as [r|]; [|discriminate]. cbn in Hg. inversion Hg; subst r'. cbn in Hr. discriminate.
  - keep r'.
Qed.

Lemma MW_aupd_park_tx c F RQ f r0 :
  MW c F RQ -> aget f F = Some r0 -> f_side r0 = Tx -> MW c (aupd f fut_park F) RQ.
Proof.
  intros M Hg0 Hs0. eapply MW_frame; [exact M|]. intros f' r' Hg Hr. rewrite aget_aupd in Hg. deq f f'.
  - rewrite Hg0 in Hg. cbn in Hg. inversion Hg; subst r'. right. right. cbn.
    split; [reflexivity|intros X; congruence].
  - keep r'.
Qed.

Lemma MW_park_recv c F RQ f w r0 :
  MW c F RQ -> aget f F = Some r0 -> MW c (aupd f fut_park F) (push_receiver c f w RQ).
Proof.
  intros M Hg0. eapply MW_frame; [exact M|]. intros f' r' Hg Hr. rewrite aget_aupd in Hg. deq f f'.
  - rewrite Hg0 in Hg. cbn in Hg. inversion Hg; subst r'. right. right. cbn.
    split; [reflexivity|]. intros _ Hm. unfold push_receiver. rewrite Hm, qhas_app.
    unfold qhas at 2, ahas. cbn [aget]. rewrite N.eqb_refl. apply orb_true_r.
  - keep r'. intros Hm X. unfold push_receiver. rewrite Hm, qhas_app, X. reflexivity.
Qed.

Lemma MW_repoll c F RQ f r0 RQ' :
  MW c F RQ -> aget f F = Some r0 -> f_st r0 = WAITING ->
  (forall f', qhas f' RQ = true -> qhas f' RQ' = true) ->
  MW c (aupd f fut_repoll F) RQ'.
Proof.
  intros M Hg0 Hst Hq. eapply MW_frame; [exact M|]. intros f' r' Hg Hr. rewrite aget_aupd in Hg. deq f f'.
  - rewrite Hg0 in Hg. cbn in Hg. inversion Hg; subst r'. right. right. cbn [fut_repoll f_st f_side].
    split; [exact Hst|]. intros X Y. apply Hq. cbn in Hr. destruct (M f' r0 Hg0 Hr) as [_ M2]. apply M2; auto.
  - keep r'.
Qed.

Lemma MW_sent c F RQ f : MW c F RQ -> MW c (aupd f fut_sent F) RQ.
Proof.
  intros M. eapply MW_frame; [exact M|]. intros f' r' Hg Hr. rewrite aget_aupd in Hg. deq f f'.
  - destruct (aget f' F) as [r|] eqn:Hg0; [|discriminate]. cbn in Hg. inversion Hg; subst r'.
    keep r.
  - keep r'.
Qed.

Lemma adel_aupd_get {A} f (g : A -> A) (F : list (N * A)) f' :
  NoDup (map fst F) -> aget f' (adel f (aupd f g F)) = aget f' (adel f F).
Proof.
  intros Hn. deq f f'.
  - rewrite !aget_adel_eq; [reflexivity|exact Hn|rewrite keys_aupd; exact Hn].
  - rewrite !aget_adel_neq by assumption. apply aget_aupd_neq. assumption.
Qed.

Lemma MW_adel c F F' RQ f RQ' :
  MW c F RQ -> NoDup (map fst F) ->
  (forall f', aget f' F' = aget f' (adel f F)) ->
  (forall f', f' <> f -> qhas f' RQ = true -> qhas f' RQ' = true) ->
  MW c F' RQ'.
Proof.
  intros M Hn He Hq. eapply MW_frame; [exact M|]. intros f' r' Hg Hr. rewrite He in Hg. deq f f'.
  - rewrite aget_adel_eq in Hg by exact Hn. discriminate.
  - rewrite aget_adel_neq in Hg by assumption. keep r'.
Qed.

Lemma MW_app c F RQ x : MW c F RQ -> f_reg (snd x) = false -> MW c (F ++ [x]) RQ.
Proof.
  intros M Hx. destruct x as [fx rx]. cbn in Hx. eapply MW_frame; [exact M|].
  intros f r' Hg Hr. rewrite aget_app in Hg. destruct (aget f F) as [r|] eqn:Hg0.
  - inversion Hg; subst r'. keep r.
  - cbn [aget] in Hg. deq f fx; [|discriminate]. inversion Hg; subst r'. congruence.
Qed.

(** every step preserves MW *)
Ltac mwsimp := cbn [hs fs sq rq scnt rcnt set_hs set_fs set_sq set_rq set_scnt set_rcnt handoff_to_receiver] in *.

Lemma core_send_MW c b s v s' r e :
  WF s -> MW c (fs s) (rq s) -> core_send b s v = (s', r, e) -> MW c (fs s') (rq s').
Proof.
  intros W M Hs. unfold core_send in Hs.
  destruct (N.eqb (rcnt s) 0); [destruct b; inversion Hs; subst; exact M|].
  destruct (rq s) as [|[g w] rest] eqn:Hrq; [destruct b; inversion Hs; subst; rewrite Hrq; exact M|].
  inversion Hs; subst. mwsimp. unfold WF in W. rewrite Hrq in W. eapply MW_handoff; eauto.
Qed.

Lemma take_MW c s s' v w :
  MW c (fs s) (rq s) -> take_from_sender s = Some (s', v, w) -> MW c (fs s') (rq s').
Proof.
  intros M Ht. unfold take_from_sender in Ht.
  destruct (sq s) as [|[g w0] rest]; [discriminate|].
  destruct (aget g (fs s)) as [rg|]; [|discriminate]. destruct (f_cell rg); [|discriminate].
  inversion Ht; subst. mwsimp. apply MW_take. exact M.
Qed.

Lemma core_recv_MW c k s s' r e :
  MW c (fs s) (rq s) -> core_recv c k s = (s', r, e) -> MW c (fs s') (rq s').
Proof.
  intros M Hs. unfold core_recv in Hs. destruct (sq s) as [|p rest] eqn:Hsq.
  - destruct (N.eqb (scnt s) 0); [inversion Hs; subst; exact M|].
    destruct k; inversion Hs; subst; try exact M. mwsimp.
    destruct (multi_rx c) eqn:Hm; [exact M|].
    intros f r0 Hg Hr. destruct (M f r0 Hg Hr) as [M1 _]. split; [exact M1|]. intros _ _ X. congruence.
  - destruct (take_from_sender s) as [[[s1 v] w]|] eqn:Ht; inversion Hs; subst; [|exact M].
    eapply take_MW; eauto.
Qed.

Lemma do_close_MW c s h hd s' r e :
  MW c (fs s) (rq s) -> do_close s h hd = (s', r, e) -> MW c (fs s') (rq s').
Proof.
  intros M Hs. unfold do_close, core_drop_sender, core_drop_receiver in Hs.
  destruct (h_closed hd); [inversion Hs; subst; exact M|].
  destruct (h_side hd); cbn [scnt rcnt fs rq sq set_hs hs] in Hs.
  - destruct (N.eqb (scnt s) 0); [|destruct (N.eqb (N.pred (scnt s)) 0)]; inversion Hs; subst; mwsimp;
      try exact M. apply MW_disc_receivers. exact M.
  - destruct (N.eqb (rcnt s) 0); [|destruct (N.eqb (N.pred (rcnt s)) 0)]; inversion Hs; subst; mwsimp;
      try exact M. apply MW_disc_senders. exact M.
Qed.

Lemma poll_send_MW c s f w r0 s' r e :
  WF s -> MW c (fs s) (rq s) -> aget f (fs s) = Some r0 -> f_side r0 = Tx ->
  poll_send c s f w r0 = (s', r, e) -> MW c (fs s') (rq s').
Proof.
  intros W M Hg0 Hs0 Hs. unfold poll_send in Hs.
  destruct (f_reg r0) eqn:Hr0.
  - destruct (f_st r0) eqn:Hst.
    + destruct (qhas f (sq s)); inversion Hs; subst; mwsimp.
      * eapply MW_repoll; eauto.
      * apply MW_aupd_unreg. exact M.
    + inversion Hs; subst; mwsimp. apply MW_aupd_unreg. exact M.
    + inversion Hs; subst; mwsimp. apply MW_aupd_unreg. exact M.
    + inversion Hs; subst; mwsimp. apply MW_aupd_unreg. exact M.
  - destruct (f_cell r0) as [v|] eqn:Hc0; [|inversion Hs; subst; exact M].
    destruct (fix_fut c && handle_closed s (f_h r0)); [inversion Hs; subst; exact M|].
    destruct (N.eqb (rcnt s) 0); [inversion Hs; subst; exact M|].
    destruct (rq s) as [|[g w'] rest] eqn:Hrq; inversion Hs; subst; mwsimp.
    + eapply MW_aupd_park_tx; eauto.
    + unfold WF in W. rewrite Hrq in W.
      eapply MW_handoff; [eapply WF_sent; eauto|]. apply MW_sent. exact M.
Qed.

Lemma poll_recv_MW c s f w r0 s' r e :
  WF s -> MW c (fs s) (rq s) -> aget f (fs s) = Some r0 -> f_side r0 = Rx ->
  poll_recv c s f w r0 = (s', r, e) -> MW c (fs s') (rq s').
Proof.
  intros W M Hg0 Hs0 Hs. unfold poll_recv in Hs.
  destruct (f_reg r0) eqn:Hr0.
  - destruct (f_st r0) eqn:Hst.
    + destruct (qhas f (rq s)); inversion Hs; subst; mwsimp.
      * eapply MW_repoll; eauto. intros f' X. rewrite qhas_qrefresh. exact X.
      * apply MW_aupd_unreg. exact M.
    + destruct (f_cell r0); inversion Hs; subst; mwsimp; [apply MW_aupd_unreg|]; exact M.
    + inversion Hs; subst; mwsimp. apply MW_aupd_unreg. exact M.
    + inversion Hs; subst; mwsimp. apply MW_aupd_unreg. exact M.
  - destruct (fix_fut c && handle_closed s (f_h r0)); [inversion Hs; subst; exact M|].
    destruct (sq s) as [|p rest] eqn:Hsq.
    + destruct (N.eqb (scnt s) 0); inversion Hs; subst; mwsimp; [exact M|].
      eapply MW_park_recv; eauto.
    + destruct (take_from_sender s) as [[[s1 v] w1]|] eqn:Ht; inversion Hs; subst; [|exact M].
      eapply take_MW; eauto.
Qed.

Lemma drop_fut_MW c s f r0 s' r e :
  WF s -> MW c (fs s) (rq s) -> aget f (fs s) = Some r0 -> drop_fut s f r0 = (s', r, e) ->
  MW c (fs s') (rq s').
Proof.
  intros W M Hg0 Hs. unfold drop_fut in Hs. inversion Hs; subst; clear Hs.
  pose proof (wf_fs _ _ _ _ W) as Hn.
  destruct (f_reg r0 && cancel_cas r0).
  - unfold cancel_remove. destruct (f_side r0); mwsimp.
    + eapply MW_adel; [exact M|exact Hn| |auto]. intros f'. apply adel_aupd_get. exact Hn.
    + eapply MW_adel; [exact M|exact Hn| |]. 
      * intros f'. apply adel_aupd_get. exact Hn.
      * intros f' Hne X. rewrite qhas_qdel_neq by exact Hne. exact X.
  - mwsimp. eapply MW_adel; [exact M|exact Hn|reflexivity|auto].
Qed.

Theorem step_MW c s o s' r e :
  WF s -> MW c (fs s) (rq s) -> step c s o = (s', r, e) -> MW c (fs s') (rq s').
Proof.
  intros W M Hs. destruct o; cbn [step] in Hs.
  - destruct (h_live_side s h Tx) as [hd|]; [|inversion Hs; subst; exact M].
    destruct (h_closed hd); [inversion Hs; subst; exact M|].
    destruct (core_send false s v) as [[s1 r1] e1] eqn:Hc. inversion Hs; subst.
    eapply core_send_MW; eauto.
  - destruct (h_live_side s h Tx) as [hd|]; [|inversion Hs; subst; exact M].
    destruct (h_async hd); [inversion Hs; subst; exact M|].
    destruct (h_closed hd); [inversion Hs; subst; exact M|].
    destruct (core_send true s v) as [[s1 r1] e1] eqn:Hc. inversion Hs; subst.
    eapply core_send_MW; eauto.
  - destruct (h_live_side s h Rx) as [hd|]; [|inversion Hs; subst; exact M].
    destruct (h_closed hd); [inversion Hs; subst; exact M|]. eapply core_recv_MW; eauto.
  - destruct (h_live_side s h Rx) as [hd|]; [|inversion Hs; subst; exact M].
    destruct (h_async hd); [inversion Hs; subst; exact M|].
    destruct (h_closed hd); [inversion Hs; subst; exact M|]. eapply core_recv_MW; eauto.
  - destruct (h_live_side s h Rx) as [hd|]; [|inversion Hs; subst; exact M].
    destruct (h_async hd); [inversion Hs; subst; exact M|].
    destruct (h_closed hd); [inversion Hs; subst; exact M|]. eapply core_recv_MW; eauto.
  - destruct (aget h (hs s)) as [hd|]; [|inversion Hs; subst; exact M]. eapply do_close_MW; eauto.
  - destruct (aget h (hs s)) as [hd|]; [|inversion Hs; subst; exact M].
    destruct (borrowed s h); [inversion Hs; subst; exact M|].
    destruct (do_close s h hd) as [[s1 r1] e1] eqn:Hc. inversion Hs; subst. mwsimp.
    eapply do_close_MW; eauto.
  - destruct (aget h (hs s)) as [hd|]; [|inversion Hs; subst; exact M].
    destruct (ahas h' (hs s)); [inversion Hs; subst; exact M|].
    destruct (negb _); [inversion Hs; subst; exact M|].
    destruct (fix_clone c && h_closed hd); inversion Hs; subst; [exact M|].
    destruct (h_side hd); exact M.
  - destruct (aget h (hs s)) as [hd|]; [|inversion Hs; subst; exact M].
    destruct (borrowed s h); inversion Hs; subst; exact M.
  - destruct (aget h (hs s)); inversion Hs; subst; exact M.
  - destruct (h_live_side s h Tx) as [hd|]; [|inversion Hs; subst; exact M].
    destruct (negb (h_async hd) || ahas f (fs s)); inversion Hs; subst; [exact M|].
    mwsimp. apply MW_app; [exact M|reflexivity].
  - destruct (h_live_side s h Rx) as [hd|]; [|inversion Hs; subst; exact M].
    destruct (negb (h_async hd) || ahas f (fs s)); inversion Hs; subst; [exact M|].
    mwsimp. apply MW_app; [exact M|reflexivity].
  - destruct (aget f (fs s)) as [r0|] eqn:Hg; [|inversion Hs; subst; exact M].
    destruct (f_side r0) eqn:Hsd; [eapply poll_send_MW|eapply poll_recv_MW]; eauto.
  - destruct (aget f (fs s)) as [r0|] eqn:Hg; [|inversion Hs; subst; exact M].
    eapply drop_fut_MW; eauto.
Qed.

Theorem run_MW c ops : forall s s' tr,
  WF s -> MW c (fs s) (rq s) -> run c s ops = (s', tr) -> MW c (fs s') (rq s').
Proof.
  induction ops as [|o t IH]; intros s s' tr W M Hr; cbn [run] in Hr.
  - inversion Hr; subst. exact M.
  - destruct (step c s o) as [[s1 r1] e1] eqn:Hs.
    destruct (run c s1 t) as [s2 tr2] eqn:Hr2. inversion Hr; subst.
    eapply IH; [| |exact Hr2]; [eapply step_WF|eapply step_MW]; eauto.
Qed.

(** C06 *)
(* the operation of future f has become able to complete: the model's own poll would not be Pending *)
Definition would_be_ready (c : cfg) (s : state) (f : N) : Prop :=
  exists w, snd (fst (step c s (Poll f w))) <> OPending.

(* no missed wake: every live future whose last poll returned Pending (= it is registered) and whose
   next poll would complete has been woken since that poll.  For send futures in every flavour; for
   receive futures with the deque store (mpmc). *)
Theorem rv_no_missed_wake c a ops s tr f r :
  run c (init a) ops = (s, tr) ->
  aget f (fs s) = Some r -> f_reg r = true -> (f_side r = Tx \/ multi_rx c = true) ->
  would_be_ready c s f -> f_woken r = true.
Proof.
  intros Hr Hg Hreg Hk [w Hw].
  pose proof (run_WF c ops _ _ _ (WF_init a) Hr) as W.
  assert (M0 : MW c (fs (init a)) (rq (init a))) by (intros f0 r0 X; discriminate).
  pose proof (run_MW c ops _ _ _ (WF_init a) M0 Hr) as M.
  destruct (M f r Hg Hreg) as [M1 M2].
  destruct (f_st r) eqn:Hst; try (apply M1; discriminate).
  exfalso. apply Hw. cbn [step]. rewrite Hg.
  destruct (f_side r) eqn:Hsd.
  - unfold poll_send. rewrite Hreg, Hst.
    destruct (wf_fut _ _ _ _ W f r Hg) as [Hk' _]. rewrite Hsd in Hk'. destruct Hk' as [_ Hq].
    rewrite (Hq Hreg Hst). reflexivity.
  - destruct Hk as [Hk|Hk]; [discriminate|].
    unfold poll_recv. rewrite Hreg, Hst, (M2 eq_refl eq_refl Hk). reflexivity.
Qed.

Definition rv_no_missed_wake_full (c : cfg) : Prop :=
  forall a ops s tr f r, run c (init a) ops = (s, tr) ->
    aget f (fs s) = Some r -> f_reg r = true -> would_be_ready c s f -> f_woken r = true.

Theorem rv_no_missed_wake_multi c : multi_rx c = true -> rv_no_missed_wake_full c.
Proof. intros Hm a ops s tr f r Hr Hg Hreg Hw. eapply rv_no_missed_wake; eauto. Qed.

Definition F33_witness : list op := [MkRecv 10 1; MkRecv 11 1; Poll 10 0; Poll 11 1].

(* single-slot store (spsc, mpsc): the second registration overwrites the first record; the first
   future is never woken and its next poll answers Disconnected *)
Theorem rv_no_missed_wake_refuted_F33 c : multi_rx c = false -> ~ rv_no_missed_wake_full c.
Proof.
  intros Hm H. destruct c as [m t r x ff y]. cbn in Hm. subst m.
  destruct (run (mkCfg false t r x ff y) (init true) F33_witness) as [s tr] eqn:Hr.
  specialize (H true F33_witness s tr 10 (mkF Rx 1 None WAITING true 0 false) Hr).
  destruct ff; vm_compute in Hr; inversion Hr; subst;
    (assert (X : false = true); [apply H; try reflexivity; exists 5; vm_compute; discriminate|discriminate]).
Qed.

(** records: the waker of the last poll is the one stored; a record leaves its queue only with a
    wake of that waker, or because its own future is dropped *)
Definition q_evol (q q' : list (N * N)) (e : list ev) (dropped : option N) : Prop :=
  forall f w, In (f, w) q -> In f (map fst q') \/ In (EWake w) e \/ dropped = Some f.

Lemma q_evol_same q e d : q_evol q q e d.
Proof. intros f w Hi. left. apply (in_map fst) in Hi. exact Hi. Qed.

Lemma q_evol_keys q q' e d : map fst q' = map fst q -> q_evol q q' e d.
Proof. intros Hk f w Hi. left. rewrite Hk. apply (in_map fst) in Hi. exact Hi. Qed.

Lemma q_evol_app q x e d : q_evol q (q ++ x) e d.
Proof. intros f w Hi. left. rewrite map_app. apply in_or_app. left. apply (in_map fst) in Hi. exact Hi. Qed.

Lemma q_evol_pop g w rest e d : In (EWake w) e -> q_evol ((g, w) :: rest) rest e d.
Proof.
  intros He f w' [Hi|Hi].
  - inversion Hi; subst. right. left. exact He.
  - left. apply (in_map fst) in Hi. exact Hi.
Qed.

Lemma q_evol_all q d : q_evol q [] (wakes_of q) d.
Proof.
  intros f w Hi. right. left. unfold wakes_of. apply in_map_iff. exists (f, w). split; [reflexivity|exact Hi].
Qed.

Lemma q_evol_qdel q f e : q_evol q (qdel f q) e (Some f).
Proof.
  intros f' w Hi. deq f f'; [right; right; reflexivity|]. left.
  unfold qdel. apply (in_map fst _ (f', w)). apply In_adel; [exact n|exact Hi].
Qed.

Definition dropped_of (o : op) : option N := match o with DropF f => Some f | _ => None end.

Lemma do_close_evol s h hd s' r e d :
  do_close s h hd = (s', r, e) -> q_evol (sq s) (sq s') e d /\ q_evol (rq s) (rq s') e d.
Proof.
  intros Hs. unfold do_close, core_drop_sender, core_drop_receiver in Hs.
  destruct (h_closed hd); [inversion Hs; subst; split; apply q_evol_same|].
  destruct (h_side hd); cbn [scnt rcnt fs rq sq set_hs hs] in Hs.
  - destruct (N.eqb (scnt s) 0); [|destruct (N.eqb (N.pred (scnt s)) 0)]; inversion Hs; subst;
      cbn [sq rq set_scnt set_hs]; split; try apply q_evol_same. apply q_evol_all.
  - destruct (N.eqb (rcnt s) 0); [|destruct (N.eqb (N.pred (rcnt s)) 0)]; inversion Hs; subst;
      cbn [sq rq set_rcnt set_hs]; split; try apply q_evol_same. apply q_evol_all.
Qed.

Lemma take_evol s s' v w :
  take_from_sender s = Some (s', v, w) ->
  rq s' = rq s /\ exists g rest, sq s = (g, w) :: rest /\ sq s' = rest.
Proof.
  unfold take_from_sender. destruct (sq s) as [|[g w0] rest]; [discriminate|].
  destruct (aget g (fs s)) as [rg|]; [|discriminate]. destruct (f_cell rg); [|discriminate].
  intros X. inversion X; subst. split; [reflexivity|]. exists g, rest. split; reflexivity.
Qed.

Theorem step_queues_evol c s o s' r e :
  step c s o = (s', r, e) ->
  q_evol (sq s) (sq s') e (dropped_of o) /\
  (multi_rx c = true -> q_evol (rq s) (rq s') e (dropped_of o)).
Proof.
  intros Hs.
  assert (K : q_evol (sq s) (sq s) e (dropped_of o) /\
              (multi_rx c = true -> q_evol (rq s) (rq s) e (dropped_of o)))
    by (split; [|intros _]; apply q_evol_same).
  assert (SEND : forall b v s1 r1 e1 pre, core_send b s v = (s1, r1, e1) ->
            q_evol (sq s) (sq s1) (pre ++ e1) (dropped_of o) /\
            (multi_rx c = true -> q_evol (rq s) (rq s1) (pre ++ e1) (dropped_of o))).
  { intros b v s1 r1 e1 pre Hc. unfold core_send in Hc.
    destruct (N.eqb (rcnt s) 0); [destruct b; inversion Hc; subst; (split; [|intros _]; apply q_evol_same)|].
    destruct (rq s) as [|[g w] rest] eqn:Hrq;
      [destruct b; inversion Hc; subst; rewrite Hrq; (split; [|intros _]; apply q_evol_same)|].
    inversion Hc; subst. cbn [sq rq handoff_to_receiver]. split; [apply q_evol_same|intros _].
    apply q_evol_pop. apply in_or_app. right. cbn. tauto. }
  assert (RECV : forall k s1 r1 e1, core_recv c k s = (s1, r1, e1) ->
            q_evol (sq s) (sq s1) e1 (dropped_of o) /\
            (multi_rx c = true -> q_evol (rq s) (rq s1) e1 (dropped_of o))).
  { intros k s1 r1 e1 Hc. unfold core_recv in Hc. destruct (sq s) as [|p rest] eqn:Hsq.
    - destruct (N.eqb (scnt s) 0); [inversion Hc; subst; rewrite Hsq; (split; [|intros _]; apply q_evol_same)|].
      destruct k; inversion Hc; subst; cbn [sq rq set_rq]; rewrite ?Hsq; (split; [apply q_evol_same|intros Hm]);
        try apply q_evol_same. rewrite Hm. apply q_evol_same.
    - destruct (take_from_sender s) as [[[s2 v] w]|] eqn:Ht; inversion Hc; subst;
        [|rewrite Hsq; (split; [|intros _]; apply q_evol_same)].
      destruct (take_evol _ _ _ _ Ht) as [Hrq [g [rest' [Hsq' Hsq2]]]]. rewrite Hsq in Hsq'.
      inversion Hsq'; subst. rewrite Hrq. split; [|intros _; apply q_evol_same].
      try rewrite Hsq2. apply q_evol_pop. cbn. tauto. }
  destruct o; cbn [step] in Hs.
  - destruct (h_live_side s h Tx) as [hd|]; [|inversion Hs; subst; exact K].
    destruct (h_closed hd); [inversion Hs; subst; exact K|].
    destruct (core_send false s v) as [[s1 r1] e1] eqn:Hc. inversion Hs; subst.
    exact (SEND _ _ _ _ _ [EIntro v] Hc).
  - destruct (h_live_side s h Tx) as [hd|]; [|inversion Hs; subst; exact K].
    destruct (h_async hd); [inversion Hs; subst; exact K|].
    destruct (h_closed hd); [inversion Hs; subst; exact K|].
    destruct (core_send true s v) as [[s1 r1] e1] eqn:Hc. inversion Hs; subst.
    pose proof (SEND _ _ _ _ _ [EIntro v] Hc) as X. destruct r; try exact X.
    unfold core_send in Hc. destruct (N.eqb (rcnt s) 0); [inversion Hc|].
    destruct (rq s) as [|[g w] rest] eqn:Hrq; inversion Hc; subst. rewrite Hrq. (split; [|intros _]; apply q_evol_same).
  - destruct (h_live_side s h Rx) as [hd|]; [|inversion Hs; subst; exact K].
    destruct (h_closed hd); [inversion Hs; subst; exact K|]. exact (RECV _ _ _ _ Hs).
  - destruct (h_live_side s h Rx) as [hd|]; [|inversion Hs; subst; exact K].
    destruct (h_async hd); [inversion Hs; subst; exact K|].
    destruct (h_closed hd); [inversion Hs; subst; exact K|]. exact (RECV _ _ _ _ Hs).
  - destruct (h_live_side s h Rx) as [hd|]; [|inversion Hs; subst; exact K].
    destruct (h_async hd); [inversion Hs; subst; exact K|].
    destruct (h_closed hd); [inversion Hs; subst; exact K|]. exact (RECV _ _ _ _ Hs).
  - destruct (aget h (hs s)) as [hd|]; [|inversion Hs; subst; exact K].
    destruct (do_close_evol _ _ _ _ _ _ (dropped_of (Close h)) Hs) as [A B]. split; [exact A|intros _; exact B].
  - destruct (aget h (hs s)) as [hd|]; [|inversion Hs; subst; exact K].
    destruct (borrowed s h); [inversion Hs; subst; exact K|].
    destruct (do_close s h hd) as [[s1 r1] e1] eqn:Hc. inversion Hs; subst. cbn [sq rq set_hs].
    destruct (do_close_evol _ _ _ _ _ _ (dropped_of (DropH h)) Hc) as [A B]. split; [exact A|intros _; exact B].
  - destruct (aget h (hs s)) as [hd|]; [|inversion Hs; subst; exact K].
    destruct (ahas h' (hs s)); [inversion Hs; subst; exact K|].
    destruct (negb _); [inversion Hs; subst; exact K|].
    destruct (fix_clone c && h_closed hd); inversion Hs; subst; [exact K|].
    destruct (h_side hd); exact K.
  - destruct (aget h (hs s)) as [hd|]; [|inversion Hs; subst; exact K].
    destruct (borrowed s h); inversion Hs; subst; exact K.
  - destruct (aget h (hs s)); inversion Hs; subst; exact K.
  - destruct (h_live_side s h Tx) as [hd|]; [|inversion Hs; subst; exact K].
    destruct (negb (h_async hd) || ahas f (fs s)); inversion Hs; subst; exact K.
  - destruct (h_live_side s h Rx) as [hd|]; [|inversion Hs; subst; exact K].
    destruct (negb (h_async hd) || ahas f (fs s)); inversion Hs; subst; exact K.
  - (* Poll *)
    destruct (aget f (fs s)) as [r0|]; [|inversion Hs; subst; exact K].
    destruct (f_side r0).
    + unfold poll_send in Hs. destruct (f_reg r0).
      * destruct (f_st r0); [destruct (qhas f (sq s))|..]; inversion Hs; subst; try exact K.
        cbn [sq rq]. split; [|intros _; apply q_evol_same].
        apply q_evol_keys. unfold qrefresh. apply keys_aupd.
      * destruct (f_cell r0); [|inversion Hs; subst; exact K].
        destruct (fix_fut c && handle_closed s (f_h r0)); [inversion Hs; subst; exact K|].
        destruct (N.eqb (rcnt s) 0); [inversion Hs; subst; exact K|].
        destruct (rq s) as [|[g w'] rest] eqn:Hrq; inversion Hs; subst; cbn [sq rq].
        -- split; [apply q_evol_app|intros _; apply q_evol_same].
        -- split; [apply q_evol_same|intros _]. apply q_evol_pop. cbn. tauto.
    + unfold poll_recv in Hs. destruct (f_reg r0).
      * destruct (f_st r0); [destruct (qhas f (rq s))|destruct (f_cell r0)|..]; inversion Hs; subst; try exact K.
        cbn [sq rq]. split; [apply q_evol_same|intros _].
        apply q_evol_keys. unfold qrefresh. apply keys_aupd.
      * destruct (fix_fut c && handle_closed s (f_h r0)); [inversion Hs; subst; exact K|].
        destruct (sq s) as [|p rest] eqn:Hsq.
        -- destruct (N.eqb (scnt s) 0); inversion Hs; subst; cbn [sq rq]; rewrite ?Hsq;
             [(split; [|intros _]; apply q_evol_same)|].
           split; [apply q_evol_same|intros Hm]. unfold push_receiver. rewrite Hm. apply q_evol_app.
        -- destruct (take_from_sender s) as [[[s2 v] w1]|] eqn:Ht; inversion Hs; subst;
             [|rewrite Hsq; (split; [|intros _]; apply q_evol_same)].
           destruct (take_evol _ _ _ _ Ht) as [Hrq [g [rest' [Hsq' Hsq2]]]]. rewrite Hsq in Hsq'.
           inversion Hsq'; subst. rewrite Hrq. split; [|intros _; apply q_evol_same].
           try rewrite Hsq2. apply q_evol_pop. cbn. tauto.
  - (* DropF *)
    destruct (aget f (fs s)) as [r0|]; [|inversion Hs; subst; exact K].
    unfold drop_fut in Hs. inversion Hs; subst. cbn [dropped_of].
    destruct (f_reg r0 && cancel_cas r0); [unfold cancel_remove; destruct (f_side r0)|];
      cbn [sq rq set_fs set_sq set_rq]; (split; [|intros _]); try apply q_evol_same; apply q_evol_qdel.
Qed.

(* the record stored by a poll that returned Pending carries that poll's waker *)
Theorem rv_pending_registers c s f w s' e :
  step c s (Poll f w) = (s', OPending, e) ->
  exists r', aget f (fs s') = Some r' /\ f_reg r' = true /\ f_woken r' = false /\ f_st r' = WAITING
             /\ match f_side r' with Tx => In (f, w) (sq s') | Rx => In (f, w) (rq s') end.
Proof.
  intros Hs. cbn [step] in Hs. destruct (aget f (fs s)) as [r0|] eqn:Hg; [|discriminate].
  assert (Q : forall q, qhas f q = true -> In (f, w) (qrefresh f w q)).
  { intros q. unfold qhas, ahas, qrefresh. induction q as [|[k x] t IH]; cbn [aget aupd]; [discriminate|].
    deq f k; [intros _; left; reflexivity|]. intros X. right. apply IH. exact X. }
  destruct (f_side r0) eqn:Hsd.
  - unfold poll_send in Hs. destruct (f_reg r0) eqn:Hr.
    + destruct (f_st r0) eqn:Hst; [destruct (qhas f (sq s)) eqn:Hq|..]; inversion Hs; subst.
      exists (fut_repoll r0). cbn [fs sq]. rewrite aget_aupd_eq, Hg. cbn. rewrite Hsd.
      repeat split; auto.
    + destruct (f_cell r0); [|discriminate].
      destruct (fix_fut c && handle_closed s (f_h r0)); [discriminate|].
      destruct (N.eqb (rcnt s) 0); [discriminate|].
      destruct (rq s) as [|[g w'] rest]; inversion Hs; subst.
      exists (fut_park r0). cbn [fs sq]. rewrite aget_aupd_eq, Hg. cbn. rewrite Hsd.
      repeat split; auto. apply in_or_app. right. left. reflexivity.
  - unfold poll_recv in Hs. destruct (f_reg r0) eqn:Hr.
    + destruct (f_st r0) eqn:Hst; [destruct (qhas f (rq s)) eqn:Hq|destruct (f_cell r0)|..]; inversion Hs; subst.
      exists (fut_repoll r0). cbn [fs rq]. rewrite aget_aupd_eq, Hg. cbn. rewrite Hsd.
      repeat split; auto.
    + destruct (fix_fut c && handle_closed s (f_h r0)); [discriminate|].
      destruct (sq s).
      * destruct (N.eqb (scnt s) 0); inversion Hs; subst.
        exists (fut_park r0). cbn [fs rq]. rewrite aget_aupd_eq, Hg. cbn. rewrite Hsd.
        repeat split; auto. unfold push_receiver. destruct (multi_rx c); [apply in_or_app; right|]; left; reflexivity.
      * destruct (take_from_sender s) as [[[? ?] ?]|]; discriminate.
Qed.

(* no dangling registration: every queue record belongs to a live, registered future *)
Theorem rv_no_dangling c a ops s tr f w :
  run c (init a) ops = (s, tr) -> In (f, w) (sq s ++ rq s) ->
  exists r, aget f (fs s) = Some r /\ f_reg r = true /\ f_st r = WAITING.
Proof.
  intros Hr Hi. pose proof (run_WF c ops _ _ _ (WF_init a) Hr) as W. apply in_app_iff in Hi.
  destruct Hi as [Hi|Hi].
  - destruct (wf_sq _ _ _ _ W f w Hi) as [r [A [_ [B [C' _]]]]]. exists r. auto.
  - destruct (wf_rq _ _ _ _ W f w Hi) as [r [A [_ [B [C' _]]]]]. exists r. auto.
Qed.

(* dropping a future removes exactly its own record and keeps everybody else's order *)
Theorem rv_drop_future_queues c s f s' r e :
  step c s (DropF f) = (s', r, e) ->
  (sq s' = sq s \/ sq s' = qdel f (sq s)) /\ (rq s' = rq s \/ rq s' = qdel f (rq s))
  /\ hs s' = hs s /\ scnt s' = scnt s /\ rcnt s' = rcnt s
  /\ (forall w, ~ In (EWake w) e).
Proof.
  intros Hs. cbn [step] in Hs. destruct (aget f (fs s)) as [r0|].
  - unfold drop_fut in Hs. inversion Hs; subst.
    assert (NW : forall w, ~ In (EWake w) (drop_cell_ev r0)).
    { intros w X. unfold drop_cell_ev in X. destruct (f_cell r0); [destruct (f_side r0)|]; cbn in X; intuition discriminate. }
    destruct (f_reg r0 && cancel_cas r0); [unfold cancel_remove; destruct (f_side r0)|];
      cbn [sq rq hs scnt rcnt set_fs set_sq set_rq]; repeat split; auto.
  - inversion Hs; subst. repeat split; auto.
Qed.
