(* Proofs/TopicInvRx.v — invariant preservation: close / drop / clone of receiver handles. *)
From Fibre Require Import Common.Base Chan.TopicOps Chan.TopicSpec Proofs.TopicLemmas Proofs.TopicInv
     Proofs.TopicInvSub.

Definition srx_mark_closed (z : srx) : srx :=
  {| s_id := s_id z; s_live := s_live z; s_closed := true; s_subs := s_subs z; s_q := s_q z;
     s_cap := s_cap z; s_full := s_full z; s_exp := s_exp z; s_got := s_got z; s_reach := s_reach z |}.

Lemma find_srx_upd r r' g ss :
  (forall x, s_id (g x) = s_id x) ->
  find_srx r (upd_srx r' g ss) =
  match find_srx r ss with
  | Some x => Some (if N.eqb r r' then g x else x)
  | None => None
  end.
Proof.
  intros Hf. unfold find_srx, upd_srx. induction ss as [|a ss IH]; cbn [map find]; [reflexivity|].
  destruct (N.eqb_spec (s_id a) r') as [E|E].
  - rewrite Hf. destruct (N.eqb_spec (s_id a) r) as [E2|E2].
    + subst. rewrite N.eqb_refl. reflexivity.
    + exact IH.
  - destruct (N.eqb_spec (s_id a) r) as [E2|E2].
    + subst. destruct (N.eqb_spec (s_id a) r'); [contradiction | reflexivity].
    + exact IH.
Qed.

Lemma live_rx_upd_same r f s x :
  live_rx r s = Some x -> (forall z, r_id (f z) = r_id z) -> r_live (f x) = true ->
  live_rx r (st_set_rxs s (upd_rx r f (rxs s))) = Some (f x).
Proof.
  intros H Hid Hl. apply live_rx_spec in H. destruct H as [Hx _].
  unfold live_rx. cbn [rxs st_set_rxs]. rewrite find_rx_upd by exact Hid. rewrite Hx, N.eqb_refl, Hl. reflexivity.
Qed.

(* step A of close/drop: the handle's own flag is set; the reference marks the handle closed *)
Lemma mark_closed_inv c s sp r x :
  Inv c s sp -> live_rx r s = Some x ->
  Inv c (st_set_rxs s (upd_rx r (fun y => rx_set_closed y true) (rxs s)))
        (sp_set_rx sp (upd_srx r srx_mark_closed (sp_rx sp))).
Proof.
  intros I Hl. apply live_rx_spec in Hl. destruct Hl as [Hx Hlive].
  destruct (pair_rx _ _ _ _ _ I Hx) as [y [Hy [Hinx [Hiny HR]]]].
  apply (inv_upd_rx _ _ _ _ x y); auto.
  assert (Hg : good c (srx_mark_closed y) = true -> good c y = true).
  { unfold good. cbn. intros H. rewrite orb_false_r in H. rewrite H. reflexivity. }
  destruct HR. constructor; cbn; auto.
  - intros A B C. apply rr_reg2; auto.
  - intros; discriminate.
Qed.

Lemma live_rx_close_internal c r r' s x :
  live_rx r s = Some x -> exists x', live_rx r (rx_close_internal c r' s) = Some x'.
Proof.
  intros H. unfold rx_close_internal. destruct (disp_alive s); [|eauto].
  destruct (find_rx r' (rxs s)) as [x0|]; [|eauto].
  assert (P : forall s', (exists x', live_rx r s' = Some x') ->
              exists x', live_rx r (st_set_rcount s' (rcount s' - 1)%Z) = Some x').
  { intros s' Q. exact Q. }
  apply P. destruct (fix14 c).
  - clear P. revert s x H. induction (r_subs x0) as [|t ts IH]; intros s x H; cbn [fold_left]; [eauto|].
    destruct (live_rx_unsub r r' t s x H) as [x' H']. eapply IH; eauto.
  - unfold live_rx in *. cbn [rxs st_set_rxs]. rewrite find_rx_upd by reflexivity.
    destruct (find_rx r (rxs s)) as [z|]; [|discriminate].
    destruct (r_live z) eqn:L; [|discriminate].
    destruct (N.eqb r r'); cbn; rewrite L; eauto.
Qed.

Lemma futs_unsub r t s : futs (unsubscribe_core r t s) = futs s.
Proof.
  unfold unsubscribe_core. destruct (find_rx r (rxs s)); [|reflexivity].
  destruct (mem t (r_subs r0)); [|reflexivity].
  destruct (disp_alive s); [|reflexivity]. destruct (get_list t (lists s)); reflexivity.
Qed.

Lemma futs_close_internal c r s : futs (rx_close_internal c r s) = futs s.
Proof.
  unfold rx_close_internal. destruct (disp_alive s); [|reflexivity].
  destruct (find_rx r (rxs s)) as [x|]; [|reflexivity].
  cbn [futs st_set_rcount]. destruct (fix14 c); [|reflexivity].
  generalize s. induction (r_subs x) as [|t ts IH]; intros s0; cbn [fold_left]; [reflexivity|].
  rewrite IH. apply futs_unsub.
Qed.

Lemma ok_CloseR c r : step_ok_for c (CloseR r).
Proof.
  intros s sp s1 rs w sp1 vs I Hs Hsp. cbn [step sp_step] in *.
  destruct (live_rx r s) as [x|] eqn:Hl.
  - destruct (r_closed x) eqn:Ec; injection Hs as <- <- <-; injection Hsp as <- <-.
    + split; [exact I | apply vs_ok_nil].
    + split; [|apply vs_ok_nil].
      pose proof (mark_closed_inv _ _ _ _ _ I Hl) as IA.
      assert (Hl1 : live_rx r (st_set_rxs s (upd_rx r (fun y => rx_set_closed y true) (rxs s)))
                    = Some (rx_set_closed x true)).
      { apply (live_rx_upd_same r (fun y => rx_set_closed y true) s x); auto. apply live_rx_spec in Hl. tauto. }
      assert (Hprem : fix14 c = false -> forall y,
                find_srx r (sp_rx (sp_set_rx sp (upd_srx r srx_mark_closed (sp_rx sp)))) = Some y -> s_closed y = true).
      { intros _ y Hy. cbn [sp_rx sp_set_rx] in Hy. rewrite find_srx_upd in Hy by reflexivity.
        destruct (find_srx r (sp_rx sp)); [|discriminate]. rewrite N.eqb_refl in Hy. injection Hy as <-. reflexivity. }
      pose proof (close_internal_inv _ _ _ _ _ IA Hl1 Hprem) as IB.
      cbn [sp_rx sp_set_rx] in IB. rewrite upd_srx_comp in IB by reflexivity.
      rewrite (upd_srx_ext r (fun z => srx_set_subs (srx_mark_closed z) []) (fun x0 => srx_close x0 (s_live x0) true))
        in IB by (intros z; reflexivity).
      exact IB.
  - injection Hs as <- <- <-. injection Hsp as <- <-. split; [exact I | apply vs_ok_nil].
Qed.

Lemma sp_set_rx_twice sp a b : sp_set_rx (sp_set_rx sp a) b = sp_set_rx sp b.
Proof. reflexivity. Qed.

(* the handle goes away: its records become dead on both sides *)
Lemma inv_kill c s sp r x y f g :
  Inv c s sp -> find_rx r (rxs s) = Some x -> find_srx r (sp_rx sp) = Some y ->
  rx_busy r s = false ->
  (forall z, r_id (f z) = r_id z) -> r_live (f x) = false -> NoDup (r_subs (f x)) ->
  s_id (g y) = s_id y -> s_live (g y) = false ->
  Inv c (st_set_rxs s (upd_rx r f (rxs s))) (sp_set_rx sp (upd_srx r g (sp_rx sp))).
Proof.
  intros I Hx Hy Hbusy Hid Hdead Hnd Hgid Hgdead.
  constructor; cbn [txs rxs lists futs scount st_set_rxs sp_rx sp_tx sp_futs sp_set_rx].
  - apply (i_tx _ _ _ I).
  - change (disp_alive (st_set_rxs s (upd_rx r f (rxs s)))) with (disp_alive s).
    change (any_open (sp_set_rx sp (upd_srx r g (sp_rx sp)))) with (any_open sp).
    change (sg c (sp_set_rx sp (upd_srx r g (sp_rx sp)))) with (sg c sp).
    eapply upd_pair; [apply (i_rx _ _ _ I) | apply rel_rx_id | |].
    + intros x0 y0 Hx0 Hy0 HR E.
      assert (E2 : s_id y0 = r) by (rewrite <- (rr_id _ _ _ _ _ _ _ HR); exact E).
      destruct (unique_pair _ _ _ _ _ _ _ _ I Hx Hy Hx0 Hy0 E E2) as [-> ->].
      constructor; try (rewrite Hdead; intros; discriminate).
      * rewrite Hid, Hgid. apply (rr_id _ _ _ _ _ _ _ HR).
      * rewrite Hdead, Hgdead. reflexivity.
      * exact Hnd.
    + intros x0 y0 _ _ HR _. exact HR.
  - rewrite map_r_id_upd by exact Hid. apply (i_rnd _ _ _ I).
  - apply (i_tnd _ _ _ I).
  - apply (i_futs _ _ _ I).
  - intros f0 r0 Hin. pose proof (i_flive _ _ _ I f0 r0 Hin) as Ha.
    assert (Hne : r0 <> r).
    { intros ->. unfold rx_busy in Hbusy.
      assert (existsb (fun p => N.eqb (snd p) r) (futs s) = true).
      { apply existsb_exists. exists (f0, r). split; [exact Hin | cbn; apply N.eqb_refl]. }
      congruence. }
    unfold rx_alive in *. rewrite find_rx_upd by exact Hid.
    destruct (find_rx r0 (rxs s)) as [z|]; [|discriminate].
    destruct (N.eqb_spec r0 r); [contradiction | exact Ha].
  - apply (i_lnd _ _ _ I).
  - intros t l m H1 H2. rewrite map_r_id_upd by exact Hid. eapply (i_lknown _ _ _ I); eauto.
  - apply (i_cnt _ _ _ I).
Qed.

Lemma ok_DropR c r : step_ok_for c (DropR r).
Proof.
  intros s sp s1 rs w sp1 vs I Hs Hsp. cbn [step sp_step] in *.
  destruct (live_rx r s) as [x|] eqn:Hl.
  2:{ injection Hs as <- <- <-. injection Hsp as <- <-. split; [exact I | apply vs_ok_nil]. }
  destruct (rx_busy r s) eqn:Hb.
  { injection Hs as <- <- <-. injection Hsp as <- <-. split; [exact I | apply vs_ok_nil]. }
  injection Hs as <- <- <-. injection Hsp as <- <-. split; [|apply vs_ok_nil].
  pose proof (mark_closed_inv _ _ _ _ _ I Hl) as IA.
  set (sA := st_set_rxs s (upd_rx r (fun y => rx_set_closed y true) (rxs s))) in *.
  assert (Hl1 : live_rx r sA = Some (rx_set_closed x true)).
  { apply (live_rx_upd_same r (fun y => rx_set_closed y true) s x); auto. apply live_rx_spec in Hl. tauto. }
  set (run := if r_async x && negb (fix07 c) then true else negb (r_closed x)).
  (* after the optional close_internal: invariant w.r.t. a reference state that differs from sp at r only *)
  assert (IC : exists s2 gC, s2 = (if run then rx_close_internal c r sA else sA) /\
                 (forall z, s_id (gC z) = s_id z) /\
                 Inv c s2 (sp_set_rx sp (upd_srx r gC (sp_rx sp))) /\
                 futs s2 = futs s /\ exists x2, live_rx r s2 = Some x2).
  { destruct run.
    - exists (rx_close_internal c r sA), (fun z => srx_set_subs (srx_mark_closed z) []).
      split; [reflexivity|]. split; [reflexivity|]. split.
      + assert (Hprem : fix14 c = false -> forall y,
                find_srx r (sp_rx (sp_set_rx sp (upd_srx r srx_mark_closed (sp_rx sp)))) = Some y -> s_closed y = true).
        { intros _ y Hy. cbn [sp_rx sp_set_rx] in Hy. rewrite find_srx_upd in Hy by reflexivity.
          destruct (find_srx r (sp_rx sp)); [|discriminate]. rewrite N.eqb_refl in Hy. injection Hy as <-. reflexivity. }
        pose proof (close_internal_inv _ _ _ _ _ IA Hl1 Hprem) as IB.
        cbn [sp_rx sp_set_rx] in IB. rewrite upd_srx_comp in IB by reflexivity. exact IB.
      + split; [rewrite futs_close_internal; reflexivity|].
        eapply live_rx_close_internal; eauto.
    - exists sA, srx_mark_closed. split; [reflexivity|]. split; [reflexivity|]. split; [exact IA|].
      split; [reflexivity | eauto]. }
  destruct IC as [s2 [gC [Es2 [HgC [I2 [Hf2 [x2 Hl2]]]]]]]. rewrite <- Es2.
  apply live_rx_spec in Hl2. destruct Hl2 as [Hx2 Hlive2].
  destruct (pair_rx _ _ _ _ _ I2 Hx2) as [y2 [Hy2 _]].
  pose proof Hl as Hl'. apply live_rx_spec in Hl'. destruct Hl' as [Hx Hlive].
  destruct (pair_rx _ _ _ _ _ I Hx) as [y [Hy [Hinx [Hiny HR]]]].
  assert (Hb2 : rx_busy r s2 = false) by (unfold rx_busy; rewrite Hf2; exact Hb).
  pose proof (inv_kill c s2 _ r x2 y2
                (fun z => rx_set_mb (rx_set_live z false) (fst (mb_disconnect (r_mb z))))
                (fun _ => srx_close y false (s_closed y)) I2 Hx2 Hy2 Hb2) as K.
  cbn [sp_rx sp_set_rx] in K. rewrite upd_srx_comp in K by exact HgC. rewrite sp_set_rx_twice in K.
  rewrite (upd_srx_ext_in r (fun _ => srx_close y false (s_closed y)) (fun x0 => srx_close x0 false (s_closed x0))) in K.
  - apply K; try reflexivity.
    + cbn. pose proof (pair_rx _ _ _ _ _ I2 Hx2) as [y3 [_ [_ [_ HR3]]]]. apply (rr_nd _ _ _ _ _ _ _ HR3).
    + cbn. cbn [sp_rx sp_set_rx] in Hy2. rewrite find_srx_upd in Hy2 by exact HgC. rewrite Hy, N.eqb_refl in Hy2.
      injection Hy2 as <-. rewrite HgC. reflexivity.
  - intros z Hz Ez.
    assert (Hnd : NoDup (map s_id (sp_rx sp))).
    { rewrite <- (ids_eq _ _ _ _ _ _ _ (i_rx _ _ _ I)). apply (i_rnd _ _ _ I). }
    pose proof (find_srx_NoDup _ _ _ Hnd Hz Ez). assert (z = y) by congruence. subst z. reflexivity.
Qed.

(** clone of a receiver *)
Lemma any_open_filter sp : any_open sp = negb (Nat.eqb (length (filter x_open (sp_tx sp))) 0).
Proof.
  unfold any_open. induction (sp_tx sp) as [|a l IH]; cbn [existsb filter]; [reflexivity|].
  destruct (x_open a); cbn; [reflexivity | exact IH].
Qed.

Lemma inv_add_rx c s sp xn yn :
  Inv c s sp -> find_rx (r_id xn) (rxs s) = None ->
  rel_rx c (lists s) (disp_alive s) (any_open sp) (sg c sp) xn yn ->
  Inv c (st_set_rxs s (rxs s ++ [xn])) (sp_set_rx sp (sp_rx sp ++ [yn])).
Proof.
  intros I Hfresh HR.
  constructor; cbn [txs rxs lists futs scount st_set_rxs sp_rx sp_tx sp_futs sp_set_rx].
  - apply (i_tx _ _ _ I).
  - apply Forall2_snoc; [apply (i_rx _ _ _ I) | exact HR].
  - rewrite map_app. cbn [map]. apply NoDup_snoc; [apply (i_rnd _ _ _ I) | apply find_rx_None; exact Hfresh].
  - apply (i_tnd _ _ _ I).
  - apply (i_futs _ _ _ I).
  - intros f0 r0 Hin. pose proof (i_flive _ _ _ I f0 r0 Hin) as Ha.
    unfold rx_alive in *. rewrite find_rx_app. destruct (find_rx r0 (rxs s)); [exact Ha | discriminate].
  - apply (i_lnd _ _ _ I).
  - intros t l m H1 H2. rewrite map_app. apply in_or_app. left. eapply (i_lknown _ _ _ I); eauto.
  - apply (i_cnt _ _ _ I).
Qed.

Lemma upd_srx_notin r g ss : ~ In r (map s_id ss) -> upd_srx r g ss = ss.
Proof.
  intros H. unfold upd_srx. rewrite <- (map_id ss) at 2. apply map_ext_in. intros a Ha.
  destruct (N.eqb_spec (s_id a) r) as [E|E]; [|reflexivity].
  exfalso. apply H. rewrite <- E. apply in_map. exact Ha.
Qed.

Lemma upd_srx_app r g a b : upd_srx r g (a ++ b) = upd_srx r g a ++ upd_srx r g b.
Proof. unfold upd_srx. apply map_app. Qed.

Lemma sp_sub_fold_new r' cap ss : ~ In r' (map s_id ss) -> forall ts pre sp,
  sp_rx sp = ss ++ [srx_new r' pre cap] -> NoDup (pre ++ ts) ->
  fold_left (fun a t => sp_sub r' t a) ts sp = sp_set_rx sp (ss ++ [srx_new r' (pre ++ ts) cap]).
Proof.
  intros Hni. induction ts as [|t ts IH]; intros pre sp Hsp Hnd; cbn [fold_left].
  - rewrite app_nil_r, <- Hsp. destruct sp; reflexivity.
  - rewrite (IH (pre ++ [t])).
    + unfold sp_sub. cbn [sp_rx sp_set_rx]. rewrite <- app_assoc. reflexivity.
    + unfold sp_sub. cbn [sp_rx sp_set_rx]. rewrite Hsp, upd_srx_app, upd_srx_notin by exact Hni.
      f_equal. unfold upd_srx. cbn [map srx_new s_id s_subs]. rewrite N.eqb_refl.
      assert (E : mem t pre = false).
      { apply mem_false_In. intros Hi. apply NoDup_remove_2 in Hnd. apply Hnd. apply in_or_app. left. exact Hi. }
      rewrite E. reflexivity.
    + rewrite <- app_assoc. exact Hnd.
Qed.

Lemma ok_CloneR c r r' : step_ok_for c (CloneR r r').
Proof.
  intros s sp s1 rs w sp1 vs I Hs Hsp. cbn [step sp_step] in *.
  destruct (live_rx r s) as [x|] eqn:Hl.
  2:{ injection Hs as <- <- <-. injection Hsp as <- <-. split; [exact I | apply vs_ok_nil]. }
  destruct (find_rx r' (rxs s)) as [x'|] eqn:Hf'.
  { injection Hs as <- <- <-. injection Hsp as <- <-. split; [exact I | apply vs_ok_nil]. }
  pose proof Hl as Hl'. apply live_rx_spec in Hl'. destruct Hl' as [Hx Hlive].
  destruct (pair_rx _ _ _ _ _ I Hx) as [y [Hy [Hinx [Hiny HR]]]].
  assert (Hnotin : ~ In r' (map s_id (sp_rx sp))).
  { rewrite <- (ids_eq _ _ _ _ _ _ _ (i_rx _ _ _ I)). apply find_rx_None. exact Hf'. }
  assert (Hnone : find_srx r' (sp_rx sp) = None).
  { destruct (find_srx r' (sp_rx sp)) as [z|] eqn:Ez; [|reflexivity]. exfalso. apply Hnotin.
    unfold find_srx in Ez. apply find_some in Ez. destruct Ez as [A B]. apply N.eqb_eq in B. rewrite <- B.
    apply in_map. exact A. }
  destruct (disp_alive s) eqn:Eda.
  - injection Hs as <- <- <-. rewrite Hy, Hnone in Hsp. injection Hsp as <- <-. split; [|apply vs_ok_nil].
    destruct (rr_subs _ _ _ _ _ _ _ HR Hlive eq_refl) as [Hsubs Hcap].
    set (bd := fix05 c && fix04 c && Z.eqb (scount s) 0).
    set (xn := new_rx r' (r_async x) false (m_cap (r_mb x)) bd).
    pose proof (inv_rcount c s sp (rcount s + 1)%Z I) as I1.
    assert (I2 : Inv c (st_set_rxs (st_set_rcount s (rcount s + 1)%Z) (rxs s ++ [xn]))
                       (sp_set_rx sp (sp_rx sp ++ [srx_new r' [] (s_cap y)]))).
    { apply (inv_add_rx c (st_set_rcount s (rcount s + 1)%Z) sp xn); [exact I1 | exact Hf' |].
      change (disp_alive (st_set_rcount s (rcount s + 1)%Z)) with (disp_alive s). rewrite Eda.
      constructor; cbn; auto; try (intros; discriminate); try (intros; contradiction).
      - constructor.
      - intros _ _ _ t l H1 H2. apply find_rx_None in Hf'. apply Hf'. eapply (i_lknown _ _ _ I); eauto.
      - intros _ Hbd _. unfold bd in Hbd. apply andb_true_iff in Hbd. destruct Hbd as [Hbd Hz].
        apply andb_true_iff in Hbd. destruct Hbd as [_ F4]. apply Z.eqb_eq in Hz.
        rewrite (i_cnt _ _ _ I F4) in Hz. rewrite any_open_filter.
        destruct (length (filter x_open (sp_tx sp))); [reflexivity | lia].
      - intros _ F4 F5 Hao. unfold bd. rewrite F4, F5. cbn. apply Z.eqb_eq.
        rewrite (i_cnt _ _ _ I F4). rewrite any_open_filter in Hao.
        destruct (length (filter x_open (sp_tx sp))); [reflexivity | discriminate]. }
    assert (Hln : live_rx r' (st_set_rxs (st_set_rcount s (rcount s + 1)%Z) (rxs s ++ [xn])) = Some xn).
    { unfold live_rx. cbn [rxs st_set_rxs st_set_rcount]. rewrite find_rx_app, Hf'. cbn. rewrite N.eqb_refl. reflexivity. }
    pose proof (sub_fold c r' (r_subs x) _ _ xn I2 Hln) as I3.
    rewrite (sp_sub_fold_new r' (s_cap y) (sp_rx sp) Hnotin (r_subs x) []) in I3.
    + cbn [app] in I3. rewrite sp_set_rx_twice in I3. rewrite <- Hsubs. exact I3.
    + reflexivity.
    + cbn [app]. apply (rr_nd _ _ _ _ _ _ _ HR).
  - injection Hs as <- <- <-. rewrite Hy, Hnone in Hsp. injection Hsp as <- <-. split; [|apply vs_ok_nil].
    apply (inv_add_rx c s sp (new_rx r' (r_async x) true 0 (fix05 c))); [exact I | exact Hf' |].
    rewrite Eda. constructor; cbn; auto; try (intros; discriminate); try (intros; contradiction).
    + constructor.
    + intros _ _ _. apply (da_false_ao _ _ _ I Eda).
Qed.
