(* Proofs/TopicInvPub.v — invariant preservation: publish. *)
From Fibre Require Import Common.Base Chan.TopicOps Chan.TopicSpec Proofs.TopicLemmas Proofs.TopicInv
     Proofs.TopicInvSub.

(* apply F / G to every receiver record *)
Lemma inv_map_rx c s sp (F : rxh -> rxh) (G : srx -> srx) :
  Inv c s sp ->
  (forall x, r_id (F x) = r_id x) -> (forall x, r_live (F x) = r_live x) ->
  (forall x y, In x (rxs s) -> In y (sp_rx sp) ->
     rel_rx c (lists s) (disp_alive s) (any_open sp) (sg c sp) x y ->
     rel_rx c (lists s) (disp_alive s) (any_open sp) (sg c sp) (F x) (G y)) ->
  Inv c (st_set_rxs s (map F (rxs s))) (sp_set_rx sp (map G (sp_rx sp))).
Proof.
  intros I Hid Hlive HF.
  assert (Hids : map r_id (map F (rxs s)) = map r_id (rxs s)).
  { rewrite map_map. apply map_ext. exact Hid. }
  constructor; cbn [txs rxs lists futs scount st_set_rxs sp_rx sp_tx sp_futs sp_set_rx].
  - apply (i_tx _ _ _ I).
  - eapply Forall2_map2; [apply (i_rx _ _ _ I) | exact HF].
  - rewrite Hids. apply (i_rnd _ _ _ I).
  - apply (i_tnd _ _ _ I).
  - apply (i_futs _ _ _ I).
  - intros f0 r0 Hin. pose proof (i_flive _ _ _ I f0 r0 Hin) as Ha.
    unfold rx_alive in *. destruct (find_rx r0 (rxs s)) as [z|] eqn:E; [|discriminate].
    assert (E' : find_rx r0 (map F (rxs s)) = Some (F z)).
    { clear - E Hid. unfold find_rx in *. induction (rxs s) as [|a l IH]; cbn [map find] in *; [discriminate|].
      rewrite Hid. destruct (N.eqb (r_id a) r0); [congruence | auto]. }
    rewrite E', Hlive. exact Ha.
  - apply (i_lnd _ _ _ I).
  - intros t l m H1 H2. rewrite Hids. eapply (i_lknown _ _ _ I); eauto.
  - apply (i_cnt _ _ _ I).
Qed.

(** deliver_list as a map over the handles *)
Definition deliver_fn (l : list N) (m : msg) (x : rxh) : rxh :=
  if r_live x && mem (r_id x) l then rx_set_mb x (fst (mb_deliver (r_mb x) m)) else x.

Lemma deliver_one_spec a m rs :
  NoDup (map r_id rs) ->
  fst (deliver_one a m rs) = map (deliver_fn [a] m) rs.
Proof.
  intros Hnd. unfold deliver_one.
  assert (Hid : forall x, In x rs -> r_id x <> a -> deliver_fn [a] m x = x).
  { intros x _ Hne. unfold deliver_fn, mem. cbn [existsb]. destruct (N.eqb_spec (r_id x) a); [contradiction|].
    rewrite orb_false_r, andb_false_r. reflexivity. }
  destruct (find_rx a rs) as [y|] eqn:E.
  - pose proof (find_rx_In _ _ _ E) as [Hy Hya].
    destruct (r_live y) eqn:L.
    + destruct (mb_deliver (r_mb y) m) as [mb' w] eqn:Ed. cbn [fst]. unfold upd_rx. apply map_ext_in.
      intros x Hx. destruct (N.eqb_spec (r_id x) a) as [E2|E2].
      * assert (x = y) by (eapply unique_rx; eauto). subst x.
        unfold deliver_fn, mem. cbn [existsb]. rewrite L, E2, N.eqb_refl, Ed. reflexivity.
      * symmetry. apply Hid; assumption.
    + cbn [fst]. rewrite <- (map_id rs) at 1. apply map_ext_in. intros x Hx.
      destruct (N.eq_dec (r_id x) a) as [E2|E2].
      * assert (x = y) by (eapply unique_rx; eauto). subst x. unfold deliver_fn. rewrite L. reflexivity.
      * symmetry. apply Hid; assumption.
  - cbn [fst]. rewrite <- (map_id rs) at 1. apply map_ext_in. intros x Hx. symmetry. apply Hid; [exact Hx|].
    intros E2. apply find_rx_None in E. apply E. rewrite <- E2. apply in_map. exact Hx.
Qed.

Lemma deliver_list_spec m : forall l rs,
  NoDup l -> NoDup (map r_id rs) ->
  fst (deliver_list l m rs) = map (deliver_fn l m) rs.
Proof.
  induction l as [|a l IH]; intros rs Hl Hnd; cbn [deliver_list].
  - cbn [fst]. rewrite <- (map_id rs) at 1. apply map_ext. intros x. unfold deliver_fn, mem. cbn [existsb].
    rewrite andb_false_r. reflexivity.
  - inversion Hl as [|? ? Hni Hl']; subst.
    pose proof (deliver_one_spec a m rs Hnd) as H1.
    destruct (deliver_one a m rs) as [rs1 w1]. cbn [fst] in H1.
    assert (Hnd1 : NoDup (map r_id rs1)).
    { rewrite H1, map_map. erewrite map_ext; [exact Hnd|]. intros x. unfold deliver_fn.
      destruct (r_live x && mem (r_id x) [a]); reflexivity. }
    pose proof (IH rs1 Hl' Hnd1) as H2.
    destruct (deliver_list l m rs1) as [rs2 w2]. cbn [fst] in *. rewrite H2, H1, map_map.
    apply map_ext. intros x. unfold deliver_fn at 2. unfold mem at 1. cbn [existsb].
    destruct (r_live x) eqn:L; cbn [andb].
    + destruct (N.eqb_spec (r_id x) a) as [E|E]; cbn [orb].
      * unfold deliver_fn. cbn [r_live r_id rx_set_mb]. rewrite L, E. 
        assert (mem a l = false) by (apply mem_false_In; exact Hni).
        rewrite H. unfold mem. cbn [existsb]. rewrite N.eqb_refl. cbn. reflexivity.
      * unfold deliver_fn. rewrite L. unfold mem. cbn [existsb].
        destruct (N.eqb_spec (r_id x) a); [contradiction|]. cbn. reflexivity.
    + unfold deliver_fn. rewrite L. reflexivity.
Qed.

Definition offer_fn (t v : N) (y : srx) : srx :=
  if s_live y && mem t (s_subs y) then srx_offer y (t, v) else y.

(* a delivery on the model side and/or an offer on the reference side *)
Lemma rel_deliver_offer c ls da ao sgb x y m (bm bs : bool) :
  rel_rx c ls da ao sgb x y ->
  (r_live x = true -> good c y = true -> bm = bs) ->
  (r_live x = true -> good c y = true -> bm = true -> da = true) ->
  rel_rx c ls da ao sgb
    (if bm then rx_set_mb x (fst (mb_deliver (r_mb x) m)) else x)
    (if bs then srx_offer y m else y).
Proof.
  intros HR Hb Hda.
  assert (Hx : forall x', r_id x' = r_id x -> r_live x' = r_live x -> r_subs x' = r_subs x ->
                 r_closed x' = r_closed x -> m_cap (r_mb x') = m_cap (r_mb x) -> m_disc (r_mb x') = m_disc (r_mb x) ->
                 forall y', s_id y' = s_id y -> s_live y' = s_live y -> s_subs y' = s_subs y -> s_cap y' = s_cap y ->
                 s_closed y' = s_closed y -> s_reach y' = s_reach y ->
                 (r_live x = true -> good c y = true -> m_buf (r_mb x') = s_q y' /\ m_dropped (r_mb x') = s_full y') ->
                 rel_rx c ls da ao sgb x' y').
  { intros x' A1 A2 A3 A4 A5 A6 y' B1 B2 B3 B4 B5 B6 HB.
    assert (Hg : good c y' = good c y) by (unfold good; rewrite B5; reflexivity).
    destruct HR. constructor; rewrite ?A1, ?A2, ?A3, ?A4, ?A5, ?A6, ?B1, ?B2, ?B3, ?B4, ?B5, ?B6, ?Hg; auto. }
  assert (Hd : forall z, m_cap (fst (mb_deliver z m)) = m_cap z /\ m_disc (fst (mb_deliver z m)) = m_disc z).
  { intros z. unfold mb_deliver. destruct (N.leb (m_cap z) (N.of_nat (length (m_buf z)))); cbn; auto. }
  assert (Ho : forall z, s_id (srx_offer z m) = s_id z /\ s_live (srx_offer z m) = s_live z /\
                 s_subs (srx_offer z m) = s_subs z /\ s_cap (srx_offer z m) = s_cap z /\
                 s_closed (srx_offer z m) = s_closed z /\ s_reach (srx_offer z m) = s_reach z).
  { intros z. unfold srx_offer. destruct (N.ltb (N.of_nat (length (s_q z))) (s_cap z)); cbn; tauto. }
  apply Hx.
  1-6: destruct bm; cbn; try reflexivity; apply Hd.
  1-6: destruct bs; try reflexivity; apply Ho.
  intros Hl Hg. specialize (Hb Hl Hg). subst bs.
  destruct (rr_buf _ _ _ _ _ _ _ HR Hl Hg) as [Hq Hf].
  destruct bm; [|auto].
  specialize (Hda Hl Hg eq_refl).
  destruct (rr_subs _ _ _ _ _ _ _ HR Hl Hda) as [_ Hc].
  cbn [r_mb rx_set_mb]. unfold mb_deliver, srx_offer. rewrite Hq, Hc.
  destruct (N.leb_spec (s_cap y) (N.of_nat (length (s_q y)))) as [L|L];
    destruct (N.ltb_spec (N.of_nat (length (s_q y))) (s_cap y)) as [L2|L2]; try lia; cbn; rewrite ?Hq, ?Hf; auto.
Qed.

Lemma ok_Publish c h t v : step_ok_for c (Publish h t v).
Proof.
  intros s sp s1 rs w sp1 vs I Hs Hsp. cbn [step sp_step] in *.
  destruct (live_tx h s) as [x|] eqn:Hl.
  2:{ injection Hs as <- <- <-. injection Hsp as <- <-. split; [exact I | apply vs_ok_nil]. }
  pose proof (live_tx_da _ _ _ Hl) as Hda.
  destruct (t_closed x || Z.eqb (rcount s) 0).
  { injection Hs as <- <- <-. injection Hsp as <- <-. split; [exact I | apply vs_ok_nil]. }
  assert (Hgen : forall l, (match get_list t (lists s) with Some l0 => l = l0 | None => l = [] end) ->
            Inv c (st_set_rxs s (map (deliver_fn l (t, v)) (rxs s)))
                  (sp_set_rx sp (map (offer_fn t v) (sp_rx sp)))).
  { intros l Hlst. apply inv_map_rx; auto.
    - intros x0. unfold deliver_fn. destruct (r_live x0 && mem (r_id x0) l); reflexivity.
    - intros x0. unfold deliver_fn. destruct (r_live x0 && mem (r_id x0) l); reflexivity.
    - intros x0 y0 Hx0 Hy0 HR. unfold deliver_fn, offer_fn. rewrite <- (rr_live _ _ _ _ _ _ _ HR).
      apply rel_deliver_offer; [exact HR | | intros; exact Hda].
      intros L Hg. rewrite L. cbn [andb]. rewrite Hda in HR.
      destruct (rr_subs _ _ _ _ _ _ _ HR L eq_refl) as [Hsub _]. rewrite <- Hsub.
      destruct (mem (r_id x0) l) eqn:E1; destruct (mem t (r_subs x0)) eqn:E2; try reflexivity.
      + apply mem_In in E1. destruct (get_list t (lists s)) as [l0|] eqn:El; [|subst l; contradiction]. subst l0.
        pose proof (rr_reg2 _ _ _ _ _ _ _ HR L eq_refl Hg t l El E1) as H. apply mem_In in H. congruence.
      + apply mem_In in E2. destruct (rr_reg1 _ _ _ _ _ _ _ HR L eq_refl t E2) as [l0 [A B]].
        rewrite A in Hlst. subst l0. apply mem_In in B. congruence. }
  destruct (get_list t (lists s)) as [l|] eqn:El.
  - pose proof (deliver_list_spec (t, v) l (rxs s) (i_lnd _ _ _ I _ _ El) (i_rnd _ _ _ I)) as Hd.
    destruct (deliver_list l (t, v) (rxs s)) as [rs' w']. cbn [fst] in Hd. subst rs'.
    injection Hs as <- <- <-. injection Hsp as <- <-. split; [|apply vs_ok_nil]. apply Hgen. reflexivity.
  - injection Hs as <- <- <-. injection Hsp as <- <-. split; [|apply vs_ok_nil].
    specialize (Hgen [] eq_refl).
    assert (E : map (deliver_fn [] (t, v)) (rxs s) = rxs s).
    { rewrite <- (map_id (rxs s)) at 2. apply map_ext. intros x0. unfold deliver_fn, mem. cbn [existsb].
      rewrite andb_false_r. reflexivity. }
    rewrite E, st_set_rxs_same in Hgen. exact Hgen.
Qed.
