(* Proofs/PolicyTinyLfuProofs.v — the full C14 contract for TinyLfuP, for every
   frequency sketch, capacity and call sequence. *)
From Fibre Require Import Common.Base Cache.PolicySpec Cache.PolicyLru Cache.PolicySlru
     Cache.PolicyTinyLfu Proofs.PolicyCommon Proofs.PolicyLruProofs Proofs.PolicySlruProofs.

(** lifting facts about the main segment under a disjoint window prefix *)
Lemma lookup_prefix_none k W M : ~ In k (keys W) -> lookup k (W ++ M) = lookup k M.
Proof.
  intros H. rewrite lookup_app. apply lookup_None in H. rewrite H. reflexivity.
Qed.

Lemma prefix_disjoint k (W M : list kc) : NoDup (keys (W ++ M)) -> In k (keys M) -> ~ In k (keys W).
Proof.
  rewrite keys_app. intros Hnd Hm Hw. eapply NoDup_app_disjoint; eauto.
Qed.

Lemma prefix_disjoint' k (W M : list kc) : NoDup (keys (W ++ M)) -> In k (keys W) -> ~ In k (keys M).
Proof.
  rewrite keys_app. intros Hnd Hw Hm. eapply NoDup_app_disjoint; eauto.
Qed.

Lemma access_update_lift W M M' k c :
  ~ In k (keys W) -> access_update M M' k c -> access_update (W ++ M) (W ++ M') k c.
Proof.
  unfold access_update. intros Hw. rewrite (lookup_prefix_none k W M Hw).
  destruct (lookup k M); intros P.
  - rewrite rm_app, (rm_id k W Hw).
    eapply Permutation_trans; [apply Permutation_app_head; exact P|].
    apply Permutation_sym, Permutation_middle.
  - apply Permutation_app_head. exact P.
Qed.

Lemma evict_core_lift W M M' vs f :
  NoDup (keys (W ++ M)) -> evict_core M M' vs f -> evict_core (W ++ M) (W ++ M') vs f.
Proof.
  intros Hnd [Hv [Hin [Hc HP]]].
  assert (Hdis : forall x, In x vs -> ~ In x (keys W)).
  { intros x Hx. eapply prefix_disjoint; [exact Hnd | apply Hin; exact Hx]. }
  repeat split.
  - exact Hv.
  - intros x Hx. rewrite keys_app. apply in_or_app. right. apply Hin. exact Hx.
  - rewrite Hc. f_equal. apply map_ext_in. intros x Hx. unfold cost_of.
    rewrite (lookup_prefix_none x W M (Hdis x Hx)). reflexivity.
  - rewrite without_app. rewrite (without_none vs W).
    + apply Permutation_app_head. exact HP.
    + intros x Hx Hv'. exact (Hdis x Hv' Hx).
Qed.

Lemma slru_admit_internal_fresh k c m :
  ~ In k (keys (slru_tr m)) -> slru_tr (slru_admit_internal k c m) = (k, c) :: slru_tr m.
Proof.
  unfold slru_tr. rewrite keys_app. intros H.
  assert (Hpb : ~ In k (keys (sl_prob m))) by (intros Hi; apply H; apply in_or_app; left; exact Hi).
  assert (Hpt : ~ In k (keys (sl_prot m))) by (intros Hi; apply H; apply in_or_app; right; exact Hi).
  unfold slru_admit_internal.
  apply ll_has_false in Hpb. apply ll_has_false in Hpt. rewrite Hpb, Hpt. cbn [negb andb sl_prob sl_prot].
  apply ll_has_false in Hpb. unfold ll_push_front. rewrite (rm_id k _ Hpb). reflexivity.
Qed.

Arguments tl_win {sk} _.
Arguments tl_main {sk} _.
Arguments tl_sk {sk} _.
Arguments mkTlfu {sk} _ _ _.

Section TinyLfuProofs.
  Variable sk : Type.
  Variable sk_incr : sk -> N -> sk.
  Variable sk_est : sk -> N -> N.
  Variable sk_clear : sk -> sk.
  Variable sk0 : sk.

  Notation tlfu := (tlfu sk).
  Notation tl_tr := (tl_tr sk).
  Notation tl_window_loop := (tl_window_loop sk sk_est).

  Definition tl_inv (s : tlfu) : Prop := NoDup (keys (tl_tr s)).

  (** the window loop only moves candidates into main or rejects them: what was
      tracked is what is tracked afterwards plus the rejected candidates R *)
  Lemma tl_window_loop_spec fuel wt s : forall win m rej win' m' rj,
    NoDup (keys (win ++ slru_tr m)) ->
    tl_window_loop fuel wt s win m rej = (win', m', rj) ->
    exists R, rj = rev rej ++ keys R
      /\ Permutation (win ++ slru_tr m) (R ++ win' ++ slru_tr m').
  Proof.
    induction fuel as [|f IH]; intros win m rej win' m' rj Hnd H; cbn [PolicyTinyLfu.tl_window_loop] in H.
    - inversion H; subst. exists []. cbn [keys map app]. rewrite app_nil_r.
      split; [reflexivity | apply Permutation_refl].
    - destruct (N.ltb wt (total win)).
      2:{ inversion H; subst. exists []. cbn [keys map app]. rewrite app_nil_r.
          split; [reflexivity | apply Permutation_refl]. }
      destruct (ll_pop_back win) as [[[ck cc] w']|] eqn:E.
      2:{ inversion H; subst. exists []. cbn [keys map app]. rewrite app_nil_r.
          split; [reflexivity | apply Permutation_refl]. }
      apply ll_pop_back_some in E. subst win.
      rewrite <- app_assoc in Hnd |- *. cbn [app] in Hnd |- *.
      assert (HPm : Permutation (w' ++ (ck, cc) :: slru_tr m) ((ck, cc) :: w' ++ slru_tr m)).
      { apply Permutation_sym, Permutation_middle. }
      assert (Hnd2 : NoDup (keys ((ck, cc) :: w' ++ slru_tr m))).
      { eapply NoDup_keys_perm; eauto. }
      cbn [keys map fst] in Hnd2. inversion Hnd2 as [|? ? Hni Hnd3]; subst.
      fold (keys (w' ++ slru_tr m)) in Hni, Hnd3.
      assert (Hcm : ~ In ck (keys (slru_tr m))).
      { intros Hi. apply Hni. rewrite keys_app. apply in_or_app. right. exact Hi. }
      destruct (match slru_peek_lru m with
                | Some v => N.leb (sk_est s v) (sk_est s ck)
                | None => true
                end).
      + (* candidate admitted to main *)
        pose proof (slru_admit_internal_fresh ck cc m Hcm) as Hm1.
        destruct (IH _ _ _ _ _ _ (ltac:(rewrite Hm1; exact Hnd)) H) as [R [Hrj HP]].
        exists R. split; [exact Hrj|]. rewrite Hm1 in HP. exact HP.
      + (* candidate rejected *)
        destruct (IH _ _ _ _ _ _ Hnd3 H) as [R [Hrj HP]].
        exists ((ck, cc) :: R). split.
        * rewrite Hrj. cbn [rev keys map fst]. rewrite <- app_assoc. reflexivity.
        * eapply Permutation_trans; [exact HPm|]. cbn [app]. constructor. exact HP.
  Qed.

  (** the fuel supplied ([length window]) suffices: on return the loop condition is false *)
  Lemma tl_window_loop_done fuel wt s : forall win m rej win' m' rj,
    (length win <= fuel)%nat ->
    tl_window_loop fuel wt s win m rej = (win', m', rj) ->
    total win' <= wt \/ win' = [].
  Proof.
    induction fuel as [|f IH]; intros win m rej win' m' rj Hlen H; cbn [PolicyTinyLfu.tl_window_loop] in H.
    - inversion H; subst. right. destruct win'; [reflexivity | cbn [length] in Hlen; lia].
    - destruct (N.ltb_spec wt (total win)) as [Hlt|Hge]; [|inversion H; subst; left; exact Hge].
      destruct (ll_pop_back win) as [[[ck cc] w']|] eqn:E.
      + apply ll_pop_back_some in E. subst win. rewrite app_length in Hlen. cbn [length] in Hlen.
        destruct (match slru_peek_lru m with
                  | Some v => N.leb (sk_est s v) (sk_est s ck)
                  | None => true
                  end); (eapply IH; [|exact H]; lia).
      + inversion H; subst. right. apply ll_pop_back_none. exact E.
  Qed.

  Lemma tl_main_inv (s : tlfu) : tl_inv s -> slru_inv (tl_main s).
  Proof. unfold tl_inv, PolicyTinyLfu.tl_tr, slru_inv. rewrite keys_app. apply NoDup_app_r. Qed.

  Lemma tl_access_ok cap k c (s : tlfu) : tl_inv s ->
    access_update (tl_tr s) (tl_tr (tl_access sk sk_incr cap k c s)) k c.
  Proof.
    intros HI. unfold tl_access, PolicyTinyLfu.tl_tr.
    destruct (ll_has k (tl_win s)) eqn:Ew; cbn [tl_win tl_main].
    - apply ll_has_true in Ew. unfold access_update.
      assert (Hl : exists c0, lookup k (tl_win s ++ slru_tr (tl_main s)) = Some c0).
      { apply In_keys_lookup. rewrite keys_app. apply in_or_app. left. exact Ew. }
      destruct Hl as [c0 Hl]. rewrite Hl. unfold ll_push_front. rewrite rm_app.
      rewrite (rm_id k (slru_tr (tl_main s))) by (eapply prefix_disjoint'; eauto).
      apply Permutation_refl.
    - apply ll_has_false in Ew. apply access_update_lift; [exact Ew|].
      apply slru_access_ok. apply tl_main_inv. exact HI.
  Qed.

  Lemma tl_remove_ok k (s : tlfu) : tl_inv s ->
    Permutation (tl_tr (tl_remove sk k s)) (rm k (tl_tr s)).
  Proof.
    intros HI. unfold tl_remove, PolicyTinyLfu.tl_tr. rewrite rm_app.
    destruct (ll_has k (tl_win s)) eqn:Ew; cbn [tl_win tl_main].
    - apply ll_has_true in Ew. unfold ll_remove.
      rewrite (rm_id k (slru_tr (tl_main s))) by (eapply prefix_disjoint'; eauto).
      apply Permutation_refl.
    - apply ll_has_false in Ew. rewrite (rm_id k (tl_win s) Ew).
      apply Permutation_app_head. apply slru_remove_ok. apply tl_main_inv. exact HI.
  Qed.

  Lemma win_split_perm (W R tk Vm M' M : list kc) :
    W = rev R ++ rev tk -> Permutation M (Vm ++ M') ->
    Permutation (W ++ M) ((Vm ++ tk) ++ rev R ++ M').
  Proof.
    intros -> HP.
    eapply Permutation_trans; [apply Permutation_app_head; exact HP|].
    (* (rev R ++ rev tk) ++ Vm ++ M'  ~  (Vm ++ tk) ++ rev R ++ M' *)
    rewrite <- !app_assoc.
    eapply Permutation_trans; [apply Permutation_app_swap_app|].
    eapply Permutation_trans; [apply Permutation_app_head; apply Permutation_app_swap_app|].
    (* rev tk ++ Vm ++ rev R ++ M' *)
    eapply Permutation_trans; [apply Permutation_app_swap_app|].
    apply Permutation_app_head.
    apply Permutation_app_tail. apply Permutation_sym, Permutation_rev.
  Qed.

  Lemma tl_evict_ok cap n (s s' : tlfu) vs f : tl_inv s ->
    tl_evict sk cap n s = (s', vs, f) ->
    evict_ok (tl_tr s) (tl_tr s') n vs f.
  Proof.
    intros HI. unfold tl_evict. destruct (N.eqb_spec n 0) as [->|Hn0].
    - intros H. inversion H; subst. repeat split.
      + constructor.
      + intros x [].
      + rewrite without_nil. apply Permutation_refl.
      + intros _. lia.
    - destruct (slru_evict (tl_main_prot_capacity cap) n (tl_main s)) as [[m' vs1] f1] eqn:E.
      destruct (pop_while n f1 (rev (tl_win s))) as [[vs2 f2] rest] eqn:E2.
      intros H. inversion H; subst s' vs f. clear H.
      destruct (slru_evict_split _ _ _ _ _ _ (tl_main_inv s HI) E) as [Vm [Hv1 [Hf1 [HPm Hsm]]]].
      destruct (pop_while_spec _ _ _ _ _ _ E2) as [tk [Hr [Hv2 [Hf2 [Hs2 _]]]]].
      assert (Hw : tl_win s = rev rest ++ rev tk).
      { rewrite <- (rev_involutive (tl_win s)), Hr, rev_app_distr. reflexivity. }
      assert (HP : Permutation (tl_tr s) ((Vm ++ tk) ++ rev rest ++ slru_tr m')).
      { unfold PolicyTinyLfu.tl_tr. apply win_split_perm; assumption. }
      subst vs1 vs2. rewrite <- keys_app.
      unfold PolicyTinyLfu.tl_tr at 2. cbn [tl_win tl_main].
      apply evict_ok_split.
      + exact HI.
      + exact HP.
      + rewrite total_app. lia.
      + intros Hn. destruct Hs2 as [Hs2|Hs2]; [exact Hs2|].
        destruct Hsm as [Hsm|Hsm]; [lia|].
        subst rest. rewrite Hsm in HP. cbn [rev app] in HP. rewrite app_nil_r in HP.
        apply total_perm in HP. rewrite total_app in HP. lia.
  Qed.

  Lemma keys_nil_inv (R : list kc) : keys R = [] -> R = [].
  Proof. destruct R; [reflexivity | discriminate]. Qed.

  Lemma tl_admit_ok cap k c (s : tlfu) : tl_inv s ->
    let '(s', o) := tl_admit sk sk_incr sk_est cap k c s in
    step_okG access_update admit_full evict_ok (tl_tr s) (Admit k c) o (tl_tr s').
  Proof.
    intros HI. unfold tl_admit.
    destruct (orb (ll_has k (sl_prob (tl_main s))) (ll_has k (sl_prot (tl_main s)))) eqn:Em.
    - (* already in main: an access that stores the new cost *)
      cbn [step_okG]. unfold admit_full, PolicyTinyLfu.tl_tr. cbn [tl_win tl_main].
      assert (Hin : In k (keys (slru_tr (tl_main s)))).
      { unfold slru_tr. rewrite keys_app. apply in_or_app.
        apply orb_true_iff in Em. destruct Em as [Em|Em]; apply ll_has_true in Em; tauto. }
      assert (Hw : ~ In k (keys (tl_win s))) by (eapply prefix_disjoint; eauto).
      pose proof (slru_access_ok (tl_main_prot_capacity cap) k c (tl_main s) (tl_main_inv s HI)) as Ha.
      pose proof (access_update_lift (tl_win s) _ _ k c Hw Ha) as Hb.
      unfold access_update in Hb. rewrite (lookup_prefix_none k _ _ Hw) in Hb.
      destruct (In_keys_lookup _ _ Hin) as [c0 Hl]. rewrite Hl in Hb. exact Hb.
    - (* new or in the window: push into the window, then shrink the window *)
      apply orb_false_iff in Em. destruct Em as [Epb Ept].
      apply ll_has_false in Epb. apply ll_has_false in Ept.
      assert (Hm : ~ In k (keys (slru_tr (tl_main s)))).
      { unfold slru_tr. rewrite keys_app. intros Hi. apply in_app_or in Hi. tauto. }
      set (win1 := ll_push_front k c (tl_win s)).
      set (T1 := (k, c) :: rm k (tl_tr s)).
      assert (HT1 : win1 ++ slru_tr (tl_main s) = T1).
      { unfold win1, T1, ll_push_front, PolicyTinyLfu.tl_tr. rewrite rm_app, (rm_id k _ Hm). reflexivity. }
      assert (Hnd1 : NoDup (keys T1)) by (apply NoDup_cons_rm; exact HI).
      destruct (tl_window_loop (length win1) (tl_window_target cap) (sk_incr (tl_sk s) k)
                  win1 (tl_main s) []) as [[win2 m2] rj] eqn:E.
      destruct (tl_window_loop_spec _ _ _ _ _ _ _ _ _ (ltac:(rewrite HT1; exact Hnd1)) E)
        as [R [Hrj HP]].
      cbn [rev app] in Hrj. rewrite HT1 in HP.
      pose proof (evict_ok_split T1 (win2 ++ slru_tr m2) R 0 (total R) Hnd1 HP eq_refl
                    (fun _ => N.le_0_l _)) as [Hv [Hin [_ [HW _]]]].
      assert (Htr' : PolicyTinyLfu.tl_tr sk (mkTlfu win2 m2 (sk_incr (tl_sk s) k)) = win2 ++ slru_tr m2)
        by reflexivity.
      destruct rj as [|r0 rt].
      + cbn [step_okG]. unfold admit_full. rewrite Htr'.
        symmetry in Hrj. apply keys_nil_inv in Hrj. subst R. cbn [keys map] in HW.
        rewrite without_nil in HW. exact HW.
      + cbn [step_okG]. unfold admit_evict_full. rewrite Htr'. rewrite Hrj. repeat split.
        * exact Hv.
        * intros x Hx. specialize (Hin x Hx). unfold T1 in Hin. cbn [keys map fst] in Hin.
          destruct Hin as [He|Hi]; [left; exact He | right].
          apply rm_keys_subset in Hi. tauto.
        * exact HW.
  Qed.

  Lemma tl_step_ok cap (s : tlfu) cl : tl_inv s ->
    let '(s', o) := tl_step sk sk_incr sk_est sk_clear cap s cl in
    step_okG access_update admit_full evict_ok (tl_tr s) cl o (tl_tr s').
  Proof.
    intros H. destruct cl as [k c|k c|k|n|]; cbn [tl_step].
    - cbn [step_okG]. apply tl_access_ok. exact H.
    - apply tl_admit_ok. exact H.
    - cbn [step_okG]. apply tl_remove_ok. exact H.
    - destruct (tl_evict sk cap n s) as [[s' vs] f] eqn:E.
      cbn [step_okG]. eapply tl_evict_ok; eauto.
    - reflexivity.
  Qed.

  Theorem tinylfu_contract cap :
    contractG access_update admit_full evict_ok
              (TinyLfuP sk sk_incr sk_est sk_clear sk0 cap).
  Proof.
    apply contractG_lift_nodup.
    - exact access_update_NoDup.
    - exact admit_full_NoDup.
    - intros T T' n vs c. apply evict_ok_core.
    - constructor.
    - intros s cl Hs. exact (tl_step_ok cap s cl Hs).
  Qed.
End TinyLfuProofs.

(* the replay instance used by the D1 driver is one of the instances quantified over *)
Corollary tinylfu_replay_contract rejects cap :
  contractG access_update admit_full evict_ok (TinyLfuReplayP rejects cap).
Proof. apply tinylfu_contract. Qed.
